#!/usr/bin/env python3
"""Evaluate one independently written breaking change against the checks.

usage: seed_eval.py <property-id> <name> <patch.diff> <demo_test.go> <note.txt> [extra check ids…]

1. confirms on /repo: with the patch the library builds and the pinned suite passes; the
   demonstration fails with the patch and passes without it;
2. runs ./check <id> quick (and the extra ids) with the patch applied;
3. always restores /repo (git checkout -- . ; demo removed);
4. writes /verif/seeded/<name>/{patch.diff, demo_test.go, meta.json}.
"""
import json, os, re, shutil, subprocess, sys, time

ENV = dict(os.environ, GOFLAGS="-mod=mod", GOPROXY="off", GOSUMDB="off", GOTOOLCHAIN="local")
# SEED_REPO / SEED_VERIF: evaluate on a scratch worktree of /repo and a scratch copy of /verif
# (tools/seed_add_par.sh); results are always written to /verif/seeded/<name>/
REPO = os.environ.get("SEED_REPO", "/repo")
VERIF = os.environ.get("SEED_VERIF", "/verif")
if REPO != "/repo":
    ENV.update(VERIF_ROOT=VERIF, VERIF_REPO=REPO)

def sh(cmd, cwd=None, timeout=1800):
    p = subprocess.run(cmd, shell=True, cwd=cwd, env=ENV, capture_output=True, text=True, timeout=timeout)
    return p.returncode, (p.stdout + p.stderr)

def main():
    pid, name, patch, demo, note = sys.argv[1:6]
    patch, demo = os.path.abspath(patch), os.path.abspath(demo)
    extra = sys.argv[6:]
    out = f"/verif/seeded/{name}"
    os.makedirs(out, exist_ok=True)
    assert sh("git status --short", REPO)[1].strip() == "", "/repo is not clean"
    first = open(demo).readline()
    m = re.search(r"place in:\s*(\S+)", first)
    pkgdir = m.group(1).strip("/") if m else ""
    demo_dst = f"{REPO}/{pkgdir}/zz_seed_demo_test.go"
    meta = {"property": pid, "name": name, "note": open(note).read() if os.path.exists(note) else "", "ran": []}
    try:
        # demo on the unchanged tree
        shutil.copy(demo, demo_dst)
        rc0, o0 = sh(f"go test -vet=off -count=1 ./{pkgdir}/", REPO)
        meta["demo_passes_without_change"] = rc0 == 0
        os.remove(demo_dst)
        # apply
        rc, o = sh(f"git apply {patch}", REPO)
        if rc != 0:
            meta["error"] = "patch does not apply: " + o[-400:]
            return meta
        rc, o = sh("go build ./... && go test -vet=off -count=1 ./...", REPO)
        meta["suite_passes_with_change"] = rc == 0
        if rc != 0:
            meta["suite_output"] = o[-600:]
        shutil.copy(demo, demo_dst)
        rc1, o1 = sh(f"go test -vet=off -count=1 ./{pkgdir}/", REPO)
        meta["demo_fails_with_change"] = rc1 != 0
        meta["demo_output"] = o1[-800:]
        os.remove(demo_dst)
        # checks
        for cid in [pid] + extra:
            t0 = time.time()
            rc, o = sh(f"./check {cid} quick", VERIF)
            lines = [l for l in o.splitlines() if l.startswith(("VIOLATION", "OK ", "INFRA", "KNOWN"))]
            meta["ran"].append({"check": f"./check {cid} quick", "exit": rc, "verdict": (lines[-1][:300] if lines else o[-300:]).replace(VERIF, "/verif"), "wall_s": round(time.time() - t0, 1)})
            mm = re.search(r"replay=(\S+)", o)
            if mm and os.path.exists(mm.group(1)):
                r = json.load(open(mm.group(1)))
                cs = r.get("cases") or []
                if cs:
                    meta["ran"][-1]["witness"] = {k: str(cs[0].get(k, ""))[:300] for k in ("kind", "readable", "implementation", "model", "spec")}
                meta["ran"][-1]["no_longer_checks"] = [b.get("what") for b in (r.get("no_longer_checks") or [])][:6]
        meta["detected"] = any(x["exit"] == 1 for x in meta["ran"])
        meta["detected_with_witness"] = any("witness" in x and "no-failing-input-found" not in x["verdict"] for x in meta["ran"])
    finally:
        if os.path.exists(demo_dst):
            os.remove(demo_dst)
        sh("git checkout -- . && git clean -fdq", REPO)
    return meta

if __name__ == "__main__":
    pid, name, patch, demo, note = sys.argv[1:6]
    out = f"/verif/seeded/{name}"
    old = json.load(open(out + "/meta.json")) if os.path.exists(out + "/meta.json") else None
    meta = main()
    if old:
        # keep what earlier versions of the checks said about this change
        meta["history"] = old.get("history", []) + [{"detected": old.get("detected"), "ran": [
            {"check": r["check"], "verdict": r["verdict"][:160]} for r in old.get("ran", [])]}]
        if not meta.get("note"):
            meta["note"] = old.get("note", "")
    for src, dst in ((patch, out + "/patch.diff"), (demo, out + "/demo_test.go")):
        if os.path.abspath(src) != os.path.abspath(dst):
            shutil.copy(src, dst)
    json.dump(meta, open(out + "/meta.json", "w"), indent=1)
    print(json.dumps({k: meta.get(k) for k in ("name", "suite_passes_with_change", "demo_fails_with_change", "demo_passes_without_change", "detected", "detected_with_witness")}))
    for r in meta.get("ran", []):
        print("  ", r["check"], "->", r["verdict"][:160])
