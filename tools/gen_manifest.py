#!/usr/bin/env python3
"""Regenerates MANIFEST.json from tools/manifest_data.json (claimed checks + reasons)."""
import json, os
root = os.path.dirname(os.path.dirname(os.path.abspath(__file__)))
data = json.load(open(os.path.join(root, "tools", "manifest_data.json")))
props = [json.loads(l)["id"] for l in open(os.path.join(root, "properties.jsonl"))]
checks = []
for pid in props:
    c = data["checks"].get(pid)
    if not c:
        continue
    checks.append({
        "property_id": pid,
        "quick_cmd": f"./check {pid} quick",
        "thorough_cmd": f"./check {pid} thorough",
        "evidence_file": f"/verif/evidence/{pid}.json",
        "replay_cmd_template": f"./check {pid} --replay {{path}}",
        "engine": "lean-godebian",
        "level_claimed": {"category": "proof", "text": c["text"], "design_ref": c.get("design_ref", "DESIGN.md §5 " + pid)},
        "level_note": c["note"],
        "technique": c.get("technique", "Lean 4 model + kernel-checked theorems; regenerated source facts (decide +kernel tie) + differential correspondence against the real API"),
    })
na = [{"property_id": pid, "reason": data["not_applicable"].get(pid, "check not built yet in this session; see DESIGN.md §9 (order of construction)")}
      for pid in props if pid not in data["checks"]]
m = {
    "version": 1,
    "setup_cmd": "cd /verif && ./setup.sh",
    "hooks": {"guard": "verif", "enable": "go build -tags verif (no source hooks are needed so far; the harness links /repo through a replace directive)",
              "baseline_off_cmd": "cd /repo && GOFLAGS=-mod=mod GOPROXY=off GOSUMDB=off go test -vet=off -count=1 ./...",
              "source_commits": [], "add_only": True},
    "engines": [{"name": "lean-godebian", "path": "/verif/lean", "serves_properties": [c["property_id"] for c in checks],
                 "kind_free_text": "Lean 4 project (models, specs, theorems, ties) + Go harness /verif/harness (extractor, generators, adapters, decision rule)"}],
    "checks": checks,
    "notes": data.get("notes", ""),
    "not_applicable": na,
}
json.dump(m, open(os.path.join(root, "MANIFEST.json"), "w"), indent=1)
print("checks:", [c["property_id"] for c in checks], "n/a:", [n["property_id"] for n in na])
