#!/bin/bash
# usage: tools/mutation_sweep.sh phase1|phase2 <mutdir> [-j N]
# phase1: which mutants (mutgen diffs in <mutdir>) compile and pass the pinned suite -> <mutdir>/survivors.txt
# phase2: run the quick checks of the properties anchored in the mutated package on every survivor
#         -> <mutdir>/verdicts.txt  (one line per mutant: DETECTED <ids> | undetected)
# Works on scratch worktrees of /repo and scratch copies of /verif; /repo's working tree is untouched.
phase=$1; D=$2; J=8
[ "$3" = "-j" ] && J=$4
export GOFLAGS=-mod=mod GOPROXY=off GOSUMDB=off GOTOOLCHAIN=local
checks_for() {
  case "$1" in
    version/*) echo "C01 C02 C03";;
    dependency/*) echo "C04 C05 C06 C19 C18";;
    control/parse.go) echo "C07 C08 C10 C11 C18";;
    control/decode.go) echo "C09 C10 C18 C19";;
    control/encode.go) echo "C08 C09";;
    control/dsc.go|control/changes.go) echo "C10 C19 C20";;
    control/filehash.go) echo "C10 C12 C20";;
    control/*) echo "C10 C18";;
    deb/*) echo "C13 C14 C15 C16";;
    changelog/*) echo "C17 C18";;
    hashio/*) echo "C12";;
    internal/*) echo "C20";;
  esac
}
worker1() {
  w=$1; shift
  W=/tmp/mw1-$w; rm -rf $W; git -C /repo worktree add --detach $W HEAD >/dev/null 2>&1
  for m in "$@"; do
    git -C $W checkout -q -- . ; git -C $W apply $D/$m.diff 2>/dev/null || { echo "$m noapply"; continue; }
    if (cd $W && go build ./... >/dev/null 2>&1 && go test -vet=off -count=1 ./... >/dev/null 2>&1); then echo "$m survives"; else echo "$m killed-by-suite"; fi
  done
  git -C /repo worktree remove --force $W >/dev/null 2>&1
}
worker2() {
  w=$1; shift
  W=/tmp/mw2-$w; rm -rf $W; mkdir -p $W; git -C /repo worktree add --detach $W/repo HEAD >/dev/null 2>&1
  rsync -a --exclude .git --exclude replays --exclude evidence /verif/ $W/verif/ 2>/dev/null
  sed -i "s#=> /repo#=> $W/repo#" $W/verif/harness/go.mod
  for m in "$@"; do
    git -C $W/repo checkout -q -- . ; git -C $W/repo apply $D/$m.diff 2>/dev/null || continue
    file=$(grep "^$m " $D/INDEX.txt | awk '{print $2}' | cut -d: -f1)
    det=""
    for id in $(checks_for $file); do
      v=$(cd $W/verif && VERIF_ROOT=$W/verif VERIF_REPO=$W/repo ./check $id quick 2>&1 | grep -E "^(OK|VIOLATION|INFRA)" | tail -1)
      case "$v" in OK*) ;; VIOLATION*no-failing-input-found*) det="$det $id(nw)";; VIOLATION*) det="$det $id";; *) det="$det $id(infra)";; esac
    done
    if [ -n "$det" ]; then echo "$m DETECTED$det"; else echo "$m undetected"; fi
  done
  git -C /repo worktree remove --force $W/repo >/dev/null 2>&1; rm -rf $W
}
if [ "$phase" = phase1 ]; then
  ms=($(awk '{print $1}' $D/INDEX.txt))
  for ((w=0; w<J; w++)); do
    part=(); for ((i=w; i<${#ms[@]}; i+=J)); do part+=(${ms[$i]}); done
    worker1 $w "${part[@]}" > $D/p1-$w.txt &
  done; wait
  cat $D/p1-*.txt | sort > $D/phase1.txt; grep survives $D/phase1.txt | awk '{print $1}' > $D/survivors.txt
  awk '{print $2}' $D/phase1.txt | sort | uniq -c
else
  ms=($(cat ${SURV:-$D/survivors.txt}))
  for ((w=0; w<J; w++)); do
    part=(); for ((i=w; i<${#ms[@]}; i+=J)); do part+=(${ms[$i]}); done
    worker2 $w "${part[@]}" > $D/p2-$w.txt &
  done; wait
  cat $D/p2-*.txt | sort > $D/verdicts.txt
  awk '{print $2}' $D/verdicts.txt | sort | uniq -c
fi
git -C /repo worktree prune
