#!/bin/sh
# Runs every claimed check (quick by default) on the current tree and validates the evidence files.
cd "$(dirname "$0")/.." || exit 2
tier=${1:-quick}
fail=0
for id in $(python3 -c "import json;print(' '.join(c['property_id'] for c in json.load(open('MANIFEST.json'))['checks']))"); do
  ./check $id $tier | grep -v '^KNOWN-FINDING' | cut -c1-200 || true
done
python3-vt - <<'PY'
import json,jsonschema,glob
sch=json.load(open('/root/.vp/EVIDENCE.schema.json'))
m=json.load(open('MANIFEST.json'))
jsonschema.validate(m, json.load(open('/root/.vp/MANIFEST.schema.json')))
for c in m['checks']:
    e=json.load(open(c['evidence_file']))
    jsonschema.validate(e,sch)
    cov=e['coverage']
    assert cov['obligations']==cov['discharged'] and cov['checker_cmd'].strip(), (c['property_id'],cov['obligations'],cov['discharged'])
print('manifest and', len(m['checks']), 'evidence files valid')
PY
