#!/bin/bash
# usage: tools/seed_par.sh [-j N] [-t tier] <seeded-name>...      (no names: every kept change)
# Evaluates kept changes in parallel.  Each one gets a scratch git worktree of /repo with the
# change applied and a scratch copy of /verif whose harness is pointed at that worktree; /repo's own
# working tree is never touched, so this can run next to other checks.  Prints one line per change.
# Scratch directories are removed as each job ends.
J=6; TIER=quick
while [ $# -gt 0 ]; do case "$1" in -j) J=$2; shift 2;; -t) TIER=$2; shift 2;; *) break;; esac; done
cd ${VSRC:-/verif} || exit 2
[ $# -eq 0 ] && set -- $(cd seeded && ls -d */ | tr -d /)
export TIER
one() {
  name=$1; id=${name%%-*}
  W=$(mktemp -d /tmp/sp-$name-XXXX)
  trap 'git -C /repo worktree remove --force $W/repo >/dev/null 2>&1; rm -rf $W' EXIT
  git -C /repo worktree add --detach $W/repo HEAD >/dev/null 2>&1 || { echo "$name worktree-failed"; return; }
  git -C $W/repo apply /verif/seeded/$name/patch.diff || { echo "$name patch-does-not-apply"; return; }
  rsync -a --exclude .git --exclude replays --exclude evidence ${VSRC:-/verif}/ $W/verif/
  sed -i "s#=> /repo#=> $W/repo#" $W/verif/harness/go.mod
  ( cd $W/verif && VERIF_ROOT=$W/verif VERIF_REPO=$W/repo ./check $id $TIER >$W/out 2>&1 )
  v=$(grep -E "^(OK|VIOLATION|INFRA)" $W/out | tail -1 | cut -c1-160 | sed "s#$W##g")
  r=$(grep -oE "replay=[^ ]+" $W/out | tail -1 | cut -d= -f2)
  wit=""
  [ -n "$r" ] && [ -f "$r" ] && wit=$(python3 - "$r" <<'PY'
import json,sys
r=json.load(open(sys.argv[1])); cs=r.get("cases") or []
if cs: print("| "+str(cs[0].get("kind"))+" | "+str(cs[0].get("readable"))[:140])
else: print("| "+"; ".join(str(b.get("what"))[:80] for b in (r.get("no_longer_checks") or [])[:3]))
PY
)
  echo "$name $v $wit"
  git -C /repo worktree remove --force $W/repo >/dev/null 2>&1; rm -rf $W; trap - EXIT
}
for n in "$@"; do
  while [ $(jobs -r | wc -l) -ge $J ]; do sleep 1; done
  one $n &
done
wait
git -C /repo worktree prune
