#!/usr/bin/env python3
"""Regenerates the round-3 and round-4 tables of seeded/README.md from seeded/*/meta.json
(rounds 1 and 2 are kept as written).  ADDED says what a missed change led to."""
import json, glob, os, re

ADDED = {
 "C01-r3b": "huge epochs (beyond 2^63) in compared pairs",
 "C02-r3b": "digit runs around 2^64 in compared components",
 "C05-r3a": "keyword case variants (Any, ALL, gnU) in architecture names",
 "C05-r3b": "all three-part spellings with gnu / linux / any in every position",
 "C06-r3b": "the architecture fixpoint law in the C06 stream",
 "C07-r3b": "Unicode white space at line ends (specification follows Go's TrimSpace)",
 "C08-r3a": "several structs through one Encoder with empty ones in between, all groupings",
 "C09-r3a": "embedded Paragraph as the last field; renamed optional fields",
 "C09-r3b": "probe struct with skipped / unsupported kinds between supported ones",
 "C10-r3a": "file entry points on relative and redundant path spellings (fileEntryLaw); Model/Accessors.lean + C10_acc_parseFileName_*",
 "C10-r3b": "law-docembed (embedded BestChecksums in index paragraphs)",
 "C11-r3b": "a second complete, validly signed document appended behind the first",
 "C14-r3a": "control / data tars compressed as two concatenated members (multi-member gzip, xz, bzip2, zstd)",
 "C15-r3b": "law-deblife: a handle closed twice, then two packages open at once and read in turns",
 "C16-r3a": "signed bytes kept under look-alike member names (data, dataorig, control_) while the loaded member is replaced",
 "C16-r3b": "roles up to the full 16-byte name column and absent roles that extend / shorten / re-case the present one",
 "C17-r3a": "changelog.ParseFile on regular files and named pipes (law-clfaithful)",
 "C18-r3a": "race reports kept as witnesses",
 "C18-r3b": "accessor totality law (every Get*Depends on malformed fields)",
 "C19-r3a": "multiarch qualifiers (:native, :any, :<arch>) and build profiles in build-dependency graphs",
 "C20-r3a": "byte-exact directory dumps and a much longer stale file of the same name in the destination",
 "C20-r3b": "the empty listed name (a .changes line with two blanks)",
 "C01-r4b": "Slice.Less as its own operation (verless) with dpkg-equal upstream spellings and a deciding revision",
 "C03-r4a": "zero-padded epochs of 15-45 digits",
 "C03-r4b": "law-verbatch: a batch marshalled first and parsed afterwards",
 "C04-r4b": "source-literal dictionary (core.SourceLiterals): tokens built around the string literals of the package as it is now",
 "C05-r4a": "source-literal dictionary (profile names)",
 "C05-r4b": "source-literal dictionary (architecture name parts) -> witness",
 "C07-r4a": "documents whose last line has exactly 4095/4096/4097/8191-8193/64 KiB bytes, with and without final newline (law-d822tail)",
 "C07-r4b": "field names that differ only in letter case within one paragraph",
 "C08-r4a": "writes to a failing writer (three failure modes) before the real encode",
 "C08-r4b": "values and documents with lines of 64 KiB and more written and read back",
 "C09-r4a": "known keys re-cased (alone, next to the known one, in two spellings) in decoded documents",
 "C10-r4a": "kept copies of a struct that is decoded into again (law-codecentry, also for the typed documents)",
 "C11-r4a": "several signature packets in one armor (over other texts, the empty text, by keyring keys and outsiders)",
 "C11-r4b": "law-clearsig-krmut: a keyring variable edited in place between reads",
 "C12-r4a": "hashing readers / writers driven by io.Copy and ReadAll over DataErrReader, OneByteReader and WriterTo sources",
 "C13-r4a": "the archive behind several ReaderAt kinds, some read from sequentially before",
 "C13-r4b": "member names other ar dialects give a meaning to (// table, /N references); Spec.Ar covers names ending in a slash",
 "C14-r4a": "same-compressor triples in law-deblife -> witness",
 "C14-r4b": "payload read through Deb.Data alone (handle dropped, collections in between)",
 "C15-r4a": "GNU name-table shaped members (with and without final newline) in the corruption streams",
 "C16-r4a": "law-debsig-extra: name-table members naming control.* / data.* in signed packages",
 "C16-r4b": "law-deblife in the debsig stream, every second package",
 "C17-r4a": "header lines of several KiB and truncation exactly at buffer boundaries",
 "C17-r4b": "entries beyond 64 KiB (thousands of change lines, one 70-100 KB line)",
 "C18-r4a": "mutation: a field once more with its name in other letter case",
 "C18-r4b": "law-depindep in the C18 stream (results changed in place; under the race detector)",
 "C19-r4a": "Package-List fields (arch=all, restricted binaries) in generated .dsc files",
 "C19-r4b": "build architectures with non-GNU ABIs and wildcard restrictions (linux-any, any-<cpu>, !linux-any)",
 "C04-r5a": "kept copies of a field whose variable is unmarshalled into again (shorter, equal, longer)",
 "C04-r5b": "pairs of names that collide under FNV-1 / FNV-1a / CRC-32 / Adler-32, in one field (core.CollidingPairs)",
 "C06-r5a": "architecture lists edited in place between queries (entries replaced, negation flipped)",
 "C06-r5b": "hostile process environment: Debian build variables and every upper-case identifier of the source set",
 "C07-r5a": "comment lines at and beyond the buffer-boundary sizes",
 "C07-r5b": "tolerant loops: reading on after an error, invariant on everything returned afterwards",
 "C08-r5b": "empty and nil slices encoded between the real calls (fourth grouping)",
 "C09-r5a": "defined types over the supported kinds in the probe structs (type Word string, []Word, type Tags []string)",
 "C10-r5a": "control files reached through a symbolic link into another directory",
 "C10-r5b": "sources that fail part-way with an error other than io.EOF",
 "C12-r5a": "ownership of Sum results (kept across later writes; scribbled on)",
 "C12-r5b": "io.WriteString and plain strings.Reader sources (the StringWriter / WriterTo paths), chunks above 1 KiB",
 "C14-r5a": "zstd frames declaring every window size up to 2^27 (raw-block frames written by hand)",
 "C15-r5a": "the archive behind an io.SectionReader whose declared length exceeds the data",
 "C15-r5b": "tar entries claiming 2^33 .. 2^62 bytes through a correctly checksummed base-256 size field",
 "C17-r5a": "long histories (1 - 33 MiB; 130 MiB thorough) through law-clcount",
 "C18-r5b": "a named, non-UTC local time zone for the harness and dates that name their zone",
 "C19-r5a": "hyphenated source names that are prefixes / suffixes / concatenations of each other",
 "C20-r5a": "every generated file carries the same modification time; stale destination files of equal size",
 "C20-r5b": "a real .dsc among the listed files which lists the .changes file itself",
 "C03-r6b": "runes whose case folding lands in ASCII (U+212A KELVIN SIGN, U+017F LONG S) inside version strings",
 "C04-r6a": "possibilities whose restriction clauses come in every order, with a broken one among them (law on the error route)",
 "C04-r6b": "tokens of exactly 16k - 1, 16k, 16k + 1 bytes for k = 1..8 (accumulator spill points), never trimmed",
 "C05-r6a": "possibilities with 9 - 20 profile groups and all three kinds of restriction at once (sort.Slice stability shows from 13 elements)",
 "C05-r6b": "a relationship field above 1 MiB through law-depbig (implementation only: parse, print, parse again)",
 "C06-r6a": "real CPU names in their GNU spellings (i486, i586, i686, x86_64, aarch64) in the architecture pools",
 "C07-r6a": "runs of up to millions of blank and comment lines in front of a stanza (goroutine stack bounded at 48 MiB)",
 "C08-r6a": "a byte order mark / zero-width bytes in front of the first field name and of the armor header",
 "C09-r6a": "two locally declared struct types of the same name and package path with different tags, encoded alternately",
 "C10-r6a": "stanzas separated by CR LF blank lines and blank-line runs before end of input, through every reader entry point",
 "C10-r6b": "typed documents that carry real Debian fields the struct does not declare, some in legacy syntax",
 "C11-r6b": "keyrings of 64 - 100 entities edited in place (same backing array, same length) between verifications",
 "C12-r6b": "a FileHash changed between Verifier() and Close()",
 "C14-r6a": "control files with every relationship field dpkg knows, some in forms dependency.Parse refuses (law-debbig)",
 "C14-r6b": "control members of several MiB (above any preallocation clamp), byte-exact comparison of the last field",
 "C16-r6b": "decoy member names with a slash after the prefix (control./x, data./y) next to the real members",
 "C18-r6a": "law-clzone: the same changelog text under time.Local = UTC, EST, CET, PST (run alone: core.ExclusiveOps)",
 "C18-r6b": "law-idxdet: indexes of 70 - 200 stanzas with a slow-failing damaged stanza right in front of a fast-failing one, 25 calls under GOMAXPROCS 1 / 4 / 8 / 16",
 "C19-r6a": "source names whose concatenations collide (ab + c = a + bc)",
 "C20-r6a": "files listed only in Checksums-Sha256 / Checksums-Sha1 (an empty or missing Files field) present next to the control file",
 "C03-r7a": "every version entry point (Parse, UnmarshalControl, UnmarshalText) reads the same text the same way, incl. white space around it",
 "C07-r7b": "armor header lines and other look-alikes inside field values (line-text pool)",
 "C08-r7a": "values with bytes that are no UTF-8 (Latin-1 names) and characters ending in 0x85 / 0xA0",
 "C08-r7b": "empty-valued fields; WriteTo, Marshal and an Encoder must write a paragraph the same way",
 "C09-r7b": "multiline text with empty lines in front, in the middle and at the end",
 "C10-r7a": "typed documents with non-ASCII continuation lines (last byte 0x85 / 0xA0)",
 "C10-r7b": "continuation lines whose text starts with '#' off the first column",
 "C11-r7a": "law-clearsig-reader: the caller's bufio.Reader reset / drained after NewParagraphReader returned",
 "C11-r7b": "two files walked side by side: another reader opened between the last paragraph of a verified reader and its end-of-input call (40 rounds)",
 "C12-r7b": "a finished verifier that is still written to while the next one of the same algorithm is open",
 "C14-r7a": "payloads that do not compress (5 - 70 KiB), read after Load through both entry points",
 "C14-r7b": "tar members with V7 (pre-POSIX) headers",
 "C15-r7a": "the magics of related archive formats (GNU thin, AIX big / small, other spellings)",
 "C16-r7a": "debian-binary with lines after the first: added, changed or removed after signing",
 "C16-r7b": "a dpkg-sig style clearsigned manifest made with a keyring key, control / data member swapped under another extension",
 "C17-r7b": "readers that deliver their last bytes together with io.EOF (iotest.DataErrReader, gzip.Reader)",
 "C18-r7a": "signed-zero and empty epochs (-0:1, -00:1.2, +0:1, :1) in every version stream incl. the concurrent one",
 "C19-r7a": "the same sources decoded from one stream into a slice, then ordered",
 "C20-r7a": "law-upload-xdev: the destination on another file system (rename fails with EXDEV)",
 "C03-r8a": "law-verjson-esc: the same JSON string spelled with \\uXXXX escapes decodes to the same version",
 "C08-r8b": "caller-built single-line values that keep their leading blanks (no trailing newline)",
 "C10-r8b": "the control file of a .deb decoded through deb.Load with control.tar stored in every way deb(5) names",
 "C11-r8a": "armored inline-signed OpenPGP messages (gpg --sign --armor) made with a key outside the keyring",
 "C12-r8b": "one BestChecksums variable decoded into paragraph after paragraph, its selector used in between",
 "C14-r8b": "further lines in debian-binary in the .deb model of C14",
 "C16-r8b": "law-debsig-krmut: keyrings of 1 - 100 entries replaced / emptied / refilled in place between CheckDebsig calls",
 "C17-r8a": "the caller's own ParseOne loop on a buffered reader of 16 - 8192 bytes",
}
FIRST8 = {}
try:
    for l in open("/verif/seeded/r8-first-run.txt"):
        f = l.split()
        if len(f) > 1:
            FIRST8[f[0]] = f[1]
except FileNotFoundError:
    pass
FIRST7 = {}
try:
    for l in open("/verif/seeded/r7-first-run.txt"):
        f = l.split()
        if len(f) > 1:
            FIRST7[f[0]] = f[1]
except FileNotFoundError:
    pass
FIRST6 = {}
try:
    for l in open("/verif/seeded/r6-first-run.txt"):
        f = l.split()
        if len(f) > 1:
            FIRST6[f[0]] = f[1]
except FileNotFoundError:
    pass
FIRST5 = {}
try:
    for l in open("/verif/seeded/r5-first-run.txt"):
        f = l.split()
        if len(f) > 1:
            FIRST5[f[0]] = f[1]
except FileNotFoundError:
    pass

def row(m):
    name = m["name"]
    note = (m.get("note") or "").strip().splitlines()[0][:150] if m.get("note") else ""
    final = "witness" if m.get("detected_with_witness") else ("no-failing-input-found (crash wrapper / model mismatch)" if m.get("detected") else "MISSED")
    hist = m.get("history") or []
    first = hist[0] if hist else None
    if name in FIRST5:
        # round 5 was first run against the machinery as committed before the round (r5-first-run.txt)
        first = {"detected": FIRST5[name] == "VIOLATION"}
    if name in FIRST6:
        first = {"detected": FIRST6[name] == "VIOLATION"}
    if name in FIRST7:
        first = {"detected": FIRST7[name] == "VIOLATION"}
    if name in FIRST8:
        first = {"detected": FIRST8[name] == "VIOLATION"}
    if first is None or first.get("detected"):
        fr = "detected on the first run"
        if first and name in ADDED:
            fr = "first run: detected (without a witness or by another law); then " + ADDED[name]
    else:
        fr = "first run: MISSED; added: " + ADDED.get(name, "(see DESIGN.md 11.7)")
    return f"| {name} | {m['property']} | {note.replace('|','/')} | {final} | {fr} |"

def table(tag):
    rows = []
    for p in sorted(glob.glob(f"/verif/seeded/*-{tag}*/meta.json")):
        rows.append(row(json.load(open(p))))
    return "| change | property | what it does (first line of the author's note) | final verdict of the quick check | history |\n|---|---|---|---|---|\n" + "\n".join(rows)

readme = open("/verif/seeded/README.md").read()
readme = re.split(r"\n## Third round", readme)[0].rstrip() + "\n"
readme += """
## Third round: two more per property, "needs something specific to manifest"

Forty changes by fresh sub-agents that were told only the property text and asked for changes that need a particular
interleaving, fault point, operation sequence, unusual input or two cooperating sites.  First run: 19 detected, 21 missed.

""" + table("r3") + """

## Fourth round: written against "structured generators with large inputs, reused receivers, long lines, odd bytes"

Forty more, by fresh sub-agents told that the maintainers already run randomized differential tests of that kind.
First run: 14 detected, 26 missed - the hardest round.  The misses fall into a few classes (DESIGN.md 11.7): words the code
itself spells out (source-literal dictionary), exact buffer-boundary sizes, letter-case variants of names, state kept
between calls in pools / caches / finalizers (lifecycle laws), alternative entry points and reader kinds.

""" + table("r4") + """

## Fifth round: written against a description of everything the bench already does

Forty more.  The authors were told that the maintainers' bench already uses exact buffer-boundary sizes, tokens from
the source's own literals, letter-case variants, reuse of receivers / buffers / handles / keyrings, double closes,
several values open at once, results mutated and re-parsed, the *File entry points with relative paths and pipes,
slow and EOF-with-data readers, io.Copy paths, concatenated compressed streams, several signatures in one armor,
look-alike member names and the race detector, and were asked for what such a bench would still miss.  Run against
the machinery as it was before the round (`r5-first-run.txt`): 20 detected, 20 missed.  After the extensions in the
last column: 40 detected, 36 with a concrete failing input.

""" + table("r5") + """

## Sixth round: the same brief once more, against the machinery after round 5

Thirty-eight more (one author did not deliver).  The authors got the round-5 description of the bench extended by what
round 5 added (colliding names, kept copies, hostile environment, lifecycle laws, hand-written zstd frames, huge
declared sizes, long histories).  Run against the machinery as it was before the round (`r6-first-run.txt`):
19 detected, 19 missed.  Two of the extensions the misses led to found a genuine defect in the unchanged library (a
`Filename` field in a .dsc / .changes / control document moved the handle the *File entry points return: /repo 4a3d482,
DESIGN.md 11.3).  After the extensions in the last column: 38 detected.

""" + table("r6") + """

## Seventh round: "different in kind from everything tried before"

Forty more.  Each author got, next to the property, one line per earlier change for that property (218 of them)
and was asked for something different in kind: other parts of the code, other entry points, other input classes.
First run (`r7-first-run.txt`; the machinery as committed before the round, except that three classes had been
added before the last ten changes were evaluated): 22 detected, 18 missed.  After the extensions in the last column:
40 detected.

""" + table("r7") + """

## Eighth round: ten properties once more (the ones round 7 hit hardest)

Nineteen changes (C03, C07, C08, C10, C11, C12, C14, C16, C17, C20; one author withdrew a change that the unchanged
suite caught), same brief as round 7 with the round-7 ideas added to the "already tried" list.  First run
(`r8-first-run.txt`): 11 detected, 8 missed.  After the extensions in the last column: 19 detected.

""" + table("r8") + "\n"
open("/verif/seeded/README.md", "w").write(readme)
print("README written")
