#!/usr/bin/env python3
import json,sys
r=json.load(open(sys.argv[1]))
n=int(sys.argv[2]) if len(sys.argv)>2 else 10
print(r.get('kind'), r.get('no_longer_checks'))
for c in r.get('cases',[])[:n]:
    print(c['kind'],'|',c.get('readable'),'\n   impl ',c['implementation'][:300],'\n   model',c.get('model','')[:300],'\n   spec ',c.get('spec','')[:200])
