#!/bin/sh
# usage: seed_try.sh <seeded-name> <check id>...   apply a kept change, run checks, undo
name=$1; shift
[ -z "$(git -C /repo status --short)" ] || { echo "/repo not clean"; exit 2; }
git -C /repo apply /verif/seeded/$name/patch.diff || exit 2
for id in "$@"; do (cd /verif && ./check $id quick 2>&1 | grep -E "^(OK|VIOLATION|INFRA)" | cut -c1-200); done
git -C /repo checkout -- . && git -C /repo clean -fdq
