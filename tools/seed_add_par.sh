#!/bin/bash
# usage: tools/seed_add_par.sh [-j N] <name>=<dir>...     dir holds patch.diff, demo_test.go, note.txt
# Confirms and evaluates new independently written changes in parallel, each on its own scratch
# worktree of /repo and scratch copy of /verif (tools/seed_eval.py does the work); results land in
# /verif/seeded/<name>/.  /repo's working tree is never touched.
J=6
while [ $# -gt 0 ]; do case "$1" in -j) J=$2; shift 2;; *) break;; esac; done
one() {
  name=${1%%=*}; dir=${1#*=}; id=${name%%-*}
  W=$(mktemp -d /tmp/sa-$name-XXXX)
  git -C /repo worktree add --detach $W/repo HEAD >/dev/null 2>&1 || { echo "$name worktree-failed"; return; }
  rsync -a --exclude .git --exclude replays --exclude evidence /verif/ $W/verif/
  sed -i "s#=> /repo#=> $W/repo#" $W/verif/harness/go.mod
  SEED_REPO=$W/repo SEED_VERIF=$W/verif python3 /verif/tools/seed_eval.py $id $name $dir/patch.diff $dir/demo_test.go $dir/note.txt 2>&1 | sed "s#$W##g" | sed "s/^/$name: /"
  git -C /repo worktree remove --force $W/repo >/dev/null 2>&1; rm -rf $W
}
for n in "$@"; do
  while [ $(jobs -r | wc -l) -ge $J ]; do sleep 1; done
  one $n &
done
wait
git -C /repo worktree prune
