#!/bin/sh
# Re-run every kept change against the quick check of its property (applies, checks, undoes).
cd /verif || exit 2
for d in seeded/*/; do
  n=$(basename $d); id=${n%%-*}
  printf "%s " $n
  tools/seed_try.sh $n $id | tr '\n' ' '
  echo
done
