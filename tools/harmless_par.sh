#!/bin/bash
# usage: tools/harmless_par.sh [-j N] <name>=<patch.diff>...
# Behaviour-preserving rewrites must leave every check silent.  Each patch gets a scratch worktree
# of /repo and a scratch copy of /verif; all twenty quick checks run there.  One line per
# (patch, check) that is not OK, and a summary line per patch.
J=5
while [ $# -gt 0 ]; do case "$1" in -j) J=$2; shift 2;; *) break;; esac; done
one() {
  name=${1%%=*}; patch=${1#*=}
  W=$(mktemp -d /tmp/hp-$name-XXXX)
  git -C /repo worktree add --detach $W/repo HEAD >/dev/null 2>&1 || { echo "$name worktree-failed"; return; }
  git -C $W/repo apply $patch || { echo "$name patch-does-not-apply"; git -C /repo worktree remove --force $W/repo; rm -rf $W; return; }
  rsync -a --exclude .git --exclude replays --exclude evidence /verif/ $W/verif/ 2>/dev/null
  sed -i "s#=> /repo#=> $W/repo#" $W/verif/harness/go.mod
  bad=0
  for id in ${HCHECKS:-C01 C02 C03 C04 C05 C06 C07 C08 C09 C10 C11 C12 C13 C14 C15 C16 C17 C18 C19 C20}; do
    v=$(cd $W/verif && VERIF_ROOT=$W/verif VERIF_REPO=$W/repo ./check $id quick 2>&1 | grep -E "^(OK|VIOLATION|INFRA)" | tail -1 | cut -c1-150)
    case "$v" in OK*) ;; *) bad=$((bad+1)); r=$(echo "$v" | grep -oE "replay=[^ ]+" | cut -d= -f2)
      w=""; [ -n "$r" ] && [ -f "$r" ] && w=$(python3 /verif/tools/showreplay.py $r 2>/dev/null | head -8 | cut -c1-900 | tr '\n' '~')
      echo "$name $id ALARM: $(echo $v | sed "s#$W##g") :: $w";; esac
  done
  echo "$name done alarms=$bad"
  git -C /repo worktree remove --force $W/repo >/dev/null 2>&1; rm -rf $W
}
for n in "$@"; do
  while [ $(jobs -r | wc -l) -ge $J ]; do sleep 1; done
  one $n &
done
wait
git -C /repo worktree prune
