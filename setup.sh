#!/bin/sh
# Builds the framework from files on disk only (offline).
set -e
cd "$(dirname "$0")"
export GOFLAGS=-mod=mod GOPROXY=off GOSUMDB=off GOTOOLCHAIN=local
mkdir -p bin evidence replays lean/GoDebian/Extracted
( cd harness && go build -tags verif -o ../bin/vcheck ./cmd/vcheck )
bin/vcheck --extract >/dev/null
tools/gen_root.sh
( cd lean && lake build GoDebian driver )
( cd lean && lake build $(ls GoDebian/Props/*.lean GoDebian/Tie/*.lean 2>/dev/null | sed 's/\.lean$//; s#/#.#g') )
echo setup done
