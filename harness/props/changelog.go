package props

import (
	"bufio"
	"bytes"
	"compress/gzip"
	"fmt"
	"io"
	"os"
	"sort"
	"strconv"
	"strings"
	"syscall"
	"testing/iotest"
	"time"

	"pault.ag/go/debian/changelog"
	"pault.ag/go/debian/version"

	"verif/harness/core"
)

func whenDump(t time.Time) string {
	_, off := t.Zone()
	return fmt.Sprintf("ok:%d:%d", t.Unix(), off)
}

func dumpClEntries(es changelog.ChangelogEntries) string {
	var xs []string
	for _, e := range es {
		var args []string
		for k, v := range e.Arguments {
			args = append(args, core.Hex(k)+"="+core.Hex(v))
		}
		sort.Strings(args)
		xs = append(xs, "("+strings.Join([]string{core.Hex(e.Source), strings.Join(encVersion(e.Version), " "), core.Hex(e.Target),
			"{" + strings.Join(args, ",") + "}", core.Hex(e.Changelog), core.Hex(e.ChangedBy), whenDump(e.When)}, " ")+")")
	}
	return "[" + strings.Join(xs, ";") + "]"
}

func clResult(es changelog.ChangelogEntries, err error) string {
	if err != nil {
		if len(es) != 0 {
			return "err+value"
		}
		return "err"
	}
	return "ok " + dumpClEntries(es)
}

// fifoWith creates a named pipe at path and a writer that delivers text to whoever opens it
func fifoWith(path, text string) string {
	if err := syscall.Mkfifo(path, 0o600); err != nil {
		return path
	}
	go func() {
		// wait (up to two minutes on a stalled machine) for a reader, write, close
		for i := 0; i < 120000; i++ {
			w, err := os.OpenFile(path, os.O_WRONLY|syscall.O_NONBLOCK, 0)
			if err == nil {
				syscall.SetNonblock(int(w.Fd()), false)
				w.WriteString(text)
				w.Close()
				return
			}
			time.Sleep(time.Millisecond)
		}
	}()
	return path
}

var changelogImpl = map[string]core.Adapter{
	"changelog": func(a []string) string {
		text := core.MustUnHex(a[0])
		res := clResult(changelog.Parse(strings.NewReader(text)))
		// the other ways in must agree: a reader that hands out one byte at a time, the
		// file entry points, and ParseOne for the first entry
		if one := clResult(changelog.Parse(iotest.OneByteReader(strings.NewReader(text)))); one != res {
			return "onebyte-differs " + res + " / " + one
		}
		// readers that hand out their last bytes together with io.EOF (gzip.Reader, io.SectionReader),
		// and a gzip stream as changelog.Debian.gz is read
		if de := clResult(changelog.Parse(iotest.DataErrReader(strings.NewReader(text)))); de != res {
			return "data-with-eof-reader-differs " + res + " / " + de
		}
		// the caller's own loop over ParseOne, on its own buffered reader of any size (what Parse
		// does, spelled out): the same entries, the same outcome
		if len(text)%3 != 1 {
			br := bufio.NewReaderSize(strings.NewReader(text), []int{16, 64, 1024, 4096, 8192}[len(text)%5])
			var es changelog.ChangelogEntries
			var lerr error
			for i := 0; i < 100000; i++ {
				e, err := changelog.ParseOne(br)
				if err == io.EOF {
					break
				}
				if err != nil {
					es, lerr = changelog.ChangelogEntries{}, err
					break
				}
				es = append(es, *e)
			}
			if loop := clResult(es, lerr); loop != res {
				return "parseone-loop-differs " + res + " / " + loop
			}
		}
		if len(text)%5 == 0 {
			var zb bytes.Buffer
			zw := gzip.NewWriter(&zb)
			zw.Write([]byte(text))
			zw.Close()
			if zr, err := gzip.NewReader(&zb); err == nil {
				if gz := clResult(changelog.Parse(zr)); gz != res {
					return "gzip-reader-differs " + res + " / " + gz
				}
			}
		}
		if len(text)%7 == 0 {
			f, err := os.CreateTemp("", "verif-changelog-")
			if err != nil {
				return "infrastructure"
			}
			defer os.Remove(f.Name())
			f.WriteString(text)
			f.Close()
			if viaFile := clResult(changelog.ParseFile(f.Name())); viaFile != res {
				return "parsefile-differs " + res + " / " + viaFile
			}
			// a named pipe: a file whose size is not known in advance (as with <(zcat changelog.gz))
			if viaPipe := clResult(changelog.ParseFile(fifoWith(f.Name()+".fifo", text))); viaPipe != res {
				os.Remove(f.Name() + ".fifo")
				return "parsefile-on-a-pipe-differs " + res + " / " + viaPipe
			}
			os.Remove(f.Name() + ".fifo")
			e1, err1 := changelog.ParseFileOne(f.Name())
			e2, err2 := changelog.ParseOne(bufio.NewReader(strings.NewReader(text)))
			if (err1 == nil) != (err2 == nil) || (err1 == nil && dumpClEntries(changelog.ChangelogEntries{*e1}) != dumpClEntries(changelog.ChangelogEntries{*e2})) {
				return "parsefileone-differs"
			}
			if strings.HasPrefix(res, "ok [(") && (err2 != nil || !strings.HasPrefix(res, "ok ["+strings.TrimSuffix(strings.TrimPrefix(dumpClEntries(changelog.ChangelogEntries{*e2}), "["), "]"))) {
				return "parseone-differs " + res
			}
		}
		return res
	},
	// law: a text that ends inside an entry gives an error; otherwise exactly the
	// entries it holds. args: hex text, number of complete entries, 1 if text remains after them
	"law-cltrunc": func(a []string) string {
		es, err := changelog.Parse(strings.NewReader(core.MustUnHex(a[0])))
		want, _ := strconv.Atoi(a[1])
		if a[2] == "1" {
			if err == nil {
				return fmt.Sprintf("FAIL %d entries and no error although the text ends inside an entry", len(es))
			}
			return "ok"
		}
		if err != nil {
			return "ok" // an error is always allowed by the property; the model comparison pins when
		}
		if len(es) != want {
			return fmt.Sprintf("FAIL %d entries, the text holds %d", len(es), want)
		}
		return "ok"
	},
}

type clEntry struct {
	Source, Version string
	Dists           []string
	Opts            [][2]string
	Body            []string
	Who             string
	When            time.Time
}

func genClEntry(r *core.Rand) clEntry {
	e := clEntry{Source: r.Pick([]string{"hello", "libfoo", "0ad", "x-y.z+1"})}
	ep, u, rv, hr := genWFVersion(r)
	e.Version = renderWF(ep, u, rv, hr)
	// tokens may begin and end with any printable byte the header grammar does not reserve
	// (blank, comma, semicolon, '=', parentheses): "_", "%", "~", "+", quotes, ... are ordinary
	odd := func(tok string) string {
		if r.Chance(1, 8) {
			const oddBytes = "_%~+\"'#*!?@^&|/\\.:-"
			c := string(oddBytes[r.Intn(len(oddBytes))])
			switch r.Intn(3) {
			case 0:
				return tok + c
			case 1:
				return c + tok
			}
			return c + tok + c
		}
		return tok
	}
	for n := r.Range(1, 3); n > 0; n-- {
		e.Dists = append(e.Dists, odd(r.Pick([]string{"unstable", "experimental", "bookworm-backports", "stable"})))
	}
	for n := r.Range(1, 3); n > 0; n-- {
		e.Opts = append(e.Opts, [2]string{odd(r.Pick([]string{"urgency", "binary-only", "x-flag"})), odd(r.Pick([]string{"low", "medium", "yes", "high (security)"}))})
	}
	if r.Chance(1, 8) {
		e.Source = odd(e.Source)
	}
	for n := r.Range(1, 5); n > 0; n-- {
		e.Body = append(e.Body, r.Pick([]string{"  * New upstream release.", "", "  * Fix a bug; closes: #123456", "    continued line", "  [ Someone ]", " -- not a trailer? no: this is indented differently", "  * a -- b"}))
	}
	if r.Chance(1, 25) {
		// a change line longer than a reader's internal buffer (a long bug list / URL)
		long := "  * closes: " + strings.Repeat(r.Pick([]string{"#123456, ", "x", "ab "}), r.Range(500, 1500)) + "end"
		e.Body = append(e.Body[:r.Intn(len(e.Body)+1)], append([]string{long}, e.Body[r.Intn(len(e.Body)+1):]...)...)
	}
	if r.Chance(1, 25) {
		// a header line of several KiB (a long list of options)
		for k := r.Range(250, 700); k > 0; k-- {
			e.Opts = append(e.Opts, [2]string{"x-opt" + strconv.Itoa(k), r.Pick([]string{"yes", "no", "medium"})})
		}
	}
	if r.Chance(1, 50) {
		// an entry of 64 KiB and more: many change lines, or one huge line
		if r.Bool() {
			for k := r.Range(1500, 2500); k > 0; k-- {
				e.Body = append(e.Body, "  * Update translation "+strconv.Itoa(k)+" (closes: #"+strconv.Itoa(100000+k)+")")
			}
		} else {
			e.Body = append(e.Body, "  * "+strings.Repeat("generated-file-name.ext ", r.Range(2800, 4500))+"end")
		}
	}
	e.Who = r.Pick(people)
	if r.Chance(1, 30) {
		// a trailer line longer than a reader's buffer (a long list of co-maintainers)
		e.Who = strings.Repeat("Co Maintainer, ", r.Range(280, 600)) + "and Others <team@example.org>"
	}
	e.When = time.Unix(int64(r.Intn(2000000000)), 0).In(time.FixedZone("", (r.Intn(27)-12)*1800))
	return e
}

func renderClEntry(r *core.Rand, e clEntry) string {
	var opts []string
	for _, o := range e.Opts {
		opts = append(opts, o[0]+"="+o[1])
	}
	var b strings.Builder
	b.WriteString(e.Source + " (" + e.Version + ") " + strings.Join(e.Dists, " ") + "; " + strings.Join(opts, r.Pick([]string{", ", ",", " , ", ",  ", ",\t"})) + "\n")
	b.WriteString("\n")
	for _, l := range e.Body {
		b.WriteString(clBodyLine(l) + "\n")
	}
	b.WriteString("\n")
	b.WriteString(" -- " + e.Who + "  " + e.When.Format(time.RFC1123Z) + "\n")
	return b.String()
}

// emitChangelog: phase 1 asks the model which date texts it would hand to time.Parse;
// the real time.Parse answers; phase 2 compares model and implementation.
func emitChangelog(g *core.G, text string) {
	h := core.Hex(text)
	g.EmitGen(func(out string) []string {
		f := strings.Fields(out)
		args := []string{"changelog", h}
		seen := map[string]bool{}
		for _, d := range f[1:] {
			if seen[d] {
				continue
			}
			seen[d] = true
			t, err := time.Parse(time.RFC1123Z, core.MustUnHex(d))
			if err != nil {
				args = append(args, d, "err")
			} else {
				args = append(args, d, whenDump(t))
			}
		}
		return []string{strings.Join(args, " ")}
	}, "clplan", h)
}

func streamChangelog(g *core.G) {
	r := g.R
	for _, s := range []string{"", "\n", "\n\n", "hello (1.0) unstable; urgency=low\n\n  * x\n\n -- A <a@b>  Mon, 02 Jan 2006 15:04:05 -0700\n", " leading space\n",
		"hello 1.0 unstable\n\n -- A <a@b>  Mon, 02 Jan 2006 15:04:05 -0700\n", "hello (1.0) unstable\n\n  * x\n -- A <a@b> Mon, 02 Jan 2006 15:04:05 -0700\n",
		"hello (1.0) unstable; urgency=low\n\n  * x\nnot indented\n -- A <a@b>  Mon, 02 Jan 2006 15:04:05 -0700\n", "hello (1.0) u; a=b\n  \n -- A  Mon, 02 Jan 2006 15:04:05 -0700"} {
		emitChangelog(g, s)
	}
	// long histories: total sizes around 1, 16, 17 and 32 MiB (and 64 / 128 MiB in the thorough tier)
	{
		e := genClEntry(r)
		e.Body = []string{"  * Routine upload."}
		e.Opts = e.Opts[:1]
		one := renderClEntry(r, e) + "\n"
		for _, total := range []int{1 << 20, 16<<20 - 100, 17 << 20, 33 << 20} {
			g.Emit("law-clcount", core.Hex(one), strconv.Itoa(total/len(one)+1))
		}
		if g.Thorough {
			g.Emit("law-clcount", core.Hex(one), strconv.Itoa((130<<20)/len(one)))
		}
	}
	n := g.N(120, 4000)
	for i := 0; i < n; i++ {
		var full strings.Builder
		var ends []int
		m := r.Range(1, 4)
		var models []clEntry
		for k := 0; k < m; k++ {
			if k > 0 {
				full.WriteString(strings.Repeat("\n", r.Range(1, 3)))
			}
			e := genClEntry(r)
			models = append(models, e)
			full.WriteString(renderClEntry(r, e))
			ends = append(ends, full.Len())
		}
		if r.Bool() {
			full.WriteString(strings.Repeat("\n", r.Intn(3)))
		}
		text := full.String()
		emitChangelog(g, text)
		g.Emit("law-cltrunc", core.Hex(text), strconv.Itoa(m), "0")
		g.Emit("law-clfaithful", core.Hex(text), core.Hex(expectedClDump(models)))
		// every truncation point (thorough) / a sample of them (quick)
		// every offset of short texts in the thorough tier; longer ones at ~600 offsets (plus the
		// buffer boundaries below): the prefixes of a text of n bytes take n^2/2 bytes
		step := 1
		if !g.Thorough {
			step = 1 + len(text)/40
		} else if len(text) > 1500 {
			step = 1 + len(text)/600
		}
		cuts := []int{}
		for cut := r.Intn(step); cut < len(text); cut += step {
			cuts = append(cuts, cut)
		}
		// and the places where a reader's buffer ends: multiples of 4096 and 65536, +-1
		if !g.Thorough || step > 1 {
			for c := 4096; c < len(text)+2; c += 4096 {
				for _, d := range []int{-1, 0, 1} {
					if c+d < len(text) && (c <= 16384 || c%65536 == 0 || r.Chance(1, 6)) {
						cuts = append(cuts, c+d)
					}
				}
			}
		}
		if len(text) > 16384 && len(cuts) > 14 {
			// a large text: the boundary cuts nearest the start and around 64 KiB, and a few others
			keep := []int{}
			for _, c := range cuts {
				if (c >= 4095 && c <= 4097) || (c >= 8191 && c <= 8193) || (c >= 65535 && c <= 65537) || r.Chance(1, 1+len(cuts)/6) {
					keep = append(keep, c)
				}
			}
			cuts = keep
		}
		for _, cut := range cuts {
			p := text[:cut]
			complete := 0
			lastEnd := 0
			for _, e := range ends {
				if e <= cut || e-1 == cut { // only the trailer's final newline is missing
					complete++
					lastEnd = e
				}
			}
			if lastEnd > cut {
				lastEnd = cut
			}
			partial := strings.TrimSpace(p[lastEnd:]) != ""
			emitChangelog(g, p)
			g.Emit("law-cltrunc", core.Hex(p), strconv.Itoa(complete), b01(partial))
		}
		// dates that name their zone instead of giving the offset (old changelogs, other tools):
		// not the Policy format; whatever happens must not depend on the process's local zone
		if i := strings.LastIndex(text, " +"); i > 0 && r.Chance(1, 3) {
			for _, z := range []string{"EST", "CET", "UTC", "GMT", "PST", "Z", "+01:00", "(CET)"} {
				if r.Chance(1, 3) {
					j := strings.IndexByte(text[i+1:], '\n')
					if j < 0 {
						j = len(text) - i - 1
					}
					emitChangelog(g, text[:i+1]+z+text[i+1+j:])
				}
			}
		}
		// malformed header / trailer / date: single edits
		for k := 0; k < 4; k++ {
			pos := r.Intn(len(text))
			bad := text[:pos] + string(r.PickByte("();=- \n,x0:")) + text[pos+1:]
			emitChangelog(g, bad)
		}
	}
}

func init() {
	tb := append(append([]string{}, leanTB...), "Model/Changelog.lean: hand transliteration of changelog.go (differentially tested, fingerprints)", "time.Parse(RFC1123Z) is a parameter: the real function parses the date texts the model extracts")
	core.Register(&core.Property{
		ID: "C17", PropsModule: "GoDebian.Props.C17",
		Facts: []string{"fingerprint:changelog.ParseOne", "fingerprint:changelog.Parse", "fingerprint:changelog.trim", "fingerprint:changelog.partition", "fingerprint:changelog.readLine"},
		Streams: []core.Stream{{Name: "changelog", Gen: streamChangelog,
			Domain: "entry-list models (1-4 entries, 1-3 distributions, 1-3 options, body shapes incl. empty lines and lines containing ' -- ', blank-line runs between entries, trailing blank lines or none) rendered in dpkg format; truncation points of each rendering (every one in thorough, ~40 per changelog in quick); single-byte edits of header/trailer/date characters; model (with the real time.Parse verdict on the date texts the model extracts) vs changelog.Parse: per entry source, version, target, options, verbatim body, maintainer, instant and zone offset; law-cltrunc: a text ending inside an entry gives an error, otherwise exactly the entries it holds"}},
		Impl: changelogImpl, TrustedBase: tb,
		Readable: func(op string, a []string) string {
			return fmt.Sprintf("%s(%q) %v", op, core.MustUnHex(a[0]), a[1:min(len(a), 3)])
		},
	})
}

func clBodyLine(l string) string {
	if l == " -- not a trailer? no: this is indented differently" {
		return "  -- two blanks before the dashes"
	}
	return l
}

// expectedClDump: what parsing must return for the entry models, computed from the models
func expectedClDump(es []clEntry) string {
	var xs []string
	for _, e := range es {
		v, _ := version.Parse(e.Version)
		var args []string
		m := map[string]string{}
		for _, o := range e.Opts {
			m[o[0]] = o[1]
		}
		for k, val := range m {
			args = append(args, core.Hex(k)+"="+core.Hex(val))
		}
		sort.Strings(args)
		body := "\n"
		for _, l := range e.Body {
			body += clBodyLine(l) + "\n"
		}
		body += "\n"
		xs = append(xs, "("+strings.Join([]string{core.Hex(e.Source), strings.Join(encVersion(v), " "), core.Hex(strings.Join(e.Dists, " ")),
			"{" + strings.Join(args, ",") + "}", core.Hex(body), core.Hex(e.Who), whenDump(e.When)}, " ")+")")
	}
	return "[" + strings.Join(xs, ";") + "]"
}

func init() {
	// law: a long history comes back whole: `count` copies of an entry (args: entry text, count),
	// tens of MiB in the thorough tier
	changelogImpl["law-clcount"] = func(a []string) string {
		entry := core.MustUnHex(a[0])
		n, _ := strconv.Atoi(a[1])
		es, err := changelog.Parse(strings.NewReader(strings.Repeat(entry, n)))
		if err != nil {
			return fmt.Sprintf("FAIL %d well-formed entries (%d bytes) rejected: %v", n, n*len(entry), err)
		}
		if len(es) != n {
			return fmt.Sprintf("FAIL %d well-formed entries (%d bytes) in, %d out and no error", n, n*len(entry), len(es))
		}
		return "ok"
	}
	// law: every entry comes back with the source, version, distributions, options, verbatim
	// change text, maintainer and timestamp written in it
	changelogImpl["law-clfaithful"] = func(a []string) string {
		es, err := changelog.Parse(strings.NewReader(core.MustUnHex(a[0])))
		if err != nil {
			return "FAIL rejected: " + err.Error()
		}
		want := core.MustUnHex(a[1])
		if got := dumpClEntries(es); got != want {
			return "FAIL entries differ from what was written: got " + clipStr(got, 300) + " want " + clipStr(want, 300)
		}
		// the same through the file entry point: a regular file and a named pipe
		if f, err := os.CreateTemp("", "verif-changelog-"); err == nil {
			defer os.Remove(f.Name())
			f.WriteString(core.MustUnHex(a[0]))
			f.Close()
			for _, path := range []string{f.Name(), fifoWith(f.Name()+".fifo", core.MustUnHex(a[0]))} {
				es, err := changelog.ParseFile(path)
				if path != f.Name() {
					os.Remove(path)
				}
				if err != nil {
					return "FAIL ParseFile(" + map[bool]string{true: "regular file", false: "named pipe"}[path == f.Name()] + ") rejected: " + err.Error()
				}
				if got := dumpClEntries(es); got != want {
					return "FAIL ParseFile(" + map[bool]string{true: "regular file", false: "named pipe"}[path == f.Name()] + "): entries differ from what was written: got " + clipStr(got, 300) + " want " + clipStr(want, 300)
				}
			}
		}
		return "ok"
	}
}
