package props

import (
	"bufio"
	"fmt"
	"io"
	"os"
	"os/exec"
	"time"

	"pault.ag/go/debian/changelog"
	"pault.ag/go/debian/control"
	"pault.ag/go/debian/dependency"
	"pault.ag/go/debian/version"
	"runtime"
	"strconv"
	"strings"
	"sync"

	"verif/harness/core"
)

// every parser entry point C18 names, as (operation, fixed leading arguments)
type entryPoint struct {
	Name string
	Op   string
	Pre  func() []string
	Seed func(r *core.Rand) string
}

func typedPre(op, kind string) func() []string {
	return func() []string { _, a := codecOp(op, kind); return a }
}

var entryPoints []entryPoint

func init() {
	dep := func(r *core.Rand) string { return renderDep(r, genDepAST(r), r.Intn(4)) }
	doc := func(kind string) func(r *core.Rand) string {
		return func(r *core.Rand) string { t, _ := genTypedDoc(r, kind); return t }
	}
	entryPoints = []entryPoint{
		{"version.Parse", "verparse", nil, func(r *core.Rand) string { e, u, v, h := genWFVersion(r); return renderWF(e, u, v, h) }},
		{"dependency.ParseArch", "archparse", nil, func(r *core.Rand) string { return r.Pick(archNames) }},
		{"dependency.ParseArchitectures", "archlist", nil, func(r *core.Rand) string { return r.Pick(archNames) + " " + r.Pick(archNames) }},
		{"dependency.Parse", "depparse", nil, dep},
		{"control.ParagraphReader", "d822", nil, func(r *core.Rand) string { return genLineSoup(r) }},
		{"control.ParseDsc", "docu", typedPre("docu", "DSC"), doc("DSC")},
		{"control.ParseChanges", "docu", typedPre("docu", "Changes"), doc("Changes")},
		{"control.ParseBinaryIndex", "docus", typedPre("docus", "BinaryIndex"), doc("BinaryIndex")},
		{"control.ParseSourceIndex", "docus", typedPre("docus", "SourceIndex"), doc("SourceIndex")},
		{"control.Unmarshal(probe)", "codecu", typedPre("codecu", "ProbeBasic"), func(r *core.Rand) string {
			return "Name: x\nCount: 3\nReq: y\nCommas: a, b\nVer: 1.0-1\nDepends: foo (>= 1) | bar\nArch: amd64\nChecksums-Sha256:\n " + strings.Repeat("a", 64) + " 5 f\nReq-Commas: a\nReq-Versions: 1,2\n"
		}},
		{"changelog.Parse", "changelog", nil, func(r *core.Rand) string {
			t := renderClEntry(r, genClEntry(r))
			if i := strings.LastIndex(t, " +"); i > 0 && r.Chance(1, 4) {
				// a date that names its zone: whatever the parser does with it does not depend on
				// the process's local zone (the harness runs in a named, non-UTC one)
				t = t[:i+1] + r.Pick([]string{"EST", "CET", "UTC", "PST", "GMT"}) + "\n"
			}
			return t
		}},
	}
	// all adapters this property drives
	for k, v := range versionImpl {
		totalImpl[k] = v
	}
	for k, v := range depImpl {
		totalImpl[k] = v
	}
	for k, v := range deb822Impl {
		totalImpl[k] = v
	}
	for k, v := range codecImpl {
		totalImpl[k] = v
	}
	for k, v := range changelogImpl {
		totalImpl[k] = v
	}
}

var totalImpl = map[string]core.Adapter{}

func init() {
	totalImpl["law-concurrent"] = lawConcurrent
	// law: what changelog.Parse makes of a text does not depend on the process's local time zone.
	// time.Local cannot be changed under running parsers without a data race (a straggler of an
	// operation the watchdog gave up on may still be reading it), so each zone gets a child process
	// of this binary (`vcheck --clzone`, zone in VERIF_LOCAL_ZONE).  args: text (hex)
	totalImpl["law-clzone"] = func(a []string) string {
		exe, err := os.Executable()
		if err != nil {
			return "ok"
		}
		var first, firstZone string
		for i, z := range []string{"UTC:0", "EST:-18000", "CET:3600", "PST:-28800"} {
			cmd := exec.Command(exe, "--clzone")
			cmd.Env = append(append([]string{}, core.OrigEnv...), "VERIF_LOCAL_ZONE="+z)
			cmd.Stdin = strings.NewReader(a[0] + "\n")
			out, err := cmd.Output()
			if err != nil {
				return "ok" // the child could not be run: nothing is concluded
			}
			got := strings.TrimSpace(string(out))
			if i == 0 {
				first, firstZone = got, z
			} else if got != first {
				return fmt.Sprintf("FAIL the result depends on the local zone: with %s %s, with %s %s", firstZone, clipStr(first, 300), z, clipStr(got, 300))
			}
		}
		return "ok"
	}
	// law: Unmarshal of an index into a slice gives the same entries and the same error for the same
	// bytes on every call and with any number of processors.  args: kind, text (hex)
	core.ExclusiveOps["law-idxdet"] = true
	totalImpl["law-idxdet"] = func(a []string) string {
		text := core.MustUnHex(a[1])
		outcome := func() string {
			var n int
			var err error
			if a[0] == "BinaryIndex" {
				l := []control.BinaryIndex{}
				err = control.Unmarshal(&l, strings.NewReader(text))
				n = len(l)
			} else {
				l := []control.SourceIndex{}
				err = control.Unmarshal(&l, strings.NewReader(text))
				n = len(l)
			}
			return fmt.Sprintf("%d entries, error: %v", n, err)
		}
		defer runtime.GOMAXPROCS(runtime.GOMAXPROCS(0))
		first := outcome()
		for _, procs := range []int{1, 4, 8, 16} {
			runtime.GOMAXPROCS(procs)
			for try := 0; try < 6; try++ {
				if got := outcome(); got != first {
					return fmt.Sprintf("FAIL same bytes, different outcome (GOMAXPROCS=%d): %q, then %q", procs, first, got)
				}
			}
		}
		return "ok"
	}
	// law: a parse that is waiting for more input (a pipe or socket with an incomplete stanza)
	// does not keep independent parses from finishing.  args: the text parsed meanwhile (hex)
	totalImpl["law-noblock"] = func(a []string) string {
		text := core.MustUnHex(a[0])
		pr, pw := io.Pipe()
		started := make(chan struct{})
		finished := make(chan struct{})
		go func() {
			defer close(finished)
			r, err := control.NewParagraphReader(&signalReader{r: pr, second: started}, nil)
			if err == nil {
				r.All()
			}
		}()
		go pw.Write([]byte("Package: waiting\nDescription: half a stanza\n"))
		select {
		case <-started: // the blocked parser has consumed what there is and waits for more
		case <-time.After(30 * time.Second):
		}
		done := make(chan string, 1)
		go func() {
			ps, err := readAllParas(text)
			var sl []rawPara
			control.Unmarshal(&sl, strings.NewReader(text))
			d, _ := control.NewDecoder(strings.NewReader(text), nil)
			if d != nil {
				var one rawPara
				d.Decode(&one)
			}
			dependency.Parse("foo (>= 1) | bar [amd64]")
			version.Parse("1:2.0-3")
			changelog.Parse(strings.NewReader("hello (1.0) unstable; urgency=low\n\n  * x\n\n -- A <a@b>  Mon, 02 Jan 2006 15:04:05 -0700\n"))
			done <- fmt.Sprintf("%d %v", len(ps), err == nil)
		}()
		verdict := "ok"
		select {
		case <-done:
		case <-time.After(90 * time.Second): // a deadlock lasts for ever; a loaded machine does not
			verdict = "FAIL independent parses do not finish while another reader waits for its input"
		}
		pw.Close()
		<-finished
		return verdict
	}
}

// signalReader closes `second` when Read is called for the second time
type signalReader struct {
	r      io.Reader
	n      int
	second chan struct{}
}

func (s *signalReader) Read(p []byte) (int, error) {
	s.n++
	if s.n == 2 {
		close(s.second)
	}
	return s.r.Read(p)
}

var _ = map[string]core.Adapter{
	// law: repeated calls and 16 concurrent goroutines on independent inputs give identical
	// results (run under the race detector by ./check C18). args: n, then n op lines hex-encoded
	"unused": nil,
}

func lawConcurrent(a []string) string {
	{
		n, _ := strconv.Atoi(a[0])
		lines := make([]string, n)
		for i := range lines {
			lines[i] = core.MustUnHex(a[1+i])
		}
		run := func(l string) string {
			f := strings.Fields(l)
			return totalImpl[f[0]](f[1:])
		}
		seq := make([]string, n)
		for i, l := range lines {
			seq[i] = run(l)
			if again := run(l); again != seq[i] {
				return fmt.Sprintf("FAIL two sequential calls differ on input %d", i)
			}
			if strings.HasPrefix(seq[i], "err+value") {
				return fmt.Sprintf("FAIL input %d: an error together with a usable value", i)
			}
		}
		var wg sync.WaitGroup
		bad := make(chan string, 16)
		for gi := 0; gi < 16; gi++ {
			wg.Add(1)
			go func(gi int) {
				defer wg.Done()
				defer func() {
					if r := recover(); r != nil {
						bad <- fmt.Sprintf("FAIL panic in goroutine %d: %v", gi, r)
					}
				}()
				for k := 0; k < n; k++ {
					i := (k*7 + gi*3) % n
					if got := run(lines[i]); got != seq[i] {
						bad <- fmt.Sprintf("FAIL goroutine %d got a different result on input %d", gi, i)
						return
					}
				}
			}(gi)
		}
		wg.Wait()
		select {
		case m := <-bad:
			return m
		default:
		}
		return "ok"
	}
}

const hostileBytes = ",|:()[]<>!${} \t\n\r=-.~+#\x00\x80\xc2\xa0\xe2\x80\xa8\xffaZ09"

func mutateRaw(r *core.Rand, s string) string {
	for k := r.Range(1, 4); k > 0; k-- {
		if len(s) == 0 {
			return r.Str(hostileBytes, r.Intn(8))
		}
		p := r.Intn(len(s))
		switch r.Intn(8) {
		case 7: // a "Name: value" line once more with its name in other letter case (or only so)
			ls := strings.SplitAfter(s, "\n")
			k := r.Intn(len(ls))
			if c := strings.IndexByte(ls[k], ':'); c > 0 && ls[k][0] != ' ' {
				lo, up := strings.ToLower(ls[k][:c])+ls[k][c:], strings.ToUpper(ls[k][:c])+ls[k][c:]
				if !strings.HasSuffix(lo, "\n") {
					lo, up = lo+"\n", up+"\n"
				}
				ls[k] = r.Pick([]string{lo + up, up + lo, lo + ls[k], lo, up})
				s = strings.Join(ls, "")
			}
		case 0:
			s = s[:p] + string(r.PickByte(hostileBytes)) + s[p+1:]
		case 1:
			s = s[:p] + string(r.PickByte(hostileBytes)) + s[p:]
		case 2:
			s = s[:p] + s[p+1:]
		case 3:
			s = s[:p]
		case 4: // duplicate a span
			q := p + r.Intn(len(s)-p)
			s = s[:q] + s[p:q] + s[q:]
		case 5: // splice another part of itself
			q := r.Intn(len(s))
			s = s[:p] + s[q:]
		case 6:
			s = s[:p] + r.Str(hostileBytes, r.Range(1, 6)) + s[p:]
		}
	}
	return s
}

func bigInput(r *core.Rand, seed string) string {
	target := r.Pick2i(4096, 65536)
	switch r.Intn(5) {
	case 0: // one very long token
		return strings.Repeat(string(r.PickByte("a1-.~")), target)
	case 1: // many repetitions of a separator pattern
		pat := r.Pick([]string{"a,", "a|", "(", "[x ", "<y ", "A: b\n", " c\n", "\n", ": ", "${", "a (>= 1) ", "x\n\n"})
		return strings.Repeat(pat, target/len(pat))
	case 2: // the seed repeated
		if len(seed) == 0 {
			seed = "x"
		}
		return strings.Repeat(seed+r.Pick([]string{"", ",", "\n", "\n\n", " "}), 1+target/(len(seed)+1))
	case 3: // random hostile bytes
		return r.Str(hostileBytes, target)
	default: // seed followed by a long tail
		return seed + r.Str("ab \n:", target)
	}
}

func emitTotal(g *core.G, ep entryPoint, input string, batch *[]string) {
	var args []string
	if ep.Pre != nil {
		args = append(args, ep.Pre()...)
	}
	h := core.Hex(input)
	if ep.Op == "changelog" {
		emitChangelog(g, input)
		// the concurrent law uses the implementation only
		*batch = append(*batch, core.Hex("changelog "+h))
		return
	}
	args = append(args, h)
	g.Emit(ep.Op, args...)
	*batch = append(*batch, core.Hex(ep.Op+" "+strings.Join(args, " ")))
}

func streamTotal(g *core.G) {
	r := g.R
	n := g.N(60, 3000)
	var batch []string
	flush := func() {
		if len(batch) > 0 {
			g.Emit("law-concurrent", append([]string{strconv.Itoa(len(batch))}, batch...)...)
			batch = nil
		}
	}
	for i := g.N(3, 20); i > 0; i-- {
		g.Emit("law-noblock", core.Hex(genLineSoup(r)+"\n\nPackage: p\nVersion: 1\n"))
	}
	for _, ep := range entryPoints {
		for i := 0; i < n; i++ {
			seed := ep.Seed(r)
			var in string
			switch r.Intn(10) {
			case 0:
				in = seed
			case 1:
				in = r.Str(hostileBytes, r.Intn(40))
			default:
				in = mutateRaw(r, seed)
			}
			emitTotal(g, ep, in, &batch)
			if len(batch) >= 24 {
				flush()
			}
		}
		if ep.Op == "depparse" {
			// what a caller does to one result has no influence on later parses
			for i := g.N(60, 3000); i > 0; i-- {
				g.Emit("law-depindep", core.Hex(ep.Seed(r)))
			}
		}
		if ep.Op == "archparse" {
			for _, n := range archNames {
				g.Emit("law-archrt", core.Hex(n))
			}
		}
		// the accessors of index paragraphs parse relationship fields on demand: a malformed
		// field must give the empty value, not a panic (law-accessors calls every accessor)
		if strings.HasSuffix(ep.Name, "Index") {
			kind := strings.TrimPrefix(ep.Name, "control.Parse")
			for i := g.N(40, 1500); i > 0; i-- {
				bad := r.Pick([]string{"libc6 (>= 2.14", "foo [amd64 !i386]", "foo bar", "${misc:Depends", "foo (>> 1) (<< 2)", "a |", ", ,", "foo <!a b", "foo:", "x (== 1)"})
				if r.Chance(1, 3) {
					bad = mutateRaw(r, renderDep(r, genDepAST(r), r.Intn(4)))
				}
				text := "Package: p\nVersion: 1\nArchitecture: all\nDepends: " + bad + "\nPre-Depends: " + bad + "\nConflicts: " + bad + "\nBuilt-Using: " + bad + "\n"
				if kind == "SourceIndex" {
					text = "Package: p\nVersion: 1\nBinary: p\nBuild-Depends: " + bad + "\nBuild-Depends-Indep: " + bad + "\nBuild-Depends-Arch: " + bad + "\n"
				}
				g.Emit("law-accessors", kind, core.Hex(text))
			}
		}
		if ep.Op == "verparse" {
			for _, s := range verFixedSeeds {
				emitTotal(g, ep, s, &batch)
			}
		}
		if ep.Op == "changelog" {
			// dates that name their zone, unmutated (see the seed above)
			for _, z := range []string{"EST", "CET", "UTC", "PST", "GMT", "AEST", "Z"} {
				t := renderClEntry(r, genClEntry(r))
				if i := strings.LastIndexAny(t, "+-"); i > 0 && i > len(t)-8 {
					emitTotal(g, ep, t[:i]+z+"\n", &batch)
					g.Emit("law-clzone", core.Hex(t[:i]+z+"\n"))
				}
			}
		}
		if strings.HasSuffix(ep.Name, "Index") {
			// long indexes (70-200 stanzas) with two damaged stanzas far apart: the same error, the same
			// (empty) result on every run and from every goroutine
			for i := g.N(3, 20); i > 0; i-- {
				var parts []string
				for k := r.Range(70, 200); k > 0; k-- {
					parts = append(parts, ep.Seed(r))
				}
				// the first damaged stanza is slow to fail (a long list, then a bad number late in the
				// struct), the second fails at once; mostly adjacent and beyond the 64th
				a := r.Range(64, len(parts)-2)
				if r.Chance(1, 4) {
					a = r.Intn(len(parts) - 1)
				}
				b := a + 1
				if r.Chance(1, 3) {
					b = r.Range(a+1, len(parts)-1)
				}
				if strings.Contains(ep.Name, "Binary") {
					parts[a] = "Package: slow\nVersion: 1.0\nArchitecture: amd64\nTag: " + strings.Repeat("x::y, ", r.Range(500, 6000)) + "z\nSize: abc\n"
				} else {
					parts[a] = "Package: slow\nBinary: " + strings.Repeat("b, ", r.Range(500, 6000)) + "z\nVersion: 1.0\nArchitecture: " + strings.Repeat("amd64 ", 2000) + "\nFormat: 1.0\nFiles:\n zz\n"
				}
				parts[b] = "Package: fast\nVersion: _\n"
				emitTotal(g, ep, strings.Join(parts, "\n"), &batch)
				kind := "SourceIndex"
				if strings.Contains(ep.Name, "Binary") {
					kind = "BinaryIndex"
				}
				g.Emit("law-idxdet", kind, core.Hex(strings.Join(parts, "\n")))
			}
		}
		// large inputs (4 KiB and 64 KiB)
		for i := g.N(2, 12); i > 0; i-- {
			emitTotal(g, ep, bigInput(r, ep.Seed(r)), &batch)
		}
		flush()
	}
}

func init() {
	tb := append(append([]string{}, leanTB...), "all parser models (Version, Dependency, Deb822, Codec, Changelog): totality of the model is a theorem (no panic / fuel outcome); that the Go code has no other failure mode is observed (recover + watchdog), not proved",
		"data-race freedom: no package-level mutable state (extracted fact) and no goroutines in the packages; observed with the Go race detector on 16 concurrent goroutines; the Go memory model is not formalised")
	core.Register(&core.Property{
		ID: "C18", PropsModule: "GoDebian.Props.C18", TieModule: "GoDebian.Tie.Globals",
		Facts: []string{"globals:inventory", "fingerprint:dependency.input.Peek", "fingerprint:dependency.input.Next"},
		Streams: []core.Stream{{Name: "total", Gen: streamTotal,
			Domain: "per entry point (version.Parse, ParseArch, ParseArchitectures, dependency.Parse, ParagraphReader, ParseDsc, ParseChanges, ParseBinaryIndex, ParseSourceIndex, Unmarshal into a probe struct, changelog.Parse): grammar-derived seeds, 1-3 random mutations of them (substitute / insert / delete / truncate / duplicate / splice / hostile bytes incl. NUL, CR, high bytes, UTF-8 blanks / a field once more with its name in other letter case), short hostile strings, and 4 KiB / 64 KiB inputs (one long token, thousands of separators, repeated seeds, random bytes); model vs implementation (a panic or a hang of the Go code shows up as such; 'err+value' = value together with an error); long indexes (70-200 stanzas) with two damaged stanzas, a slow-failing one in front of a fast-failing one; law-idxdet: Unmarshal of such an index into a slice gives the same entry count and error on 25 calls under GOMAXPROCS 1/4/8/16; changelog dates that name their zone (EST, CET, ...) and law-clzone: the same result whatever time.Local is (UTC, EST, CET, PST); law-depindep: a parse result changed in place does not influence later parses; law-noblock: a reader waiting on a pipe does not stall independent parses; law-concurrent: every input parsed twice sequentially and by 16 goroutines in shuffled order, in a binary built with -race"}},
		Impl: totalImpl, TrustedBase: tb,
		Readable: func(op string, a []string) string {
			if op == "law-concurrent" {
				return "law-concurrent on " + a[0] + " inputs"
			}
			last := a[len(a)-1]
			if op == "changelog" {
				last = a[0]
			}
			return fmt.Sprintf("%s(%q)", op, clipStr(core.MustUnHex(last), 200))
		},
	})
}

// ClzoneChild is the body of `vcheck --clzone`: hex-encoded changelog texts on stdin, one per line;
// the parse result of each on stdout (the local zone was set from VERIF_LOCAL_ZONE at start-up).
func ClzoneChild() {
	sc := bufio.NewScanner(os.Stdin)
	sc.Buffer(make([]byte, 1<<20), 1<<30)
	for sc.Scan() {
		text := core.MustUnHex(strings.TrimSpace(sc.Text()))
		fmt.Println(clResult(changelog.Parse(strings.NewReader(text))))
	}
}
