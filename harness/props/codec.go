package props

import (
	"bytes"
	"fmt"
	"io"
	"reflect"
	"strconv"
	"strings"
	"sync"

	"pault.ag/go/debian/control"
	"pault.ag/go/debian/deb"
	"pault.ag/go/debian/dependency"
	"pault.ag/go/debian/version"

	"verif/harness/core"
)

// ---- probe struct family: every supported kind and tag combination -------------------

// defined types over the supported kinds: the walkers go by reflect.Kind
type ProbeWord string
type ProbeLevel int
type ProbeTags []string

type ProbeBasic struct {
	Word    ProbeWord
	Words   []ProbeWord `delim:","`
	Level   ProbeLevel
	Tags    ProbeTags `delim:" "`
	Name    string
	Renamed string `control:"X-Renamed"`
	Count   int
	Size    uint
	Flag    bool
	Req     string `required:"true"`
	Skipped string `control:"-"`
	List    []string
	Commas  []string `delim:"," strip:" \n\t\r"`
	Nums    []int    `delim:","`
	Ver     version.Version
	Dep     dependency.Dependency `control:"Depends"`
	Arch    dependency.Arch
	Archs   []dependency.Arch
	Hashes  []control.SHA256FileHash `control:"Checksums-Sha256" delim:"\n" strip:"\n\r\t "`
	ReqCom  []string                 `control:"Req-Commas" required:"true" delim:","`
	ReqVers []version.Version        `control:"Req-Versions" required:"true" delim:","`
}

type ProbeEmbedded struct {
	control.Paragraph
	Foo     string
	Bar     int
	Ver     version.Version
	ReqList []string        `required:"true"`
	Yes     bool            `control:"Extra-Source-Only"`
	Long    string          `multiline:"true"`
	Renamed string          `control:"X-Renamed"`
	RenList []string        `control:"X-List" delim:","`
	RenVer  version.Version `control:"X-Version"`
}

// the raw Paragraph embedded after / between the known fields
type ProbeEmbeddedLast struct {
	Foo     string
	Renamed string   `control:"X-Renamed"`
	RenList []string `control:"X-List" delim:","`
	control.Paragraph
	Bar  int
	Long string `multiline:"true"`
}

// skipped members of kinds the codec does not support: they must stay untouched
type ProbeSkipKinds struct {
	Name  string
	M     map[string]string `control:"-"`
	Fn    func()            `control:"-"`
	Fl    float64           `control:"-"`
	Mu    sync.Mutex        `control:"-"`
	Ch    chan int          `control:"-"`
	After []string          `delim:","`
}

// plain structs embedded anonymously (the documented way to use BestChecksums)
type ProbeAnon struct {
	Name string
	ProbeInner
	control.BestChecksums
	Tail string
}

type ProbeInner struct {
	A string
	B int
}

type ProbeNested struct {
	Inner ProbeInner
	Outer string
	Vers  []version.Version `delim:","`
}

// only optional fields: the zero value writes no field at all
type ProbeSparse struct {
	A string
	B []string `delim:","`
	V version.Version
}

type ProbeBad struct {
	Name string
	M    map[string]string
}

type ProbeBad2 struct {
	F float64
	I int64
}

var codecTypes = map[string]reflect.Type{
	"ProbeBasic":        reflect.TypeOf(ProbeBasic{}),
	"ProbeEmbedded":     reflect.TypeOf(ProbeEmbedded{}),
	"ProbeNested":       reflect.TypeOf(ProbeNested{}),
	"ProbeSparse":       reflect.TypeOf(ProbeSparse{}),
	"ProbeEmbeddedLast": reflect.TypeOf(ProbeEmbeddedLast{}),
	"ProbeSkipKinds":    reflect.TypeOf(ProbeSkipKinds{}),
	"ProbeAnon":         reflect.TypeOf(ProbeAnon{}),
	"ProbeBad":          reflect.TypeOf(ProbeBad{}),
	"ProbeBad2":         reflect.TypeOf(ProbeBad2{}),
	"DSC":               reflect.TypeOf(control.DSC{}),
	"Changes":           reflect.TypeOf(control.Changes{}),
	"SourceParagraph":   reflect.TypeOf(control.SourceParagraph{}),
	"BinaryParagraph":   reflect.TypeOf(control.BinaryParagraph{}),
	"BinaryIndex":       reflect.TypeOf(control.BinaryIndex{}),
	"SourceIndex":       reflect.TypeOf(control.SourceIndex{}),
	"BestChecksums":     reflect.TypeOf(control.BestChecksums{}),
	"DebControl":        reflect.TypeOf(deb.Control{}),
}

var (
	paragraphType   = reflect.TypeOf(control.Paragraph{})
	unmarshallableT = reflect.TypeOf((*control.Unmarshallable)(nil)).Elem()
)

// ---- schema tokens read off the real types with reflect ------------------------------

func kindTokens(t reflect.Type) []string {
	switch t.Kind() {
	case reflect.String:
		return []string{"str"}
	case reflect.Int:
		return []string{"int"}
	case reflect.Uint:
		return []string{"uint"}
	case reflect.Bool:
		return []string{"bool"}
	case reflect.Slice:
		return append([]string{"slice"}, kindTokens(t.Elem())...)
	case reflect.Struct:
		if t == paragraphType {
			return []string{"para"}
		}
		if reflect.PtrTo(t).Implements(unmarshallableT) {
			return []string{"cust", t.Name()}
		}
		return append([]string{"nested"}, schemaTokens(t)...)
	}
	return []string{"bad", t.Kind().String()}
}

func schemaTokens(t reflect.Type) []string {
	out := []string{"S", strconv.Itoa(t.NumField())}
	for i := 0; i < t.NumField(); i++ {
		f := t.Field(i)
		key := f.Name
		if it := f.Tag.Get("control"); it != "" {
			key = it
		}
		out = append(out, f.Name, core.Hex(key))
		out = append(out, kindTokens(f.Type)...)
		out = append(out, core.Hex(f.Tag.Get("delim")), core.Hex(f.Tag.Get("strip")),
			b01(f.Tag.Get("required") == "true"), b01(f.Tag.Get("multiline") == "true"), b01(f.Anonymous))
	}
	return out
}

// skipSchema returns the number of tokens a schema occupies at the head of ts.
func skipKind(ts []string) int {
	switch ts[0] {
	case "str", "int", "uint", "bool", "para":
		return 1
	case "cust", "bad":
		return 2
	case "slice":
		return 1 + skipKind(ts[1:])
	case "nested":
		return 1 + skipSchema(ts[1:])
	}
	panic("bad kind token " + ts[0])
}

func skipSchema(ts []string) int {
	n, _ := strconv.Atoi(ts[1])
	i := 2
	for f := 0; f < n; f++ {
		i += 2
		i += skipKind(ts[i:])
		i += 5
	}
	return i
}

// ---- Go values <-> record tokens -----------------------------------------------------

type tokReader struct {
	ts []string
	i  int
}

func (t *tokReader) next() string { s := t.ts[t.i]; t.i++; return s }

func readGoValue(v reflect.Value, t *tokReader) {
	tag := t.next()
	switch tag {
	case "z":
	case "s":
		v.SetString(core.MustUnHex(t.next()))
	case "i":
		n, _ := strconv.ParseInt(t.next(), 10, 64)
		v.SetInt(n)
	case "u":
		n, _ := strconv.ParseUint(t.next(), 10, 64)
		v.SetUint(n)
	case "b":
		v.SetBool(t.next() == "1")
	case "p":
		n, _ := strconv.Atoi(t.next())
		p := control.Paragraph{Values: map[string]string{}, Order: []string{}}
		for k := 0; k < n; k++ {
			key := core.MustUnHex(t.next())
			p.Set(key, core.MustUnHex(t.next()))
		}
		v.Set(reflect.ValueOf(p))
	case "c":
		text := core.MustUnHex(t.next())
		if err := v.Addr().Interface().(control.Unmarshallable).UnmarshalControl(text); err != nil {
			panic("generator produced a custom value its own parser rejects: " + text)
		}
	case "l":
		n, _ := strconv.Atoi(t.next())
		sl := reflect.MakeSlice(v.Type(), 0, n)
		for k := 0; k < n; k++ {
			el := reflect.New(v.Type().Elem()).Elem()
			readGoValue(el, t)
			sl = reflect.Append(sl, el)
		}
		v.Set(sl)
	case "r":
		for k := 0; k < v.NumField(); k++ {
			readGoValue(v.Field(k), t)
		}
	default:
		panic("bad value token " + tag)
	}
}

func readGoRecord(v reflect.Value, t *tokReader) {
	for k := 0; k < v.NumField(); k++ {
		readGoValue(v.Field(k), t)
	}
}

func dumpCustomGo(v reflect.Value) string {
	switch x := v.Interface().(type) {
	case version.Version:
		return fmt.Sprintf("V:%d:%s:%s", x.Epoch, core.Hex(x.Version), core.Hex(x.Revision))
	case dependency.Dependency:
		return dumpDep(&x)
	case dependency.Arch:
		return dumpArch(x)
	case control.MD5FileHash:
		return dumpHash(x.FileHash, "", "")
	case control.SHA1FileHash:
		return dumpHash(x.FileHash, "", "")
	case control.SHA256FileHash:
		return dumpHash(x.FileHash, "", "")
	case control.SHA512FileHash:
		return dumpHash(x.FileHash, "", "")
	case control.FileListChangesFileHash:
		return dumpHash(x.FileHash, x.Component, x.Priority)
	}
	return "?"
}

func dumpHash(h control.FileHash, comp, prio string) string {
	return fmt.Sprintf("H:%s:%s:%d:%s:%s:%s:%s", core.Hex(h.Algorithm), core.Hex(h.Hash), h.Size, core.Hex(h.Filename), core.Hex(h.ByHash), core.Hex(comp), core.Hex(prio))
}

func dumpGoValue(v reflect.Value) string {
	t := v.Type()
	switch t.Kind() {
	case reflect.String:
		return core.Hex(v.String())
	case reflect.Int:
		return strconv.FormatInt(v.Int(), 10)
	case reflect.Uint:
		return strconv.FormatUint(v.Uint(), 10)
	case reflect.Bool:
		return b01(v.Bool())
	case reflect.Slice:
		var xs []string
		for i := 0; i < v.Len(); i++ {
			xs = append(xs, dumpGoValue(v.Index(i)))
		}
		return "[" + strings.Join(xs, ";") + "]"
	case reflect.Struct:
		if t == paragraphType {
			p := v.Interface().(control.Paragraph)
			return dumpPara(p)
		}
		if reflect.PtrTo(t).Implements(unmarshallableT) {
			return dumpCustomGo(v)
		}
		return dumpGoRecord(v)
	}
	return "?"
}

func dumpGoRecord(v reflect.Value) string {
	var xs []string
	for i := 0; i < v.NumField(); i++ {
		xs = append(xs, dumpGoValue(v.Field(i)))
	}
	return "{" + strings.Join(xs, " ") + "}"
}

// ---- adapters ---------------------------------------------------------------------------

// args: TypeName, schema tokens…, then op-specific tokens
func codecArgs(a []string) (reflect.Type, []string) {
	t := codecTypes[a[0]]
	n := skipSchema(a[1:])
	return t, a[1+n:]
}

// encodeSequence writes n records of one type through a single Encoder
func marshalRecordA() string {
	type record struct {
		Name  string
		Count int
	}
	var b bytes.Buffer
	if err := control.Marshal(&b, &record{Name: "a", Count: 3}); err != nil {
		return "error: " + err.Error()
	}
	return b.String()
}

func marshalRecordB() string {
	type record struct {
		Title string
		Tags  []string
		Extra string                `control:"X-Extra"`
		Dep   dependency.Dependency `control:"Depends"`
	}
	d, _ := dependency.Parse("foo (>= 1)")
	var b bytes.Buffer
	defer func() { recover() }()
	if err := control.Marshal(&b, &record{Title: "t", Tags: []string{"p", "q"}, Extra: "e", Dep: *d}); err != nil {
		return "error: " + err.Error()
	}
	return b.String()
}

// failingWriter: mode 0 fails at once, mode 1 accepts half of the first write and then
// fails, mode 2 accepts the first write and fails from the second on
type failingWriter struct{ mode, calls int }

func (w *failingWriter) Write(p []byte) (int, error) {
	w.calls++
	switch {
	case w.mode == 0:
		return 0, io.ErrClosedPipe
	case w.mode == 1:
		return len(p) / 2, io.ErrShortWrite
	case w.calls == 1:
		return len(p), nil
	}
	return 0, io.ErrClosedPipe
}

func encodeSequence(a []string) (string, error) { return encodeSequenceGrouped(a, 0) }

// encodeSequenceGrouped writes the records through one Encoder. grouping 0: one Encode call
// per struct; 1: all of them as one slice; 2: a struct, then the rest as a slice; 3: slices of
// two. What is written must not depend on the grouping.
func encodeSequenceGrouped(a []string, grouping int) (string, error) {
	t, rest := codecArgs(a)
	n, _ := strconv.Atoi(rest[0])
	tr := &tokReader{ts: rest[1:]}
	var buf bytes.Buffer
	enc, _ := control.NewEncoder(&buf)
	var recs []reflect.Value
	for i := 0; i < n; i++ {
		v := reflect.New(t).Elem()
		readGoRecord(v, tr)
		recs = append(recs, v)
	}
	flush := func(group []reflect.Value, asSlice bool) error {
		if !asSlice {
			for _, v := range group {
				if err := enc.Encode(v.Addr().Interface()); err != nil {
					return err
				}
			}
			return nil
		}
		sl := reflect.MakeSlice(reflect.SliceOf(t), 0, len(group))
		for _, v := range group {
			sl = reflect.Append(sl, v)
		}
		return enc.Encode(sl.Interface())
	}
	var err error
	switch grouping {
	case 0:
		err = flush(recs, false)
	case 1:
		err = flush(recs, true)
	case 2:
		if len(recs) > 0 {
			if err = flush(recs[:1], false); err == nil {
				err = flush(recs[1:], true)
			}
		}
	case 3:
		for i := 0; i < len(recs) && err == nil; i += 2 {
			err = flush(recs[i:min(i+2, len(recs))], true)
		}
	default:
		// empty slices (and nil ones) between the calls write nothing and change nothing
		err = flush(nil, true)
		for i := 0; i < len(recs) && err == nil; i++ {
			if err = flush(recs[i:i+1], i%2 == 0); err == nil {
				err = flush(recs[:0], true)
			}
		}
	}
	return buf.String(), err
}

// presentFieldsDiffer compares, field by field, a struct that was decoded into repeatedly
// with a freshly decoded one, for the fields whose key the paragraph carries.
func presentFieldsDiffer(reused, fresh reflect.Value, p control.Paragraph) string {
	t := reused.Type()
	for i := 0; i < t.NumField(); i++ {
		f := t.Field(i)
		if f.Type == reflect.TypeOf(control.Paragraph{}) {
			continue
		}
		if f.Type.Kind() == reflect.Struct && !reflect.PtrTo(f.Type).Implements(unmarshallableT) {
			if d := presentFieldsDiffer(reused.Field(i), fresh.Field(i), p); d != "" {
				return f.Name + "." + d
			}
			continue
		}
		key := f.Name
		if it := f.Tag.Get("control"); it != "" {
			key = it
		}
		if _, ok := p.Values[key]; !ok || key == "-" || f.Anonymous {
			continue
		}
		if a, b := dumpGoValue(reused.Field(i)), dumpGoValue(fresh.Field(i)); a != b {
			return fmt.Sprintf("%s: %s, a fresh struct gets %s", f.Name, a, b)
		}
	}
	return ""
}

func marshalGo(v reflect.Value) (string, error) {
	var buf bytes.Buffer
	err := control.Marshal(&buf, v.Addr().Interface())
	return buf.String(), err
}

var codecImpl = map[string]core.Adapter{
	"codecu": func(a []string) string {
		t, rest := codecArgs(a)
		v := reflect.New(t)
		if err := control.Unmarshal(v.Interface(), strings.NewReader(core.MustUnHex(rest[0]))); err != nil {
			return "err"
		}
		return "ok " + dumpGoRecord(v.Elem())
	},
	"codecus": func(a []string) string {
		t, rest := codecArgs(a)
		v := reflect.New(reflect.SliceOf(t))
		if err := control.Unmarshal(v.Interface(), strings.NewReader(core.MustUnHex(rest[0]))); err != nil {
			return "err"
		}
		var xs []string
		for i := 0; i < v.Elem().Len(); i++ {
			xs = append(xs, dumpGoRecord(v.Elem().Index(i)))
		}
		return "ok [" + strings.Join(xs, ";") + "]"
	},
	// law: every way into the decoder gives the same records: Unmarshal into a slice, a
	// Decoder asked paragraph by paragraph for a fresh struct, the same Decoder filling one
	// struct over and over, and UnpackFromParagraph on the paragraphs of a ParagraphReader;
	// and ConvertToParagraph + WriteTo is what Marshal writes
	"law-codecentry": func(a []string) string {
		t, rest := codecArgs(a)
		text := core.MustUnHex(rest[0])
		sl := reflect.New(reflect.SliceOf(t))
		if err := control.Unmarshal(sl.Interface(), strings.NewReader(text)); err != nil {
			return "ok"
		}
		var want []string
		for i := 0; i < sl.Elem().Len(); i++ {
			want = append(want, dumpGoRecord(sl.Elem().Index(i)))
		}
		paras, _ := readAllParas(text)
		for _, reuse := range []bool{false, true} {
			d, err := control.NewDecoder(strings.NewReader(text), nil)
			if err != nil {
				return "FAIL NewDecoder: " + err.Error()
			}
			v := reflect.New(t)
			kept, keptDump := reflect.New(t).Elem(), ""
			for i := 0; ; i++ {
				if !reuse {
					v = reflect.New(t)
				}
				err := d.Decode(v.Interface())
				// a copy taken of the struct after the previous paragraph (`x := *v`, as a loop that
				// collects results does) is the caller's: the next Decode must not reach into it
				if reuse && i > 0 && err == nil {
					if now := dumpGoRecord(kept); now != keptDump {
						return fmt.Sprintf("FAIL the copy kept of paragraph %d changed when paragraph %d was decoded into the same variable: %s, was %s", i-1, i, now, keptDump)
					}
				}
				if reuse && err == nil {
					kept.Set(v.Elem())
					keptDump = dumpGoRecord(kept)
				}
				if err == io.EOF {
					if i != len(want) {
						return fmt.Sprintf("FAIL Decoder (reuse=%v) ends after %d paragraphs, Unmarshal into a slice gave %d", reuse, i, len(want))
					}
					break
				}
				if err != nil {
					return fmt.Sprintf("FAIL Decoder (reuse=%v) paragraph %d: %v", reuse, i, err)
				}
				if i >= len(want) {
					return fmt.Sprintf("FAIL Decoder (reuse=%v) returns a paragraph %d, Unmarshal into a slice gave %d", reuse, i, len(want))
				}
				if !reuse && dumpGoRecord(v.Elem()) != want[i] {
					return fmt.Sprintf("FAIL Decoder paragraph %d: %s, Unmarshal into a slice gave %s", i, dumpGoRecord(v.Elem()), want[i])
				}
				// a struct that is decoded into again: every field the paragraph has must hold
				// what the paragraph says (fields it does not have keep what they held, as
				// with encoding/json)
				if reuse && i < len(paras) {
					if d := presentFieldsDiffer(v.Elem(), sl.Elem().Index(i), paras[i]); d != "" {
						return fmt.Sprintf("FAIL one struct decoded into again, paragraph %d, field %s", i, d)
					}
				}
			}
		}
		ps, err := readAllParas(text)
		if err != nil || len(ps) != len(want) {
			return fmt.Sprintf("FAIL ParagraphReader gives %d paragraphs (%v), the decoder %d", len(ps), err, len(want))
		}
		for i, p := range ps {
			v := reflect.New(t)
			if err := control.UnpackFromParagraph(p, v.Interface()); err != nil || dumpGoRecord(v.Elem()) != want[i] {
				return fmt.Sprintf("FAIL UnpackFromParagraph paragraph %d: %s %v, want %s", i, dumpGoRecord(v.Elem()), err, want[i])
			}
			if t.Name() == "ProbeNested" || t.Name() == "ProbeAnon" {
				continue
			}
			m1, err1 := marshalGo(v.Elem())
			cp, err2 := control.ConvertToParagraph(v.Interface())
			if (err1 == nil) != (err2 == nil) {
				return fmt.Sprintf("FAIL Marshal error %v, ConvertToParagraph error %v", err1, err2)
			}
			if err1 == nil {
				var b bytes.Buffer
				if err := cp.WriteTo(&b); err != nil || b.String() != m1 {
					return fmt.Sprintf("FAIL ConvertToParagraph+WriteTo %q, Marshal %q", b.String(), m1)
				}
			}
		}
		return "ok"
	},
	"codecm": func(a []string) string {
		t, rest := codecArgs(a)
		v := reflect.New(t).Elem()
		readGoRecord(v, &tokReader{ts: rest})
		text, err := marshalGo(v)
		if err != nil {
			return "err"
		}
		return "ok " + core.Hex(text)
	},
	"codecenc": func(a []string) string {
		text, err := encodeSequence(a)
		if err != nil {
			return "err"
		}
		return "ok " + core.Hex(text)
	},
	// law: paragraphs written one after another through the encoder read back as the same
	// number of paragraphs (structs that write no field at all contribute none)
	// law: what a struct marshals to depends on its type, not on the type's name: two different
	// struct types that are both called `record` (declared inside two functions), marshalled in
	// turn, also after the other one was seen first
	"law-codecnames": func(a []string) string {
		for round := 0; round < 2; round++ {
			for _, first := range []bool{true, false} {
				x, y := "", ""
				if first {
					x, y = marshalRecordA(), marshalRecordB()
				} else {
					y, x = marshalRecordB(), marshalRecordA()
				}
				if x != "Name: a\nCount: 3\n" || y != "Title: t\nTags: p q\nX-Extra: e\nDepends: foo (>= 1)\n" {
					return fmt.Sprintf("FAIL two struct types of the same name marshal to %q and %q", x, y)
				}
			}
		}
		return "ok"
	},
	// law: values the walkers cannot handle (not a pointer, not a struct, nil) give an error, not a panic
	"law-codecmisuse": func(a []string) string {
		var verdict string
		try := func(what string, f func() error) {
			defer func() {
				if r := recover(); r != nil && verdict == "" {
					verdict = fmt.Sprintf("FAIL %s panics: %v", what, r)
				}
			}()
			if err := f(); err == nil && verdict == "" {
				verdict = "FAIL " + what + " succeeds"
			}
		}
		text := "Name: x\nReq: y\nReq-Commas: a\nReq-Versions: 1\n"
		var pb ProbeBasic
		try("Unmarshal into a struct value", func() error { return control.Unmarshal(pb, strings.NewReader(text)) })
		try("Unmarshal into a pointer to an int", func() error { n := 0; return control.Unmarshal(&n, strings.NewReader(text)) })
		try("Unmarshal into a string", func() error { return control.Unmarshal("x", strings.NewReader(text)) })
		try("UnpackFromParagraph into a struct value", func() error {
			return control.UnpackFromParagraph(control.Paragraph{Values: map[string]string{"Name": "x"}, Order: []string{"Name"}}, pb)
		})
		try("Marshal of an int", func() error { return control.Marshal(io.Discard, 5) })
		try("Marshal of a pointer to an int", func() error { n := 5; return control.Marshal(io.Discard, &n) })
		try("ConvertToParagraph of a struct value", func() error { _, err := control.ConvertToParagraph(pb); return err })
		try("ConvertToParagraph of a pointer to a string", func() error { s := "x"; _, err := control.ConvertToParagraph(&s); return err })
		if verdict != "" {
			return verdict
		}
		return "ok"
	},
	"law-enccount": func(a []string) string {
		text, err := encodeSequence(a)
		if err != nil {
			return "FAIL encode: " + err.Error()
		}
		for grouping := 1; grouping <= 4; grouping++ {
			if other, err := encodeSequenceGrouped(a, grouping); err != nil || other != text {
				return fmt.Sprintf("FAIL the same records written as slices (grouping %d) give %q (%v), one by one %q", grouping, other, err, text)
			}
		}
		t, rest := codecArgs(a)
		n, _ := strconv.Atoi(rest[0])
		tr := &tokReader{ts: rest[1:]}
		want := 0
		for i := 0; i < n; i++ {
			v := reflect.New(t).Elem()
			readGoRecord(v, tr)
			one, err := marshalGo(v)
			if err != nil {
				return "FAIL " + err.Error()
			}
			if one != "" {
				want++
			}
		}
		ps, err := readAllParas(text)
		if err != nil {
			return fmt.Sprintf("FAIL own output %q rejected: %v", text, err)
		}
		if len(ps) != want {
			return fmt.Sprintf("FAIL %d non-empty paragraphs written, %d read back from %q", want, len(ps), text)
		}
		// a write that failed somewhere else (a full disk, a closed connection) leaves nothing
		// behind: the same records encoded afterwards give the same bytes
		tr = &tokReader{ts: rest[1:]}
		for i := 0; i < n && i < 2; i++ {
			v := reflect.New(t).Elem()
			readGoRecord(v, tr)
			for mode := 0; mode < 3; mode++ {
				control.Marshal(&failingWriter{mode: mode}, v.Addr().Interface())
				if enc, err := control.NewEncoder(&failingWriter{mode: mode}); err == nil {
					enc.Encode(v.Addr().Interface())
					enc.Encode(v.Addr().Interface())
				}
			}
		}
		if again, err := encodeSequence(a); err != nil || again != text {
			return fmt.Sprintf("FAIL after writes to a failing writer the same records encode as %q (%v), before: %q", again, err, text)
		}
		return "ok"
	},
	"codecrt": func(a []string) string {
		t, rest := codecArgs(a)
		v := reflect.New(t).Elem()
		readGoRecord(v, &tokReader{ts: rest})
		text, err := marshalGo(v)
		if err != nil {
			return "err"
		}
		w := reflect.New(t)
		if err := control.Unmarshal(w.Interface(), strings.NewReader(text)); err != nil {
			return "ok " + core.Hex(text) + " err"
		}
		return "ok " + core.Hex(text) + " ok " + dumpGoRecord(w.Elem())
	},
	// law: unmarshal(marshal(v)) reproduces v field by field (known fields; nil = empty;
	// one trailing newline of multi-line text; the embedded Paragraph is compared separately)
	"law-codecrt": func(a []string) string {
		t, rest := codecArgs(a)
		v := reflect.New(t).Elem()
		readGoRecord(v, &tokReader{ts: rest})
		text, err := marshalGo(v)
		if err != nil {
			return "FAIL marshal: " + err.Error()
		}
		if text == "" {
			return "ok" // only optional fields, all empty: nothing is written, there is nothing to read back
		}
		w := reflect.New(t)
		if err := control.Unmarshal(w.Interface(), strings.NewReader(text)); err != nil {
			return fmt.Sprintf("FAIL own output %q rejected: %v", text, err)
		}
		for i := 0; i < t.NumField(); i++ {
			f := t.Field(i)
			if f.Anonymous || f.Tag.Get("control") == "-" {
				continue
			}
			x, y := dumpGoValue(v.Field(i)), dumpGoValue(w.Elem().Field(i))
			if f.Tag.Get("multiline") == "true" {
				x, y = strings.TrimSuffix(x, "0a"), strings.TrimSuffix(y, "0a")
				if hasDotLine(v.Field(i).String()) {
					continue // a line that is a lone dot denotes the empty line: outside the text-line domain
				}
			}
			if x != y {
				return fmt.Sprintf("FAIL field %s: %s -> %q -> %s", f.Name, x, text, y)
			}
		}
		return "ok"
	},
	"codecpt": func(a []string) string {
		t, rest := codecArgs(a)
		v := reflect.New(t)
		if err := control.Unmarshal(v.Interface(), strings.NewReader(core.MustUnHex(rest[0]))); err != nil {
			return "err"
		}
		n, _ := strconv.Atoi(rest[1])
		tr := &tokReader{ts: rest[2:]}
		for k := 0; k < n; k++ {
			idx, _ := strconv.Atoi(tr.next())
			fv := v.Elem().Field(idx)
			fv.Set(reflect.Zero(fv.Type()))
			readGoValue(fv, tr)
		}
		text, err := marshalGo(v.Elem())
		if err != nil {
			return "err"
		}
		return "ok " + core.Hex(text)
	},
	// law: with an embedded Paragraph, unknown fields are re-emitted unchanged in their
	// original order, known fields show the struct's current values
	"law-codecpt": func(a []string) string {
		t, rest := codecArgs(a)
		v := reflect.New(t)
		in := core.MustUnHex(rest[0])
		if err := control.Unmarshal(v.Interface(), strings.NewReader(in)); err != nil {
			return "ok"
		}
		n, _ := strconv.Atoi(rest[1])
		tr := &tokReader{ts: rest[2:]}
		for k := 0; k < n; k++ {
			idx, _ := strconv.Atoi(tr.next())
			fv := v.Elem().Field(idx)
			fv.Set(reflect.Zero(fv.Type()))
			readGoValue(fv, tr)
		}
		state0 := dumpGoRecord(v.Elem())
		text, err := marshalGo(v.Elem())
		if err != nil {
			return "FAIL marshal: " + err.Error()
		}
		// marshalling reads the struct, it does not change it: a second marshal of the same
		// struct gives the same bytes and the struct (incl. the embedded Paragraph) is as before
		if state1 := dumpGoRecord(v.Elem()); state1 != state0 {
			return fmt.Sprintf("FAIL marshalling changed the struct: %s -> %s", clipStr(state0, 200), clipStr(state1, 200))
		}
		if again, err := marshalGo(v.Elem()); err != nil || again != text {
			return fmt.Sprintf("FAIL a second marshal of the same struct differs: %q then %q", clipStr(text, 200), clipStr(again, 200))
		}
		before, err1 := readAllParas(in)
		after, err2 := readAllParas(text)
		if err1 != nil || err2 != nil || len(before) < 1 || len(after) != 1 {
			return fmt.Sprintf("FAIL cannot re-read output %q (%v %v)", text, err1, err2)
		}
		known := map[string]bool{}
		for i := 0; i < t.NumField(); i++ {
			f := t.Field(i)
			key := f.Name
			if it := f.Tag.Get("control"); it != "" {
				key = it
			}
			if !f.Anonymous {
				known[key] = true
			}
		}
		var unkBefore, unkAfter []string
		for _, k := range before[0].Order {
			if !known[k] {
				unkBefore = append(unkBefore, k+"="+strings.TrimSuffix(before[0].Values[k], "\n"))
			}
		}
		for _, k := range after[0].Order {
			if !known[k] {
				unkAfter = append(unkAfter, k+"="+strings.TrimSuffix(after[0].Values[k], "\n"))
			}
		}
		if strings.Join(unkBefore, "\x00") != strings.Join(unkAfter, "\x00") {
			return fmt.Sprintf("FAIL unknown fields %q -> %q", unkBefore, unkAfter)
		}
		// known fields reflect the current struct: re-decode and compare
		w := reflect.New(t)
		if err := control.Unmarshal(w.Interface(), strings.NewReader(text)); err != nil {
			return fmt.Sprintf("FAIL own output rejected: %v", err)
		}
		for i := 0; i < t.NumField(); i++ {
			f := t.Field(i)
			if f.Anonymous || f.Tag.Get("control") == "-" {
				continue
			}
			x, y := dumpGoValue(v.Elem().Field(i)), dumpGoValue(w.Elem().Field(i))
			if f.Tag.Get("multiline") == "true" {
				x, y = strings.TrimSuffix(x, "0a"), strings.TrimSuffix(y, "0a")
				if hasDotLine(v.Elem().Field(i).String()) {
					continue // a line that is a lone dot denotes the empty line: outside the text-line domain
				}
			}
			if x != y {
				return fmt.Sprintf("FAIL known field %s shows %s, struct has %s (output %q)", f.Name, y, x, text)
			}
		}
		return "ok"
	},
}

func codecReadable(op string, a []string) string {
	if len(a) == 0 {
		return op
	}
	_, rest := codecArgs(a)
	switch op {
	case "codecu", "codecus":
		return fmt.Sprintf("Unmarshal(%s, %q)", a[0], core.MustUnHex(rest[0]))
	case "codecpt", "law-codecpt":
		return fmt.Sprintf("%s %s %q edits %v", op, a[0], core.MustUnHex(rest[0]), rest[1:])
	}
	return fmt.Sprintf("%s %s %s", op, a[0], strings.Join(rest, " "))
}

// ---- generators --------------------------------------------------------------------------

func genCustomText(r *core.Rand, t reflect.Type) string {
	switch t.Name() {
	case "Version":
		e, u, rv, hr := genWFVersion(r)
		return renderWF(e, u, rv, hr)
	case "Dependency":
		return renderDep(r, genDepAST(r), 1)
	case "Arch":
		return r.Pick(archNames)
	case "FileListChangesFileHash":
		return fmt.Sprintf("%s %d %s %s %s", r.Str("0123456789abcdef", 32), r.Intn(100000), r.Pick([]string{"utils", "devel", "-"}), r.Pick([]string{"optional", "extra"}), r.Pick([]string{"foo_1.0.dsc", "foo_1.0.tar.gz", "bar.deb"}))
	default: // hashes
		return fmt.Sprintf("%s %d %s", r.Str("0123456789abcdef", r.Pick2(32, 64)), r.Intn(1000000), r.Pick([]string{"foo_1.0.dsc", "foo_1.0.orig.tar.gz", "main/binary-amd64/Packages", "x"}))
	}
}

func cleanElem(s, delim, strip string) string {
	s = strings.ReplaceAll(s, delim, "")
	s = strings.Trim(s, strip+" \t\r\n")
	if delim == " " {
		s = strings.Join(strings.Fields(s), "_")
	}
	return s
}

// genValueTokens draws a value of type t that lies in the round-trip domain (WFRec).
func genValueTokens(r *core.Rand, t reflect.Type, f reflect.StructField, inList bool) []string {
	delim := f.Tag.Get("delim")
	if delim == "" {
		delim = " "
	}
	strip := f.Tag.Get("strip")
	switch t.Kind() {
	case reflect.String:
		var s string
		if f.Tag.Get("multiline") == "true" && !inList {
			var ls []string
			for n := r.Range(1, 3); n > 0; n-- {
				l := strings.TrimSpace(genLineText(r))
				if l == "" || l == "." {
					l = "x"
				}
				ls = append(ls, l)
			}
			if r.Chance(1, 4) {
				// text with empty lines: in front, in the middle, at the end (written as " .")
				for k := r.Range(1, 3); k > 0; k-- {
					at := r.Pick2i(0, r.Intn(len(ls)+1))
					ls = append(ls[:at], append([]string{""}, ls[at:]...)...)
				}
			}
			s = strings.Join(ls, "\n")
		} else {
			s = strings.TrimSpace(genLineText(r))
		}
		if inList {
			s = cleanElem(s, delim, strip)
			if s == "" {
				s = "e"
			}
		}
		if s == "" && !inList && r.Chance(1, 2) {
			return []string{"z"}
		}
		return []string{"s", core.Hex(s)}
	case reflect.Int:
		return []string{"i", strconv.Itoa(r.Pick2i(0, r.Intn(2000)-1000))}
	case reflect.Uint:
		return []string{"u", strconv.Itoa(r.Intn(5000))}
	case reflect.Bool:
		return []string{"b", b01(r.Bool())}
	case reflect.Slice:
		n := r.Intn(4)
		out := []string{"l", strconv.Itoa(n)}
		for i := 0; i < n; i++ {
			out = append(out, genValueTokens(r, t.Elem(), f, true)...)
		}
		return out
	case reflect.Struct:
		if t == paragraphType {
			if r.Bool() {
				return []string{"z"}
			}
			n := r.Intn(3)
			out := []string{"p", strconv.Itoa(n)}
			for i := 0; i < n; i++ {
				out = append(out, core.Hex("X-Unknown-"+strconv.Itoa(i)), core.Hex(strings.TrimSpace(genLineText(r))+"v"))
			}
			return out
		}
		if reflect.PtrTo(t).Implements(unmarshallableT) {
			if r.Chance(1, 5) && !inList {
				return []string{"z"}
			}
			return []string{"c", core.Hex(genCustomText(r, t))}
		}
		out := []string{"r"}
		for i := 0; i < t.NumField(); i++ {
			out = append(out, genValueTokens(r, t.Field(i).Type, t.Field(i), false)...)
		}
		return out
	}
	return []string{"z"}
}

func genRecordTokens(r *core.Rand, t reflect.Type) []string {
	var out []string
	for i := 0; i < t.NumField(); i++ {
		out = append(out, genValueTokens(r, t.Field(i).Type, t.Field(i), false)...)
	}
	return out
}

func codecOp(op, typ string, rest ...string) (string, []string) {
	args := append([]string{typ}, schemaTokens(codecTypes[typ])...)
	return op, append(args, rest...)
}

func streamCodec(g *core.G) {
	r := g.R
	probes := []string{"ProbeBasic", "ProbeEmbedded", "ProbeNested", "ProbeEmbeddedLast", "ProbeSkipKinds", "ProbeAnon"}
	n := g.N(1200, 60000)
	for i := 0; i < n; i++ {
		typ := r.Pick(probes)
		rec := genRecordTokens(r, codecTypes[typ])
		for _, op := range []string{"codecm", "codecrt", "law-codecrt"} {
			if op == "law-codecrt" && (typ == "ProbeNested" || typ == "ProbeAnon") {
				continue // plain nested structs are decodable but not marshallable: outside the claim
			}
			o, a := codecOp(op, typ, rec...)
			g.Emit(o, a...)
		}
	}
	// sequences through one Encoder, with records that write nothing in between
	for i := 0; i < n/4; i++ {
		t := codecTypes["ProbeSparse"]
		k := r.Range(1, 5)
		args := []string{strconv.Itoa(k)}
		for j := 0; j < k; j++ {
			if r.Chance(1, 3) {
				for f := 0; f < t.NumField(); f++ {
					args = append(args, "z")
				}
			} else {
				args = append(args, genRecordTokens(r, t)...)
			}
		}
		for _, op := range []string{"codecenc", "law-enccount"} {
			o, a := codecOp(op, "ProbeSparse", args...)
			g.Emit(o, a...)
		}
	}
	{
		o, a := codecOp("law-codecmisuse", "ProbeBasic")
		g.Emit(o, a...)
		o, a = codecOp("law-codecnames", "ProbeBasic")
		g.Emit(o, a...)
	}
	// unsupported kinds: an error from both walkers, never a panic
	for _, typ := range []string{"ProbeBad", "ProbeBad2"} {
		o, a := codecOp("codecm", typ, genRecordTokens(r, codecTypes[typ])...)
		g.Emit(o, a...)
		o, a = codecOp("codecu", typ, core.Hex("Name: x\nM: y\nF: 1\nI: 2\n"))
		g.Emit(o, a...)
	}
	// decoding texts: documents with unknown fields, colliding names, bad values
	extra := []string{"X-Unknown: keep me", "Epoch: 3", "Revision: 9", "Values: x", "Order: a b", "ABI: q", "CPU: z", "Paragraph: p", "A: inner", "B: 7", "Inner: x", "Skipped: s", "M: 1",
		// fields that are present and empty (a template's "Uploaders:", "Built-Using:" left blank)
		"X-Empty:", "Uploaders:", "Built-Using: ", "X-Blank:\t"}
	for i := 0; i < n; i++ {
		typ := r.Pick(probes)
		t := codecTypes[typ]
		mkPara := func() string {
			var lines []string
			for k := 0; k < t.NumField(); k++ {
				f := t.Field(k)
				if f.Anonymous || r.Chance(1, 4) {
					continue
				}
				key := f.Name
				if it := f.Tag.Get("control"); it != "" {
					key = it
				}
				if r.Chance(1, 8) {
					// a field whose name differs from a known one only in letter case is an unknown
					// field of this struct (the decoder matches names exactly); it comes instead of
					// the known one or next to it, alone or in two spellings
					recase := func(k string) string {
						return r.Pick([]string{strings.ToLower(k), strings.ToUpper(k), strings.ToLower(k[:1]) + k[1:], k[:len(k)-1] + strings.ToUpper(k[len(k)-1:])})
					}
					lines = append(lines, recase(key)+": "+genFieldText(r, f))
					if r.Bool() {
						lines = append(lines, recase(key)+": "+genFieldText(r, f))
					}
					if r.Bool() {
						continue
					}
				}
				lines = append(lines, key+": "+genFieldText(r, f))
			}
			for k := r.Intn(3); k > 0; k-- {
				lines = append(lines, r.Pick(extra))
			}
			if r.Chance(1, 10) {
				// an unknown field named around a word the control package itself spells out
				if t := r.LitToken("control", "X", ": \t\r\n#,"); t != "" && t[0] != '-' && t[0] != '.' && t[0] != '/' {
					lines = append(lines, t+": "+r.Pick([]string{"x", "yes", "1", "a, b"}))
				}
			}
			// shuffle lightly
			if len(lines) > 1 && r.Bool() {
				a, b := r.Intn(len(lines)), r.Intn(len(lines))
				lines[a], lines[b] = lines[b], lines[a]
			}
			return strings.Join(lines, "\n") + "\n"
		}
		text := mkPara()
		if r.Chance(1, 6) {
			text += "\n" + text
		}
		// several different paragraphs (a Packages / Sources file): different subsets of fields
		for r.Chance(1, 4) {
			text += "\n" + mkPara()
		}
		{
			o, a := codecOp("law-codecentry", typ, core.Hex(text))
			g.Emit(o, a...)
		}
		o, a := codecOp("codecu", typ, core.Hex(text))
		g.Emit(o, a...)
		o, a = codecOp("codecus", typ, core.Hex(text))
		g.Emit(o, a...)
		if typ == "ProbeEmbedded" || typ == "ProbeEmbeddedLast" {
			// pass-through with edits of known fields
			t := codecTypes[typ]
			ne := r.Intn(3)
			ed := []string{core.Hex(text), strconv.Itoa(ne)}
			for k := 0; k < ne; k++ {
				idx := r.Intn(t.NumField())
				for t.Field(idx).Anonymous {
					idx = r.Intn(t.NumField())
				}
				ed = append(ed, strconv.Itoa(idx))
				if r.Chance(1, 3) {
					ed = append(ed, "z")
				} else {
					ed = append(ed, genValueTokens(r, t.Field(idx).Type, t.Field(idx), false)...)
				}
			}
			o, a := codecOp("codecpt", typ, ed...)
			g.Emit(o, a...)
			o, a = codecOp("law-codecpt", typ, ed...)
			g.Emit(o, a...)
		}
	}
}

// genFieldText: text for a field as it would appear in a file, mostly valid
func genFieldText(r *core.Rand, f reflect.StructField) string {
	switch f.Type.Kind() {
	case reflect.Int, reflect.Uint, reflect.Bool:
		if r.Chance(1, 6) {
			return "" // an empty numeric / boolean field is the zero value (also in a struct decoded into before)
		}
	}
	if r.Chance(1, 12) {
		return r.Pick([]string{"", "x y", "-1", "99999999999999999999", "yes", "no", "1 2", "a,b", "é", "+5"})
	}
	t := f.Type
	delim := f.Tag.Get("delim")
	if delim == "" {
		delim = " "
	}
	one := func(t reflect.Type) string {
		switch t.Kind() {
		case reflect.String:
			return strings.TrimSpace(genLineText(r))
		case reflect.Int:
			return strconv.Itoa(r.Intn(2000) - 1000)
		case reflect.Uint:
			return strconv.Itoa(r.Intn(5000))
		case reflect.Bool:
			return r.Pick([]string{"yes", "no", "true", ""})
		case reflect.Struct:
			if reflect.PtrTo(t).Implements(unmarshallableT) {
				return genCustomText(r, t)
			}
		}
		return "x"
	}
	if t.Kind() == reflect.Slice {
		var xs []string
		for n := r.Intn(4); n > 0; n-- {
			xs = append(xs, one(t.Elem()))
		}
		if delim == "\n" {
			return "\n " + strings.Join(xs, "\n ")
		}
		sep := delim
		if r.Chance(1, 3) {
			sep = delim + " "
		}
		return strings.Join(xs, sep)
	}
	return one(t)
}

func init() {
	tb := append(append([]string{}, leanTB...), "Model/Codec.lean: the reflection walkers as a schema interpreter (hand transliteration, differentially tested); the schema of every struct type is read off the compiled types with reflect at run time and interpreted by both sides", "Go reflect itself (panics on unsupported shapes are observed with recover, not modelled)")
	core.Register(&core.Property{
		ID: "C09", PropsModule: "GoDebian.Props.C09",
		Facts: []string{"fingerprint:control.decodeStruct", "fingerprint:control.decodeStructValue", "fingerprint:control.decodeStructValueSlice", "fingerprint:control.decodeStructValueStruct",
			"fingerprint:control.convertToParagraph", "fingerprint:control.marshalStructValue", "fingerprint:control.marshalStructValueSlice", "fingerprint:control.marshalStructValueStruct",
			"fingerprint:control.Paragraph.Update", "fingerprint:control.Paragraph.Set", "fingerprint:control.Paragraph.WriteTo", "fingerprint:control.Encoder.encodeStruct"},
		Streams: []core.Stream{{Name: "codec", Gen: streamCodec,
			Domain: "probe struct types covering every supported kind and tag combination (string, int, uint, bool, lists of strings/ints/custom types with delim and strip, Version, Dependency, Arch, hash lists, renamed, required, skipped, multiline, embedded Paragraph, plain nested struct) and unsupported kinds (map, float64, int64): random records in the round-trip domain -> Marshal bytes, Unmarshal of them (model vs implementation, plus the field-by-field round-trip law on the implementation); documents with missing, extra, colliding (Epoch, Values, Order, ABI, Paragraph, Inner...) and malformed fields decoded into structs and slices; pass-through with edits of known fields on the struct that embeds the Paragraph"}},
		Impl: codecImpl, Readable: codecReadable, TrustedBase: tb,
	})
}

func hasDotLine(v string) bool {
	for _, l := range strings.Split(v, "\n") {
		if l == "." {
			return true
		}
	}
	return false
}
