// Package props registers the twenty properties: adapters onto the real API,
// generators, theorem lists.
package props

import (
	"fmt"
	"os/exec"
	"strconv"
	"strings"

	"pault.ag/go/debian/version"

	"verif/harness/core"
)

const verAlphabet = "0123456789abcxyzABZ.+~:-"
const verAlphabetSmall = "019aZ~+.-"

func sgn(i int) int {
	if i < 0 {
		return -1
	}
	if i > 0 {
		return 1
	}
	return 0
}

func argVersion(a []string) version.Version {
	e, _ := strconv.ParseUint(a[0], 10, 64)
	return version.Version{Epoch: uint(e), Version: core.MustUnHex(a[1]), Revision: core.MustUnHex(a[2])}
}

func encVersion(v version.Version) []string {
	return []string{strconv.FormatUint(uint64(v.Epoch), 10), core.Hex(v.Version), core.Hex(v.Revision)}
}

func showVer(a []string) string {
	return fmt.Sprintf("{%s %q %q}", a[0], core.MustUnHex(a[1]), core.MustUnHex(a[2]))
}

var versionImpl = map[string]core.Adapter{
	"vercmp": func(a []string) string {
		return strconv.Itoa(sgn(version.Compare(argVersion(a[0:3]), argVersion(a[3:6]))))
	},
	// the sort adapter on a two-element slice, both ways round and through a longer slice
	"verless": func(a []string) string {
		x, y := argVersion(a[0:3]), argVersion(a[3:6])
		l := (version.Slice{x, y}).Less(0, 1)
		if (version.Slice{y, x}).Less(1, 0) != l || (version.Slice{x, x, y, y}).Less(1, 2) != l {
			return "less-depends-on-position"
		}
		return strconv.FormatBool(l)
	},
	// verrev compares two component strings through the exported API: as upstream parts
	"verrev": func(a []string) string {
		x := version.Version{Version: core.MustUnHex(a[0])}
		y := version.Version{Version: core.MustUnHex(a[1])}
		return strconv.Itoa(sgn(version.Compare(x, y)))
	},
}

func init() {
	// the real dpkg as an independent opinion on the specification (not on the library)
	versionImpl["verfull"] = func(a []string) string {
		x, y := core.MustUnHex(a[0]), core.MustUnHex(a[1])
		run := func(op string) bool {
			c := exec.Command("dpkg", "--compare-versions", x, op, y)
			c.Env = core.OrigEnv
			return c.Run() == nil
		}
		switch {
		case run("lt"):
			return "-1"
		case run("eq"):
			return "0"
		case run("gt"):
			return "1"
		}
		return "err"
	}
}

func streamDpkg(g *core.G) {
	r := g.R
	for i := g.N(150, 20000); i > 0; i-- {
		e, u, rv, hr := genWFVersion(r)
		if len(e) > 9 {
			e = "7" // dpkg limits the epoch to INT_MAX
		}
		a := renderWF(e, u, rv, hr)
		b := a
		switch r.Intn(4) {
		case 0:
			b = renderWF(e, mutateComponent(r, u, "0123456789abzAZ.+~"), rv, hr)
		case 1:
			b = renderWF(e, u, strings.ReplaceAll(mutateComponent(r, rv, "0123456789abzAZ.+~"), "-", ""), true)
		case 2:
			e2, u2, r2, h2 := genWFVersion(r)
			if len(e2) > 9 {
				e2 = ""
			}
			b = renderWF(e2, u2, r2, h2)
		}
		if _, err := version.Parse(b); err != nil {
			continue
		}
		if _, err := version.Parse(a); err != nil {
			continue
		}
		// dpkg is stricter than the property's grammar in places (e.g. an empty revision
		// after '-'): only pairs that dpkg itself accepts are compared
		va, vb := exec.Command("dpkg", "--validate-version", a), exec.Command("dpkg", "--validate-version", b)
		va.Env, vb.Env = core.OrigEnv, core.OrigEnv
		if va.Run() != nil || vb.Run() != nil {
			continue
		}
		g.Emit("verfull", core.Hex(a), core.Hex(b))
	}
}

func versionReadable(op string, a []string) string {
	switch op {
	case "vercmp":
		return "Compare(" + showVer(a[0:3]) + ", " + showVer(a[3:6]) + ")"
	case "verless":
		return "Slice{" + showVer(a[0:3]) + ", " + showVer(a[3:6]) + "}.Less(0, 1)"
	case "verrev":
		return fmt.Sprintf("Compare(upstream %q, upstream %q)", core.MustUnHex(a[0]), core.MustUnHex(a[1]))
	}
	return op + " " + strings.Join(a, " ")
}

// genComponent draws a version component biased towards the decision points of the
// dpkg order: digit runs with leading zeros, letters vs punctuation, tildes.
func genComponent(r *core.Rand, alphabet string) string {
	var b strings.Builder
	n := r.Intn(5)
	for i := 0; i < n; i++ {
		switch r.Intn(6) {
		case 0, 1:
			if r.Chance(1, 3) {
				b.WriteString(strings.Repeat("0", r.Range(1, 3)))
			}
			if r.Chance(1, 8) {
				// numbers at the limits of the machine integer types (a comparison through
				// ParseUint / Atoi changes exactly there)
				b.WriteString(r.Pick(boundaryNumbers))
			} else {
				b.WriteString(r.Str("0123456789", r.Range(1, 4)))
			}
		case 2:
			b.WriteString(r.Str("abzAZ", r.Range(1, 3)))
		case 3:
			b.WriteString(r.Str(".+~-", r.Range(1, 2)))
		case 4:
			b.WriteString(r.Str(alphabet, r.Range(1, 3)))
		case 5:
			b.WriteString("~")
		}
	}
	return b.String()
}

// mutate makes a near neighbour of s: the interesting comparisons share a prefix.
func mutateComponent(r *core.Rand, s string, alphabet string) string {
	pos := r.Intn(len(s) + 1)
	switch r.Intn(9) {
	case 0: // extend a digit run / append digits
		return s[:pos] + r.Str("0123456789", r.Range(1, 2)) + s[pos:]
	case 1: // leading zeros
		return s[:pos] + strings.Repeat("0", r.Range(1, 3)) + s[pos:]
	case 2: // delete a byte
		if len(s) > 0 {
			p := r.Intn(len(s))
			return s[:p] + s[p+1:]
		}
		return s
	case 3: // end early
		return s[:pos]
	case 4: // append tilde
		return s + "~" + r.Str(alphabet, r.Intn(3))
	case 5: // replace one byte
		if len(s) > 0 {
			p := r.Intn(len(s))
			return s[:p] + string(alphabet[r.Intn(len(alphabet))]) + s[p+1:]
		}
		return string(alphabet[r.Intn(len(alphabet))])
	case 6: // insert punctuation / letter
		return s[:pos] + r.Str("a+.~Z-", 1) + s[pos:]
	case 7: // append
		return s + r.Str(alphabet, r.Range(1, 3))
	case 8: // a boundary number next to another one (2^64-1 against 2^64, ...)
		for _, bn := range boundaryNumbers {
			if i := strings.Index(s, bn); i >= 0 {
				return s[:i] + r.Pick(boundaryNumbers) + s[i+len(bn):]
			}
		}
		return s[:pos] + r.Pick(boundaryNumbers) + s[pos:]
	}
	return s
}

var boundaryNumbers = []string{"2147483647", "2147483648", "4294967295", "4294967296", "9223372036854775807", "9223372036854775808",
	"18446744073709551614", "18446744073709551615", "18446744073709551616", "18446744073709551617", "99999999999999999999", "100000000000000000000"}

// genEpoch: small epochs mostly; sometimes values beyond the signed range (a Version can be
// built directly, and Compare takes any uint)
func genEpoch(r *core.Rand) uint {
	if r.Chance(1, 10) {
		return []uint{1<<31 - 1, 1 << 31, 1 << 32, 1<<63 - 1, 1 << 63, 1<<63 + 5, ^uint(0) - 1, ^uint(0)}[r.Intn(8)]
	}
	return uint(r.Intn(3))
}

func genVersionPair(r *core.Rand, alphabet string) (version.Version, version.Version) {
	a := version.Version{Epoch: genEpoch(r), Version: genComponent(r, alphabet), Revision: strings.ReplaceAll(genComponent(r, alphabet), "-", "")}
	b := a
	switch r.Intn(6) {
	case 0:
		b.Epoch = genEpoch(r)
	case 1, 2:
		b.Version = mutateComponent(r, a.Version, alphabet)
	case 3, 4:
		b.Revision = strings.ReplaceAll(mutateComponent(r, a.Revision, alphabet), "-", "")
	case 5:
		b = version.Version{Epoch: genEpoch(r), Version: genComponent(r, alphabet), Revision: genComponent(r, alphabet)}
	}
	if r.Bool() {
		return b, a
	}
	return a, b
}

func streamVercmp(g *core.G) {
	// the property's own examples and classic boundary cases first
	fixed := [][2]string{{"1.0~rc1", "1.0"}, {"1.0", "1.0+b1"}, {"9", "10"}, {"1.00", "1.0"}, {"", "0"}, {"a", "+"},
		{"~", ""}, {"~~", "~"}, {"a~", "a"}, {"1a", "1+"}, {"0001", "1"}, {"1.2.3", "1.2.03"}, {"1z", "1."}, {"1-1", "1-01"}}
	for _, p := range fixed {
		g.Emit("verrev", core.Hex(p[0]), core.Hex(p[1]))
		g.Emit("verrev", core.Hex(p[1]), core.Hex(p[0]))
	}
	g.Emit("vercmp", "0", core.Hex("1.0"), "-", "0", core.Hex("1.0"), core.Hex("0"))
	n := g.N(12000, 400000)
	for i := 0; i < n; i++ {
		a, b := genVersionPair(g.R, verAlphabet)
		g.Emit("vercmp", append(encVersion(a), encVersion(b)...)...)
		if i%3 == 0 {
			g.Emit("verless", append(encVersion(a), encVersion(b)...)...)
		}
		if i%8 == 0 {
			// two spellings of dpkg-equal upstream parts (or revisions) and a deciding other part
			c, d := a, a
			switch g.R.Intn(4) {
			case 0:
				c.Version, d.Version = "1"+a.Version, "01"+a.Version
			case 1:
				c.Version, d.Version = a.Version+".0", a.Version+".000"
			case 2:
				c.Version, d.Version = a.Version+"a", a.Version+"a0"
			case 3:
				c.Version, d.Version = a.Version+".", a.Version+".0"
			}
			if g.R.Chance(1, 4) {
				// a sign or a letter right after a dot: "1.+3", "1.-2", "1.3a" next to "1.3"
				n := strconv.Itoa(g.R.Intn(12))
				base := "1." + g.R.Pick([]string{"", "0."})
				xs := []string{base + n, base + "+" + n, base + "-" + n, base + n + "a", base + "0" + n, base + n + ".0", base + n + "+", base + "~" + n}
				c.Version, d.Version = g.R.Pick(xs), g.R.Pick(xs)
				c.Revision = d.Revision
			}
			d.Revision = b.Revision
			g.Emit("vercmp", append(encVersion(c), encVersion(d)...)...)
			g.Emit("verless", append(encVersion(c), encVersion(d)...)...)
			g.Emit("verless", append(encVersion(d), encVersion(c)...)...)
		}
	}
	// single components, including long digit runs (no limit on magnitude)
	for i := 0; i < n/4; i++ {
		x := genComponent(g.R, verAlphabet)
		if g.R.Chance(1, 10) {
			x += g.R.Str("0123456789", g.R.Range(18, 40))
		}
		y := mutateComponent(g.R, x, verAlphabet)
		g.Emit("verrev", core.Hex(x), core.Hex(y))
	}
	if g.Thorough {
		// bounded-exhaustive: all pairs of strings of length <= 3 over a 9-letter alphabet
		var all []string
		var rec func(prefix string, d int)
		rec = func(prefix string, d int) {
			all = append(all, prefix)
			if d == 0 {
				return
			}
			for i := 0; i < len(verAlphabetSmall); i++ {
				rec(prefix+string(verAlphabetSmall[i]), d-1)
			}
		}
		rec("", 3)
		for _, x := range all {
			for _, y := range all {
				g.Emit("verrev", core.Hex(x), core.Hex(y))
			}
		}
	}
}

func init() {
	core.Register(&core.Property{
		ID:          "C01",
		PropsModule: "GoDebian.Props.C01",
		TieModule:   "GoDebian.Tie.Version",
		Theorems:    []string{},
		TieTheorems: []string{"GoDebian.Tie.Version.order_eq", "GoDebian.Tie.Version.cisdigit_eq", "GoDebian.Tie.Version.cisalpha_eq"},
		Facts: []string{"version.order:translated", "version.cisdigit:translated", "version.cisalpha:translated",
			"fingerprint:version.verrevcmp", "fingerprint:version.Compare", "fingerprint:version.order"},
		Streams: []core.Stream{{Name: "dpkg", Gen: streamDpkg, Domain: "support, not proof: the real `dpkg --compare-versions` against the Lean specification Spec.Version.compare on well-formed version pairs (validates the reading of Policy 5.6.12 the theorems are stated against)"}, {Name: "vercmp", Gen: streamVercmp,
			Domain: "pairs of versions over the parser's alphabet [A-Za-z0-9.+~:-]: common prefix plus one edit (digit-run extension, leading zeros, letter/punctuation swap, tilde, early end, revision-only and epoch-only differences), random components, digit runs up to 40 digits; observable: sign of Compare and the sort adapter Slice.Less (also on dpkg-equal upstream parts spelled differently with a deciding revision); thorough adds all pairs of strings of length <= 3 over {0,1,9,a,Z,~,+,.,-}"}},
		Impl:     versionImpl,
		Readable: versionReadable,
		TrustedBase: []string{"Lean 4.33.0 kernel", "axioms reported per theorem under coverage.axioms (subset of propext, Classical.choice, Quot.sound)",
			"Spec.Version.cmp as the reading of Policy 5.6.12", "harness/extract translation of order/cisdigit/cisalpha", "correspondence stream vercmp (differential test, not proof)"},
		Assumptions: []string{"version components contain no NUL byte (superset of the parser's alphabet)"},
	})
}
