package props

import (
	"archive/tar"
	"bufio"
	"bytes"
	"compress/bzip2"
	"compress/gzip"
	"crypto"
	"crypto/md5"
	"crypto/sha1"
	"crypto/sha256"
	"fmt"
	"golang.org/x/crypto/openpgp/clearsign"
	"io"
	"os"
	"os/exec"
	"path"
	"path/filepath"
	"reflect"
	"runtime"
	"sort"
	"strconv"
	"strings"
	"sync"
	"time"

	"github.com/kjk/lzma"
	"github.com/klauspost/compress/zstd"
	"github.com/xi2/xz"
	"golang.org/x/crypto/openpgp"
	"golang.org/x/crypto/openpgp/packet"

	"pault.ag/go/debian/control"
	"pault.ag/go/debian/deb"

	"verif/harness/core"
)

// ---- the external components, used directly (not through go-debian) ---------------------

func decompress(ext string, data []byte) (io.Reader, error) {
	switch ext {
	case ".gz":
		return gzip.NewReader(bytes.NewReader(data))
	case ".bz2":
		return bzip2.NewReader(bytes.NewReader(data)), nil
	case ".xz":
		return xz.NewReader(bytes.NewReader(data), 0)
	case ".lzma":
		return lzma.NewReader(bytes.NewReader(data)), nil
	case ".zst":
		return zstd.NewReader(bytes.NewReader(data))
	}
	return bytes.NewReader(data), nil
}

var compressCache sync.Map

func compress(ext string, data []byte) []byte {
	key := ext + string(data)
	if v, ok := compressCache.Load(key); ok {
		return v.([]byte)
	}
	var out []byte
	cli := func(name string, args ...string) []byte {
		cmd := exec.Command(name, args...)
		cmd.Env = core.OrigEnv
		cmd.Stdin = bytes.NewReader(data)
		b, err := cmd.Output()
		if err != nil {
			panic(fmt.Sprintf("%s: %v", name, err))
		}
		return b
	}
	switch ext {
	case "":
		out = data
	case ".gz":
		var b bytes.Buffer
		w := gzip.NewWriter(&b)
		w.Write(data)
		w.Close()
		out = b.Bytes()
	case ".zst":
		var b bytes.Buffer
		w, _ := zstd.NewWriter(&b)
		w.Write(data)
		w.Close()
		out = b.Bytes()
	case ".xz":
		out = cli("xz", "-c", "-0")
	case ".lzma":
		out = cli("xz", "--format=lzma", "-c", "-0")
	case ".bz2":
		out = cli("bzip2", "-c")
	}
	compressCache.Store(key, out)
	return out
}

// compressParts: the data cut in two at `cut` (0 < cut < len), each part compressed on its own
// and the results concatenated: a multi-member gzip file (RFC 1952 2.2), concatenated xz /
// bzip2 streams, several zstd frames.  Every decoder involved reads these as one stream.
func compressParts(ext string, data []byte, cut int) []byte {
	switch ext {
	case ".gz", ".xz", ".bz2", ".zst":
		if cut > 0 && cut < len(data) {
			return append(append([]byte{}, compress(ext, data[:cut])...), compress(ext, data[cut:])...)
		}
	}
	return compress(ext, data)
}

// tarHugeSize rewrites, in a tar stream, the size field of the first entry whose name contains
// `name` to a GNU base-256 number far beyond anything that exists (checksum kept valid)
func tarHugeSize(t []byte, name string, size uint64) []byte {
	t = append([]byte{}, t...)
	for off := 0; off+512 <= len(t); {
		h := t[off : off+512]
		if h[0] == 0 {
			break
		}
		var sz int64
		for _, c := range strings.Trim(string(h[124:136]), " \x00") {
			sz = sz*8 + int64(c-'0')
		}
		if strings.Contains(strings.TrimRight(string(h[0:100]), "\x00"), name) {
			for i := 124; i < 136; i++ {
				h[i] = 0
			}
			h[124] = 0x80
			for i := 0; i < 8; i++ {
				h[135-i] = byte(size >> (8 * uint(i)))
			}
			for i := 148; i < 156; i++ {
				h[i] = ' '
			}
			sum := 0
			for _, c := range h {
				sum += int(c)
			}
			copy(h[148:156], fmt.Sprintf("%06o\x00 ", sum))
			return t
		}
		off += 512 + int((sz+511)/512)*512
	}
	return t
}

// zstdRawFrame writes data as one zstd frame of raw (stored) blocks whose header declares a
// window of 2^windowLog bytes - what `zstd --ultra -22` / `--long` produce for the header,
// whatever the payload size (RFC 8878 3.1.1)
func zstdRawFrame(data []byte, windowLog int) []byte {
	out := []byte{0x28, 0xB5, 0x2F, 0xFD, 0x00, byte((windowLog - 10) << 3)}
	for {
		n := len(data)
		if max := 1 << windowLog; n > max {
			n = max // Block_Maximum_Size is the smaller of the window size and 128 KiB
		}
		if n > 65536 {
			n = 65536
		}
		last := 0
		if n == len(data) {
			last = 1
		}
		v := last | n<<3
		out = append(out, byte(v), byte(v>>8), byte(v>>16))
		out = append(out, data[:n]...)
		data = data[n:]
		if last == 1 {
			return out
		}
	}
}

type tarFile struct {
	Name string
	Body string
	Dir  bool
}

func buildTar(files []tarFile) []byte {
	var b bytes.Buffer
	w := tar.NewWriter(&b)
	for _, f := range files {
		if f.Dir {
			w.WriteHeader(&tar.Header{Name: f.Name, Typeflag: tar.TypeDir, Mode: 0o755})
			continue
		}
		w.WriteHeader(&tar.Header{Name: f.Name, Typeflag: tar.TypeReg, Mode: 0o644, Size: int64(len(f.Body))})
		w.Write([]byte(f.Body))
	}
	w.Close()
	return b.Bytes()
}

// tarListing: what a tar reader sees in a (possibly compressed) member: entries until it
// stops; an entry whose body cannot be read completely has content "!" (read error)
func tarListing(ext string, data []byte) (entries [][2]string, openErr bool, closeErr bool) {
	defer func() {
		if r := recover(); r != nil {
			// a third-party decoder panicked on hostile bytes: treat as a read error at this point
		}
	}()
	rd, err := decompress(ext, data)
	if err != nil {
		return nil, true, false
	}
	tr := tar.NewReader(rd)
	for {
		h, err := tr.Next()
		if err != nil {
			return entries, false, false
		}
		// read the body the way the control decoder does (bufio + ReadString): with a
		// damaged deflate stream the point at which the decoder reports the damage depends
		// on the read pattern, and this answer must be the one the loader would get
		br := bufio.NewReader(tr)
		var body strings.Builder
		var rerr error
		for {
			line, err := br.ReadString('\n')
			body.WriteString(line)
			if err != nil {
				if err != io.EOF {
					rerr = err
				}
				break
			}
		}
		if rerr != nil {
			entries = append(entries, [2]string{h.Name, "!"})
			return entries, false, false
		}
		entries = append(entries, [2]string{h.Name, core.Hex(body.String())})
		if path.Clean(h.Name) == "control" {
			// the loader stops here and closes the decompressor, whose Close() may report
			// damage it has already seen further down the stream
			if c, ok := rd.(io.Closer); ok {
				closeErr = c.Close() != nil
			}
			return entries, false, closeErr
		}
	}
}

func listingDigest(entries [][2]string) string {
	h := sha256.New()
	for _, e := range entries {
		fmt.Fprintf(h, "%d:%s%d:%s", len(e[0]), e[0], len(e[1]), e[1])
	}
	return fmt.Sprintf("%d-%x", len(entries), h.Sum(nil)[:8])
}

// ---- adapters -------------------------------------------------------------------------------

func dumpLoadedDeb(d *deb.Deb) string {
	var names []string
	for n := range d.ArContent {
		names = append(names, core.Hex(n))
	}
	sort.Strings(names)
	return dumpGoRecord(reflect.ValueOf(&d.Control).Elem()) + " " + core.Hex(d.ControlExt) + " " + core.Hex(d.DataExt) + " [" + strings.Join(names, ",") + "]"
}

func loadDebDump(data []byte) (string, *deb.Deb) {
	d, err := deb.Load(bytes.NewReader(data), "x.deb")
	if err != nil {
		if d != nil {
			return "err+value", nil
		}
		return "err", nil
	}
	return "ok " + dumpLoadedDeb(d), d
}

// loadDebFileDump: the same bytes through deb.LoadFile
func loadDebFileDump(data []byte) string {
	f, err := os.CreateTemp("", "verif-*.deb")
	if err != nil {
		return "infrastructure"
	}
	defer os.Remove(f.Name())
	f.Write(data)
	f.Close()
	d, closer, err := deb.LoadFile(f.Name())
	if err != nil {
		if d != nil {
			return "err+value"
		}
		return "err"
	}
	defer closer()
	if d.Path != f.Name() {
		return "path-wrong"
	}
	return "ok " + dumpLoadedDeb(d)
}

// fdsOpenOn counts the descriptors of this process that refer to path.  os.File.Close returns
// while a read that another goroutine (a decompressor's) has in flight still holds a reference;
// the descriptor goes when that read returns - so a descriptor that is still there is looked
// for again for up to three seconds before it counts.
func fdsOpenOn(path string) int {
	n := 0
	for try := 0; try < 60; try++ {
		if n = fdsOpenOnce(path); n == 0 {
			return 0
		}
		time.Sleep(50 * time.Millisecond)
	}
	return n
}

func fdsOpenOnce(path string) int {
	ents, err := os.ReadDir("/proc/self/fd")
	if err != nil {
		return 0
	}
	n := 0
	for _, e := range ents {
		if l, err := os.Readlink("/proc/self/fd/" + e.Name()); err == nil && l == path {
			n++
		}
	}
	return n
}

// dataOnlyDigest loads a file, keeps only Deb.Data and the close function, lets the garbage
// collector run, and then reads the payload
func dataOnlyDigest(path string) string {
	data, closer := func() (*tar.Reader, func() error) {
		d, closer, err := deb.LoadFile(path)
		if err != nil {
			return nil, nil
		}
		return d.Data, closer
	}()
	if data == nil {
		return "load-failed"
	}
	defer closer()
	runtime.GC()
	runtime.GC()
	var entries [][2]string
	for {
		h, err := data.Next()
		if err != nil {
			if err != io.EOF {
				return "read-error: " + err.Error()
			}
			break
		}
		body, err := io.ReadAll(data)
		if err != nil {
			return "read-error: " + err.Error()
		}
		entries = append(entries, [2]string{h.Name, string(body)})
	}
	return listingDigest(entries)
}

func debDataDigest(d *deb.Deb) string {
	var entries [][2]string
	for {
		h, err := d.Data.Next()
		if err != nil {
			break
		}
		body, _ := io.ReadAll(d.Data)
		entries = append(entries, [2]string{h.Name, string(body)})
	}
	return listingDigest(entries)
}

// deb op args: schema…, hex, ctlAnswer…, dataOpens  (the adapter needs only the bytes)
func debBytes(a []string) []byte {
	n := skipSchema(a)
	return []byte(core.MustUnHex(a[n]))
}

func readKeyring(h string) openpgp.EntityList {
	kr, err := openpgp.ReadKeyRing(strings.NewReader(core.MustUnHex(h)))
	if err != nil {
		return openpgp.EntityList{}
	}
	return kr
}

func keyID(e *openpgp.Entity) string { return fmt.Sprintf("ok:%016x", e.PrimaryKey.KeyId) }

var debImpl = map[string]core.Adapter{
	"deb": func(a []string) string {
		data := debBytes(a)
		first, _ := loadDebDump(data)
		for i := 0; i < 4; i++ { // loading the same bytes always gives the same result
			again, _ := loadDebDump(data)
			if again != first {
				return "nondeterministic " + first + " / " + again
			}
		}
		// the file entry point must agree with the reader entry point
		if viaFile := loadDebFileDump(data); viaFile != first {
			return "loadfile-differs " + first + " / " + viaFile
		}
		return first
	},
	// law (C14): the loaded package shows the packaged control fields, extensions, member
	// index and exactly the packaged data files
	"law-deb": func(a []string) string {
		data := []byte(core.MustUnHex(a[0]))
		res, d := loadDebDump(data)
		if a[1] == "reject" {
			if res != "err" {
				return "FAIL accepted: " + res
			}
			return "ok"
		}
		if d == nil {
			return "FAIL rejected"
		}
		defer d.Close()
		v := reflect.ValueOf(&d.Control).Elem()
		for _, e := range a[5:] {
			i := strings.IndexByte(e, '=')
			f, _ := v.Type().FieldByName(e[:i])
			if got := dumpGoValue(v.FieldByIndex(f.Index)); got != e[i+1:] {
				return fmt.Sprintf("FAIL control field %s: got %s want %s", e[:i], got, e[i+1:])
			}
		}
		if core.Hex(d.ControlExt) != a[1] || core.Hex(d.DataExt) != a[2] {
			return fmt.Sprintf("FAIL extensions %q %q", d.ControlExt, d.DataExt)
		}
		var names []string
		for n := range d.ArContent {
			names = append(names, core.Hex(n))
		}
		sort.Strings(names)
		if strings.Join(names, ",") != a[3] {
			return "FAIL member index " + strings.Join(names, ",")
		}
		if got := debDataDigest(d); got != a[4] {
			return "FAIL data listing " + got + " want " + a[4]
		}
		return "ok"
	},
	// law (C15): arbitrary bytes never panic / hang / differ between runs (panic and hang are
	// caught by the harness wrapper); a loaded package came from a consistent archive
	"law-debsafe": func(a []string) string {
		data := []byte(core.MustUnHex(a[0]))
		first, _ := loadDebDump(data)
		for i := 0; i < 4; i++ {
			again, d := loadDebDump(data)
			if d != nil {
				debDataDigest(d) // reading the payload to its end (or to its first error) does not panic either
				d.Close()
			}
			if again != first {
				return "FAIL outcome differs between loads: " + first + " / " + again
			}
		}
		return "ok"
	},
	"debsig": func(a []string) string {
		data := []byte(core.MustUnHex(a[0]))
		first := ""
		// a fresh load per repetition: map-order dependent choices show up across repetitions
		// (CheckDebsig does not rewind the signature member, so it is called once per load)
		for i := 0; i < 6; i++ {
			d, err := deb.Load(bytes.NewReader(data), "x.deb")
			res := "err"
			if err == nil {
				e, err := d.CheckDebsig(readKeyring(a[2]), core.MustUnHex(a[1]))
				if err == nil && e != nil {
					res = keyID(e)
				}
				d.Close()
			}
			if i == 0 {
				first = res
			} else if res != first {
				return "nondeterministic " + first + " / " + res
			}
		}
		return first
	},
}

// ---- generators --------------------------------------------------------------------------------

var compExts = []string{"", ".gz", ".xz", ".bz2", ".lzma", ".zst"}

type debModel struct {
	ControlText string
	Expect      map[string]string
	CtlFiles    []tarFile
	DataFiles   []tarFile
	CtlExt      string
	DataExt     string
	Extra       []arMember
	BinaryText  string
	CtlCut      int // > 0: the control tar is compressed in two parts cut here (see compressParts)
	DataCut     int
	ZstWindow   int  // > 0: zstd members are raw-block frames declaring a window of 2^ZstWindow bytes
	V7          bool // the tar members carry old-style (pre-POSIX) headers: no "ustar" magic
}

// tarToV7 rewrites every header of a ustar archive as an old-style V7 header: magic, version,
// owner names, device numbers and prefix are blanked and the checksum is recomputed.  tar(1)
// --format=v7 writes such archives; GNU tar, dpkg and archive/tar read them.
func tarToV7(t []byte) []byte {
	t = append([]byte{}, t...)
	for o := 0; o+512 <= len(t); {
		h := t[o : o+512]
		if bytes.Count(h, []byte{0}) == 512 {
			break
		}
		size, _ := strconv.ParseInt(strings.Trim(string(h[124:136]), " \x00"), 8, 64)
		for i := 257; i < 500; i++ {
			h[i] = 0
		}
		if h[156] == '0' {
			h[156] = 0
		}
		copy(h[148:156], "        ")
		sum := 0
		for _, c := range h {
			sum += int(c)
		}
		copy(h[148:156], fmt.Sprintf("%06o\x00 ", sum))
		o += 512 + int((size+511)/512*512)
	}
	return t
}

var allBytes = func() string {
	b := make([]byte, 256)
	for i := range b {
		b[i] = byte(i)
	}
	return string(b)
}()

func genDebModel(r *core.Rand) debModel {
	m := debModel{BinaryText: "2.0\n"}
	if r.Chance(1, 8) {
		// deb(5): further lines may follow the version line and are ignored
		m.BinaryText += r.Pick([]string{"\n", "built-by: verif\n", "2.1\n", "x", strings.Repeat("line\n", r.Range(1, 30))})
	}
	m.ControlText, m.Expect = genTypedDoc(r, "DebControl")
	ctl := tarFile{Name: r.Pick([]string{"./control", "control", "./control", ".//control", "./x/../control"}), Body: m.ControlText}
	others := []tarFile{{Name: "./", Dir: true}, {Name: "./md5sums", Body: "d41d8cd98f00b204e9800998ecf8427e  usr/bin/foo\n"}, {Name: "./postinst", Body: "#!/bin/sh\nexit 0\n"}, {Name: "./conffiles", Body: "/etc/foo\n"}}
	k := r.Intn(len(others) + 1)
	files := append([]tarFile{}, others[:k]...)
	pos := r.Intn(len(files) + 1)
	files = append(files[:pos], append([]tarFile{ctl}, files[pos:]...)...)
	files = append(files, others[k:]...)
	if r.Chance(1, 3) {
		files = files[:pos+1]
	}
	if r.Chance(1, 6) {
		// a large file ahead of ./control, so that the control file straddles a 32 KiB boundary of
		// the decompressed stream (a single Read of a tar-over-gzip stream comes back short there)
		big := tarFile{Name: "./md5sums", Body: strings.Repeat("d41d8cd98f00b204e9800998ecf8427e  usr/share/doc/foo/file\n", r.Pick2(r.Range(540, 560), r.Range(1100, 1120)))}
		files = append([]tarFile{big}, files...)
	}
	m.CtlFiles = files
	m.DataFiles = []tarFile{{Name: "./", Dir: true}, {Name: "./usr/", Dir: true}}
	for n := r.Intn(4); n > 0; n-- {
		m.DataFiles = append(m.DataFiles, tarFile{Name: "./usr/" + r.Pick([]string{"bin/foo", "share/doc/foo/copyright", "lib/libfoo.so.1", "x"}) + strconv.Itoa(n), Body: r.Str("abc\n\x00", r.Intn(400))})
	}
	if r.Chance(1, 8) {
		// a payload that does not compress: the compressed member is larger than any read-ahead a
		// decompressor takes when it is set up (4 KiB bufio, 32 KiB flate window, 64 KiB blocks)
		m.DataFiles = append(m.DataFiles, tarFile{Name: "./usr/lib/blob", Body: r.Str(allBytes, r.Pick2(r.Range(5000, 9000), r.Range(33000, 70000)))})
	}
	m.V7 = r.Chance(1, 10)
	m.CtlExt, m.DataExt = r.Pick(compExts), r.Pick(compExts)
	if r.Chance(1, 5) {
		// compressed in two members / streams / frames: cut on a tar block boundary (where a
		// reader that stops after the first part sees a clean end of archive) or anywhere
		cutOf := func(n int) int {
			if r.Bool() {
				return 512 * r.Range(1, n/512)
			}
			return r.Range(1, n-1)
		}
		if r.Bool() {
			m.CtlCut = cutOf(len(buildTar(m.CtlFiles)))
		}
		if m.CtlCut == 0 || r.Bool() {
			m.DataCut = cutOf(len(buildTar(m.DataFiles)))
		}
	}
	if (m.CtlExt == ".zst" || m.DataExt == ".zst") && r.Chance(1, 6) {
		// frame headers as high compression levels and long-distance matching write them
		m.ZstWindow = r.Pick2(r.Range(10, 23), r.Range(24, 27))
	}
	for n := r.Intn(3); n > 0 && r.Chance(1, 2); n-- {
		m.Extra = append(m.Extra, arMember{Name: r.Pick([]string{"_gpgbuilder", "_extra", "foo", "_gpgorigin"}) + strconv.Itoa(n), Data: []byte(r.Str("xyz", r.Intn(20)))})
	}
	return m
}

func (m debModel) pack(ext string, tarBytes []byte, cut int) []byte {
	if ext == ".zst" && m.ZstWindow > 0 {
		return zstdRawFrame(tarBytes, m.ZstWindow)
	}
	return compressParts(ext, tarBytes, cut)
}

func (m debModel) tar(files []tarFile) []byte {
	if m.V7 {
		return tarToV7(buildTar(files))
	}
	return buildTar(files)
}

func (m debModel) members() []arMember {
	ms := []arMember{{Name: "debian-binary", TS: "0", UID: "0", GID: "0", Mode: "100644", Data: []byte(m.BinaryText)},
		{Name: "control.tar" + m.CtlExt, TS: "0", UID: "0", GID: "0", Mode: "100644", Data: m.pack(m.CtlExt, m.tar(m.CtlFiles), m.CtlCut)},
		{Name: "data.tar" + m.DataExt, TS: "0", UID: "0", GID: "0", Mode: "100644", Data: m.pack(m.DataExt, m.tar(m.DataFiles), m.DataCut)}}
	return append(ms, m.Extra...)
}

func (m debModel) dataDigest() string {
	var es [][2]string
	for _, f := range m.DataFiles {
		es = append(es, [2]string{f.Name, f.Body})
	}
	return listingDigest(es)
}

func memberNamesHex(ms []arMember) string {
	var names []string
	for _, x := range ms {
		names = append(names, core.Hex(x.Name))
	}
	sort.Strings(names)
	return strings.Join(names, ",")
}

// emitDeb queues the two-phase model/implementation comparison for one archive.
func emitDeb(g *core.G, data []byte) {
	schema := schemaTokens(codecTypes["DebControl"])
	h := core.Hex(string(data))
	g.EmitGen(func(out string) []string {
		args := append([]string{"deb"}, schema...)
		args = append(args, h)
		f := strings.Fields(out)
		if len(f) != 7 || f[0] != "need" {
			return []string{strings.Join(append(args, "E", "0"), " ")}
		}
		cOff, _ := strconv.Atoi(f[1])
		cSize, _ := strconv.Atoi(f[2])
		dOff, _ := strconv.Atoi(f[4])
		dSize, _ := strconv.Atoi(f[5])
		cName, dName := core.MustUnHex(f[3]), core.MustUnHex(f[6])
		entries, openErr, closeErr := tarListing(path.Ext(cName), data[cOff:cOff+cSize])
		if openErr {
			args = append(args, "E")
		} else {
			args = append(args, "T", strconv.Itoa(len(entries)))
			for _, e := range entries {
				args = append(args, core.Hex(e[0]), e[1])
			}
			args = append(args, "C"+b01(closeErr))
		}
		_, dErr := decompress(path.Ext(dName), data[dOff:dOff+dSize])
		args = append(args, b01(dErr == nil))
		return []string{strings.Join(args, " ")}
	}, "debplan", h)
}

// debByTool builds a package with the real dpkg-deb from a scratch tree
func debByTool(r *core.Rand, comp string) ([]byte, map[string]string, string) {
	dir, err := os.MkdirTemp("", "verif-deb-")
	if err != nil {
		return nil, nil, ""
	}
	defer os.RemoveAll(dir)
	root := filepath.Join(dir, "pkg")
	os.MkdirAll(filepath.Join(root, "DEBIAN"), 0o755)
	os.MkdirAll(filepath.Join(root, "usr/share/doc/foo"), 0o755)
	ver := "1." + strconv.Itoa(r.Intn(50)) + "-" + strconv.Itoa(r.Intn(9)+1)
	arch := r.Pick([]string{"amd64", "all", "i386"})
	ctl := "Package: foo" + strconv.Itoa(r.Intn(9)) + "\nVersion: " + ver + "\nArchitecture: " + arch + "\nMaintainer: A B <a@b>\nDepends: libc6 (>= 2.1), bar | baz\nDescription: short\n long text\n"
	os.WriteFile(filepath.Join(root, "DEBIAN/control"), []byte(ctl), 0o644)
	body := r.Str("abc\n", r.Intn(300))
	os.WriteFile(filepath.Join(root, "usr/share/doc/foo/copyright"), []byte(body), 0o644)
	out := filepath.Join(dir, "out.deb")
	cmd := exec.Command("dpkg-deb", "--root-owner-group", "-Z"+comp, "-b", root, out)
	cmd.Env = core.OrigEnv
	if cmd.Run() != nil {
		return nil, nil, ""
	}
	b, _ := os.ReadFile(out)
	d, err := control.ParseControlFile(filepath.Join(root, "DEBIAN/control"))
	_ = d
	expect := map[string]string{"Package": core.Hex(strings.SplitN(ctl[9:], "\n", 2)[0]), "Maintainer": core.Hex("A B <a@b>"), "Description": core.Hex("short\nlong text\n"),
		"Architecture": archTriple(arch)}
	return b, expect, body
}

func streamDebTool(g *core.G) {
	r := g.R
	for i := g.N(12, 600); i > 0; i-- {
		comp := r.Pick([]string{"gzip", "xz", "zstd", "none"})
		b, expect, _ := debByTool(r, comp)
		if b == nil {
			continue
		}
		emitDeb(g, b)
		ext := map[string]string{"gzip": "tar.gz", "xz": "tar.xz", "zstd": "tar.zst", "none": "tar"}[comp]
		args := []string{core.Hex(string(b)), "accept-tool", core.Hex(ext)}
		g.Emit("law-debtool", append(args, expectedRecordDump(codecTypes["DebControl"], expect)...)...)
	}
}

func init() {
	// law: a package built by the real dpkg-deb loads, with the packaged control fields and the
	// data extension of the chosen compressor
	debImpl["law-debtool"] = func(a []string) string {
		d, err := deb.Load(bytes.NewReader([]byte(core.MustUnHex(a[0]))), "x.deb")
		if err != nil {
			return "FAIL a dpkg-deb built package is rejected: " + err.Error()
		}
		defer d.Close()
		if core.Hex(d.DataExt) != a[2] {
			return fmt.Sprintf("FAIL data extension %q", d.DataExt)
		}
		v := reflect.ValueOf(&d.Control).Elem()
		for _, e := range a[3:] {
			i := strings.IndexByte(e, '=')
			f, _ := v.Type().FieldByName(e[:i])
			if got := dumpGoValue(v.FieldByIndex(f.Index)); got != e[i+1:] {
				return fmt.Sprintf("FAIL control field %s: got %s want %s", e[:i], got, e[i+1:])
			}
		}
		n := 0
		for {
			h, err := d.Data.Next()
			if err != nil {
				break
			}
			if strings.HasSuffix(h.Name, "copyright") {
				n++
			}
		}
		if n != 1 {
			return "FAIL the packaged file is not in the data stream"
		}
		return "ok"
	}
}

func streamDeb(g *core.G) {
	r := g.R
	n := g.N(300, 12000)
	// zstd frames whose header declares every window size up to 2^27 - the largest dpkg-deb can
	// produce (-Zzstd -z22); what `zstd --long=28..31` writes is beyond the decoder library's own
	// limit and outside the claim
	for wl := 10; wl <= 27; wl++ {
		if !g.Thorough && wl > 12 && wl < 26 && wl%4 != 0 {
			continue
		}
		m := genDebModel(r)
		m.CtlExt, m.DataExt, m.ZstWindow = ".zst", ".zst", wl
		m.CtlCut, m.DataCut = 0, 0
		emitDebModel(g, m)
	}
	for _, lines := range []int{2, 45, 70} { // 0.2, 4.2 and 6.6 MiB of control file
		g.Emit("law-debbig", strconv.Itoa(lines))
	}
	// all 6x6 compression combinations first
	for _, ce := range compExts {
		for _, de := range compExts {
			m := genDebModel(r)
			m.CtlExt, m.DataExt = ce, de
			emitDebModel(g, m)
		}
	}
	for i := 0; i < n; i++ {
		m := genDebModel(r)
		switch r.Intn(8) {
		case 0: // wrong format version
			m.BinaryText = r.Pick([]string{"3.0\n", "1.0\n", "2.0", "", "2.1\n", "20\n", " 2.0\n"})
			data := buildAr(m.members())
			emitDeb(g, data)
			g.Emit("law-deb", core.Hex(string(data)), "reject")
		case 1: // a required member missing
			ms := m.members()
			k := r.Intn(3)
			ms = append(ms[:k], ms[k+1:]...)
			data := buildAr(ms)
			emitDeb(g, data)
			g.Emit("law-deb", core.Hex(string(data)), "reject")
		case 2: // control file missing from the control tar
			var fs []tarFile
			for _, f := range m.CtlFiles {
				if f.Body != m.ControlText {
					fs = append(fs, f)
				}
			}
			m.CtlFiles = fs
			data := buildAr(m.members())
			emitDeb(g, data)
			g.Emit("law-deb", core.Hex(string(data)), "reject")
		default:
			emitDebModel(g, m)
		}
	}
}

var prevDeb struct {
	sync.Mutex
	data        []byte
	digest      string
	older       []byte
	olderDigest string
}

// emitDebLife: three fresh well-formed packages through law-deblife
func emitDebLife(g *core.G) {
	var ds [][]byte
	var ms []debModel
	same := ""
	for i := 0; i < 3; i++ {
		m := genDebModel(g.R)
		m.CtlExt, m.DataExt = g.R.Pick([]string{".gz", ".gz", ".zst", ".xz", ""}), g.R.Pick([]string{".gz", ".gz", ".zst", ".xz", ""})
		if i == 0 {
			same = g.R.Pick([]string{"", "", ".gz", ".zst"})
		}
		if same != "" {
			// all three with the same compressor: what one handle released is what the next ones pick up
			m.CtlExt, m.DataExt = same, same
		}
		m.Extra = nil
		ms = append(ms, m)
		ds = append(ds, buildAr(m.members()))
	}
	g.Emit("law-deblife", core.Hex(string(ds[0])), core.Hex(string(ds[1])), core.Hex(string(ds[2])), ms[1].dataDigest(), ms[2].dataDigest(), ms[0].dataDigest())
}

func emitDebModel(g *core.G, m debModel) {
	ms := m.members()
	data := buildAr(ms)
	prevDeb.Lock()
	if prevDeb.data != nil {
		g.Emit("law-debtwo", core.Hex(string(prevDeb.data)), core.Hex(string(data)), prevDeb.digest, m.dataDigest())
		if prevDeb.older != nil {
			g.Emit("law-deblife", core.Hex(string(prevDeb.older)), core.Hex(string(prevDeb.data)), core.Hex(string(data)), prevDeb.digest, m.dataDigest(), prevDeb.olderDigest)
		}
	}
	prevDeb.older, prevDeb.olderDigest = prevDeb.data, prevDeb.digest
	prevDeb.data, prevDeb.digest = data, m.dataDigest()
	prevDeb.Unlock()
	emitDeb(g, data)
	args := []string{core.Hex(string(data)), core.Hex("tar" + m.CtlExt), core.Hex("tar" + m.DataExt), memberNamesHex(ms), m.dataDigest()}
	g.Emit("law-deb", append(args, expectedRecordDump(codecTypes["DebControl"], m.Expect)...)...)
}

// lzmaSmallDict: bytes 1-4 of an .lzma stream are its dictionary size, and the decoder go-debian
// uses (github.com/kjk/lzma) allocates that much before it reads anything - arbitrary junk under a
// ".lzma" name makes deb.Load allocate 1-4 GiB (observed: a 100-byte archive, 1.6 GiB; sixteen of
// them in parallel took the harness to 13 GiB and, next to other runs, to the OOM killer).  Memory
// use is not among C15's claims, so junk given to that decoder declares a 1 MiB dictionary.
func lzmaSmallDict(ext, junk string) string {
	if ext != ".lzma" || len(junk) < 1 {
		return junk
	}
	return junk[:1] + "\x00\x00\x10\x00" + junk[1:]
}

// C15: .deb loading on hostile archives (control/data stored or gzip, per the property's carve-out)
func streamDebfuzz(g *core.G) {
	r := g.R
	// members that claim a compression they do not have, every extension x every kind of content:
	// the decompressor's constructor (or its first read) fails - an error, never a panic
	for _, ext := range []string{".xz", ".gz", ".zst", ".bz2", ".lzma"} {
		for _, junk := range []string{"", "not compressed at all", "\xfd7zXZ\x00garbage", "\x1f\x8b\x08garbage", "\x28\xb5\x2f\xfdgarbage", "BZh9garbage", "\x5d\x00\x00"} {
			for k := 1; k <= 2; k++ {
				m := genDebModel(r)
				m.CtlExt, m.DataExt = "", ""
				ms := m.members()
				ms[k].Name = []string{"control.tar", "data.tar"}[k-1] + ext
				ms[k].Data = []byte(lzmaSmallDict(ext, junk))
				data := buildAr(ms)
				emitDeb(g, data)
				g.Emit("law-debsafe", core.Hex(string(data)))
			}
		}
	}
	n := g.N(700, 30000)
	for i := 0; i < n; i++ {
		m := genDebModel(r)
		m.CtlExt, m.DataExt = r.Pick([]string{"", ".gz"}), r.Pick([]string{"", ".gz"})
		ms := m.members()
		var data []byte
		switch r.Intn(7) {
		case 6: // a tar entry that claims an enormous size (a correctly checksummed base-256 field)
			sz := r.Pick([]string{"50", "62", "40", "33"})
			bits, _ := strconv.Atoi(sz)
			k := 1 + r.Intn(2)
			inner := buildTar(m.CtlFiles)
			nm := "control"
			ext := m.CtlExt
			if k == 2 {
				inner, ext = buildTar(m.DataFiles), m.DataExt
				nm = "usr"
			}
			ms[k].Data = compress(ext, tarHugeSize(inner, nm, 1<<uint(bits)))
			data = buildAr(ms)
		case 0: // decoy / duplicate members
			if r.Chance(1, 6) {
				// a member that claims a compression it does not have (the decompressor's constructor
				// or first read fails): an error, not a panic
				k := 1 + r.Intn(2)
				ext := r.Pick([]string{".xz", ".gz", ".zst", ".bz2", ".lzma"})
				ms[k].Name = []string{"control.tar", "data.tar"}[k-1] + ext
				ms[k].Data = []byte(lzmaSmallDict(ext, r.Pick([]string{"", "not compressed at all", "\xfd7zXZ\x00garbage", "\x1f\x8b\x08garbage", "\x28\xb5\x2f\xfdgarbage", "BZh9garbage"})))
				data = buildAr(ms)
				break
			}
			d := ms[r.Intn(len(ms))]
			if r.Bool() {
				d.Name = r.Pick([]string{"control.tar.zz", "data.tar.zz", "control.x", "data.", "control.tar.gz", "data.tar", "control.new.tar", "data.new.tar", "control.sig", "data.list", "control.old.tar.gz", "control.x/y.tar", "data.a/b.tar"})
			}
			if r.Chance(1, 5) {
				// a member name built around a word the deb package itself spells out
				if t := r.LitToken("deb", r.Pick([]string{"x", "tar", ".tar.gz", "1"}), " /\n"); t != "" && len(t) <= 16 {
					d.Name = t
				}
			}
			pos := r.Intn(len(ms) + 1)
			ms = append(ms[:pos], append([]arMember{d}, ms[pos:]...)...)
			data = buildAr(ms)
		case 1: // member payload corrupted
			k := r.Intn(len(ms))
			if len(ms[k].Data) > 0 {
				dd := append([]byte{}, ms[k].Data...)
				dd[r.Intn(len(dd))] ^= byte(1 << uint(r.Intn(8)))
				ms[k].Data = dd
			}
			data = buildAr(ms)
		default:
			data = corruptAr(r, ms)
		}
		emitDeb(g, data)
		g.Emit("law-debsafe", core.Hex(string(data)))
		if i%8 == 0 {
			emitDebLife(g)
		}
	}
}

// ---- debsig ---------------------------------------------------------------------------------------

var (
	keyOnce sync.Once
	keys    []*openpgp.Entity
)

func testKeys() []*openpgp.Entity {
	keyOnce.Do(func() {
		cfg := &packet.Config{RSABits: 1024, DefaultHash: crypto.SHA256}
		for i := 0; i < 3; i++ {
			e, err := openpgp.NewEntity(fmt.Sprintf("Signer %d", i), "", fmt.Sprintf("s%d@example.org", i), cfg)
			if err != nil {
				panic(err)
			}
			keys = append(keys, e)
		}
	})
	return keys
}

func serializeKeyring(es []*openpgp.Entity) string {
	var b bytes.Buffer
	for _, e := range es {
		e.Serialize(&b)
	}
	return b.String()
}

func detachSign(e *openpgp.Entity, msg []byte) []byte {
	var b bytes.Buffer
	if err := openpgp.DetachSign(&b, e, bytes.NewReader(msg), &packet.Config{DefaultHash: crypto.SHA256}); err != nil {
		panic(err)
	}
	return b.Bytes()
}

// emitDebsig: phase 1 asks the model which byte ranges CheckDebsig must verify; the
// harness verifies exactly those with the real OpenPGP library and hands the answer on.
func emitDebsig(g *core.G, data []byte, role string, kr []*openpgp.Entity) {
	h, rh, kh := core.Hex(string(data)), core.Hex(role), core.Hex(serializeKeyring(kr))
	g.EmitGen(func(out string) []string {
		f := strings.Fields(out)
		answer := "err"
		if len(f) == 9 && f[0] == "need" {
			var v [8]int
			for i := range v {
				v[i], _ = strconv.Atoi(f[i+1])
			}
			msg := append(append(append([]byte{}, data[v[2]:v[2]+v[3]]...), data[v[4]:v[4]+v[5]]...), data[v[6]:v[6]+v[7]]...)
			e, err := openpgp.CheckDetachedSignature(openpgp.EntityList(kr), bytes.NewReader(msg), bytes.NewReader(data[v[0]:v[0]+v[1]]))
			if err == nil && e != nil {
				answer = keyID(e)
			}
		}
		return []string{"debsig " + h + " " + rh + " " + kh + " " + answer}
	}, "debsigplan", h, rh)
}

func streamDebsig(g *core.G) {
	r := g.R
	ks := testKeys()
	n := g.N(60, 320)
	for i := 0; i < n; i++ {
		m := genDebModel(r)
		m.CtlExt, m.DataExt = r.Pick([]string{"", ".gz"}), r.Pick([]string{"", ".gz", ".xz"})
		m.Extra = nil
		ms := m.members()
		signer := ks[r.Intn(2)]
		role := r.Pick([]string{"origin", "maint", "archive"})
		if r.Chance(1, 3) {
			// any role whose member name fits the 16-byte name column, up to filling it exactly
			role = r.Pick([]string{"origin-local", "maint-team-qa", "a", "archive-2024", "x-y", "originmaint1"})
			role = role[:min(len(role), r.Range(1, 12))]
			if r.Chance(1, 2) {
				role = (role + "-local-mirror")[:12]
			}
		}
		msg := append(append(append([]byte{}, ms[0].Data...), ms[1].Data...), ms[2].Data...)
		sig := detachSign(signer, msg)
		ms = append(ms, arMember{Name: "_gpg" + role, TS: "0", UID: "0", GID: "0", Mode: "100644", Data: sig})
		good := buildAr(ms)
		krIn, krOut, krEmpty := []*openpgp.Entity{ks[0], ks[1]}, []*openpgp.Entity{ks[2]}, []*openpgp.Entity{}
		if i%2 == 0 {
			emitDebLife(g)
		}
		emitDebsig(g, good, role, krIn)
		g.Emit("law-debsig", core.Hex(string(good)), core.Hex(role), core.Hex(serializeKeyring(krIn)), "accept", fmt.Sprintf("ok:%016x", signer.PrimaryKey.KeyId))
		g.Emit("law-debsig-seq", core.Hex(string(good)), core.Hex(role), core.Hex(serializeKeyring(krIn)), core.Hex(serializeKeyring(krOut)))
		if i%3 == 0 {
			g.Emit("law-debsig-krmut", core.Hex(string(good)), core.Hex(role), core.Hex(serializeKeyring([]*openpgp.Entity{signer})), core.Hex(serializeKeyring(krOut)))
		}
		emitDebsig(g, good, role, krOut)
		g.Emit("law-debsig", core.Hex(string(good)), core.Hex(role), core.Hex(serializeKeyring(krOut)), "reject", "")
		emitDebsig(g, good, role, krEmpty)
		emitDebsig(g, good, r.Pick([]string{"origin", "maint", "archive", "builder", ""}), krIn)
		other := map[string]string{"origin": "maint", "maint": "archive", "archive": "origin"}[role]
		if other == "" {
			other = "origin"
		}
		g.Emit("law-debsig", core.Hex(string(good)), core.Hex(other), core.Hex(serializeKeyring(krIn)), "reject", "")
		// roles that are not present but resemble the one that is: longer, shorter, other case
		for _, q := range []string{role + "2", role + "-mirror", role[:len(role)-1], strings.ToUpper(role), " " + role, role + " ", role + "/"} {
			if q != role && r.Chance(1, 2) {
				emitDebsig(g, good, q, krIn)
				g.Emit("law-debsig", core.Hex(string(good)), core.Hex(q), core.Hex(serializeKeyring(krIn)), "reject", "")
			}
		}
		// members that other ar dialects read as a name table ("//") and references into it
		// ("/0", "/27"), the table naming control.* / data.* members: for a .deb they are extra
		// members; the package loads and verifies as if they were not there
		for rep := g.N(1, 4); rep > 0; rep-- {
			dm := genDebModel(r)
			table := r.Pick([]string{"control.rebuilt-2024.tar.gz/\ndata.rebuilt-2024.tar.gz/\n", "control.tar.gz/\n", "data.tar/\ncontrol.tar/\n", "control.tar.gz.orig/"})
			second := strconv.Itoa(strings.Index(table, "\n") + 1)
			extra := []arMember{{Name: "/", Slash: true, TS: "0", UID: "0", GID: "0", Mode: "100644", Data: []byte(table)},
				{Name: "/0", TS: "0", UID: "0", GID: "0", Mode: "100644", Data: compress(".gz", buildTar(dm.CtlFiles))},
				{Name: "/" + second, TS: "0", UID: "0", GID: "0", Mode: "100644", Data: buildTar(dm.DataFiles)}}
			if r.Bool() || !strings.Contains(table, "\n") {
				extra = extra[:2]
			}
			pos := r.Pick2(0, 1+r.Intn(len(ms)))
			with := append(append(append([]arMember{}, ms[:pos]...), extra...), ms[pos:]...)
			data := buildAr(with)
			emitDebsig(g, data, role, krIn)
			emitDeb(g, data)
			g.Emit("law-debsig-extra", core.Hex(string(data)), core.Hex(string(good)), core.Hex(role), core.Hex(serializeKeyring(krIn)))
		}
		// the signed bytes kept under a name that merely resembles control.* / data.*, while the
		// member the loader reads holds something else: verification must fail
		for rep := g.N(2, 6); rep > 0; rep-- {
			k := 1 + r.Intn(2)
			dm := genDebModel(r)
			repl := arMember{Name: ms[k].Name, TS: "0", UID: "0", GID: "0", Mode: "100644"}
			if k == 1 {
				repl.Data = compress(m.CtlExt, buildTar(dm.CtlFiles))
			} else {
				repl.Data = compress(m.DataExt, buildTar(dm.DataFiles))
			}
			if bytes.Equal(repl.Data, ms[k].Data) {
				continue
			}
			base := []string{"control", "data"}[k-1]
			keep := ms[k]
			keep.Name = base + r.Pick([]string{"", "orig", "_", "_orig.tar", "-tar.gz", "tar", "~", "2.tar.gz"})
			bad := append([]arMember{}, ms...)
			bad[k] = repl
			pos := r.Intn(len(bad) + 1)
			bad = append(append(append([]arMember{}, bad[:pos]...), keep), bad[pos:]...)
			data := buildAr(bad)
			emitDebsig(g, data, role, krIn)
			g.Emit("law-debsig", core.Hex(string(data)), core.Hex(role), core.Hex(serializeKeyring(krIn)), "reject", "")
			emitDeb(g, data)
		}
		// single-byte corruption inside each signed member and the signature
		for k := 0; k < 4; k++ {
			for rep := g.N(2, 6); rep > 0; rep-- {
				bad := append([]arMember{}, ms...)
				dd := append([]byte{}, bad[k].Data...)
				if len(dd) == 0 {
					continue
				}
				dd[r.Intn(len(dd))] ^= byte(1 << uint(r.Intn(8)))
				bad[k].Data = dd
				data := buildAr(bad)
				emitDebsig(g, data, role, krIn)
				if k < 3 { // C16 claims tamper evidence for the three signed members; a bit of the
					// signature packet itself may be insignificant to OpenPGP (compared with the model only)
					g.Emit("law-debsig", core.Hex(string(data)), core.Hex(role), core.Hex(serializeKeyring(krIn)), "reject", "")
				}
			}
		}
		// debian-binary is more than its first line: deb(5) allows further lines, the loader reads
		// the first and the signature covers the whole member.  Lines added, changed or removed after
		// the signature was made: the package still loads, verification must fail
		for _, tail := range []string{"anything\n", "\n", " ", "2.0\n", strings.Repeat("x", r.Range(1, 5000))} {
			bad := append([]arMember{}, ms...)
			bad[0].Data = append(append([]byte{}, ms[0].Data...), tail...)
			data := buildAr(bad)
			emitDebsig(g, data, role, krIn)
			g.Emit("law-debsig", core.Hex(string(data)), core.Hex(role), core.Hex(serializeKeyring(krIn)), "reject", "")
			emitDeb(g, data)
		}
		{
			// and signed with such lines present, which then verify as they are and not without them
			with := append([]arMember{}, ms[:3]...)
			with[0].Data = []byte("2.0\n" + r.Pick([]string{"built by verif\n", "\n\n", "3.0\n"}))
			sig2 := detachSign(signer, append(append(append([]byte{}, with[0].Data...), with[1].Data...), with[2].Data...))
			with = append(with, arMember{Name: "_gpg" + role, TS: "0", UID: "0", GID: "0", Mode: "100644", Data: sig2})
			data := buildAr(with)
			emitDebsig(g, data, role, krIn)
			g.Emit("law-debsig", core.Hex(string(data)), core.Hex(role), core.Hex(serializeKeyring(krIn)), "accept", fmt.Sprintf("ok:%016x", signer.PrimaryKey.KeyId))
			with[0].Data = []byte("2.0\n")
			data = buildAr(with)
			emitDebsig(g, data, role, krIn)
			g.Emit("law-debsig", core.Hex(string(data)), core.Hex(role), core.Hex(serializeKeyring(krIn)), "reject", "")
		}
		// a signature member in dpkg-sig(1) form: a clearsigned manifest with the digests of the three
		// members, made with a key of the keyring.  Whatever CheckDebsig makes of such a member, it
		// never succeeds for a package whose control or data member is not the one the manifest
		// describes - also when the replacement has another compression extension, so that the
		// manifest's names no longer name what the loader reads
		{
			manifest := "Version: 4\nSigner: Verif <verif@example.org>\nDate: Mon Feb 26 14:22:11 2024\nRole: " + role + "\nFiles: \n"
			for _, x := range ms[:3] {
				manifest += fmt.Sprintf("\t%x %x %d %s\n", md5.Sum(x.Data), sha1.Sum(x.Data), len(x.Data), x.Name)
			}
			var sigText bytes.Buffer
			if w, err := clearsign.Encode(&sigText, signer.PrivateKey, nil); err == nil {
				w.Write([]byte(manifest))
				w.Close()
				sigText.WriteByte('\n')
				dm := genDebModel(r)
				for k := 1; k <= 2; k++ {
					for _, ext := range []string{m.CtlExt, "", ".gz", ".xz"} {
						bad := append([]arMember{}, ms[:3]...)
						base, files := "control.tar", dm.CtlFiles
						if k == 2 {
							base, files = "data.tar", dm.DataFiles
							if ext == m.CtlExt {
								ext = m.DataExt
							}
						}
						bad[k] = arMember{Name: base + ext, TS: "0", UID: "0", GID: "0", Mode: "100644", Data: compress(ext, buildTar(files))}
						if bytes.Equal(bad[k].Data, ms[k].Data) {
							continue
						}
						bad = append(bad, arMember{Name: "_gpg" + role, TS: "0", UID: "0", GID: "0", Mode: "100644", Data: sigText.Bytes()})
						data := buildAr(bad)
						g.Emit("law-debsig", core.Hex(string(data)), core.Hex(role), core.Hex(serializeKeyring(krIn)), "reject", "")
					}
				}
			}
		}
		// an emptied signature member (no packet at all), with the signed members intact and with
		// one of them replaced: there is nothing that verifies
		for rep := 0; rep < 2; rep++ {
			bad := append([]arMember{}, ms...)
			bad[len(bad)-1].Data = nil
			if rep == 1 {
				dm := genDebModel(r)
				bad[1].Data = compress(m.CtlExt, buildTar(dm.CtlFiles))
			}
			data := buildAr(bad)
			emitDebsig(g, data, role, krIn)
			g.Emit("law-debsig", core.Hex(string(data)), core.Hex(role), core.Hex(serializeKeyring(krIn)), "reject", "")
			g.Emit("law-debsig", core.Hex(string(data)), core.Hex(role), core.Hex(serializeKeyring(krEmpty)), "reject", "")
		}
		// decoy control.* / data.* members before / after the real ones
		for rep := g.N(3, 8); rep > 0; rep-- {
			decoy := arMember{Name: r.Pick([]string{"control.tar.gz2", "control.tar", "data.tar.gz2", "data.tar.zz", "control.tar.gz", "data.tar", "control.new.tar", "data.new.tar", "control.old.tar", "data.bak.tar", "control.x/y.tar", "data.a/b.tar", "control./.tar", "data.x/.tar.gz"}), TS: "0", UID: "0", GID: "0", Mode: "100644"}
			dm := genDebModel(r)
			if strings.HasPrefix(decoy.Name, "control") {
				decoy.Data = compress("", buildTar(dm.CtlFiles))
			} else {
				decoy.Data = buildTar(dm.DataFiles)
			}
			pos := r.Intn(len(ms) + 1)
			bad := append(append(append([]arMember{}, ms[:pos]...), decoy), ms[pos:]...)
			data := buildAr(bad)
			emitDebsig(g, data, role, krIn)
			g.Emit("law-debsig", core.Hex(string(data)), core.Hex(role), core.Hex(serializeKeyring(krIn)), "reject", "")
			emitDeb(g, data)
		}
	}
}

func init() {
	// law (C16): verification succeeds only for the signed content that was loaded
	debImpl["law-debsig"] = func(a []string) string {
		data := []byte(core.MustUnHex(a[0]))
		for i := 0; i < 12; i++ { // map-order dependent behaviour shows up across repetitions
			d, err := deb.Load(bytes.NewReader(data), "x.deb")
			if err != nil {
				if a[3] == "accept" {
					return "FAIL load rejected: " + err.Error()
				}
				continue
			}
			e, err := d.CheckDebsig(readKeyring(a[2]), core.MustUnHex(a[1]))
			d.Close()
			if a[3] == "accept" {
				if err != nil || e == nil || keyID(e) != a[4] {
					return fmt.Sprintf("FAIL valid signature not accepted: %v", err)
				}
			} else if err == nil {
				return fmt.Sprintf("FAIL accepted on repetition %d (no error, signer %v) although the package was tampered with / the key or role is wrong", i, e != nil)
			}
		}
		return "ok"
	}
	// law (C16): the keyring is the caller's slice; between two checks its entries are replaced in
	// place (same backing array, same length: key rotation in a long-running service).  A package
	// signed by a key that is no longer in it does not verify.  args: package, role, keyring
	// holding the signer, keyring holding another key
	debImpl["law-debsig-krmut"] = func(a []string) string {
		data := []byte(core.MustUnHex(a[0]))
		role := core.MustUnHex(a[1])
		in, out := readKeyring(a[2]), readKeyring(a[3])
		if len(in) != 1 || len(out) != 1 {
			return "ok"
		}
		check := func(kr openpgp.EntityList) (bool, string) {
			d, err := deb.Load(bytes.NewReader(data), "x.deb")
			if err != nil {
				return false, "load: " + err.Error()
			}
			defer d.Close()
			e, err := d.CheckDebsig(kr, role)
			return err == nil && e != nil, fmt.Sprint(err)
		}
		for _, n := range []int{1, 7, 8, 9, 64, 100} {
			kr := make(openpgp.EntityList, n)
			for i := range kr {
				kr[i] = in[0]
			}
			if ok, why := check(kr); !ok {
				return fmt.Sprintf("FAIL a %d-entry keyring holding the signer does not verify the package: %s", n, why)
			}
			for i := range kr {
				kr[i] = out[0]
			}
			if ok, _ := check(kr); ok {
				return fmt.Sprintf("FAIL after all %d entries of the keyring were replaced in place, a package signed by the removed key still verifies", n)
			}
			kr = kr[:0]
			if ok, _ := check(kr); ok {
				return fmt.Sprintf("FAIL with the %d-entry keyring emptied in place the package still verifies", n)
			}
			for i := 0; i < n; i++ {
				kr = append(kr, in[0])
			}
			if ok, why := check(kr); !ok {
				return fmt.Sprintf("FAIL after the signer was put back into the %d-entry keyring: %s", n, why)
			}
		}
		return "ok"
	}
	// law (C16): extra members that are neither control.* nor data.* change nothing: the package
	// loads, shows the same control data and payload as without them, and verifies with the same
	// signer.  args: bytes with the extra members, bytes without, role, keyring
	debImpl["law-debsig-extra"] = func(a []string) string {
		clean, d0 := loadDebDump([]byte(core.MustUnHex(a[1])))
		if d0 == nil {
			return "ok"
		}
		cleanCtl := dumpGoRecord(reflect.ValueOf(&d0.Control).Elem())
		cleanData := debDataDigest(d0)
		e0, err0 := d0.CheckDebsig(readKeyring(a[3]), core.MustUnHex(a[2]))
		d0.Close()
		if err0 != nil {
			return "ok"
		}
		_ = clean
		for i := 0; i < 12; i++ {
			d, err := deb.Load(bytes.NewReader([]byte(core.MustUnHex(a[0]))), "x.deb")
			if err != nil {
				return "FAIL with extra members the package is rejected: " + err.Error()
			}
			ctl, data := dumpGoRecord(reflect.ValueOf(&d.Control).Elem()), debDataDigest(d)
			e, err := d.CheckDebsig(readKeyring(a[3]), core.MustUnHex(a[2]))
			d.Close()
			if ctl != cleanCtl || data != cleanData {
				verdict := "and verification fails"
				if err == nil {
					verdict = "while the signature verifies"
				}
				return fmt.Sprintf("FAIL load %d: with extra members the package shows other control data or payload (%s): %s", i, verdict, clipStr(ctl, 200))
			}
			if err != nil || keyID(e) != keyID(e0) {
				return fmt.Sprintf("FAIL load %d: with extra members the signature is not accepted: %v", i, err)
			}
		}
		return "ok"
	}
	// law (C16): on ONE loaded package a check that succeeded says nothing about a later check
	// with an unrelated or empty keyring, or for another role: those must fail
	debImpl["law-debsig-seq"] = func(a []string) string {
		data := []byte(core.MustUnHex(a[0]))
		d, err := deb.Load(bytes.NewReader(data), "x.deb")
		if err != nil {
			return "ok"
		}
		defer d.Close()
		role := core.MustUnHex(a[1])
		d.CheckDebsig(readKeyring(a[2]), role)
		if e, err := d.CheckDebsig(readKeyring(a[3]), role); err == nil {
			return fmt.Sprintf("FAIL after a successful check, a check against an unrelated keyring succeeds too (signer %v)", e != nil)
		}
		if _, err := d.CheckDebsig(openpgp.EntityList{}, role); err == nil {
			return "FAIL after a successful check, a check against an empty keyring succeeds too"
		}
		return "ok"
	}
	// law (C14, C15, C16): what a handle did before it was closed - closed once or, as LoadFile's two
	// documented routes allow, twice - has no influence on packages loaded afterwards: two later
	// packages, open at the same time and read in turns, show their own control data and payload.
	// args: A, B, C (bytes), data digests of B and C
	debImpl["law-deblife"] = func(a []string) string {
		f, err := os.CreateTemp("", "verif-*.deb")
		if err != nil {
			return "ok"
		}
		defer os.Remove(f.Name())
		f.Write([]byte(core.MustUnHex(a[0])))
		f.Close()
		// a caller that keeps only the payload stream and the close function of a LoadFile handle:
		// the stream stays readable until the caller closes it, whatever the collector does meanwhile
		if len(a) > 5 {
			if got := dataOnlyDigest(f.Name()); got != a[5] {
				return fmt.Sprintf("FAIL the payload read through Deb.Data alone (the *Deb dropped, a collection in between) lists %s, packaged: %s", got, a[5])
			}
		}
		if d, closer, err := deb.LoadFile(f.Name()); err == nil {
			debDataDigest(d)
			closer()
			d.Close()
		}
		// either route alone releases the file: no descriptor of this process refers to it afterwards
		for route := 0; route < 2; route++ {
			d, closer, err := deb.LoadFile(f.Name())
			if err != nil {
				break
			}
			// (what Close returns is not judged: a decompressor closed before its stream was read
			// to the end may report that, depending on how far its goroutine got)
			if route == 0 {
				closer()
			} else {
				d.Close()
			}
			if n := fdsOpenOn(f.Name()); n != 0 {
				return fmt.Sprintf("FAIL after %s the process still holds %d descriptor(s) on the package file", []string{"the close function", "Deb.Close"}[route], n)
			}
		}
		// a file that is not a package: an error, and nothing left open
		if g, err := os.CreateTemp("", "verif-notdeb-"); err == nil {
			g.WriteString("this is not an ar archive\n")
			g.Close()
			if d, _, err := deb.LoadFile(g.Name()); err == nil || d != nil {
				os.Remove(g.Name())
				return "FAIL a text file loads as a package"
			}
			n := fdsOpenOn(g.Name())
			os.Remove(g.Name())
			if n != 0 {
				return fmt.Sprintf("FAIL after a failed LoadFile the process still holds %d descriptor(s) on the file", n)
			}
		}
		bB, bC := []byte(core.MustUnHex(a[1])), []byte(core.MustUnHex(a[2]))
		wantB, dB := loadDebDump(bB)
		if dB == nil {
			return "FAIL load B: " + wantB
		}
		wantC, dC := loadDebDump(bC)
		if dC == nil {
			return "FAIL load C: " + wantC
		}
		defer dB.Close()
		defer dC.Close()
		// read in turns: one entry of B, all of C, the rest of B
		var eB [][2]string
		if h, err := dB.Data.Next(); err == nil {
			body, _ := io.ReadAll(dB.Data)
			eB = append(eB, [2]string{h.Name, string(body)})
		}
		gC := debDataDigest(dC)
		for {
			h, err := dB.Data.Next()
			if err != nil {
				break
			}
			body, _ := io.ReadAll(dB.Data)
			eB = append(eB, [2]string{h.Name, string(body)})
		}
		if gB := listingDigest(eB); gB != a[3] || gC != a[4] {
			return fmt.Sprintf("FAIL after an earlier package was closed twice, two open packages list %s %s, packaged: %s %s", gB, gC, a[3], a[4])
		}
		if again, d := loadDebDump(bB); again != wantB {
			return "FAIL control data of B differs on reload: " + wantB + " / " + again
		} else if d != nil {
			d.Close()
		}
		return "ok"
	}
	// law (C14): a control file of several MiB (a long Description) comes back whole.  args: number of
	// 96 KiB lines
	debImpl["law-debbig"] = func(a []string) string {
		lines, _ := strconv.Atoi(a[0])
		var ctl strings.Builder
		ctl.WriteString("Package: big\nVersion: 1.0\nArchitecture: all\nMaintainer: A <a@b>\nDescription: a package with a long description\n")
		line := " " + strings.Repeat("lorem ipsum dolor ", 96*1024/18) + "sit amet\n"
		for i := 0; i < lines; i++ {
			ctl.WriteString(line)
		}
		ctl.WriteString("Homepage: https://example.org/the-last-field\n")
		ms := []arMember{{Name: "debian-binary", TS: "0", UID: "0", GID: "0", Mode: "100644", Data: []byte("2.0\n")},
			{Name: "control.tar.gz", TS: "0", UID: "0", GID: "0", Mode: "100644", Data: compress(".gz", buildTar([]tarFile{{Name: "./control", Body: ctl.String()}}))},
			{Name: "data.tar", TS: "0", UID: "0", GID: "0", Mode: "100644", Data: buildTar([]tarFile{{Name: "./", Dir: true}})}}
		d, err := deb.Load(bytes.NewReader(buildAr(ms)), "big.deb")
		if err != nil {
			return fmt.Sprintf("FAIL a package whose control file has %d bytes is rejected: %v", ctl.Len(), err)
		}
		defer d.Close()
		if d.Control.Homepage != "https://example.org/the-last-field" {
			return fmt.Sprintf("FAIL the last field of a %d-byte control file is lost (Homepage %q)", ctl.Len(), d.Control.Homepage)
		}
		if want := len("a package with a long description\n") + lines*(len(line)-1); len(d.Control.Description) < want-2 || len(d.Control.Description) > want+2 {
			return fmt.Sprintf("FAIL the description of a %d-byte control file has %d bytes, written %d", ctl.Len(), len(d.Control.Description), want)
		}
		return "ok"
	}
	// law (C14): two packages open at the same time do not disturb each other's data stream
	debImpl["law-debtwo"] = func(a []string) string {
		da, err := deb.Load(bytes.NewReader([]byte(core.MustUnHex(a[0]))), "a.deb")
		if err != nil {
			return "FAIL load a: " + err.Error()
		}
		db, err := deb.Load(bytes.NewReader([]byte(core.MustUnHex(a[1]))), "b.deb")
		if err != nil {
			return "FAIL load b: " + err.Error()
		}
		ga, gb := debDataDigest(da), debDataDigest(db)
		da.Close()
		db.Close()
		if ga != a[2] || gb != a[3] {
			return fmt.Sprintf("FAIL data listings with both packages open: %s %s, packaged: %s %s", ga, gb, a[2], a[3])
		}
		return "ok"
	}
	for k, v := range arImpl {
		debImpl[k] = v
	}
}

func debReadable(op string, a []string) string {
	switch op {
	case "law-debbig":
		return "law-debbig: a control file with " + a[0] + " description lines of 96 KiB"
	case "deb":
		return fmt.Sprintf("deb.Load(%d bytes: %q…)", len(debBytes(a)), clipStr(string(debBytes(a)), 120))
	case "law-deb", "law-debsafe", "debsig", "law-debsig", "law-deblife", "law-debtwo", "law-debsig-extra":
		s := core.MustUnHex(a[0])
		return fmt.Sprintf("%s(%d bytes: %q…) %v", op, len(s), clipStr(s, 120), a[1:min(len(a), 2)])
	}
	return arReadable(op, a)
}

func clipStr(s string, n int) string {
	if len(s) > n {
		return s[:n]
	}
	return s
}

func min(a, b int) int {
	if a < b {
		return a
	}
	return b
}

func init() {
	tb := append(append([]string{}, leanTB...), "Model/Ar.lean, Model/Deb.lean: hand transliterations of deb/ar.go, deb.go, tarfile.go, sigcheck.go, tied by differential streams and fingerprints",
		"io.ReaderAt / io.SectionReader as random access into immutable bytes (parameter)")
	arFacts := []string{"fingerprint:deb.checkAr", "fingerprint:deb.Ar.Next", "fingerprint:deb.parseArEntry", "fingerprint:deb.toDecimal", "fingerprint:deb.LoadAr"}
	debFacts := append(append([]string{}, arFacts...), "fingerprint:deb.Load", "fingerprint:deb.loadDeb", "fingerprint:deb.loadDeb2", "fingerprint:deb.loadDeb2Control",
		"fingerprint:deb.loadDeb2Data", "fingerprint:deb.ArEntry.IsTarfile", "fingerprint:deb.ArEntry.Tarfile", "fingerprint:deb.DecompressorFor")
	core.Register(&core.Property{
		ID: "C13", PropsModule: "GoDebian.Props.C13", Facts: arFacts,
		Streams: []core.Stream{{Name: "artool", Gen: streamArTool, Domain: "archives written by the system's /usr/bin/ar (GNU format, deterministic mode) from 1-4 random files: model vs implementation, and law-arfiles (members = the files, then end of archive)"}, {Name: "ar", Gen: streamAr,
			Domain: "member-list models (0-5 members; names of 1-16 bytes incl. blanks and non-ASCII, GNU trailing slash; sizes 0, 1, odd, even; blank numeric columns; binary data incl. the magic strings) built into archives by the Lean specification Spec.Ar.build; iteration by the real reader: per member the recorded metadata and a fingerprint of the bytes read *after* the iterator has finished and again after a rewind; terminal outcome and step count; cross-check of the harness's own writer"},
			{Name: "arlarge", Gen: streamArLarge, Domain: "archives given as runs (literal bytes + runs of zero bytes, served through a sparse io.ReaderAt) built by the Lean specification Spec.Ar.buildSegs: members of 10^5 .. 9999999999 bytes (every digit count of the size column up to all ten, sizes around 2^31 and 2^32, odd and even) between small members; per member metadata, size, first 16 and last byte through the member's reader, terminal outcome, step count; plus the same source cut short and with a stray trailing byte (model vs implementation)"}},
		Impl: debImpl, Readable: debReadable, TrustedBase: tb,
	})
	core.Register(&core.Property{
		ID: "C14", PropsModule: "GoDebian.Props.C14", Facts: debFacts,
		Streams: []core.Stream{{Name: "debtool", Gen: streamDebTool, Domain: "packages built by the real dpkg-deb (-Zgzip / xz / zstd / none) from a scratch tree: model vs deb.Load and law-debtool (packaged control fields, data extension, packaged file present in the data stream)"}, {Name: "deb", Gen: streamDeb,
			Domain: "package models (control fields from the Debian field table, control-tar file order and name spelling of ./control, 0-3 data files, extra and underscore members) x all 6x6 compression combinations (none, gzip, xz, bzip2, lzma, zstd; encoders: Go gzip, klauspost zstd, xz/bzip2 CLI; 1/5 compressed as two concatenated members / streams / frames cut on a tar block boundary or anywhere) built with the harness's ar/tar writers; wrong format versions, missing members, control file missing from the tar; model (with the real decompressor+tar answers on the byte ranges the model selects) vs deb.Load x5; law-deb: control fields, extensions, member index and data-tar listing equal the package model; law-debtwo / law-deblife: two packages open at once and read in turns, after an earlier handle was closed twice (LoadFile's closer and Deb.Close)"}},
		Impl: debImpl, Readable: debReadable, TrustedBase: append(append([]string{}, tb...), "gzip/bzip2/xz/lzma/zstd decoders and archive/tar (parameters: evaluated for real on the ranges the model selects; their agreement with the encoders is exercised, not proved)"),
	})
	core.Register(&core.Property{
		ID: "C15", PropsModule: "GoDebian.Props.C15", Facts: debFacts,
		Streams: []core.Stream{
			{Name: "arfuzz", Gen: streamArfuzz, Domain: "structured corruption of valid archives: each header column set to negative / huge / blank / non-numeric / signed text, size larger or smaller than the data, truncation at every offset, duplicated and reordered members, each header magic byte flipped independently, damaged global magic, random byte flips, raw bytes; model vs implementation (entries, sizes, delivered bytes, terminal outcome, steps) + law-arsafe (step bound, header magic present, size >= 0, bytes delivered = size, two runs agree)"},
			{Name: "debfuzz", Gen: streamDebfuzz, Domain: "hostile .deb archives with stored or gzip control/data members: decoy and duplicate members, corrupted payloads, all the ar corruptions; model vs deb.Load (x5) and law-debsafe (no panic, no hang, same outcome on every load); law-deblife (handles closed twice before later loads)"}},
		Impl: debImpl, Readable: debReadable, TrustedBase: tb,
	})
	core.Register(&core.Property{
		ID: "C16", PropsModule: "GoDebian.Props.C16",
		Facts: append(append([]string{}, debFacts...), "fingerprint:deb.Deb.CheckDebsig"),
		Streams: []core.Stream{{Name: "debsig", Gen: streamDebsig,
			Domain: "signed packages (detached signature by one of two RSA keys over debian-binary ++ control member ++ data member) x roles (the usual three and roles of 1-12 bytes, up to a member name that fills the 16-byte column) x keyrings (signer in / not in / empty) x absent roles (another one, and longer / shorter / re-cased / padded spellings of the present one); members named like a GNU name table and references into it (//, /0) whose table names control.* / data.* members; the signed bytes kept under a look-alike name (data, dataorig, control_, data-tar.gz, ...) while the member the loader reads is replaced; every signed member and the signature with a random single-bit corruption; decoy control.*/data.* members inserted at every position; model (which ranges are verified; the real OpenPGP verdict on exactly those ranges) vs Load + CheckDebsig repeated 6-12 times; law-debsig: valid accepted with the signer's key id, everything else rejected on every repetition"}},
		Impl: debImpl, Readable: debReadable, TrustedBase: append(append([]string{}, tb...), "OpenPGP signature verification (golang.org/x/crypto/openpgp): tamper evidence is its contract, exercised not proved"),
	})
}
