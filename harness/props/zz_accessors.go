package props

import (
	"fmt"
	"os"
	"path/filepath"
	"strconv"
	"strings"

	"pault.ag/go/debian/control"
	"pault.ag/go/debian/deb"
	"pault.ag/go/debian/dependency"

	"verif/harness/core"
)

// The accessors of the typed documents, called on structs that hold exactly the given field
// values; the Lean side (Model/Accessors.lean, theorems C10_acc_*) computes the same from the
// same values.

func unhexList(ts []string) []string {
	out := make([]string, len(ts))
	for i, t := range ts {
		out[i] = core.MustUnHex(t)
	}
	return out
}

func hexListDump(xs []string) string {
	hs := make([]string, len(xs))
	for i, x := range xs {
		hs[i] = core.Hex(x)
	}
	return "[" + strings.Join(hs, ",") + "]"
}

func init() {
	acc := map[string]core.Adapter{
		"acc-maint": func(a []string) string {
			n, _ := strconv.Atoi(a[1])
			m, us := core.MustUnHex(a[0]), unhexList(a[2:2+n])
			var ups []string
			if n > 0 {
				ups = us
			}
			d := control.DSC{Maintainer: m, Uploaders: ups}
			s := control.SourceParagraph{Maintainer: m, Uploaders: ups}
			got := d.Maintainers()
			if strings.Join(got, "\x00") != strings.Join(s.Maintainers(), "\x00") {
				return "dsc-and-source-paragraph-differ"
			}
			// the result is the caller's: appending to it must not reach the struct's list
			if n > 0 {
				_ = append(got[:1], "clobber")
				if d.Uploaders[0] != us[0] {
					return "result-aliases-uploaders"
				}
			}
			return hexListDump(d.Maintainers())
		},
		"acc-archall": func(a []string) string {
			n, _ := strconv.Atoi(a[0])
			var archs []dependency.Arch
			for _, nm := range unhexList(a[1 : 1+n]) {
				ar, err := dependency.ParseArch(nm)
				if err != nil {
					return "err"
				}
				archs = append(archs, *ar)
			}
			d := control.DSC{Architectures: archs}
			return b01(d.HasArchAll())
		},
		"acc-debsrc": func(a []string) string {
			n, _ := strconv.Atoi(a[0])
			d := control.DSC{}
			for _, nm := range unhexList(a[1 : 1+n]) {
				d.Files = append(d.Files, control.MD5FileHash{FileHash: control.FileHash{Algorithm: "md5", Filename: nm}})
			}
			s, err := d.DebianSource()
			if err != nil {
				if s != "" {
					return "err+value"
				}
				return "err"
			}
			return "ok " + core.Hex(s)
		},
		"acc-srcname": func(a []string) string {
			c := deb.Control{Package: core.MustUnHex(a[0]), Source: core.MustUnHex(a[1])}
			return core.Hex(c.SourceName())
		},
		"acc-srcpkg": func(a []string) string {
			b := control.BinaryIndex{Package: core.MustUnHex(a[0]), Source: core.MustUnHex(a[1])}
			return core.Hex(b.SourcePackage())
		},
		"acc-best": func(a []string) string {
			var b control.BestChecksums
			i := 0
			read := func(alg string) []control.FileHash {
				n, _ := strconv.Atoi(a[i])
				i++
				var out []control.FileHash
				for k := 0; k < n; k++ {
					sz, _ := strconv.ParseInt(a[i+1], 10, 64)
					out = append(out, control.FileHash{Algorithm: alg, Hash: core.MustUnHex(a[i]), Size: sz, Filename: core.MustUnHex(a[i+2])})
					i += 3
				}
				return out
			}
			for _, h := range read("sha256") {
				b.ChecksumsSha256 = append(b.ChecksumsSha256, control.SHA256FileHash{FileHash: h})
			}
			for _, h := range read("sha512") {
				b.ChecksumsSha512 = append(b.ChecksumsSha512, control.SHA512FileHash{FileHash: h})
			}
			if b.Checksums() == nil {
				return "nil" // "no secure checksums" is the nil slice
			}
			var xs []string
			for _, h := range b.Checksums() {
				xs = append(xs, fmt.Sprintf("%s:%s:%d:%s", core.Hex(h.Algorithm), core.Hex(h.Hash), h.Size, core.Hex(h.Filename)))
			}
			return "[" + strings.Join(xs, ",") + "]"
		},
		"acc-byhash": func(a []string) string {
			fh := control.FileHash{Algorithm: "sha256", Hash: core.MustUnHex(a[2]), ByHash: core.MustUnHex(a[1])}
			return core.Hex(fh.ByHashPath(core.MustUnHex(a[0])))
		},
		"acc-optdep": func(a []string) string {
			field, text := core.MustUnHex(a[1]), core.MustUnHex(a[2])
			p := control.Paragraph{Values: map[string]string{}}
			if a[0] == "1" {
				p.Set(field, text)
			}
			bi := control.BinaryIndex{Paragraph: p}
			si := control.SourceIndex{Paragraph: p}
			get := map[string]func() dependency.Dependency{"Depends": bi.GetDepends, "Suggests": bi.GetSuggests, "Breaks": bi.GetBreaks, "Replaces": bi.GetReplaces,
				"Pre-Depends": bi.GetPreDepends, "Conflicts": bi.GetConflicts, "Built-Using": bi.GetBuiltUsing,
				"Build-Depends": si.GetBuildDepends, "Build-Depends-Arch": si.GetBuildDependsArch, "Build-Depends-Indep": si.GetBuildDependsIndep}[field]
			if get == nil {
				return "no-such-accessor"
			}
			d := get()
			return dumpDep(&d)
		},
		"acc-absfiles": func(a []string) string {
			n, _ := strconv.Atoi(a[1])
			fn, names := core.MustUnHex(a[0]), unhexList(a[2:2+n])
			d := control.DSC{Filename: fn}
			c := control.Changes{Filename: fn}
			for i, nm := range names {
				d.Files = append(d.Files, control.MD5FileHash{FileHash: control.FileHash{Algorithm: "md5", Hash: "h" + strconv.Itoa(i), Size: int64(i), Filename: nm}})
				c.Files = append(c.Files, control.FileListChangesFileHash{FileHash: control.FileHash{Algorithm: "md5", Hash: "h" + strconv.Itoa(i), Size: int64(i), Filename: nm}, Component: "main", Priority: "optional"})
			}
			var xs, ys []string
			for i, f := range d.AbsFiles() {
				if f.Hash != "h"+strconv.Itoa(i) || f.Size != int64(i) || f.Algorithm != "md5" {
					return "hash-or-size-not-copied"
				}
				xs = append(xs, f.Filename)
			}
			for i, f := range c.AbsFiles() {
				if f.Hash != "h"+strconv.Itoa(i) || f.Size != int64(i) || f.Component != "main" || f.Priority != "optional" {
					return "hash-size-section-or-priority-not-copied"
				}
				ys = append(ys, f.Filename)
			}
			if strings.Join(xs, "\x00") != strings.Join(ys, "\x00") {
				return "dsc-and-changes-differ"
			}
			for i := range names { // the handle's own list is untouched
				if d.Files[i].Filename != names[i] || c.Files[i].Filename != names[i] {
					return "absfiles-changed-the-handle"
				}
			}
			return hexListDump(xs)
		},
		// acc-abs: the Filename a handle gets for a path, given the process's working directory
		// (the generator passes the directory it runs in; a replay elsewhere says so)
		"acc-abs": func(a []string) string {
			cwd, p := core.MustUnHex(a[0]), core.MustUnHex(a[1])
			if real, err := os.Getwd(); err != nil || real != cwd {
				return "cwd-differs"
			}
			got, err := filepath.Abs(p)
			if err != nil {
				return "err"
			}
			// the handles of the file entry points carry exactly this path (when the file exists)
			if d, err := control.ParseDscFile(p); err == nil && d.Filename != got {
				return "handle-filename-differs " + d.Filename
			}
			return core.Hex(got)
		},
	}
	for k, v := range acc {
		codecImpl[k] = v
	}
}

func streamAccessors(g *core.G) {
	r := g.R
	n := g.N(300, 20000)
	people := []string{"A B <a@b>", "Jane Doe <jane@example.org>", "Debian QA Group <packages@qa.debian.org>", "", "x"}
	names := []string{"foo_1.0.orig.tar.gz", "foo_1.0-1.debian.tar.xz", "foo_1.0-1.dsc", "foo_1.0-1.diff.gz", "x.debian.", ".debian.tar", "foo_1.0.debian", "foo.debianized.tar.gz", "debian.tar.xz", "a", "foo_1.0.tar.gz", "bar_2.dsc",
		"../outside", "sub/inner.dsc", "/abs/name", ".", "..", "", "a/", "./a", "a//b", ".dsc"}
	cwd, _ := os.Getwd()
	dirs := []string{"/srv/incoming", "/srv/incoming/", "/", "/a/b/../c", "/a/./b", "rel/dir", ".", "", "/srv//x", "../up", "/a/b/..", "/.."}
	for i := 0; i < n; i++ {
		k := r.Intn(4)
		args := []string{core.Hex(r.Pick(people)), strconv.Itoa(k)}
		for j := 0; j < k; j++ {
			args = append(args, core.Hex(r.Pick(people)))
		}
		g.Emit("acc-maint", args...)
		k = r.Intn(4)
		args = []string{strconv.Itoa(k)}
		for j := 0; j < k; j++ {
			args = append(args, core.Hex(r.Pick(append([]string{"all", "any", "all-all-all", "all-all", "any-all", "source"}, archNames...))))
		}
		g.Emit("acc-archall", args...)
		k = r.Intn(5)
		args = []string{strconv.Itoa(k)}
		for j := 0; j < k; j++ {
			args = append(args, core.Hex(r.Pick(names)))
		}
		g.Emit("acc-debsrc", args...)
		g.Emit("acc-srcname", core.Hex(r.Pick([]string{"foo", "libfoo1", ""})), core.Hex(r.Pick([]string{"", "foo", "foo (1.0-1)", " ", "src"})))
		g.Emit("acc-srcpkg", core.Hex(r.Pick([]string{"foo", "libfoo1", ""})), core.Hex(r.Pick([]string{"", "foo", "foo (1.0-1)", "foo  (1.0)", " foo", "foo ", "a b c", " "})))
		// best checksums
		args = nil
		for _, alg := range []int{64, 128} {
			k = r.Pick2(0, r.Intn(3))
			args = append(args, strconv.Itoa(k))
			for j := 0; j < k; j++ {
				args = append(args, core.Hex(r.Str("0123456789abcdef", alg)), strconv.Itoa(r.Intn(100000)), core.Hex(r.Pick(names[:9])))
			}
		}
		g.Emit("acc-best", args...)
		g.Emit("acc-byhash", core.Hex(r.Pick([]string{"dists/sid/main/binary-amd64/Packages.xz", "/srv/mirror/dists/sid/Release", "Packages", "", "a/b/", "/x", "./Sources.gz", "a//b/c"})),
			core.Hex(r.Pick([]string{"SHA256", "SHA512", "MD5Sum", ""})), core.Hex(r.Str("0123456789abcdef", r.Pick2(64, 8))))
		// on-demand relationship fields: well-formed, malformed, absent, empty
		field := r.Pick([]string{"Depends", "Suggests", "Breaks", "Replaces", "Pre-Depends", "Conflicts", "Built-Using", "Build-Depends", "Build-Depends-Arch", "Build-Depends-Indep"})
		text := renderDep(r, genDepAST(r), r.Intn(4))
		switch r.Intn(6) {
		case 0:
			text = corruptDep(r, text)
		case 1:
			text = ""
		}
		g.Emit("acc-optdep", b01(r.Chance(5, 6)), core.Hex(field), core.Hex(text))
		// absolute file paths
		fn := r.Pick(dirs)
		if fn != "" && !strings.HasSuffix(fn, "/") || r.Bool() {
			fn += "/"
		}
		fn += r.Pick([]string{"foo_1.0-1.dsc", "foo_1.0-1_amd64.changes", "", "x"})
		if r.Chance(1, 10) {
			fn = r.Pick([]string{"", "foo.dsc", "/", "//", "a/b/", "./foo.dsc"})
		}
		k = r.Intn(4)
		args = []string{core.Hex(fn), strconv.Itoa(k)}
		for j := 0; j < k; j++ {
			args = append(args, core.Hex(r.Pick(names)))
		}
		g.Emit("acc-absfiles", args...)
		// Abs: relative, absolute, redundant spellings
		p := r.Pick([]string{"foo.dsc", "./foo.dsc", "incoming/foo.dsc", "../x/foo.dsc", "a/../b/./c.dsc", cwd + "/foo.dsc", cwd + "/../foo.dsc", "/srv/incoming/foo.dsc", "/srv//incoming/./foo.dsc", "/../foo.dsc", "", ".", "..", "/", "a//b", "a/", "../../../../../../x"})
		g.Emit("acc-abs", core.Hex(cwd), core.Hex(p))
	}
}

func init() {
	p := core.Lookup("C10")
	p.Streams = append(p.Streams, core.Stream{Name: "accessors", Gen: streamAccessors,
		Domain: "the accessors on structs holding given field values: Maintainers (DSC and SourceParagraph; result not aliasing the uploaders), HasArchAll over architecture lists incl. all / all-all-all / any-all, DebianSource over file lists, SourcePackage over Source fields with and without a version in parentheses, BestChecksums.Checksums over every combination of empty / non-empty SHA-256 and SHA-512 lists, the ten on-demand relationship accessors on present / absent / empty / malformed fields, AbsFiles (DSC and Changes; hash, size, section, priority copied; handle untouched) over absolute, relative, redundant and empty Filenames x plain and non-plain listed names, filepath.Abs as ParseDscFile applies it: model (Model/Accessors.lean) vs implementation"})
	p.Facts = append(p.Facts, "fingerprint:control.BinaryIndex.SourcePackage", "fingerprint:control.BestChecksums.Checksums", "fingerprint:control.Paragraph.getOptionalDependencyField", "fingerprint:control.Changes.AbsFiles", "fingerprint:control.Changes.GetDSC", "fingerprint:control.ParseDscFile", "fingerprint:control.ParseChangesFile", "fingerprint:control.ParseControlFile")
}
