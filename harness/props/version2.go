package props

import (
	"encoding/json"
	"fmt"
	"sort"
	"strconv"
	"strings"

	"pault.ag/go/debian/version"

	"verif/harness/core"
)

func showParsed(v version.Version, err error) string {
	if err != nil {
		return "err"
	}
	return "ok " + strings.Join(encVersion(v), " ")
}

func init() {
	versionImpl["verparse"] = func(a []string) string {
		v, err := version.Parse(core.MustUnHex(a[0]))
		if err != nil && v != (version.Version{}) {
			return "err+value"
		}
		return showParsed(v, err)
	}
	versionImpl["verstr"] = func(a []string) string { return core.Hex(argVersion(a).String()) }
	versionImpl["verstr0"] = func(a []string) string { return core.Hex(argVersion(a).StringWithoutEpoch()) }
	versionImpl["verjson"] = func(a []string) string {
		var v version.Version
		err := json.Unmarshal([]byte(core.MustUnHex(a[0])), &v)
		return showParsed(v, err)
	}
	// law: a JSON string is a JSON string however it is spelled: the same version text with some
	// characters written as \uXXXX escapes decodes to the same value (directly and as a struct field)
	versionImpl["law-verjson-esc"] = func(a []string) string {
		s := core.MustUnHex(a[0])
		plain, _ := json.Marshal(s)
		var esc strings.Builder
		esc.WriteByte('"')
		for i, c := range []byte(s) {
			if c < 0x80 && (c == '+' || c == '~' || c == ':' || c == '-' || c == '.' || (i+len(s))%3 == 0) {
				fmt.Fprintf(&esc, "\\u%04x", c)
			} else if c < 0x20 || c == '"' || c == '\\' || c >= 0x80 {
				return "ok" // keep to text that needs no escaping of its own
			} else {
				esc.WriteByte(c)
			}
		}
		esc.WriteByte('"')
		var v1, v2 version.Version
		e1, e2 := json.Unmarshal(plain, &v1), json.Unmarshal([]byte(esc.String()), &v2)
		if (e1 == nil) != (e2 == nil) || v1 != v2 {
			return fmt.Sprintf("FAIL %s decodes to %v (%v), the same string spelled %s to %v (%v)", plain, v1, e1, esc.String(), v2, e2)
		}
		var f1, f2 struct{ V version.Version }
		e1, e2 = json.Unmarshal([]byte(`{"V":`+string(plain)+`}`), &f1), json.Unmarshal([]byte(`{"V":`+esc.String()+`}`), &f2)
		if (e1 == nil) != (e2 == nil) || f1 != f2 {
			return fmt.Sprintf("FAIL as a struct field %s decodes to %v (%v), spelled %s to %v (%v)", plain, f1.V, e1, esc.String(), f2.V, e2)
		}
		return "ok"
	}
	// law: every rendering of an accepted string parses back to the same value
	versionImpl["law-verrt"] = func(a []string) string {
		s := core.MustUnHex(a[0])
		v, err := version.Parse(s)
		if err != nil {
			var c, t version.Version
			if c.UnmarshalControl(s) == nil || t.UnmarshalText([]byte(s)) == nil {
				return fmt.Sprintf("FAIL Parse refuses %q, UnmarshalControl / UnmarshalText accept it (%v, %v)", s, c, t)
			}
			return "ok"
		}
		// every entry point reads the same text the same way
		var viaCtl, viaTxt version.Version
		errCtl, errTxt := viaCtl.UnmarshalControl(s), viaTxt.UnmarshalText([]byte(s))
		if errCtl != nil || viaCtl != v {
			return fmt.Sprintf("FAIL Parse accepts %q as %v, UnmarshalControl gives %v %v", s, v, viaCtl, errCtl)
		}
		if errTxt != nil || viaTxt != v {
			return fmt.Sprintf("FAIL Parse accepts %q as %v, UnmarshalText gives %v %v", s, v, viaTxt, errTxt)
		}
		if w, err := version.Parse(v.String()); err != nil || w != v {
			return fmt.Sprintf("FAIL String()=%q reparses to %v %v", v.String(), w, err)
		}
		// the two predicates on the parts
		zero, e1, e2, e3 := version.Version{}, version.Version{Epoch: 1}, version.Version{Revision: "1"}, version.Version{Version: "1"}
		if v.Empty() != (v.Epoch == 0 && v.Version == "" && v.Revision == "") || !zero.Empty() || e1.Empty() || e2.Empty() || e3.Empty() {
			return fmt.Sprintf("FAIL Empty() of %v = %v", v, v.Empty())
		}
		if v.IsNative() != (v.Revision == "") {
			return fmt.Sprintf("FAIL IsNative() of %v = %v", v, v.IsNative())
		}
		ctl, _ := v.MarshalControl()
		w := version.Version{Epoch: 99, Version: "stale", Revision: "stale"}
		if err := w.UnmarshalControl(ctl); err != nil || w != v {
			return fmt.Sprintf("FAIL MarshalControl()=%q -> %v %v", ctl, w, err)
		}
		txt, _ := v.MarshalText()
		var x version.Version
		if err := x.UnmarshalText(txt); err != nil || x != v {
			return fmt.Sprintf("FAIL MarshalText()=%q -> %v %v", txt, x, err)
		}
		// the value owns its text: a caller that recycles the buffer it handed to
		// UnmarshalText (bufio.Scanner, a pooled []byte) must not change the value
		buf := append([]byte{}, txt...)
		var z version.Version
		if err := z.UnmarshalText(buf); err == nil {
			for i := range buf {
				buf[i] = '7'
			}
			if z != v || z.String() != v.String() {
				return fmt.Sprintf("FAIL the value parsed from a buffer changed when the buffer was overwritten: %v, was %v", z, v)
			}
		}
		// and its own MarshalText result is a fresh slice
		out1, _ := v.MarshalText()
		for i := range out1 {
			out1[i] = '7'
		}
		if out2, _ := v.MarshalText(); string(out2) != string(txt) {
			return fmt.Sprintf("FAIL MarshalText results share storage: %q after overwriting the first, was %q", out2, txt)
		}
		js, err := json.Marshal(&v)
		var y version.Version
		if err != nil {
			return "FAIL json.Marshal: " + err.Error()
		}
		if err := json.Unmarshal(js, &y); err != nil || y != v {
			return fmt.Sprintf("FAIL json %s -> %v %v", js, y, err)
		}
		return "ok"
	}
	// law: the texts of a whole batch, marshalled first and parsed afterwards (with other
	// renderings in between), give back the batch: a marshalled text is the caller's to keep
	versionImpl["law-verbatch"] = func(a []string) string {
		var vs []version.Version
		for _, h := range a {
			if v, err := version.Parse(core.MustUnHex(h)); err == nil {
				vs = append(vs, v)
			}
		}
		texts := make([][]byte, len(vs))
		ctls := make([]string, len(vs))
		for i := range vs {
			texts[i], _ = vs[i].MarshalText()
			ctls[i], _ = vs[i].MarshalControl()
			_ = vs[(i*7+3)%len(vs)].String()
			_ = vs[(i*5+1)%len(vs)].StringWithoutEpoch()
		}
		for i := range vs {
			var x, y version.Version
			if err := x.UnmarshalText(texts[i]); err != nil || x != vs[i] {
				return fmt.Sprintf("FAIL the text marshalled for %v reads %q after the rest of the batch was rendered (-> %v %v)", vs[i], texts[i], x, err)
			}
			if err := y.UnmarshalControl(ctls[i]); err != nil || y != vs[i] {
				return fmt.Sprintf("FAIL the control text marshalled for %v reads %q afterwards", vs[i], ctls[i])
			}
		}
		return "ok"
	}
	// law: preorder laws on a triple, evaluated on the implementation alone
	versionImpl["law-vercmp3"] = func(a []string) string {
		x, y, z := argVersion(a[0:3]), argVersion(a[3:6]), argVersion(a[6:9])
		c := func(p, q version.Version) int { return sgn(version.Compare(p, q)) }
		for _, v := range []version.Version{x, y, z} {
			if c(v, v) != 0 {
				return fmt.Sprintf("FAIL reflexivity %v", v)
			}
		}
		for _, p := range [][2]version.Version{{x, y}, {y, z}, {x, z}} {
			if c(p[0], p[1]) != -c(p[1], p[0]) {
				return fmt.Sprintf("FAIL antisymmetry %v %v", p[0], p[1])
			}
		}
		vs := []version.Version{x, y, z}
		for _, i := range [][3]int{{0, 1, 2}, {0, 2, 1}, {1, 0, 2}, {1, 2, 0}, {2, 0, 1}, {2, 1, 0}} {
			p, q, r := vs[i[0]], vs[i[1]], vs[i[2]]
			if c(p, q) <= 0 && c(q, r) <= 0 && c(p, r) > 0 {
				return fmt.Sprintf("FAIL transitivity %v <= %v <= %v", p, q, r)
			}
			if c(p, q) == 0 && c(p, r) != c(q, r) {
				return fmt.Sprintf("FAIL congruence %v == %v against %v", p, q, r)
			}
		}
		return "ok"
	}
	// law: sort.Sort(version.Slice) terminates with a non-decreasing permutation
	versionImpl["law-versort"] = func(a []string) string {
		n, _ := strconv.Atoi(a[0])
		var in version.Slice
		for i := 0; i < n; i++ {
			in = append(in, argVersion(a[1+3*i:4+3*i]))
		}
		out := append(version.Slice{}, in...)
		sort.Sort(out)
		count := map[version.Version]int{}
		for _, v := range in {
			count[v]++
		}
		for _, v := range out {
			count[v]--
		}
		for v, c := range count {
			if c != 0 {
				return fmt.Sprintf("FAIL not a permutation (%v)", v)
			}
		}
		for i := 0; i+1 < len(out); i++ {
			if version.Compare(out[i], out[i+1]) > 0 {
				return fmt.Sprintf("FAIL out of order at %d: %v > %v", i, out[i], out[i+1])
			}
		}
		if out.Len() != n {
			return "FAIL Len"
		}
		return "ok"
	}
}

var spaces = []string{" ", "\t", "\n", "\r", "\v", "\f", "\u0085", " ", " ", " ", " ", " ", " ", " ", " ", "　"}

func genPad(r *core.Rand) string {
	var b strings.Builder
	for i := r.Intn(3); i > 0; i-- {
		if r.Chance(3, 4) {
			b.WriteString(r.Pick(spaces[:4]))
		} else {
			b.WriteString(r.Pick(spaces))
		}
	}
	return b.String()
}

// genWFVersion draws (epoch, upstream, revision) from the Policy grammar.
func genWFVersion(r *core.Rand) (string, string, string, bool) {
	hasEpoch := r.Bool()
	up := r.Str("0123456789", 1)
	alpha := "0123456789abzAZ.+~"
	if hasEpoch && r.Chance(1, 4) {
		alpha += ":"
	}
	hasRev := r.Bool()
	if hasRev && r.Chance(1, 3) {
		alpha += "-"
	}
	up += r.Str(alpha, r.Intn(6))
	rev := ""
	if hasRev {
		rev = r.Str("0123456789abzAZ.+~", r.Intn(4))
	}
	epoch := ""
	if hasEpoch {
		switch r.Intn(5) {
		case 0:
			epoch = "0"
		case 1:
			epoch = strconv.Itoa(r.Intn(100))
		case 2:
			// zero padding of any length: the epoch is a number, "0000000000000000000007" is 7
			epoch = strings.Repeat("0", r.Pick2(r.Range(1, 3), r.Range(15, 45))) + r.Pick([]string{strconv.Itoa(r.Intn(10)), "9223372036854775807", strconv.FormatUint(r.U64()>>uint(1+r.Intn(62)), 10)})

		case 3:
			epoch = "9223372036854775807"
		case 4:
			epoch = strconv.FormatUint(r.U64()>>uint(1+r.Intn(62)), 10)
		}
	}
	return epoch, up, rev, hasRev
}

func renderWF(epoch, up, rev string, hasRev bool) string {
	s := up
	if hasRev {
		s += "-" + rev
	}
	if epoch != "" {
		s = epoch + ":" + s
	}
	return s
}

// strings every version stream starts with: the corners of the syntax (signed and empty epochs, hyphens
// and colons in odd places, white space around and inside)
var verFixedSeeds = []string{"", " ", "1", "1.0-1", "1:1.0-1", "0:1:2", "1.0--", "-1", "0:-1", "-", ":", "1:", ":1", "a", "1 2", " 1 ", " 1 ",
	"1 2", "+5:1", "-5:1", "-0:1", "9223372036854775807:1", "9223372036854775808:1", "1_0:1", "0x1:1", "1:2:3-4-5", "1.0-1_2", "1.0!", "é", "1é", "1-é", "1\x00", "1:-",
	"-00:1.2", "-0:1~", "+0:1", "-0:a", "-0:1-2", "+:1.0-1", "-:1.0-1", ":1.0-1", ":1:2-3", "1-0:1", "0:", "0:-", "0:1-", "-0:", "+0:", "1:2-:3", " 1:2.30-10+b1", "1:2.30-10+b1\n", "\t1.0-1\r\n", "1.0-1 \n ", "\n1.0"}

func streamVerparse(g *core.G) {
	r := g.R
	emit := func(s string) {
		g.Emit("verparse", core.Hex(s))
		g.Emit("law-verrt", core.Hex(s))
	}
	for _, s := range verFixedSeeds {
		emit(s)
	}
	n := g.N(4000, 200000)
	for i := 0; i < n; i++ {
		e, u, rv, hr := genWFVersion(r)
		s := renderWF(e, u, rv, hr)
		switch r.Intn(10) {
		case 0, 1, 2, 3: // well-formed, padded
			if e != "" && r.Chance(1, 8) {
				s = "+" + s // a '+'-signed epoch is a number too
			}
			emit(genPad(r) + s + genPad(r))
		case 4: // bad epoch
			bad := r.Pick([]string{"a", "-1", "1a", "", "9223372036854775808", "99999999999999999999", "1.0", "~", "+", "-", "1 "})
			emit(bad + ":" + u)
		case 5: // embedded whitespace
			p := r.Intn(len(s) + 1)
			if p == 0 {
				p = 1
			}
			if p >= len(s) {
				p = len(s) - 1
			}
			if p > 0 {
				emit(s[:p] + r.Pick(spaces) + s[p:])
			}
		case 6: // bad first char / bad characters
			// incl. characters that the unicode package classifies as digits / letters but the
			// Policy alphabet does not contain (Arabic-Indic, Devanagari, fullwidth, mathematical digits)
			bad := r.Pick([]string{"a", "~", ".", "+", "-", "_", "!", "\x80", "é", "/", "=", "\x00", "\u0663", "\u06f5", "\u0967", "\uff11", "\U0001d7d8", "\u00b2", "\u2160", "\u00aa", "\u03b1", "\uff21",
				// runes that upper / lower / fold case into ASCII: KELVIN SIGN, dotted capital I, long s, dotless i, sharp S
				"\u212a", "\u0130", "\u017f", "\u0131", "\u1e9e", "\u212b", "\ufb00"})
			if r.Bool() {
				emit(strings.Replace(s, u, bad+u, 1))
			} else {
				p := r.Intn(len(s) + 1)
				emit(s[:p] + bad + s[p:])
			}
		case 7: // single-byte edit of a valid string
			p := r.Intn(len(s))
			emit(s[:p] + string(r.PickByte(verAlphabet+" _!\t")) + s[p+1:])
		case 8: // raw bytes biased to the special ones
			emit(r.Str("019a:-~+. \t\n\xc2\xa0\xe2\x80\xa8\x85\x00", r.Intn(8)))
		case 9: // deletion
			p := r.Intn(len(s))
			emit(s[:p] + s[p+1:])
		}
	}
	for i := 0; i < n/40; i++ {
		var batch []string
		for k := r.Range(2, 12); k > 0; k-- {
			e, u, rv, hr := genWFVersion(r)
			batch = append(batch, core.Hex(renderWF(e, u, rv, hr)))
		}
		g.Emit("law-verbatch", batch...)
	}
	// String() on arbitrary structs (not only parser output)
	for i := 0; i < n/4; i++ {
		v := version.Version{Epoch: uint(r.Intn(3)), Version: r.Str("01a.:-~", r.Intn(4)), Revision: r.Str("01a.~", r.Intn(3))}
		g.Emit("verstr", encVersion(v)...)
		g.Emit("verstr0", encVersion(v)...)
	}
	for i := 0; i < n/8; i++ {
		e, u, rv, hr := genWFVersion(r)
		s := renderWF(e, u, rv, hr)
		js := `"` + s + `"`
		if r.Chance(1, 5) {
			js = r.Pick([]string{s, `"` + s, s + `"`, `""`, `1`, `" ` + s + ` "`})
		}
		g.Emit("verjson", core.Hex(js))
		g.Emit("law-verjson-esc", core.Hex(s))
	}
	if g.Thorough {
		const small = "01a:-~ +"
		var rec func(prefix string, d int)
		rec = func(prefix string, d int) {
			emit(prefix)
			if d == 0 {
				return
			}
			for i := 0; i < len(small); i++ {
				rec(prefix+string(small[i]), d-1)
			}
		}
		rec("", 5)
	}
}

func streamVerlaws(g *core.G) {
	r := g.R
	n := g.N(6000, 300000)
	for i := 0; i < n; i++ {
		a, b := genVersionPair(r, verAlphabet)
		var c version.Version
		switch r.Intn(4) {
		case 0:
			c = a
			c.Version = mutateComponent(r, a.Version, verAlphabet)
		case 1:
			c = b
			c.Revision = strings.ReplaceAll(mutateComponent(r, b.Revision, verAlphabet), "-", "")
		case 2:
			_, c = genVersionPair(r, verAlphabet)
		case 3:
			c = b
			c.Version = strings.Repeat("0", r.Intn(3)) + c.Version // often equal to b
		}
		if r.Chance(1, 10) {
			// spellings around one small number: signs and letters after a dot, zero padding, tildes,
			// digit runs around the machine-word limits; as upstream parts and as revisions
			num := strconv.Itoa(r.Intn(12))
			if r.Chance(1, 4) {
				num = r.Pick([]string{"9223372036854775807", "9223372036854775808", "18446744073709551615", "18446744073709551616", "9999999999999999999", "99999999999999999999"})
			}
			base := r.Pick([]string{"1.", "1.0.", "", "a"})
			xs := []string{base + num, base + "+" + num, base + "-" + num, base + num + "a", base + "0" + num, base + num + ".0", base + num + "+", base + "~" + num, base + num + "~", base, base + "0"}
			a.Version, b.Version, c.Version = r.Pick(xs), r.Pick(xs), r.Pick(xs)
			if r.Bool() {
				a.Revision, b.Revision, c.Revision = strings.ReplaceAll(a.Version, "-", ""), strings.ReplaceAll(b.Version, "-", ""), strings.ReplaceAll(c.Version, "-", "")
				a.Version, b.Version, c.Version = "1", "1", "1"
			}
			a.Epoch, b.Epoch, c.Epoch = 0, 0, 0
		}
		g.Emit("law-vercmp3", append(append(encVersion(a), encVersion(b)...), encVersion(c)...)...)
	}
	for i := 0; i < n/40; i++ {
		k := r.Intn(60)
		if r.Chance(1, 10) {
			k = r.Range(100, 200)
		}
		args := []string{strconv.Itoa(k)}
		base, _ := genVersionPair(r, verAlphabet)
		for j := 0; j < k; j++ {
			v := base
			switch r.Intn(4) {
			case 0:
				v.Version = mutateComponent(r, base.Version, verAlphabet)
			case 1:
				v.Revision = strings.ReplaceAll(mutateComponent(r, base.Revision, verAlphabet), "-", "")
			case 2:
				v, _ = genVersionPair(r, verAlphabet)
			}
			args = append(args, encVersion(v)...)
		}
		g.Emit("law-versort", args...)
	}
}

func versionReadable2(op string, a []string) string {
	switch op {
	case "verparse", "law-verrt", "verjson", "law-verjson-esc":
		return fmt.Sprintf("%s(%q)", op, core.MustUnHex(a[0]))
	case "verstr", "verstr0":
		return op + showVer(a)
	case "law-verbatch":
		var xs []string
		for _, h := range a {
			xs = append(xs, core.MustUnHex(h))
		}
		return fmt.Sprintf("law-verbatch(%q)", xs)
	case "law-vercmp3":
		return "laws on " + showVer(a[0:3]) + " " + showVer(a[3:6]) + " " + showVer(a[6:9])
	case "law-versort":
		return "sort.Sort of " + a[0] + " versions"
	}
	return versionReadable(op, a)
}

var leanTB = []string{"Lean 4.33.0 kernel", "axioms reported per theorem under coverage.axioms (subset of propext, Classical.choice, Quot.sound)"}

func init() {
	core.Register(&core.Property{
		ID:          "C02",
		PropsModule: "GoDebian.Props.C02",
		TieModule:   "GoDebian.Tie.Version",
		Theorems:    []string{},
		TieTheorems: []string{"GoDebian.Tie.Version.order_eq", "GoDebian.Tie.Version.cisdigit_eq", "GoDebian.Tie.Version.cisalpha_eq"},
		Facts:       []string{"version.order:translated", "fingerprint:version.verrevcmp", "fingerprint:version.Compare", "fingerprint:version.Slice.Less"},
		Streams: []core.Stream{
			{Name: "vercmp", Gen: streamVercmp, Domain: "same stream as C01: ties Compare to the model the order laws are proved about"},
			{Name: "verlaws", Gen: streamVerlaws, Domain: "triples of versions sharing prefixes (many ties and near-ties): reflexivity, sign antisymmetry, transitivity of <=, congruence of equal versions, evaluated on the real Compare; slices of 0..200 versions sorted with sort.Sort(version.Slice): permutation + non-decreasing"}},
		Impl:        versionImpl,
		Readable:    versionReadable2,
		TrustedBase: append(append([]string{}, leanTB...), "sort.Sort (pdqsort, Go stdlib): given a strict weak order it terminates with a sorted permutation — parameter, observed by the verlaws stream, not proved", "correspondence streams (testing)"),
		Assumptions: []string{"version components contain no NUL byte"},
	})
	core.Register(&core.Property{
		ID:          "C03",
		PropsModule: "GoDebian.Props.C03",
		TieModule:   "GoDebian.Tie.Version",
		Theorems:    []string{},
		TieTheorems: []string{"GoDebian.Tie.Version.rejectVersion_eq", "GoDebian.Tie.Version.rejectRevision_eq", "GoDebian.Tie.Version.cisdigit_eq", "GoDebian.Tie.Version.cisalpha_eq"},
		Facts: []string{"version.parseInto:rejectVersion", "version.parseInto:rejectRevision", "fingerprint:version.parseInto", "fingerprint:version.Parse",
			"fingerprint:version.Version.String", "fingerprint:version.Version.StringWithoutEpoch", "fingerprint:version.Version.MarshalText",
			"fingerprint:version.Version.UnmarshalText", "fingerprint:version.Version.MarshalControl", "fingerprint:version.Version.UnmarshalControl"},
		Streams: []core.Stream{{Name: "verparse", Gen: streamVerparse,
			Domain: "renderings of (epoch, upstream, revision) from the Policy grammar x epoch forms (absent, 0, padded, max int64, random) x ASCII/Unicode white-space padding; one generator per rejection class (bad epoch, embedded white space, bad first character, bad characters, single-byte edits, deletions); raw bytes over the special bytes; String()/StringWithoutEpoch() on arbitrary structs; JSON texts; for every string the four render/re-parse round trips are checked on the implementation (law-verrt); thorough adds all strings of length <= 5 over {0,1,a,:,-,~,space,+}"}},
		Impl:        versionImpl,
		Readable:    versionReadable2,
		TrustedBase: append(append([]string{}, leanTB...), "Spec.VersionParse.verdict as the reading of the property text", "Base.Str (TrimSpace, ParseInt) models tied by differential testing", "encoding/json quoting of a TextMarshaler (parameter)"),
	})
}
