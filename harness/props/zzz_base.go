package props

import (
	"path"
	"path/filepath"
	"strconv"
	"strings"
	"unicode"

	"verif/harness/core"
)

func dumpStrList(l []string) string {
	xs := make([]string, len(l))
	for i, s := range l {
		xs[i] = core.Hex(s)
	}
	return "[" + strings.Join(xs, ",") + "]"
}

var baseImpl = map[string]core.Adapter{
	"base-trimspace": func(a []string) string { return core.Hex(strings.TrimSpace(core.MustUnHex(a[0]))) },
	"base-trimright": func(a []string) string { return core.Hex(strings.TrimRightFunc(core.MustUnHex(a[0]), unicode.IsSpace)) },
	"base-trimleft":  func(a []string) string { return core.Hex(strings.TrimLeftFunc(core.MustUnHex(a[0]), unicode.IsSpace)) },
	"base-hasspace":  func(a []string) string { return b01(strings.IndexFunc(core.MustUnHex(a[0]), unicode.IsSpace) != -1) },
	"base-fields":    func(a []string) string { return dumpStrList(strings.Fields(core.MustUnHex(a[0]))) },
	"base-split":     func(a []string) string { return dumpStrList(strings.Split(core.MustUnHex(a[1]), core.MustUnHex(a[0]))) },
	"base-splitn": func(a []string) string {
		n, _ := strconv.Atoi(a[1])
		return dumpStrList(strings.SplitN(core.MustUnHex(a[2]), core.MustUnHex(a[0]), n))
	},
	"base-trim": func(a []string) string { return core.Hex(strings.Trim(core.MustUnHex(a[1]), core.MustUnHex(a[0]))) },
	"base-trimsuffix": func(a []string) string {
		return core.Hex(strings.TrimSuffix(core.MustUnHex(a[1]), core.MustUnHex(a[0])))
	},
	"base-index": func(a []string) string {
		return strconv.Itoa(strings.Index(core.MustUnHex(a[1]), core.MustUnHex(a[0])))
	},
	"base-lastindex": func(a []string) string {
		return strconv.Itoa(strings.LastIndex(core.MustUnHex(a[1]), core.MustUnHex(a[0])))
	},
	"base-replace": func(a []string) string {
		return core.Hex(strings.Replace(core.MustUnHex(a[2]), core.MustUnHex(a[0]), core.MustUnHex(a[1]), -1))
	},
	"base-parseint": func(a []string) string {
		s := core.MustUnHex(a[0])
		v, err := strconv.ParseInt(s, 10, 64)
		w, err2 := strconv.Atoi(s)
		if (err == nil) != (err2 == nil) || (err == nil && int64(w) != v) {
			return "atoi-differs"
		}
		if err != nil {
			return "err"
		}
		return strconv.FormatInt(v, 10)
	},
	"base-itoa": func(a []string) string {
		n, _ := strconv.ParseInt(a[0], 10, 64)
		return core.Hex(strconv.Itoa(int(n)))
	},
	"base-clean":    func(a []string) string { return core.Hex(path.Clean(core.MustUnHex(a[0]))) },
	"base-join":     func(a []string) string { return core.Hex(path.Join(core.MustUnHex(a[0]), core.MustUnHex(a[1]))) },
	"base-pathbase": func(a []string) string { return core.Hex(filepath.Base(core.MustUnHex(a[0]))) },
	"base-dir":      func(a []string) string { return core.Hex(filepath.Dir(core.MustUnHex(a[0]))) },
	"base-ext":      func(a []string) string { return core.Hex(filepath.Ext(core.MustUnHex(a[0]))) },
}

const baseAlphabet = " \t\n\r\v\fab:-/.,0159+\x00\x85\xa0\xc2\xe1\x9a\x80\xe2\x81\x9f\xa8\xa9\xaf\xe3\x8a\xff"

func streamBase(g *core.G) {
	r := g.R
	n := g.N(2500, 150000)
	for i := 0; i < n; i++ {
		s := r.Str(baseAlphabet, r.Intn(10))
		if r.Chance(1, 3) {
			s = r.Pick(spaces) + s + r.Pick(spaces)
		}
		h := core.Hex(s)
		switch r.Intn(14) {
		case 0:
			g.Emit("base-trimspace", h)
			g.Emit("base-trimright", h)
			g.Emit("base-trimleft", h)
			g.Emit("base-hasspace", h)
		case 1:
			g.Emit("base-fields", h)
		case 2:
			sep := r.Pick([]string{" ", ",", "\n", ":", "-", "ab", ", "})
			g.Emit("base-split", core.Hex(sep), h)
			g.Emit("base-splitn", core.Hex(sep), strconv.Itoa(r.Range(1, 4)), h)
		case 3:
			g.Emit("base-trim", core.Hex(r.Pick([]string{"\n\r\t ", " ", "", "\n", "ab "})), h)
			g.Emit("base-trimsuffix", core.Hex(r.Pick([]string{"/", "\n", "ab"})), h)
		case 4:
			sub := r.Pick([]string{":", "-", "  ", "--", "ab", "\n"})
			g.Emit("base-index", core.Hex(sub), h)
			g.Emit("base-lastindex", core.Hex(sub[:1]), h)
		case 5:
			g.Emit("base-replace", core.Hex(r.Pick([]string{"\n", "\n \n", "aa", "a"})), core.Hex(r.Pick([]string{"\n ", "\n .\n", "a", ""})), core.Hex(r.Str("a\n ", r.Intn(10))))
		case 6, 7:
			num := r.Pick([]string{"", "+", "-"}) + r.Str("0123456789", r.Intn(21))
			if r.Chance(1, 5) {
				num = r.Pick([]string{"9223372036854775807", "9223372036854775808", "-9223372036854775808", "-9223372036854775809", "1_0", "0x1", " 1", "1 ", "+-1", "--1", "٣"})
			}
			g.Emit("base-parseint", core.Hex(num))
			g.Emit("base-itoa", strconv.FormatInt(int64(r.U64()>>uint(r.Intn(64)))-int64(r.Intn(3)), 10))
		default:
			p := ""
			for k := r.Intn(5); k > 0; k-- {
				p += r.Pick([]string{"a", "b.c", "..", ".", "", "x.tar.gz", ".hidden", "d."}) + r.Pick([]string{"/", "/", "//", ""})
			}
			if r.Chance(1, 3) {
				p = "/" + p
			}
			ph := core.Hex(p)
			g.Emit("base-clean", ph)
			g.Emit("base-pathbase", ph)
			g.Emit("base-dir", ph)
			g.Emit("base-ext", ph)
			g.Emit("base-join", ph, core.Hex(r.Pick([]string{"a", "../x", "", "b/c", "/abs", "."})))
		}
	}
}

func init() {
	base := core.Stream{Name: "base", Gen: streamBase,
		Domain: "the Go primitives re-implemented in lean/GoDebian/Base (strings.TrimSpace / TrimLeftFunc / TrimRightFunc / IndexFunc with unicode.IsSpace, Fields, Split, SplitN, Trim, TrimSuffix, Index, LastIndex, Replace; strconv.ParseInt / Atoi / Itoa; path.Clean / Join, filepath.Base / Dir / Ext) on short strings over blanks, every Unicode White_Space encoding and fragments of them, NUL, high bytes, separators, signs and digits around the int64 limits, and slash/dot path soups"}
	for k, v := range baseImpl {
		totalImpl[k] = v
		deb822Impl[k] = v
		versionImpl[k] = v
		codecImpl[k] = v
		debImpl[k] = v
		uploadImpl[k] = v
	}
	// C10 / C14 / C20: their path theorems are about Base/Path.lean (Clean, Join, Dir, Base, Ext)
	for _, id := range []string{"C03", "C07", "C18", "C10", "C14", "C20"} {
		p := core.Lookup(id)
		p.Streams = append(p.Streams, base)
	}
}
