package props

import (
	"strconv"

	"verif/harness/core"
)

// cross-property wiring that needs every adapter map to be complete (init order = file order)
func init() {
	for _, op := range []string{"codecenc", "law-enccount"} {
		deb822Impl[op] = codecImpl[op]
	}
	p := core.Lookup("C08")
	p.Streams = append(p.Streams, core.Stream{Name: "encseq", Gen: func(g *core.G) {
		r := g.R
		t := codecTypes["ProbeSparse"]
		for i := g.N(600, 30000); i > 0; i-- {
			k := r.Range(1, 6)
			args := []string{strconv.Itoa(k)}
			for j := 0; j < k; j++ {
				if r.Chance(1, 3) {
					for f := 0; f < t.NumField(); f++ {
						args = append(args, "z")
					}
				} else {
					args = append(args, genRecordTokens(r, t)...)
				}
			}
			for _, op := range []string{"codecenc", "law-enccount"} {
				o, a := codecOp(op, "ProbeSparse", args...)
				g.Emit(o, a...)
			}
		}
	}, Domain: "sequences of 1-6 structs written through ONE Encoder, a third of them writing no field at all (all fields optional and empty): bytes model vs implementation, and the number of paragraphs read back equals the number of non-empty paragraphs written"})
	oldReadable := p.Readable
	p.Readable = func(op string, a []string) string {
		if op == "codecenc" || op == "law-enccount" {
			return codecReadable(op, a)
		}
		return oldReadable(op, a)
	}
}
