package props

import (
	"bytes"
	"fmt"
	"io"
	"os"
	"os/exec"
	"path/filepath"
	"strconv"
	"strings"

	"pault.ag/go/debian/deb"

	"verif/harness/core"
)

func fingerprint(b []byte) string {
	var h uint64
	for _, x := range b {
		h = (h*31 + uint64(x) + 7) % 4294967296
	}
	return fmt.Sprintf("%d/%d", len(b), h)
}

// iterateAr drives the real reader to the end (with a step cap) and dumps what it saw.
// plainReaderAt is an io.ReaderAt and nothing else (no Len, no Size, no Seek)
type plainReaderAt struct{ b []byte }

func (p plainReaderAt) ReadAt(q []byte, off int64) (int, error) {
	if off < 0 || off >= int64(len(p.b)) {
		return 0, io.EOF
	}
	n := copy(q, p.b[off:])
	if n < len(q) {
		return n, io.EOF
	}
	return n, nil
}

// arSource: the same bytes behind different io.ReaderAt implementations, some of which have
// been read from sequentially before (a caller that sniffed the magic, or skipped a prefix):
// random access does not depend on any read position.
func arSource(data []byte) io.ReaderAt {
	switch (len(data)/3 + len(data)) % 6 {
	case 5:
		// a section whose declared length is far larger than the data behind it
		return io.NewSectionReader(bytes.NewReader(data), 0, 1<<62)
	case 1:
		r := bytes.NewReader(data)
		io.CopyN(io.Discard, r, 8)
		return r
	case 2:
		r := strings.NewReader(string(data))
		io.CopyN(io.Discard, r, int64(len(data)/2))
		return r
	case 3:
		return plainReaderAt{data}
	case 4:
		r := bytes.NewReader(data)
		io.Copy(io.Discard, r)
		return r
	}
	return bytes.NewReader(data)
}

func iterateAr(data []byte) string {
	a, err := deb.LoadAr(arSource(data))
	if err != nil {
		return "err-magic"
	}
	var entries []*deb.ArEntry
	end := "eof"
	limit := len(data)/60 + 3
	for {
		e, err := a.Next()
		if err == io.EOF {
			break
		}
		if err != nil {
			end = "bad"
			break
		}
		entries = append(entries, e)
		if len(entries) > limit {
			end = "hang"
			break
		}
	}
	var xs []string
	for _, e := range entries {
		// read after the iterator has finished, then once more after a rewind
		b1, _ := io.ReadAll(e.Data)
		e.Data.Seek(0, 0)
		b2, _ := io.ReadAll(e.Data)
		fp := fingerprint(b1)
		if !bytes.Equal(b1, b2) {
			fp = "reread-differs"
		}
		xs = append(xs, fmt.Sprintf("%s:%d:%d:%d:%s:%d:%s", core.Hex(e.Name), e.Timestamp, e.OwnerID, e.GroupID, core.Hex(e.FileMode), e.Size, fp))
	}
	return "[" + strings.Join(xs, ";") + "] end=" + end + " steps=" + strconv.Itoa(len(entries))
}

var arImpl = map[string]core.Adapter{
	"ar":     func(a []string) string { return iterateAr([]byte(core.MustUnHex(a[0]))) },
	"arspec": func(a []string) string { return iterateAr([]byte(core.MustUnHex(a[0]))) },
	// law (C15): at most one step per 60 bytes; every returned member sits behind a header
	// with both magic bytes, has a non-negative size and delivers exactly that many bytes;
	// repeated runs agree
	"law-arsafe": func(a []string) string {
		data := []byte(core.MustUnHex(a[0]))
		ar, err := deb.LoadAr(bytes.NewReader(data))
		if err != nil {
			return "ok"
		}
		off := int64(8)
		steps := 0
		for {
			e, err := ar.Next()
			if err != nil {
				break
			}
			steps++
			if steps > (len(data)-8)/60 {
				return fmt.Sprintf("FAIL %d steps on %d bytes", steps, len(data))
			}
			if off+60 > int64(len(data)) || data[off+58] != 0x60 || data[off+59] != 0x0A {
				return fmt.Sprintf("FAIL member %d returned without the header magic at offset %d", steps, off)
			}
			if e.Size < 0 {
				return fmt.Sprintf("FAIL member %d has size %d", steps, e.Size)
			}
			n, _ := io.Copy(io.Discard, e.Data)
			if n != e.Size {
				return fmt.Sprintf("FAIL member %d: size %d, reader delivers %d", steps, e.Size, n)
			}
			off += 60 + e.Size + e.Size%2
		}
		if iterateAr(data) != iterateAr(data) {
			return "FAIL two runs differ"
		}
		return "ok"
	},
}

type arMember struct {
	Name         string
	Slash        bool
	TS, UID, GID string // column text ("" = blank)
	Mode         string
	Size         string // "" = derive from data
	Data         []byte
}

func col(s string, n int) string {
	if len(s) > n {
		s = s[:n]
	}
	return s + strings.Repeat(" ", n-len(s))
}

// buildAr is the harness's own archive writer (used for corruptions and .deb files;
// the C13 stream uses the Lean specification's builder instead).
func buildAr(ms []arMember) []byte {
	var b bytes.Buffer
	b.WriteString("!<arch>\n")
	for _, m := range ms {
		name := m.Name
		if m.Slash {
			name += "/"
		}
		size := m.Size
		if size == "" {
			size = strconv.Itoa(len(m.Data))
		}
		b.WriteString(col(name, 16) + col(m.TS, 12) + col(m.UID, 6) + col(m.GID, 6) + col(m.Mode, 8) + col(size, 10) + "`\n")
		b.Write(m.Data)
		if len(m.Data)%2 == 1 {
			b.WriteByte('\n')
		}
	}
	return b.Bytes()
}

func genArMembers(r *core.Rand) []arMember {
	var ms []arMember
	for n := r.Intn(6); n > 0; n-- {
		m := arMember{Name: r.Pick([]string{"debian-binary", "control.tar.gz", "data.tar.xz", "a", "sixteen-bytes-nm", "x.y", "_gpgorigin", "file with sp", "é"}),
			TS: strconv.Itoa(r.Intn(2000000000)), UID: strconv.Itoa(r.Intn(1000)), GID: strconv.Itoa(r.Intn(1000)), Mode: r.Pick([]string{"100644", "644", "100755", ""})}
		if r.Chance(1, 3) {
			// names of every length 1..16, so that a GNU "name/" can fill the whole column
			m.Name = r.Str("abcxyz.-_0", r.Range(1, 16))
		}
		if r.Chance(1, 3) {
			m.Slash = len(m.Name) < 16
		}
		special := false
		if r.Chance(1, 8) {
			// names other ar dialects give a meaning to (GNU: "//" name table, "/<offset>" reference
			// into it, "/" symbol table; BSD: "#1/<len>"): for this reader they are names
			m.Name = r.Pick([]string{"//", "/", "/0", "/27", "/1", "/x", "//x", "#1/20", "/123456789", "__.SYMDEF"})
			m.Slash = false
			if m.Name == "//" {
				// the column "//" is what GNU ar writes for a member "/" (name + terminator); given
				// that way the specification covers it
				m.Name, m.Slash = "/", true
			}
			special = true
		}
		if r.Chance(1, 5) {
			m.TS = ""
		}
		if r.Chance(1, 5) {
			m.UID, m.GID = "", ""
		}
		size := r.Pick2(r.Intn(4), r.Intn(300))
		m.Data = []byte(r.Str("abc\n\x00\xff`!<arch>", size))
		if special && r.Bool() {
			// what a GNU name table looks like, with and without the final newline
			m.Data = []byte(r.Pick([]string{"control.tar.gz.extra/\ndata.tar.gz.extra/\n", "a-very-long-member-name.tar/\n", "long-name-without-newline.tar/", "x/\ny", "", "/\n"}))
		}
		ms = append(ms, m)
	}
	return ms
}

func optNum(s string) string {
	if s == "" {
		return "-"
	}
	return s
}

func streamAr(g *core.G) {
	r := g.R
	n := g.N(1500, 60000)
	for i := 0; i < n; i++ {
		ms := genArMembers(r)
		args := []string{strconv.Itoa(len(ms))}
		for _, m := range ms {
			args = append(args, core.Hex(m.Name), b01(m.Slash), optNum(m.TS), optNum(m.UID), optNum(m.GID), core.Hex(m.Mode), core.Hex(string(m.Data)))
		}
		cnt := len(ms)
		g.EmitGen(func(out string) []string {
			f := strings.Fields(out)
			if len(f) != 3 || f[2] != "1" {
				return nil
			}
			return []string{"arspec " + f[0] + " " + f[1] + " " + strconv.Itoa(cnt), "law-arsafe " + f[0]}
		}, "argen", args...)
		// the harness's own writer must agree with the specification's (cross-check of the generator)
		g.Emit("ar", core.Hex(string(buildAr(ms))))
		if i%4 == 0 {
			// bytes after the last member: a lone newline (which some writers leave), several, other bytes
			tail := r.Pick([]string{"\n", "\n\n", " ", "x", "\n!", "\x00", "\n" + strings.Repeat(" ", 59), "`\n"})
			t := core.Hex(string(buildAr(ms)) + tail)
			g.Emit("ar", t)
			g.Emit("law-arsafe", t)
		}
		// the same members with zero-filled numeric columns (as some archivers write them)
		if len(ms) > 0 && i%3 == 0 {
			zs := append([]arMember{}, ms...)
			law := []string{}
			for j := range zs {
				fill := func(s string, w int) string {
					if s == "" {
						s = "0"
					}
					if r.Bool() {
						return strings.Repeat("0", r.Intn(w-len(s)+1)) + s
					}
					return s
				}
				zs[j].TS, zs[j].UID, zs[j].GID = fill(zs[j].TS, 12), fill(zs[j].UID, 6), fill(zs[j].GID, 6)
				zs[j].Size = fill(strconv.Itoa(len(zs[j].Data)), 10)
				law = append(law, zs[j].TS, zs[j].UID, zs[j].GID, zs[j].Size)
			}
			z := core.Hex(string(buildAr(zs)))
			g.Emit("ar", z)
			g.Emit("law-arcols", append([]string{z}, law...)...)
		}
	}
}

var hostileCols = []string{"-60", "-1", "-0", "9999999999", "99999999999999", "", "abc", "1e3", "0x10", "+5", " 7", "12 3", " ", "-9223372036"}

func corruptAr(r *core.Rand, ms []arMember) []byte {
	ms = append([]arMember{}, ms...)
	switch r.Intn(9) {
	case 0, 1: // a header column set to hostile text
		if len(ms) > 0 {
			i := r.Intn(len(ms))
			v := r.Pick(hostileCols)
			switch r.Intn(5) {
			case 0:
				ms[i].Size = v
				if v == "" {
					ms[i].Size = " "
				}
			case 1:
				ms[i].TS = v
			case 2:
				ms[i].UID = v
			case 3:
				ms[i].GID = v
			case 4:
				ms[i].Mode = v
			}
		}
		return buildAr(ms)
	case 2: // size larger / smaller than the data
		if len(ms) > 0 {
			i := r.Intn(len(ms))
			ms[i].Size = strconv.Itoa(len(ms[i].Data) + r.Range(-3, 200))
		}
		return buildAr(ms)
	case 3: // truncation at any offset
		b := buildAr(ms)
		return b[:r.Intn(len(b)+1)]
	case 4: // duplicated / reordered members
		if len(ms) > 0 {
			i := r.Intn(len(ms))
			ms = append(ms, ms[i])
			j := r.Intn(len(ms))
			ms[i], ms[j] = ms[j], ms[i]
		}
		return buildAr(ms)
	case 5: // magic bytes flipped independently
		b := buildAr(ms)
		if len(b) >= 68 {
			off := 8
			k := r.Intn(len(ms))
			for _, m := range ms[:k] {
				off += 60 + len(m.Data) + len(m.Data)%2
			}
			if off+60 <= len(b) {
				switch r.Intn(3) {
				case 0:
					b[off+58] = 'X'
				case 1:
					b[off+59] = 'X'
				default:
					b[off+58], b[off+59] = 'X', 'Y'
				}
			}
		}
		return b
	case 6: // global magic damaged
		b := buildAr(ms)
		if r.Chance(1, 2) {
			// the magic of a related format: GNU thin archives, AIX big / small archives, other spellings
			copy(b, r.Pick([]string{"!<thin>\n", "<bigaf>\n", "<aiaff>\n", "!<arch>\r", "!<ARCH>\n", "!<arch> ", "!<arch>\x00"}))
			return b
		}
		b[r.Intn(8)] ^= byte(1 << uint(r.Intn(8)))
		return b
	case 7: // random byte flips
		b := buildAr(ms)
		for k := r.Range(1, 4); k > 0 && len(b) > 0; k-- {
			b[r.Intn(len(b))] = byte(r.Intn(256))
		}
		return b
	default: // raw bytes behind a valid magic
		return append([]byte("!<arch>\n"), []byte(r.Str("0123456789 -`\n/ab", r.Intn(200)))...)
	}
}

func streamArfuzz(g *core.G) {
	r := g.R
	n := g.N(4000, 200000)
	for i := 0; i < n; i++ {
		b := corruptAr(r, genArMembers(r))
		g.Emit("ar", core.Hex(string(b)))
		g.Emit("law-arsafe", core.Hex(string(b)))
	}
}

func arReadable(op string, a []string) string {
	if len(a) > 0 {
		return fmt.Sprintf("%s(%q)", op, core.MustUnHex(a[0]))
	}
	return op
}

// arByTool builds an archive with the system's /usr/bin/ar (GNU format) from files in a
// scratch directory: an independent writer of the format.
func arByTool(r *core.Rand) ([]byte, []string) {
	dir, err := os.MkdirTemp("", "verif-ar-")
	if err != nil {
		return nil, nil
	}
	defer os.RemoveAll(dir)
	var names, law []string
	used := map[string]bool{}
	for n := r.Range(1, 4); n > 0; n-- {
		name := r.Str("abcxyz._-0", r.Range(1, 15))
		if used[name] || strings.HasPrefix(name, "-") || name == "." || name == ".." {
			continue
		}
		used[name] = true
		data := r.Str("ab\n\x00\xff`", r.Pick2(r.Intn(4), r.Intn(200)))
		os.WriteFile(filepath.Join(dir, name), []byte(data), 0o644)
		names = append(names, name)
		law = append(law, core.Hex(name), core.Hex(data))
	}
	if len(names) == 0 {
		return nil, nil
	}
	cmd := exec.Command("ar", append([]string{"rcDS", "out.a"}, names...)...)
	cmd.Env = core.OrigEnv
	cmd.Dir = dir
	if cmd.Run() != nil {
		return nil, nil
	}
	b, _ := os.ReadFile(filepath.Join(dir, "out.a"))
	return b, law
}

// ---- sources given as runs ("L<hex>" literal bytes, "Z<n>" n zero bytes) ---------------

type sparseRun struct {
	off  int64
	data []byte // nil = zeros
	n    int64
}

type sparseSource struct {
	runs []sparseRun
	size int64
	// eagerEOF: a read that ends exactly at the end of the source returns the bytes together
	// with io.EOF (the io.ReaderAt contract allows both; bytes.Reader and os.File do not do it,
	// range-backed readers do)
	eagerEOF bool
}

func parseSegs(s string) *sparseSource {
	src := &sparseSource{}
	for _, t := range strings.Split(s, ",") {
		var r sparseRun
		r.off = src.size
		if strings.HasPrefix(t, "L") {
			r.data = []byte(core.MustUnHex(t[1:]))
			r.n = int64(len(r.data))
		} else {
			r.n, _ = strconv.ParseInt(t[1:], 10, 64)
		}
		src.runs = append(src.runs, r)
		src.size += r.n
	}
	return src
}

func (s *sparseSource) ReadAt(p []byte, off int64) (int, error) {
	if off < 0 {
		return 0, fmt.Errorf("negative offset")
	}
	n := 0
	for _, r := range s.runs {
		if n == len(p) {
			break
		}
		pos := off + int64(n)
		if pos >= r.off+r.n || pos < r.off {
			continue
		}
		k := int64(len(p) - n)
		if rem := r.off + r.n - pos; rem < k {
			k = rem
		}
		if r.data == nil {
			for i := int64(0); i < k; i++ {
				p[n+int(i)] = 0
			}
		} else {
			copy(p[n:n+int(k)], r.data[pos-r.off:])
		}
		n += int(k)
	}
	if n < len(p) || (s.eagerEOF && off+int64(n) == s.size) {
		return n, io.EOF
	}
	return n, nil
}

// iterateSparse is iterateAr for a source that cannot be read in full: per member the
// first 16 bytes and the last byte stand in for the content
func iterateSparse(src *sparseSource) string {
	a, err := deb.LoadAr(src)
	if err != nil {
		return "err-magic"
	}
	var xs []string
	end := "eof"
	limit := int(src.size/60) + 3
	for steps := 0; ; steps++ {
		e, err := a.Next()
		if err == io.EOF {
			break
		}
		if err != nil {
			end = "bad"
			break
		}
		if steps > limit || steps > 100000 {
			end = "hang"
			break
		}
		head := make([]byte, 16)
		k, _ := io.ReadFull(e.Data, head)
		last := ""
		if e.Size > 0 {
			var b [1]byte
			if n, _ := e.Data.ReadAt(b[:], e.Size-1); n == 1 {
				last = core.Hex(string(b[:]))
			}
		}
		xs = append(xs, fmt.Sprintf("%s:%d:%d:%d:%s:%d:%s/%s", core.Hex(e.Name), e.Timestamp, e.OwnerID, e.GroupID, core.Hex(e.FileMode), e.Size, core.Hex(string(head[:k])), last))
	}
	return "[" + strings.Join(xs, ";") + "] end=" + end + " steps=" + strconv.Itoa(len(xs))
}

func iterateSparseBoth(segs string) string {
	lazy := iterateSparse(parseSegs(segs))
	src := parseSegs(segs)
	src.eagerEOF = true
	if eager := iterateSparse(src); eager != lazy {
		return "readerat-eof-style-matters " + lazy + " / " + eager
	}
	return lazy
}

func init() {
	arImpl["arsparse"] = func(a []string) string { return iterateSparseBoth(a[0]) }
	// law (C13): numeric header columns are decimal, whatever their padding: blank = 0,
	// zero-filled and minimal spellings mean the same number
	arImpl["law-arcols"] = func(a []string) string {
		data := []byte(core.MustUnHex(a[0]))
		ar, err := deb.LoadAr(bytes.NewReader(data))
		if err != nil {
			return "FAIL " + err.Error()
		}
		for i := 1; i+3 < len(a); i += 4 {
			e, err := ar.Next()
			if err != nil {
				return fmt.Sprintf("FAIL member %d: %v", i/4, err)
			}
			want := [4]int64{}
			for k := 0; k < 4; k++ {
				want[k], _ = strconv.ParseInt(a[i+k], 10, 64)
			}
			if e.Timestamp != want[0] || e.OwnerID != want[1] || e.GroupID != want[2] || e.Size != want[3] {
				return fmt.Sprintf("FAIL member %d: timestamp/uid/gid/size %d/%d/%d/%d, the columns say %d/%d/%d/%d", i/4, e.Timestamp, e.OwnerID, e.GroupID, e.Size, want[0], want[1], want[2], want[3])
			}
			if n, _ := io.Copy(io.Discard, e.Data); n != want[3] {
				return fmt.Sprintf("FAIL member %d delivers %d bytes of %d", i/4, n, want[3])
			}
		}
		if _, err := ar.Next(); err != io.EOF {
			return fmt.Sprintf("FAIL no end of archive: %v", err)
		}
		return "ok"
	}
	arImpl["arsspec"] = arImpl["arsparse"]
}

// streamArLarge: members whose size needs the whole ten-digit column (and every digit count
// below it), followed by small members: the offsets after them must be right
func streamArLarge(g *core.G) {
	r := g.R
	sizes := []int64{999999999, 1000000000, 1000000001, 2147483647, 2147483648, 4294967295, 4294967296, 9999999998, 9999999999, 123456789, 99999, 100000}
	for i := g.N(60, 2500); i > 0; i-- {
		ms := genArMembers(r)
		if len(ms) == 0 {
			ms = append(ms, arMember{Name: "x", Mode: "644"})
		}
		args := []string{strconv.Itoa(len(ms))}
		bigAt := r.Intn(len(ms))
		for j, m := range ms {
			extra := int64(0)
			if j == bigAt || r.Chance(1, 6) {
				extra = sizes[r.Intn(len(sizes))] - int64(len(m.Data))
				if r.Chance(1, 4) {
					extra = int64(r.Intn(2000000000))
				}
				if extra < 0 {
					extra = 0
				}
			}
			args = append(args, core.Hex(m.Name), b01(m.Slash), optNum(m.TS), optNum(m.UID), optNum(m.GID), core.Hex(m.Mode), core.Hex(string(m.Data)), strconv.FormatInt(extra, 10))
		}
		cnt := len(ms)
		g.EmitGen(func(out string) []string {
			f := strings.Fields(out)
			if len(f) != 3 || f[2] != "1" {
				return nil
			}
			ops := []string{"arsspec " + f[0] + " " + f[1] + " " + strconv.Itoa(cnt)}
			// the same source cut short inside the last member / with a stray byte: model vs implementation
			if k := strings.LastIndex(f[0], ","); k > 0 {
				ops = append(ops, "arsparse "+f[0][:k], "arsparse "+f[0]+",L00")
			}
			return ops
		}, "arsgen", args...)
	}
}

func init() {
	// law: an archive written by the system's ar reads back as its files
	arImpl["law-arfiles"] = func(a []string) string {
		data := []byte(core.MustUnHex(a[0]))
		ar, err := deb.LoadAr(bytes.NewReader(data))
		if err != nil {
			return "FAIL " + err.Error()
		}
		want := a[1:]
		for i := 0; i+1 < len(want); i += 2 {
			e, err := ar.Next()
			if err != nil {
				return fmt.Sprintf("FAIL member %d: %v", i/2, err)
			}
			b, _ := io.ReadAll(e.Data)
			if e.Name != core.MustUnHex(want[i]) || string(b) != core.MustUnHex(want[i+1]) || e.Size != int64(len(b)) {
				return fmt.Sprintf("FAIL member %d: name %q, %d bytes", i/2, e.Name, len(b))
			}
		}
		if _, err := ar.Next(); err != io.EOF {
			return fmt.Sprintf("FAIL no end of archive: %v", err)
		}
		return "ok"
	}
}

func streamArTool(g *core.G) {
	for i := g.N(40, 3000); i > 0; i-- {
		b, law := arByTool(g.R)
		if b == nil {
			continue
		}
		g.Emit("ar", core.Hex(string(b)))
		g.Emit("law-arfiles", append([]string{core.Hex(string(b))}, law...)...)
	}
}
