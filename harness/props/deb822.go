package props

import (
	"bytes"
	"errors"
	"fmt"
	"io"
	"sort"
	"strconv"
	"strings"
	"testing/iotest"

	"pault.ag/go/debian/control"

	"verif/harness/core"
)

func dumpPara(p control.Paragraph) string {
	var ord []string
	for _, k := range p.Order {
		ord = append(ord, core.Hex(k))
	}
	var kv []string
	for k, v := range p.Values {
		kv = append(kv, core.Hex(k)+"="+core.Hex(v))
	}
	sort.Strings(kv)
	return "(" + strings.Join(ord, ",") + "|" + strings.Join(kv, ",") + ")"
}

// dumpParasMod identifies values that differ by one trailing newline (C08: "values
// equal up to one trailing newline").
func dumpParasMod(ps []control.Paragraph) string {
	var qs []control.Paragraph
	for _, p := range ps {
		q := control.Paragraph{Order: p.Order, Values: map[string]string{}}
		for k, v := range p.Values {
			q.Values[k] = strings.TrimSuffix(v, "\n")
		}
		qs = append(qs, q)
	}
	return dumpParas(qs)
}

func dumpParas(ps []control.Paragraph) string {
	var xs []string
	for _, p := range ps {
		xs = append(xs, dumpPara(p))
	}
	return "[" + strings.Join(xs, ";") + "]"
}

type rawPara struct{ control.Paragraph }

// readThreeWays reads the same bytes with All(), with Next() until io.EOF and by
// decoding into a slice of structs embedding the Paragraph; the three must agree.
func readThreeWays(data string) string {
	r1, err := control.NewParagraphReader(strings.NewReader(data), nil)
	if err != nil {
		return "err"
	}
	all, errAll := r1.All()
	r2, _ := control.NewParagraphReader(strings.NewReader(data), nil)
	var step []control.Paragraph
	var errStep error
	for {
		p, err := r2.Next()
		if err == io.EOF {
			break
		}
		if err != nil {
			errStep = err
			break
		}
		step = append(step, *p)
	}
	var sl []rawPara
	errSlice := control.Unmarshal(&sl, strings.NewReader(data))
	if (errAll == nil) != (errStep == nil) || (errAll == nil) != (errSlice == nil) {
		return fmt.Sprintf("entrypoints-differ errAll=%v errNext=%v errDecode=%v", errAll, errStep, errSlice)
	}
	if errAll != nil {
		if len(all) != 0 {
			return "err+value"
		}
		return "err"
	}
	var fromSlice []control.Paragraph
	for _, x := range sl {
		fromSlice = append(fromSlice, x.Paragraph)
	}
	a, b, c := dumpParas(all), dumpParas(step), dumpParas(fromSlice)
	if a != b || a != c {
		return "entrypoints-differ " + a + " " + b + " " + c
	}
	// how the bytes arrive must not matter: one byte per Read, and data together with io.EOF
	for _, rd := range []io.Reader{iotest.OneByteReader(strings.NewReader(data)), iotest.DataErrReader(strings.NewReader(data))} {
		r3, err := control.NewParagraphReader(rd, nil)
		if err != nil {
			return "entrypoints-differ slow reader: " + err.Error()
		}
		slow, err := r3.All()
		if err != nil || dumpParas(slow) != a {
			return fmt.Sprintf("entrypoints-differ slow reader: %s %v, all at once: %s", dumpParas(slow), err, a)
		}
	}
	return "ok " + a
}

func writeParas(ps []control.Paragraph) string {
	var buf bytes.Buffer
	for i := range ps {
		if i > 0 {
			buf.WriteString("\n")
		}
		ps[i].WriteTo(&buf)
	}
	return buf.String()
}

var errInjected = errors.New("injected read failure")

func readAllParas(data string) ([]control.Paragraph, error) {
	r, err := control.NewParagraphReader(strings.NewReader(data), nil)
	if err != nil {
		return nil, err
	}
	return r.All()
}

func argKVPara(a []string) control.Paragraph {
	n, _ := strconv.Atoi(a[0])
	p := control.Paragraph{Values: map[string]string{}, Order: []string{}}
	for i := 0; i < n; i++ {
		p.Set(core.MustUnHex(a[1+2*i]), core.MustUnHex(a[2+2*i]))
	}
	return p
}

func hasBlankLine(text string) bool {
	for _, l := range strings.Split(strings.TrimSuffix(text, "\n"), "\n") {
		if strings.TrimSpace(l) == "" {
			return true
		}
	}
	return false
}

func valueLines(v string) []string { return strings.Split(strings.TrimSuffix(v, "\n"), "\n") }

var deb822Impl = map[string]core.Adapter{
	"d822":     func(a []string) string { return readThreeWays(core.MustUnHex(a[0])) },
	"d822spec": func(a []string) string { return readThreeWays(core.MustUnHex(a[0])) },
	"d822write": func(a []string) string {
		p := argKVPara(a)
		var buf bytes.Buffer
		if err := p.WriteTo(&buf); err != nil {
			return "err"
		}
		return core.Hex(buf.String())
	},
	"d822rw": func(a []string) string {
		ps, err := readAllParas(core.MustUnHex(a[0]))
		if err != nil {
			return "err"
		}
		t1 := writeParas(ps)
		ps2, err := readAllParas(t1)
		if err != nil {
			return "ok " + core.Hex(t1) + " err"
		}
		return "ok " + core.Hex(t1) + " " + dumpParas(ps2) + " " + core.Hex(writeParas(ps2))
	},
	// law: a returned paragraph has a value for exactly the fields it lists, each once
	"law-d822inv": func(a []string) string {
		data := core.MustUnHex(a[0])
		// a reader whose source fails with something other than io.EOF before the end: the failure
		// is reported, a partial paragraph is not handed out as if the document ended there
		if len(data) > 2 {
			cut := (len(data)*7/11 + len(data)%5) % len(data)
			r, err := control.NewParagraphReader(io.MultiReader(strings.NewReader(data[:cut]), iotest.ErrReader(errInjected)), nil)
			if err == nil {
				_, err = r.All()
			}
			if err == nil {
				return fmt.Sprintf("FAIL the source failed after %d of %d bytes (not io.EOF) and All() reports no error", cut, len(data))
			}
		}
		// a caller that goes on after an error (a tolerant loop over an index with a damaged entry):
		// whatever is returned afterwards still satisfies the invariant
		if r, err := control.NewParagraphReader(strings.NewReader(data), nil); err == nil {
			for i := 0; i < 50; i++ {
				p, err := r.Next()
				if err == io.EOF {
					break
				}
				if err != nil {
					continue
				}
				seen := map[string]bool{}
				for _, k := range p.Order {
					seen[k] = true
				}
				for k := range p.Values {
					if !seen[k] {
						return fmt.Sprintf("FAIL reading on after an error: a paragraph has a value for %q which it does not list (%q)", k, p.Order)
					}
				}
			}
		}
		ps, err := readAllParas(data)
		if err != nil {
			return "ok"
		}
		for i, p := range ps {
			seen := map[string]bool{}
			for _, k := range p.Order {
				if seen[k] {
					return fmt.Sprintf("FAIL paragraph %d lists %q twice", i, k)
				}
				seen[k] = true
				if _, ok := p.Values[k]; !ok {
					return fmt.Sprintf("FAIL paragraph %d lists %q without a value", i, k)
				}
			}
			for k := range p.Values {
				if !seen[k] {
					return fmt.Sprintf("FAIL paragraph %d has a value for %q which it does not list", i, k)
				}
			}
			if len(p.Order) == 0 {
				return fmt.Sprintf("FAIL paragraph %d is empty", i)
			}
		}
		return "ok"
	},
	// law: a document ending in a line of a given size is read completely: the last paragraph
	// holds, under `key`, a value with exactly `count` bytes 'x'.  args: text, key, count
	"law-d822tail": func(a []string) string {
		ps, err := readAllParas(core.MustUnHex(a[0]))
		key := core.MustUnHex(a[1])
		want, _ := strconv.Atoi(a[2])
		if err != nil {
			return "FAIL rejected: " + err.Error()
		}
		if len(ps) == 0 {
			return "FAIL no paragraph at all"
		}
		v, ok := ps[len(ps)-1].Values[key]
		if !ok {
			return fmt.Sprintf("FAIL the last paragraph has no field %q (it lists %q)", key, ps[len(ps)-1].Order)
		}
		if got := strings.Count(v, "x"); got != want {
			return fmt.Sprintf("FAIL field %q holds %d of the %d bytes written on its last line", key, got, want)
		}
		return "ok"
	},
	// law: a run of `count` blank lines (or comment-only blocks) between two paragraphs is just a
	// separator, however long: two paragraphs come back.  args: count, kind (0 blank, 1 "#c" blocks)
	"law-d822blank": func(a []string) string {
		n, _ := strconv.Atoi(a[0])
		sep := "\n"
		if a[1] == "1" {
			sep = "#c\n\n"
		}
		doc := "A: b\n" + strings.Repeat(sep, n) + "\nC: d\n"
		ps, err := readAllParas(doc)
		if err != nil || len(ps) != 2 || ps[0].Values["A"] != "b" || ps[1].Values["C"] != "d" {
			return fmt.Sprintf("FAIL two paragraphs separated by %d x %q: %d paragraphs, error %v", n, sep, len(ps), err)
		}
		return "ok"
	},
	// law: read-write-read is the identity on what the reader produced; cycles are stable;
	// no blank line inside a written paragraph
	"law-d822stable": func(a []string) string {
		ps, err := readAllParas(core.MustUnHex(a[0]))
		if err != nil {
			return "ok"
		}
		res := stableLaw(ps, func(s string) string { return s })
		if res != "ok" && stableLaw(ps, dropLeadingEmptyLine) == "ok" {
			// the only thing lost is the empty first line of a value that has further lines
			return "FAIL[leading-empty-line] " + res
		}
		return res
	},
	// law: a paragraph of text-line values reads back with the same logical lines
	"law-d822textrt": func(a []string) string {
		p := argKVPara(a)
		var buf bytes.Buffer
		p.WriteTo(&buf)
		if hasBlankLine(buf.String()) && len(p.Order) > 0 {
			return fmt.Sprintf("FAIL written with a blank line: %q", buf.String())
		}
		qs, err := readAllParas(buf.String())
		if len(p.Order) == 0 {
			return "ok"
		}
		if err != nil || len(qs) != 1 {
			return fmt.Sprintf("FAIL %q reads back as %d paragraphs (%v)", buf.String(), len(qs), err)
		}
		q := qs[0]
		if strings.Join(q.Order, "\x00") != strings.Join(p.Order, "\x00") {
			return fmt.Sprintf("FAIL order %q -> %q", p.Order, q.Order)
		}
		for _, k := range p.Order {
			if strings.Join(valueLines(q.Values[k]), "\n") != strings.Join(valueLines(p.Values[k]), "\n") {
				return fmt.Sprintf("FAIL field %q: lines %q -> %q", k, valueLines(p.Values[k]), valueLines(q.Values[k]))
			}
		}
		return "ok"
	},
}

func deb822Readable(op string, a []string) string {
	switch op {
	case "d822", "d822rw", "law-d822inv", "law-d822stable", "d822spec", "law-d822tail":
		return fmt.Sprintf("%s(%d bytes: %q)", op, len(core.MustUnHex(a[0])), clipMid(core.MustUnHex(a[0]), 300))
	case "d822write", "law-d822textrt":
		p := argKVPara(a)
		return fmt.Sprintf("%s(%s)", op, dumpParaReadable(p))
	}
	return op + " " + strings.Join(a, " ")
}

// clipMid keeps the start and the end of a long text
func clipMid(s string, n int) string {
	if len(s) <= n {
		return s
	}
	return s[:n/2] + fmt.Sprintf("...(%d bytes)...", len(s)-n) + s[len(s)-n/2:]
}

func dumpParaReadable(p control.Paragraph) string {
	var xs []string
	for _, k := range p.Order {
		xs = append(xs, fmt.Sprintf("%q: %q", k, p.Values[k]))
	}
	return "{" + strings.Join(xs, ", ") + "}"
}

// ---- generators -----------------------------------------------------------------------

// field names, some of which differ only in letter case (distinct fields for this reader)
var fieldNames = []string{"Package", "Version", "Description", "Depends", "X-Foo", "a", "Files", "Checksums-Sha256", "Build-Depends", "Z",
	"package", "PACKAGE", "description", "A", "z", "x-foo", "X-FOO", "version"}

func genLineText(r *core.Rand) string {
	if r.Chance(1, 150) {
		// longer than bufio's 4096-byte buffer (and than two of them)
		return strings.Repeat(r.Pick([]string{"pkg-name, ", "x", "ab cd "}), r.Pick2(700, 1500)) + "end"
	}
	switch r.Intn(7) {
	case 0:
		return ""
	case 1:
		return r.Pick([]string{"foo", "1.0-1", "a b c", "x: y", "#not a comment", ".x", "..", "a\tb", "é", "-"})
	case 2:
		// text that is not ASCII: characters whose last byte is 0x85 / 0xA0 (white space as Latin-1, not
		// as UTF-8) at the end of a line, bytes that are not UTF-8 at all (Latin-1 names in old indexes),
		// and a '#' that is not in the first column
		return r.Pick([]string{"citt\u00e0", "\u0421\u0421\u0421\u0420", "\u305d\u3046\u3060", "\u00c5", "x\u2005y\u3000z", "J\xf6rg", "na\xefve \xff", "a\x80", "\xa0x\x85", "\xc3", "x \xe2\x80",
			"#805210).", "# systemctl enable foo", "closes: #1, #2", "-----BEGIN PGP PUBLIC KEY BLOCK-----", "-----BEGIN PGP SIGNED MESSAGE-----"}) + r.Pick([]string{"", "", " tail", "\u00e0"})
	default:
		return strings.TrimRight(r.Str("abc xyz:#.", r.Range(1, 8)), " ")
	}
}

type gField struct {
	Name, First string
	Conts       []string
}

func genDoc(r *core.Rand) [][]gField {
	var doc [][]gField
	for np := r.Range(1, 3); np > 0; np-- {
		var para []gField
		used := map[string]bool{}
		for nf := r.Range(1, 4); nf > 0; nf-- {
			name := r.Pick(fieldNames)
			if r.Chance(1, 12) {
				// a name built around a word the control package itself spells out
				if t := r.LitToken("control", name, ": \t\r\n#,"); t != "" && t[0] != '-' {
					name = t
				}
			}
			if used[name] {
				continue
			}
			used[name] = true
			f := gField{Name: name, First: strings.TrimSpace(genLineText(r))}
			if r.Chance(1, 2) {
				for nc := r.Range(1, 4); nc > 0; nc-- {
					c := genLineText(r)
					if r.Chance(1, 4) {
						c = " " + c // indentation is kept
					}
					c = strings.TrimRight(c, " \t")
					if c == "." {
						c = ".."
					}
					f.Conts = append(f.Conts, c)
				}
			}
			para = append(para, f)
		}
		if len(para) > 0 {
			doc = append(doc, para)
		}
	}
	return doc
}

func encDoc(doc [][]gField) []string {
	args := []string{strconv.Itoa(len(doc))}
	for _, para := range doc {
		args = append(args, strconv.Itoa(len(para)))
		for _, f := range para {
			args = append(args, core.Hex(f.Name), core.Hex(f.First), strconv.Itoa(len(f.Conts)))
			for _, c := range f.Conts {
				args = append(args, core.Hex(c))
			}
		}
	}
	return args
}

func genChoices(r *core.Rand, n int) []string {
	out := []string{strconv.Itoa(n)}
	for i := 0; i < n; i++ {
		out = append(out, strconv.Itoa(r.Intn(12)))
	}
	return out
}

const d822Special = "A:b \t\n\r#.\n\n x"

func genLineSoup(r *core.Rand) string {
	var b strings.Builder
	for n := r.Intn(10); n > 0; n-- {
		switch r.Intn(8) {
		case 0:
			b.WriteString("\n")
		case 1:
			b.WriteString("\r\n")
		case 2:
			b.WriteString("# comment\n")
		case 3:
			if r.Chance(1, 4) {
				// white space beyond blank and tab at the end of a continuation line (and of " .")
				b.WriteString(" " + r.Pick([]string{"text", ".", "", "a b"}) + r.Pick([]string{"\u00a0", "\u0085", "\u2003", "\u2028", "\u3000", "\v", "\f", " \u00a0 ", "\u00a0x"}) + r.Pick([]string{"\n", "\r\n"}))
			} else {
				b.WriteString(" " + genLineText(r) + "\n")
			}
		case 4:
			b.WriteString("\t" + genLineText(r) + r.Pick([]string{"\n", " \n", "\r\n"}))
		case 5:
			b.WriteString(r.Pick(fieldNames[:4]) + ":" + r.Pick([]string{"", " ", "  "}) + genLineText(r) + "\n")
		case 6:
			b.WriteString(" .\n")
		case 7:
			b.WriteString(r.Pick([]string{"no colon here\n", ": empty key\n", "A:\n", " \n", "\t\n", ".\n", "A: 1\nA: 2\n", "\u00a0x: 1\n", "K\u2003: v\u00a0\n",
				"\ufeffSource: x\n", "\ufeff\ufeffA: 1\n", "\u200bB: 2\n", "A: 1\n\ufeffA: 2\n", "\ufeff#c\nA: b\n", "\r#foo: bar\n", "\v#k: v\n", "\u00a0#n: 1\n", "B:\n \rx\n", "B:\n \vy\n z\n", "B:\n \u00a0w\n", "\fC: d\n", "E:\n  \tindented\n", "#: x\n", " #cont\n"}))
		}
	}
	s := b.String()
	if r.Chance(1, 4) {
		s = strings.TrimSuffix(s, "\n")
	}
	return s
}

// boundaryDocs: documents whose LAST physical line has exactly the size at which a reader's
// buffer (4096 bytes and multiples, 64 KiB) fills up, one byte less and one more, as a field
// line or a continuation line, with and without the final newline.  (text, key, number of x)
func boundaryDocs(g *core.G) [][3]string {
	r := g.R
	sizes := []int{4095, 4096, 4097, 8191, 8192, 8193}
	big := []int{12288, 16384, 65535, 65536, 65537, 70001, 131072}
	if g.Thorough {
		sizes = append(sizes, big...)
	} else {
		sizes = append(sizes, big[r.Intn(len(big))], r.Pick2(65536, 65537), r.Pick2(70001, 131072))
	}
	var out [][3]string
	for _, L := range sizes {
		for _, nl := range []string{"", "\n", "\r\n"} {
			for _, cont := range []bool{false, true} {
				for _, withNL := range []bool{false, true} { // does L count the line end?
					key := r.Pick([]string{"Description", "Binary", "Z"})
					prefix := r.Pick([]string{"", "A: b\n\n", "A: b\n", "# comment\n"})
					n := L
					if withNL {
						n -= len(nl)
					}
					var line string
					if cont {
						prefix += key + ": first\n"
						line = " " + strings.Repeat("x", n-1)
					} else {
						line = key + ": " + strings.Repeat("x", n-len(key)-2)
					}
					out = append(out, [3]string{prefix + line + nl, key, strconv.Itoa(strings.Count(line, "x"))})
				}
			}
		}
	}
	// comment lines of the same sizes, in front of a field with a continuation line
	for _, L := range sizes {
		if L > 70001 {
			continue
		}
		c := "#" + strings.Repeat(r.Pick([]string{"-", "x", " ", ": "}), L)[:L-1]
		out = append(out, [3]string{"A: b\n" + c + "\nSection: xxxx\n continued\n", "Section", "4"})
		out = append(out, [3]string{c + "\r\nSection: xxxx\n" + c + "\n continued\n", "Section", "4"})
	}
	return out
}

func streamDeb822read(g *core.G) {
	r := g.R
	for _, n := range []int{1, 2, 1000, 100000, 3000000} {
		g.Emit("law-d822blank", strconv.Itoa(n), "0")
		if n <= 100000 {
			g.Emit("law-d822blank", strconv.Itoa(n), "1")
		}
	}
	for _, d := range boundaryDocs(g) {
		g.Emit("d822", core.Hex(d[0]))
		g.Emit("law-d822tail", core.Hex(d[0]), core.Hex(d[1]), d[2])
	}
	for _, s := range []string{"", "\n", "A: b", "A: b\n", "A: b\n\n\nC: d\n", " orphan\nA: b\n", "A: 1\nA: 2\n", "A:\n x\n .\n y\n", "A: x\r\n y\r\n\r\nB: z\r\n",
		"#c\nA: b\n#c\n c\n", "A\n", ":\n", "A: b\n \n", "A: b\n\t\n"} {
		g.Emit("d822", core.Hex(s))
		g.Emit("law-d822inv", core.Hex(s))
	}
	n := g.N(2500, 120000)
	for i := 0; i < n; i++ {
		doc := genDoc(r)
		args := append(encDoc(doc), genChoices(r, 64)...)
		g.EmitGen(func(out string) []string {
			f := strings.Fields(out)
			if len(f) != 3 || f[2] != "1" {
				return nil // generator produced a document outside WFDoc: skip (counted by the evidence as absent)
			}
			return []string{"d822spec " + f[0] + " " + f[1], "law-d822inv " + f[0]}
		}, "d822gen", args...)
	}
	for i := 0; i < n*3; i++ {
		var s string
		if r.Chance(3, 4) {
			s = genLineSoup(r)
		} else {
			s = r.Str(d822Special, r.Intn(14))
		}
		g.Emit("d822", core.Hex(s))
		g.Emit("law-d822inv", core.Hex(s))
	}
}

func genValueLines(r *core.Rand) string {
	var lines []string
	for n := r.Range(1, 5); n > 0; n-- {
		l := genLineText(r)
		if r.Chance(1, 3) {
			l = ""
		}
		if r.Chance(1, 5) {
			l = "  " + l
		}
		l = strings.TrimRight(l, " \t")
		if l == "." {
			l = "x"
		}
		lines = append(lines, l)
	}
	// the first line sits on the field's own line: it has no leading blank and, when
	// further lines follow, it is not empty (a value whose first line is empty denotes
	// a field with nothing on its own line; what the reader returns for that is pinned
	// separately by the d822rw cases)
	if first := strings.TrimLeft(lines[0], " \t"); first == "" || !r.Chance(1, 4) {
		// (one in four keeps its indentation: such a first line is written on a continuation line
		// of its own and comes back as it was - also when it is the only line and the caller built
		// the value without a trailing newline)
		lines[0] = first
	}
	if lines[0] == "" && len(lines) > 1 {
		lines[0] = "x"
	}
	v := strings.Join(lines, "\n")
	if r.Bool() {
		v += "\n"
	}
	return v
}

func streamDeb822rt(g *core.G) {
	r := g.R
	n := g.N(3000, 150000)
	// lines at and beyond the sizes where buffers fill up (4 KiB, 64 KiB), written and read back
	for _, d := range boundaryDocs(g) {
		g.Emit("d822rw", core.Hex(d[0]))
		g.Emit("law-d822stable", core.Hex(d[0]))
		xs, _ := strconv.Atoi(d[2])
		val := r.Pick([]string{"", "first\n", "first\nsecond line\n"}) + strings.Repeat("x", xs) + r.Pick([]string{"", "\n", "\nlast"})
		args := []string{"2", core.Hex(d[1]), core.Hex(val), core.Hex("Other"), core.Hex("y")}
		g.Emit("d822write", args...)
		g.Emit("law-d822textrt", args...)
	}
	for i := 0; i < n; i++ {
		k := r.Range(1, 4)
		args := []string{}
		used := map[string]bool{}
		cnt := 0
		for j := 0; j < k; j++ {
			name := r.Pick(fieldNames)
			if used[name] {
				continue
			}
			used[name] = true
			args = append(args, core.Hex(name), core.Hex(genValueLines(r)))
			cnt++
		}
		args = append([]string{strconv.Itoa(cnt)}, args...)
		g.Emit("d822write", args...)
		g.Emit("law-d822textrt", args...)
	}
	for i := 0; i < n; i++ {
		var s string
		switch r.Intn(3) {
		case 0:
			s = genLineSoup(r)
		default:
			// a rendered document in a random layout, built locally (layout power is in d822gen)
			doc := genDoc(r)
			var b strings.Builder
			for pi, para := range doc {
				if pi > 0 {
					b.WriteString(strings.Repeat("\n", r.Range(1, 3)))
				}
				for _, f := range para {
					b.WriteString(f.Name + ": " + f.First + "\n")
					for _, c := range f.Conts {
						if c == "" {
							c = "."
						}
						b.WriteString(" " + c + "\n")
					}
				}
			}
			s = b.String()
		}
		g.Emit("d822rw", core.Hex(s))
		g.Emit("law-d822stable", core.Hex(s))
	}
}

func init() {
	tb := append(append([]string{}, leanTB...), "Model/Deb822.lean is a hand transliteration of control/parse.go, tied by differential streams and source fingerprints", "bufio.Reader.ReadString line splitting (modelled in physLines)")
	readFacts := []string{"fingerprint:control.ParagraphReader.Next", "fingerprint:control.ParagraphReader.All", "fingerprint:control.decodeSlice", "fingerprint:control.decode", "fingerprint:control.NewParagraphReader"}
	core.Register(&core.Property{
		ID: "C07", PropsModule: "GoDebian.Props.C07", Facts: readFacts,
		Streams: []core.Stream{{Name: "deb822read", Gen: streamDeb822read,
			Domain: "document models (1-3 paragraphs, 1-4 fields, first line, 0-4 continuation lines incl. empty and indented ones) rendered by the Lean specification Spec.Deb822.render under a random 64-entry choice stream (leading/trailing blank-line runs, comment lines at any line boundary, LF/CRLF per line, space or tab marker, padding after the colon, trailing blanks, final newline or not); expected paragraphs from Spec.Deb822.expectedPara; line soup (random sequences of the line kinds incl. orphans, duplicates, missing colons, Unicode blanks) and raw bytes; three entry points (All, Next loop, decode into a slice) compared with each other and with the model; invariant law on every input; documents whose last line has exactly 4095/4096/4097, 8191-8193 and 64 KiB-range bytes (field or continuation line, LF / CRLF / no final newline): model vs implementation and law-d822tail (the whole line is in the value)"}},
		Impl: deb822Impl, Readable: deb822Readable, TrustedBase: tb,
	})
	core.Register(&core.Property{
		ID: "C08", PropsModule: "GoDebian.Props.C08",
		Facts: append(append([]string{}, readFacts...), "fingerprint:control.Paragraph.WriteTo", "fingerprint:control.Encoder.encodeStruct"),
		Streams: []core.Stream{{Name: "deb822rt", Gen: streamDeb822rt,
			Domain: "paragraphs with values drawn from line sequences (empty lines, runs of empty lines, indented lines, trailing newline present or absent): WriteTo bytes model vs implementation, read back with the same logical lines, no blank line inside a paragraph; documents accepted by the reader (layout renderings and line soup) cycled write/read three times: paragraphs and bytes must not change; values and documents with lines of 4 KiB and 64 KiB boundary sizes written and read back"}},
		Impl: deb822Impl, Readable: deb822Readable, TrustedBase: tb, Classify: deb822Classify,
	})
}

// dropLeadingEmptyLine removes the empty first line of a value that has further lines.
func dropLeadingEmptyLine(v string) string {
	for len(v) > 1 && v[0] == '\n' {
		v = v[1:]
	}
	return v
}

func normParas(ps []control.Paragraph, norm func(string) string) []control.Paragraph {
	var qs []control.Paragraph
	for _, p := range ps {
		q := control.Paragraph{Order: p.Order, Values: map[string]string{}}
		for k, v := range p.Values {
			q.Values[k] = norm(v)
		}
		qs = append(qs, q)
	}
	return qs
}

// stableLaw: no blank line inside a written paragraph; read-write-read is the identity
// (values up to one trailing newline); further cycles change neither paragraphs nor bytes.
// carrier: a struct with nothing but an embedded Paragraph
type carrier struct {
	control.Paragraph
}

func stableLaw(ps []control.Paragraph, norm func(string) string) string {
	ps = normParas(ps, norm)
	for i := range ps {
		var buf bytes.Buffer
		ps[i].WriteTo(&buf)
		if hasBlankLine(buf.String()) {
			return fmt.Sprintf("FAIL paragraph %d is written with a blank line: %q", i, buf.String())
		}
	}
	// the other ways of writing a paragraph - Marshal and an Encoder, given a struct that embeds
	// it and has nothing of its own - write what WriteTo writes
	for i := range ps {
		var direct, viaMarshal, viaEncoder bytes.Buffer
		ps[i].WriteTo(&direct)
		if err := control.Marshal(&viaMarshal, carrier{ps[i]}); err != nil || viaMarshal.String() != direct.String() {
			return fmt.Sprintf("FAIL paragraph %d: WriteTo writes %q, Marshal of a struct embedding it %q (%v)", i, direct.String(), viaMarshal.String(), err)
		}
		if enc, err := control.NewEncoder(&viaEncoder); err == nil {
			if err := enc.Encode(&carrier{ps[i]}); err != nil || viaEncoder.String() != direct.String() {
				return fmt.Sprintf("FAIL paragraph %d: WriteTo writes %q, an Encoder given a struct embedding it %q (%v)", i, direct.String(), viaEncoder.String(), err)
			}
		}
	}
	cur, text := ps, writeParas(ps)
	for cycle := 1; cycle <= 3; cycle++ {
		next, err := readAllParas(text)
		if err != nil {
			return fmt.Sprintf("FAIL cycle %d: own output rejected: %v", cycle, err)
		}
		if dumpParasMod(next) != dumpParasMod(cur) {
			return fmt.Sprintf("FAIL cycle %d: paragraphs change: %s -> %s", cycle, dumpParas(cur), dumpParas(next))
		}
		t := writeParas(next)
		if t != text {
			return fmt.Sprintf("FAIL cycle %d: document changes: %q -> %q", cycle, text, t)
		}
		cur, text = next, t
	}
	return "ok"
}

func deb822Classify(c *core.CaseResult) string {
	if strings.HasPrefix(c.Impl, "FAIL[leading-empty-line]") {
		return "leading-empty-line"
	}
	return ""
}
