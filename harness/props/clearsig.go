package props

import (
	"bufio"
	"bytes"
	"crypto"
	"fmt"
	"io"
	"strings"
	"testing/iotest"

	"golang.org/x/crypto/openpgp"
	"golang.org/x/crypto/openpgp/armor"
	"golang.org/x/crypto/openpgp/clearsign"
	"golang.org/x/crypto/openpgp/packet"

	"pault.ag/go/debian/control"

	"verif/harness/core"
)

func clearSign(e *openpgp.Entity, text string) string {
	var b bytes.Buffer
	w, err := clearsign.Encode(&b, e.PrivateKey, &packet.Config{DefaultHash: crypto.SHA256})
	if err != nil {
		panic(err)
	}
	w.Write([]byte(text))
	w.Close()
	return b.String()
}

// inlineSigned: the text as an armored inline-signed OpenPGP message ("gpg --sign --armor":
// one-pass signature, literal data, signature - not a clearsigned document)
func inlineSigned(e *openpgp.Entity, text, blockType string) string {
	var b bytes.Buffer
	aw, err := armor.Encode(&b, blockType, nil)
	if err != nil {
		return ""
	}
	w, err := openpgp.Sign(aw, e, nil, &packet.Config{DefaultHash: crypto.SHA256})
	if err != nil {
		return ""
	}
	w.Write([]byte(text))
	w.Close()
	aw.Close()
	return b.String() + "\n"
}

// withSignatures replaces the signature armor of a clearsigned document by one armor that
// holds the signature packets of all the given clearsigned documents, in that order
func withSignatures(signed string, from ...string) string {
	var packets []byte
	for _, f := range from {
		if blk, _ := clearsign.Decode([]byte(f)); blk != nil {
			raw, _ := io.ReadAll(blk.ArmoredSignature.Body)
			packets = append(packets, raw...)
		}
	}
	var b bytes.Buffer
	w, _ := armor.Encode(&b, "PGP SIGNATURE", nil)
	w.Write(packets)
	w.Close()
	return signed[:strings.Index(signed, "-----BEGIN PGP SIGNATURE-----")] + b.String() + "\n"
}

// withPackets replaces the signature armor by one holding the given raw packets
func withPackets(signed string, packets []byte) string {
	var b bytes.Buffer
	w, _ := armor.Encode(&b, "PGP SIGNATURE", nil)
	w.Write(packets)
	w.Close()
	return signed[:strings.Index(signed, "-----BEGIN PGP SIGNATURE-----")] + b.String() + "\n"
}

// editedSignature re-serialises the document's signature packet after `edit` changed its body
// (body[0] version, [1] signature type, [2] public-key algorithm, [3] hash algorithm)
func editedSignature(signed string, edit func(body []byte)) []byte {
	blk, _ := clearsign.Decode([]byte(signed))
	if blk == nil {
		return nil
	}
	or := packet.NewOpaqueReader(blk.ArmoredSignature.Body)
	var out bytes.Buffer
	for {
		op, err := or.Next()
		if err != nil {
			break
		}
		if len(op.Contents) > 4 {
			edit(op.Contents)
		}
		op.Serialize(&out)
	}
	return out.Bytes()
}

func hexID(e *openpgp.Entity) string { return core.Hex(fmt.Sprintf("%016x", e.PrimaryKey.KeyId)) }

// external answers for one input: clearsign.Decode and CheckDetachedSignature
func clearsigAnswers(input string, kr openpgp.EntityList, hasKr bool) (string, string) {
	block, _ := clearsign.Decode([]byte(input))
	if block == nil {
		return "N", "N"
	}
	dec := "D" + core.Hex(string(block.Bytes))
	if !hasKr {
		return dec, "N"
	}
	e, err := openpgp.CheckDetachedSignature(kr, bytes.NewReader(block.Bytes), block.ArmoredSignature.Body)
	if err != nil || e == nil {
		return dec, "N"
	}
	return dec, "D" + hexID(e)
}

func readSigned(input string, kr openpgp.EntityList, hasKr bool) string {
	var krp *openpgp.EntityList
	if hasKr {
		krp = &kr
	}
	r, err := control.NewParagraphReader(strings.NewReader(input), krp)
	if err != nil {
		if r != nil {
			return "err+value"
		}
		return "err"
	}
	ps, err := r.All()
	if err != nil {
		return "err"
	}
	signer := "none"
	if s := r.Signer(); s != nil {
		signer = hexID(s)
	}
	// the Decoder entry point reports the same signer
	d, err := control.NewDecoder(strings.NewReader(input), krp)
	if err != nil {
		return "decoder-differs"
	}
	ds := "none"
	if s := d.Signer(); s != nil {
		ds = hexID(s)
	}
	if ds != signer {
		return "decoder-differs"
	}
	return "ok " + dumpParas(ps) + " signer=" + signer
}

var clearsigImpl = map[string]core.Adapter{
	"clearsig": func(a []string) string {
		return readSigned(core.MustUnHex(a[0]), readKeyring(a[2]), a[1] == "kr")
	},
	// law: args input, krmode, keyring, expected paragraphs dump, expected signer id (hex), accept|reject|faithful
	"law-clearsig": func(a []string) string {
		res := readSigned(core.MustUnHex(a[0]), readKeyring(a[2]), a[1] == "kr")
		want := "ok " + a[3] + " signer=" + a[4]
		switch a[5] {
		case "accept":
			if res != want {
				return "FAIL valid document not read faithfully: " + clipStr(res, 200)
			}
			// the same document from a source that fails part-way with something other than io.EOF:
			// an error, not a shortened (and unverifiable) document
			in := core.MustUnHex(a[0])
			for _, cut := range []int{len(in) / 3, len(in) * 3 / 4} {
				var krp *openpgp.EntityList
				kr := readKeyring(a[2])
				if a[1] == "kr" {
					krp = &kr
				}
				r, err := control.NewParagraphReader(io.MultiReader(strings.NewReader(in[:cut]), iotest.ErrReader(errInjected)), krp)
				if err == nil {
					_, err = r.All()
				}
				if err == nil {
					return fmt.Sprintf("FAIL the source failed after %d of %d bytes and the signed document was read without an error", cut, len(in))
				}
			}
		case "reject":
			if res != "err" {
				return "FAIL accepted: " + clipStr(res, 200)
			}
		case "faithful":
			if res != "err" && res != want {
				return "FAIL accepted with different content or signer: " + clipStr(res, 300)
			}
		case "unsigned":
			if strings.HasPrefix(res, "ok") && !strings.HasSuffix(res, "signer=none") {
				return "FAIL signer reported for unsigned input"
			}
		}
		return "ok"
	},
}

func init() {
	// law: the keyring is consulted as it is at the time of the call.  args: a document signed
	// by key A, the same text signed by key B, keyring {A}, keyring {B}
	// law: what a verified reader hands out is the signed text, whatever the caller does afterwards
	// with the *bufio.Reader it passed in (reuse it for the next file, read on from it).
	// args: signed document, an unsigned other document, keyring
	clearsigImpl["law-clearsig-reader"] = func(a []string) string {
		signed, other := core.MustUnHex(a[0]), core.MustUnHex(a[1])
		kr := readKeyring(a[2])
		want, err := func() (string, error) {
			r, err := control.NewParagraphReader(strings.NewReader(signed), &kr)
			if err != nil {
				return "", err
			}
			ps, err := r.All()
			return dumpParas(ps), err
		}()
		if err != nil {
			return "ok"
		}
		// two files walked side by side: after its last paragraph a verified reader is at its end,
		// whatever other readers were opened in between (buffers recycled between readers)
		{
			n := 0
			if r0, err := control.NewParagraphReader(strings.NewReader(signed), &kr); err == nil {
				ps, _ := r0.All()
				n = len(ps)
			}
			for round := 0; round < 40 && n > 0; round++ {
				r1, err := control.NewParagraphReader(strings.NewReader(signed), &kr)
				if err != nil {
					break
				}
				for i := 0; i < n; i++ {
					r1.Next()
				}
				r2, err := control.NewParagraphReader(strings.NewReader(other), nil)
				if err == nil && round%2 == 1 {
					r2.Next()
				}
				if p, err := r1.Next(); err == nil && p != nil && r1.Signer() != nil {
					return fmt.Sprintf("FAIL after its %d paragraphs a verified reader hands out %s once another reader was opened (round %d)", n, clipStr(dumpParas([]control.Paragraph{*p}), 200), round)
				}
			}
		}
		for _, size := range []int{4096, 16, 8192} {
			for _, misuse := range []string{"reset", "read", "discard"} {
				br := bufio.NewReaderSize(strings.NewReader(signed+"\n"+other), size)
				r, err := control.NewParagraphReader(br, &kr)
				if err != nil {
					return fmt.Sprintf("FAIL refused through a %d-byte bufio.Reader: %v", size, err)
				}
				switch misuse {
				case "reset":
					br.Reset(strings.NewReader(other))
				case "read":
					io.ReadAll(br)
				case "discard":
					br.Discard(br.Buffered())
				}
				ps, err := r.All()
				if err != nil {
					continue
				}
				if got := dumpParas(ps); got != want && r.Signer() != nil {
					return fmt.Sprintf("FAIL after the caller's bufio.Reader (%d bytes) was %s, the verified reader hands out %s under a valid signer; the signed text is %s", size, misuse, clipStr(got, 200), clipStr(want, 200))
				}
			}
		}
		return "ok"
	}
	clearsigImpl["law-clearsig-krmut"] = func(a []string) string {
		docA, docB := core.MustUnHex(a[0]), core.MustUnHex(a[1])
		kr := readKeyring(a[2])
		krB := readKeyring(a[3])
		if len(kr) != 1 || len(krB) != 1 {
			return "ok"
		}
		read := func(doc string) string {
			r, err := control.NewParagraphReader(strings.NewReader(doc), &kr)
			if err != nil {
				return "err"
			}
			if _, err := r.All(); err != nil {
				return "err"
			}
			if r.Signer() == nil {
				return "ok none"
			}
			return "ok " + hexID(r.Signer())
		}
		idA, idB := hexID(kr[0]), hexID(krB[0])
		if got := read(docA); got != "ok "+idA {
			return "FAIL a document signed by the keyring's key: " + got
		}
		if got := read(docB); got != "err" {
			return "FAIL a document signed by a key outside the keyring: " + got
		}
		kr[0] = krB[0] // the caller replaces the entry in place
		if got := read(docA); got != "err" {
			return "FAIL after the keyring entry was replaced, a document signed by the removed key is still accepted: " + got
		}
		if got := read(docB); got != "ok "+idB {
			return "FAIL after the keyring entry was replaced, a document signed by the new key: " + got
		}
		kr = kr[:0]
		if got := read(docB); got != "err" {
			return "FAIL with the keyring emptied in place: " + got
		}
		// the same with a large keyring (100 entries), all replaced in place
		kr = kr[:0]
		for i := 0; i < 100; i++ {
			kr = append(kr, krB[0])
		}
		if got := read(docB); got != "ok "+idB {
			return "FAIL a 100-entry keyring holding the signer: " + got
		}
		keyA := readKeyring(a[2])[0]
		for i := range kr {
			kr[i] = keyA
		}
		if got := read(docB); got != "err" {
			return "FAIL after all 100 entries of the keyring were replaced in place, a document signed by the removed key is still accepted: " + got
		}
		if got := read(docA); got != "ok "+idA {
			return "FAIL after all 100 entries of the keyring were replaced in place, a document signed by the new key: " + got
		}
		return "ok"
	}
}

func emitClearsig(g *core.G, input string, kr []*openpgp.Entity, hasKr bool) {
	mode := "nil"
	if hasKr {
		mode = "kr"
	}
	dec, ver := clearsigAnswers(input, openpgp.EntityList(kr), hasKr)
	g.Emit("clearsig", core.Hex(input), mode, core.Hex(serializeKeyring(kr)), dec, ver)
}

func streamClearsig(g *core.G) {
	r := g.R
	ks := testKeys()
	n := g.N(25, 400)
	for i := 0; i < n; i++ {
		// a small deb822 document
		var doc strings.Builder
		for p := r.Range(1, 2); p > 0; p-- {
			for f := r.Range(1, 3); f > 0; f-- {
				val := strings.TrimSpace(genLineText(r)) + "x"
				if r.Chance(1, 4) {
					// bytes a line-ending "normalisation" would turn into structure: bare CR, FF, VT,
					// NEL / LS in UTF-8, trailing blanks
					val += r.Pick([]string{"\rFiles: deadbeef 1 evil.tar.gz\r\rPackage: smuggled", "\r", "a\rb", "\fX: y", "\vX: y", "\u0085X: y", "\u2028X: y", " \t", "\r\r"}) + r.Pick([]string{"", "z"})
				}
				doc.WriteString(r.Pick(fieldNames) + fmt.Sprintf("%d", f) + ": " + val + "\n")
				if r.Chance(1, 3) {
					doc.WriteString(" continued\n - dash line\n")
				}
			}
			if p > 1 {
				doc.WriteString("\n")
			}
		}
		text := doc.String()
		signer := ks[r.Intn(2)]
		signed := clearSign(signer, text)
		origPs, _ := readAllParas(text)
		orig := dumpParas(origPs)
		sid := hexID(signer)
		if r.Chance(1, 3) {
			g.Emit("law-clearsig-reader", core.Hex(signed), core.Hex(r.Pick([]string{"Package: unsigned\nVersion: 6.6.6\n", text + "Extra: unsigned\n", "X: y\n\nZ: w\n"})), core.Hex(serializeKeyring([]*openpgp.Entity{signer})))
		}
		krIn, krBoth, krOut, krEmpty := []*openpgp.Entity{signer}, []*openpgp.Entity{ks[0], ks[1]}, []*openpgp.Entity{ks[2]}, []*openpgp.Entity{}
		law := func(input string, kr []*openpgp.Entity, hasKr bool, signerID, expect string) {
			mode := "nil"
			if hasKr {
				mode = "kr"
			}
			emitClearsig(g, input, kr, hasKr)
			g.Emit("law-clearsig", core.Hex(input), mode, core.Hex(serializeKeyring(kr)), orig, signerID, expect)
		}
		law(signed, krIn, true, sid, "accept")
		law(signed, krBoth, true, sid, "accept")
		law(signed, krOut, true, sid, "reject")
		law(signed, krEmpty, true, sid, "reject")
		law(signed, nil, false, "none", "accept") // nil keyring: unverified pass-through, no signer
		law(text, krIn, true, "none", "unsigned")
		// every kind of single-byte damage, at sampled (quick) or all (thorough) positions
		// every offset for the first documents of a thorough run, ~25 sampled offsets otherwise
		// (the operation lines carry document, keyring and decoded block: memory is the limit)
		step := 1 + len(signed)/25
		if g.Thorough && i < 10 {
			step = 1
		}
		bodyStart := strings.Index(signed, "\n\n") + 2
		sigStart := strings.Index(signed, "-----BEGIN PGP SIGNATURE-----")
		for pos := r.Intn(step); pos < len(signed); pos += step {
			for _, kind := range []int{0, 1, 2, 3} {
				var bad string
				switch kind {
				case 0: // substitution
					c := signed[pos]
					nc := byte('Q')
					if c == 'Q' {
						nc = 'R'
					}
					bad = signed[:pos] + string(nc) + signed[pos+1:]
				case 1: // deletion
					bad = signed[:pos] + signed[pos+1:]
				case 2: // insertion
					bad = signed[:pos] + "Z" + signed[pos:]
				case 3: // truncation
					bad = signed[:pos]
				}
				expect := "faithful"
				if kind == 0 && pos >= bodyStart && pos < sigStart-1 && signed[pos] != '\n' && signed[pos] != ' ' && signed[pos] != '-' {
					expect = "reject" // a changed character of the signed text
				}
				if !strings.HasPrefix(bad, "-----BEGIN PGP ") {
					expect = "unsigned" // no longer a clearsigned document: read as plain text, no signer
				}
				law(bad, krIn, true, sid, expect)
			}
		}
		// splices of foreign text before, inside and after the armor
		foreign := "Injected: evil\n"
		law(foreign+"\n"+signed, krBoth, true, sid, "faithful")
		law(foreign+signed, krBoth, true, sid, "faithful")
		law(signed[:bodyStart]+foreign+signed[bodyStart:], krBoth, true, sid, "reject")
		law(signed[:sigStart]+foreign+signed[sigStart:], krBoth, true, sid, "reject")
		law(signed+"\n"+foreign, krBoth, true, sid, "accept")
		law(signed+foreign, krBoth, true, sid, "accept")
		// a second, complete and validly signed document (same signer, the other key of the keyring,
		// an outsider; another text or the same one replayed) behind the first: still only the
		// first block's text, attributed to the first block's signer
		for _, k2 := range []*openpgp.Entity{signer, ks[0], ks[1], ks[2]} {
			t2 := r.Pick([]string{"Smuggled: yes\n", text, "Package: other\nVersion: 2\n\nPackage: third\n"})
			second := clearSign(k2, t2)
			sep := r.Pick([]string{"", "\n", "\r\n", "\n\n"})
			law(signed+sep+second, krBoth, true, sid, "accept")
			if r.Chance(1, 3) {
				law(signed+sep+second, nil, false, "none", "accept")
				emitClearsig(g, second+sep+signed, krBoth, true)
			}
		}
		// several signature packets in one armor: signatures over other texts (another document,
		// the empty text) by keys of the keyring do not make this text a signed one
		{
			otherDoc := clearSign(signer, "Some: other text\n")
			emptyDoc := clearSign(signer, "")
			empty2 := clearSign(ks[1-r.Intn(2)], "")
			law(withSignatures(signed, otherDoc, emptyDoc), krBoth, true, sid, "reject")
			law(withSignatures(signed, emptyDoc, otherDoc), krBoth, true, sid, "reject")
			law(withSignatures(signed, otherDoc, empty2, emptyDoc), krBoth, true, sid, "reject")
			law(withSignatures(signed, clearSign(ks[2], text), emptyDoc), krBoth, true, sid, "reject")
			law(withSignatures(signed, signed, otherDoc), krBoth, true, sid, "faithful")
			law(withSignatures(signed, otherDoc, signed), krBoth, true, sid, "faithful")
			// signature packets the OpenPGP library cannot read or check (EdDSA / unknown public-key
			// algorithm, unknown hash, future version), alone and in front of a readable one; an armor
			// with no packet at all: none of them makes the text a signed one
			for _, ed := range []func([]byte){func(b []byte) { b[2] = 22 }, func(b []byte) { b[2] = 99 }, func(b []byte) { b[3] = 99 }, func(b []byte) { b[0] = 5 }, func(b []byte) { b[1] = 0x10 }} {
				bad := editedSignature(otherDoc, ed)
				law(withPackets(signed, bad), krBoth, true, sid, "reject")
				law(withPackets(signed, append(append([]byte{}, bad...), editedSignature(emptyDoc, func([]byte) {})...)), krBoth, true, sid, "reject")
				law(withPackets(signed, editedSignature(signed, ed)), krBoth, true, sid, "faithful")
			}
			law(withPackets(signed, nil), krBoth, true, sid, "reject")
			// a keyring variable that is edited in place between reads
			o := ks[0]
			if o == signer {
				o = ks[1]
			}
			g.Emit("law-clearsig-reader", core.Hex(signed), core.Hex("Package: unsigned\nVersion: 6.6.6\n\nPackage: second\n"), core.Hex(serializeKeyring([]*openpgp.Entity{signer})))
			g.Emit("law-clearsig-krmut", core.Hex(signed), core.Hex(clearSign(o, text)), core.Hex(serializeKeyring([]*openpgp.Entity{signer})), core.Hex(serializeKeyring([]*openpgp.Entity{o})))
		}
		// other OpenPGP containers around the same text, made with a key that is not in the keyring:
		// whatever the reader makes of an armored inline-signed message, it does not hand the text
		// out when a keyring was given and the signer is not in it
		for _, bt := range []string{"PGP MESSAGE", "PGP SIGNED MESSAGE", "PGP SIGNATURE"} {
			if in := inlineSigned(ks[2], text, bt); in != "" && r.Chance(1, 2) {
				law(in, krBoth, true, sid, "reject")
				law(in, krEmpty, true, sid, "reject")
			}
		}
		// signature removed / replaced by another document's signature
		law(signed[:sigStart], krBoth, true, sid, "reject")
		other := clearSign(signer, text+"Extra: 1\n")
		osig := other[strings.Index(other, "-----BEGIN PGP SIGNATURE-----"):]
		law(signed[:sigStart]+osig, krBoth, true, sid, "reject")
	}
}

func init() {
	tb := append(append([]string{}, leanTB...), "Model/Clearsign.lean: hand transliteration of NewParagraphReader/decodeClearsig (differentially tested)",
		"golang.org/x/crypto/openpgp clearsign.Decode and CheckDetachedSignature: parameters (their real answers on every input are handed to the model); that a tampered text fails verification is OpenPGP's contract, exercised (every kind of single-byte damage) but not proved")
	core.Register(&core.Property{
		ID: "C11", PropsModule: "GoDebian.Props.C11",
		Facts: []string{"fingerprint:control.NewParagraphReader", "fingerprint:control.ParagraphReader.decodeClearsig", "fingerprint:control.ParagraphReader.Signer", "fingerprint:control.Decoder.Signer", "fingerprint:control.NewDecoder"},
		Streams: []core.Stream{{Name: "clearsig", Gen: streamClearsig,
			Domain: "law-clearsig-reader: the caller's *bufio.Reader (16 / 4096 / 8192 bytes) reset to another file, read to its end or emptied after NewParagraphReader returned - what the verified reader hands out under a signer is the signed text; generated deb822 documents (1-2 paragraphs, continuation and dash-escaped lines) clearsigned with one of two fresh RSA keys x keyrings (signer only, both, other key, empty, nil) and the unsigned text; per signed text substitution, deletion, insertion and truncation at sampled (quick: ~25 positions) or all (thorough) offsets; foreign text spliced before the armor (with and without blank line), inside the signed text, before the signature and after the armor; a second complete signed document (by the same key, the other keyring key or an outsider; other text or a replay) appended behind the first; several signature packets in one armor (over other texts, over the empty text, by keyring keys and outsiders); a keyring edited in place between reads; signature removed; signature of another document; model (with the real Decode / CheckDetachedSignature answers) vs NewParagraphReader+All+Signer and the Decoder entry point; law-clearsig: valid accepted faithfully with the signer's id, outsider/empty keyring rejected, damaged variants either rejected or read as exactly the signed paragraphs, changed text characters rejected, no signer for unsigned input"}},
		Impl: clearsigImpl, TrustedBase: tb,
		Readable: func(op string, a []string) string {
			return fmt.Sprintf("%s(%q, keyring=%s) %v", op, clipStr(core.MustUnHex(a[0]), 300), a[1], a[len(a)-1])
		},
	})
}
