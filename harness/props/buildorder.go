package props

import (
	"bufio"
	"fmt"
	"strconv"
	"strings"

	"pault.ag/go/debian/control"
	"pault.ag/go/debian/dependency"

	"verif/harness/core"
)

func parseDscs(texts []string) ([]control.DSC, bool) {
	var out []control.DSC
	for _, t := range texts {
		d, err := control.ParseDsc(bufio.NewReader(strings.NewReader(t)), "")
		if err != nil {
			return nil, false
		}
		out = append(out, *d)
	}
	return out, true
}

func orderArgs(a []string) (string, []string) {
	arch := core.MustUnHex(a[0])
	n := skipSchema(a[1:])
	ct := &countedTokens{ts: a[1+n:]}
	return arch, ct.list()
}

func runOrder(arch string, texts []string) string {
	dscs, ok := parseDscs(texts)
	if !ok {
		return "err-parse"
	}
	ar, err := dependency.ParseArch(arch)
	if err != nil {
		return "err-arch"
	}
	first := ""
	for i := 0; i < 3; i++ {
		out, err := control.OrderDSCForBuild(dscs, *ar)
		res := "err"
		if err == nil {
			var names []string
			for _, d := range out {
				names = append(names, core.Hex(d.Source))
			}
			res = "ok " + strings.Join(names, " ")
		} else if out != nil {
			res = "err+value"
		}
		if i == 0 {
			first = res
		} else if res != first {
			return "nondeterministic " + first + " / " + res
		}
	}
	// the same sources read from one stream (a Sources-like file into a slice): the same order
	var joined strings.Builder
	for _, t := range texts {
		joined.WriteString(strings.TrimRight(t, "\n") + "\n\n")
	}
	var fromStream []control.DSC
	if err := control.Unmarshal(&fromStream, strings.NewReader(joined.String())); err != nil || len(fromStream) != len(dscs) {
		return fmt.Sprintf("one-stream-route-differs: %d sources one at a time, %d from one stream (%v)", len(dscs), len(fromStream), err)
	}
	out, err := control.OrderDSCForBuild(fromStream, *ar)
	res := "err"
	if err == nil {
		var names []string
		for _, d := range out {
			names = append(names, core.Hex(d.Source))
		}
		res = "ok " + strings.Join(names, " ")
	}
	if res != first {
		return "one-stream-route-differs " + first + " / " + res
	}
	return first
}

var buildOrderImpl = map[string]core.Adapter{
	"order": func(a []string) string {
		arch, texts := orderArgs(a)
		return runOrder(arch, texts)
	},
	// law: the order is a permutation in which every source comes after each source that
	// builds a binary it needs; a cycle gives an error. args: arch, n, texts…, m, edges "i>j" (j needs i), cyclic01
	"law-order": func(a []string) string {
		arch := core.MustUnHex(a[0])
		ct := &countedTokens{ts: a[1:]}
		texts := ct.list()
		rest := a[1+ct.i:]
		m, _ := strconv.Atoi(rest[0])
		edges := rest[1 : 1+m]
		cyclic := rest[1+m] == "1"
		res := runOrder(arch, texts)
		if cyclic {
			if res != "err" {
				return "FAIL cycle not reported: " + res
			}
			return "ok"
		}
		if !strings.HasPrefix(res, "ok") {
			return "FAIL acyclic input rejected: " + res
		}
		pos := map[string]int{}
		for i, h := range strings.Fields(res)[1:] {
			pos[core.MustUnHex(h)] = i
		}
		if len(pos) != len(texts) {
			return fmt.Sprintf("FAIL %d sources in, %d out", len(texts), len(pos))
		}
		for _, e := range edges {
			p := strings.SplitN(e, ">", 2)
			from, to := core.MustUnHex(p[0]), core.MustUnHex(p[1])
			if pos[from] >= pos[to] {
				return fmt.Sprintf("FAIL %s needs a binary of %s but is built at %d, before %d", to, from, pos[to], pos[from])
			}
		}
		return "ok"
	},
}

func streamBuildorder(g *core.G) {
	r := g.R
	n := g.N(250, 12000)
	schema := schemaTokens(codecTypes["DSC"])
	for i := 0; i < n; i++ {
		k := r.Range(1, 12)
		type src struct {
			name string
			bins []string
			deps [3][]string // rendered relations per field
		}
		srcs := make([]src, k)
		binOwner := map[string]int{}
		// names as archives have them: hyphenated, one the prefix / suffix / concatenation of others
		pool := []string{"qt", "creator", "plugins", "qt-creator", "creator-plugins", "qt-creator-plugins", "lib", "lib-qt", "qt-lib", "a", "a-a", "a-a-a"}
		if r.Bool() {
			pool = []string{"net", "cat", "netcat", "catnet", "netcatnet", "catnetcat", "a", "aa", "aaa", "ab", "ba", "aba"}
		}
		hyphen := r.Chance(1, 3)
		if hyphen {
			for j := len(pool) - 1; j > 0; j-- {
				x := r.Intn(j + 1)
				pool[j], pool[x] = pool[x], pool[j]
			}
		}
		for j := range srcs {
			srcs[j].name = fmt.Sprintf("src%d", j)
			if hyphen && j < len(pool) {
				srcs[j].name = pool[j]
			}
			for b := r.Range(1, 4); b > 0; b-- {
				bn := fmt.Sprintf("bin%d-%d", j, b)
				srcs[j].bins = append(srcs[j].bins, bn)
				binOwner[bn] = j
			}
		}
		arch := r.Pick([]string{"amd64", "i386", "armhf", "musl-linux-amd64", "uclibc-linux-armel", "gnu-linux-arm64"})
		cpu := arch[strings.LastIndex(arch, "-")+1:]
		cyclicWanted := r.Chance(1, 4)
		needs := map[[2]int]bool{} // (from, to): to needs from
		for j := range srcs {
			for rel := r.Intn(4); rel > 0; rel-- {
				// alternatives: the first applicable one counts
				var alts []string
				chosen := -1
				for a := r.Range(1, 3); a > 0; a-- {
					t := r.Intn(k)
					if !cyclicWanted && t >= j {
						// keep it acyclic: only depend on earlier sources
						if j == 0 {
							continue
						}
						t = r.Intn(j)
					}
					bn := srcs[t].bins[r.Intn(len(srcs[t].bins))]
					text := bn
					applicable := true
					switch r.Intn(10) {
					case 6: // wildcards: every build architecture here is a Linux one
						text += " [" + r.Pick([]string{"linux-any", "any", "any-" + cpu, "linux-any i386", "any-any-" + cpu}) + "]"
					case 7:
						text += " [" + r.Pick([]string{"!linux-any", "kfreebsd-any", "hurd-any", "any-sparc", "!any", "!any-" + cpu}) + "]"
						applicable = false
					case 0:
						text += " [" + arch + "]"
					case 1:
						text += " [!" + arch + "]"
						applicable = false
					case 2:
						text += " [sparc]"
						applicable = false
					case 3:
						text += " (>= 1.0)"
					case 4:
						text = "${misc:Depends}"
						applicable = false
						t = -1
					case 5:
						text = "external-pkg"
						t = -1
					}
					if t != -1 || text == "external-pkg" {
						// a multiarch qualifier names the architecture whose package satisfies the
						// relation, it does not restrict where the relation applies (:native is what
						// cross-building sources write); build profiles do not restrict it either
						if r.Chance(1, 3) {
							q := r.Pick([]string{":native", ":any", ":" + arch, ":i386", ":armhf", ":mips64el", ":all"})
							if i := strings.IndexAny(text, " "); i >= 0 {
								text = text[:i] + q + text[i:]
							} else {
								text += q
							}
						}
						if r.Chance(1, 6) {
							text += r.Pick([]string{" <!nocheck>", " <cross>", " <!stage1> <!nodoc>"})
						}
					}
					alts = append(alts, text)
					if applicable && chosen == -1 {
						chosen = t
						if t == -1 {
							chosen = -2 // an applicable alternative that no source provides
						}
					}
				}
				if len(alts) == 0 {
					continue
				}
				if chosen >= 0 {
					needs[[2]int{chosen, j}] = true
				}
				f := r.Intn(3)
				srcs[j].deps[f] = append(srcs[j].deps[f], strings.Join(alts, " | "))
			}
		}
		// cycle detection on the oracle graph
		cyc := false
		state := make([]int, k)
		var visit func(v int)
		visit = func(v int) {
			state[v] = 1
			for e := range needs {
				if e[0] == v {
					if state[e[1]] == 1 {
						cyc = true
					} else if state[e[1]] == 0 {
						visit(e[1])
					}
				}
			}
			state[v] = 2
		}
		for v := 0; v < k; v++ {
			if state[v] == 0 {
				visit(v)
			}
		}
		// render in shuffled order so that insertion order does not coincide with a valid order
		perm := make([]int, k)
		for j := range perm {
			perm[j] = j
		}
		for j := k - 1; j > 0; j-- {
			x := r.Intn(j + 1)
			perm[j], perm[x] = perm[x], perm[j]
		}
		var texts []string
		for _, j := range perm {
			s := srcs[j]
			var b strings.Builder
			b.WriteString("Format: 3.0 (quilt)\nSource: " + s.name + "\n")
			if r.Bool() {
				b.WriteString("Binary: " + strings.Join(s.bins, ", ") + "\n")
			} else {
				b.WriteString("Binary: " + strings.Join(s.bins, ",\n ") + "\n")
			}
			b.WriteString("Architecture: any\nVersion: 1.0-1\nMaintainer: A <a@b>\n")
			if r.Chance(1, 3) {
				// Package-List as dpkg-source writes it: one line per binary with its type, section,
				// priority and architectures (arch:all and restricted ones included)
				b.WriteString("Package-List:\n")
				for _, bn := range s.bins {
					b.WriteString(" " + bn + " deb " + r.Pick([]string{"libs", "devel", "doc"}) + " optional arch=" + r.Pick([]string{"any", "all", "linux-any", "amd64,i386", "all", "any-" + cpu, "sparc"}) + r.Pick([]string{"", " profile=!stage1", " essential=yes"}) + "\n")
				}
			}
			for f, name := range []string{"Build-Depends", "Build-Depends-Arch", "Build-Depends-Indep"} {
				if len(s.deps[f]) > 0 {
					if r.Chance(1, 20) {
						// archive-sized field: the relations that matter come after several
						// KiB of others, on one physical line or folded
						var pad []string
						for x := r.Range(250, 700); x > 0; x-- {
							pad = append(pad, r.Pick([]string{"external-pkg", "libext-dev (>= 1:2.0)", "ext:any"}))
						}
						s.deps[f] = append(pad, s.deps[f]...)
					}
					if r.Bool() {
						b.WriteString(name + ": " + strings.Join(s.deps[f], ", ") + "\n")
					} else {
						b.WriteString(name + ":\n " + strings.Join(s.deps[f], ",\n ") + "\n")
					}
				}
			}
			texts = append(texts, b.String())
		}
		args := []string{core.Hex(arch)}
		opArgs := append(append([]string{}, args...), schema...)
		list := []string{strconv.Itoa(len(texts))}
		for _, t := range texts {
			list = append(list, core.Hex(t))
		}
		g.Emit("order", append(opArgs, list...)...)
		law := append(append([]string{}, args...), list...)
		law = append(law, strconv.Itoa(len(needs)))
		for e := range needs {
			law = append(law, core.Hex(srcs[e[0]].name)+">"+core.Hex(srcs[e[1]].name))
		}
		law = append(law, b01(cyc))
		g.Emit("law-order", law...)
	}
}

func init() {
	tb := append(append([]string{}, leanTB...), "Model/BuildOrder.lean: hand transliteration of OrderDSCForBuild and of pault.ag/go/topsort v0.1.1 (sortNodes/sortSingleNodes), differentially tested", "Go map iteration does not influence the result (the library keeps an insertion-order slice): observed by running every case three times")
	core.Register(&core.Property{
		ID: "C19", PropsModule: "GoDebian.Props.C19",
		Facts: []string{"fingerprint:control.OrderDSCForBuild", "fingerprint:control.ParseDsc", "fingerprint:dependency.Dependency.GetPossibilities", "fingerprint:control.decodeStructValueSlice"},
		Streams: []core.Stream{{Name: "buildorder", Gen: streamBuildorder,
			Domain: "random build-dependency graphs over 1-12 sources with 1-4 binaries each (with Package-List fields incl. arch=all and restricted binaries), build architectures incl. non-GNU ABIs (musl-linux-amd64, uclibc-linux-armel), wildcard restrictions (linux-any, any-<cpu>, !linux-any, kfreebsd-any), acyclic (3/4) and possibly cyclic (1/4), relations of 1-3 alternatives with architecture restrictions ([arch], [!arch], [other]), multiarch qualifiers (:native, :any, :<this arch>, :<other arch>), build profiles, version clauses, substvars and packages no source provides, spread over Build-Depends / -Arch / -Indep, source names incl. hyphenated ones that are prefixes / suffixes / concatenations of each other, rendered as multi-binary .dsc text (single-line and folded Binary and dependency fields) in shuffled order and parsed by the real ParseDsc; model vs OrderDSCForBuild (three runs each); law-order: graph-level oracle (permutation, every needed source earlier, cycle <=> error)"}},
		Impl: buildOrderImpl, TrustedBase: tb,
		Readable: func(op string, a []string) string {
			return op + " arch=" + core.MustUnHex(a[0]) + " " + clipStr(strings.Join(a[1:], " "), 160)
		},
	})
}
