package props

import (
	"bufio"
	"bytes"
	"fmt"
	"io"
	"os"
	"path/filepath"
	"reflect"
	"strconv"
	"strings"
	"testing/iotest"

	"pault.ag/go/debian/changelog"
	"pault.ag/go/debian/control"
	"pault.ag/go/debian/deb"
	"pault.ag/go/debian/dependency"

	"verif/harness/core"
)

// ---- Debian field tables: what each typed document kind must expose -------------------
// (written from Policy 5, dsc(5), deb-changes(5), deb-src-control(5) and the apt index
// formats; independent of the struct tags, which is the point)

type shape int

const (
	shScalar shape = iota
	shInt
	shBool
	shVersion
	shArch
	shArchList // blank separated, may be folded
	shDep
	shCommaList // comma separated, trimmed, may be folded
	shSpaceList // blank separated, may be folded
	shHashList  // one "hash size name" per continuation line
	shChangesFiles
	shMultiline // first line + continuation lines, verbatim logical lines
	shVerbatim  // scalar that stays in the struct as a string even if it looks like a list
)

type fieldSpec struct {
	Deb   string // field name in the file
	Go    string // struct field expected to hold it
	Shape shape
	Alg   string
}

var docSpecs = map[string][]fieldSpec{
	"DSC": {
		{"Format", "Format", shScalar, ""}, {"Source", "Source", shScalar, ""}, {"Binary", "Binaries", shCommaList, ""},
		{"Architecture", "Architectures", shArchList, ""}, {"Version", "Version", shVersion, ""}, {"Origin", "Origin", shScalar, ""},
		{"Maintainer", "Maintainer", shScalar, ""}, {"Uploaders", "Uploaders", shCommaList, ""}, {"Homepage", "Homepage", shScalar, ""},
		{"Standards-Version", "StandardsVersion", shScalar, ""}, {"Build-Depends", "BuildDepends", shDep, ""},
		{"Build-Depends-Arch", "BuildDependsArch", shDep, ""}, {"Build-Depends-Indep", "BuildDependsIndep", shDep, ""},
		{"Checksums-Sha1", "ChecksumsSha1", shHashList, "sha1"}, {"Checksums-Sha256", "ChecksumsSha256", shHashList, "sha256"},
		{"Files", "Files", shHashList, "md5"},
	},
	"Changes": {
		{"Format", "Format", shScalar, ""}, {"Source", "Source", shScalar, ""}, {"Binary", "Binaries", shSpaceList, ""},
		{"Architecture", "Architectures", shArchList, ""}, {"Version", "Version", shVersion, ""}, {"Origin", "Origin", shScalar, ""},
		{"Distribution", "Distribution", shScalar, ""}, {"Urgency", "Urgency", shScalar, ""}, {"Maintainer", "Maintainer", shScalar, ""},
		{"Changed-By", "ChangedBy", shScalar, ""}, {"Closes", "Closes", shSpaceList, ""}, {"Changes", "Changes", shMultiline, ""},
		{"Checksums-Sha1", "ChecksumsSha1", shHashList, "sha1"}, {"Checksums-Sha256", "ChecksumsSha256", shHashList, "sha256"},
		{"Files", "Files", shChangesFiles, "md5"},
	},
	"SourceParagraph": {
		{"Source", "Source", shScalar, ""}, {"Maintainer", "Maintainer", shScalar, ""}, {"Uploaders", "Uploaders", shCommaList, ""},
		{"Priority", "Priority", shScalar, ""}, {"Section", "Section", shScalar, ""},
		{"Build-Depends", "BuildDepends", shDep, ""}, {"Build-Depends-Indep", "BuildDependsIndep", shDep, ""},
		{"Build-Conflicts", "BuildConflicts", shDep, ""}, {"Build-Conflicts-Indep", "BuildConflictsIndep", shDep, ""},
	},
	"BinaryParagraph": {
		{"Package", "Package", shScalar, ""}, {"Architecture", "Architectures", shArchList, ""}, {"Priority", "Priority", shScalar, ""},
		{"Section", "Section", shScalar, ""}, {"Essential", "Essential", shBool, ""}, {"Description", "Description", shMultiline, ""},
		{"Depends", "Depends", shDep, ""}, {"Recommends", "Recommends", shDep, ""}, {"Suggests", "Suggests", shDep, ""},
		{"Enhances", "Enhances", shDep, ""}, {"Pre-Depends", "PreDepends", shDep, ""}, {"Breaks", "Breaks", shDep, ""},
		{"Conflicts", "Conflicts", shDep, ""}, {"Replaces", "Replaces", shDep, ""}, {"Built-Using", "BuiltUsing", shDep, ""},
	},
	"BinaryIndex": {
		{"Package", "Package", shScalar, ""}, {"Source", "Source", shScalar, ""}, {"Version", "Version", shVersion, ""},
		{"Installed-Size", "InstalledSize", shInt, ""}, {"Maintainer", "Maintainer", shScalar, ""}, {"Architecture", "Architecture", shArch, ""},
		{"Multi-Arch", "MultiArch", shScalar, ""}, {"Description", "Description", shMultiline, ""}, {"Homepage", "Homepage", shScalar, ""},
		{"Description-md5", "DescriptionMD5", shScalar, ""}, {"Tag", "Tags", shCommaList, ""}, {"Section", "Section", shScalar, ""},
		{"Priority", "Priority", shScalar, ""}, {"Filename", "Filename", shScalar, ""}, {"Size", "Size", shInt, ""},
		{"MD5sum", "MD5sum", shScalar, ""}, {"SHA1", "SHA1", shScalar, ""}, {"SHA256", "SHA256", shScalar, ""},
		{"Build-Ids", "DebugBuildIds", shSpaceList, ""},
	},
	"SourceIndex": {
		{"Package", "Package", shScalar, ""}, {"Binary", "Binaries", shCommaList, ""}, {"Version", "Version", shVersion, ""},
		{"Maintainer", "Maintainer", shScalar, ""}, {"Uploaders", "Uploaders", shVerbatim, ""}, {"Architecture", "Architecture", shArchList, ""},
		{"Standards-Version", "StandardsVersion", shScalar, ""}, {"Format", "Format", shScalar, ""}, {"Files", "Files", shHashList, "md5"},
		{"Vcs-Browser", "VcsBrowser", shScalar, ""}, {"Vcs-Git", "VcsGit", shScalar, ""}, {"Checksums-Sha1", "ChecksumsSha1", shHashList, "sha1"},
		{"Checksums-Sha256", "ChecksumsSha256", shHashList, "sha256"}, {"Homepage", "Homepage", shScalar, ""}, {"Directory", "Directory", shScalar, ""},
		{"Priority", "Priority", shScalar, ""}, {"Section", "Section", shScalar, ""},
	},
	"BestChecksums": {
		{"Checksums-Sha256", "ChecksumsSha256", shHashList, "sha256"}, {"Checksums-Sha512", "ChecksumsSha512", shHashList, "sha512"},
	},
	"DebControl": {
		{"Package", "Package", shScalar, ""}, {"Source", "Source", shScalar, ""}, {"Version", "Version", shVersion, ""},
		{"Architecture", "Architecture", shArch, ""}, {"Maintainer", "Maintainer", shScalar, ""}, {"Installed-Size", "InstalledSize", shInt, ""},
		{"Multi-Arch", "MultiArch", shScalar, ""}, {"Depends", "Depends", shDep, ""}, {"Recommends", "Recommends", shDep, ""},
		{"Suggests", "Suggests", shDep, ""}, {"Breaks", "Breaks", shDep, ""}, {"Replaces", "Replaces", shDep, ""},
		{"Built-Using", "BuiltUsing", shDep, ""}, {"Section", "Section", shScalar, ""}, {"Priority", "Priority", shScalar, ""},
		{"Homepage", "Homepage", shScalar, ""}, {"Description", "Description", shMultiline, ""},
	},
}

// required fields of the .deb control schema
var docRequired = map[string][]string{"DebControl": {"Package", "Version", "Architecture"}}

// archTriple: Debian meaning of an architecture name (independent of ParseArch)
func archTriple(n string) string {
	p := strings.SplitN(n, "-", 3)
	switch len(p) {
	case 1:
		if n == "any" || n == "all" {
			return core.Hex(n) + "." + core.Hex(n) + "." + core.Hex(n)
		}
		return core.Hex("gnu") + "." + core.Hex("linux") + "." + core.Hex(n)
	case 2:
		return core.Hex("any") + "." + core.Hex(p[0]) + "." + core.Hex(p[1])
	}
	return core.Hex(p[0]) + "." + core.Hex(p[1]) + "." + core.Hex(p[2])
}

var people = []string{"Jane Doe <jane@example.org>", "Paul T. <p@x.org>", "Debian QA Group <packages@qa.debian.org>", "A B <a@b>"}
var byHashName = map[string]string{"sha256": "SHA256", "sha512": "SHA512"}

type genField struct {
	Spec   fieldSpec
	Text   string // as written after "Name:" (with continuation lines)
	Expect string // expected dump of the Go field
}

func fold(items []string, sep string, r *core.Rand) string {
	// Debian layout: single line "a, b, c" or folded "a,\n b,\n c"
	if len(items) > 1 && r.Bool() {
		return " " + strings.Join(items, sep+"\n ")
	}
	j := sep + " "
	if sep == " " || sep == "" {
		j = " "
	}
	return " " + strings.Join(items, j)
}

func hexList(items []string) string {
	var xs []string
	for _, i := range items {
		xs = append(xs, core.Hex(i))
	}
	return "[" + strings.Join(xs, ";") + "]"
}

func genDocField(r *core.Rand, s fieldSpec) genField {
	g := genField{Spec: s}
	// archive-sized fields: a Depends with hundreds of relations, a Binary list with hundreds
	// of names: physical lines longer than any reader's internal buffer (4 KiB, 64 KiB)
	big := r.Chance(1, 50)
	count := func(lo, hi int) int {
		if big {
			return r.Range(300, 900)
		}
		return r.Range(lo, hi)
	}
	switch s.Shape {
	case shScalar, shVerbatim:
		v := r.Pick([]string{"foo", "3.0 (quilt)", "optional", "https://example.org/x?y=1", "4.6.2", "Jane Doe <jane@example.org>", "a, b", "unstable", "low", "main/f/foo/foo_1.0.deb", "d41d8cd98f00b204e9800998ecf8427e", "same", "citt\u00e0", "J\xf6rg M\xfcller <j@example.org>", "\u305d\u3046\u3060", "#1"})
		if big {
			v = "https://example.org/" + strings.Repeat(r.Pick([]string{"x", "seg/", "a:b ", "q=1&"}), r.Range(1000, 2500)) + "end"
		}
		g.Text, g.Expect = " "+v, core.Hex(v)
	case shInt:
		n := r.Intn(100000)
		if r.Chance(1, 12) {
			// the ends of the integer types a size may be kept in
			n = []int{0, 1<<31 - 1, 1 << 31, 1<<32 - 1, 1 << 32, 1<<53 + 1, 1 << 62, 1<<63 - 1}[r.Intn(8)]
		}
		g.Text, g.Expect = " "+strconv.Itoa(n), strconv.Itoa(n)
	case shBool:
		b := r.Bool()
		g.Text, g.Expect = " "+map[bool]string{true: "yes", false: "no"}[b], b01(b)
	case shVersion:
		e, u, rv, hr := genWFVersion(r)
		ev := 0
		if e != "" {
			x, _ := strconv.ParseUint(e, 10, 64)
			ev = int(x)
		}
		if !hr {
			rv = ""
		}
		// upstream containing '-' without revision would change the split: keep the model simple
		if !hr {
			u = strings.ReplaceAll(u, "-", "")
		}
		if e == "" {
			u = strings.ReplaceAll(u, ":", "")
		}
		g.Text = " " + renderWF(e, u, rv, hr)
		g.Expect = fmt.Sprintf("V:%d:%s:%s", ev, core.Hex(u), core.Hex(rv))
	case shArch:
		n := r.Pick(archNames)
		g.Text, g.Expect = " "+n, archTriple(n)
	case shArchList:
		var items, exp []string
		for k := count(1, 4); k > 0; k-- {
			n := r.Pick(append(archNames, "source"))
			items = append(items, n)
			exp = append(exp, archTriple(n))
		}
		g.Text, g.Expect = fold(items, "", r), "["+strings.Join(exp, ";")+"]"
	case shDep:
		ast := genDepAST(r)
		if big {
			for k := r.Range(40, 200); k > 0; k-- {
				ast = append(ast, genDepAST(r)...)
			}
		}
		if r.Bool() {
			g.Text = " " + renderDep(r, ast, 1)
		} else {
			// folded as dpkg-source writes it: one relation per continuation line
			var rels []string
			for _, rel := range ast {
				rels = append(rels, renderDep(r, [][]gPoss{rel}, 1))
			}
			g.Text = "\n " + strings.Join(rels, ",\n ")
		}
		g.Expect = astDump(ast)
	case shCommaList:
		var items []string
		for k := count(1, 4); k > 0; k-- {
			if s.Deb == "Uploaders" {
				items = append(items, r.Pick(people))
			} else if s.Deb == "Tag" {
				items = append(items, r.Pick([]string{"role::program", "implemented-in::c", "uitoolkit::gtk", "scope::utility"}))
			} else {
				items = append(items, r.Pick(pkgNames))
			}
		}
		g.Text, g.Expect = fold(items, ",", r), hexList(items)
	case shSpaceList:
		var items []string
		for k := count(1, 5); k > 0; k-- {
			items = append(items, r.Pick([]string{"foo", "libfoo1", "libfoo-dev", "123456", "987", "abcdef0123"}))
		}
		g.Text, g.Expect = fold(items, "", r), hexList(items)
	case shHashList, shChangesFiles:
		var lines, exp []string
		hl := map[string]int{"md5": 32, "sha1": 40, "sha256": 64, "sha512": 128}[s.Alg]
		for k := r.Range(1, 3); k > 0; k-- {
			h := r.Str("0123456789abcdef", hl)
			size := r.Intn(10000000)
			if r.Chance(1, 10) {
				size = []int{0, 1<<31 - 1, 1 << 31, 1<<32 - 1, 1 << 32, 1<<53 + 1, 1 << 62, 1<<63 - 1}[r.Intn(8)]
			}
			name := r.Pick([]string{"foo_1.0-1.dsc", "foo_1.0.orig.tar.gz", "foo_1.0-1.debian.tar.xz", "foo_1.0-1_amd64.deb"})
			if s.Shape == shChangesFiles {
				sec, prio := r.Pick([]string{"utils", "devel", "non-free/libs"}), r.Pick([]string{"optional", "extra"})
				lines = append(lines, fmt.Sprintf(" %s %d %s %s %s", h, size, sec, prio, name))
				exp = append(exp, fmt.Sprintf("H:%s:%s:%d:%s:%s:%s:%s", core.Hex("md5"), core.Hex(h), size, core.Hex(name), core.Hex(""), core.Hex(sec), core.Hex(prio)))
			} else {
				lines = append(lines, fmt.Sprintf(" %s %d %s", h, size, name))
				exp = append(exp, fmt.Sprintf("H:%s:%s:%d:%s:%s:%s:%s", core.Hex(s.Alg), core.Hex(h), size, core.Hex(name), core.Hex(byHashName[s.Alg]), "-", "-"))
			}
		}
		g.Text, g.Expect = "\n"+strings.Join(lines, "\n"), "["+strings.Join(exp, ";")+"]"
	case shMultiline:
		first := r.Pick([]string{"short description", "foo (1.0-1) unstable; urgency=low", ""})
		var conts []string
		for k := r.Intn(4); k > 0; k-- {
			conts = append(conts, r.Pick([]string{" long text", " .", "   * change one", " more",
				// characters whose last byte is 0x85 / 0xA0, bytes that are no UTF-8, a '#' off the first column
				" la citt\u00e0", " \u0421\u0421\u0421\u0420", " \u305d\u3046\u3060", " \u00c5", " J\xf6rg \xa0", "  #debian-devel", " # systemctl enable foo", "     #805210).", " #"}))
		}
		if big {
			conts = append(conts, "   * closes: "+strings.Repeat(r.Pick([]string{"#123456, ", "x"}), r.Range(600, 1500))+"end")
		}
		val := first
		if len(conts) > 0 {
			val = ""
			if first != "" {
				val = first + "\n"
			}
			for _, c := range conts {
				l := c[1:]
				if l == "." {
					l = ""
				}
				val += l + "\n"
			}
			g.Text = " " + first + "\n" + strings.Join(conts, "\n")
			if first == "" {
				g.Text = "\n" + strings.Join(conts, "\n")
			}
		} else {
			g.Text = " " + first
		}
		g.Expect = core.Hex(val)
	}
	return g
}

// genTypedDoc renders one paragraph of the given kind and the expected dump per Go field.
func genTypedDoc(r *core.Rand, kind string) (string, map[string]string) {
	specs := docSpecs[kind]
	var b strings.Builder
	expect := map[string]string{}
	req := map[string]bool{}
	for _, n := range docRequired[kind] {
		req[n] = true
	}
	for i, s := range specs {
		if !req[s.Deb] && r.Chance(1, 4) && !(i == len(specs)-1 && b.Len() == 0) {
			continue
		}
		f := genDocField(r, s)
		b.WriteString(s.Deb + ":" + f.Text + "\n")
		expect[s.Go] = f.Expect
		if r.Chance(1, 10) {
			b.WriteString("X-Custom-" + strconv.Itoa(r.Intn(9)) + ": whatever\n")
		}
		if r.Chance(1, 12) {
			// a real Debian field this document kind has no struct field for, with a value in a
			// syntax dpkg still accepts (obsolete operators, a bare version) or in none at all:
			// an unknown field is carried, never interpreted
			known := map[string]bool{}
			for _, x := range specs {
				known[x.Deb] = true
			}
			var pool []string
			for _, other := range docSpecs {
				for _, x := range other {
					if !known[x.Deb] {
						pool = append(pool, x.Deb)
					}
				}
			}
			pool = append(pool, "Pre-Depends", "Enhances", "Conflicts", "Provides", "Essential", "Bugs", "Origin", "Protected", "Important", "Package-List", "Testsuite", "Dgit", "Vcs-Git", "Rules-Requires-Root")
			name := pool[r.Intn(len(pool))]
			if !known[name] && !strings.Contains(b.String(), "\n"+name+":") && !strings.HasPrefix(b.String(), name+":") {
				b.WriteString(name + ": " + r.Pick([]string{"oldfoo (< 2.0)", "foo (> 1)", "bar (1.0)", "yes!", "1 2 3", "a | | b", "x (= 1) (= 2)", "${unterminated", "né", "0x10"}) + "\n")
			}
		}
	}
	return b.String(), expect
}

func expectedRecordDump(t reflect.Type, expect map[string]string) []string {
	var out []string
	for i := 0; i < t.NumField(); i++ {
		f := t.Field(i)
		if e, ok := expect[f.Name]; ok {
			out = append(out, f.Name+"="+e)
		}
	}
	return out
}

// parseTyped calls the real typed entry point for a kind.
func parseTyped(kind, text string) (reflect.Value, error) {
	return parseTypedFrom(kind, strings.NewReader(text))
}

func parseTypedFrom(kind string, src io.Reader) (reflect.Value, error) {
	rd := bufio.NewReader(src)
	switch kind {
	case "DSC":
		d, err := control.ParseDsc(rd, "")
		if err != nil {
			if d != nil {
				return reflect.Value{}, fmt.Errorf("err+value")
			}
			return reflect.Value{}, err
		}
		return reflect.ValueOf(d).Elem(), nil
	case "Changes":
		c, err := control.ParseChanges(rd, "")
		if err != nil {
			if c != nil {
				return reflect.Value{}, fmt.Errorf("err+value")
			}
			return reflect.Value{}, err
		}
		return reflect.ValueOf(c).Elem(), nil
	}
	v := reflect.New(codecTypes[kind])
	if err := control.Unmarshal(v.Interface(), rd); err != nil {
		return reflect.Value{}, err
	}
	return v.Elem(), nil
}

func init() {
	// doc: same observable as codecu but through the typed entry points
	codecImpl["docu"] = func(a []string) string {
		_, rest := codecArgs(a)
		v, err := parseTyped(a[0], core.MustUnHex(rest[0]))
		if err != nil {
			if err.Error() == "err+value" {
				return "err+value"
			}
			return "err"
		}
		return "ok " + dumpGoRecord(v)
	}
	codecImpl["docus"] = func(a []string) string {
		_, rest := codecArgs(a)
		rd := bufio.NewReader(strings.NewReader(core.MustUnHex(rest[0])))
		var xs []string
		switch a[0] {
		case "BinaryIndex":
			l, err := control.ParseBinaryIndex(rd)
			if err != nil {
				if len(l) != 0 {
					return "err+value"
				}
				return "err"
			}
			for i := range l {
				xs = append(xs, dumpGoRecord(reflect.ValueOf(&l[i]).Elem()))
			}
		case "SourceIndex":
			l, err := control.ParseSourceIndex(rd)
			if err != nil {
				if len(l) != 0 {
					return "err+value"
				}
				return "err"
			}
			for i := range l {
				xs = append(xs, dumpGoRecord(reflect.ValueOf(&l[i]).Elem()))
			}
		}
		return "ok [" + strings.Join(xs, ";") + "]"
	}
	// debian/control: source paragraph, then binaries, from one buffered reader
	codecImpl["docctl"] = func(a []string) string {
		n := skipSchema(a[0:])
		rest := a[n:]
		m := skipSchema(rest)
		text := core.MustUnHex(rest[m])
		c, err := control.ParseControl(bufio.NewReader(strings.NewReader(text)), "")
		if err != nil {
			if c != nil {
				return "err+value"
			}
			return "err"
		}
		var xs []string
		for i := range c.Binaries {
			xs = append(xs, dumpGoRecord(reflect.ValueOf(&c.Binaries[i]).Elem()))
		}
		return "ok " + dumpGoRecord(reflect.ValueOf(&c.Source).Elem()) + " [" + strings.Join(xs, ";") + "]"
	}
	// law: the typed parser returns exactly the document model
	codecImpl["law-doc"] = func(a []string) string {
		kind, text := a[0], core.MustUnHex(a[1])
		v, err := parseTyped(kind, text)
		if err != nil {
			return "FAIL rejected: " + err.Error()
		}
		t := v.Type()
		for _, e := range a[2:] {
			i := strings.IndexByte(e, '=')
			name, want := e[:i], e[i+1:]
			f, _ := t.FieldByName(name)
			got := dumpGoValue(v.FieldByIndex(f.Index))
			if got != want {
				return fmt.Sprintf("FAIL field %s: got %s want %s", name, got, want)
			}
		}
		if kind == "DebControl" {
			// the same control file inside a .deb, the tar members stored in each way deb(5) names
			// (control.tar, control.tar.gz, ...): deb.Load decodes the same fields
			exts := []string{"", ".gz", ".xz", ".bz2", ".zst", ".lzma"}
			for k := 0; k < 2; k++ {
				m := debModel{BinaryText: "2.0\n", ControlText: text, CtlFiles: []tarFile{{Name: "./control", Body: text}},
					DataFiles: []tarFile{{Name: "./", Dir: true}}, CtlExt: exts[(len(text)+k*3)%len(exts)], DataExt: exts[(len(text)/7+k)%len(exts)]}
				if k == 0 {
					m.CtlExt = ""
				}
				d, err := deb.Load(bytes.NewReader(buildAr(m.members())), "x.deb")
				if err != nil {
					return fmt.Sprintf("FAIL a .deb with control.tar%s / data.tar%s around this control file does not load: %v", m.CtlExt, m.DataExt, err)
				}
				for _, e := range a[2:] {
					i := strings.IndexByte(e, '=')
					name, want := e[:i], e[i+1:]
					f, _ := t.FieldByName(name)
					if got := dumpGoValue(reflect.ValueOf(d.Control).FieldByIndex(f.Index)); got != want {
						d.Close()
						return fmt.Sprintf("FAIL loaded from a .deb (control.tar%s), field %s: got %s want %s", m.CtlExt, name, got, want)
					}
				}
				d.Close()
			}
		}
		// a source that fails part-way (an I/O error, a truncated compressed stream - anything but a
		// clean io.EOF): the typed parsers report it instead of returning a shortened document
		for _, cut := range []int{len(text) / 3, len(text) * 2 / 3, len(text) - 1} {
			if cut <= 0 || cut >= len(text) {
				continue
			}
			if _, err := parseTypedFrom(kind, io.MultiReader(strings.NewReader(text[:cut]), iotest.ErrReader(errInjected))); err == nil {
				return fmt.Sprintf("FAIL the source failed after %d of %d bytes (not io.EOF) and the parser returned a document without an error", cut, len(text))
			}
		}
		return "ok"
	}
	// law: accessors agree with the fields
	codecImpl["law-accessors"] = func(a []string) string {
		kind, text := a[0], core.MustUnHex(a[1])
		if len(text)%4 == 0 {
			if v := fileEntryLaw(kind, text); v != "ok" {
				return v
			}
		}
		rd := bufio.NewReader(strings.NewReader(text))
		switch kind {
		case "DSC":
			d, err := control.ParseDsc(rd, "/srv/incoming/foo_1.0.dsc")
			if err != nil {
				return "ok"
			}
			m := d.Maintainers()
			if len(m) != 1+len(d.Uploaders) || m[0] != d.Maintainer || strings.Join(m[1:], "\x00") != strings.Join(d.Uploaders, "\x00") {
				return fmt.Sprintf("FAIL Maintainers() = %q", m)
			}
			all := false
			for _, x := range d.Architectures {
				if x == dependency.All {
					all = true
				}
			}
			if d.HasArchAll() != all {
				return "FAIL HasArchAll"
			}
			abs := d.AbsFiles()
			if len(abs) != len(d.Files) {
				return "FAIL AbsFiles length"
			}
			for i, f := range abs {
				if f.Filename != "/srv/incoming/"+d.Files[i].Filename || f.Hash != d.Files[i].Hash || f.Size != d.Files[i].Size {
					return fmt.Sprintf("FAIL AbsFiles[%d] = %v", i, f)
				}
			}
			ds, err := d.DebianSource()
			want := ""
			for _, f := range d.Files {
				if strings.Contains(f.Filename, ".debian.") {
					want = f.Filename
					break
				}
			}
			if (err == nil) != (want != "") || ds != want {
				return fmt.Sprintf("FAIL DebianSource() = %q, %v", ds, err)
			}
		case "Changes":
			c, err := control.ParseChanges(rd, "/srv/incoming/foo_1.0_amd64.changes")
			if err != nil {
				return "ok"
			}
			abs := c.AbsFiles()
			if len(abs) != len(c.Files) {
				return "FAIL AbsFiles length"
			}
			for i, f := range abs {
				if f.Filename != "/srv/incoming/"+c.Files[i].Filename || f.Component != c.Files[i].Component {
					return fmt.Sprintf("FAIL AbsFiles[%d] = %v", i, f)
				}
			}
		case "BinaryIndex":
			l, err := control.ParseBinaryIndex(rd)
			if err != nil {
				return "ok"
			}
			for _, b := range l {
				want := b.Package
				if b.Source != "" {
					want = strings.SplitN(b.Source, " ", 2)[0]
				}
				if b.SourcePackage() != want {
					return fmt.Sprintf("FAIL SourcePackage() = %q want %q", b.SourcePackage(), want)
				}
				for name, get := range map[string]func() dependency.Dependency{"Depends": b.GetDepends, "Conflicts": b.GetConflicts, "Suggests": b.GetSuggests,
					"Breaks": b.GetBreaks, "Replaces": b.GetReplaces, "Pre-Depends": b.GetPreDepends, "Built-Using": b.GetBuiltUsing} {
					got := get()
					want := "{}"
					if d, err := dependency.Parse(b.Values[name]); err == nil {
						want = dumpDep(d)
					}
					if dumpDep(&got) != want {
						return fmt.Sprintf("FAIL Get(%s) = %s want %s", name, dumpDep(&got), want)
					}
				}
			}
		case "SourceIndex":
			l, err := control.ParseSourceIndex(rd)
			if err != nil {
				return "ok"
			}
			for _, s := range l {
				for name, get := range map[string]func() dependency.Dependency{"Build-Depends": s.GetBuildDepends, "Build-Depends-Arch": s.GetBuildDependsArch, "Build-Depends-Indep": s.GetBuildDependsIndep} {
					got := get()
					want := "{}"
					if d, err := dependency.Parse(s.Values[name]); err == nil {
						want = dumpDep(d)
					}
					if dumpDep(&got) != want {
						return fmt.Sprintf("FAIL Get(%s)", name)
					}
				}
			}
		case "BestChecksums":
			var bc control.BestChecksums
			if err := control.Unmarshal(&bc, rd); err != nil {
				return "ok"
			}
			cs := bc.Checksums()
			var want []control.FileHash
			for _, c := range bc.ChecksumsSha256 {
				want = append(want, c.FileHash)
			}
			if len(want) == 0 {
				for _, c := range bc.ChecksumsSha512 {
					want = append(want, c.FileHash)
				}
			}
			if fmt.Sprint(cs) != fmt.Sprint(want) {
				return fmt.Sprintf("FAIL Checksums() = %v want %v", cs, want)
			}
		case "SourceParagraph":
			var sp control.SourceParagraph
			if err := control.Unmarshal(&sp, rd); err != nil {
				return "ok"
			}
			m := sp.Maintainers()
			if len(m) != 1+len(sp.Uploaders) || m[0] != sp.Maintainer {
				return fmt.Sprintf("FAIL Maintainers() = %q", m)
			}
		}
		return "ok"
	}
}

// application structs that embed a document type anonymously (the documented way to use
// BestChecksums; common for adding one's own fields to an index paragraph)
type embedBest struct {
	Package string
	control.BestChecksums
}
type embedSrc struct {
	control.SourceIndex
	Testsuite string
}
type embedBin struct {
	Note string `control:"X-Note"`
	control.BinaryIndex
}
type embedDSC struct {
	control.DSC
	Extra string `control:"X-Extra"`
}

// fileEntryLaw: the file entry points (ParseDscFile, ParseChangesFile, ParseControlFile,
// Changes.GetDSC) however the path is spelled - absolute, relative to the working directory,
// with redundant components - give a handle whose Filename is the absolute, cleaned path and
// whose AbsFiles() are absolute paths in the control file's directory.
// missingFileLaw: every file entry point on a path that does not exist (and on a directory)
// returns an error and no value; it does not panic
func missingFileLaw() (verdict string) {
	defer func() {
		if r := recover(); r != nil {
			verdict = fmt.Sprintf("FAIL a file entry point panics on a missing file: %v", r)
		}
	}()
	dir, err := os.MkdirTemp("", "verif-missing-")
	if err != nil {
		return "ok"
	}
	defer os.RemoveAll(dir)
	for _, p := range []string{filepath.Join(dir, "no-such-file"), dir, filepath.Join(dir, "a", "b")} {
		if d, err := control.ParseDscFile(p); err == nil || d != nil {
			return fmt.Sprintf("FAIL ParseDscFile(%q): value %v, error %v", p, d != nil, err)
		}
		if c, err := control.ParseChangesFile(p); err == nil || c != nil {
			return fmt.Sprintf("FAIL ParseChangesFile(%q): value %v, error %v", p, c != nil, err)
		}
		if c, err := control.ParseControlFile(p); err == nil || c != nil {
			return fmt.Sprintf("FAIL ParseControlFile(%q): value %v, error %v", p, c != nil, err)
		}
		if es, err := changelog.ParseFile(p); err == nil || len(es) != 0 {
			return fmt.Sprintf("FAIL changelog.ParseFile(%q): %d entries, error %v", p, len(es), err)
		}
		if e, err := changelog.ParseFileOne(p); err == nil || e != nil {
			return fmt.Sprintf("FAIL changelog.ParseFileOne(%q): value %v, error %v", p, e != nil, err)
		}
		if d, _, err := deb.LoadFile(p); err == nil || d != nil {
			return fmt.Sprintf("FAIL deb.LoadFile(%q): value %v, error %v", p, d != nil, err)
		}
	}
	return "ok"
}

func fileEntryLaw(kind, text string) string {
	if kind != "DSC" && kind != "Changes" && kind != "Control" {
		return "ok"
	}
	dir, err := os.MkdirTemp("", "verif-docfile-")
	if err != nil {
		return "ok"
	}
	defer os.RemoveAll(dir)
	if d, err := filepath.EvalSymlinks(dir); err == nil {
		dir = d
	}
	name := map[string]string{"DSC": "foo_1.0.dsc", "Changes": "foo_1.0_amd64.changes", "Control": "control"}[kind]
	abs := filepath.Join(dir, name)
	os.WriteFile(abs, []byte(text), 0o644)
	cwd, err := os.Getwd()
	if err != nil {
		return "ok"
	}
	rel, err := filepath.Rel(cwd, abs)
	if err != nil {
		return "ok"
	}
	spellings := []string{abs, rel, "./" + rel, filepath.Dir(rel) + "/./sub/../" + name, dir + "//" + name}
	os.Mkdir(filepath.Join(dir, "sub"), 0o755)
	// the control file reached through a symbolic link whose target lies elsewhere under another
	// name (a pool / object store): the handle is where the caller said, next to the listed files
	if pool, err := os.MkdirTemp("", "verif-docpool-"); err == nil {
		defer os.RemoveAll(pool)
		obj := filepath.Join(pool, "0001")
		os.WriteFile(obj, []byte(text), 0o644)
		os.Remove(abs)
		if os.Symlink(obj, abs) != nil {
			os.WriteFile(abs, []byte(text), 0o644)
		}
	}
	for _, sp := range spellings {
		switch kind {
		case "DSC":
			d, err := control.ParseDscFile(sp)
			ref, rerr := control.ParseDsc(bufio.NewReader(strings.NewReader(text)), abs)
			if (err == nil) != (rerr == nil) {
				return fmt.Sprintf("FAIL ParseDscFile(%q): %v, ParseDsc on the same text: %v", sp, err, rerr)
			}
			if err != nil {
				continue
			}
			if d.Filename != abs {
				return fmt.Sprintf("FAIL ParseDscFile(%q).Filename = %q, the file is %q", sp, d.Filename, abs)
			}
			if len(d.AbsFiles()) != len(ref.Files) {
				return "FAIL AbsFiles length through ParseDscFile"
			}
			for i, f := range d.AbsFiles() {
				if plainName(ref.Files[i].Filename) && f.Filename != dir+"/"+ref.Files[i].Filename {
					return fmt.Sprintf("FAIL ParseDscFile(%q).AbsFiles()[%d] = %q, want %q", sp, i, f.Filename, dir+"/"+ref.Files[i].Filename)
				}
			}
		case "Changes":
			c, err := control.ParseChangesFile(sp)
			ref, rerr := control.ParseChanges(bufio.NewReader(strings.NewReader(text)), abs)
			if (err == nil) != (rerr == nil) {
				return fmt.Sprintf("FAIL ParseChangesFile(%q): %v, ParseChanges on the same text: %v", sp, err, rerr)
			}
			if err != nil {
				continue
			}
			if c.Filename != abs {
				return fmt.Sprintf("FAIL ParseChangesFile(%q).Filename = %q, the file is %q", sp, c.Filename, abs)
			}
			for i, f := range c.AbsFiles() {
				if plainName(ref.Files[i].Filename) && f.Filename != dir+"/"+ref.Files[i].Filename {
					return fmt.Sprintf("FAIL ParseChangesFile(%q).AbsFiles()[%d] = %q", sp, i, f.Filename)
				}
			}
			// the .dsc it lists, parsed through the handle
			for _, f := range ref.Files {
				if strings.HasSuffix(f.Filename, ".dsc") && plainName(f.Filename) {
					dscText := "Format: 1.0\nSource: foo\nVersion: 1.0\nMaintainer: A <a@b>\nFiles:\n d41d8cd98f00b204e9800998ecf8427e 0 foo_1.0.tar.gz\n"
					os.WriteFile(dir+"/"+f.Filename, []byte(dscText), 0o644)
					for _, h := range []*control.Changes{c, ref} {
						d, err := h.GetDSC()
						if err != nil {
							return fmt.Sprintf("FAIL GetDSC() through %q: %v", sp, err)
						}
						if d.Filename != dir+"/"+f.Filename || len(d.AbsFiles()) != 1 || d.AbsFiles()[0].Filename != dir+"/foo_1.0.tar.gz" {
							return fmt.Sprintf("FAIL GetDSC() through %q: Filename %q AbsFiles %v", sp, d.Filename, d.AbsFiles())
						}
					}
					break
				}
			}
		case "Control":
			c, err := control.ParseControlFile(sp)
			ref, rerr := control.ParseControl(bufio.NewReader(strings.NewReader(text)), abs)
			if (err == nil) != (rerr == nil) {
				return fmt.Sprintf("FAIL ParseControlFile(%q): %v, ParseControl on the same text: %v", sp, err, rerr)
			}
			if err != nil && c != nil {
				return fmt.Sprintf("FAIL ParseControlFile(%q) returns a value together with the error %v", sp, err)
			}
			if err == nil && c.Filename != abs {
				return fmt.Sprintf("FAIL ParseControlFile(%q).Filename = %q, the file is %q", sp, c.Filename, abs)
			}
			if err == nil && (!reflect.DeepEqual(c.Source, ref.Source) || !reflect.DeepEqual(c.Binaries, ref.Binaries)) {
				return fmt.Sprintf("FAIL ParseControlFile(%q) and ParseControl on the same text give different paragraphs", sp)
			}
		}
	}
	return "ok"
}

func init() {
	// law: debian/control through ParseControlFile (every spelling of the path) = ParseControl
	codecImpl["law-ctlfile"] = func(a []string) string {
		if v := missingFileLaw(); v != "ok" {
			return v
		}
		return fileEntryLaw("Control", core.MustUnHex(a[0]))
	}
}

func init() {
	// law: a document type decodes the same on its own and embedded in an application struct
	codecImpl["law-docembed"] = func(a []string) string {
		kind, text := a[0], core.MustUnHex(a[1])
		alone := reflect.New(codecTypes[kind])
		if err := control.Unmarshal(alone.Interface(), strings.NewReader(text)); err != nil {
			return "ok"
		}
		var wrapped reflect.Value
		switch kind {
		case "BestChecksums":
			wrapped = reflect.ValueOf(&embedBest{})
		case "SourceIndex":
			wrapped = reflect.ValueOf(&embedSrc{})
		case "BinaryIndex":
			wrapped = reflect.ValueOf(&embedBin{})
		case "DSC":
			wrapped = reflect.ValueOf(&embedDSC{})
		default:
			return "ok"
		}
		if err := control.Unmarshal(wrapped.Interface(), strings.NewReader(text)); err != nil {
			return "FAIL embedded in an application struct: " + err.Error()
		}
		got, want := dumpGoRecord(wrapped.Elem().FieldByName(kind)), dumpGoRecord(alone.Elem())
		if got != want {
			return fmt.Sprintf("FAIL %s embedded in an application struct decodes to %s, on its own to %s", kind, clipStr(got, 400), clipStr(want, 400))
		}
		return "ok"
	}
}

func streamDocs(g *core.G) {
	r := g.R
	kinds := []string{"DSC", "Changes", "SourceParagraph", "BinaryParagraph", "BinaryIndex", "SourceIndex", "BestChecksums", "DebControl"}
	n := g.N(250, 15000)
	for _, kind := range kinds {
		t := codecTypes[kind]
		for i := 0; i < n; i++ {
			text, expect := genTypedDoc(r, kind)
			o, a := codecOp("docu", kind, core.Hex(text))
			g.Emit(o, a...)
			g.Emit("law-doc", append([]string{kind, core.Hex(text)}, expectedRecordDump(t, expect)...)...)
			g.Emit("law-accessors", kind, core.Hex(text))
			if kind == "BestChecksums" || kind == "SourceIndex" || kind == "BinaryIndex" || kind == "DSC" {
				g.Emit("law-docembed", kind, core.Hex(text))
			}
			if (kind == "BinaryIndex" || kind == "SourceIndex") && i%25 == 0 {
				// a long index (65-600 stanzas) with none, one or two damaged stanzas somewhere: the
				// outcome is that of reading it front to back
				var parts []string
				for k := r.Pick2(r.Range(65, 140), r.Range(500, 600)); k > 0; k-- {
					t, _ := genTypedDoc(r, kind)
					parts = append(parts, t)
				}
				for bad := r.Intn(3); bad > 0; bad-- {
					parts[r.Intn(len(parts))] += r.Pick([]string{"Version: 1 2\n", "no colon here\n", "Size: abc\n", "Installed-Size: x\n"})
				}
				long := strings.Join(parts, "\n")
				o, a := codecOp("docus", kind, core.Hex(long))
				g.Emit(o, a...)
			}
			if kind == "BinaryIndex" || kind == "SourceIndex" {
				t2, _ := genTypedDoc(r, kind)
				multi := text + "\n" + t2
				if r.Chance(1, 4) {
					// a commented-out stanza / a comment-only block between blank lines is no paragraph
					multi = r.Pick([]string{"", "# generated file\n\n"}) + text + "\n# Package: disabled\n# Version: 0\n\n" + t2
				}
				if r.Chance(1, 8) {
					multi += "\nVersion: 1 2\n" // a broken paragraph at the end
				}
				o, a := codecOp("docus", kind, core.Hex(multi))
				g.Emit(o, a...)
				g.Emit("law-accessors", kind, core.Hex(multi))
			}
			if r.Chance(1, 3) {
				// several stanzas through every entry point, also into ONE variable that is decoded
				// into again and again while copies of it are kept (law-codecentry)
				t2, _ := genTypedDoc(r, kind)
				t3, _ := genTypedDoc(r, kind)
				o, a := codecOp("law-codecentry", kind, core.Hex(text+"\n"+t2+"\n"+t3))
				g.Emit(o, a...)
			}
			if r.Chance(1, 4) && len(text) > 0 {
				// single-edit corruption: model = implementation must still agree
				p := r.Intn(len(text))
				bad := text[:p] + string(r.PickByte(" \n:,x-0")) + text[p+1:]
				o, a := codecOp("docu", kind, core.Hex(bad))
				g.Emit(o, a...)
			}
		}
	}
	// debian/control: one source paragraph and 1..3 binary paragraphs from one reader
	for i := 0; i < n; i++ {
		src, _ := genTypedDoc(r, "SourceParagraph")
		text := src
		for k := r.Range(1, 3); k > 0; k-- {
			b, _ := genTypedDoc(r, "BinaryParagraph")
			text += strings.Repeat("\n", r.Range(1, 2)) + b
			if r.Chance(1, 5) {
				text += "\n# Package: commented-out\n# Architecture: all\n"
			}
		}
		if r.Chance(1, 6) {
			text = "# a header comment, then a blank line\n\n" + text
		}
		args := append(schemaTokens(codecTypes["SourceParagraph"]), schemaTokens(codecTypes["BinaryParagraph"])...)
		g.Emit("docctl", append(args, core.Hex(text))...)
		if i%3 == 0 {
			g.Emit("law-ctlfile", core.Hex(text))
			// and a damaged file: both entry points agree on the error
			p := r.Intn(len(text))
			g.Emit("law-ctlfile", core.Hex(text[:p]+r.Pick([]string{"\nno colon here\n", "\n orphan\n\n: x\n", "\nVersion: 1 2\n"})+text[p:]))
		}
	}
}

func docsReadable(op string, a []string) string {
	switch op {
	case "law-doc", "law-accessors", "law-docembed":
		return fmt.Sprintf("%s %s %q", op, a[0], core.MustUnHex(a[1]))
	case "docctl":
		return fmt.Sprintf("ParseControl(%q)", core.MustUnHex(a[len(a)-1]))
	case "docu", "docus":
		_, rest := codecArgs(a)
		return fmt.Sprintf("parse %s %q", a[0], core.MustUnHex(rest[0]))
	}
	return codecReadable(op, a)
}

func init() {
	tb := append(append([]string{}, leanTB...), "Model/Codec.lean schema interpreter + the schemas of the real document types read with reflect at run time", "the Debian field tables in harness/props/docs.go (written from Policy / dsc(5) / deb-changes(5) / apt index formats) are the specification of which field must land where; they are evaluated on the implementation (law-doc), not yet restated in Lean")
	core.Register(&core.Property{
		ID: "C10", PropsModule: "GoDebian.Props.C10", TieModule: "GoDebian.Tie.Docs",
		Facts: []string{"schema:control.DSC", "schema:control.Changes", "schema:control.SourceParagraph", "schema:control.BinaryParagraph",
			"schema:control.BinaryIndex", "schema:control.SourceIndex", "schema:control.BestChecksums", "schema:deb.Control", "fingerprint:control.decodeStruct", "fingerprint:control.decodeStructValue", "fingerprint:control.decodeStructValueSlice",
			"fingerprint:control.FileHash.unmarshalControl", "fingerprint:control.FileListChangesFileHash.UnmarshalControl", "fingerprint:control.ParseControl",
			"fingerprint:control.ParseDsc", "fingerprint:control.ParseChanges", "fingerprint:control.ParseBinaryIndex", "fingerprint:control.ParseSourceIndex",
			"fingerprint:control.DSC.Maintainers", "fingerprint:control.DSC.HasArchAll", "fingerprint:control.DSC.AbsFiles", "fingerprint:control.DSC.DebianSource",
			"fingerprint:control.BinaryIndex.SourcePackage", "fingerprint:control.BestChecksums.Checksums", "fingerprint:control.Paragraph.getOptionalDependencyField"},
		Streams: []core.Stream{{Name: "docs", Gen: streamDocs,
			Domain: "per document kind (.dsc, .changes, debian/control source and binary paragraphs, Packages, Sources, BestChecksums, .deb control): models with every field present/absent, list lengths 1-4, folded vs single-line lists, folded dependency fields, 1-3 checksum/file entries, unknown extra fields, rendered in the real Debian layout; typed entry points (ParseDsc, ParseChanges, ParseControl, ParseBinaryIndex, ParseSourceIndex, Unmarshal) vs the schema-interpreter model on the reflect-derived schema; law-codecentry: several stanzas through Unmarshal into a slice, a Decoder loop with fresh and with one reused variable (kept copies unchanged), UnpackFromParagraph; law-doc: every Debian field lands in the expected struct field with the expected parsed value; law-accessors: Maintainers, HasArchAll, AbsFiles, DebianSource, SourcePackage, Get*Depends, Checksums; the file entry points (ParseDscFile, ParseChangesFile, ParseControlFile, Changes.GetDSC) on absolute, relative and redundant spellings of the path: Filename absolute and cleaned, AbsFiles in the control file's directory; single-edit corruptions (model = implementation)"}},
		Impl: codecImpl, Readable: docsReadable, TrustedBase: tb,
	})
}
