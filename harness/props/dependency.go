package props

import (
	"bytes"
	"fmt"
	"strconv"
	"strings"

	"pault.ag/go/debian/control"
	"pault.ag/go/debian/dependency"
	"pault.ag/go/debian/version"

	"verif/harness/core"
)

// ---- canonical dumps (must match lean/GoDebian/Drv/Dependency.lean) -------------------

func dumpArch(a dependency.Arch) string {
	return core.Hex(a.ABI) + "." + core.Hex(a.OS) + "." + core.Hex(a.CPU)
}
func dumpArchOpt(a *dependency.Arch) string {
	if a == nil {
		return "~"
	}
	return dumpArch(*a)
}
func dumpArchSet(s *dependency.ArchSet) string {
	if s == nil {
		return "~"
	}
	var xs []string
	for _, a := range s.Architectures {
		xs = append(xs, dumpArch(a))
	}
	n := ""
	if s.Not {
		n = "!"
	}
	return n + "[" + strings.Join(xs, "+") + "]"
}
func dumpStageSets(ss []dependency.StageSet) string {
	var sets []string
	for _, s := range ss {
		var xs []string
		for _, st := range s.Stages {
			n := ""
			if st.Not {
				n = "!"
			}
			xs = append(xs, n+core.Hex(st.Name))
		}
		sets = append(sets, "("+strings.Join(xs, "+")+")") // injective: one empty group differs from no group
	}
	return "<" + strings.Join(sets, "/") + ">"
}
func dumpVersionRel(v *dependency.VersionRelation) string {
	if v == nil {
		return "~"
	}
	return core.Hex(v.Operator) + "." + core.Hex(v.Number)
}
func dumpPoss(p dependency.Possibility) string {
	sv := "0"
	if p.Substvar {
		sv = "1"
	}
	return strings.Join([]string{core.Hex(p.Name), dumpArchOpt(p.Arch), dumpArchSet(p.Architectures),
		dumpStageSets(p.StageSets), dumpVersionRel(p.Version), sv}, ":")
}
func dumpPossList(ps []dependency.Possibility) string {
	var xs []string
	for _, p := range ps {
		xs = append(xs, dumpPoss(p))
	}
	return "(" + strings.Join(xs, "|") + ")"
}
func dumpDep(d *dependency.Dependency) string {
	var xs []string
	for _, r := range d.Relations {
		xs = append(xs, dumpPossList(r.Possibilities))
	}
	return "{" + strings.Join(xs, ",") + "}"
}

func parseDepDump(s string) string {
	d, err := dependency.Parse(s)
	if err != nil {
		if d != nil {
			return "err+value"
		}
		return "err"
	}
	return "ok " + dumpDep(d)
}

func argArch(a []string) dependency.Arch {
	return dependency.Arch{ABI: core.MustUnHex(a[0]), OS: core.MustUnHex(a[1]), CPU: core.MustUnHex(a[2])}
}

func b01(b bool) string {
	if b {
		return "1"
	}
	return "0"
}

var depImpl = map[string]core.Adapter{
	"depparse": func(a []string) string { return parseDepDump(core.MustUnHex(a[0])) },
	"deprt": func(a []string) string {
		d, err := dependency.Parse(core.MustUnHex(a[0]))
		if err != nil {
			return "err"
		}
		r := d.String()
		return "ok " + core.Hex(r) + " " + parseDepDump(r)
	},
	// law: rendering reaches a fixpoint in one step, structure preserved
	"law-deprt": func(a []string) string {
		d, err := dependency.Parse(core.MustUnHex(a[0]))
		if err != nil {
			return "ok"
		}
		r := d.String()
		e, err := dependency.Parse(r)
		if err != nil {
			return fmt.Sprintf("FAIL rendering %q is rejected: %v", r, err)
		}
		if dumpDep(d) != dumpDep(e) {
			return fmt.Sprintf("FAIL rendering %q parses to a different structure", r)
		}
		if e.String() != r {
			return fmt.Sprintf("FAIL second rendering %q differs from the first %q", e.String(), r)
		}
		mc, _ := d.MarshalControl()
		var f dependency.Dependency
		if err := f.UnmarshalControl(mc); err != nil || dumpDep(&f) != dumpDep(d) {
			return "FAIL MarshalControl/UnmarshalControl round trip"
		}
		// a receiver that already holds a value (a struct decoded into twice, a loop
		// variable) ends up with exactly what the field denotes
		for _, prior := range []string{"stale-a, stale-b | stale-c [amd64] <x>", "", core.MustUnHex(a[0])} {
			var g dependency.Dependency
			if g.UnmarshalControl(prior) != nil {
				continue
			}
			if err := g.UnmarshalControl(core.MustUnHex(a[0])); err != nil || dumpDep(&g) != dumpDep(d) {
				return fmt.Sprintf("FAIL unmarshalling into a receiver that held %q gives %s, a fresh parse %s", prior, dumpDep(&g), dumpDep(d))
			}
		}
		// a value copied out of a variable (`kept := dep`, `list = append(list, dep)`) stays what it
		// was when the variable is unmarshalled into again, with a shorter, equal or longer field
		for _, next := range []string{"other", "x | y, z", core.MustUnHex(a[0]) + ", tail-1, tail-2", "a, b, c, d, e, f, g, h"} {
			var g dependency.Dependency
			if g.UnmarshalControl(core.MustUnHex(a[0])) != nil {
				break
			}
			kept := g
			before := dumpDep(&kept)
			if g.UnmarshalControl(next) != nil {
				continue
			}
			if now := dumpDep(&kept); now != before {
				return fmt.Sprintf("FAIL the copy kept of a parsed field changed when the variable was unmarshalled into again (%q): %s, was %s", next, now, before)
			}
		}
		return "ok"
	},
	// law: a large well-formed field is accepted with all its relations, and so is its rendering
	"law-depbig": func(a []string) string {
		want, _ := strconv.Atoi(a[1])
		d, err := dependency.Parse(core.MustUnHex(a[0]))
		if err != nil {
			return fmt.Sprintf("FAIL a well-formed field of %d bytes is rejected: %v", len(core.MustUnHex(a[0])), err)
		}
		if len(d.Relations) != want {
			return fmt.Sprintf("FAIL %d relations written, %d parsed", want, len(d.Relations))
		}
		r := d.String()
		e, err := dependency.Parse(r)
		if err != nil {
			return fmt.Sprintf("FAIL the rendering (%d bytes) of an accepted field (%d bytes) is rejected: %v", len(r), len(core.MustUnHex(a[0])), err)
		}
		if len(e.Relations) != want {
			return fmt.Sprintf("FAIL the rendering parses to %d relations, the field to %d", len(e.Relations), want)
		}
		return "ok"
	},
	"archparse": func(a []string) string {
		x, err := dependency.ParseArch(core.MustUnHex(a[0]))
		if err != nil {
			return "err"
		}
		return "ok " + dumpArch(*x)
	},
	"archrt": func(a []string) string {
		x, err := dependency.ParseArch(core.MustUnHex(a[0]))
		if err != nil {
			return "err"
		}
		r := x.String()
		y, err := dependency.ParseArch(r)
		if err != nil {
			return "ok " + dumpArch(*x) + " " + core.Hex(r) + " err"
		}
		// the control-field entry point must agree with ParseArch, whatever it decodes into
		z := dependency.Arch{ABI: "stale", OS: "stale", CPU: "stale"}
		if err := z.UnmarshalControl(r); err != nil || z != *y {
			return "ok " + dumpArch(*x) + " " + core.Hex(r) + " unmarshal-differs"
		}
		return "ok " + dumpArch(*x) + " " + core.Hex(r) + " ok " + dumpArch(*y)
	},
	"law-archrt": func(a []string) string {
		x, err := dependency.ParseArch(core.MustUnHex(a[0]))
		if err != nil {
			return "ok"
		}
		y, err := dependency.ParseArch(x.String())
		if err != nil || *y != *x {
			return fmt.Sprintf("FAIL %v renders %q which parses to %v", *x, x.String(), y)
		}
		// the control-file path (what control.Marshal writes for an Arch field) round-trips too
		mc, err := x.MarshalControl()
		z := dependency.Arch{ABI: "stale", OS: "stale", CPU: "stale"}
		if err != nil || z.UnmarshalControl(mc) != nil || z != *x {
			return fmt.Sprintf("FAIL %v: MarshalControl gives %q (%v), which unmarshals to %v", *x, mc, err, z)
		}
		type holder struct {
			Architecture  dependency.Arch
			Architectures []dependency.Arch `control:"List" delim:" "`
		}
		h := holder{Architecture: *x, Architectures: []dependency.Arch{*x, *x}}
		var buf bytes.Buffer
		var back holder
		plainToken := mc != ""
		for _, c := range []byte(mc) {
			if c <= ' ' || c >= 0x7f {
				plainToken = false // white space inside a name does not survive a control file: not an architecture name
			}
		}
		if !plainToken {
			back = h
		} else if err := control.Marshal(&buf, &h); err != nil {
			return "FAIL control.Marshal: " + err.Error()
		} else if err := control.Unmarshal(&back, strings.NewReader(buf.String())); err != nil || back.Architecture != *x || len(back.Architectures) != 2 || back.Architectures[1] != *x {
			return fmt.Sprintf("FAIL %v written by control.Marshal as %q reads back as %v (%v)", *x, buf.String(), back, err)
		}
		// a result is the caller's own value: changing it changes no other result, no later
		// parse and none of the package's exported values
		anyBefore, allBefore := dependency.Any, dependency.All
		other, _ := dependency.ParseArch(core.MustUnHex(a[0]))
		x.ABI, x.OS, x.CPU = "changed", "changed", "changed"
		again, _ := dependency.ParseArch(core.MustUnHex(a[0]))
		if *other != *y || *again != *y {
			return fmt.Sprintf("FAIL after changing one ParseArch(%q) result in place, another result reads %v and a new parse %v", core.MustUnHex(a[0]), *other, *again)
		}
		if dependency.Any != anyBefore || dependency.All != allBefore {
			dependency.Any, dependency.All = anyBefore, allBefore
			return fmt.Sprintf("FAIL changing a ParseArch(%q) result in place changed dependency.Any / dependency.All", core.MustUnHex(a[0]))
		}
		return "ok"
	},
	"archstr": func(a []string) string { return core.Hex(argArch(a).String()) },
	"archlist": func(a []string) string {
		l, err := dependency.ParseArchitectures(core.MustUnHex(a[0]))
		if err != nil {
			return "err"
		}
		var xs []string
		for _, x := range l {
			xs = append(xs, dumpArch(x))
		}
		return "ok [" + strings.Join(xs, "+") + "]"
	},
	"archis": func(a []string) string {
		x, y := argArch(a[0:3]), argArch(a[3:6])
		return b01(x.Is(&y))
	},
	"archmatch": func(a []string) string {
		n, _ := strconv.Atoi(a[1])
		set := dependency.ArchSet{Not: a[0] == "1", Architectures: []dependency.Arch{}}
		for i := 0; i < n; i++ {
			set.Architectures = append(set.Architectures, argArch(a[2+3*i:5+3*i]))
		}
		o := argArch(a[2+3*n:])
		return b01(set.Matches(&o))
	},
	"possis": func(a []string) string {
		d, err := dependency.Parse(core.MustUnHex(a[0]))
		x, err2 := dependency.ParseArch(core.MustUnHex(a[1]))
		if err != nil || err2 != nil {
			return "err"
		}
		return "ok " + dumpPossList(d.GetPossibilities(*x)) + " all=" + dumpPossList(d.GetAllPossibilities()) + " sv=" + dumpPossList(d.GetSubstvars())
	},
	"satisfied": func(a []string) string {
		vr := dependency.VersionRelation{Operator: core.MustUnHex(a[0]), Number: core.MustUnHex(a[1])}
		return b01(vr.SatisfiedBy(argVersion(a[2:5])))
	},
}

func depReadable(op string, a []string) string {
	switch op {
	case "law-depbig":
		return fmt.Sprintf("law-depbig(%d bytes: %q...)", len(core.MustUnHex(a[0])), clipStr(core.MustUnHex(a[0]), 80))
	case "depparse", "deprt", "law-deprt", "archparse", "archrt", "law-archrt", "archlist":
		return fmt.Sprintf("%s(%q)", op, clipStr(core.MustUnHex(a[0]), 2000))
	case "law-depast":
		return fmt.Sprintf("Parse(%q) must denote %s", core.MustUnHex(a[0]), core.MustUnHex(a[1]))
	case "possis":
		return fmt.Sprintf("GetPossibilities(Parse(%q), ParseArch(%q))", core.MustUnHex(a[0]), core.MustUnHex(a[1]))
	case "satisfied":
		return fmt.Sprintf("VersionRelation{%q %q}.SatisfiedBy(%s)", core.MustUnHex(a[0]), core.MustUnHex(a[1]), showVer(a[2:5]))
	case "archis":
		return fmt.Sprintf("%v.Is(%v)", argArch(a[0:3]), argArch(a[3:6]))
	case "archstr":
		return fmt.Sprintf("Arch%v.String()", argArch(a))
	}
	return op + " " + strings.Join(a, " ")
}

// ---- generators -----------------------------------------------------------------------

type gStage struct {
	Not  bool
	Name string
}
type gPoss struct {
	Substvar bool
	Name     string
	Qual     string // "" = none
	Op, Num  string // Op "" = none
	Archs    []string
	ArchNeg  bool
	Stages   [][]gStage
}

var pkgNames = []string{"foo", "bar", "libc6", "g++", "lib-x.y+z", "a", "python3-all-dev", "x11", "0ad"}
var archNames = []string{"amd64", "i386", "any", "all", "linux-any", "any-amd64", "kfreebsd-amd64", "hurd-i386", "gnu-linux-arm", "musl-linux-arm", "bsd-openbsd-i386", "armhf", "native"}
var profNames = []string{"stage1", "cross", "nocheck", "nodoc", "pkg.foo.bar"}
var depOps = []string{">=", "<=", "<<", ">>", "="}

// wideTok: a token over every printable ASCII byte the grammar does not reserve (the
// dictionaries above only use the bytes real package lists use; '%', '\\', '"', '#', '~', ...
// are legal token bytes too and must come back verbatim)
func wideTok(r *core.Rand, n int, alsoAllowed string) string {
	const reserved = "(),|:[]<>!${}="
	var alpha []byte
	for c := byte(33); c <= 126; c++ {
		if !strings.ContainsRune(reserved, rune(c)) || strings.ContainsRune(alsoAllowed, rune(c)) {
			alpha = append(alpha, c)
		}
	}
	if r.Chance(1, 6) {
		// control bytes other than the four white-space bytes of the grammar are token bytes too
		// (never last: at the end of a control field such a byte is white space to the deb822 layer)
		alpha = append(alpha, 0x0b, 0x0c, 0x1f, 0x7f, 0x01, 0x08)
		return r.Str("abcxyz0123456789", 1) + r.Str(string(alpha), n) + r.Str("abcxyz0123456789", 1)
	}
	return r.Str("abcxyz0123456789", 1) + r.Str(string(alpha), n)
}

func genPoss(r *core.Rand) gPoss {
	if r.Chance(1, 8) {
		return gPoss{Substvar: true, Name: r.Pick([]string{"misc:Depends", "shlibs:Depends", "x", "python3:Depends"})}
	}
	p := gPoss{Name: r.Pick(pkgNames)}
	if r.Chance(1, 10) {
		// Policy: package names start with an alphanumeric (a lone "." on a folded line would
		// be the deb822 marker for an empty line)
		p.Name = r.Str("abcxyz0123456789", 1) + r.Str("abcxyz0123456789+-.", r.Range(1, 11))
	}
	wide := r.Chance(1, 6)
	if wide && r.Bool() {
		p.Name = wideTok(r, r.Intn(8), "")
	}
	// tokens built around the literals of the package's own source (see core.SourceLiterals)
	const depReserved = "(),|:[]<>!${}= \t\r\n"
	lit := func(base string, chance int) string {
		if r.Chance(1, chance) {
			if t := r.LitToken("dependency", base, depReserved); t != "" {
				return t
			}
		}
		return base
	}
	if n := lit(p.Name, 12); n != p.Name && n[0] != '.' && n[0] != '-' {
		p.Name = n
	}
	// tokens of exactly 16*k (+-1) bytes: the sizes at which small fixed buffers fill up
	exact := func(seed string) string {
		n := []int{15, 16, 17, 31, 32, 33, 47, 48, 49, 63, 64, 65, 95, 96, 97, 127, 128, 129, 191, 192, 255, 256, 257, 511, 512, 1023, 1024, 1025}[r.Intn(28)]
		return r.Str("abcxyz0123456789", 1) + r.Str("abcxyz0123456789+-.", n-1)
	}
	if r.Chance(1, 40) {
		p.Name = exact(p.Name)
	}
	if r.Chance(1, 4) {
		p.Qual = r.Pick([]string{"any", "native", "amd64", "all", "armhf", "linux-any"})
		if wide && r.Bool() {
			p.Qual = wideTok(r, r.Intn(6), "")
		}
		p.Qual = lit(p.Qual, 10)
		if r.Chance(1, 60) {
			p.Qual = exact(p.Qual)
		}
	}
	if r.Chance(1, 2) {
		p.Op = r.Pick(depOps)
		_, u, rv, hr := genWFVersion(r)
		p.Num = renderWF(r.Pick([]string{"", "", "1", "0"}), u, rv, hr)
		if wide && r.Bool() {
			p.Num = wideTok(r, r.Intn(8), "(,|:[]<>!${}=")
		}
	}
	if r.Chance(1, 3) {
		n := r.Range(1, 3)
		p.ArchNeg = r.Bool()
		for i := 0; i < n; i++ {
			a := r.Pick(archNames)
			if wide && r.Chance(1, 3) {
				a = wideTok(r, r.Intn(6), "")
			}
			if r.Chance(1, 25) {
				// a full three-part name whose last part starts with an odd byte: the short form of
				// its rendering begins with that byte
				a = r.Pick([]string{"gnu-linux-", "any-linux-", "any-any-", "gnu-kfreebsd-"}) + r.Pick([]string{"\v", "\f", "\x7f", "\x1f", "%", "#", "\\"}) + r.Pick([]string{"amd64", "x", ""})
			}
			a = lit(a, 10)
			p.Archs = append(p.Archs, a)
		}
	}
	groups := r.Intn(3)
	if r.Chance(1, 60) {
		groups = r.Range(9, 20) // more clauses on one name than any small-sort threshold
		if p.Op == "" {
			p.Op, p.Num = ">=", "1.0"
		}
		if len(p.Archs) == 0 && r.Bool() {
			p.Archs = []string{"amd64", "i386"}
		}
	}
	for k := groups; (groups > 3 || r.Chance(1, 3)) && k > 0; k-- {
		var set []gStage
		for i := r.Range(1, 3); i > 0; i-- {
			nm := r.Pick(profNames)
			if wide || r.Chance(1, 8) {
				nm = wideTok(r, r.Intn(8), "")
			}
			nm = lit(nm, 5)
			if groups > 3 {
				nm = fmt.Sprintf("p%d", k) // distinct groups: a permutation shows
			} else if r.Chance(1, 60) {
				nm = exact(nm)
			}
			set = append(set, gStage{Not: r.Bool(), Name: nm})
		}
		p.Stages = append(p.Stages, set)
	}
	return p
}

func genDepAST(r *core.Rand) [][]gPoss {
	var d [][]gPoss
	for i := r.Range(1, 5); i > 0; i-- {
		var rel []gPoss
		for j := r.Range(1, 3); j > 0; j-- {
			if r.Chance(2, 3) {
				j = 1
			}
			rel = append(rel, genPoss(r))
		}
		d = append(d, rel)
	}
	return d
}

// layout: where legal white space goes. kind 0 = minimal, 1 = canonical (String()),
// 2 = random legal white space, 3 = folded field (newline + blank after commas, final newline)
func ws(r *core.Rand, kind int, atLeastOne bool) string {
	switch kind {
	case 0:
		if atLeastOne {
			return " "
		}
		return ""
	case 1:
		return " "
	case 3:
		if atLeastOne {
			return " "
		}
		return ""
	}
	n := r.Intn(3)
	if atLeastOne && n == 0 {
		n = 1
	}
	return r.Str(" \t\n\r  ", n)
}

func renderPoss(r *core.Rand, p gPoss, kind int) string {
	if p.Substvar {
		return "${" + p.Name + "}"
	}
	s := p.Name
	if p.Qual != "" {
		s += ":" + p.Qual
	}
	type clause struct {
		text  string
		paren bool
	}
	var clauses []clause
	if p.Op != "" {
		opws := ws(r, kind, false)
		if kind == 1 {
			opws = " "
		}
		clauses = append(clauses, clause{"(" + ws(r, kind&2, false) + p.Op + opws + p.Num + ws(r, kind&2, false) + ")", true})
	}
	if len(p.Archs) > 0 {
		neg := ""
		if p.ArchNeg {
			neg = "!"
		}
		var xs []string
		for _, a := range p.Archs {
			xs = append(xs, neg+a)
		}
		sep := " "
		if kind == 2 {
			sep = ws(r, 2, true)
		}
		clauses = append(clauses, clause{"[" + ws(r, kind&2, false) + strings.Join(xs, sep) + ws(r, kind&2, false) + "]", false})
	}
	// order: canonical is archs, version, stages; other layouts shuffle version/archs and interleave stage groups
	if kind == 1 && len(clauses) == 2 {
		clauses[0], clauses[1] = clauses[1], clauses[0]
	} else if kind != 1 && len(clauses) == 2 && r.Bool() {
		clauses[0], clauses[1] = clauses[1], clauses[0]
	}
	var stages []clause
	for _, set := range p.Stages {
		var xs []string
		for _, st := range set {
			n := ""
			if st.Not {
				n = "!"
			}
			xs = append(xs, n+st.Name)
		}
		sep := " "
		if kind == 2 {
			sep = ws(r, 2, true)
		}
		stages = append(stages, clause{"<" + ws(r, kind&2, false) + strings.Join(xs, sep) + ws(r, kind&2, false) + ">", false})
	}
	var all []clause
	if kind == 1 {
		all = append(clauses, stages...)
	} else {
		// interleave keeping the relative order of stage groups
		i, j := 0, 0
		for i < len(clauses) || j < len(stages) {
			if j >= len(stages) || (i < len(clauses) && r.Bool()) {
				all = append(all, clauses[i])
				i++
			} else {
				all = append(all, stages[j])
				j++
			}
		}
	}
	for _, c := range all {
		if c.paren && kind == 0 {
			s += c.text
		} else {
			s += ws(r, kind, !c.paren) + c.text
			if kind == 0 && !c.paren {
				// minimal layout still needs the blank before '[' and '<'
			}
		}
	}
	return s
}

func renderDep(r *core.Rand, d [][]gPoss, kind int) string {
	var rels []string
	for _, rel := range d {
		var ps []string
		for _, p := range rel {
			ps = append(ps, renderPoss(r, p, kind))
		}
		bar := "|"
		switch kind {
		case 1, 3:
			bar = " | "
		case 2:
			bar = ws(r, 2, false) + "|" + ws(r, 2, false)
		}
		rels = append(rels, strings.Join(ps, bar))
	}
	comma := ","
	switch kind {
	case 1:
		comma = ", "
	case 2:
		comma = ws(r, 2, false) + "," + ws(r, 2, false)
	case 3:
		comma = ",\n "
	}
	s := strings.Join(rels, comma)
	switch kind {
	case 2:
		s = ws(r, 2, false) + s + ws(r, 2, false)
	case 3:
		s = "\n " + s + "\n"
	}
	return s
}

// expected dump of the AST (what the grammar denotes), for the spec comparison done in Go
// until the Lean renderer takes over (see streamDepspec).
func astDump(d [][]gPoss) string {
	var rels []string
	for _, rel := range d {
		var ps []string
		for _, p := range rel {
			if p.Substvar {
				ps = append(ps, core.Hex(p.Name)+":~:~:<>:~:1")
				continue
			}
			q := "~"
			if p.Qual != "" {
				a, _ := dependency.ParseArch(p.Qual)
				q = dumpArch(*a)
			}
			var as []string
			for _, n := range p.Archs {
				a, _ := dependency.ParseArch(n)
				as = append(as, dumpArch(*a))
			}
			neg := ""
			if p.ArchNeg && len(p.Archs) > 0 {
				neg = "!"
			}
			var sets []string
			for _, set := range p.Stages {
				var xs []string
				for _, st := range set {
					n := ""
					if st.Not {
						n = "!"
					}
					xs = append(xs, n+core.Hex(st.Name))
				}
				sets = append(sets, "("+strings.Join(xs, "+")+")")
			}
			v := "~"
			if p.Op != "" {
				v = core.Hex(p.Op) + "." + core.Hex(p.Num)
			}
			ps = append(ps, strings.Join([]string{core.Hex(p.Name), q, neg + "[" + strings.Join(as, "+") + "]", "<" + strings.Join(sets, "/") + ">", v, "0"}, ":"))
		}
		rels = append(rels, "("+strings.Join(ps, "|")+")")
	}
	return "{" + strings.Join(rels, ",") + "}"
}

const depSpecial = ",|:()[]<>!${} \t\n=><a1-."

func corruptDep(r *core.Rand, s string) string {
	if len(s) == 0 {
		return s
	}
	p := r.Intn(len(s))
	switch r.Intn(6) {
	case 0: // delete a byte (often a closer)
		return s[:p] + s[p+1:]
	case 1: // truncate
		return s[:p]
	case 2: // insert a special byte
		return s[:p] + string(r.PickByte(depSpecial)) + s[p:]
	case 3: // replace
		return s[:p] + string(r.PickByte(depSpecial)) + s[p+1:]
	case 4: // duplicate a clause-ish span
		q := p + r.Intn(len(s)-p)
		return s[:q] + " " + s[p:q] + s[q:]
	default: // insert a high / control byte
		return s[:p] + string([]byte{byte(r.Pick([]string{"\x00", "\x80", "\xc3", "\xff", "\r", "\v"})[0])}) + s[p:]
	}
}

func emitDepText(g *core.G, s string) {
	g.Emit("depparse", core.Hex(s))
	g.Emit("deprt", core.Hex(s))
	g.Emit("law-deprt", core.Hex(s))
}

func streamDepparse(g *core.G) {
	r := g.R
	for _, s := range []string{"", "foo", "foo, bar | baz", "foo:armhf <stage1 !cross> [amd64 i386] (>= 1.2:3.4~5.6-7.8~9.0) <!stage1 cross>",
		"foo,\nbar\n", "foo [ a  b ]", "foo <!!a>", "a, |", "caf\xc3\xa9", "foo <!>", "${misc:Depends}, foo", "foo (== 1)", "foo (>= 1", "foo [a", "foo <a",
		"${x", "foo [a !b]", "foo [!a b]", "foo (>= 1) (<= 2)", "foo [a] [b]", "foo bar", "foo (>= 1 )", "foo(>=1)", "foo:any[amd64]", "(>= 1)", "foo <>", "${foo:Depends} [linux-any], bar", "${x} (>= 1)", "${x} <cross>", "${x}[a]", "${x}:any", "a | ${x} [!amd64] | b",
		"foo [ ]", "$x", "foo\x00bar", "foo (=1)", "foo ( = 1)", "foo (<< 1)", "foo (< 1)", "foo (> 1)", "foo [!]", "foo:", "foo: [a]", "a|b", "a | | b", ",a", "a,,b"} {
		emitDepText(g, s)
	}
	// two different names in one field that collide under a cheap 32-bit hash (FNV, CRC-32,
	// Adler-32): a table keyed by such a hash without comparing the names confuses them
	for _, pr := range core.CollidingPairs(archWords, "-") {
		for _, ast := range [][][]gPoss{
			{{{Name: "foo", Archs: []string{pr[0], pr[1]}}}},
			{{{Name: "foo", Qual: pr[0]}}, {{Name: "bar", Qual: pr[1]}}},
			{{{Name: "foo", Archs: []string{pr[0]}}, {Name: "bar", Archs: []string{pr[1]}, ArchNeg: true}}},
			{{{Name: pr[0]}}, {{Name: pr[1]}, {Name: pr[0], Stages: [][]gStage{{{Name: pr[1]}, {Name: pr[0], Not: true}}}}}},
		} {
			s := renderDep(r, ast, 1)
			emitDepText(g, s)
			g.Emit("law-depast", core.Hex(s), core.Hex(astDump(ast)))
		}
	}
	// large fields, compactly written (the canonical rendering is a fifth longer): accepted with
	// every relation, and the rendering is accepted again (implementation alone: the executable
	// model is quadratic at this size)
	for _, size := range []int{300000, 900000, 1100000, 2200000} {
		var b strings.Builder
		rels := 0
		for b.Len() < size {
			b.WriteString(r.Pick([]string{"liba,", "libb|libc(>=1),", "x[amd64],", "y<cross>,"}))
			rels++
		}
		b.WriteString("end")
		g.Emit("law-depbig", core.Hex(b.String()), strconv.Itoa(rels+1))
	}
	n := g.N(3000, 150000)
	for i := 0; i < n; i++ {
		ast := genDepAST(r)
		kind := r.Intn(4)
		s := renderDep(r, ast, kind)
		emitDepText(g, s)
		// grammar expectation, evaluated on the implementation (law): the field denotes the AST
		g.Emit("law-depast", core.Hex(s), core.Hex(astDump(ast)))
		if r.Chance(1, 2) {
			emitDepText(g, corruptDep(r, s))
		}
		if r.Chance(1, 8) {
			emitDepText(g, r.Str(depSpecial, r.Intn(12)))
		}
		if r.Chance(1, 12) {
			// a substitution variable directly followed by what would restrict a package
			sv := "${" + r.Pick([]string{"misc:Depends", "shlibs:Depends", "x"}) + "}" + r.Pick([]string{"", " ", "\t"}) +
				r.Pick([]string{"[linux-any]", "[!amd64 !i386]", "(>= 1.0)", "<cross>", "<!nocheck> [amd64]", ":any"})
			emitDepText(g, r.Pick([]string{"", "a, ", "a | "})+sv+r.Pick([]string{"", ", bar", " | bar"}))
		}
	}
}

// the words of dpkg's abitable / ostable / cputable (and a few more): architecture-like names
var archWords = []string{"gnu", "musl", "uclibc", "gnueabi", "gnueabihf", "musleabihf", "gnuabi64", "gnuabin32", "gnuspe", "gnux32", "gnulp", "eabi", "eabihf", "bsd", "base",
	"linux", "kfreebsd", "knetbsd", "kopensolaris", "hurd", "darwin", "freebsd", "netbsd", "openbsd", "dragonflybsd", "aix", "solaris", "mint", "nto", "freertos", "interix", "uclinux", "none",
	"amd64", "i386", "arm", "arm64", "armel", "armhf", "armeb", "armv6k", "armv7r", "avr32", "alpha", "hppa", "ia64", "m32r", "m68k", "mips", "mipsel", "mips64", "mips64el", "mipsr6",
	"i486", "i586", "i686", "x86_64", "aarch64", "armv7l", "armv6l", "ppc64le", "mips64r6", "nios2", "or1k", "powerpc", "powerpcspe", "ppc64", "ppc64el", "riscv64", "s390", "s390x", "sh3", "sh4", "sparc", "sparc64", "ultrasparc", "tilegx", "x32", "loong64", "arc", "any"}

func isWord(s string) bool {
	for i := 0; i < len(s); i++ {
		c := s[i]
		if !(c >= 'a' && c <= 'z' || c >= 'A' && c <= 'Z' || c >= '0' && c <= '9') {
			return false
		}
	}
	return len(s) > 0
}

func contains(xs []string, x string) bool {
	for _, y := range xs {
		if x == y {
			return true
		}
	}
	return false
}

func streamArch(g *core.G) {
	r := g.R
	parts := []string{"any", "all", "gnu", "linux", "musl", "kfreebsd", "amd64", "x", ""}
	// every word the package's own source spells out is a candidate keyword: names built from
	// those words (next to the fixed vocabulary) are parsed, rendered and re-parsed too
	for _, l := range core.SourceLiterals("dependency") {
		if isWord(l) && !contains(parts, l) && len(parts) < 14 {
			parts = append(parts, l)
		}
	}
	var names []string
	for _, a := range parts {
		names = append(names, a)
		for _, b := range parts {
			names = append(names, a+"-"+b)
			for _, c := range parts {
				names = append(names, a+"-"+b+"-"+c)
				if g.Thorough {
					for _, d := range parts {
						names = append(names, a+"-"+b+"-"+c+"-"+d)
					}
				}
			}
		}
	}
	for _, n := range names {
		g.Emit("archparse", core.Hex(n))
		g.Emit("archrt", core.Hex(n))
		g.Emit("law-archrt", core.Hex(n))
	}
	// the keywords are lower case: "GNU", "Linux", "Any", "ALL" are ordinary names
	caseOf := func(w string) string {
		switch r.Intn(4) {
		case 0:
			return strings.ToUpper(w)
		case 1:
			return strings.ToUpper(w[:1]) + w[1:]
		case 2:
			return w[:len(w)-1] + strings.ToUpper(w[len(w)-1:])
		}
		return w
	}
	for i := g.N(600, 20000); i > 0; i-- {
		var ps []string
		for k := r.Range(1, 3); k > 0; k-- {
			w := r.Pick(parts[:7])
			if r.Bool() {
				w = caseOf(w)
			}
			ps = append(ps, w)
		}
		n := strings.Join(ps, "-")
		g.Emit("archparse", core.Hex(n))
		g.Emit("archrt", core.Hex(n))
		g.Emit("law-archrt", core.Hex(n))
	}
	for i := g.N(2000, 50000); i > 0; i-- {
		n := r.Str("anyl-gux6\x80 ", r.Intn(10))
		g.Emit("archrt", core.Hex(n))
		g.Emit("law-archrt", core.Hex(n))
		g.Emit("archstr", core.Hex(r.Pick(parts)+r.Str("-a", r.Intn(2))), core.Hex(r.Pick(parts)), core.Hex(r.Pick(parts)+r.Str("-a", r.Intn(2))))
		var xs []string
		for k := r.Intn(4); k > 0; k-- {
			x := r.Pick(archNames)
			if r.Chance(1, 6) {
				// names that begin or end with a byte other than a letter or digit
				c := string("_%~+.:-#*^"[r.Intn(10)])
				x = r.Pick([]string{c + x, x + c, c + x + c})
			}
			xs = append(xs, x)
		}
		g.Emit("archlist", core.Hex(strings.Join(xs, r.Pick([]string{" ", "  ", " \t", "\n ", " "}))+r.Pick([]string{"", "\n", " "})))
	}
}

func streamArchsem(g *core.G) {
	r := g.R
	comps := []string{"any", "all", "a", "b", "c"}
	var archs []dependency.Arch
	for _, x := range comps {
		for _, y := range comps {
			for _, z := range comps {
				archs = append(archs, dependency.Arch{ABI: x, OS: y, CPU: z})
			}
		}
	}
	enc := func(a dependency.Arch) []string { return []string{core.Hex(a.ABI), core.Hex(a.OS), core.Hex(a.CPU)} }
	for _, a := range archs {
		for _, b := range archs {
			g.Emit("archis", append(enc(a), enc(b)...)...)
		}
	}
	// real names: every pair of CPU (and OS, ABI) words of dpkg's tables and of the GNU triplets
	// that resemble them (i386 / i486 / i586 / i686, amd64 / x86_64, arm64 / aarch64): different
	// names are different architectures, whatever they would mean to config.guess
	for _, w1 := range archWords {
		for k := 0; k < 6; k++ {
			w2 := archWords[r.Intn(len(archWords))]
			a := dependency.Arch{ABI: "gnu", OS: "linux", CPU: w1}
			b := dependency.Arch{ABI: r.Pick([]string{"gnu", "any"}), OS: r.Pick([]string{"linux", "any"}), CPU: w2}
			g.Emit("archis", append(enc(a), enc(b)...)...)
			g.Emit("archis", append(enc(b), enc(a)...)...)
			g.Emit("archmatch", append([]string{b01(r.Bool()), "2"}, append(append(enc(b), enc(dependency.Arch{ABI: "gnu", OS: "linux", CPU: "amd64"})...), enc(a)...)...)...)
		}
	}
	for _, pr := range [][2]string{{"i386", "i486"}, {"i386", "i586"}, {"i386", "i686"}, {"i586", "i686"}, {"amd64", "x86_64"}, {"arm64", "aarch64"}, {"armhf", "armv7l"}, {"ppc64el", "ppc64le"}, {"mipsel", "mips"}} {
		for _, abi := range []string{"gnu", "any"} {
			a := dependency.Arch{ABI: "gnu", OS: "linux", CPU: pr[0]}
			b := dependency.Arch{ABI: abi, OS: "linux", CPU: pr[1]}
			g.Emit("archis", append(enc(a), enc(b)...)...)
			g.Emit("archis", append(enc(b), enc(a)...)...)
		}
		g.Emit("possis", core.Hex("foo ["+pr[0]+" sparc] | bar"), core.Hex(pr[1]))
		g.Emit("possis", core.Hex("foo [!"+pr[1]+"] | bar"), core.Hex(pr[0]))
	}
	for i := g.N(4000, 100000); i > 0; i-- {
		n := r.Intn(4)
		args := []string{b01(r.Bool()), strconv.Itoa(n)}
		for k := 0; k < n; k++ {
			args = append(args, enc(archs[r.Intn(len(archs))])...)
		}
		args = append(args, enc(archs[r.Intn(len(archs))])...)
		g.Emit("archmatch", args...)
	}
	for i := g.N(1500, 60000); i > 0; i-- {
		s := renderDep(r, genDepAST(r), r.Intn(4))
		g.Emit("possis", core.Hex(s), core.Hex(r.Pick(archNames)))
	}
	// results of ParseArch are the caller's own values (law-archrt changes one in place)
	for _, n := range archNames {
		g.Emit("law-archrt", core.Hex(n))
	}
	// the same list / the same parsed field asked repeatedly, through one Arch variable
	for i := g.N(800, 30000); i > 0; i-- {
		n := r.Range(1, 3)
		args := []string{b01(r.Bool()), strconv.Itoa(n)}
		for k := 0; k < n; k++ {
			args = append(args, enc(archs[r.Intn(len(archs))])...)
		}
		for k := r.Range(2, 5); k > 0; k-- {
			args = append(args, enc(archs[r.Intn(len(archs))])...)
		}
		g.Emit("law-archreuse", args...)
	}
	for i := g.N(300, 10000); i > 0; i-- {
		args := []string{core.Hex(renderDep(r, genDepAST(r), r.Intn(4)))}
		for k := r.Range(2, 4); k > 0; k-- {
			args = append(args, core.Hex(r.Pick(archNames)))
		}
		g.Emit("law-possreuse", args...)
	}
	for i := g.N(3000, 100000); i > 0; i-- {
		_, u, rv, hr := genWFVersion(r)
		nstr := renderWF(r.Pick([]string{"", "", "1"}), u, rv, hr)
		n, err := version.Parse(nstr)
		v := n
		if err == nil {
			switch r.Intn(4) {
			case 0: // V == N
			case 1:
				v.Version = mutateComponent(r, n.Version, verAlphabet)
			case 2:
				v.Revision = strings.ReplaceAll(mutateComponent(r, n.Revision, verAlphabet), "-", "")
			case 3:
				v.Epoch = uint(r.Intn(3))
			}
		}
		op := r.Pick(depOps)
		if r.Chance(1, 8) {
			op = r.Pick([]string{"", "==", "<", ">", "=>", "!=", ">= ", "~"})
		}
		if r.Chance(1, 10) {
			nstr = r.Pick([]string{"", "a", "1 2", "-1", ":", "1:"})
		}
		g.Emit("satisfied", append([]string{core.Hex(op), core.Hex(nstr)}, encVersion(v)...)...)
	}
}

func init() {
	// law (C06): an answer depends on the list and the architecture asked about, not on
	// what the same objects were asked before
	depImpl["law-archreuse"] = func(a []string) string {
		n, _ := strconv.Atoi(a[1])
		mk := func() *dependency.ArchSet {
			set := &dependency.ArchSet{Not: a[0] == "1", Architectures: []dependency.Arch{}}
			for i := 0; i < n; i++ {
				set.Architectures = append(set.Architectures, argArch(a[2+3*i:5+3*i]))
			}
			return set
		}
		set := mk()
		var o dependency.Arch
		for q := 2 + 3*n; q+3 <= len(a); q += 3 {
			o = argArch(a[q : q+3])
			fresh := argArch(a[q : q+3])
			got, want := set.Matches(&o), mk().Matches(&fresh)
			if got != want {
				return fmt.Sprintf("FAIL %v asked about %v answers %v after earlier questions, %v when asked first", *mk(), fresh, got, want)
			}
		}
		// the list is the caller's data: after an entry is overwritten in place (same slice, same
		// length) or the negation flipped, the same question is answered for the list as it is now
		if n > 0 && len(a) >= 2+3*n+3 {
			q := argArch(a[2+3*n : 5+3*n])
			set.Matches(&q)
			for i := 0; i < n; i++ {
				old := set.Architectures[i]
				for _, repl := range []dependency.Arch{q, {ABI: "gnu", OS: "linux", CPU: "other"}, {ABI: "any", OS: "any", CPU: "any"}} {
					set.Architectures[i] = repl
					fresh := &dependency.ArchSet{Not: set.Not, Architectures: append([]dependency.Arch{}, set.Architectures...)}
					if got, want := set.Matches(&q), fresh.Matches(&q); got != want {
						return fmt.Sprintf("FAIL after entry %d was replaced by %v in place, Matches(%v) still answers %v (a fresh list with the same entries: %v)", i, repl, q, got, want)
					}
				}
				set.Architectures[i] = old
			}
			set.Not = !set.Not
			fresh := &dependency.ArchSet{Not: set.Not, Architectures: append([]dependency.Arch{}, set.Architectures...)}
			if got, want := set.Matches(&q), fresh.Matches(&q); got != want {
				return fmt.Sprintf("FAIL after the negation was flipped in place, Matches(%v) answers %v, a fresh list %v", q, got, want)
			}
		}
		return "ok"
	}
	depImpl["law-possreuse"] = func(a []string) string {
		s := core.MustUnHex(a[0])
		d, err := dependency.Parse(s)
		if err != nil {
			return "ok"
		}
		var x dependency.Arch
		for _, h := range a[1:] {
			y, err := dependency.ParseArch(core.MustUnHex(h))
			if err != nil {
				continue
			}
			x = *y
			e, _ := dependency.Parse(s)
			got, want := dumpPossList(d.GetPossibilities(x)), dumpPossList(e.GetPossibilities(*y))
			if got != want {
				return fmt.Sprintf("FAIL GetPossibilities(%v) on a field queried before gives %s, on a fresh parse %s", *y, got, want)
			}
			// the parsed field is the caller's data: retarget the first architecture list in place
			// (every entry becomes the queried architecture) and ask again
			for i := range d.Relations {
				for j := range d.Relations[i].Possibilities {
					if as := d.Relations[i].Possibilities[j].Architectures; as != nil && len(as.Architectures) > 0 {
						for k := range as.Architectures {
							as.Architectures[k] = x
						}
						f := &dependency.Dependency{}
						for _, rel := range d.Relations {
							nr := dependency.Relation{}
							for _, p := range rel.Possibilities {
								if p.Architectures != nil {
									c := *p.Architectures
									c.Architectures = append([]dependency.Arch{}, c.Architectures...)
									p.Architectures = &c
								}
								nr.Possibilities = append(nr.Possibilities, p)
							}
							f.Relations = append(f.Relations, nr)
						}
						if got, want := dumpPossList(d.GetPossibilities(x)), dumpPossList(f.GetPossibilities(x)); got != want {
							return fmt.Sprintf("FAIL after an architecture list was retargeted in place, GetPossibilities(%v) gives %s, a copy with the same content %s", x, got, want)
						}
						return "ok"
					}
				}
			}
		}
		return "ok"
	}
	depImpl["law-depast"] = func(a []string) string {
		got := parseDepDump(core.MustUnHex(a[0]))
		want := "ok " + core.MustUnHex(a[1])
		if got != want {
			return "FAIL parsed " + got + " but the field denotes " + want
		}
		return "ok"
	}
}

func init() {
	tb := append(append([]string{}, leanTB...), "Model/Dependency.lean is a hand transliteration of parser.go / arch.go / string.go / dependency.go, tied by the differential streams and by source fingerprints (testing, not proof)")
	depFacts := []string{}
	for _, n := range []string{"Parse", "eatWhitespace", "parseDependency", "parseRelation", "parsePossibility", "parseSubstvar", "parseMultiarch",
		"parsePossibilityControllers", "parsePossibilityVersion", "parsePossibilityOperator", "parsePossibilityNumber", "parsePossibilityArchs",
		"parsePossibilityArch", "parsePossibilityStageSet", "parsePossibilityStage", "parseArchInto", "ParseArch"} {
		depFacts = append(depFacts, "fingerprint:dependency."+n)
	}
	depCaseFacts := []string{"dependency.parser:accumulation", "dependency.parsePossibilityOperator:cases"}
	for _, n := range []string{"eatWhitespace", "parseDependency", "parseRelation", "parsePossibility", "parseSubstvar", "parseMultiarch",
		"parsePossibilityControllers", "parsePossibilityNumber", "parsePossibilityArchs", "parsePossibilityArch", "parsePossibilityStageSet", "parsePossibilityStage"} {
		depCaseFacts = append(depCaseFacts, "dependency."+n+":cases")
	}
	strFacts := []string{"fingerprint:dependency.Arch.String", "fingerprint:dependency.ArchSet.String", "fingerprint:dependency.VersionRelation.String",
		"fingerprint:dependency.Stage.String", "fingerprint:dependency.StageSet.String", "fingerprint:dependency.Possibility.String",
		"fingerprint:dependency.Relation.String", "fingerprint:dependency.Dependency.String"}
	core.Register(&core.Property{
		ID: "C04", PropsModule: "GoDebian.Props.C04", TieModule: "GoDebian.Tie.Dependency",
		Facts: append(append([]string{}, depFacts...), depCaseFacts...),
		Streams: []core.Stream{{Name: "depparse", Gen: streamDepparse,
			Domain: "dependency ASTs (1-5 relations, 1-3 alternatives, every subset of qualifier/version/arch list/profile groups, substvars) rendered in four layouts (minimal, canonical, random legal white space incl. tabs/CR/LF, folded field), with the clause order shuffled; single-edit corruptions (deleted closer, truncation, inserted/replaced special byte, duplicated clause, control/high bytes); raw strings over the special bytes; observable: canonical dump of the parsed structure or err; law-depast: the implementation's parse equals the AST that was rendered"}},
		Impl: depImpl, Readable: depReadable, TrustedBase: tb,
	})
	core.Register(&core.Property{
		ID: "C05", PropsModule: "GoDebian.Props.C05", TieModule: "GoDebian.Tie.Dependency",
		Facts: append(append(append([]string{}, depFacts...), strFacts...), depCaseFacts...),
		Streams: []core.Stream{
			{Name: "depparse", Gen: streamDepparse, Domain: "as C04; for every accepted string: rendering, structure after re-parse (model vs implementation) and the fixpoint law on the implementation (law-deprt)"},
			{Name: "arch", Gen: streamArch, Domain: "all architecture names of 1-3 parts (thorough: 1-4) over {any, all, gnu, linux, musl, kfreebsd, amd64, x, \"\"}, random names, String() on arbitrary triples, ParseArchitectures lists; parse/render/re-parse on model and implementation plus the fixpoint law"}},
		Impl: depImpl, Readable: depReadable, TrustedBase: tb,
	})
	core.Register(&core.Property{
		ID: "C06", PropsModule: "GoDebian.Props.C06", TieModule: "GoDebian.Tie.Dependency, GoDebian.Tie.ArchFns",
		Facts: []string{"dependency.Arch.Is:translated", "fingerprint:dependency.Arch.Is", "fingerprint:dependency.Arch.IsWildcard", "fingerprint:dependency.ArchSet.Matches",
			"fingerprint:dependency.Dependency.GetPossibilities", "fingerprint:dependency.Dependency.GetAllPossibilities",
			"fingerprint:dependency.Dependency.GetSubstvars", "fingerprint:dependency.VersionRelation.SatisfiedBy", "dependency.SatisfiedBy:cases", "dependency.SatisfiedBy:returns"},
		Streams: []core.Stream{{Name: "archsem", Gen: streamArchsem,
			Domain: "exhaustive: all 125x125 pairs of (abi, os, cpu) over {any, all, a, b, c} for Is (incl. outside the Debian domain, where only model = implementation is compared); architecture lists of 0-3 entries x negation x architecture; random dependency fields x architectures for GetPossibilities/GetAllPossibilities/GetSubstvars; (op, N, V) with V == N, neighbours of N, unparsable N, unknown operators"}},
		Impl: depImpl, Readable: depReadable, TrustedBase: tb,
	})
}

// encAST encodes a generator AST for the Lean specification's renderer (depgen).
func encAST(d [][]gPoss) []string {
	out := []string{strconv.Itoa(len(d))}
	for _, rel := range d {
		out = append(out, strconv.Itoa(len(rel)))
		for _, p := range rel {
			out = append(out, b01(p.Substvar), core.Hex(p.Name))
			if p.Qual == "" {
				out = append(out, "N")
			} else {
				out = append(out, "Q", core.Hex(p.Qual))
			}
			if p.Op == "" {
				out = append(out, "N")
			} else {
				out = append(out, "V", core.Hex(p.Op), core.Hex(p.Num))
			}
			out = append(out, b01(p.ArchNeg), strconv.Itoa(len(p.Archs)))
			for _, a := range p.Archs {
				out = append(out, core.Hex(a))
			}
			out = append(out, strconv.Itoa(len(p.Stages)))
			for _, g := range p.Stages {
				out = append(out, strconv.Itoa(len(g)))
				for _, s := range g {
					out = append(out, b01(s.Not), core.Hex(s.Name))
				}
			}
		}
	}
	return out
}

// streamDepspec: the Lean specification renders each AST under a random choice stream
// (every legal spacing and clause order); the real parser must return what the AST denotes.
func streamDepspec(g *core.G) {
	r := g.R
	n := g.N(2500, 120000)
	for i := 0; i < n; i++ {
		ast := genDepAST(r)
		args := append(encAST(ast), genChoices(r, 96)...)
		g.EmitGen(func(out string) []string {
			f := strings.Fields(out)
			if len(f) != 3 || f[2] != "1" {
				return nil
			}
			return []string{"depspec " + f[0] + " " + f[1], "law-deprt " + f[0]}
		}, "depgen", args...)
	}
}

func init() {
	depImpl["depspec"] = depImpl["depparse"]
	p := core.Lookup("C04")
	p.Streams = append(p.Streams, core.Stream{Name: "depspec", Gen: streamDepspec,
		Domain: "dependency ASTs rendered by the Lean specification Spec.Dependency.render under a random 96-entry choice stream (white space from {none, blank, tab, LF+blank, two blanks, CRLF+tab, LF} in every legal slot, version / architecture clauses in either order interleaved with the profile groups); expected structure = Spec.Dependency.denote; the real parser's result must equal it"})
}

func init() {
	// law: results of separate parses are independent values: changing one in place (as a
	// caller resolving qualifiers does) neither alters another part of the same result nor
	// what a later parse of the same text returns
	depImpl["law-depindep"] = func(a []string) string {
		s := core.MustUnHex(a[0])
		d1, err := dependency.Parse(s)
		if err != nil {
			return "ok"
		}
		before := dumpDep(d1)
		// change the first qualifier / first arch-list entry / first version in place
		touched := false
		for i := range d1.Relations {
			for j := range d1.Relations[i].Possibilities {
				p := &d1.Relations[i].Possibilities[j]
				if touched {
					continue
				}
				if p.Arch != nil {
					p.Arch.CPU, p.Arch.OS, p.Arch.ABI = "mutated", "mutated", "mutated"
					touched = true
				} else if p.Architectures != nil && len(p.Architectures.Architectures) > 0 {
					p.Architectures.Architectures[0].CPU = "mutated"
					touched = true
				} else if p.Version != nil {
					p.Version.Number = "mutated"
					touched = true
				}
			}
		}
		if touched {
			// everything except the touched possibility is unchanged: compare a fresh parse with the original dump
			d2, err := dependency.Parse(s)
			if err != nil || dumpDep(d2) != before {
				return "FAIL a second parse of the same text is affected by changes made to the first result"
			}
			// and within the first result only one possibility differs from the fresh parse
			diff := 0
			for i := range d1.Relations {
				for j := range d1.Relations[i].Possibilities {
					if dumpPoss(d1.Relations[i].Possibilities[j]) != dumpPoss(d2.Relations[i].Possibilities[j]) {
						diff++
					}
				}
			}
			if diff > 1 {
				return "FAIL changing one alternative in place changed " + strconv.Itoa(diff) + " alternatives (shared storage)"
			}
		}
		return "ok"
	}
	// law: the malformed classes the property lists are rejected with an error and no result
	depImpl["law-depreject"] = func(a []string) string {
		d, err := dependency.Parse(core.MustUnHex(a[0]))
		if err == nil {
			return "FAIL malformed field accepted as " + dumpDep(d)
		}
		if d != nil {
			return "FAIL error together with a result"
		}
		return "ok"
	}
	p := core.Lookup("C04")
	p.Streams = append(p.Streams, core.Stream{Name: "depmalformed", Gen: streamDepMalformed,
		Domain: "the malformed classes of the property, built from valid fields: unterminated '(' '[' '<' '${' (closer and everything after it removed), mixed negation in an architecture list, a second version clause, a second architecture clause, every two-character operator over {<,>,=,!,~} that is not one of the five, two names without a separator; expectation: error and nil result; plus the independence law (results do not share storage with each other or with later parses)"})
}

func streamDepMalformed(g *core.G) {
	r := g.R
	n := g.N(800, 40000)
	valid := map[string]bool{">=": true, "<=": true, "<<": true, ">>": true}
	for i := 0; i < n; i++ {
		name := r.Pick(pkgNames)
		other := r.Pick(pkgNames)
		_, u, rv, hr := genWFVersion(r)
		ver := renderWF("", strings.ReplaceAll(u, ":", ""), rv, hr)
		a1, a2 := r.Pick(archNames), r.Pick(archNames)
		var bad string
		switch r.Intn(9) {
		case 0:
			bad = name + " (>= " + ver
		case 1:
			bad = name + " [" + a1 + " " + a2
		case 2:
			bad = name + " <" + r.Pick(profNames)
		case 3:
			bad = "${" + r.Pick([]string{"misc:Depends", "x"})
		case 4:
			if r.Bool() {
				bad = name + " [!" + a1 + " " + a2 + "]"
			} else {
				bad = name + " [" + a1 + " !" + a2 + "]"
			}
		case 5:
			bad = name + " (>= " + ver + ") (<= " + ver + ")"
		case 6:
			bad = name + " [" + a1 + "] [" + a2 + "]"
		case 7:
			c1, c2 := r.PickByte("<>=!~"), r.PickByte("<>=!~")
			op := string([]byte{c1, c2})
			if c1 == '=' || valid[op] {
				continue
			}
			bad = name + " (" + op + " " + ver + ")"
		case 8:
			bad = name + " " + other
		}
		if r.Chance(1, 3) {
			bad = other + ", " + bad
		}
		if r.Chance(1, 3) && !strings.HasSuffix(bad, ver) && !strings.Contains(bad, "${") {
			bad = bad + ", " + other
		}
		g.Emit("law-depreject", core.Hex(bad))
		g.Emit("depparse", core.Hex(bad))
		good := renderDep(r, genDepAST(r), r.Intn(4))
		g.Emit("law-depindep", core.Hex(good))
	}
}
