package props

import (
	"bytes"
	"compress/gzip"
	"crypto/md5"
	"crypto/sha1"
	"crypto/sha256"
	"crypto/sha512"
	"fmt"
	"io"
	"strconv"
	"strings"
	"testing/iotest"

	"pault.ag/go/debian/control"
	"pault.ag/go/debian/hashio"

	"verif/harness/core"
)

// one-shot digests (the library under test streams through hash.Hash)
func digestOf(alg string, data []byte) ([]byte, bool) {
	switch alg {
	case "md5":
		d := md5.Sum(data)
		return d[:], true
	case "sha1":
		d := sha1.Sum(data)
		return d[:], true
	case "sha256":
		d := sha256.Sum256(data)
		return d[:], true
	case "sha512":
		d := sha512.Sum512(data)
		return d[:], true
	}
	return nil, false
}

type countedTokens struct {
	ts []string
	i  int
}

func (c *countedTokens) list() []string {
	n, _ := strconv.Atoi(c.ts[c.i])
	c.i++
	out := make([]string, n)
	for k := 0; k < n; k++ {
		out[k] = core.MustUnHex(c.ts[c.i])
		c.i++
	}
	return out
}

type chunkReader struct {
	data []byte
}

func (c *chunkReader) Read(p []byte) (int, error) {
	if len(c.data) == 0 {
		return 0, io.EOF
	}
	n := copy(p, c.data)
	c.data = c.data[n:]
	return n, nil
}

// sumKeeper polls Sum(nil) after every chunk, keeps the returned slices and verifies that
// an earlier result is not changed by later writes and sums, and that scribbling on a
// returned slice does not influence the next result (the slice is the caller's)
type sumKeeper struct {
	kept [][]byte
	copy [][]byte
	bad  string
}

func (k *sumKeeper) poll(hs []*hashio.Hasher) {
	for i, s := range k.kept {
		if !bytes.Equal(s, k.copy[i]) && k.bad == "" {
			k.bad = "sum-result-changed-later"
		}
	}
	for _, h := range hs {
		s := h.Sum(nil)
		_ = h.Size()
		k.kept = append(k.kept, s)
		k.copy = append(k.copy, append([]byte{}, s...))
		t := h.Sum(nil)
		for j := range t {
			t[j] ^= 0xff
		}
		if u := h.Sum(nil); !bytes.Equal(u, s) && k.bad == "" {
			k.bad = "sum-result-shared-with-caller"
		}
		if len(k.kept) > 64 {
			k.kept, k.copy = k.kept[32:], k.copy[32:]
		}
	}
}

var hashioImpl = map[string]core.Adapter{
	// GetCompressor: known names give a compressor whose output decompresses to what was written
	"compressor": func(a []string) string {
		c, err := hashio.GetCompressor(core.MustUnHex(a[0]))
		if err != nil {
			if c != nil {
				return "err+value"
			}
			return "err"
		}
		var buf bytes.Buffer
		w, err := c(&buf)
		if err != nil {
			return "compressor-fails"
		}
		payload := []byte(strings.Repeat("payload "+a[0], 50))
		w.Write(payload)
		w.Close()
		zr, err := gzip.NewReader(&buf)
		if err != nil {
			return "not-gzip"
		}
		back, _ := io.ReadAll(zr)
		if !bytes.Equal(back, payload) {
			return "round-trip-differs"
		}
		return "ok"
	},
	"hashpipe": func(a []string) string {
		mode := a[0]
		ct := &countedTokens{ts: a[1:]}
		names := ct.list()
		chunks := ct.list()
		var hashers []*hashio.Hasher
		var sink bytes.Buffer
		keeper := &sumKeeper{}
		switch mode {
		case "w1":
			w, h, err := hashio.NewHasherWriter(names[0], &sink)
			if err != nil {
				return "err"
			}
			hashers = []*hashio.Hasher{h}
			if all := strings.Join(chunks, ""); (len(all)+len(chunks))%4 == 1 {
				// the writer driven by io.Copy (through ReadFrom when the writer offers it; a
				// strings.Reader source writes itself with io.WriteString)
				var src io.Reader = strings.NewReader(all)
				if len(all)%2 == 0 {
					src = iotest.DataErrReader(src)
				}
				if n, err := io.Copy(w, src); err != nil || int(n) != len(all) {
					return "short-write"
				}
				chunks = nil
			}
			for i, c := range chunks {
				var n int
				var err error
				if (i+len(c))%3 == 1 {
					n, err = io.WriteString(w, c) // the StringWriter path, if the writer offers one
				} else {
					n, err = w.Write([]byte(c))
				}
				if err != nil || n != len(c) {
					return "short-write"
				}
				keeper.poll(hashers) // polling a partial digest must not disturb the final one
			}
		case "wn":
			w, hs, err := hashio.NewHasherWriters(names, &sink)
			if err != nil {
				return "err"
			}
			hashers = hs
			if all := strings.Join(chunks, ""); (len(all)+len(chunks))%4 == 1 {
				var src io.Reader = strings.NewReader(all)
				if len(all)%2 == 0 {
					src = iotest.DataErrReader(src)
				}
				if n, err := io.Copy(w, src); err != nil || int(n) != len(all) {
					return "short-write"
				}
				chunks = nil
			}
			for i, c := range chunks {
				var n int
				var err error
				if (i+len(c))%3 == 1 {
					n, err = io.WriteString(w, c)
				} else {
					n, err = w.Write([]byte(c))
				}
				if err != nil || n != len(c) {
					return "short-write"
				}
				keeper.poll(hs)
			}
		case "r1", "rn":
			all := []byte(strings.Join(chunks, ""))
			// how the data comes in and how it is consumed must not matter: a source that hands out
			// what it has, one that reports io.EOF together with its last block, one byte at a time,
			// a bytes.Reader (which io.Copy drives through WriteTo)
			strategy := (len(all) + len(chunks)) % 5
			var src io.Reader = &chunkReader{data: all}
			switch strategy {
			case 1:
				src = iotest.DataErrReader(bytes.NewReader(all))
			case 2:
				src = iotest.OneByteReader(bytes.NewReader(all))
			case 3:
				src = bytes.NewReader(all)
			case 4:
				src = iotest.DataErrReader(&chunkReader{data: all})
			}
			var rd io.Reader
			if mode == "r1" {
				r, h, err := hashio.NewHasherReader(names[0], src)
				if err != nil {
					return "err"
				}
				rd, hashers = r, []*hashio.Hasher{h}
			} else {
				r, hs, err := hashio.NewHasherReaders(names, src)
				if err != nil {
					return "err"
				}
				rd, hashers = r, hs
			}
			if strategy != 0 {
				var err error
				if strategy == 2 {
					var b []byte
					b, err = io.ReadAll(rd)
					sink.Write(b)
				} else {
					_, err = io.Copy(&sink, rd)
				}
				if err != nil {
					return "short-read"
				}
				chunks = nil
			}
			for _, c := range chunks { // read in the same chunking
				buf := make([]byte, len(c))
				if len(c) == 0 {
					continue
				}
				if _, err := io.ReadFull(rd, buf); err != nil {
					return "short-read"
				}
				sink.Write(buf)
				keeper.poll(hashers)
			}
		}
		keeper.poll(hashers)
		keeper.poll(nil)
		if keeper.bad != "" {
			return keeper.bad
		}
		var xs []string
		for _, h := range hashers {
			fh := control.FileHashFromHasher("x", *h)
			if fh.Algorithm != h.Name() || fh.Size != h.Size() || fh.Filename != "x" {
				return "filehash-fields-wrong"
			}
			xs = append(xs, fmt.Sprintf("%s:%d:%s:%s", core.Hex(h.Name()), h.Size(), core.Hex(string(h.Sum(nil))), core.Hex(fh.Hash)))
		}
		return "ok " + fingerprint(sink.Bytes()) + " " + strings.Join(xs, " ")
	},
	"verifier": func(a []string) string {
		fh := control.FileHash{Algorithm: core.MustUnHex(a[0]), Hash: core.MustUnHex(a[1])}
		data := []byte(core.MustUnHex(a[2]))
		w, err := fh.Verifier()
		if err != nil {
			return "err" // unsupported algorithm or malformed hex text: error texts are not compared
		}
		// the verifier was made for the entry as it was: the variable is reused for the next entry
		// (a loop that opens all verifiers first) before the data is streamed
		fh.Hash, fh.Algorithm, fh.Size, fh.Filename = "00", "md5", 0, "next-entry"
		// arbitrary chunking derived from the data itself
		for i, step := 0, 1+len(data)%7; i < len(data); i += step {
			end := i + step
			if end > len(data) {
				end = len(data)
			}
			w.Write(data[i:end])
		}
		err1 := w.Close()
		if err2 := w.Close(); err2 != nil {
			return "close-not-idempotent"
		}
		verdict := "accept"
		if err1 != nil {
			verdict = "reject"
		}
		// history: the verdict on this file does not depend on what happens to other verifiers -
		// one of the same algorithm that is finished and still written to (the rest of a body
		// drained through an io.TeeReader after Close) while this one is open
		for round := 0; round < 6; round++ {
			entry := control.FileHash{Algorithm: core.MustUnHex(a[0]), Hash: core.MustUnHex(a[1])}
			prev, err := entry.Verifier()
			if err != nil {
				break
			}
			prev.Write([]byte("an earlier file"))
			prev.Close()
			cur, err := entry.Verifier()
			if err != nil {
				return "verifier-refused-the-second-time"
			}
			half := len(data) / 2
			cur.Write(data[:half])
			prev.Write([]byte("the rest of the earlier body, drained after Close"))
			if round%2 == 1 {
				prev.Write(data[half:]) // just what the open one still lacks
			}
			cur.Write(data[half:])
			got := "accept"
			if cur.Close() != nil {
				got = "reject"
			}
			if got != verdict {
				return "history-dependent: alone " + verdict + ", next to a finished verifier that is still written to " + got
			}
		}
		return verdict
	},
	// law: entries parsed from Checksums-Sha256 / Checksums-Sha512 (directly and through the
	// best-checksum selector) accept exactly the content whose digest they record
	"law-bestchecksums": func(a []string) string {
		content := []byte(core.MustUnHex(a[0]))
		with256, with512 := a[1] == "1", a[2] == "1"
		var doc strings.Builder
		d256, _ := digestOf("sha256", content)
		d512, _ := digestOf("sha512", content)
		if with256 {
			fmt.Fprintf(&doc, "Checksums-Sha256:\n %x %d file\n", d256, len(content))
		}
		if with512 {
			fmt.Fprintf(&doc, "Checksums-Sha512:\n %x %d file\n", d512, len(content))
		}
		var bc control.BestChecksums
		if len(content)%2 == 0 {
			// the variable held the previous paragraph of the index (same fields, as many entries,
			// another file) and its selector was used: a loop over Packages / Sources with one variable
			prev := append([]byte("previous package "), content...)
			p256, _ := digestOf("sha256", prev)
			p512, _ := digestOf("sha512", prev)
			var pdoc strings.Builder
			if with256 {
				fmt.Fprintf(&pdoc, "Checksums-Sha256:\n %x %d previous\n", p256, len(prev))
			}
			if with512 {
				fmt.Fprintf(&pdoc, "Checksums-Sha512:\n %x %d previous\n", p512, len(prev))
			}
			if pdoc.Len() > 0 && control.Unmarshal(&bc, strings.NewReader(pdoc.String())) == nil {
				for _, fh := range bc.Checksums() {
					fh.Verifier()
				}
			}
		}
		if err := control.Unmarshal(&bc, strings.NewReader(doc.String())); err != nil {
			return "FAIL " + err.Error()
		}
		var all []control.FileHash
		for _, c := range bc.ChecksumsSha256 {
			all = append(all, c.FileHash)
		}
		for _, c := range bc.ChecksumsSha512 {
			all = append(all, c.FileHash)
		}
		all = append(all, bc.Checksums()...)
		want := 0
		if with256 {
			want += 2
		}
		if with512 {
			want++
			if !with256 {
				want++
			}
		}
		if len(all) != want {
			return fmt.Sprintf("FAIL %d entries, want %d", len(all), want)
		}
		for _, fh := range all {
			for _, alter := range []bool{false, true} {
				w, err := fh.Verifier()
				if err != nil {
					return "FAIL Verifier: " + err.Error()
				}
				data := content
				if alter {
					data = append(append([]byte{}, content...), 'x')
				}
				w.Write(data)
				err = w.Close()
				if !alter && err != nil {
					return fmt.Sprintf("FAIL %s entry rejects the content it records: %v", fh.Algorithm, err)
				}
				if alter && err == nil {
					return fmt.Sprintf("FAIL %s entry accepts altered content", fh.Algorithm)
				}
			}
		}
		return "ok"
	},
}

func digestTable(algs []string, msgs [][]byte) []string {
	var rows []string
	n := 0
	for _, a := range algs {
		for _, m := range msgs {
			if d, ok := digestOf(a, m); ok {
				rows = append(rows, core.Hex(a), core.Hex(string(m)), core.Hex(string(d)))
				n++
			}
		}
	}
	return append([]string{strconv.Itoa(n)}, rows...)
}

func streamHashio(g *core.G) {
	r := g.R
	algs := []string{"md5", "sha1", "sha256", "sha512"}
	for _, nm := range []string{"gz", "", "gzip", "GZ", "xz", "bz2", "gz ", ".gz", "g", "zst"} {
		g.Emit("compressor", core.Hex(nm))
	}
	n := g.N(1500, 60000)
	for i := 0; i < n; i++ {
		var chunks []string
		for k := r.Intn(6); k > 0; k-- {
			chunks = append(chunks, r.Str("ab\x00\xff\n", r.Pick2(r.Intn(4), r.Intn(300))))
		}
		if r.Chance(1, 75) {
			// writes as large as io.Copy's (32 KiB) and beyond: sizes around every power of
			// two a buffering or batching layer would use as a threshold
			big := []int{4096, 8192, 16384, 32768, 65536, 100000}[r.Intn(6)] + r.Range(-1, 1)
			chunks = append(chunks, strings.Repeat(r.Str("ab\x00\xff\n", 61), big/61+1)[:big])
			if r.Bool() {
				chunks = append(chunks, r.Str("ab", r.Intn(5)))
			}
		}
		data := []byte(strings.Join(chunks, ""))
		mode := r.Pick([]string{"w1", "wn", "r1", "rn"})
		var names []string
		if mode == "w1" || mode == "r1" {
			names = []string{r.Pick(algs)}
		} else {
			for k := r.Intn(5); k > 0; k-- {
				names = append(names, r.Pick(algs))
			}
		}
		if r.Chance(1, 15) {
			names = append(names, r.Pick([]string{"sha3", "", "SHA256", "md4"}))
			if mode == "w1" || mode == "r1" {
				names = names[len(names)-1:]
			}
		}
		args := []string{mode, strconv.Itoa(len(names))}
		for _, x := range names {
			args = append(args, core.Hex(x))
		}
		args = append(args, strconv.Itoa(len(chunks)))
		for _, c := range chunks {
			args = append(args, core.Hex(c))
		}
		args = append(args, digestTable(algs, [][]byte{data})...)
		g.Emit("hashpipe", args...)
		// verifier: equal, unequal, truncated, wrong-algorithm, malformed hashes
		alg := r.Pick(algs)
		d, _ := digestOf(alg, data)
		hash := fmt.Sprintf("%x", d)
		switch r.Intn(8) {
		case 0:
			hash = strings.ToUpper(hash)
		case 1:
			hash = hash[:len(hash)-2]
		case 2:
			o, _ := digestOf(r.Pick(algs), data)
			hash = fmt.Sprintf("%x", o)
		case 3:
			b := []byte(hash)
			b[r.Intn(len(b))] = "0123456789abcdefg "[r.Intn(18)]
			hash = string(b)
		case 4:
			hash = hash[:len(hash)-1]
		case 5:
			alg = r.Pick([]string{"sha3", "", "SHA256"})
		}
		g.Emit("verifier", append([]string{core.Hex(alg), core.Hex(hash), core.Hex(string(data))}, digestTable(algs, [][]byte{data})...)...)
		if i%10 == 0 {
			w256 := r.Bool()
			g.Emit("law-bestchecksums", core.Hex(string(data)), b01(w256), b01(!w256 || r.Bool()))
		}
	}
}

func init() {
	tb := append(append([]string{}, leanTB...), "MD5/SHA-1/SHA-2 (Go crypto/*): parameters; the streaming law of hash.Hash is their contract; digests are cross-checked against one-shot computations (and coreutils in the thorough tier)",
		"io.MultiWriter / io.TeeReader (parameters: every chunk reaches every writer in order)")
	core.Register(&core.Property{
		ID: "C12", PropsModule: "GoDebian.Props.C12", TieModule: "GoDebian.Tie.Hashio",
		Facts: []string{"hashio.GetHash:cases", "control.Verifier:cases", "control.unmarshalControl:byhash", "fingerprint:hashio.GetHash", "fingerprint:hashio.NewHasher", "fingerprint:hashio.Hasher.Write",
			"fingerprint:hashio.NewHasherWriter", "fingerprint:hashio.NewHasherWriters", "fingerprint:hashio.NewHasherReader", "fingerprint:hashio.NewHasherReaders",
			"fingerprint:control.FileHash.Verifier", "fingerprint:control.verifier.Close", "fingerprint:control.FileHashFromHasher", "fingerprint:control.BestChecksums.Checksums"},
		Streams: []core.Stream{{Name: "hashio", Gen: streamHashio,
			Domain: "random byte strings x random chunkings (0-5 chunks of 0-300 bytes) x the four constructors (single / several writers, single / several readers) x subsets, repetitions and orders of md5, sha1, sha256, sha512 plus unknown names; observables: pass-through bytes, Size(), Sum(), FileHashFromHasher; verifier on (content, recorded hash) pairs: equal, upper-case, truncated, other algorithm's digest, one corrupted character, odd length, unknown algorithm; law-bestchecksums: entries parsed from Checksums-Sha256/-Sha512 and through Checksums() accept exactly the content they record"}},
		Impl: hashioImpl, TrustedBase: tb,
		Readable: func(op string, a []string) string { return op + " " + clipStr(strings.Join(a, " "), 200) },
	})
}
