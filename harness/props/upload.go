package props

import (
	"crypto/md5"
	"fmt"
	"os"
	"path/filepath"
	"sort"
	"strconv"
	"strings"
	"syscall"
	"time"

	"pault.ag/go/debian/control"

	"verif/harness/core"
)

func mkNode(path, st string) {
	switch {
	case st == "M" || st == "A":
		os.RemoveAll(path)
	case st == "D0":
		os.RemoveAll(path)
		os.Mkdir(path, 0o755)
	case st == "D1":
		os.RemoveAll(path)
		os.Mkdir(path, 0o755)
		os.WriteFile(filepath.Join(path, "child"), []byte("x"), 0o644)
	case strings.HasPrefix(st, "F"):
		os.RemoveAll(path)
		os.WriteFile(path, []byte(nodeContent(st[1:])), 0o644)
		// every generated file carries the same modification time (as the files of reproducible
		// builds do): size and time say nothing about the content
		os.Chtimes(path, fixedTime, fixedTime)
	}
}

var fixedTime = time.Unix(1577836800, 0)

// the text of a .dsc that lists the .changes file of the generated uploads (and a file "a")
const dscListingChanges = "Format: 1.0\nSource: s\nVersion: 1\nFiles:\n d41d8cd98f00b204e9800998ecf8427e 1 s_1_amd64.changes\n d41d8cd98f00b204e9800998ecf8427e 1 a\n"

// nodeContent: what a file in state F<id> holds.  F7 is "an older file of the same name that
// is in the way": it is much longer than anything that replaces it, so a copy that does not
// truncate its destination leaves a stale tail behind.
func nodeContent(id string) string {
	if id == "7" {
		return "content-7\n" + strings.Repeat("stale line of an earlier, larger build\n", 120)
	}
	if id == "500" {
		return dscListingChanges
	}
	return "content-" + id
}

func dumpDirFS(dir string, ctl ...string) string {
	ents, err := os.ReadDir(dir)
	if err != nil {
		return "[]"
	}
	var xs []string
	for _, e := range ents {
		p := filepath.Join(dir, e.Name())
		if e.IsDir() {
			sub, _ := os.ReadDir(p)
			xs = append(xs, core.Hex(e.Name())+"=D"+b01(len(sub) > 0))
			continue
		}
		b, _ := os.ReadFile(p)
		// byte-exact: a file counts as F<id> only if it holds exactly what F<id> holds, and
		// as the control file (F999) only if it holds exactly the control file's text
		id := fmt.Sprintf("X%x", md5.Sum(b))[:9]
		if len(ctl) == 1 && string(b) == ctl[0] {
			id = "999"
		} else if string(b) == dscListingChanges {
			id = "500"
		} else if rest, ok := strings.CutPrefix(string(b), "content-"); ok {
			if i := strings.IndexByte(rest, '\n'); i >= 0 {
				rest = rest[:i]
			}
			if string(b) == nodeContent(rest) {
				id = rest
			}
		}
		xs = append(xs, core.Hex(e.Name())+"=F"+id)
	}
	sort.Strings(xs)
	return "[" + strings.Join(xs, ",") + "]"
}

// fileLine renders one Files line.  The empty name exists only for .changes: its lines are
// split on single blanks, so two blanks in front of the file name list the empty name.
func fileLine(kind, name string) string {
	if kind == "dsc" {
		return fmt.Sprintf(" d41d8cd98f00b204e9800998ecf8427e 1 %s\n", name)
	}
	if name == "" {
		return " d41d8cd98f00b204e9800998ecf8427e 1 utils optional  stray_1.0.tar.gz\n"
	}
	return fmt.Sprintf(" d41d8cd98f00b204e9800998ecf8427e 1 utils optional %s\n", name)
}

func plainName(n string) bool {
	return n != "" && n != "." && n != ".." && !strings.Contains(n, "/")
}

var uploadImpl = map[string]core.Adapter{
	"upload": func(a []string) string {
		op, kind, ctl, ctlState, ctlDest, destKind := a[0], a[1], core.MustUnHex(a[2]), a[3], a[4], a[5]
		n, _ := strconv.Atoi(a[6])
		root, err := os.MkdirTemp("", "verif-upload-")
		if err != nil {
			return "infrastructure"
		}
		defer os.RemoveAll(root)
		src, dst, out := filepath.Join(root, "src"), filepath.Join(root, "dst"), filepath.Join(root, "outside")
		os.Mkdir(src, 0o755)
		os.Mkdir(out, 0o755)
		os.WriteFile(filepath.Join(out, "sentinel"), []byte("sentinel"), 0o644)
		switch destKind {
		case "dir":
			os.Mkdir(dst, 0o755)
		case "file":
			os.WriteFile(dst, []byte("not a directory"), 0o644)
		}
		var names []string
		for i := 0; i < n; i++ {
			name := core.MustUnHex(a[7+3*i])
			name = strings.ReplaceAll(name, "@ROOT@", root)
			names = append(names, name)
		}
		// the control file
		var doc strings.Builder
		if kind == "dsc" {
			doc.WriteString("Format: 1.0\nSource: s\nVersion: 1\n")
			if n > 0 {
				doc.WriteString("Files:\n")
				for _, nm := range names {
					doc.WriteString(fileLine(kind, nm))
				}
			}
		} else {
			doc.WriteString("Format: 1.8\nSource: s\nVersion: 1\n")
			if n > 0 {
				doc.WriteString("Files:\n")
				for _, nm := range names {
					doc.WriteString(fileLine(kind, nm))
				}
			}
		}
		if (len(names)+len(ctl))%2 == 0 || len(names) == 0 {
			// other checksum fields are not the list of files the operations act on
			fmt.Fprintf(&doc, "Checksums-Sha256:\n e3b0c44298fc1c149afbf4c8996fb92427ae41e4649b934ca495991b7852b855 8 ../outside/sentinel\n e3b0c44298fc1c149afbf4c8996fb92427ae41e4649b934ca495991b7852b855 1 %s\nChecksums-Sha1:\n da39a3ee5e6b4b0d3255bfef95601890afd80709 8 %s/outside/sentinel\n", ctl, root)
		}
		if (len(names)+len(op))%3 == 1 {
			// a Filename field inside the document is not where the control file is
			fmt.Fprintf(&doc, "Filename: %s/outside/%s\n", root, ctl)
		}
		ctlPath := filepath.Join(src, ctl)
		os.WriteFile(ctlPath, []byte(doc.String()), 0o644)
		var run func(string) error
		var handle func() string
		if kind == "dsc" {
			d, err := control.ParseDscFile(ctlPath)
			if err != nil {
				return "parse-error"
			}
			handle = func() string { return d.Filename }
			run = func(op string) error {
				switch op {
				case "copy":
					return d.Copy(dst)
				case "move":
					return d.Move(dst)
				}
				return d.Remove()
			}
		} else {
			c, err := control.ParseChangesFile(ctlPath)
			if err != nil {
				return "parse-error"
			}
			handle = func() string { return c.Filename }
			run = func(op string) error {
				switch op {
				case "copy":
					return c.Copy(dst)
				case "move":
					return c.Move(dst)
				}
				return c.Remove()
			}
		}
		// now the file-system states (after parsing: the control file had to be readable)
		for i, nm := range names {
			if !plainName(nm) {
				continue
			}
			mkNode(filepath.Join(src, nm), a[8+3*i])
			if destKind == "dir" {
				mkNode(filepath.Join(dst, nm), a[9+3*i])
			}
		}
		if ctlState != "F999" {
			mkNode(ctlPath, ctlState)
		} else {
			os.RemoveAll(ctlPath)
			os.WriteFile(ctlPath, []byte(doc.String()), 0o644)
		}
		if destKind == "dir" {
			mkNode(filepath.Join(dst, ctl), ctlDest)
		}
		err = run(op)
		res := "ok"
		if err != nil {
			res = "err"
		}
		h := "src"
		if handle() == dst+"/"+ctl {
			h = "dest"
		} else if handle() != ctlPath {
			h = "elsewhere:" + handle()
		}
		outside := "intact"
		if b, err := os.ReadFile(filepath.Join(out, "sentinel")); err != nil || string(b) != "sentinel" {
			outside = "touched"
		}
		if ents, _ := os.ReadDir(out); len(ents) != 1 {
			outside = "touched"
		}
		if ents, _ := os.ReadDir(root); len(ents) > 3 {
			outside = "touched"
		}
		dstDump := "[]"
		if destKind == "dir" {
			dstDump = dumpDirFS(dst, doc.String())
		}
		return res + " src" + dumpDirFS(src, doc.String()) + " dst" + dstDump + " handle=" + h + " outside=" + outside
	},
}

// runUploadSeq: one handle, several operations; three directories d0 (where the control
// file starts), d1, d2.  Returns the model-comparable dump and the law's verdict.
func runUploadSeq(a []string) (string, string) {
	kind, ctl := a[0], core.MustUnHex(a[1])
	n, _ := strconv.Atoi(a[2])
	root, err := os.MkdirTemp("", "verif-uploadseq-")
	if err != nil {
		return "infrastructure", "ok"
	}
	defer os.RemoveAll(root)
	dirs := []string{filepath.Join(root, "d0"), filepath.Join(root, "d1"), filepath.Join(root, "d2")}
	for _, d := range dirs {
		os.Mkdir(d, 0o755)
	}
	var names []string
	for i := 0; i < n; i++ {
		names = append(names, core.MustUnHex(a[3+2*i]))
	}
	var doc strings.Builder
	if kind == "dsc" {
		doc.WriteString("Format: 1.0\nSource: s\nVersion: 1\n")
	} else {
		doc.WriteString("Format: 1.8\nSource: s\nVersion: 1\n")
	}
	if n > 0 {
		doc.WriteString("Files:\n")
		for _, nm := range names {
			doc.WriteString(fileLine(kind, nm))
		}
	}
	ctlPath := filepath.Join(dirs[0], ctl)
	os.WriteFile(ctlPath, []byte(doc.String()), 0o644)
	var run func(op, dst string) error
	var handle func() string
	if kind == "dsc" {
		d, err := control.ParseDscFile(ctlPath)
		if err != nil {
			return "parse-error", "ok"
		}
		handle = func() string { return d.Filename }
		run = func(op, dst string) error {
			switch op {
			case "copy":
				return d.Copy(dst)
			case "move":
				return d.Move(dst)
			}
			return d.Remove()
		}
	} else {
		c, err := control.ParseChangesFile(ctlPath)
		if err != nil {
			return "parse-error", "ok"
		}
		handle = func() string { return c.Filename }
		run = func(op, dst string) error {
			switch op {
			case "copy":
				return c.Copy(dst)
			case "move":
				return c.Move(dst)
			}
			return c.Remove()
		}
	}
	for i, nm := range names {
		if plainName(nm) {
			mkNode(filepath.Join(dirs[0], nm), a[4+2*i])
		}
	}
	ops := a[3+2*n+1:]
	here := func() int {
		for i, d := range dirs {
			if handle() == d+"/"+ctl {
				return i
			}
		}
		return -1
	}
	var results []string
	verdict := "ok"
	for i := 0; i+1 < len(ops); i += 2 {
		t, _ := strconv.Atoi(ops[i+1])
		h := here()
		if h < 0 {
			return "handle-elsewhere:" + handle(), "FAIL the handle points at " + handle()
		}
		if t == h {
			return "unmodelled", "ok"
		}
		dump := func(d string) string { return dumpDirFS(d, doc.String()) }
		before := []string{dump(dirs[0]), dump(dirs[1]), dump(dirs[2])}
		err := run(ops[i], dirs[t])
		res := "ok"
		if err != nil {
			res = "err"
		}
		results = append(results, res)
		for k := range dirs {
			if k != h && (k != t || ops[i] == "remove") && dump(dirs[k]) != before[k] && verdict == "ok" {
				verdict = fmt.Sprintf("FAIL step %d (%s from d%d to d%d, %s) changed d%d, which is neither the control file's directory nor the destination: %s -> %s", i/2+1, ops[i], h, t, res, k, before[k], dump(dirs[k]))
			}
		}
		if res == "ok" && ops[i] != "remove" && here() != t && verdict == "ok" {
			verdict = fmt.Sprintf("FAIL step %d (%s to d%d) succeeded but the handle points at %s", i/2+1, ops[i], t, handle())
		}
	}
	return strings.Join(results, ",") + " here=" + strconv.Itoa(here()) + " " + dumpDirFS(dirs[0], doc.String()) + " " + dumpDirFS(dirs[1], doc.String()) + " " + dumpDirFS(dirs[2], doc.String()), verdict
}

// law-upload is the same run judged against the property directly
func init() {
	uploadImpl["uploadseq"] = func(a []string) string { out, _ := runUploadSeq(a); return out }
	// law: Move (and Copy) into a directory on another file system.  Either it fails and the
	// control file is where it was, complete, with the handle unchanged; or it succeeds and every
	// listed file and the control file are in the destination with their content, the handle
	// pointing there (and, for Move, nothing left behind).  args: kind, op, number of files
	uploadImpl["law-upload-xdev"] = func(a []string) string {
		kind, op := a[0], a[1]
		n, _ := strconv.Atoi(a[2])
		src, err := os.MkdirTemp("", "verif-xdev-src-")
		if err != nil {
			return "ok"
		}
		defer os.RemoveAll(src)
		dst := ""
		for _, base := range []string{"/dev/shm", "/run/shm", "/var/tmp", "/run"} {
			d, err := os.MkdirTemp(base, "verif-xdev-dst-")
			if err != nil {
				continue
			}
			probe := filepath.Join(src, "probe")
			os.WriteFile(probe, nil, 0o644)
			err = os.Rename(probe, filepath.Join(d, "probe"))
			os.Remove(probe)
			os.Remove(filepath.Join(d, "probe"))
			if le, ok := err.(*os.LinkError); ok && le.Err == syscall.EXDEV {
				dst = d
				break
			}
			os.RemoveAll(d)
		}
		if dst == "" {
			return "ok" // no second file system here
		}
		defer os.RemoveAll(dst)
		ctl := map[string]string{"dsc": "s_1.dsc", "changes": "s_1_amd64.changes"}[kind]
		doc := "Format: 1.8\nSource: s\nVersion: 1\nFiles:\n"
		content := map[string]string{}
		for i := 0; i < n; i++ {
			name := fmt.Sprintf("s_1.part%d.tar.gz", i)
			doc += fileLine(kind, name)
			content[name] = strings.Repeat(name, i+1)
			os.WriteFile(filepath.Join(src, name), []byte(content[name]), 0o644)
		}
		content[ctl] = doc
		ctlPath := filepath.Join(src, ctl)
		os.WriteFile(ctlPath, []byte(doc), 0o644)
		var run func() error
		var handle func() string
		if kind == "dsc" {
			d, err := control.ParseDscFile(ctlPath)
			if err != nil {
				return "FAIL " + err.Error()
			}
			handle = func() string { return d.Filename }
			run = func() error { return d.Move(dst) }
			if op == "copy" {
				run = func() error { return d.Copy(dst) }
			}
		} else {
			c, err := control.ParseChangesFile(ctlPath)
			if err != nil {
				return "FAIL " + err.Error()
			}
			handle = func() string { return c.Filename }
			run = func() error { return c.Move(dst) }
			if op == "copy" {
				run = func() error { return c.Copy(dst) }
			}
		}
		err = run()
		has := func(dir, name string) bool {
			b, err := os.ReadFile(filepath.Join(dir, name))
			return err == nil && string(b) == content[name]
		}
		if err != nil {
			if !has(src, ctl) || handle() != ctlPath {
				return fmt.Sprintf("FAIL %s across file systems failed (%v) and the control file is not where it was (handle %q)", op, err, handle())
			}
			if _, e := os.Lstat(filepath.Join(dst, ctl)); e == nil {
				return fmt.Sprintf("FAIL %s across file systems failed (%v) and the control file is in the destination", op, err)
			}
			return "ok"
		}
		for name := range content {
			if !has(dst, name) {
				return fmt.Sprintf("FAIL %s across file systems reported success, %s is not (complete) in the destination", op, name)
			}
			if _, e := os.Lstat(filepath.Join(src, name)); op == "move" && e == nil {
				return fmt.Sprintf("FAIL Move across file systems reported success, %s is still in the source", name)
			}
			if op == "copy" && !has(src, name) {
				return fmt.Sprintf("FAIL Copy across file systems reported success, %s is gone from the source", name)
			}
		}
		if handle() != filepath.Join(dst, ctl) {
			return fmt.Sprintf("FAIL %s succeeded and the handle is %q", op, handle())
		}
		return "ok"
	}
	uploadImpl["law-uploadseq"] = func(a []string) string { _, v := runUploadSeq(a); return v }
	uploadImpl["law-upload"] = func(a []string) string {
		res := uploadImpl["upload"](a)
		op, ctl := a[0], core.MustUnHex(a[2])
		f := strings.Fields(res)
		if len(f) != 5 {
			return "FAIL " + res
		}
		ok := f[0] == "ok"
		ctlInDst := strings.Contains(f[2], core.Hex(ctl)+"=")
		ctlInSrc := strings.Contains(f[1], core.Hex(ctl)+"=")
		if f[4] != "outside=intact" {
			return "FAIL a file outside the two directories was touched: " + res
		}
		if strings.HasPrefix(f[3], "handle=elsewhere") {
			return "FAIL the handle points neither at the control file nor into the destination: " + res
		}
		n, _ := strconv.Atoi(a[6])
		if op != "remove" {
			if !ok && ctlInDst && a[4] == "A" {
				return "FAIL the operation failed but the control file is in the destination: " + res
			}
			if !ok && op == "move" && !ctlInSrc && a[3] != "M" {
				return "FAIL the move failed but the control file left its source: " + res
			}
			if ok {
				if f[3] != "handle=dest" || !ctlInDst {
					return "FAIL success but the handle / control file is not in the destination: " + res
				}
				last := map[string]string{}
				for i := 0; i < n; i++ {
					last[core.MustUnHex(a[7+3*i])] = a[8+3*i]
				}
				for nm, st := range last {
					want := core.Hex(nm) + "=" + st
					if nm == ctl {
						want = core.Hex(nm) + "=" + a[3]
					}
					if !strings.Contains(f[2], want) {
						return "FAIL success but " + nm + " is not in the destination with its content: " + res
					}
				}
			}
		} else {
			if !ok && !ctlInSrc && a[3] != "M" {
				return "FAIL removal failed but the control file is gone: " + res
			}
		}
		return "ok"
	}
}

func streamUpload(g *core.G) {
	r := g.R
	n := g.N(400, 20000)
	srcStates := []string{"F1", "F2", "F3", "M", "D0", "D1"}
	dstStates := []string{"A", "A", "A", "F7", "F8", "D0", "D1"} // F8: same size and time as what replaces it
	weird := []string{"/", "//", "../outside/sentinel", "sub/inner", "@ROOT@/outside/sentinel", ".", "..", "../src/a", "a/", "/etc/hostname"}
	for i := 0; i < n; i++ {
		op := r.Pick([]string{"copy", "move", "remove"})
		kind := r.Pick([]string{"dsc", "changes"})
		ctl := "s_1.dsc"
		if kind == "changes" {
			ctl = "s_1_amd64.changes"
		}
		k := r.Intn(5)
		failAt := -1
		if r.Chance(2, 3) {
			failAt = r.Intn(k + 1) // k = the control file itself
		}
		var entries []string
		used := map[string]bool{}
		for j := 0; j < k; j++ {
			name := r.Pick([]string{"a", "b.tar.gz", "c_1.0.orig.tar.xz", "d", "e.deb"})
			if used[name] && r.Chance(4, 5) {
				name += strconv.Itoa(j)
			}
			used[name] = true
			st, ds := r.Pick(srcStates[:3]), "A"
			if j == failAt {
				st, ds = r.Pick(srcStates), r.Pick(dstStates)
			} else if r.Chance(1, 6) {
				ds = r.Pick([]string{"F7", "F8"}) // an older file of the same name is overwritten
			}
			if kind == "changes" && r.Chance(1, 12) {
				// the upload's .dsc, a real one, which (wrongly) lists the .changes file itself
				name, st = "s_1.dsc", "F500"
			}
			if r.Chance(1, 25) {
				name = r.Pick(weird)
			}
			if kind == "changes" && r.Chance(1, 30) {
				name = "" // two blanks in front of the name: the listed name is empty
			}
			if r.Chance(1, 40) {
				name = ctl // the control file lists itself
			}
			entries = append(entries, core.Hex(name), st, ds)
		}
		ctlState, ctlDest := "F999", "A"
		if failAt == k {
			ctlState, ctlDest = r.Pick([]string{"M", "D0", "D1", "F999"}), r.Pick(dstStates)
		}
		destKind := "dir"
		if r.Chance(1, 15) {
			destKind = r.Pick([]string{"missing", "file"})
		}
		args := append([]string{op, kind, core.Hex(ctl), ctlState, ctlDest, destKind, strconv.Itoa(k)}, entries...)
		g.Emit("upload", args...)
		g.Emit("law-upload", args...)
	}
	// destinations on another file system (rename(2) fails with EXDEV there)
	for i := g.N(6, 40); i > 0; i-- {
		g.Emit("law-upload-xdev", r.Pick([]string{"dsc", "changes"}), r.Pick([]string{"move", "move", "copy"}), strconv.Itoa(r.Intn(4)))
	}
	// one handle used for two to four operations in a row (as an archive tool does: copy
	// to a staging directory, then move on or remove)
	for i := g.N(150, 8000); i > 0; i-- {
		kind := r.Pick([]string{"dsc", "changes"})
		ctl := "s_1.dsc"
		if kind == "changes" {
			ctl = "s_1_amd64.changes"
		}
		k := r.Intn(4)
		args := []string{core.Hex(ctl), strconv.Itoa(k)}
		for j := 0; j < k; j++ {
			st := r.Pick(srcStates[:3])
			if r.Chance(1, 8) {
				st = r.Pick(srcStates)
			}
			args = append(args, core.Hex(r.Pick([]string{"a", "b.tar.gz", "c_1.0.orig.tar.xz", "d"})+strconv.Itoa(j)), st)
		}
		nops := r.Range(2, 4)
		args = append(args, strconv.Itoa(nops))
		here := 0
		for j := 0; j < nops; j++ {
			op := r.Pick([]string{"copy", "copy", "move", "move", "remove"})
			t := (here + 1 + r.Intn(2)) % 3
			args = append(args, op, strconv.Itoa(t))
			if op != "remove" {
				here = t // where the handle is if the step succeeds (most do)
			}
		}
		g.Emit("uploadseq", append([]string{kind}, args...)...)
		g.Emit("law-uploadseq", append([]string{kind}, args...)...)
	}
}

func init() {
	tb := append(append([]string{}, leanTB...), "Model/Upload.lean: the plans of Copy/Move/Remove and internal.Copy over an abstract file system (hand transliteration, differentially tested on a real temporary directory tree)",
		"Base/Path.lean (path.Clean / Join, filepath.Dir / Base) and Model/UploadPaths.lean (which paths the operations build from Filename, destination and listed names): hand transliterations; the primitives are tied by the base stream, the composition is observed through where files appear (upload stream); the paths handed to the kernel are not traced",
		"the kernel's open/create/rename/unlink semantics as summarised in the model's primitive steps (parameter; crash durability and rename atomicity are the platform's)")
	core.Register(&core.Property{
		ID: "C20", PropsModule: "GoDebian.Props.C20", TieModule: "GoDebian.Tie.Upload",
		Facts: []string{"upload.DSC.Copy:order", "upload.DSC.Move:order", "upload.DSC.Remove:order", "upload.Changes.Copy:order", "upload.Changes.Move:order", "upload.Changes.Remove:order", "upload.internal.Copy:calls",
			"fingerprint:control.DSC.Copy", "fingerprint:control.DSC.Move", "fingerprint:control.DSC.Remove", "fingerprint:control.DSC.AbsFiles", "fingerprint:control.DSC.checkFiles",
			"fingerprint:control.Changes.Copy", "fingerprint:control.Changes.Move", "fingerprint:control.Changes.Remove", "fingerprint:control.Changes.AbsFiles", "fingerprint:control.Changes.checkFiles",
			"fingerprint:control.checkListedFilename", "fingerprint:internal.Copy"},
		Streams: []core.Stream{{Name: "upload", Gen: streamUpload,
			Domain: "law-upload-xdev: Move / Copy into a directory on another file system (/dev/shm when rename(2) there fails with EXDEV): failure leaves the control file and the handle where they were, success means everything arrived; uploads with 0-4 referenced files x {Copy, Move, Remove} x {.dsc, .changes}; a fault at one position (each referenced file or the control file itself) realised as a file-system state: source missing / an empty or non-empty directory (copy fails after the destination was created), destination name occupied by a file, an empty or a non-empty directory, destination missing or a regular file; listed names incl. '../x', 'a/b', absolute paths, '.', '..', '/', '//', trailing slash, the empty name (.changes line with two blanks), duplicates and the control file's own name; an older, much longer file of the same name already in the destination (1/10; contents compared byte for byte, the control file's too); run on a real temporary tree; observables: result, listing of both directories with contents, where the handle points, whether anything outside was touched; law-upload judges the same run against the property"}},
		Impl: uploadImpl, TrustedBase: tb,
		Readable: func(op string, a []string) string {
			var parts []string
			if op == "law-upload-xdev" {
				return fmt.Sprintf("%s of a %s with %s listed files into a directory on another file system", a[1], a[0], a[2])
			}
			if strings.HasSuffix(op, "uploadseq") {
				n, _ := strconv.Atoi(a[2])
				for i := 0; i < n; i++ {
					parts = append(parts, fmt.Sprintf("%q:%s", core.MustUnHex(a[3+2*i]), a[4+2*i]))
				}
				return fmt.Sprintf("%s %s %s files=%v ops(op, target dir)=%v", op, a[0], core.MustUnHex(a[1]), parts, a[4+2*n:])
			}
			n, _ := strconv.Atoi(a[6])
			for i := 0; i < n; i++ {
				parts = append(parts, fmt.Sprintf("%q:%s->%s", core.MustUnHex(a[7+3*i]), a[8+3*i], a[9+3*i]))
			}
			return fmt.Sprintf("%s %s %s ctl=%s->%s dest=%s files=%v", a[0], a[1], core.MustUnHex(a[2]), a[3], a[4], a[5], parts)
		},
	})
}
