// Package findings holds one small demonstration per genuine defect found in the
// pinned go-debian tree.  Each test fails on the tree before the corresponding
// "fix:" commit and passes after it (see /verif/known_findings.json).
//   cd /verif/harness && go test ./findings/
package findings

import (
	"bufio"
	"bytes"
	"crypto/sha512"
	"encoding/json"
	"fmt"
	"io"
	"os"
	"os/exec"
	"path/filepath"
	"strings"
	"testing"
	"time"

	"pault.ag/go/debian/changelog"
	"pault.ag/go/debian/control"
	"pault.ag/go/debian/deb"
	"pault.ag/go/debian/dependency"
	"pault.ag/go/debian/version"
)

// ---- C03 ---------------------------------------------------------------------------

func TestC03_RenderKeepsEpochAndRevisionMarkers(t *testing.T) {
	for _, s := range []string{"0:1:2", "1.0--", "0:1-2-", "0:0:0-"} {
		v, err := version.Parse(s)
		if err != nil {
			t.Fatalf("%q: %v", s, err)
		}
		w, err := version.Parse(v.String())
		if err != nil || w != v {
			t.Errorf("%q parses to %#v, renders %q, which re-parses to %#v (%v)", s, v, v.String(), w, err)
		}
	}
}

func TestC03_MarshalTextRoundTrip(t *testing.T) {
	v, _ := version.Parse("1:1.0-1")
	txt, err := v.MarshalText()
	if err != nil {
		t.Fatal(err)
	}
	var w version.Version
	if err := w.UnmarshalText(txt); err != nil || w != v {
		t.Errorf("MarshalText gives %q; UnmarshalText: %v %#v", txt, err, w)
	}
	js, _ := json.Marshal(&v)
	var x version.Version
	if err := json.Unmarshal(js, &x); err != nil || x != v {
		t.Errorf("json %s -> %v %#v", js, err, x)
	}
}

func TestC03_EmptyUpstreamRejected(t *testing.T) {
	for _, s := range []string{"-1", "0:-1", "-"} {
		if v, err := version.Parse(s); err == nil {
			t.Errorf("%q accepted as %#v (empty upstream version does not start with a digit)", s, v)
		}
	}
}

func TestC03_UnmarshalOverwritesWholeValue(t *testing.T) {
	v := version.Version{Epoch: 7, Version: "9", Revision: "old"}
	if err := v.UnmarshalControl("1.0"); err != nil {
		t.Fatal(err)
	}
	if v != (version.Version{Version: "1.0"}) {
		t.Errorf("UnmarshalControl(\"1.0\") into a used value leaves %#v", v)
	}
}

// ---- C04 ---------------------------------------------------------------------------

func names(d *dependency.Dependency) []string {
	var out []string
	for _, r := range d.Relations {
		for _, p := range r.Possibilities {
			out = append(out, p.Name)
		}
	}
	return out
}

func TestC04_WhitespaceAfterNameAndQualifier(t *testing.T) {
	d, err := dependency.Parse("foo,\nbar\n")
	if err != nil || fmt.Sprint(names(d)) != "[foo bar]" {
		t.Errorf("folded field: names %q err %v", names(d), err)
	}
	d, err = dependency.Parse("foo\t(>= 1)")
	if err != nil || d.Relations[0].Possibilities[0].Name != "foo" || d.Relations[0].Possibilities[0].Version == nil {
		t.Errorf("tab after name: %#v %v", d, err)
	}
	d, err = dependency.Parse("foo:any\n(>= 1)")
	if err != nil || d.Relations[0].Possibilities[0].Arch == nil || d.Relations[0].Possibilities[0].Arch.CPU != "any" {
		t.Errorf("newline after qualifier: %v", err)
	}
}

func TestC04_WhitespaceBeforeClosers(t *testing.T) {
	d, err := dependency.Parse("foo [ amd64 i386 ]")
	if err != nil || len(d.Relations[0].Possibilities[0].Architectures.Architectures) != 2 {
		t.Errorf("[ amd64 i386 ] gives %d architectures, err %v", len(d.Relations[0].Possibilities[0].Architectures.Architectures), err)
	}
	d, err = dependency.Parse("foo [amd64\ti386]")
	if err != nil || len(d.Relations[0].Possibilities[0].Architectures.Architectures) != 2 {
		t.Errorf("[amd64<TAB>i386]: err %v", err)
	}
	d, err = dependency.Parse("foo < a b >")
	if err != nil || len(d.Relations[0].Possibilities[0].StageSets[0].Stages) != 2 {
		t.Errorf("< a b > gives %d stages, err %v", len(d.Relations[0].Possibilities[0].StageSets[0].Stages), err)
	}
	d, err = dependency.Parse("foo (>= 1 )")
	if err != nil || d.Relations[0].Possibilities[0].Version.Number != "1" {
		t.Errorf("(>= 1 ) gives number %q", d.Relations[0].Possibilities[0].Version.Number)
	}
}

// ---- C05 ---------------------------------------------------------------------------

func roundTrip(t *testing.T, s string) {
	d, err := dependency.Parse(s)
	if err != nil {
		t.Fatalf("%q: %v", s, err)
	}
	r := d.String()
	e, err := dependency.Parse(r)
	if err != nil {
		t.Errorf("%q renders %q which is rejected: %v", s, r, err)
		return
	}
	a, _ := json.Marshal(d)
	b, _ := json.Marshal(e)
	if string(a) != string(b) {
		t.Errorf("%q renders %q; structure changes:\n  %s\n  %s", s, r, a, b)
	}
}

func TestC05_NonASCIIBytesKept(t *testing.T)  { roundTrip(t, "caf\xc3\xa9 (>= 1)") }
func TestC05_SubstvarRendered(t *testing.T)   { roundTrip(t, "${misc:Depends}, foo") }
func TestC05_EmptyGroupsNotRecorded(t *testing.T) {
	roundTrip(t, "foo <>")
	roundTrip(t, "a, |")
}
func TestC05_ArchNamesRoundTrip(t *testing.T) {
	for _, n := range []string{"linux-any", "any-amd64", "musl-linux-arm", "gnu-any-any", "any-linux-any", "gnu-linux-any", "kfreebsd-amd64", "any", "all", "amd64", "bsd-windows-i386", "gnu-linux-amd64"} {
		a, err := dependency.ParseArch(n)
		if err != nil {
			t.Fatal(err)
		}
		b, err := dependency.ParseArch(a.String())
		if err != nil || *a != *b {
			t.Errorf("%q parses to %v, renders %q, re-parses to %v", n, *a, a.String(), *b)
		}
	}
}

// ---- C07 / C08 ---------------------------------------------------------------------

func readAll(t *testing.T, s string) ([]control.Paragraph, error) {
	r, err := control.NewParagraphReader(strings.NewReader(s), nil)
	if err != nil {
		t.Fatal(err)
	}
	return r.All()
}

func TestC07_ListedOnceWithValue(t *testing.T) {
	for _, s := range []string{" orphan\nA: b\n", "A: 1\nA: 2\n"} {
		ps, err := readAll(t, s)
		if err != nil {
			continue // rejecting is fine
		}
		for _, p := range ps {
			seen := map[string]bool{}
			for _, k := range p.Order {
				if seen[k] {
					t.Errorf("%q: field %q listed twice", s, k)
				}
				seen[k] = true
			}
			for k := range p.Values {
				if !seen[k] {
					t.Errorf("%q: value stored under %q which Order does not list", s, k)
				}
			}
		}
	}
}

func TestC08_WriteReadStable(t *testing.T) {
	for _, s := range []string{"A: x\n y\n z\nB: 1\n", "A: x\n .\n .\n y\n", "A:\n x\n y\n"} {
		ps, err := readAll(t, s)
		if err != nil || len(ps) != 1 {
			t.Fatal(err)
		}
		var buf bytes.Buffer
		ps[0].WriteTo(&buf)
		for _, l := range strings.Split(strings.TrimSuffix(buf.String(), "\n"), "\n") {
			if strings.TrimSpace(l) == "" {
				t.Errorf("%q is written as %q: contains a blank line", s, buf.String())
			}
		}
		qs, err := readAll(t, buf.String())
		if err != nil || len(qs) != 1 {
			t.Errorf("%q written as %q reads back as %d paragraphs (%v)", s, buf.String(), len(qs), err)
			continue
		}
		for _, k := range ps[0].Order {
			if qs[0].Values[k] != ps[0].Values[k] {
				t.Errorf("%q: field %s %q becomes %q after write+read", s, k, ps[0].Values[k], qs[0].Values[k])
			}
		}
	}
}

// ---- C09 ---------------------------------------------------------------------------

type probe struct {
	control.Paragraph
	Count uint
	Names []string `required:"true"`
	Foo   string
}

func TestC09_UintAndEmptyListRoundTrip(t *testing.T) {
	in := probe{Count: 3, Foo: "x"}
	var buf bytes.Buffer
	if err := control.Marshal(&buf, &in); err != nil {
		t.Fatal(err)
	}
	var out probe
	if err := control.Unmarshal(&out, &buf); err != nil {
		t.Fatalf("unmarshal of own output fails: %v", err)
	}
	if out.Count != 3 || len(out.Names) != 0 {
		t.Errorf("got Count=%d Names=%q", out.Count, out.Names)
	}
}

func TestC09_ClearedKnownFieldNotResurrected(t *testing.T) {
	var p probe
	if err := control.Unmarshal(&p, strings.NewReader("Names: a\nFoo: x\nX-Extra: keep\n")); err != nil {
		t.Fatal(err)
	}
	p.Foo = ""
	var buf bytes.Buffer
	control.Marshal(&buf, &p)
	if strings.Contains(buf.String(), "Foo:") || !strings.Contains(buf.String(), "X-Extra: keep") {
		t.Errorf("after clearing Foo the output is %q", buf.String())
	}
}

type verProbe struct {
	control.Paragraph
	Version version.Version
}

func TestC09_UnknownFieldsDoNotLeakIntoNestedValues(t *testing.T) {
	var p verProbe
	err := control.Unmarshal(&p, strings.NewReader("Version: 1.0\nRevision: 9\nEpoch: 3\nValues: x\n"))
	if err != nil {
		t.Fatalf("unknown fields named like inner struct fields break decoding: %v", err)
	}
	if p.Version != (version.Version{Version: "1.0"}) {
		t.Errorf("Version decoded as %#v", p.Version)
	}
}

// ---- C10 / C19 / C12 ---------------------------------------------------------------

func TestC10_DSCListsTrimmed(t *testing.T) {
	d, err := control.ParseDsc(bufio.NewReader(strings.NewReader(
		"Format: 1.0\nSource: s\nBinary: a, b,\n c\nVersion: 1\nMaintainer: M <m@x>\nUploaders: A B <a@x>, C D <c@x>\n")), "")
	if err != nil {
		t.Fatal(err)
	}
	if fmt.Sprintf("%q", d.Binaries) != `["a" "b" "c"]` {
		t.Errorf("Binaries %q", d.Binaries)
	}
	if fmt.Sprintf("%q", d.Uploaders) != `["A B <a@x>" "C D <c@x>"]` {
		t.Errorf("Uploaders %q", d.Uploaders)
	}
}

func TestC10_FoldedSpaceSeparatedLists(t *testing.T) {
	c, err := control.ParseChanges(bufio.NewReader(strings.NewReader(
		"Format: 1.8\nSource: s\nBinary: a b\n c d\nArchitecture: source\n amd64\nVersion: 1\n")), "")
	if err != nil {
		t.Fatal(err)
	}
	if fmt.Sprintf("%q", c.Binaries) != `["a" "b" "c" "d"]` || len(c.Architectures) != 2 {
		t.Errorf("Binaries %q Architectures %v", c.Binaries, c.Architectures)
	}
}

func TestC12_Sha512EntriesVerify(t *testing.T) {
	data := []byte("hello")
	sum := sha512.Sum512(data)
	var b control.BestChecksums
	err := control.Unmarshal(&b, strings.NewReader(fmt.Sprintf("Checksums-Sha512:\n %x 5 f\n", sum)))
	if err != nil {
		t.Fatal(err)
	}
	fh := b.Checksums()[0]
	if fh.Algorithm != "sha512" {
		t.Errorf("entry of Checksums-Sha512 tagged %q", fh.Algorithm)
	}
	w, err := fh.Verifier()
	if err != nil {
		t.Fatal(err)
	}
	w.Write(data)
	if err := w.Close(); err != nil {
		t.Errorf("correct SHA-512 digest rejected: %v", err)
	}
}

func TestC12_VerifierForEveryAlgorithm(t *testing.T) {
	if os.Getenv("FINDINGS_CHILD") == "1" {
		for _, alg := range []string{"md5", "sha1"} {
			fh := control.FileHash{Algorithm: alg, Hash: "00"}
			if _, err := fh.Verifier(); err != nil {
				fmt.Println("verifier error:", err)
			}
		}
		fh := control.FileHash{Algorithm: "nope", Hash: "00"}
		if _, err := fh.Verifier(); err == nil {
			os.Exit(3)
		}
		os.Exit(0)
	}
	cmd := exec.Command(os.Args[0], "-test.run", "TestC12_VerifierForEveryAlgorithm")
	cmd.Env = append(os.Environ(), "FINDINGS_CHILD=1")
	if out, err := cmd.CombinedOutput(); err != nil {
		t.Errorf("Verifier() on an md5/sha1/unknown entry terminates the process: %v\n%s", err, out)
	}
}

// ---- C15 / C16 ---------------------------------------------------------------------

func arHeader(name string, size string) string {
	return fmt.Sprintf("%-16s%-12s%-6s%-6s%-8s%-10s`\n", name, "0", "0", "0", "644", size)
}

func TestC15_ArHostileHeaders(t *testing.T) {
	done := make(chan string, 1)
	go func() {
		a, err := deb.LoadAr(bytes.NewReader([]byte("!<arch>\n" + arHeader("x", "-60") + "junk")))
		if err != nil {
			done <- ""
			return
		}
		for i := 0; i < 1000; i++ {
			e, err := a.Next()
			if err != nil {
				done <- ""
				return
			}
			if e.Size < 0 {
				done <- "negative size returned"
				return
			}
		}
		done <- "iteration does not end"
	}()
	select {
	case s := <-done:
		if s != "" {
			t.Error(s)
		}
	case <-time.After(5 * time.Second):
		t.Error("hang")
	}
	h := []byte("!<arch>\n" + arHeader("x", "0"))
	h[8+58] = 'X' // first magic byte wrong, second right
	a, _ := deb.LoadAr(bytes.NewReader(h))
	if _, err := a.Next(); err == nil {
		t.Error("header with a wrong magic byte accepted")
	}
	a, _ = deb.LoadAr(bytes.NewReader([]byte("!<arch>\n" + arHeader("x", "100") + "short")))
	if e, err := a.Next(); err == nil {
		n, _ := io.Copy(io.Discard, e.Data)
		if n != e.Size {
			t.Errorf("member of size %d delivers %d bytes", e.Size, n)
		}
	}
}

// ---- C17 / C18 ---------------------------------------------------------------------

const clEntry = "foo (1.0-1) unstable; urgency=low\n\n  * change\n\n -- A B <a@b>  Mon, 02 Jan 2006 15:04:05 -0700\n"

func TestC17_TruncationNeverShortensSilently(t *testing.T) {
	full := clEntry + "\n" + strings.Replace(clEntry, "1.0-1", "0.9-1", 1)
	for cut := 1; cut < len(full); cut++ {
		es, err := changelog.Parse(strings.NewReader(full[:cut]))
		if err != nil {
			continue
		}
		// how many complete entries does the prefix hold?
		want := 0
		if cut >= len(clEntry)-1 {
			want = 1
		}
		if len(es) < want || (len(es) == want && hasPartialEntry(full, cut, want)) {
			t.Errorf("cut at %d: %d entries, no error, although the text ends inside an entry", cut, len(es))
			return
		}
	}
	es, err := changelog.Parse(strings.NewReader(strings.TrimSuffix(full, "\n")))
	if err == nil && len(es) != 2 {
		t.Errorf("without the final newline: %d entries and no error", len(es))
	}
}

func hasPartialEntry(full string, cut, complete int) bool {
	start := 0
	if complete == 1 {
		start = len(clEntry)
	}
	if start > cut {
		return false
	}
	return strings.TrimSpace(full[start:cut]) != ""
}

func TestC18_NoValueWithError(t *testing.T) {
	if v, err := version.Parse("5:1.0!"); err != nil && v != (version.Version{}) {
		t.Errorf("version.Parse returns %#v together with %v", v, err)
	}
	if c, err := control.ParseChanges(bufio.NewReader(strings.NewReader("Version: 1 2\n")), ""); err != nil && c != nil {
		t.Errorf("ParseChanges returns a value together with %v", err)
	}
	if l, err := control.ParseBinaryIndex(bufio.NewReader(strings.NewReader("Package: a\n\nVersion: x y\n"))); err != nil && len(l) != 0 {
		t.Errorf("ParseBinaryIndex returns %d entries together with %v", len(l), err)
	}
}

// ---- C20 ---------------------------------------------------------------------------

func TestC20_ListedNamesStayInDirectory(t *testing.T) {
	root := t.TempDir()
	src, dst, out := filepath.Join(root, "src"), filepath.Join(root, "dst"), filepath.Join(root, "outside")
	for _, d := range []string{src, dst, out} {
		os.Mkdir(d, 0o755)
	}
	os.WriteFile(filepath.Join(out, "secret"), []byte("s"), 0o644)
	dsc := "Format: 1.0\nSource: s\nVersion: 1\nFiles:\n d41d8cd98f00b204e9800998ecf8427e 1 ../outside/secret\n"
	os.WriteFile(filepath.Join(src, "s.dsc"), []byte(dsc), 0o644)
	d, err := control.ParseDscFile(filepath.Join(src, "s.dsc"))
	if err != nil {
		t.Fatal(err)
	}
	d.Copy(dst)
	if _, err := os.Stat(filepath.Join(dst, "secret")); err == nil {
		t.Error("a file outside the .dsc's directory was copied into the destination")
	}
	d2, _ := control.ParseDscFile(filepath.Join(src, "s.dsc"))
	d2.Remove()
	if _, err := os.Stat(filepath.Join(out, "secret")); err != nil {
		t.Error("a file outside the .dsc's directory was deleted")
	}
}

func TestC05_StageNegationAndEmptyCPU(t *testing.T) {
	roundTrip(t, "foo [gnu-linux- a]")
	if d, err := dependency.Parse("foo <cross!> | bar [!i386]"); err == nil {
		t.Errorf("a '!' after a profile name is accepted: %v", d)
	}
}

func TestC10_IndexFieldNames(t *testing.T) {
	bi, err := control.ParseBinaryIndex(bufio.NewReader(strings.NewReader("Package: a\nTag: role::program, scope::utility\n")))
	if err != nil || len(bi) != 1 || len(bi[0].Tags) != 2 {
		t.Errorf("Packages Tag field not decoded: %v %v", bi, err)
	}
	si, err := control.ParseSourceIndex(bufio.NewReader(strings.NewReader("Package: a\nStandards-Version: 4.6.2\n")))
	if err != nil || len(si) != 1 || si[0].StandardsVersion != "4.6.2" {
		t.Errorf("Sources Standards-Version field not decoded: %v %v", si, err)
	}
}

func TestC08_StableOnOddReaderOutput(t *testing.T) {
	for _, s := range []string{"\r#foo: bar\n", "a:\n \rx\n", "\v#k: v\nb: c\n"} {
		ps, err := readAll(t, s)
		if err != nil {
			continue // rejecting such input is fine
		}
		var buf bytes.Buffer
		for i := range ps {
			ps[i].WriteTo(&buf)
		}
		qs, err := readAll(t, buf.String())
		if err != nil || len(qs) != len(ps) {
			t.Errorf("%q reads as %d paragraphs, written %q, which reads as %d (%v)", s, len(ps), buf.String(), len(qs), err)
			continue
		}
		for i := range ps {
			for _, k := range ps[i].Order {
				if strings.TrimSuffix(qs[i].Values[k], "\n") != strings.TrimSuffix(ps[i].Values[k], "\n") {
					t.Errorf("%q: field %q %q becomes %q", s, k, ps[i].Values[k], qs[i].Values[k])
				}
			}
		}
	}
}

// found while proving that plain listed names stay in the control file's directory
// (GoDebian/Lemmas/Paths.lean): filepath.Base("/") is "/", so "/" counted as a plain name
func TestC20_ListedNameOfSlashes(t *testing.T) {
	for _, name := range []string{"/", "//"} {
		root := t.TempDir()
		src, dst := filepath.Join(root, "src"), filepath.Join(root, "dst")
		os.Mkdir(src, 0o755)
		os.Mkdir(dst, 0o755)
		os.WriteFile(filepath.Join(src, "bystander"), []byte("x"), 0o644)
		os.WriteFile(filepath.Join(src, "s.dsc"), []byte("Format: 1.0\nSource: s\nVersion: 1\nFiles:\n d41d8cd98f00b204e9800998ecf8427e 1 "+name+"\n"), 0o644)
		d, err := control.ParseDscFile(filepath.Join(src, "s.dsc"))
		if err != nil {
			t.Fatal(err)
		}
		if err := d.Move(dst); err == nil {
			t.Errorf("listed name %q: Move succeeded", name)
		}
		if _, err := os.Stat(filepath.Join(src, "s.dsc")); err != nil {
			t.Errorf("listed name %q: the move failed but the control file left its source (the whole directory was renamed into the destination)", name)
		}
	}
}

// found when real Debian field names were given to the typed documents as unknown fields
func TestC10_FilenameFieldDoesNotMoveTheHandle(t *testing.T) {
	root := t.TempDir()
	up, victim := filepath.Join(root, "upload"), filepath.Join(root, "victim")
	os.Mkdir(up, 0o755)
	os.Mkdir(victim, 0o755)
	os.WriteFile(filepath.Join(victim, "precious"), []byte("x"), 0o644)
	os.WriteFile(filepath.Join(up, "precious"), []byte("y"), 0o644)
	doc := "Format: 1.0\nSource: s\nVersion: 1\nFilename: " + victim + "/whatever.dsc\nFiles:\n d41d8cd98f00b204e9800998ecf8427e 1 precious\n"
	os.WriteFile(filepath.Join(up, "s_1.dsc"), []byte(doc), 0o644)
	d, err := control.ParseDscFile(filepath.Join(up, "s_1.dsc"))
	if err != nil {
		t.Fatal(err)
	}
	if d.Filename != filepath.Join(up, "s_1.dsc") {
		t.Errorf("the handle's Filename was taken from the document: %q", d.Filename)
	}
	d.Remove()
	if _, err := os.Stat(filepath.Join(victim, "precious")); err != nil {
		t.Errorf("a file in another directory was deleted: %v", err)
	}
}
