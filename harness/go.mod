module verif/harness

go 1.19

require (
	github.com/kjk/lzma v0.0.0-20161016003348-3fd93898850d
	github.com/klauspost/compress v1.16.5
	github.com/xi2/xz v0.0.0-20171230120015-48954b6210f8
	golang.org/x/crypto v0.9.0
	pault.ag/go/debian v0.0.0
)

require pault.ag/go/topsort v0.1.1 // indirect

replace pault.ag/go/debian => /repo
