module verif/harness

go 1.19

require pault.ag/go/debian v0.0.0

replace pault.ag/go/debian => /repo
