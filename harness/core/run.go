package core

import (
	"encoding/json"
	"fmt"
	"os"
	"os/exec"
	"path/filepath"
	"regexp"
	"runtime"
	"sort"
	"strings"
	"sync"
	"sync/atomic"
	"time"
)

// Adapter runs one operation against the real go-debian API and returns the
// canonical answer (same format as the Lean driver prints for that operation).
type Adapter func(args []string) string

// G is what a stream generator gets: the PRNG, the tier, and Emit.
type G struct {
	R         *Rand
	Thorough  bool
	Scale     int // 1 normally; raised while searching for a witness
	Escalated bool
	ops       []string
	gens      []genReq
	bytes     int // total size of the operation lines of this stream so far
	Dropped   int // operation lines not accepted because the stream's memory budget was used up
}

// streamBudget bounds the operation lines one stream may hold (they are kept in memory together
// with both sides' answers: a few times this figure is what the run needs)
const streamBudget = 1500 << 20

func (g *G) admit(n int) bool {
	if g.bytes+n > streamBudget {
		g.Dropped++
		return false
	}
	g.bytes += n
	return true
}

type genReq struct {
	line string
	mk   func(out string) []string
}

// EmitGen asks the Lean driver to produce an input first (e.g. the specification's
// rendering of a document model under a layout); mk turns the driver's answer into the
// operation lines that are then run on implementation and model.
func (g *G) EmitGen(mk func(out string) []string, op string, args ...string) {
	n := len(op)
	for _, a := range args {
		n += len(a) + 1
	}
	if !g.admit(2 * n) {
		return
	}
	g.gens = append(g.gens, genReq{line: op + " " + strings.Join(args, " "), mk: mk})
}

func (g *G) resolveGens() error {
	if len(g.gens) == 0 {
		return nil
	}
	lines := make([]string, len(g.gens))
	for i, r := range g.gens {
		lines[i] = r.line
	}
	outs, err := RunDriver(lines)
	if err != nil {
		return err
	}
	for i, r := range g.gens {
		if outs[i] == "bad-op" {
			return fmt.Errorf("driver rejected generator line %q", clip(r.line, 200))
		}
		g.ops = append(g.ops, r.mk(outs[i])...)
	}
	g.gens = nil
	return nil
}

// N picks a case count for the tier.
func (g *G) N(quick, thorough int) int {
	if g.Escalated {
		// quick tier with an unavailable fact / changed fingerprint: more cases, but the
		// check has to stay a quick one
		n := quick * 8
		if n > thorough {
			n = thorough
		}
		return n * g.Scale
	}
	if g.Thorough {
		return thorough * g.Scale
	}
	return quick * g.Scale
}

// Emit queues one operation line: op name and already-encoded arguments.
func (g *G) Emit(op string, args ...string) {
	n := len(op)
	for _, a := range args {
		n += len(a) + 1
	}
	if !g.admit(n) {
		return
	}
	if len(args) == 0 {
		g.ops = append(g.ops, op)
		return
	}
	g.ops = append(g.ops, op+" "+strings.Join(args, " "))
}

type Stream struct {
	Name   string
	Domain string // which inputs it draws and which observables it compares
	Gen    func(g *G)
}

// Fact is an extracted source fact the property's tie theorems rest on.
type Property struct {
	ID          string
	PropsModule string
	TieModule   string
	Theorems    []string // audited property theorems (fully qualified)
	TieTheorems []string // audited tie theorems
	Open        []string // statements kept at full strength that are not proved yet
	Facts       []string
	Streams     []Stream
	Impl        map[string]Adapter
	TrustedBase []string
	Assumptions []string
	// Classify maps a failing case to the key under which known_findings.json
	// would list it ("" = use the op line).
	Classify func(c *CaseResult) string
	// Readable renders an op line for humans (replay files, samples).
	Readable func(op string, args []string) string
}

type CaseResult struct {
	Stream string `json:"stream"`
	Op     string `json:"op"`
	Text   string `json:"readable,omitempty"`
	Impl   string `json:"implementation"`
	Model  string `json:"model,omitempty"`
	Spec   string `json:"spec,omitempty"`
	Kind   string `json:"kind"` // spec-violation | law-failure | model-mismatch
	Key    string `json:"key,omitempty"`
}

var registry = map[string]*Property{}

func Register(p *Property) { registry[p.ID] = p }
func Lookup(id string) *Property {
	return registry[id]
}
func AllIDs() []string {
	var ids []string
	for id := range registry {
		ids = append(ids, id)
	}
	sort.Strings(ids)
	return ids
}

// ---------------------------------------------------------------------------------

func splitOp(line string) (string, []string) {
	f := strings.Fields(line)
	if len(f) == 0 {
		return "", nil
	}
	return f[0], f[1:]
}

func isLaw(op string) bool { return strings.HasPrefix(op, "law-") }

// callAdapter runs an adapter with panic capture and a watchdog.
func callAdapter(a Adapter, args []string, timeout time.Duration) string {
	ch := make(chan string, 1)
	go func() {
		defer func() {
			if r := recover(); r != nil {
				ch <- "panic"
			}
		}()
		ch <- a(args)
	}()
	select {
	case s := <-ch:
		return s
	case <-time.After(timeout):
		return "hang"
	}
}

// ExclusiveOps names the operations that change process-wide state (time.Local) while they run:
// no other operation runs next to one of them.
var ExclusiveOps = map[string]bool{}

var exclusive sync.RWMutex

func (p *Property) runImpl(ops []string) []string {
	out := make([]string, len(ops))
	var wg sync.WaitGroup
	workers := runtime.NumCPU()
	idx := make(chan int, 1024)
	var hangs int32
	for w := 0; w < workers; w++ {
		wg.Add(1)
		go func() {
			defer wg.Done()
			for i := range idx {
				if atomic.LoadInt32(&hangs) >= 12 {
					// a dozen operations are already stuck (each one keeps a core busy for good):
					// the rest of the stream is not run, the check reports what it has
					out[i] = "not-run"
					continue
				}
				op, args := splitOp(ops[i])
				a := p.Impl[op]
				if a == nil {
					out[i] = "no-adapter"
					continue
				}
				if ExclusiveOps[op] {
					exclusive.Lock()
					out[i] = callAdapter(a, args, 20*time.Second)
					exclusive.Unlock()
				} else {
					exclusive.RLock()
					out[i] = callAdapter(a, args, 20*time.Second)
					exclusive.RUnlock()
				}
				if out[i] == "hang" {
					atomic.AddInt32(&hangs, 1)
				}
			}
		}()
	}
	for i := range ops {
		idx <- i
	}
	close(idx)
	wg.Wait()
	// an operation that did not finish within the watchdog's time while sixteen others (and
	// whatever else the machine is doing) were running is run once more on its own with a much
	// longer limit: only what still does not return counts as a hang
	// (at most three are re-run: when they hang again the others are taken to hang as well)
	confirmed := 0
	for i := range ops {
		if out[i] == "hang" && confirmed < 3 {
			op, args := splitOp(ops[i])
			out[i] = callAdapter(p.Impl[op], args, 120*time.Second)
			if out[i] == "hang" {
				confirmed++
			}
		}
	}
	return out
}

// splitSpec separates "model ; spec=S" into (model, S, hasSpec).
func splitSpec(line string) (string, string, bool) {
	if i := strings.Index(line, " ; spec="); i >= 0 {
		return line[:i], line[i+8:], true
	}
	return line, "", false
}

type streamStats struct {
	Cases    int            `json:"cases"`
	Distinct int            `json:"distinct"`
	Outcomes map[string]int `json:"impl_outcome_classes"`
	SizeHist map[string]int `json:"op_length_histogram"`
	SpecSeen int            `json:"cases_with_spec_verdict"`
	Domain   string         `json:"domain,omitempty"`
	Dropped  int            `json:"operations_dropped_by_memory_budget,omitempty"`
}

func sizeBucket(n int) string {
	switch {
	case n < 16:
		return "<16"
	case n < 64:
		return "<64"
	case n < 256:
		return "<256"
	case n < 1024:
		return "<1k"
	case n < 8192:
		return "<8k"
	default:
		return ">=8k"
	}
}

// evalOps runs ops on implementation and model and classifies every disagreement.
func (p *Property) evalOps(stream string, ops []string, st *streamStats, seen map[string]bool) ([]CaseResult, error) {
	impl := p.runImpl(ops)
	var drvOps []string
	var drvIdx []int
	for i, l := range ops {
		op, _ := splitOp(l)
		if !isLaw(op) {
			drvOps = append(drvOps, l)
			drvIdx = append(drvIdx, i)
		}
	}
	drvOut, err := RunDriver(drvOps)
	if err != nil {
		return nil, err
	}
	model := make([]string, len(ops))
	for k, i := range drvIdx {
		model[i] = drvOut[k]
	}
	var bad []CaseResult
	for i, l := range ops {
		if impl[i] == "not-run" {
			continue // the stream was cut short after a dozen hangs: nothing to compare
		}
		op, args := splitOp(l)
		if st != nil {
			st.Cases++
			if !seen[l] {
				seen[l] = true
				st.Distinct++
			}
			cls := impl[i]
			if j := strings.IndexByte(cls, ' '); j >= 0 {
				cls = cls[:j]
			}
			if len(cls) > 12 {
				cls = "value"
			}
			st.Outcomes[cls]++
			st.SizeHist[sizeBucket(len(l))]++
		}
		mk := func(kind string, m, s string) CaseResult {
			c := CaseResult{Stream: stream, Op: l, Impl: impl[i], Model: m, Spec: s, Kind: kind}
			if p.Readable != nil {
				c.Text = p.readable(op, args)
			}
			if p.Classify != nil {
				c.Key = p.Classify(&c)
			}
			if c.Key == "" {
				c.Key = l
			}
			return c
		}
		if isLaw(op) {
			if impl[i] != "ok" {
				bad = append(bad, mk("law-failure", "", "ok"))
			}
			continue
		}
		m, s, has := splitSpec(model[i])
		if has && st != nil {
			st.SpecSeen++
		}
		if m == "bad-op" {
			return nil, fmt.Errorf("driver rejected op line %q", l)
		}
		if has && s != "any" && impl[i] != s {
			bad = append(bad, mk("spec-violation", m, s))
			continue
		}
		if impl[i] != m {
			bad = append(bad, mk("model-mismatch", m, s))
		}
	}
	return bad, nil
}

// ---------------------------------------------------------------------------------

type KnownFinding struct {
	Property string `json:"property"`
	Key      string `json:"key"`
	What     string `json:"what"`
}
type FixedFinding struct {
	Property string `json:"property"`
	Commit   string `json:"commit"`
	What     string `json:"what"`
}
type KnownFile struct {
	Findings []KnownFinding `json:"findings"`
	Fixed    []FixedFinding `json:"fixed"`
}

func loadKnown() KnownFile {
	var k KnownFile
	data, err := os.ReadFile(filepath.Join(VerifRoot(), "known_findings.json"))
	if err == nil {
		json.Unmarshal(data, &k)
	}
	return k
}

// ---------------------------------------------------------------------------------

type Broken struct {
	What   string `json:"what"`   // theorem / tie theorem / stream / build step
	Detail string `json:"detail"` // compiler output excerpt, counts
}

type Replay struct {
	Property string       `json:"property"`
	Kind     string       `json:"kind"` // counterexample | no-failing-input-found
	Seed     uint64       `json:"seed"`
	Tier     string       `json:"tier"`
	Cases    []CaseResult `json:"cases,omitempty"`
	Broken   []Broken     `json:"no_longer_checks,omitempty"`
	Rerun    string       `json:"rerun"`
	Note     string       `json:"note,omitempty"`
}

func tail(s string, n int) string {
	lines := strings.Split(strings.TrimSpace(s), "\n")
	if len(lines) > n {
		lines = lines[len(lines)-n:]
	}
	return strings.Join(lines, "\n")
}

func errLines(s string, n int) string {
	var keep []string
	for _, l := range strings.Split(s, "\n") {
		if strings.Contains(l, "error") || strings.Contains(l, "Error") {
			keep = append(keep, l)
		}
	}
	if len(keep) == 0 {
		return tail(s, n)
	}
	if len(keep) > n {
		keep = keep[:n]
	}
	return strings.Join(keep, "\n")
}

type Options struct {
	Tier     string
	Seed     uint64
	ExtractF func() (map[string]string, error) // regenerates Extracted/*.lean; fact -> status
}

// Run is the whole check for one property. Returns the process exit code.
func Run(p *Property, o Options) int {
	t0 := time.Now()
	thorough := o.Tier == "thorough"
	// theorems are discovered from the property's own Lean files (Props/Cxx.lean holds
	// property theorems only); names listed explicitly in the registration are required.
	p.Theorems = mergeNames(p.Theorems, discoverTheorems(p.PropsModule))
	for _, tm := range tieModules(p) {
		p.TieTheorems = mergeNames(p.TieTheorems, discoverTheorems(tm))
	}
	root := VerifRoot()
	var broken []Broken
	var notes []string

	// ---- 1. regenerate facts, build Lean, audit (under the project lock)
	unlock := LockLean()
	facts := map[string]string{}
	if o.ExtractF != nil {
		f, err := o.ExtractF()
		if err != nil {
			unlock()
			fmt.Printf("INFRASTRUCTURE-ERROR extractor: %v\n", err)
			return 2
		}
		facts = f
	}
	if ok, out := LakeBuild("driver"); !ok {
		unlock()
		fmt.Printf("INFRASTRUCTURE-ERROR lake build driver failed:\n%s\n", tail(out, 30))
		return 2
	}
	propsOK := true
	if p.PropsModule != "" {
		if ok, out := LakeBuild(p.PropsModule); !ok {
			propsOK = false
			broken = append(broken, Broken{"lake build " + p.PropsModule, errLines(out, 12)})
		}
	}
	tieOK := true
	for _, tm := range tieModules(p) {
		if ok, out := LakeBuild(tm); !ok {
			tieOK = false
			broken = append(broken, Broken{"tie: lake build " + tm + " (an extracted fact no longer matches the model)", errLines(out, 12)})
		}
	}
	var mods []string
	var thms []string
	if propsOK && p.PropsModule != "" {
		mods = append(mods, p.PropsModule)
		thms = append(thms, p.Theorems...)
	}
	if tieOK && p.TieModule != "" {
		mods = append(mods, tieModules(p)...)
		thms = append(thms, p.TieTheorems...)
	}
	axioms, checkerCmd, auditOut := Audit(mods, thms)
	if thorough && len(mods) > 0 {
		// independent re-check of the compiled modules
		for _, m := range mods {
			ok, out := runIn(LeanDir(), "lake", "env", "leanchecker", m)
			if !ok {
				broken = append(broken, Broken{"leanchecker " + m, tail(out, 8)})
			} else {
				notes = append(notes, "leanchecker "+m+": ok")
			}
		}
		checkerCmd += " && lake env leanchecker " + strings.Join(mods, " ")
	}
	forbidden := GrepForbidden()
	unlock()

	discharged := 0
	obligations := len(p.Theorems) + len(p.TieTheorems) + len(p.Streams)
	axiomReport := map[string][]string{}
	for _, t := range append(append([]string{}, p.Theorems...), p.TieTheorems...) {
		ax, ok := axioms[t]
		if !ok {
			if (propsOK || !contains(p.Theorems, t)) && (tieOK || !contains(p.TieTheorems, t)) {
				broken = append(broken, Broken{"theorem " + t, "not found / does not elaborate: " + errLines(auditOut, 4)})
			}
			continue
		}
		axiomReport[t] = ax
		if b := BadAxioms(ax); len(b) > 0 {
			broken = append(broken, Broken{"theorem " + t, "depends on axioms outside the trusted base: " + strings.Join(b, ", ")})
			continue
		}
		discharged++
	}
	if len(forbidden) > 0 {
		broken = append(broken, Broken{"source scan", "forbidden construct: " + strings.Join(forbidden, "; ")})
	}
	factReport := map[string]string{}
	escalate := false
	for _, f := range p.Facts {
		s, ok := facts[f]
		if !ok {
			s = "unavailable: not produced"
		}
		factReport[f] = s
		if s != "read" {
			escalate = true
		}
	}

	// ---- 2. correspondence streams
	rng := NewRand(o.Seed)
	stats := map[string]*streamStats{}
	var concrete, mismatch []CaseResult
	var samples []interface{}
	total, distinct := 0, 0
	perStream := map[string][]CaseResult{}
	streamSize := map[string]int{}
	runStreams := func(scale int, thoroughGen bool, record bool, r *Rand) error {
		// corpus first
		for _, s := range p.Streams {
			g := &G{R: r.Fork(s.Name), Thorough: thoroughGen && thorough, Scale: scale, Escalated: thoroughGen && !thorough}
			if record {
				g.ops = append(g.ops, loadCorpus(root, p.ID, s.Name)...)
			}
			s.Gen(g)
			if err := g.resolveGens(); err != nil {
				return err
			}
			var st *streamStats
			var seen map[string]bool
			if record {
				st = &streamStats{Outcomes: map[string]int{}, SizeHist: map[string]int{}, Domain: s.Domain, Dropped: g.Dropped}
				stats[s.Name] = st
				seen = map[string]bool{}
			}
			bad, err := p.evalOps(s.Name, g.ops, st, seen)
			if err != nil {
				return err
			}
			if record {
				total += st.Cases
				distinct += st.Distinct
				for i := 0; i < len(g.ops) && i < 3; i++ {
					k := (i * 7919) % len(g.ops)
					op, args := splitOp(g.ops[k])
					smp := map[string]string{"stream": s.Name, "op": clip(g.ops[k], 300)}
					if p.Readable != nil {
						smp["readable"] = clip(p.readable(op, args), 300)
					}
					samples = append(samples, smp)
				}
			}
			for _, c := range bad {
				if record {
					perStream[s.Name] = append(perStream[s.Name], c)
				}
				if c.Kind == "model-mismatch" {
					mismatch = append(mismatch, c)
				} else {
					concrete = append(concrete, c)
				}
			}
			if record {
				streamSize[s.Name] = len(g.ops)
			}
		}
		return nil
	}
	scale := 1
	if escalate {
		notes = append(notes, "an extracted fact was unavailable: correspondence streams escalated to thorough size")
	}
	if err := runStreams(scale, thorough || escalate, true, rng); err != nil {
		fmt.Printf("INFRASTRUCTURE-ERROR %v\n", err)
		return 2
	}

	// ---- 3. known findings
	known := loadKnown()
	knownKeys := map[string]string{}
	for _, k := range known.Findings {
		if k.Property == p.ID {
			knownKeys[k.Key] = k.What
		}
	}
	printedKnown := map[string]bool{}
	filter := func(cs []CaseResult) []CaseResult {
		var out []CaseResult
		for _, c := range cs {
			if what, ok := knownKeys[c.Key]; ok {
				if !printedKnown[c.Key] {
					printedKnown[c.Key] = true
					fmt.Printf("KNOWN-FINDING: property=%s %s [key=%s]\n", p.ID, what, c.Key)
				}
				continue
			}
			out = append(out, c)
		}
		return out
	}
	concrete = filter(concrete)
	mismatch = filter(mismatch)
	for _, st := range p.Streams {
		left := filter(perStream[st.Name])
		nm, nc := 0, 0
		for _, c := range left {
			if c.Kind == "model-mismatch" {
				nm++
			} else {
				nc++
			}
		}
		switch {
		case nm == 0 && nc == 0:
			discharged++
		case nm > 0:
			broken = append(broken, Broken{"correspondence stream " + st.Name,
				fmt.Sprintf("%d of %d cases: model and implementation disagree (plus %d cases where the implementation contradicts the specification)", nm, streamSize[st.Name], nc)})
		default:
			broken = append(broken, Broken{"stream " + st.Name, fmt.Sprintf("%d of %d cases: the implementation contradicts the specification", nc, streamSize[st.Name])})
		}
	}

	// ---- 4. search for a concrete failing input when only an obligation broke
	searched := 0
	if len(concrete) == 0 && len(broken) > 0 {
		budget := 45 * time.Second
		if thorough {
			budget = 240 * time.Second
		}
		deadline := time.Now().Add(budget)
		saveMis := mismatch
		for round := 1; time.Now().Before(deadline) && len(concrete) == 0 && round <= 12; round++ {
			mismatch = nil
			r := NewRand(o.Seed*1000003 + uint64(round))
			if err := runStreams(1+round/3, true, false, r); err != nil {
				break
			}
			concrete = filter(concrete)
			searched++
		}
		mismatch = append(saveMis, filter(mismatch)...)
	}

	// ---- 5. verdict, replay, evidence
	violations := 0
	exit := 0
	os.MkdirAll(filepath.Join(root, "replays"), 0o755)
	if len(concrete) > 0 {
		sort.SliceStable(concrete, func(i, j int) bool { return len(concrete[i].Op) < len(concrete[j].Op) })
		byKey := map[string]bool{}
		var keep []CaseResult
		for _, c := range concrete {
			if !byKey[c.Key] && len(keep) < 10 {
				byKey[c.Key] = true
				keep = append(keep, c)
			}
		}
		path := filepath.Join(root, "replays", fmt.Sprintf("%s-%s-%d.json", p.ID, o.Tier, o.Seed))
		rp := Replay{Property: p.ID, Kind: "counterexample", Seed: o.Seed, Tier: o.Tier, Cases: keep, Broken: broken,
			Rerun: fmt.Sprintf("cd %s && ./check %s --replay %s", root, p.ID, path)}
		writeJSON(path, rp)
		fmt.Printf("VIOLATION property=%s replay=%s\n", p.ID, path)
		violations = len(concrete)
		exit = 1
	} else if len(broken) > 0 {
		path := filepath.Join(root, "replays", fmt.Sprintf("%s-%s-%d-nowitness.json", p.ID, o.Tier, o.Seed))
		if len(mismatch) > 10 {
			sort.SliceStable(mismatch, func(i, j int) bool { return len(mismatch[i].Op) < len(mismatch[j].Op) })
			mismatch = mismatch[:10]
		}
		rp := Replay{Property: p.ID, Kind: "no-failing-input-found", Seed: o.Seed, Tier: o.Tier, Cases: mismatch, Broken: broken,
			Rerun: fmt.Sprintf("cd %s && ./check %s --replay %s", root, p.ID, path),
			Note:  fmt.Sprintf("the listed theorem / tie / correspondence no longer checks; %d extra search rounds over the streams found no input on which the implementation contradicts the specification", searched)}
		writeJSON(path, rp)
		fmt.Printf("VIOLATION property=%s replay=%s no-failing-input-found\n", p.ID, path)
		violations = len(broken)
		exit = 1
	}

	var knownPrinted []string
	for k := range printedKnown {
		knownPrinted = append(knownPrinted, k)
	}
	sort.Strings(knownPrinted)
	var obligationNames []string
	obligationNames = append(obligationNames, p.Theorems...)
	obligationNames = append(obligationNames, p.TieTheorems...)
	for _, s := range p.Streams {
		obligationNames = append(obligationNames, "stream:"+s.Name)
	}
	if len(samples) == 0 {
		samples = append(samples, obligationNames)
	}
	ev := map[string]interface{}{
		"property_id": p.ID,
		"tier":        o.Tier,
		"seed":        o.Seed,
		"level":       "proof",
		"wall_s":      time.Since(t0).Seconds(),
		"violations":  violations,
		"assumptions": p.Assumptions,
		"coverage": map[string]interface{}{
			"obligations":          obligations,
			"discharged":           discharged,
			"obligation_names":     obligationNames,
			"open_full_statements": p.Open,
			"checker_cmd":          checkerCmd,
			"trusted_base":         p.TrustedBase,
			"axioms":               axiomReport,
			"extracted_facts":      factReport,
			"evaluations":          total,
			"distinct_nontrivial":  distinct,
			"rule":                 "every case is one operation line run on the real API in-process and on the Lean model/spec through the driver; distinct = distinct operation lines within a stream (all are non-trivial by construction of the generators: see each stream's domain); outcome classes per stream show how many were accepted / rejected",
			"samples":              samples,
			"streams":              stats,
			"no_longer_checks":     broken,
			"known_findings_shown": knownPrinted,
			"search_rounds":        searched,
			"notes":                notes,
		},
	}
	if checkerCmd == "" {
		checkerCmd = fmt.Sprintf("cd %s && lake build driver %s %s", LeanDir(), p.PropsModule, p.TieModule)
	}
	ev["coverage"].(map[string]interface{})["checker_cmd"] = checkerCmd
	if p.Assumptions == nil {
		ev["assumptions"] = []string{}
	}
	os.MkdirAll(filepath.Join(root, "evidence"), 0o755)
	writeJSON(filepath.Join(root, "evidence", p.ID+".json"), ev)
	if exit == 0 {
		// no stale replay files for this (property, tier, seed)
		os.Remove(filepath.Join(root, "replays", fmt.Sprintf("%s-%s-%d.json", p.ID, o.Tier, o.Seed)))
		os.Remove(filepath.Join(root, "replays", fmt.Sprintf("%s-%s-%d-nowitness.json", p.ID, o.Tier, o.Seed)))
		fmt.Printf("OK property=%s tier=%s seed=%d obligations=%d discharged=%d cases=%d wall=%.1fs\n",
			p.ID, o.Tier, o.Seed, obligations, discharged, total, time.Since(t0).Seconds())
	}
	return exit
}

// RunReplay re-executes the cases of a replay file.
func RunReplay(p *Property, path string) int {
	data, err := os.ReadFile(path)
	if err != nil {
		fmt.Println(err)
		return 2
	}
	var rp Replay
	if err := json.Unmarshal(data, &rp); err != nil {
		fmt.Println(err)
		return 2
	}
	if ok, out := LakeBuild("driver"); !ok {
		fmt.Println(tail(out, 20))
		return 2
	}
	for _, b := range rp.Broken {
		fmt.Printf("no longer checks: %s\n    %s\n", b.What, strings.ReplaceAll(b.Detail, "\n", "\n    "))
	}
	var ops []string
	for _, c := range rp.Cases {
		ops = append(ops, c.Op)
	}
	bad, err := p.evalOps("replay", ops, nil, nil)
	if err != nil {
		fmt.Println(err)
		return 2
	}
	for _, c := range bad {
		fmt.Printf("%s\n  op:    %s\n  input: %s\n  implementation: %s\n  model:          %s\n  spec:           %s\n",
			c.Kind, clip(c.Op, 400), clip(c.Text, 400), clip(c.Impl, 400), clip(c.Model, 400), clip(c.Spec, 400))
	}
	if len(bad) > 0 || (len(rp.Cases) == 0 && len(rp.Broken) > 0) {
		fmt.Printf("VIOLATION property=%s replay=%s\n", p.ID, path)
		return 1
	}
	fmt.Println("replay: all recorded cases now agree")
	return 0
}

func loadCorpus(root, id, stream string) []string {
	data, err := os.ReadFile(filepath.Join(root, "corpus", id+"."+stream+".txt"))
	if err != nil {
		return nil
	}
	var ops []string
	for _, l := range strings.Split(string(data), "\n") {
		l = strings.TrimSpace(l)
		if l != "" && !strings.HasPrefix(l, "#") {
			ops = append(ops, l)
		}
	}
	return ops
}

func writeJSON(path string, v interface{}) {
	data, _ := json.MarshalIndent(v, "", " ")
	os.WriteFile(path, append(data, '\n'), 0o644)
}

func clip(s string, n int) string {
	if len(s) > n {
		return s[:n] + fmt.Sprintf("…(+%d)", len(s)-n)
	}
	return s
}

func contains(xs []string, x string) bool {
	for _, y := range xs {
		if y == x {
			return true
		}
	}
	return false
}

func runIn(dir string, name string, args ...string) (bool, string) {
	cmd := exec.Command(name, args...)
	cmd.Env = OrigEnv
	cmd.Dir = dir
	out, err := cmd.CombinedOutput()
	return err == nil, string(out)
}

var reTheorem = regexp.MustCompile(`(?m)^theorem\s+([A-Za-z0-9_'.]+)`)
var reNamespace = regexp.MustCompile(`(?m)^namespace\s+(\S+)`)

func discoverTheorems(module string) []string {
	if module == "" {
		return nil
	}
	path := filepath.Join(LeanDir(), strings.ReplaceAll(module, ".", "/")+".lean")
	data, err := os.ReadFile(path)
	if err != nil {
		return nil
	}
	ns := ""
	if m := reNamespace.FindSubmatch(data); m != nil {
		ns = string(m[1]) + "."
	}
	var out []string
	for _, m := range reTheorem.FindAllSubmatch(data, -1) {
		out = append(out, ns+string(m[1]))
	}
	return out
}

func mergeNames(a, b []string) []string {
	seen := map[string]bool{}
	var out []string
	for _, x := range append(append([]string{}, a...), b...) {
		if !seen[x] {
			seen[x] = true
			out = append(out, x)
		}
	}
	return out
}

// tieModules: TieModule may list several modules separated by commas
func tieModules(p *Property) []string {
	var out []string
	for _, m := range strings.Split(p.TieModule, ",") {
		if m = strings.TrimSpace(m); m != "" {
			out = append(out, m)
		}
	}
	return out
}

// readable renders an operation for reports; a renderer that cannot make sense of the
// arguments must not take the run down.
func (p *Property) readable(op string, args []string) (out string) {
	defer func() {
		if recover() != nil {
			out = op + " " + strings.Join(args, " ")
		}
	}()
	return p.Readable(op, args)
}
