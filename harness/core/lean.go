package core

import (
	"bytes"
	"fmt"
	"os"
	"os/exec"
	"path/filepath"
	"regexp"
	"runtime"
	"sort"
	"strings"
	"sync"
	"syscall"
	"time"
)

// VerifRoot is /verif unless VERIF_ROOT overrides it (vp run snapshots).
func VerifRoot() string {
	if v := os.Getenv("VERIF_ROOT"); v != "" {
		return v
	}
	if exe, err := os.Executable(); err == nil {
		// bin/vcheck lives in <root>/bin
		d := filepath.Dir(filepath.Dir(exe))
		if _, err := os.Stat(filepath.Join(d, "lean", "lakefile.toml")); err == nil {
			return d
		}
	}
	return "/verif"
}

func RepoRoot() string {
	if v := os.Getenv("VERIF_REPO"); v != "" {
		return v
	}
	return "/repo"
}

func LeanDir() string { return filepath.Join(VerifRoot(), "lean") }

// LockLean serialises everything that touches lean/.lake or lean/GoDebian/Extracted.
func LockLean() (unlock func()) {
	f, err := os.OpenFile(filepath.Join(LeanDir(), ".lock"), os.O_CREATE|os.O_RDWR, 0o644)
	if err != nil {
		return func() {}
	}
	syscall.Flock(int(f.Fd()), syscall.LOCK_EX)
	return func() { syscall.Flock(int(f.Fd()), syscall.LOCK_UN); f.Close() }
}

// LakeBuild builds the given targets; ok=false with the tail of the output otherwise.
func LakeBuild(targets ...string) (bool, string) {
	run := func() (bool, string) {
		cmd := exec.Command("lake", append([]string{"build"}, targets...)...)
		cmd.Dir = LeanDir()
		cmd.Env = OrigEnv
		var buf bytes.Buffer
		cmd.Stdout = &buf
		cmd.Stderr = &buf
		err := cmd.Run()
		return err == nil, buf.String()
	}
	ok, out := run()
	if !ok && !strings.Contains(out, "error: GoDebian/") && !strings.Contains(out, "error: Driver.lean") {
		// no diagnostic from Lean itself: the build was interrupted from outside (a compiler process
		// killed on a machine short of memory, a lock held by another build) - once more
		time.Sleep(3 * time.Second)
		ok, out = run()
	}
	return ok, out
}

var (
	reDepends = regexp.MustCompile(`^'([^']+)' depends on axioms: \[(.*)$`)
	reNoAx    = regexp.MustCompile(`^'([^']+)' does not depend on any axioms`)
)

// Audit runs `#print axioms` for each theorem (importing the given modules) and
// returns name -> axioms (nil entry = theorem missing or the file did not elaborate).
func Audit(modules []string, theorems []string) (map[string][]string, string, string) {
	res := map[string][]string{}
	if len(theorems) == 0 {
		return res, "", ""
	}
	var src strings.Builder
	for _, m := range modules {
		fmt.Fprintf(&src, "import %s\n", m)
	}
	for _, t := range theorems {
		fmt.Fprintf(&src, "#print axioms %s\n", t)
	}
	dir := filepath.Join(LeanDir(), "Audit")
	os.MkdirAll(dir, 0o755)
	f, err := os.CreateTemp(dir, "audit-*.lean")
	if err != nil {
		return res, "", err.Error()
	}
	f.WriteString(src.String())
	f.Close()
	defer os.Remove(f.Name())
	cmd := exec.Command("lake", "env", "lean", f.Name())
	cmd.Dir = LeanDir()
	cmd.Env = OrigEnv
	var buf bytes.Buffer
	cmd.Stdout = &buf
	cmd.Stderr = &buf
	cmd.Run()
	out := buf.String()
	// messages may wrap over several lines: join continuation lines
	joined := strings.ReplaceAll(out, "\n ", " ")
	for _, line := range strings.Split(joined, "\n") {
		if m := reNoAx.FindStringSubmatch(line); m != nil {
			res[m[1]] = []string{}
		} else if m := reDepends.FindStringSubmatch(line); m != nil {
			body := strings.TrimSuffix(strings.TrimSpace(m[2]), "]")
			var ax []string
			for _, a := range strings.Split(body, ",") {
				a = strings.TrimSpace(a)
				if a != "" {
					ax = append(ax, a)
				}
			}
			sort.Strings(ax)
			res[m[1]] = ax
		}
	}
	cmdline := fmt.Sprintf("cd %s && lake build %s && lake env lean <#print axioms for %d theorems>",
		LeanDir(), strings.Join(modules, " "), len(theorems))
	return res, cmdline, out
}

var allowedAxioms = map[string]bool{"propext": true, "Classical.choice": true, "Quot.sound": true}

// BadAxioms lists axioms outside the accepted three.
func BadAxioms(ax []string) []string {
	var bad []string
	for _, a := range ax {
		if !allowedAxioms[a] {
			bad = append(bad, a)
		}
	}
	return bad
}

// RunDriver pipes op lines through the compiled Lean driver.
// RunDriver answers every operation line with the Lean driver.  The driver keeps no state
// between lines, so a long list is cut into contiguous shards of about equal size in bytes
// that run in parallel driver processes.
func RunDriver(lines []string) ([]string, error) {
	total := 0
	for _, l := range lines {
		total += len(l) + 1
	}
	shards := runtime.NumCPU()
	if shards > 16 {
		shards = 16
	}
	if len(lines) < 256 && total < 1<<20 {
		shards = 1
	}
	if shards <= 1 {
		return runDriver1(lines)
	}
	var bounds []int // shard k is lines[bounds[k]:bounds[k+1]]
	bounds = append(bounds, 0)
	acc := 0
	for i, l := range lines {
		acc += len(l) + 1
		if acc >= total/shards && len(bounds) < shards && i+1 < len(lines) {
			bounds = append(bounds, i+1)
			acc = 0
		}
	}
	bounds = append(bounds, len(lines))
	outs := make([][]string, len(bounds)-1)
	errs := make([]error, len(bounds)-1)
	var wg sync.WaitGroup
	for k := 0; k+1 < len(bounds); k++ {
		wg.Add(1)
		go func(k int) {
			defer wg.Done()
			outs[k], errs[k] = runDriver1(lines[bounds[k]:bounds[k+1]])
		}(k)
	}
	wg.Wait()
	var res []string
	for k := range outs {
		if errs[k] != nil {
			return nil, errs[k]
		}
		res = append(res, outs[k]...)
	}
	return res, nil
}

func runDriver1(lines []string) ([]string, error) {
	if len(lines) == 0 {
		return nil, nil
	}
	exe := filepath.Join(LeanDir(), ".lake", "build", "bin", "driver")
	cmd := exec.Command(exe)
	cmd.Env = OrigEnv
	cmd.Stdin = strings.NewReader(strings.Join(lines, "\n") + "\n")
	var out, errb bytes.Buffer
	cmd.Stdout = &out
	cmd.Stderr = &errb
	if err := cmd.Run(); err != nil {
		return nil, fmt.Errorf("driver: %v: %s", err, errb.String())
	}
	res := strings.Split(strings.TrimSuffix(out.String(), "\n"), "\n")
	if len(res) != len(lines) {
		return nil, fmt.Errorf("driver answered %d lines for %d ops", len(res), len(lines))
	}
	return res, nil
}

// GrepForbidden scans the Lean sources for constructs the trusted base excludes.
func GrepForbidden() []string {
	var hits []string
	re := regexp.MustCompile(`\bsorry\b|\badmit\b|^\s*axiom\s|native_decide|bv_decide|implemented_by|\bunsafe\s|maxHeartbeats\s+0\b`)
	filepath.Walk(LeanDir(), func(p string, info os.FileInfo, err error) error {
		if err != nil {
			return nil
		}
		if info.IsDir() && (info.Name() == ".lake" || info.Name() == "Audit") {
			return filepath.SkipDir
		}
		if !strings.HasSuffix(p, ".lean") {
			return nil
		}
		data, _ := os.ReadFile(p)
		inBlock := 0
		for i, line := range strings.Split(string(data), "\n") {
			l := line
			// crude comment stripping: block comments and line comments
			for {
				if inBlock > 0 {
					j := strings.Index(l, "-/")
					if j < 0 {
						l = ""
						break
					}
					l = l[j+2:]
					inBlock--
					continue
				}
				j := strings.Index(l, "/-")
				k := strings.Index(l, "--")
				if j >= 0 && (k < 0 || j <= k) {
					rest := l[j+2:]
					l2 := l[:j]
					e := strings.Index(rest, "-/")
					if e < 0 {
						inBlock++
						l = l2
						break
					}
					l = l2 + " " + rest[e+2:]
					continue
				}
				if k >= 0 {
					l = l[:k]
				}
				break
			}
			if re.MatchString(l) {
				hits = append(hits, fmt.Sprintf("%s:%d: %s", p, i+1, strings.TrimSpace(line)))
			}
		}
		return nil
	})
	return hits
}
