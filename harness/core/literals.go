package core

import (
	"go/ast"
	"go/parser"
	"go/token"
	"os"
	"path/filepath"
	"sort"
	"strconv"
	"strings"
	"sync"
)

var litCache sync.Map

// SourceLiterals returns the string literals (1-24 bytes, no white space) that occur in the
// non-test Go files of one package directory of the repository AS IT IS NOW.  The generators
// mix them into their token dictionaries (whole, as prefix, as suffix, doubled): a keyword,
// prefix or separator that the code treats specially has to be spelled out in the code, so
// inputs built around the code's own literals reach such special cases - the same idea as a
// fuzzing dictionary, rebuilt on every run.
func SourceLiterals(pkgdir string) []string {
	if v, ok := litCache.Load(pkgdir); ok {
		return v.([]string)
	}
	seen := map[string]bool{}
	dir := filepath.Join(RepoRoot(), pkgdir)
	ents, _ := os.ReadDir(dir)
	fset := token.NewFileSet()
	for _, e := range ents {
		n := e.Name()
		if e.IsDir() || !strings.HasSuffix(n, ".go") || strings.HasSuffix(n, "_test.go") {
			continue
		}
		f, err := parser.ParseFile(fset, filepath.Join(dir, n), nil, 0)
		if err != nil {
			continue
		}
		ast.Inspect(f, func(x ast.Node) bool {
			if _, ok := x.(*ast.ImportSpec); ok {
				return false
			}
			if fld, ok := x.(*ast.Field); ok && fld.Tag != nil {
				// struct tags are not data the code compares input with
				for _, nm := range fld.Names {
					_ = nm
				}
				ast.Inspect(fld.Type, func(ast.Node) bool { return true })
				return false
			}
			if b, ok := x.(*ast.BasicLit); ok && b.Kind == token.STRING {
				if s, err := strconv.Unquote(b.Value); err == nil && len(s) >= 1 && len(s) <= 24 && !strings.ContainsAny(s, " \t\r\n%") {
					seen[s] = true
				}
			}
			return true
		})
	}
	var out []string
	for s := range seen {
		out = append(out, s)
	}
	sort.Strings(out)
	litCache.Store(pkgdir, out)
	return out
}

// LitToken builds a token around one of the package's literals that avoids the bytes in
// `reserved`; base is an ordinary token of the class.  "" when no literal qualifies.
func (r *Rand) LitToken(pkgdir, base, reserved string) string {
	var ok []string
	for _, l := range SourceLiterals(pkgdir) {
		if !strings.ContainsAny(l, reserved) && len(l) <= 16 {
			ok = append(ok, l)
		}
	}
	if len(ok) == 0 {
		return ""
	}
	l := ok[r.Intn(len(ok))]
	switch r.Intn(6) {
	case 0:
		return l
	case 1:
		return l + base
	case 2:
		return base + l
	case 3:
		return l + l + base
	case 4:
		return l + l
	}
	return base + l + base
}
