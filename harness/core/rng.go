// Package core is the property-independent part of the verification harness:
// PRNG, line protocol, Lean build/audit, decision rule, evidence and replay files.
package core

import "strings"

// Rand is a splitmix64 generator; every random choice of a run derives from one seed.
type Rand struct{ s uint64 }

func NewRand(seed uint64) *Rand { return &Rand{s: seed*0x9E3779B97F4A7C15 + 0x1234567} }

func (r *Rand) U64() uint64 {
	r.s += 0x9E3779B97F4A7C15
	z := r.s
	z = (z ^ (z >> 30)) * 0xBF58476D1CE4E5B9
	z = (z ^ (z >> 27)) * 0x94D049BB133111EB
	return z ^ (z >> 31)
}
func (r *Rand) Intn(n int) int {
	if n <= 0 {
		return 0
	}
	return int(r.U64() % uint64(n))
}
func (r *Rand) Range(lo, hi int) int { return lo + r.Intn(hi-lo+1) }
func (r *Rand) Bool() bool           { return r.U64()&1 == 1 }
func (r *Rand) Chance(num, den int) bool {
	return r.Intn(den) < num
}
func (r *Rand) Pick(xs []string) string { return xs[r.Intn(len(xs))] }
func (r *Rand) PickByte(s string) byte  { return s[r.Intn(len(s))] }

// Str returns a string of n bytes drawn from alphabet.
func (r *Rand) Str(alphabet string, n int) string {
	var b strings.Builder
	for i := 0; i < n; i++ {
		b.WriteByte(alphabet[r.Intn(len(alphabet))])
	}
	return b.String()
}

// Fork derives an independent generator (so streams do not perturb each other).
func (r *Rand) Fork(tag string) *Rand {
	h := r.U64()
	for i := 0; i < len(tag); i++ {
		h = (h ^ uint64(tag[i])) * 0x100000001B3
	}
	return &Rand{s: h}
}

const hexdigits = "0123456789abcdef"

// Hex is the transport encoding of a byte string ("-" for the empty string).
func Hex(s string) string {
	if len(s) == 0 {
		return "-"
	}
	b := make([]byte, 0, 2*len(s))
	for i := 0; i < len(s); i++ {
		b = append(b, hexdigits[s[i]>>4], hexdigits[s[i]&15])
	}
	return string(b)
}

func UnHex(h string) (string, bool) {
	if h == "-" {
		return "", true
	}
	if len(h)%2 != 0 {
		return "", false
	}
	out := make([]byte, len(h)/2)
	for i := 0; i < len(out); i++ {
		a := strings.IndexByte(hexdigits, h[2*i])
		b := strings.IndexByte(hexdigits, h[2*i+1])
		if a < 0 || b < 0 {
			return "", false
		}
		out[i] = byte(a<<4 | b)
	}
	return string(out), true
}

// MustUnHex is for adapters: arguments were produced by Hex.
func MustUnHex(h string) string {
	s, ok := UnHex(h)
	if !ok {
		panic("bad hex argument: " + h)
	}
	return s
}

func (r *Rand) Pick2(a, b int) int {
	if r.Bool() {
		return a
	}
	return b
}
func (r *Rand) Pick2i(a, b int) int { return r.Pick2(a, b) }
