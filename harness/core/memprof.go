package core

import (
	"os"
	"runtime"
	"runtime/pprof"
	"time"
)

// VERIF_MEMPROF=<file>: write a heap profile whenever the live heap reaches a new maximum (a debugging
// aid for the harness itself; not used by any registered command).
func init() {
	path := os.Getenv("VERIF_MEMPROF")
	if path == "" {
		return
	}
	runtime.MemProfileRate = 64 << 10
	go func() {
		var max uint64
		for {
			var ms runtime.MemStats
			runtime.ReadMemStats(&ms)
			if ms.HeapInuse > max+(512<<20) {
				max = ms.HeapInuse
				if f, err := os.Create(path); err == nil {
					pprof.Lookup("heap").WriteTo(f, 0)
					f.Close()
				}
			}
			time.Sleep(20 * time.Millisecond)
		}
	}()
}
