package core

import (
	"hash/adler32"
	"hash/crc32"
	"hash/fnv"
	"os"
	"regexp"
	"runtime/debug"
	"strconv"
	"strings"
	"sync"
	"time"
)

// The library's results depend only on its arguments.  To make a dependence on the process
// environment visible, the harness runs with the variables Debian build tooling uses set to
// non-default values, plus every upper-case identifier the packages' own source spells out
// (re-read on every run: code that starts to consult os.Getenv("X") has to name X).
var envWords = "nocheck cross stage1 nodoc all any amd64 i386 yes 1 terse parallel=4"

var reEnvName = regexp.MustCompile(`^[A-Z][A-Z0-9_]{2,40}$`)

// OrigEnv is the environment the harness was started with; child processes (lake, lean,
// clang, the Lean driver) get this one, not the hostile one the library under test sees.
var OrigEnv []string

func init() {
	OrigEnv = os.Environ()
	// recursion whose depth grows with the input shows as a stack overflow on inputs of a few MiB
	// instead of a few GiB (the library's own recursion is a handful of frames deep)
	debug.SetMaxStack(48 << 20)
	// a named local time zone with a non-zero offset: results that silently depend on
	// time.Local differ from the reference
	time.Local = time.FixedZone("EST", -5*3600)
	if z := os.Getenv("VERIF_LOCAL_ZONE"); z != "" {
		// a child process started to evaluate something under another local zone ("NAME:seconds")
		if i := strings.IndexByte(z, ':'); i > 0 {
			if off, err := strconv.Atoi(z[i+1:]); err == nil {
				time.Local = time.FixedZone(z[:i], off)
			}
		}
	}
	os.Setenv("TZ", "EST5EDT")
	for _, k := range []string{"DEB_BUILD_PROFILES", "DEB_BUILD_OPTIONS", "DEB_HOST_ARCH", "DEB_BUILD_ARCH", "DEB_TARGET_ARCH", "DEB_HOST_MULTIARCH",
		"DEB_VENDOR", "DPKG_ROOT", "DPKG_COLORS", "SOURCE_DATE_EPOCH", "DEBEMAIL", "DEBFULLNAME", "GNUPGHOME"} {
		os.Setenv(k, envWords)
	}
	for _, pkg := range []string{"version", "dependency", "control", "deb", "changelog", "hashio", "internal"} {
		for _, l := range SourceLiterals(pkg) {
			if reEnvName.MatchString(l) && os.Getenv(l) == "" && l != "PATH" && l != "HOME" && l != "TMPDIR" {
				os.Setenv(l, envWords)
			}
		}
	}
}

var (
	collOnce  sync.Once
	collPairs [][2]string
)

// CollidingPairs returns pairs of distinct tokens (built from the given words joined by sep,
// two or three words each) that collide under one of the cheap 32-bit hash functions a cache or
// interning table might be keyed by without comparing the keys (FNV-1, FNV-1a, CRC-32, Adler-32).
// A birthday search over ~10^6 tokens; computed once per process.
func CollidingPairs(words []string, sep string) [][2]string {
	collOnce.Do(func() {
		var toks []string
		for _, a := range words {
			for _, b := range words {
				toks = append(toks, a+sep+b)
				for _, c := range words {
					if len(toks) < 1500000 {
						toks = append(toks, a+sep+b+sep+c)
					}
				}
			}
		}
		hashes := []func(string) uint32{
			func(s string) uint32 { h := fnv.New32a(); h.Write([]byte(s)); return h.Sum32() },
			func(s string) uint32 { h := fnv.New32(); h.Write([]byte(s)); return h.Sum32() },
			func(s string) uint32 { return crc32.ChecksumIEEE([]byte(s)) },
			func(s string) uint32 { return adler32.Checksum([]byte(s)) },
		}
		for _, hf := range hashes {
			seen := make(map[uint32]string, len(toks))
			found := 0
			for _, t := range toks {
				h := hf(t)
				if o, ok := seen[h]; ok && o != t {
					collPairs = append(collPairs, [2]string{o, t})
					found++
					if found >= 12 {
						break
					}
				} else {
					seen[h] = t
				}
			}
		}
	})
	return collPairs
}
