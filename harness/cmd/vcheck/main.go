// vcheck <property-id> quick|thorough      run the check for one property
// vcheck <property-id> --replay <file>     re-run a replay file
// vcheck --fingerprints                    print the fingerprints of the modelled functions
package main

import (
	"fmt"
	"os"
	"path/filepath"
	"strconv"

	"verif/harness/core"
	"verif/harness/extract"
	"verif/harness/props"
)

func main() {
	if len(os.Args) >= 2 && os.Args[1] == "--fingerprints" {
		extract.PrintFingerprints(core.RepoRoot())
		return
	}
	if len(os.Args) >= 2 && os.Args[1] == "--clzone" {
		props.ClzoneChild()
		return
	}
	if len(os.Args) >= 2 && os.Args[1] == "--extract" {
		st, err := extract.Run(core.RepoRoot(), filepath.Join(core.LeanDir(), "GoDebian", "Extracted"))
		fmt.Println(st, err)
		return
	}
	if len(os.Args) < 3 {
		fmt.Fprintln(os.Stderr, "usage: vcheck <id> quick|thorough | vcheck <id> --replay <file>")
		os.Exit(2)
	}
	p := core.Lookup(os.Args[1])
	if p == nil {
		fmt.Fprintf(os.Stderr, "unknown property %s (have %v)\n", os.Args[1], core.AllIDs())
		os.Exit(2)
	}
	if os.Args[2] == "--replay" {
		if len(os.Args) < 4 {
			os.Exit(2)
		}
		os.Exit(core.RunReplay(p, os.Args[3]))
	}
	tier := os.Args[2]
	if t := os.Getenv("VERIF_TIER"); t == "quick" || t == "thorough" {
		tier = t
	}
	var seed uint64 = 1
	if s := os.Getenv("VERIF_SEED"); s != "" {
		if v, err := strconv.ParseUint(s, 10, 64); err == nil {
			seed = v
		}
	}
	os.Exit(core.Run(p, core.Options{Tier: tier, Seed: seed, ExtractF: func() (map[string]string, error) {
		return extract.Run(core.RepoRoot(), filepath.Join(core.LeanDir(), "GoDebian", "Extracted"))
	}}))
}
