// mutgen enumerates small syntactic mutations of the non-test Go files of a repository
// (classic mutation operators) and writes each as a unified diff.
//
//	mutgen <repo> <outdir> [pkgdir...]
//
// Every mutant is a byte-range replacement in one file; the caller filters the ones that
// compile and pass the pinned test suite and runs the property checks on the rest
// (tools/mutation_sweep.sh).  Support for validating the machinery, not part of any proof.
package main

import (
	"fmt"
	"go/ast"
	"go/parser"
	"go/token"
	"os"
	"os/exec"
	"path/filepath"
	"sort"
	"strconv"
	"strings"
)

type mut struct {
	file       string
	start, end int
	repl       string
	desc       string
	line       int
}

func main() {
	repo, out := os.Args[1], os.Args[2]
	dirs := os.Args[3:]
	if len(dirs) == 0 {
		dirs = []string{"version", "dependency", "control", "deb", "changelog", "hashio", "internal"}
	}
	os.MkdirAll(out, 0o755)
	var muts []mut
	for _, d := range dirs {
		ents, _ := os.ReadDir(filepath.Join(repo, d))
		for _, e := range ents {
			n := e.Name()
			if !strings.HasSuffix(n, ".go") || strings.HasSuffix(n, "_test.go") {
				continue
			}
			muts = append(muts, fileMutants(repo, filepath.Join(d, n))...)
		}
	}
	sort.SliceStable(muts, func(i, j int) bool {
		if muts[i].file != muts[j].file {
			return muts[i].file < muts[j].file
		}
		return muts[i].start < muts[j].start
	})
	idx, _ := os.Create(filepath.Join(out, "INDEX.txt"))
	defer idx.Close()
	if os.Getenv("MUTGEN_GUARDS") != "" {
		// only the guard mutants, numbered separately
		var gs []mut
		for _, m := range muts {
			if strings.HasPrefix(m.desc, "delete if-block") || strings.HasPrefix(m.desc, "if condition ->") {
				gs = append(gs, m)
			}
		}
		muts = gs
	}
	for i, m := range muts {
		name := fmt.Sprintf("m%04d", i)
		if os.Getenv("MUTGEN_GUARDS") != "" {
			name = fmt.Sprintf("g%04d", i)
		}
		src, _ := os.ReadFile(filepath.Join(repo, m.file))
		mutated := string(src[:m.start]) + m.repl + string(src[m.end:])
		tmp := filepath.Join(out, name+".go.tmp")
		os.WriteFile(tmp, []byte(mutated), 0o644)
		cmd := exec.Command("diff", "-u", "--label", "a/"+m.file, "--label", "b/"+m.file, filepath.Join(repo, m.file), tmp)
		diff, _ := cmd.Output()
		os.Remove(tmp)
		os.WriteFile(filepath.Join(out, name+".diff"), diff, 0o644)
		fmt.Fprintf(idx, "%s %s:%d %s\n", name, m.file, m.line, m.desc)
	}
	fmt.Println(len(muts), "mutants")
}

func fileMutants(repo, rel string) []mut {
	fset := token.NewFileSet()
	src, err := os.ReadFile(filepath.Join(repo, rel))
	if err != nil {
		return nil
	}
	f, err := parser.ParseFile(fset, rel, src, 0)
	if err != nil {
		return nil
	}
	off := func(p token.Pos) int { return fset.Position(p).Offset }
	var out []mut
	add := func(start, end token.Pos, repl, desc string) {
		out = append(out, mut{file: rel, start: off(start), end: off(end), repl: repl, desc: desc, line: fset.Position(start).Line})
	}
	swaps := map[token.Token][]string{
		token.LSS: {"<="}, token.LEQ: {"<"}, token.GTR: {">="}, token.GEQ: {">"},
		token.EQL: {"!="}, token.NEQ: {"=="}, token.LAND: {"||"}, token.LOR: {"&&"},
		token.ADD: {"-"}, token.SUB: {"+"}, token.REM: {"/"},
	}
	inErr := 0 // inside fmt.Errorf / errors.New arguments: texts are not behaviour
	var walk func(n ast.Node) bool
	walk = func(n ast.Node) bool {
		switch x := n.(type) {
		case *ast.CallExpr:
			fn := ""
			if se, ok := x.Fun.(*ast.SelectorExpr); ok {
				if id, ok := se.X.(*ast.Ident); ok {
					fn = id.Name + "." + se.Sel.Name
				}
			}
			if fn == "fmt.Errorf" || fn == "errors.New" || fn == "fmt.Sprintf" && false {
				inErr++
				for _, a := range x.Args {
					ast.Inspect(a, walk)
				}
				inErr--
				return false
			}
		case *ast.BinaryExpr:
			for _, r := range swaps[x.Op] {
				if x.Op == token.ADD {
					// string concatenation has no '-'
					if bl, ok := x.X.(*ast.BasicLit); ok && bl.Kind == token.STRING {
						break
					}
					if bl, ok := x.Y.(*ast.BasicLit); ok && bl.Kind == token.STRING {
						break
					}
				}
				add(x.OpPos, x.OpPos+token.Pos(len(x.Op.String())), r, fmt.Sprintf("binary %s -> %s", x.Op, r))
			}
		case *ast.BasicLit:
			if inErr > 0 {
				break
			}
			switch x.Kind {
			case token.INT:
				if v, err := strconv.ParseInt(x.Value, 0, 64); err == nil {
					add(x.Pos(), x.End(), strconv.FormatInt(v+1, 10), fmt.Sprintf("int %s -> %d", x.Value, v+1))
					if v > 0 {
						add(x.Pos(), x.End(), strconv.FormatInt(v-1, 10), fmt.Sprintf("int %s -> %d", x.Value, v-1))
					}
				}
			case token.CHAR:
				if len(x.Value) == 3 && x.Value[1] > ' ' && x.Value[1] < '~' {
					add(x.Pos(), x.End(), "'"+string(x.Value[1]+1)+"'", fmt.Sprintf("char %s -> next", x.Value))
				}
			case token.STRING:
				if s, err := strconv.Unquote(x.Value); err == nil && len(s) >= 1 && len(s) <= 12 && !strings.ContainsAny(s, "%") {
					add(x.Pos(), x.End(), strconv.Quote(s+"_"), fmt.Sprintf("string %s -> +_", x.Value))
					if len(s) > 1 {
						add(x.Pos(), x.End(), strconv.Quote(s[:len(s)-1]), fmt.Sprintf("string %s -> shortened", x.Value))
					}
				}
			}
		case *ast.Ident:
			if x.Name == "true" && x.Obj == nil {
				add(x.Pos(), x.End(), "false", "true -> false")
			} else if x.Name == "false" && x.Obj == nil {
				add(x.Pos(), x.End(), "true", "false -> true")
			}
		case *ast.IfStmt:
			add(x.Cond.Pos(), x.Cond.End(), "!("+string(src[off(x.Cond.Pos()):off(x.Cond.End())])+")", "negate if condition")
			if x.Else == nil && x.Init == nil && os.Getenv("MUTGEN_GUARDS") != "" {
				// a guard removed: the whole `if cond { ... }` (no else, no init statement)
				add(x.Pos(), x.End(), "_ = 0", "delete if-block (guard removed)")
			}
			if x.Else != nil && os.Getenv("MUTGEN_GUARDS") != "" {
				add(x.Cond.Pos(), x.Cond.End(), "true", "if condition -> true")
				add(x.Cond.Pos(), x.Cond.End(), "false", "if condition -> false")
			}
		case *ast.BranchStmt:
			if x.Tok == token.BREAK && x.Label == nil {
				add(x.Pos(), x.End(), "continue", "break -> continue")
			} else if x.Tok == token.CONTINUE && x.Label == nil {
				add(x.Pos(), x.End(), "break", "continue -> break")
			}
		case *ast.IncDecStmt:
			if x.Tok == token.INC {
				add(x.TokPos, x.TokPos+2, "--", "++ -> --")
			}
		case *ast.ExprStmt:
			if _, ok := x.X.(*ast.CallExpr); ok {
				add(x.Pos(), x.End(), "_ = 0", "delete call statement")
			}
		case *ast.AssignStmt:
			if x.Tok == token.ASSIGN || x.Tok == token.ADD_ASSIGN {
				add(x.Pos(), x.End(), "_ = 0", "delete assignment")
			}
		case *ast.ReturnStmt:
			// return of a bare boolean / nil error flipped is covered by literal flips
		case *ast.UnaryExpr:
			if x.Op == token.NOT {
				add(x.OpPos, x.OpPos+1, "", "drop !")
			}
		}
		return true
	}
	for _, d := range f.Decls {
		if fd, ok := d.(*ast.FuncDecl); ok && fd.Body != nil {
			ast.Inspect(fd.Body, walk)
		}
	}
	return out
}
