package extract

import (
	"fmt"
	"go/ast"
	"reflect"
	"strings"
)

func init() { steps = append(steps, extractSchemas) }

var schemaTypes = [][2]string{{"control", "DSC"}, {"control", "Changes"}, {"control", "SourceParagraph"}, {"control", "BinaryParagraph"},
	{"control", "BinaryIndex"}, {"control", "SourceIndex"}, {"control", "BestChecksums"}, {"deb", "Control"}}

func kindText(e ast.Expr) string {
	switch x := e.(type) {
	case *ast.Ident:
		switch x.Name {
		case "string":
			return "str"
		case "int":
			return "int"
		case "uint":
			return "uint"
		case "bool":
			return "bool"
		case "Paragraph":
			return "para"
		}
		return "cust:" + x.Name
	case *ast.SelectorExpr:
		if x.Sel.Name == "Paragraph" {
			return "para"
		}
		return "cust:" + x.Sel.Name
	case *ast.ArrayType:
		if x.Len == nil {
			return "slice:" + kindText(x.Elt)
		}
	}
	return "bad"
}

// struct definitions of the typed documents: (Go field, key, kind, delim, strip, required, anonymous)
func extractSchemas(f *Facts) {
	b := f.out("Schemas")
	fmt.Fprintf(b, "structure Field where\n  name : String\n  key : String\n  kind : String\n  delim : String\n  strip : String\n  required : Bool\n  anonymous : Bool\n  deriving DecidableEq, Repr\n\n")
	for _, st := range schemaTypes {
		dir, name := st[0], st[1]
		id := "schema:" + dir + "." + name
		var spec *ast.StructType
		for _, af := range f.parseDir(dir) {
			ast.Inspect(af, func(n ast.Node) bool {
				ts, ok := n.(*ast.TypeSpec)
				if ok && ts.Name.Name == name {
					if s, ok := ts.Type.(*ast.StructType); ok {
						spec = s
					}
				}
				return true
			})
		}
		lean := "schema_" + dir + "_" + name
		if spec == nil {
			fmt.Fprintf(b, "def %s : Option (List Field) := none\n\n", lean)
			f.fail(id, "struct type not found")
			continue
		}
		var rows []string
		for _, fld := range spec.Fields.List {
			tag := ""
			if fld.Tag != nil {
				tag = strings.Trim(fld.Tag.Value, "`")
			}
			st := reflect.StructTag(tag)
			names := []string{}
			anon := len(fld.Names) == 0
			if anon {
				k := kindText(fld.Type)
				n := strings.TrimPrefix(strings.TrimPrefix(k, "cust:"), "slice:")
				if k == "para" {
					n = "Paragraph"
				}
				names = append(names, n)
			}
			for _, n := range fld.Names {
				names = append(names, n.Name)
			}
			for _, n := range names {
				key := n
				if it := st.Get("control"); it != "" {
					key = it
				}
				if key == "-" {
					// `control:"-"`: neither decoder nor encoder ever looks at this field; it is not part
					// of the document schema (DSC.Filename, Changes.Filename, Control.Filename)
					continue
				}
				rows = append(rows, fmt.Sprintf("  ⟨%s, %s, %s, %s, %s, %v, %v⟩", leanStr(n), leanStr(key), leanStr(kindText(fld.Type)),
					leanStr(st.Get("delim")), leanStr(st.Get("strip")), st.Get("required") == "true", anon))
			}
		}
		fmt.Fprintf(b, "def %s : Option (List Field) := some [\n%s]\n\n", lean, strings.Join(rows, ",\n"))
		f.ok(id)
	}
}
