// Package extract re-reads the anchored go-debian sources on every run and
// regenerates lean/GoDebian/Extracted/*.lean: small pure functions translated to Lean,
// tables (switch case sets, struct-tag schemas, algorithm tables) and fingerprints of
// the modelled functions.  It is deliberately tiny; a source shape it does not
// recognise yields the fact status "unavailable: …" (never a violation by itself).
package extract

import (
	"bytes"
	"crypto/sha256"
	"encoding/json"
	"fmt"
	"go/ast"
	"go/parser"
	"go/printer"
	"go/token"
	"os"
	"path/filepath"
	"sort"
	"strconv"
	"strings"
)

type Facts struct {
	curDir     string          // package directory the translator resolves constants and helpers in
	helperOut  *strings.Builder // the module the helpers are written to
	helpers    map[string]bool // helper functions already emitted (dir.name)
	inProgress map[string]bool
	Status     map[string]string // fact id -> "read" | "unavailable: why"
	files  map[string]*strings.Builder
	fset   *token.FileSet
	pkgs   map[string]map[string]*ast.File // dir -> filename -> file
	repo   string
}

func (f *Facts) ok(id string)               { f.Status[id] = "read" }
func (f *Facts) fail(id string, why string) { f.Status[id] = "unavailable: " + why }

func (f *Facts) out(module string) *strings.Builder {
	b, ok := f.files[module]
	if !ok {
		b = &strings.Builder{}
		fmt.Fprintf(b, "/- REGENERATED on every run from %s by /verif/harness/extract. Do not edit. -/\n", f.repo)
		fmt.Fprintf(b, "namespace GoDebian.Extracted.%s\n\n", module)
		f.files[module] = b
	}
	return b
}

func (f *Facts) parseDir(dir string) map[string]*ast.File {
	if p, ok := f.pkgs[dir]; ok {
		return p
	}
	res := map[string]*ast.File{}
	ents, _ := os.ReadDir(filepath.Join(f.repo, dir))
	for _, e := range ents {
		n := e.Name()
		if !strings.HasSuffix(n, ".go") || strings.HasSuffix(n, "_test.go") {
			continue
		}
		af, err := parser.ParseFile(f.fset, filepath.Join(f.repo, dir, n), nil, 0)
		if err == nil {
			res[n] = af
		}
	}
	f.pkgs[dir] = res
	return res
}

func (f *Facts) funcDecl(dir, name string) *ast.FuncDecl {
	for _, af := range f.parseDir(dir) {
		for _, d := range af.Decls {
			if fd, ok := d.(*ast.FuncDecl); ok && fd.Name.Name == name && fd.Recv == nil {
				return fd
			}
		}
	}
	return nil
}

// method looks up a method by receiver type name (pointer or value) and name.
func (f *Facts) method(dir, recv, name string) *ast.FuncDecl {
	for _, af := range f.parseDir(dir) {
		for _, d := range af.Decls {
			fd, ok := d.(*ast.FuncDecl)
			if !ok || fd.Recv == nil || fd.Name.Name != name || len(fd.Recv.List) != 1 {
				continue
			}
			t := fd.Recv.List[0].Type
			if s, ok := t.(*ast.StarExpr); ok {
				t = s.X
			}
			if id, ok := t.(*ast.Ident); ok && id.Name == recv {
				return fd
			}
		}
	}
	return nil
}

func (f *Facts) src(n ast.Node) string {
	var b bytes.Buffer
	printer.Fprint(&b, f.fset, n)
	return b.String()
}

// Fingerprint of a function body: hash of its printed AST (comments are not part of
// the AST nodes printed here, formatting is normalised by go/printer).
func (f *Facts) fingerprint(fd *ast.FuncDecl) string {
	if fd == nil {
		return "missing"
	}
	h := sha256.Sum256([]byte(f.src(fd)))
	return fmt.Sprintf("%x", h[:8])
}

// ---------------------------------------------------------------------------------
// Go expression -> Lean translator for straight-line integer / boolean functions.

type tr struct {
	params map[string]bool
	funcs  map[string]bool // callable translated functions
	err    error
	// consts resolves a package-level integer / character constant; need translates a
	// same-package one-parameter function on demand and returns its Lean name
	consts func(name string) (int64, bool)
	need   func(name string) (string, bool)
}

func (t *tr) bad(n ast.Node, why string) string {
	if t.err == nil {
		t.err = fmt.Errorf("%s (%T)", why, n)
	}
	return "0"
}

func (t *tr) expr(e ast.Expr) string {
	switch x := e.(type) {
	case *ast.ParenExpr:
		return "(" + t.expr(x.X) + ")"
	case *ast.Ident:
		if t.params[x.Name] {
			return x.Name
		}
		if x.Name == "true" || x.Name == "false" {
			return x.Name
		}
		if t.consts != nil {
			if v, ok := t.consts(x.Name); ok {
				return fmt.Sprintf("(%d : Int)", v)
			}
		}
		return t.bad(e, "unknown identifier "+x.Name)
	case *ast.BasicLit:
		switch x.Kind {
		case token.INT:
			v, err := strconv.ParseInt(x.Value, 0, 64)
			if err != nil {
				return t.bad(e, "int literal")
			}
			return fmt.Sprintf("(%d : Int)", v)
		case token.CHAR:
			r, _, _, err := strconv.UnquoteChar(x.Value[1:len(x.Value)-1], '\'')
			if err != nil {
				return t.bad(e, "char literal")
			}
			return fmt.Sprintf("(%d : Int)", r)
		}
		return t.bad(e, "literal kind")
	case *ast.UnaryExpr:
		switch x.Op {
		case token.NOT:
			return "(!" + t.expr(x.X) + ")"
		case token.SUB:
			return "(-" + t.expr(x.X) + ")"
		}
		return t.bad(e, "unary op")
	case *ast.BinaryExpr:
		a, b := t.expr(x.X), t.expr(x.Y)
		switch x.Op {
		case token.LAND:
			return "(" + a + " && " + b + ")"
		case token.LOR:
			return "(" + a + " || " + b + ")"
		case token.EQL:
			return "(decide (" + a + " = " + b + "))"
		case token.NEQ:
			return "(decide (" + a + " ≠ " + b + "))"
		case token.LSS:
			return "(decide (" + a + " < " + b + "))"
		case token.LEQ:
			return "(decide (" + a + " ≤ " + b + "))"
		case token.GTR:
			return "(decide (" + a + " > " + b + "))"
		case token.GEQ:
			return "(decide (" + a + " ≥ " + b + "))"
		case token.ADD:
			return "(" + a + " + " + b + ")"
		case token.SUB:
			return "(" + a + " - " + b + ")"
		}
		return t.bad(e, "binary op "+x.Op.String())
	case *ast.CallExpr:
		if id, ok := x.Fun.(*ast.Ident); ok && len(x.Args) == 1 {
			switch id.Name {
			case "int", "rune", "int64", "int32":
				return t.expr(x.Args[0])
			}
			if t.funcs[id.Name] {
				return "(" + id.Name + " " + t.expr(x.Args[0]) + ")"
			}
			if t.need != nil {
				if ln, ok := t.need(id.Name); ok {
					return "(" + ln + " " + t.expr(x.Args[0]) + ")"
				}
			}
		}
		return t.bad(e, "call "+fmtNode(x.Fun))
	}
	return t.bad(e, "expression")
}

func fmtNode(n ast.Node) string {
	var b bytes.Buffer
	printer.Fprint(&b, token.NewFileSet(), n)
	return b.String()
}

// body translates `if c { return e } ... return e` chains.
func (t *tr) body(stmts []ast.Stmt) string {
	if len(stmts) == 0 {
		return t.bad(nil, "function falls off the end")
	}
	switch s := stmts[0].(type) {
	case *ast.ReturnStmt:
		if len(s.Results) != 1 {
			return t.bad(s, "return arity")
		}
		return t.expr(s.Results[0])
	case *ast.IfStmt:
		if s.Init != nil {
			return t.bad(s, "if with init")
		}
		thenB := t.body(s.Body.List)
		var elseB string
		if s.Else != nil {
			switch e := s.Else.(type) {
			case *ast.BlockStmt:
				elseB = t.body(e.List)
			case *ast.IfStmt:
				elseB = t.body([]ast.Stmt{e})
			}
			// Go allows falling through after if/else only if both return; we require it
		} else {
			elseB = t.body(stmts[1:])
		}
		return "(if " + t.expr(s.Cond) + " then " + thenB + " else " + elseB + ")"
	case *ast.SwitchStmt:
		// `switch { case c: … }` and `switch x { case a, b: … }` whose clauses all return (or
		// fall out of the switch into the statements that follow it)
		if s.Init != nil {
			return t.bad(s, "switch with init")
		}
		tag := ""
		if s.Tag != nil {
			tag = t.expr(s.Tag)
		}
		rest := stmts[1:]
		var def *ast.CaseClause
		var clauses []*ast.CaseClause
		for _, c := range s.Body.List {
			cc, ok := c.(*ast.CaseClause)
			if !ok {
				return t.bad(c, "switch clause")
			}
			for _, st := range cc.Body {
				if br, ok := st.(*ast.BranchStmt); ok && br.Tok == token.FALLTHROUGH {
					return t.bad(st, "fallthrough")
				}
			}
			if cc.List == nil {
				def = cc
			} else {
				clauses = append(clauses, cc)
			}
		}
		tail := func(body []ast.Stmt) string { return t.body(append(append([]ast.Stmt{}, body...), rest...)) }
		out := ""
		if def != nil {
			out = tail(def.Body)
		} else {
			out = t.body(rest)
		}
		for i := len(clauses) - 1; i >= 0; i-- {
			var conds []string
			for _, e := range clauses[i].List {
				if tag == "" {
					conds = append(conds, t.expr(e))
				} else {
					conds = append(conds, "(decide ("+tag+" = "+t.expr(e)+"))")
				}
			}
			out = "(if (" + strings.Join(conds, " || ") + ") then " + tail(clauses[i].Body) + " else " + out + ")"
		}
		return out
	}
	return t.bad(stmts[0], "statement")
}

// translateFunc emits `def name (p : Int) : ret := …`.
func (f *Facts) translateFunc(b *strings.Builder, leanName string, ft *ast.FuncType, body *ast.BlockStmt, known map[string]bool) error {
	if ft.Params == nil || len(ft.Params.List) != 1 || len(ft.Params.List[0].Names) != 1 {
		return fmt.Errorf("expected exactly one parameter")
	}
	if ft.Results == nil || len(ft.Results.List) != 1 {
		return fmt.Errorf("expected exactly one result")
	}
	ret := "Int"
	if id, ok := ft.Results.List[0].Type.(*ast.Ident); ok && id.Name == "bool" {
		ret = "Bool"
	}
	p := ft.Params.List[0].Names[0].Name
	t := &tr{params: map[string]bool{p: true}, funcs: known}
	if f.curDir != "" && f.helperOut != nil {
		dir := f.curDir
		t.consts = func(name string) (int64, bool) { return f.constValue(dir, name) }
		t.need = func(name string) (string, bool) {
			ln := "fn_" + name
			if f.helpers[dir+"."+name] {
				return ln, true
			}
			fd := f.funcDecl(dir, name)
			if fd == nil || fd.Body == nil || f.inProgress[dir+"."+name] {
				return "", false
			}
			f.inProgress[dir+"."+name] = true
			defer delete(f.inProgress, dir+"."+name)
			var tmp strings.Builder
			if err := f.translateFunc(&tmp, ln, fd.Type, fd.Body, known); err != nil {
				return "", false
			}
			f.helperOut.WriteString(tmp.String()) // straight into the module: valid on its own, and before any caller
			f.helpers[dir+"."+name] = true
			return ln, true
		}
	}
	code := t.body(body.List)
	if t.err != nil {
		return t.err
	}
	fmt.Fprintf(b, "def %s (%s : Int) : %s :=\n  %s\n\n", leanName, p, ret, code)
	return nil
}

// constExpr evaluates integer / character literals, conversions, unary minus, + and - and
// references to other constants
func (f *Facts) constExpr(dir string, e ast.Expr, depth int) (int64, bool) {
	if depth > 8 {
		return 0, false
	}
	switch x := e.(type) {
	case *ast.ParenExpr:
		return f.constExpr(dir, x.X, depth+1)
	case *ast.CallExpr:
		if len(x.Args) == 1 {
			return f.constExpr(dir, x.Args[0], depth+1)
		}
	case *ast.UnaryExpr:
		if v, ok := f.constExpr(dir, x.X, depth+1); ok {
			switch x.Op {
			case token.SUB:
				return -v, true
			case token.ADD:
				return v, true
			}
		}
	case *ast.BinaryExpr:
		a, ok1 := f.constExpr(dir, x.X, depth+1)
		b, ok2 := f.constExpr(dir, x.Y, depth+1)
		if ok1 && ok2 {
			switch x.Op {
			case token.ADD:
				return a + b, true
			case token.SUB:
				return a - b, true
			}
		}
	case *ast.BasicLit:
		switch x.Kind {
		case token.INT:
			if v, err := strconv.ParseInt(x.Value, 0, 64); err == nil {
				return v, true
			}
		case token.CHAR:
			if r, _, _, err := strconv.UnquoteChar(x.Value[1:len(x.Value)-1], '\''); err == nil {
				return int64(r), true
			}
		}
	case *ast.Ident:
		return f.constValue(dir, x.Name)
	}
	return 0, false
}

// constValue resolves a package-level `const name = <int or char literal>` (also typed).
func (f *Facts) constValue(dir, name string) (int64, bool) {
	for _, af := range f.parseDir(dir) {
		for _, d := range af.Decls {
			gd, ok := d.(*ast.GenDecl)
			if !ok || gd.Tok != token.CONST {
				continue
			}
			for _, sp := range gd.Specs {
				vs, ok := sp.(*ast.ValueSpec)
				if !ok {
					continue
				}
				for i, n := range vs.Names {
					if n.Name != name || i >= len(vs.Values) {
						continue
					}
					if v, ok := f.constExpr(dir, vs.Values[i], 0); ok {
						return v, true
					}
					e := vs.Values[i]
					if id, ok := e.(*ast.Ident); ok && id.Name != name {
						return f.constValue(dir, id.Name)
					}
				}
			}
		}
	}
	return 0, false
}

// ---------------------------------------------------------------------------------

func leanStr(s string) string { return strconv.Quote(s) }

func leanStrList(xs []string) string {
	q := make([]string, len(xs))
	for i, x := range xs {
		q[i] = leanStr(x)
	}
	return "[" + strings.Join(q, ", ") + "]"
}

func leanNatList(xs []int) string {
	q := make([]string, len(xs))
	for i, x := range xs {
		q[i] = strconv.Itoa(x)
	}
	return "[" + strings.Join(q, ", ") + "]"
}

// Run regenerates every Extracted module. outDir = <verif>/lean/GoDebian/Extracted.
func Run(repo, outDir string) (map[string]string, error) {
	f := &Facts{Status: map[string]string{}, files: map[string]*strings.Builder{}, helpers: map[string]bool{}, inProgress: map[string]bool{},
		fset: token.NewFileSet(), pkgs: map[string]map[string]*ast.File{}, repo: repo}
	for _, step := range steps {
		step(f)
	}
	// fingerprints of every modelled function, for the evidence and for escalation
	fp := f.out("Fingerprints")
	expected := map[string]string{}
	if data, err := os.ReadFile(filepath.Join(filepath.Dir(filepath.Dir(filepath.Dir(outDir))), "fingerprints.json")); err == nil {
		json.Unmarshal(data, &expected)
	}
	var ids []string
	for id := range fingerprints {
		ids = append(ids, id)
	}
	sort.Strings(ids)
	fmt.Fprintf(fp, "def all : List (String × String) := [\n")
	for i, id := range ids {
		spec := fingerprints[id]
		var fd *ast.FuncDecl
		if spec.recv == "" {
			fd = f.funcDecl(spec.dir, spec.name)
		} else {
			fd = f.method(spec.dir, spec.recv, spec.name)
		}
		got := f.fingerprint(fd)
		spec.want = expected[id]
		sep := ","
		if i == len(ids)-1 {
			sep = ""
		}
		fmt.Fprintf(fp, "  (%s, %s)%s\n", leanStr(id), leanStr(got), sep)
		if got == spec.want {
			f.ok("fingerprint:" + id)
		} else {
			f.fail("fingerprint:"+id, "source text of "+id+" differs from the text the model was written against ("+got+")")
		}
	}
	fmt.Fprintf(fp, "]\n\n")
	if err := os.MkdirAll(outDir, 0o755); err != nil {
		return nil, err
	}
	// delete stale generated files, then write only what changed (keeps lake's cache)
	ents, _ := os.ReadDir(outDir)
	for _, e := range ents {
		mod := strings.TrimSuffix(e.Name(), ".lean")
		if _, ok := f.files[mod]; !ok {
			os.Remove(filepath.Join(outDir, e.Name()))
		}
	}
	for mod, b := range f.files {
		fmt.Fprintf(b, "end GoDebian.Extracted.%s\n", mod)
		path := filepath.Join(outDir, mod+".lean")
		old, _ := os.ReadFile(path)
		if string(old) != b.String() {
			if err := os.WriteFile(path, []byte(b.String()), 0o644); err != nil {
				return nil, err
			}
		}
	}
	return f.Status, nil
}

type fpSpec struct{ dir, recv, name, want string }

var fingerprints = map[string]fpSpec{}
var steps []func(*Facts)

// PrintFingerprints helps updating the expected values after a model update.
func PrintFingerprints(repo string) {
	f := &Facts{Status: map[string]string{}, files: map[string]*strings.Builder{},
		fset: token.NewFileSet(), pkgs: map[string]map[string]*ast.File{}, repo: repo}
	out := map[string]string{}
	var ids []string
	for id := range fingerprints {
		ids = append(ids, id)
	}
	sort.Strings(ids)
	for _, id := range ids {
		spec := fingerprints[id]
		var fd *ast.FuncDecl
		if spec.recv == "" {
			fd = f.funcDecl(spec.dir, spec.name)
		} else {
			fd = f.method(spec.dir, spec.recv, spec.name)
		}
		out[id] = f.fingerprint(fd)
	}
	data, _ := json.MarshalIndent(out, "", " ")
	fmt.Println(string(data))
}
