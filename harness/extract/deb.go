package extract

func init() {
	for _, n := range []string{"LoadAr", "toDecimal", "parseArEntry", "checkAr", "Load", "LoadFile", "loadDeb", "loadDeb2", "loadDeb2Control", "loadDeb2Data", "DecompressorFor"} {
		fingerprints["deb."+n] = fpSpec{dir: "deb", name: n}
	}
	for _, m := range [][2]string{{"Ar", "Next"}, {"ArEntry", "IsTarfile"}, {"ArEntry", "Tarfile"}, {"Deb", "CheckDebsig"}, {"Deb", "Close"}} {
		fingerprints["deb."+m[0]+"."+m[1]] = fpSpec{dir: "deb", recv: m[0], name: m[1]}
	}
}
