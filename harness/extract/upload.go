package extract

import (
	"fmt"
	"go/ast"
	"strings"
)

func init() { steps = append(steps, extractUpload) }

// Copy / Move / Remove of DSC and Changes: the order of events in the function body, as far as
// it can be read off the source: "check" (checkFiles), "stat" (os.Stat on the destination),
// "files:<call>" (a loop over AbsFiles() whose body calls internal.Copy / os.Rename / os.Remove),
// "control:<call>" (the same kind of call with the handle's own Filename), "handle" (assignment
// to Filename).  A body of another shape (helpers, no loop) is `none`: unavailable, not wrong.
func extractUpload(f *Facts) {
	b := f.out("Upload")
	for _, recv := range []string{"DSC", "Changes"} {
		for _, op := range []string{"Copy", "Move", "Remove"} {
			name := strings.ToLower(recv) + op
			id := "upload." + recv + "." + op + ":order"
			fd := f.method("control", recv, op)
			ev, ok := uploadEvents(f, fd)
			if !ok {
				fmt.Fprintf(b, "def %s : Option (List String) := none\n\n", name)
				f.fail(id, "body does not have the loop-then-control-file shape")
				continue
			}
			fmt.Fprintf(b, "def %s : Option (List String) := some %s\n\n", name, leanStrList(ev))
			f.ok(id)
		}
	}
	// internal.Copy: the calls in source order (os / io calls and method calls on the two files),
	// with the flag expression of an os.OpenFile spelled out
	fd := f.funcDecl("internal", "Copy")
	if fd == nil || fd.Body == nil {
		fmt.Fprintf(b, "def internalCopy : Option (List String) := none\n\n")
		f.fail("upload.internal.Copy:calls", "function not found")
		return
	}
	var calls []string
	ast.Inspect(fd.Body, func(n ast.Node) bool {
		ce, ok := n.(*ast.CallExpr)
		if !ok {
			return true
		}
		name := f.src(ce.Fun)
		switch {
		case name == "os.OpenFile" && len(ce.Args) >= 2:
			calls = append(calls, "os.OpenFile:"+strings.ReplaceAll(f.src(ce.Args[1]), " ", ""))
		case strings.HasPrefix(name, "os.") || strings.HasPrefix(name, "io."):
			calls = append(calls, name)
		case strings.HasSuffix(name, ".Close"):
			calls = append(calls, "Close")
		}
		return true
	})
	fmt.Fprintf(b, "def internalCopy : Option (List String) := some %s\n\n", leanStrList(calls))
	f.ok("upload.internal.Copy:calls")
}

func uploadEvents(f *Facts, fd *ast.FuncDecl) ([]string, bool) {
	if fd == nil || fd.Body == nil || fd.Recv == nil || len(fd.Recv.List) != 1 || len(fd.Recv.List[0].Names) != 1 {
		return nil, false
	}
	self := fd.Recv.List[0].Names[0].Name
	fsCall := func(n ast.Node) (string, []ast.Expr) {
		ce, ok := n.(*ast.CallExpr)
		if !ok {
			return "", nil
		}
		switch s := f.src(ce.Fun); s {
		case "internal.Copy", "os.Rename", "os.Remove":
			return s, ce.Args
		}
		return "", nil
	}
	isSelfFilename := func(e ast.Expr) bool { return f.src(e) == self+".Filename" }
	var ev []string
	loops, controls := 0, 0
	for _, st := range fd.Body.List {
		switch s := st.(type) {
		case *ast.RangeStmt:
			if !strings.Contains(f.src(s.X), "AbsFiles()") {
				return nil, false
			}
			call := ""
			ast.Inspect(s.Body, func(n ast.Node) bool {
				if c, _ := fsCall(n); c != "" {
					call = c
				}
				return true
			})
			if call == "" {
				return nil, false
			}
			ev = append(ev, "files:"+call)
			loops++
		default:
			found := false
			ast.Inspect(st, func(n ast.Node) bool {
				if ce, ok := n.(*ast.CallExpr); ok {
					switch {
					case strings.HasSuffix(f.src(ce.Fun), ".checkFiles"):
						ev = append(ev, "check")
						found = true
					case f.src(ce.Fun) == "os.Stat":
						ev = append(ev, "stat")
						found = true
					}
					if c, args := fsCall(ce); c != "" {
						if len(args) == 0 || !isSelfFilename(args[0]) {
							ev = append(ev, "other:"+c)
						} else {
							ev = append(ev, "control:"+c)
							controls++
						}
						found = true
					}
				}
				if as, ok := n.(*ast.AssignStmt); ok && len(as.Lhs) == 1 && isSelfFilename(as.Lhs[0]) {
					ev = append(ev, "handle")
					found = true
				}
				return true
			})
			_ = found
		}
	}
	if loops != 1 || controls != 1 {
		return nil, false
	}
	return ev, true
}
