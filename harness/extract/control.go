package extract

func init() {
	for _, n := range []string{"NewParagraphReader", "decode", "decodeStruct", "decodeStructValue", "decodeStructValueStruct", "decodeStructValueSlice",
		"decodeSlice", "Unmarshal", "NewDecoder", "UnpackFromParagraph", "ConvertToParagraph", "convertToParagraph", "marshalStructValue",
		"marshalStructValueStruct", "marshalStructValueSlice", "Marshal", "NewEncoder", "OrderDSCForBuild", "ParseDsc", "ParseChanges", "ParseControl",
		"ParseBinaryIndex", "ParseSourceIndex", "FileHashFromHasher", "checkListedFilename", "ParseDscFile", "ParseChangesFile", "ParseControlFile"} {
		fingerprints["control."+n] = fpSpec{dir: "control", name: n}
	}
	for _, m := range [][2]string{{"Paragraph", "Set"}, {"Paragraph", "WriteTo"}, {"Paragraph", "Update"}, {"ParagraphReader", "Next"}, {"ParagraphReader", "All"},
		{"ParagraphReader", "Signer"}, {"ParagraphReader", "decodeClearsig"}, {"Decoder", "Decode"}, {"Decoder", "Signer"}, {"Encoder", "Encode"},
		{"Encoder", "encode"}, {"Encoder", "encodeSlice"}, {"Encoder", "encodeStruct"}, {"FileHash", "Verifier"}, {"FileHash", "unmarshalControl"},
		{"FileHash", "marshalControl"}, {"verifier", "Write"}, {"verifier", "Close"}, {"FileListChangesFileHash", "UnmarshalControl"},
		{"DSC", "Copy"}, {"DSC", "Move"}, {"DSC", "Remove"}, {"DSC", "AbsFiles"}, {"DSC", "checkFiles"}, {"DSC", "HasArchAll"}, {"DSC", "Maintainers"}, {"DSC", "DebianSource"},
		{"Changes", "Copy"}, {"Changes", "Move"}, {"Changes", "Remove"}, {"Changes", "AbsFiles"}, {"Changes", "checkFiles"},
		{"BinaryIndex", "SourcePackage"}, {"BestChecksums", "Checksums"}, {"SourceParagraph", "Maintainers"},
		{"Changes", "GetDSC"}, {"Paragraph", "getDependencyField"}, {"Paragraph", "getOptionalDependencyField"}} {
		fingerprints["control."+m[0]+"."+m[1]] = fpSpec{dir: "control", recv: m[0], name: m[1]}
	}
}
