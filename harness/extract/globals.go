package extract

import (
	"fmt"
	"go/ast"
	"go/token"
	"sort"
	"strings"
)

func init() { steps = append(steps, extractGlobals) }

// Package-level variables of the parser packages and every assignment to them outside
// their declaration (C18: no package-level mutable state).
func extractGlobals(f *Facts) {
	b := f.out("Globals")
	var vars, writes []string
	for _, dir := range []string{"version", "dependency", "control", "changelog"} {
		names := map[string]bool{}
		files := f.parseDir(dir)
		for _, af := range files {
			for _, d := range af.Decls {
				gd, ok := d.(*ast.GenDecl)
				if !ok || gd.Tok != token.VAR {
					continue
				}
				for _, sp := range gd.Specs {
					for _, n := range sp.(*ast.ValueSpec).Names {
						names[n.Name] = true
						vars = append(vars, dir+"."+n.Name)
					}
				}
			}
		}
		for fn, af := range files {
			for _, d := range af.Decls {
				fd, ok := d.(*ast.FuncDecl)
				if !ok || fd.Body == nil {
					continue
				}
				// locals that shadow a global are not globals
				shadow := map[string]bool{}
				ast.Inspect(fd, func(n ast.Node) bool {
					switch x := n.(type) {
					case *ast.AssignStmt:
						if x.Tok == token.DEFINE {
							for _, l := range x.Lhs {
								if id, ok := l.(*ast.Ident); ok {
									shadow[id.Name] = true
								}
							}
						}
					case *ast.Field:
						for _, id := range x.Names {
							shadow[id.Name] = true
						}
					}
					return true
				})
				ast.Inspect(fd.Body, func(n ast.Node) bool {
					record := func(e ast.Expr) {
						for {
							switch x := e.(type) {
							case *ast.IndexExpr:
								e = x.X
								continue
							case *ast.SelectorExpr:
								e = x.X
								continue
							case *ast.StarExpr:
								e = x.X
								continue
							}
							break
						}
						if id, ok := e.(*ast.Ident); ok && names[id.Name] && !shadow[id.Name] {
							writes = append(writes, fmt.Sprintf("%s.%s in %s/%s:%s", dir, id.Name, dir, fn, fd.Name.Name))
						}
					}
					switch x := n.(type) {
					case *ast.AssignStmt:
						if x.Tok != token.DEFINE {
							for _, l := range x.Lhs {
								record(l)
							}
						}
					case *ast.IncDecStmt:
						record(x.X)
					}
					return true
				})
			}
		}
	}
	sort.Strings(vars)
	sort.Strings(writes)
	fmt.Fprintf(b, "/-- package-level variables of version, dependency, control, changelog -/\ndef variables : List String := %s\n\n", leanStrList(vars))
	fmt.Fprintf(b, "/-- assignments to them outside their declarations -/\ndef writes : List String := %s\n\n", leanStrList(writes))
	_ = strings.Join
	f.ok("globals:inventory")
}
