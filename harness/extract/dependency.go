package extract

import (
	"fmt"
	"go/ast"
	"go/token"
	"strconv"
	"strings"
)

func init() {
	for _, n := range []string{"Parse", "eatWhitespace", "parseDependency", "parseRelation", "parsePossibility", "parseSubstvar", "parseMultiarch",
		"parsePossibilityControllers", "parsePossibilityVersion", "parsePossibilityOperator", "parsePossibilityNumber", "parsePossibilityArchs",
		"parsePossibilityArch", "parsePossibilityStageSet", "parsePossibilityStage", "parseArchInto", "ParseArch", "ParseArchitectures"} {
		fingerprints["dependency."+n] = fpSpec{dir: "dependency", name: n}
	}
	for _, m := range [][2]string{{"Arch", "String"}, {"ArchSet", "String"}, {"VersionRelation", "String"}, {"Stage", "String"}, {"StageSet", "String"},
		{"Possibility", "String"}, {"Relation", "String"}, {"Dependency", "String"}, {"Arch", "Is"}, {"Arch", "IsWildcard"}, {"ArchSet", "Matches"},
		{"Dependency", "GetPossibilities"}, {"Dependency", "GetAllPossibilities"}, {"Dependency", "GetSubstvars"}, {"VersionRelation", "SatisfiedBy"},
		{"input", "Peek"}, {"input", "Next"}, {"Arch", "UnmarshalControl"}, {"Dependency", "UnmarshalControl"}, {"Dependency", "MarshalControl"}, {"Arch", "MarshalControl"}} {
		fingerprints["dependency."+m[0]+"."+m[1]] = fpSpec{dir: "dependency", recv: m[0], name: m[1]}
	}
}

func init() { steps = append(steps, extractDependency) }

// caseTable returns, for the first `switch <tag>` statement in fd whose tag prints as
// tagText, the literal values of every case clause ("default" for the default clause).
func (f *Facts) caseTable(fd *ast.FuncDecl, tagText string) ([][]string, bool) {
	var out [][]string
	found := false
	if fd == nil {
		return nil, false
	}
	ast.Inspect(fd.Body, func(n ast.Node) bool {
		sw, ok := n.(*ast.SwitchStmt)
		if !ok || found || sw.Tag == nil || f.src(sw.Tag) != tagText {
			return true
		}
		found = true
		for _, st := range sw.Body.List {
			cc := st.(*ast.CaseClause)
			if cc.List == nil {
				out = append(out, []string{"default"})
				continue
			}
			var vals []string
			for _, e := range cc.List {
				lit, ok := e.(*ast.BasicLit)
				if !ok {
					vals = append(vals, "?"+f.src(e))
					continue
				}
				switch lit.Kind {
				case token.CHAR:
					r, _, _, _ := strconv.UnquoteChar(lit.Value[1:len(lit.Value)-1], '\'')
					vals = append(vals, strconv.Itoa(int(r)))
				case token.INT:
					vals = append(vals, lit.Value)
				case token.STRING:
					s, _ := strconv.Unquote(lit.Value)
					vals = append(vals, "s:"+s)
				default:
					vals = append(vals, "?"+lit.Value)
				}
			}
			out = append(out, vals)
		}
		return false
	})
	return out, found
}

func leanTable(t [][]string) string {
	rows := make([]string, len(t))
	for i, r := range t {
		rows[i] = leanStrList(r)
	}
	return "[" + strings.Join(rows, ", ") + "]"
}

// emitCases emits byte-valued case tables as `Option (List (List Nat))` (default = 256)
// and string-valued ones as `Option (List (List String))`.
func (f *Facts) emitCases(b *strings.Builder, factID, leanName string, fd *ast.FuncDecl, tag string) {
	t, ok := f.caseTable(fd, tag)
	numeric := true
	for _, row := range t {
		for _, v := range row {
			if v == "default" {
				continue
			}
			if _, err := strconv.Atoi(v); err != nil {
				numeric = false
			}
		}
	}
	if !ok {
		typ := "Nat"
		if tag != "peek" {
			typ = "String"
		}
		fmt.Fprintf(b, "def %s : Option (List (List %s)) := none\n\n", leanName, typ)
		f.fail(factID, "no `switch "+tag+"` statement found (shape not recognised)")
		return
	}
	if numeric {
		rows := make([]string, len(t))
		for i, r := range t {
			vals := make([]string, len(r))
			for j, v := range r {
				if v == "default" {
					v = "256"
				}
				vals[j] = v
			}
			rows[i] = "[" + strings.Join(vals, ", ") + "]"
		}
		fmt.Fprintf(b, "def %s : Option (List (List Nat)) := some [%s]\n\n", leanName, strings.Join(rows, ", "))
	} else {
		fmt.Fprintf(b, "def %s : Option (List (List String)) := some %s\n\n", leanName, leanTable(t))
	}
	f.ok(factID)
}

func extractDependency(f *Facts) {
	b := f.out("Dependency")
	for _, fn := range []string{"eatWhitespace", "parseDependency", "parseRelation", "parsePossibility", "parseSubstvar", "parseMultiarch",
		"parsePossibilityControllers", "parsePossibilityNumber", "parsePossibilityArchs", "parsePossibilityArch",
		"parsePossibilityStageSet", "parsePossibilityStage"} {
		f.emitCases(b, "dependency."+fn+":cases", fn+"_cases", f.funcDecl("dependency", fn), "peek")
	}
	f.emitCases(b, "dependency.parsePossibilityOperator:cases", "parsePossibilityOperator_cases", f.funcDecl("dependency", "parsePossibilityOperator"), "operator")
	f.emitCases(b, "dependency.SatisfiedBy:cases", "satisfiedBy_cases", f.method("dependency", "VersionRelation", "SatisfiedBy"), "v.Operator")
	// SatisfiedBy: the comparison returned per operator
	sb := f.method("dependency", "VersionRelation", "SatisfiedBy")
	var rets []string
	if sb != nil {
		ast.Inspect(sb.Body, func(n ast.Node) bool {
			if cc, ok := n.(*ast.CaseClause); ok && len(cc.Body) == 1 {
				if r, ok := cc.Body[0].(*ast.ReturnStmt); ok && len(r.Results) == 1 {
					rets = append(rets, strings.ReplaceAll(f.src(r.Results[0]), " ", ""))
				}
			}
			return true
		})
	}
	if len(rets) > 0 {
		fmt.Fprintf(b, "def satisfiedBy_returns : Option (List String) := some %s\n\n", leanStrList(rets))
		f.ok("dependency.SatisfiedBy:returns")
	} else {
		fmt.Fprintf(b, "def satisfiedBy_returns : Option (List String) := none\n\n")
		f.fail("dependency.SatisfiedBy:returns", "case bodies are not single return statements")
	}
	// how names are accumulated: string([]byte{…}) (bytes kept) vs string(byte) (re-encoded)
	n, m := 0, 0
	for _, af := range f.parseDir("dependency") {
		ast.Inspect(af, func(nd ast.Node) bool {
			ce, ok := nd.(*ast.CallExpr)
			if !ok || len(ce.Args) != 1 {
				return true
			}
			if id, ok := ce.Fun.(*ast.Ident); ok && id.Name == "string" {
				src := strings.ReplaceAll(f.src(ce.Args[0]), " ", "")
				if src == "input.Next()" {
					n++
				}
				if src == "[]byte{input.Next()}" {
					m++
				}
			}
			return true
		})
	}
	fmt.Fprintf(b, "/-- number of `string(input.Next())` (re-encoding) and `string([]byte{input.Next()})` (byte-preserving) sites -/\ndef nameAccumulation : Nat × Nat := (%d, %d)\n\n", n, m)
	f.ok("dependency.parser:accumulation")
}
