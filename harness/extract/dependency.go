package extract

func init() {
	for _, n := range []string{"Parse", "eatWhitespace", "parseDependency", "parseRelation", "parsePossibility", "parseSubstvar", "parseMultiarch",
		"parsePossibilityControllers", "parsePossibilityVersion", "parsePossibilityOperator", "parsePossibilityNumber", "parsePossibilityArchs",
		"parsePossibilityArch", "parsePossibilityStageSet", "parsePossibilityStage", "parseArchInto", "ParseArch", "ParseArchitectures"} {
		fingerprints["dependency."+n] = fpSpec{dir: "dependency", name: n}
	}
	for _, m := range [][2]string{{"Arch", "String"}, {"ArchSet", "String"}, {"VersionRelation", "String"}, {"Stage", "String"}, {"StageSet", "String"},
		{"Possibility", "String"}, {"Relation", "String"}, {"Dependency", "String"}, {"Arch", "Is"}, {"Arch", "IsWildcard"}, {"ArchSet", "Matches"},
		{"Dependency", "GetPossibilities"}, {"Dependency", "GetAllPossibilities"}, {"Dependency", "GetSubstvars"}, {"VersionRelation", "SatisfiedBy"},
		{"input", "Peek"}, {"input", "Next"}, {"Arch", "UnmarshalControl"}, {"Dependency", "UnmarshalControl"}, {"Dependency", "MarshalControl"}, {"Arch", "MarshalControl"}} {
		fingerprints["dependency."+m[0]+"."+m[1]] = fpSpec{dir: "dependency", recv: m[0], name: m[1]}
	}
}
