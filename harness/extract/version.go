package extract

import (
	"go/ast"
	"strings"
)

func init() {
	steps = append(steps, extractVersion)
	for _, n := range []string{"order", "verrevcmp", "Compare", "parseInto", "Parse", "cisdigit", "cisalpha"} {
		fingerprints["version."+n] = fpSpec{dir: "version", name: n}
	}
	for _, n := range []string{"String", "StringWithoutEpoch", "MarshalText", "UnmarshalText", "MarshalControl", "UnmarshalControl"} {
		fingerprints["version.Version."+n] = fpSpec{dir: "version", recv: "Version", name: n}
	}
	fingerprints["version.Slice.Less"] = fpSpec{dir: "version", recv: "Slice", name: "Less"}
}

// version.go: order / cisdigit / cisalpha translated; the two alphabet closures of
// parseInto translated; Compare's comparison sequence; Slice.Less expression.
func extractVersion(f *Facts) {
	b := f.out("Version")
	known := map[string]bool{}
	for _, name := range []string{"cisdigit", "cisalpha", "order"} {
		id := "version." + name + ":translated"
		fd := f.funcDecl("version", name)
		if fd == nil {
			f.fail(id, "function not found")
			continue
		}
		var tmp strings.Builder
		if err := f.translateFunc(&tmp, name, fd.Type, fd.Body, known); err != nil {
			f.fail(id, err.Error())
			continue
		}
		b.WriteString(tmp.String())
		known[name] = true
		f.ok(id)
	}
	// alphabet closures
	pi := f.funcDecl("version", "parseInto")
	found := map[string]bool{}
	if pi != nil {
		ast.Inspect(pi.Body, func(n ast.Node) bool {
			ce, ok := n.(*ast.CallExpr)
			if !ok || len(ce.Args) != 2 {
				return true
			}
			se, ok := ce.Fun.(*ast.SelectorExpr)
			if !ok || se.Sel.Name != "IndexFunc" {
				return true
			}
			fl, ok := ce.Args[1].(*ast.FuncLit)
			if !ok {
				return true
			}
			arg, ok := ce.Args[0].(*ast.SelectorExpr)
			if !ok {
				return true
			}
			name := "reject" + arg.Sel.Name // rejectVersion / rejectRevision
			var tmp strings.Builder
			if err := f.translateFunc(&tmp, name, fl.Type, fl.Body, known); err != nil {
				f.fail("version.parseInto:"+name, err.Error())
				return true
			}
			if known["cisdigit"] && known["cisalpha"] {
				b.WriteString(tmp.String())
				found[name] = true
				f.ok("version.parseInto:" + name)
			}
			return true
		})
	}
	for _, n := range []string{"rejectVersion", "rejectRevision"} {
		if !found[n] {
			if _, ok := f.Status["version.parseInto:"+n]; !ok {
				f.fail("version.parseInto:"+n, "alphabet closure not found")
			}
		}
	}
}
