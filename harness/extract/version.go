package extract

import (
	"fmt"
	"go/ast"
	"strings"
)

func init() {
	steps = append(steps, extractVersion)
	for _, n := range []string{"order", "verrevcmp", "Compare", "parseInto", "Parse", "cisdigit", "cisalpha"} {
		fingerprints["version."+n] = fpSpec{dir: "version", name: n}
	}
	for _, n := range []string{"String", "StringWithoutEpoch", "MarshalText", "UnmarshalText", "MarshalControl", "UnmarshalControl"} {
		fingerprints["version.Version."+n] = fpSpec{dir: "version", recv: "Version", name: n}
	}
	fingerprints["version.Slice.Less"] = fpSpec{dir: "version", recv: "Slice", name: "Less"}
}

// version.go: order / cisdigit / cisalpha translated; the two alphabet closures of
// parseInto translated; Compare's comparison sequence; Slice.Less expression.
func extractVersion(f *Facts) {
	b := f.out("Version")
	f.curDir, f.helperOut = "version", b
	defer func() { f.curDir, f.helperOut = "", nil }()
	known := map[string]bool{}
	// Every name the tie theorems mention is always defined: a function that cannot be read is
	// emitted as a stub together with `avail_<name> := false`, and its tie theorem (stated under
	// the hypothesis `avail_<name> = true`) holds trivially - the fact is then "unavailable",
	// which escalates the correspondence stream instead of breaking the build.
	emit := func(name, ret string, text string, ok bool) {
		if ok {
			b.WriteString(text)
			fmt.Fprintf(b, "def avail_%s : Bool := true\n\n", name)
			known[name] = true
			return
		}
		stub := "false"
		if ret == "Int" {
			stub = "0"
		}
		fmt.Fprintf(b, "def %s (_ : Int) : %s := %s\ndef avail_%s : Bool := false\n\n", name, ret, stub, name)
	}
	for _, name := range []string{"cisdigit", "cisalpha", "order"} {
		id := "version." + name + ":translated"
		ret := "Bool"
		if name == "order" {
			ret = "Int"
		}
		fd := f.funcDecl("version", name)
		if fd == nil {
			f.fail(id, "function not found")
			emit(name, ret, "", false)
			continue
		}
		var tmp strings.Builder
		if err := f.translateFunc(&tmp, name, fd.Type, fd.Body, known); err != nil {
			f.fail(id, err.Error())
			emit(name, ret, "", false)
			continue
		}
		emit(name, ret, tmp.String(), true)
		f.ok(id)
	}
	// alphabet closures
	pi := f.funcDecl("version", "parseInto")
	found := map[string]string{}
	if pi != nil {
		ast.Inspect(pi.Body, func(n ast.Node) bool {
			ce, ok := n.(*ast.CallExpr)
			if !ok || len(ce.Args) != 2 {
				return true
			}
			se, ok := ce.Fun.(*ast.SelectorExpr)
			if !ok || se.Sel.Name != "IndexFunc" {
				return true
			}
			fl, ok := ce.Args[1].(*ast.FuncLit)
			if !ok {
				return true
			}
			arg, ok := ce.Args[0].(*ast.SelectorExpr)
			if !ok {
				return true
			}
			name := "reject" + arg.Sel.Name // rejectVersion / rejectRevision
			var tmp strings.Builder
			if err := f.translateFunc(&tmp, name, fl.Type, fl.Body, known); err != nil {
				f.fail("version.parseInto:"+name, err.Error())
				return true
			}
			found[name] = tmp.String()
			f.ok("version.parseInto:" + name)
			return true
		})
	}
	for _, n := range []string{"rejectVersion", "rejectRevision"} {
		if text, ok := found[n]; ok {
			emit(n, "Bool", text, true)
			continue
		}
		emit(n, "Bool", "", false)
		if _, ok := f.Status["version.parseInto:"+n]; !ok {
			f.fail("version.parseInto:"+n, "alphabet closure not found")
		}
	}
}
