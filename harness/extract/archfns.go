package extract

import (
	"fmt"
	"go/ast"
	"go/token"
	"strconv"
	"strings"
)

func init() { steps = append(steps, extractArchFns) }

// Arch.IsWildcard and Arch.Is translated to Lean over a record of three byte strings.
// Supported shapes: field comparisons with string literals or other fields, && || !,
// calls of the two methods themselves, if / else-if chains of returns.
type archTr struct {
	recv, param string
	err         error
	recursive   bool
}

func (t *archTr) bad(why string) string {
	if t.err == nil {
		t.err = fmt.Errorf("%s", why)
	}
	return "false"
}

func (t *archTr) operand(e ast.Expr) (string, bool) {
	switch x := e.(type) {
	case *ast.BasicLit:
		if x.Kind == token.STRING {
			s, _ := strconv.Unquote(x.Value)
			return fmt.Sprintf("(lit %s)", strconv.Quote(s)), true
		}
	case *ast.SelectorExpr:
		if id, ok := x.X.(*ast.Ident); ok && (id.Name == t.recv || id.Name == t.param) {
			f := map[string]string{"ABI": "abi", "OS": "os", "CPU": "cpu"}[x.Sel.Name]
			if f != "" {
				return id.Name + "." + f, true
			}
		}
	}
	return "", false
}

func (t *archTr) expr(e ast.Expr) string {
	switch x := e.(type) {
	case *ast.ParenExpr:
		return "(" + t.expr(x.X) + ")"
	case *ast.Ident:
		if x.Name == "true" || x.Name == "false" {
			return x.Name
		}
	case *ast.UnaryExpr:
		if x.Op == token.NOT {
			return "(!" + t.expr(x.X) + ")"
		}
	case *ast.BinaryExpr:
		switch x.Op {
		case token.LAND:
			return "(" + t.expr(x.X) + " && " + t.expr(x.Y) + ")"
		case token.LOR:
			return "(" + t.expr(x.X) + " || " + t.expr(x.Y) + ")"
		case token.EQL, token.NEQ:
			a, ok1 := t.operand(x.X)
			b, ok2 := t.operand(x.Y)
			if ok1 && ok2 {
				if x.Op == token.EQL {
					return "(decide (" + a + " = " + b + "))"
				}
				return "(decide (" + a + " ≠ " + b + "))"
			}
		}
	case *ast.CallExpr:
		if se, ok := x.Fun.(*ast.SelectorExpr); ok {
			if id, ok := se.X.(*ast.Ident); ok && (id.Name == t.recv || id.Name == t.param) {
				switch {
				case se.Sel.Name == "IsWildcard" && len(x.Args) == 0:
					return "(isWildcard " + id.Name + ")"
				case se.Sel.Name == "Is" && len(x.Args) == 1:
					if a, ok := x.Args[0].(*ast.Ident); ok && (a.Name == t.recv || a.Name == t.param) {
						t.recursive = true
						return "(isN fuel " + id.Name + " " + a.Name + ")"
					}
				}
			}
		}
	}
	return t.bad("unsupported expression " + fmtNode(e))
}

func (t *archTr) body(stmts []ast.Stmt) string {
	if len(stmts) == 0 {
		return t.bad("falls off the end")
	}
	switch s := stmts[0].(type) {
	case *ast.ReturnStmt:
		if len(s.Results) == 1 {
			return t.expr(s.Results[0])
		}
	case *ast.IfStmt:
		if s.Init == nil {
			rest := stmts[1:]
			if s.Else != nil {
				switch e := s.Else.(type) {
				case *ast.IfStmt:
					rest = append([]ast.Stmt{e}, rest...)
				case *ast.BlockStmt:
					rest = append(append([]ast.Stmt{}, e.List...), rest...)
				}
			}
			return "(if " + t.expr(s.Cond) + " then " + t.body(s.Body.List) + " else " + t.body(rest) + ")"
		}
	}
	return t.bad("unsupported statement")
}

func extractArchFns(f *Facts) {
	b := f.out("ArchFns")
	fmt.Fprintf(b, "structure A where\n  abi : List Nat\n  os : List Nat\n  cpu : List Nat\n  deriving DecidableEq\n\ndef lit (s : String) : List Nat := s.toUTF8.toList.map (·.toNat)\n\n")
	emitNone := func(why string) {
		fmt.Fprintf(b, "def translated : Bool := false\ndef isWildcard (_ : A) : Bool := false\ndef is (_ _ : A) : Bool := false\n\n")
		f.fail("dependency.Arch.Is:translated", why)
	}
	iw := f.method("dependency", "Arch", "IsWildcard")
	is := f.method("dependency", "Arch", "Is")
	if iw == nil || is == nil || len(iw.Recv.List[0].Names) != 1 || len(is.Recv.List[0].Names) != 1 || len(is.Type.Params.List) != 1 {
		emitNone("methods not found")
		return
	}
	t1 := &archTr{recv: iw.Recv.List[0].Names[0].Name, param: "\x00"}
	c1 := t1.body(iw.Body.List)
	t2 := &archTr{recv: is.Recv.List[0].Names[0].Name, param: is.Type.Params.List[0].Names[0].Name}
	c2 := t2.body(is.Body.List)
	if t1.err != nil || t2.err != nil || t1.recursive {
		why := ""
		if t1.err != nil {
			why = t1.err.Error()
		} else if t2.err != nil {
			why = t2.err.Error()
		}
		emitNone("shape not recognised: " + why)
		return
	}
	fmt.Fprintf(b, "def translated : Bool := true\n\ndef isWildcard (%s : A) : Bool :=\n  %s\n\n", t1.recv, c1)
	fmt.Fprintf(b, "/-- `Is`, with the (at most one level deep) recursion `other.Is(arch)` bounded by fuel -/\ndef isN : Nat → A → A → Bool\n  | 0, _, _ => false\n  | fuel+1, %s, %s =>\n    %s\n\ndef is (a o : A) : Bool := isN 3 a o\n\n", t2.recv, t2.param, strings.ReplaceAll(c2, "\n", " "))
	f.ok("dependency.Arch.Is:translated")
}
