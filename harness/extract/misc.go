package extract

func init() {
	for _, n := range []string{"trim", "partition", "readLine", "ParseOne", "Parse"} {
		fingerprints["changelog."+n] = fpSpec{dir: "changelog", name: n}
	}
	for _, n := range []string{"GetHash", "NewHasher", "NewHasherWriter", "NewHasherWriters", "NewHasherReader", "NewHasherReaders"} {
		fingerprints["hashio."+n] = fpSpec{dir: "hashio", name: n}
	}
	for _, m := range []string{"Write", "Size", "Sum", "Name"} {
		fingerprints["hashio.Hasher."+m] = fpSpec{dir: "hashio", recv: "Hasher", name: m}
	}
	fingerprints["internal.Copy"] = fpSpec{dir: "internal", name: "Copy"}
}
