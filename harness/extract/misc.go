package extract

import (
	"fmt"
	"go/ast"
	"strconv"
	"strings"
)

func init() {
	for _, n := range []string{"trim", "partition", "readLine", "ParseOne", "Parse"} {
		fingerprints["changelog."+n] = fpSpec{dir: "changelog", name: n}
	}
	for _, n := range []string{"GetHash", "NewHasher", "NewHasherWriter", "NewHasherWriters", "NewHasherReader", "NewHasherReaders"} {
		fingerprints["hashio."+n] = fpSpec{dir: "hashio", name: n}
	}
	for _, m := range []string{"Write", "Size", "Sum", "Name"} {
		fingerprints["hashio.Hasher."+m] = fpSpec{dir: "hashio", recv: "Hasher", name: m}
	}
	fingerprints["internal.Copy"] = fpSpec{dir: "internal", name: "Copy"}
}

func init() { steps = append(steps, extractHashio) }

// GetHash's and Verifier's algorithm switches: which names are supported, and that each
// name is wired to the constructor of the same algorithm.
func extractHashio(f *Facts) {
	b := f.out("Hashio")
	emit := func(factID, leanName string, fd *ast.FuncDecl, tag string) {
		if fd == nil {
			fmt.Fprintf(b, "def %s : Option (List (String × String)) := none\n\n", leanName)
			f.fail(factID, "function not found")
			return
		}
		var rows []string
		ok := false
		ast.Inspect(fd.Body, func(n ast.Node) bool {
			sw, isSw := n.(*ast.SwitchStmt)
			if !isSw || ok || sw.Tag == nil || f.src(sw.Tag) != tag {
				return true
			}
			ok = true
			for _, st := range sw.Body.List {
				cc := st.(*ast.CaseClause)
				body := ""
				if len(cc.Body) >= 1 {
					body = strings.ReplaceAll(f.src(cc.Body[0]), " ", "")
				}
				if cc.List == nil {
					rows = append(rows, fmt.Sprintf("(%s, %s)", leanStr("default"), leanStr(strings.SplitN(body, "(", 2)[0])))
					continue
				}
				for _, e := range cc.List {
					if lit, isLit := e.(*ast.BasicLit); isLit {
						s, _ := strconv.Unquote(lit.Value)
						rows = append(rows, fmt.Sprintf("(%s, %s)", leanStr(s), leanStr(body)))
					}
				}
			}
			return false
		})
		if !ok {
			fmt.Fprintf(b, "def %s : Option (List (String × String)) := none\n\n", leanName)
			f.fail(factID, "no `switch "+tag+"` found")
			return
		}
		fmt.Fprintf(b, "def %s : Option (List (String × String)) := some [%s]\n\n", leanName, strings.Join(rows, ", "))
		f.ok(factID)
	}
	emit("hashio.GetHash:cases", "getHash", f.funcDecl("hashio", "GetHash"), "name")
	emit("control.Verifier:cases", "verifier", f.method("control", "FileHash", "Verifier"), "c.Algorithm")
	// unmarshalControl's ByHash table
	um := f.method("control", "FileHash", "unmarshalControl")
	var rows []string
	if um != nil {
		ast.Inspect(um.Body, func(n ast.Node) bool {
			sw, isSw := n.(*ast.SwitchStmt)
			if !isSw || sw.Tag == nil || f.src(sw.Tag) != "algorithm" {
				return true
			}
			for _, st := range sw.Body.List {
				cc := st.(*ast.CaseClause)
				for _, e := range cc.List {
					if lit, isLit := e.(*ast.BasicLit); isLit && len(cc.Body) == 1 {
						s, _ := strconv.Unquote(lit.Value)
						rows = append(rows, fmt.Sprintf("(%s, %s)", leanStr(s), leanStr(strings.ReplaceAll(f.src(cc.Body[0]), " ", ""))))
					}
				}
			}
			return false
		})
	}
	if len(rows) > 0 {
		fmt.Fprintf(b, "def byHash : Option (List (String × String)) := some [%s]\n\n", strings.Join(rows, ", "))
		f.ok("control.unmarshalControl:byhash")
	} else {
		fmt.Fprintf(b, "def byHash : Option (List (String × String)) := none\n\n")
		f.fail("control.unmarshalControl:byhash", "ByHash switch not found")
	}
}
