/-
  Line-protocol driver: one operation per input line, one answer per output line.
  Core Lean only.
-/
import GoDebian.Drv.Version
import GoDebian.Drv.Dependency
import GoDebian.Drv.Deb822
import GoDebian.Drv.Codec
import GoDebian.Drv.Deb
import GoDebian.Drv.Changelog
import GoDebian.Drv.Hashio
import GoDebian.Drv.BuildOrder
import GoDebian.Drv.Clearsign
import GoDebian.Drv.Upload
import GoDebian.Drv.Base
import GoDebian.Drv.Accessors

open GoDebian GoDebian.Drv

def handlers : List Handler := [versionHandler, dependencyHandler, depSpecHandler, deb822Handler, codecHandler, debHandler, changelogHandler, hashioHandler, buildOrderHandler, clearsignHandler, uploadHandler, baseHandler, accessorsHandler]

def dispatch (line : String) : String :=
  match (line.splitOn " ").filter (· ≠ "") with
  | [] => "bad-op"
  | op :: args =>
    match handlers.findSome? (fun h => h op args) with
    | some r => r
    | none => "bad-op"

partial def loop (hin hout : IO.FS.Stream) : IO Unit := do
  let line ← hin.getLine
  if line.isEmpty then return ()
  let l := String.ofList (line.toList.reverse.dropWhile (fun c => c == (Char.ofNat 10) || c == (Char.ofNat 13))).reverse
  hout.putStrLn (dispatch l)
  loop hin hout

def main : IO Unit := do
  let hin ← IO.getStdin
  let hout ← IO.getStdout
  loop hin hout
  hout.flush
