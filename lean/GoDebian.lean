-- Root of the `GoDebian` library: everything that `lake build` checks.
import GoDebian.Base.Bytes
import GoDebian.Base.Str
import GoDebian.Model.Version
import GoDebian.Drv.Version
