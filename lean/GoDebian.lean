-- Root of the `GoDebian` library: everything that `lake build` checks.
import GoDebian.Base.Bytes
import GoDebian.Base.Str
import GoDebian.Model.Version
import GoDebian.Drv.Version
import GoDebian.Spec.Version
import GoDebian.Lemmas.VersionOrd
import GoDebian.Lemmas.VersionSpec
import GoDebian.Lemmas.VersionModel
import GoDebian.Lemmas.VersionCompare
import GoDebian.Props.C01
import GoDebian.Props.C02
