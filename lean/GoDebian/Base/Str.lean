/-
  Go `strings` / `unicode` / `strconv` primitives over `Bytes`, as used by go-debian.
  Each is tied to the real Go function by the `base-*` correspondence stream.
-/
import GoDebian.Base.Bytes

namespace GoDebian.Str

/-- Length of the UTF-8 encoding of a Unicode `White_Space` rune (as `unicode.IsSpace`
    defines it) at the head of `l`, or 0 when the head is not such a rune.
    ASCII: \t \n \v \f \r and space; U+0085, U+00A0, U+1680, U+2000–U+200A,
    U+2028, U+2029, U+202F, U+205F, U+3000. -/
def spaceLen : Bytes → Nat
  | 0x09 :: _ | 0x0A :: _ | 0x0B :: _ | 0x0C :: _ | 0x0D :: _ | 0x20 :: _ => 1
  | 0xC2 :: 0x85 :: _ | 0xC2 :: 0xA0 :: _ => 2
  | 0xE1 :: 0x9A :: 0x80 :: _ => 3
  | 0xE2 :: 0x80 :: c :: _ =>
      if (0x80 ≤ c ∧ c ≤ 0x8A) ∨ c = 0xA8 ∨ c = 0xA9 ∨ c = 0xAF then 3 else 0
  | 0xE2 :: 0x81 :: 0x9F :: _ => 3
  | 0xE3 :: 0x80 :: 0x80 :: _ => 3
  | _ => 0

/-- Same, for a *reversed* string: length of the white-space rune that ends the string. -/
def spaceLenRev : Bytes → Nat
  | 0x09 :: _ | 0x0A :: _ | 0x0B :: _ | 0x0C :: _ | 0x0D :: _ | 0x20 :: _ => 1
  | 0x85 :: 0xC2 :: _ | 0xA0 :: 0xC2 :: _ => 2
  | 0x80 :: 0x9A :: 0xE1 :: _ => 3
  | 0x9F :: 0x81 :: 0xE2 :: _ => 3
  | 0x80 :: 0x80 :: 0xE3 :: _ => 3
  | c :: 0x80 :: 0xE2 :: _ =>
      if (0x80 ≤ c ∧ c ≤ 0x8A) ∨ c = 0xA8 ∨ c = 0xA9 ∨ c = 0xAF then 3 else 0
  | _ => 0

/-- `strings.TrimLeftFunc(s, unicode.IsSpace)`; fuel = length. -/
def trimLeftSpaceN : Nat → Bytes → Bytes
  | 0, l => l
  | n+1, l => match spaceLen l with
    | 0 => l
    | k => trimLeftSpaceN n (l.drop k)

def trimLeftSpace (l : Bytes) : Bytes := trimLeftSpaceN l.length l

def trimRightSpaceRevN : Nat → Bytes → Bytes
  | 0, l => l
  | n+1, l => match spaceLenRev l with
    | 0 => l
    | k => trimRightSpaceRevN n (l.drop k)

/-- `strings.TrimRightFunc(s, unicode.IsSpace)`. -/
def trimRightSpace (l : Bytes) : Bytes :=
  (trimRightSpaceRevN l.length l.reverse).reverse

/-- `strings.TrimSpace`. -/
def trimSpace (l : Bytes) : Bytes := trimRightSpace (trimLeftSpace l)

/-- `strings.IndexFunc(s, unicode.IsSpace) != -1`. -/
def hasSpaceRune : Bytes → Bool
  | [] => false
  | c :: rest => spaceLen (c :: rest) != 0 || hasSpaceRune rest

def isPrefix : Bytes → Bytes → Bool
  | [], _ => true
  | _ :: _, [] => false
  | p :: ps, x :: xs => p == x && isPrefix ps xs

def hasPrefix (s p : Bytes) : Bool := isPrefix p s
def hasSuffix (s p : Bytes) : Bool := isPrefix p.reverse s.reverse

def trimSuffix (s p : Bytes) : Bytes :=
  if hasSuffix s p then s.take (s.length - p.length) else s

/-- `strings.Index(s, sep)` as an `Option`. -/
def indexOf (sep : Bytes) : Bytes → Option Nat
  | [] => if sep.isEmpty then some 0 else none
  | c :: rest =>
    if isPrefix sep (c :: rest) then some 0 else (indexOf sep rest).map (· + 1)

def indexByte (b : Nat) (s : Bytes) : Option Nat := indexOf [b] s

/-- `strings.LastIndex(s, [b])`. -/
def lastIndexByte (b : Nat) (s : Bytes) : Option Nat :=
  match indexByte b s.reverse with
  | none => none
  | some k => some (s.length - 1 - k)

def contains (s sub : Bytes) : Bool := (indexOf sub s).isSome

/-- Split `s` at the first occurrence of non-empty `sep`. -/
def cut (sep : Bytes) (s : Bytes) : Option (Bytes × Bytes) :=
  match indexOf sep s with
  | none => none
  | some k => some (s.take k, s.drop (k + sep.length))

/-- `strings.SplitN(s, sep, n)` for non-empty `sep` and `n ≥ 1`; `fuel` bounds the
    number of pieces (the length of `s` + 1 always suffices). -/
def splitNAux (sep : Bytes) : Nat → Nat → Bytes → List Bytes
  | 0, _, s => [s]
  | _, 0, s => [s]
  | fuel+1, n+1, s =>
    if n = 0 then [s] else
    match cut sep s with
    | none => [s]
    | some (a, b) => a :: splitNAux sep fuel n b

def splitN (sep : Bytes) (n : Nat) (s : Bytes) : List Bytes :=
  splitNAux sep (s.length + 1) n s

/-- `strings.Split(s, sep)` for non-empty `sep`. -/
def split (sep : Bytes) (s : Bytes) : List Bytes :=
  splitNAux sep (s.length + 1) (s.length + 2) s

def joinWith (sep : Bytes) : List Bytes → Bytes
  | [] => []
  | [x] => x
  | x :: rest => x ++ sep ++ joinWith sep rest

/-- `strings.Trim(s, cutset)` for an ASCII cut set (byte-level in Go's fast path). -/
def trimSet (cutset : Bytes) (s : Bytes) : Bytes :=
  ((s.dropWhile (cutset.contains ·)).reverse.dropWhile (cutset.contains ·)).reverse

/-- `strings.Replace(s, old, new, -1)` for non-empty `old`: left-to-right,
    non-overlapping. -/
def replaceAllN (old new : Bytes) : Nat → Bytes → Bytes
  | 0, s => s
  | _, [] => []
  | n+1, c :: rest =>
    if isPrefix old (c :: rest) then new ++ replaceAllN old new n ((c :: rest).drop old.length)
    else c :: replaceAllN old new n rest

def replaceAll (old new s : Bytes) : Bytes := replaceAllN old new (s.length + 1) s

/-- `strings.Fields`: split around runs of Unicode white space, no empty fields. -/
def fieldsN : Nat → Bytes → Bytes → List Bytes
  | 0, cur, _ => if cur.isEmpty then [] else [cur.reverse]
  | _, cur, [] => if cur.isEmpty then [] else [cur.reverse]
  | n+1, cur, c :: rest =>
    match spaceLen (c :: rest) with
    | 0 => fieldsN n (c :: cur) rest
    | k => (if cur.isEmpty then [] else [cur.reverse]) ++ fieldsN n [] ((c :: rest).drop k)

def fields (s : Bytes) : List Bytes := fieldsN (s.length + 1) [] s

/-! ### strconv -/

def isDigit (c : Nat) : Bool := 48 ≤ c && c ≤ 57

def digitsVal : Bytes → Nat → Option Nat
  | [], acc => some acc
  | c :: rest, acc => if isDigit c then digitsVal rest (acc * 10 + (c - 48)) else none

/-- `strconv.ParseInt(s, 10, 64)` / `strconv.Atoi` on a 64-bit platform:
    optional sign, at least one digit, base-10 digits only, range-checked. -/
def parseInt64 (s : Bytes) : Option Int :=
  let (neg, body) := match s with
    | 0x2B :: r => (false, r)
    | 0x2D :: r => (true, r)
    | r => (false, r)
  if body.isEmpty then none else
  match digitsVal body 0 with
  | none => none
  | some n =>
    if neg then (if n ≤ 2^63 then some (-(n : Int)) else none)
    else (if n < 2^63 then some (n : Int) else none)

/-- Decimal digits of `n`, most significant first (`strconv.Itoa` / `%d`); fuelled so
    that proofs go by structural induction. -/
def natDigitsAux : Nat → Nat → Bytes → Bytes
  | 0, _, acc => acc
  | fuel+1, n, acc =>
    if n < 10 then (48 + n) :: acc
    else natDigitsAux fuel (n / 10) ((48 + n % 10) :: acc)

def fmtNat (n : Nat) : Bytes := natDigitsAux (n + 1) n []

def fmtInt (i : Int) : Bytes :=
  if i < 0 then 0x2D :: fmtNat i.natAbs else fmtNat i.toNat

end GoDebian.Str
