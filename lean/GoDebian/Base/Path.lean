/-
  Go `path.Clean` and `filepath.Ext` (lexical), as used by deb.go / tarfile.go and the
  upload helpers.  Tied to the real functions by the `base-*` correspondence stream.
-/
import GoDebian.Base.Str

namespace GoDebian.Path
open GoDebian

def splitSlash (p : Bytes) : List Bytes := Str.split [47] p

/-- process components left to right: drop "" and ".", ".." pops (or is kept when it
    cannot pop in a relative path / dropped at the root) -/
def cleanComps (rooted : Bool) : List Bytes → List Bytes → List Bytes
  | [], acc => acc.reverse
  | c :: rest, acc =>
    if c.isEmpty || c = [46] then cleanComps rooted rest acc
    else if c = [46, 46] then
      match acc with
      | top :: acc' =>
        if top = [46, 46] then cleanComps rooted rest (c :: acc)   -- only in relative paths
        else cleanComps rooted rest acc'
      | [] => if rooted then cleanComps rooted rest [] else cleanComps rooted rest [c]
    else cleanComps rooted rest (c :: acc)

/-- `path.Clean` -/
def clean (p : Bytes) : Bytes :=
  if p.isEmpty then [46] else
  let rooted := p.head? = some 47
  let comps := cleanComps rooted (splitSlash p) []
  let body := Str.joinWith [47] comps
  if rooted then 47 :: body
  else if body.isEmpty then [46] else body

/-- `path.Join(a, b)` for two elements -/
def join (a b : Bytes) : Bytes :=
  if a.isEmpty && b.isEmpty then [] else
  if a.isEmpty then clean b else if b.isEmpty then clean a else clean (a ++ [47] ++ b)

/-- `filepath.Base` / `path.Base` -/
def base (p : Bytes) : Bytes :=
  if p.isEmpty then [46] else
  let q := (p.reverse.dropWhile (· == 47)).reverse
  if q.isEmpty then [47] else
  match Str.lastIndexByte 47 q with
  | none => q
  | some i => q.drop (i + 1)

/-- `filepath.Dir` -/
def dir (p : Bytes) : Bytes :=
  match Str.lastIndexByte 47 p with
  | none => [46]
  | some i => clean (p.take (i + 1))

/-- `filepath.Ext`: the suffix beginning at the final dot of the final element -/
def ext (p : Bytes) : Bytes :=
  let rec go : Bytes → Bytes → Bytes        -- scan the reversed path
    | [], _ => []
    | c :: rest, acc =>
      if c = 47 then [] else if c = 46 then 46 :: acc else go rest (c :: acc)
  go p.reverse []

end GoDebian.Path
