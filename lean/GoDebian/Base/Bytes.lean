/-
  Bytes as lists of naturals, hex transport encoding, small list utilities.
  Core Lean only (the driver links against this).
-/
namespace GoDebian

abbrev Bytes := List Nat

/-- Outcome classes of a modelled Go call that does not return a value. -/
inductive Err where
  | err    -- the Go function returns a non-nil error
  | panic  -- the Go function would panic (index out of range, nil dereference …)
  | fuel   -- the model ran out of fuel (= the Go loop would not terminate)
  deriving DecidableEq, Repr, Inhabited

abbrev Res (α : Type) := Except Err α

namespace Bytes

def ofString (s : String) : Bytes := s.toUTF8.toList.map (·.toNat)

def hexDigit (n : Nat) : Char :=
  if n < 10 then Char.ofNat (48 + n) else Char.ofNat (87 + n)

def toHex (b : Bytes) : String :=
  if b.isEmpty then "-" else
  String.ofList (b.foldr (fun x acc => hexDigit (x / 16 % 16) :: hexDigit (x % 16) :: acc) [])

def hexVal (c : Char) : Option Nat :=
  if '0' ≤ c ∧ c ≤ '9' then some (c.toNat - 48)
  else if 'a' ≤ c ∧ c ≤ 'f' then some (c.toNat - 87)
  else none

def ofHexChars : List Char → Option Bytes
  | [] => some []
  | [_] => none
  | a :: b :: rest => do
    let x ← hexVal a
    let y ← hexVal b
    let r ← ofHexChars rest
    pure ((x * 16 + y) :: r)

def ofHex (s : String) : Option Bytes :=
  if s == "-" then some [] else ofHexChars s.toList

end Bytes

/-- `b` written in the source as a character literal. -/
@[inline] def ch (c : Char) : Nat := c.toNat

end GoDebian
