/-
  String lemmas for C08 (deb822 write/read round trip): white-space trimming as a
  decomposition `x = w ++ trimLeftSpace x`, `x = trimRightSpace x ++ w` with `w` a run of
  white-space runes; "white space from the left" = "white space from the right";
  `split`/`joinWith` on newlines; `splitN` at the first colon.
  Core Lean only.
-/
import GoDebian.Base.Str
import GoDebian.Lemmas.Str

namespace GoDebian.Lemmas.Deb822WriteStr
open GoDebian GoDebian.Str GoDebian.Lemmas.Str

/-- a concatenation of UTF-8 encodings of white-space runes -/
def IsSpaces (w : Bytes) : Prop := trimLeftSpace w = []

/-- no white-space rune at either end (`TrimSpace` leaves the string alone) -/
def Trimmed (t : Bytes) : Prop := spaceLen t = 0 ∧ spaceLenRev t.reverse = 0

/-! ### `spaceLen` -/

theorem spaceLen_E2_80 {c : Nat}
    (hc : (0x80 ≤ c ∧ c ≤ 0x8A) ∨ c = 0xA8 ∨ c = 0xA9 ∨ c = 0xAF) (Z : Bytes) :
    spaceLen (0xE2 :: 0x80 :: c :: Z) = 3 := by
  unfold spaceLen
  split <;> first
    | (simp_all; done)
    | (simp_all; omega)

/-- mirror image of `spaceLen_mirror` -/
theorem spaceLenRev_mirror {l : Bytes} {k : Nat} (h : spaceLenRev l = k) (hk : k ≠ 0)
    (Z : Bytes) : spaceLen ((l.take k).reverse ++ Z) = k := by
  subst h
  unfold spaceLenRev at hk ⊢
  split at hk <;> first
    | (exfalso; exact hk rfl)
    | rfl
    | (split at hk
       · rename_i hc; simp only [hc, if_true]; exact spaceLen_E2_80 hc Z
       · exact absurd rfl hk)

/-- a white-space rune is recognised from its own bytes alone -/
theorem spaceLen_take {l : Bytes} {k : Nat} (h : spaceLen l = k) (hk : k ≠ 0) (Z : Bytes) :
    spaceLen (l.take k ++ Z) = k := by
  obtain ⟨hle, _⟩ := spaceLen_append h hk []
  have h1 := spaceLen_mirror h hk []
  have h2 := spaceLenRev_mirror h1 hk Z
  have hlen : ((l.take k).reverse ++ []).length = k := by simp [List.length_take]; omega
  rw [List.take_of_length_le (by omega)] at h2
  simpa using h2

theorem isSpaces_take {l : Bytes} (hk : spaceLen l ≠ 0) : IsSpaces (l.take (spaceLen l)) := by
  obtain ⟨hle, _⟩ := spaceLen_append rfl hk []
  have h := spaceLen_take rfl hk []
  rw [List.append_nil] at h
  unfold IsSpaces
  rw [trimLeftSpace_step (by rw [h]; exact hk), h, List.drop_of_length_le (by simp [List.length_take]; omega)]
  rfl

theorem spaceLen_le_three (l : Bytes) : spaceLen l ≤ 3 := by
  unfold spaceLen
  split <;> first
    | omega
    | (split <;> omega)

theorem spaceLen_second {a b : Nat} {Y : Bytes} (h : 2 ≤ spaceLen (a :: b :: Y)) : 128 ≤ b := by
  unfold spaceLen at h
  split at h <;> simp_all <;> omega

theorem spaceLen_third {a b c : Nat} {Y : Bytes} (h : 3 ≤ spaceLen (a :: b :: c :: Y)) :
    128 ≤ c := by
  unfold spaceLen at h
  split at h <;> (try split at h) <;> simp_all <;> omega

/-- the bytes below 0x80 never continue a white-space rune -/
theorem spaceLen_append_ascii {f : Bytes} (h : spaceLen f = 0) (hne : f ≠ []) {b : Nat}
    (hb : b < 128) (Y : Bytes) : spaceLen (f ++ b :: Y) = 0 := by
  apply Classical.byContradiction
  intro hn
  have h3 := spaceLen_le_three (f ++ b :: Y)
  by_cases hle : spaceLen (f ++ b :: Y) ≤ f.length
  · have := spaceLen_take rfl hn (f.drop (spaceLen (f ++ b :: Y)))
    rw [List.take_append_of_le_length hle, List.take_append_drop] at this
    exact hn (this ▸ h)
  · match f, hne with
    | [c], _ =>
      have := spaceLen_second (a := c) (b := b) (Y := Y) (by simp at hle ⊢; omega)
      omega
    | [c, d], _ =>
      have := spaceLen_third (a := c) (b := d) (c := b) (Y := Y) (by simp at hle ⊢; omega)
      omega
    | c :: d :: e :: r, _ => simp only [List.cons_append, List.length_cons] at *; omega

/-! ### trimming as a decomposition -/

theorem isSpaces_nil : IsSpaces [] := rfl

theorem isSpaces_of_spaceLen_eq_length {w : Bytes} (h : spaceLen w = w.length) : IsSpaces w := by
  unfold IsSpaces
  by_cases hz : spaceLen w = 0
  · have : w = [] := List.length_eq_zero_iff.mp (by omega)
    subst this; rfl
  · rw [trimLeftSpace_step hz, List.drop_of_length_le (by omega)]; rfl

theorem trimLeftSpace_append_spaces {w : Bytes} (hw : IsSpaces w) (Y : Bytes) :
    trimLeftSpace (w ++ Y) = trimLeftSpace Y := by
  suffices ∀ n (w : Bytes), w.length ≤ n → trimLeftSpace w = [] →
      trimLeftSpace (w ++ Y) = trimLeftSpace Y from this _ w (Nat.le_refl _) hw
  intro n
  induction n with
  | zero =>
    intro w hl _
    have : w = [] := List.length_eq_zero_iff.mp (by omega)
    subst this; rfl
  | succ n ih =>
    intro w hl hw
    by_cases hz : spaceLen w = 0
    · rw [trimLeftSpace_of_zero hz] at hw
      subst hw; rfl
    · obtain ⟨hle, happ⟩ := spaceLen_append rfl hz Y
      rw [trimLeftSpace_step (by rw [happ]; exact hz), happ, List.drop_append_of_le_length hle]
      apply ih
      · simp only [List.length_drop]; omega
      · rw [← trimLeftSpace_step hz]; exact hw

theorem isSpaces_append {a b : Bytes} (ha : IsSpaces a) (hb : IsSpaces b) :
    IsSpaces (a ++ b) := by
  unfold IsSpaces; rw [trimLeftSpace_append_spaces ha]; exact hb

theorem trimLeftSpace_decomp (x : Bytes) :
    ∃ w, x = w ++ trimLeftSpace x ∧ IsSpaces w ∧ spaceLen (trimLeftSpace x) = 0 := by
  suffices ∀ n (x : Bytes), x.length ≤ n →
      ∃ w, x = w ++ trimLeftSpace x ∧ IsSpaces w ∧ spaceLen (trimLeftSpace x) = 0 from
    this _ x (Nat.le_refl _)
  intro n
  induction n with
  | zero =>
    intro x hl
    have : x = [] := List.length_eq_zero_iff.mp (by omega)
    subst this; exact ⟨[], rfl, rfl, rfl⟩
  | succ n ih =>
    intro x hl
    by_cases hz : spaceLen x = 0
    · exact ⟨[], by rw [trimLeftSpace_of_zero hz]; rfl, rfl, by rw [trimLeftSpace_of_zero hz]; exact hz⟩
    · obtain ⟨hle, _⟩ := spaceLen_append rfl hz []
      obtain ⟨w, h1, h2, h3⟩ := ih (x.drop (spaceLen x)) (by simp only [List.length_drop]; omega)
      rw [← trimLeftSpace_step hz] at h1 h3
      refine ⟨x.take (spaceLen x) ++ w, ?_, isSpaces_append (isSpaces_take hz) h2, h3⟩
      rw [List.append_assoc, ← h1, List.take_append_drop]

theorem trimRev_decomp (r : Bytes) :
    ∃ w, r = w ++ trimRev r ∧ IsSpaces w.reverse ∧ spaceLenRev (trimRev r) = 0 := by
  suffices ∀ n (r : Bytes), r.length ≤ n →
      ∃ w, r = w ++ trimRev r ∧ IsSpaces w.reverse ∧ spaceLenRev (trimRev r) = 0 from
    this _ r (Nat.le_refl _)
  intro n
  induction n with
  | zero =>
    intro r hl
    have : r = [] := List.length_eq_zero_iff.mp (by omega)
    subst this; exact ⟨[], rfl, rfl, rfl⟩
  | succ n ih =>
    intro r hl
    by_cases hz : spaceLenRev r = 0
    · exact ⟨[], by rw [trimRev_of_zero hz]; rfl, rfl, by rw [trimRev_of_zero hz]; exact hz⟩
    · obtain ⟨hle, _⟩ := spaceLenRev_append rfl hz []
      obtain ⟨w, h1, h2, h3⟩ := ih (r.drop (spaceLenRev r)) (by simp only [List.length_drop]; omega)
      rw [← trimRev_step hz] at h1 h3
      refine ⟨r.take (spaceLenRev r) ++ w, ?_, ?_, h3⟩
      · rw [List.append_assoc, ← h1, List.take_append_drop]
      · rw [List.reverse_append]
        refine isSpaces_append h2 (isSpaces_of_spaceLen_eq_length ?_)
        have := spaceLenRev_mirror rfl hz []
        rw [List.append_nil] at this
        rw [this]; simp [List.length_take]; omega

theorem trimRightSpace_decomp (x : Bytes) :
    ∃ w, x = trimRightSpace x ++ w ∧ IsSpaces w ∧ spaceLenRev (trimRightSpace x).reverse = 0 := by
  obtain ⟨w, h1, h2, h3⟩ := trimRev_decomp x.reverse
  refine ⟨w.reverse, ?_, h2, ?_⟩
  · rw [trimRightSpace_eq, ← List.reverse_append, ← h1, List.reverse_reverse]
  · rw [trimRightSpace_eq, List.reverse_reverse]; exact h3

theorem trimRightSpace_of_zero {x : Bytes} (h : spaceLenRev x.reverse = 0) :
    trimRightSpace x = x := by
  rw [trimRightSpace_eq, trimRev_of_zero h, List.reverse_reverse]

theorem trimRightSpace_append_spaces (x : Bytes) {w : Bytes} (hw : IsSpaces w) :
    trimRightSpace (x ++ w) = trimRightSpace x := by
  rw [trimRightSpace_eq, List.reverse_append, trimRev_append_of_spaces hw, ← trimRightSpace_eq]

theorem trimRightSpace_eq_nil_iff (w : Bytes) : trimRightSpace w = [] ↔ IsSpaces w := by
  constructor
  · intro h
    obtain ⟨w', h1, h2, _⟩ := trimRightSpace_decomp w
    rw [h, List.nil_append] at h1
    rw [h1]; exact h2
  · intro h
    have := trimRightSpace_append_spaces [] h
    rw [List.nil_append] at this
    rw [this]; rfl

theorem trimRightSpace_idem (x : Bytes) : trimRightSpace (trimRightSpace x) = trimRightSpace x := by
  obtain ⟨_, _, _, h⟩ := trimRightSpace_decomp x
  exact trimRightSpace_of_zero h

theorem spaceLenRev_of_trimRightSpace_fixed {x : Bytes} (h : trimRightSpace x = x) :
    spaceLenRev x.reverse = 0 := by
  obtain ⟨_, _, _, h3⟩ := trimRightSpace_decomp x
  rw [h] at h3; exact h3

theorem spaceLen_of_trimLeftSpace_fixed {x : Bytes} (h : trimLeftSpace x = x) :
    spaceLen x = 0 := by
  obtain ⟨_, _, _, h3⟩ := trimLeftSpace_decomp x
  rw [h] at h3; exact h3

theorem spaceLen_trimRightSpace {y : Bytes} (h : spaceLen y = 0) :
    spaceLen (trimRightSpace y) = 0 := by
  obtain ⟨w, h1, _, _⟩ := trimRightSpace_decomp y
  apply Classical.byContradiction
  intro hn
  have := (spaceLen_append rfl hn w).2
  rw [← h1] at this
  exact hn (this ▸ h)

theorem trimmed_trimSpace (x : Bytes) : Trimmed (trimSpace x) := by
  obtain ⟨_, _, _, h1⟩ := trimLeftSpace_decomp x
  obtain ⟨_, _, _, h2⟩ := trimRightSpace_decomp (trimLeftSpace x)
  exact ⟨spaceLen_trimRightSpace h1, h2⟩

theorem trimSpace_of_trimmed {t : Bytes} (h : Trimmed t) : trimSpace t = t := by
  unfold trimSpace
  rw [trimLeftSpace_of_zero h.1, trimRightSpace_of_zero h.2]

theorem trimmed_of_fixed {t : Bytes} (h : trimSpace t = t) : Trimmed t := by
  have := trimmed_trimSpace t
  rwa [h] at this

theorem trimmed_nil : Trimmed [] := ⟨rfl, rfl⟩

theorem trimSpace_idem (x : Bytes) : trimSpace (trimSpace x) = trimSpace x :=
  trimSpace_of_trimmed (trimmed_trimSpace x)

theorem mem_of_mem_trimLeftSpace {c : Nat} {x : Bytes} (h : c ∈ trimLeftSpace x) : c ∈ x := by
  obtain ⟨w, h1, _, _⟩ := trimLeftSpace_decomp x
  rw [h1]; exact List.mem_append_right _ h

theorem mem_of_mem_trimRightSpace {c : Nat} {x : Bytes} (h : c ∈ trimRightSpace x) : c ∈ x := by
  obtain ⟨w, h1, _, _⟩ := trimRightSpace_decomp x
  rw [h1]; exact List.mem_append_left _ h

theorem mem_of_mem_trimSpace {c : Nat} {x : Bytes} (h : c ∈ trimSpace x) : c ∈ x :=
  mem_of_mem_trimLeftSpace (mem_of_mem_trimRightSpace h)

theorem isSpaces_nl : IsSpaces [10] := by unfold IsSpaces; decide

theorem trimRightSpace_snoc_nl (l : Bytes) : trimRightSpace (l ++ [10]) = trimRightSpace l :=
  trimRightSpace_append_spaces l isSpaces_nl

/-- `TrimSpace` gives the empty string exactly on white space -/
theorem trimSpace_eq_nil_iff (x : Bytes) : trimSpace x = [] ↔ IsSpaces x := by
  unfold trimSpace
  rw [trimRightSpace_eq_nil_iff]
  obtain ⟨_, _, _, h⟩ := trimLeftSpace_decomp x
  unfold IsSpaces
  rw [trimLeftSpace_of_zero h]

theorem spaceLen_blank (x : Bytes) : spaceLen (32 :: x) = 1 := rfl
theorem spaceLen_tab (x : Bytes) : spaceLen (9 :: x) = 1 := rfl

theorem isSpaces_cons_blank (x : Bytes) : IsSpaces (32 :: x) ↔ IsSpaces x := by
  unfold IsSpaces
  rw [trimLeftSpace_step (l := 32 :: x) (by rw [spaceLen_blank]; decide), spaceLen_blank]
  rfl

theorem not_isSpaces_of_zero {x : Bytes} (h : spaceLen x = 0) (hne : x ≠ []) : ¬ IsSpaces x := by
  unfold IsSpaces
  rw [trimLeftSpace_of_zero h]; exact hne

/-- what the reader makes of the text after the colon of a written field line -/
theorem trimSpace_blank_trimmed_nl {t : Bytes} (h : Trimmed t) : trimSpace (32 :: t ++ [10]) = t := by
  unfold trimSpace
  rw [trimLeftSpace_step (l := 32 :: t ++ [10]) (by rw [List.cons_append, spaceLen_blank]; decide),
    List.cons_append, spaceLen_blank]
  show trimRightSpace (trimLeftSpace (t ++ [10])) = t
  by_cases hne : t = []
  · subst hne; decide
  · rw [trimLeftSpace_of_zero (spaceLen_append_ascii h.1 hne (by decide) []),
      trimRightSpace_snoc_nl, trimRightSpace_of_zero h.2]

/-! ### `cut`, `splitN` at a byte -/

theorem indexByte_some {b : Nat} {s : Bytes} {i : Nat} (h : indexByte b s = some i) :
    s = s.take i ++ b :: s.drop (i + 1) ∧ b ∉ s.take i := by
  induction s generalizing i with
  | nil => simp [indexByte_nil] at h
  | cons c s ih =>
    rw [indexByte_cons] at h
    by_cases hbc : b = c
    · rw [if_pos hbc] at h
      injection h with h; subst h; subst hbc; simp
    · rw [if_neg hbc] at h
      cases hi : indexByte b s with
      | none => simp [hi] at h
      | some j =>
        rw [hi] at h; simp at h; subst h
        obtain ⟨h1, h2⟩ := ih hi
        refine ⟨?_, ?_⟩
        · simp only [List.take_succ_cons, List.drop_succ_cons, List.cons_append]
          rw [← h1]
        · simp only [List.take_succ_cons, List.mem_cons, not_or]
          exact ⟨hbc, h2⟩

theorem cut_none {b : Nat} {s : Bytes} (h : b ∉ s) : cut [b] s = none := by
  unfold cut
  rw [show indexOf [b] s = indexByte b s from rfl, indexByte_of_not_mem h]

theorem cut_append {b : Nat} {x : Bytes} (y : Bytes) (h : b ∉ x) :
    cut [b] (x ++ b :: y) = some (x, y) := by
  unfold cut
  rw [show indexOf [b] (x ++ b :: y) = indexByte b (x ++ b :: y) from rfl, indexByte_append y h]
  simp

theorem cut_some {b : Nat} {s x y : Bytes} (h : cut [b] s = some (x, y)) :
    s = x ++ b :: y ∧ b ∉ x := by
  unfold cut at h
  rw [show indexOf [b] s = indexByte b s from rfl] at h
  cases hi : indexByte b s with
  | none => simp [hi] at h
  | some i =>
    rw [hi] at h
    simp only [Option.some.injEq, Prod.mk.injEq, List.length_singleton] at h
    obtain ⟨h1, h2⟩ := indexByte_some hi
    rw [← h.1, ← h.2]
    exact ⟨h1, h2⟩

theorem splitN_two (b : Nat) (s : Bytes) :
    splitN [b] 2 s = match cut [b] s with
      | none => [s]
      | some (x, y) => [x, y] := by
  unfold splitN
  simp only [splitNAux]
  cases cut [b] s with
  | none => simp
  | some xy =>
    obtain ⟨x, y⟩ := xy
    simp only [Nat.succ_ne_zero, if_false]
    cases s.length <;> simp [splitNAux]

theorem splitN_two_append {b : Nat} {x : Bytes} (y : Bytes) (h : b ∉ x) :
    splitN [b] 2 (x ++ b :: y) = [x, y] := by
  rw [splitN_two, cut_append y h]

theorem splitN_two_eq_pair {b : Nat} {s x y : Bytes} (h : splitN [b] 2 s = [x, y]) :
    s = x ++ b :: y ∧ b ∉ x := by
  rw [splitN_two] at h
  cases hc : cut [b] s with
  | none => simp [hc] at h
  | some xy =>
    obtain ⟨x', y'⟩ := xy
    rw [hc] at h
    simp only [List.cons.injEq, and_true] at h
    obtain ⟨rfl, rfl⟩ := h
    exact cut_some hc

/-! ### lines: `split`, `joinWith`, `trimSuffix` on the newline -/

theorem length_joinWith (ls : List Bytes) : ls.length ≤ (joinWith [10] ls).length + 1 := by
  induction ls with
  | nil => simp
  | cons x rest ih =>
    cases rest with
    | nil => simp [joinWith]
    | cons y rest =>
      simp only [joinWith, List.length_append, List.length_cons, List.length_nil] at ih ⊢
      omega

theorem joinWith_cons_cons (x y : Bytes) (rest : List Bytes) :
    joinWith [10] (x :: y :: rest) = x ++ 10 :: joinWith [10] (y :: rest) := by
  simp [joinWith]

theorem splitNAux_joinWith (ls : List Bytes) (hne : ls ≠ []) (h : ∀ l ∈ ls, 10 ∉ l)
    (fuel n : Nat) (hf : ls.length ≤ fuel + 1) (hn : ls.length ≤ n) :
    splitNAux [10] fuel n (joinWith [10] ls) = ls := by
  induction ls generalizing fuel n with
  | nil => exact absurd rfl hne
  | cons x rest ih =>
    cases rest with
    | nil =>
      have hx : 10 ∉ x := h x (by simp)
      cases fuel with
      | zero => simp [joinWith, splitNAux]
      | succ f =>
        cases n with
        | zero => simp [joinWith, splitNAux]
        | succ m => simp [joinWith, splitNAux, cut_none hx]
    | cons y rest =>
      have hx : 10 ∉ x := h x (by simp)
      rw [joinWith_cons_cons]
      cases fuel with
      | zero => simp at hf
      | succ f =>
        cases n with
        | zero => simp at hn
        | succ m =>
          have hm : m ≠ 0 := by simp at hn; omega
          simp only [splitNAux, if_neg hm, cut_append _ hx]
          rw [ih (by simp) (fun l hl => h l (List.mem_cons_of_mem _ hl)) f m
            (by simp at hf ⊢; omega) (by simp at hn ⊢; omega)]

theorem split_joinWith {ls : List Bytes} (hne : ls ≠ []) (h : ∀ l ∈ ls, 10 ∉ l) :
    split [10] (joinWith [10] ls) = ls := by
  unfold split
  have := length_joinWith ls
  exact splitNAux_joinWith ls hne h _ _ (by omega) (by omega)

theorem exists_lines (s : Bytes) :
    ∃ ls, ls ≠ [] ∧ (∀ l ∈ ls, 10 ∉ l) ∧ joinWith [10] ls = s := by
  induction s with
  | nil => exact ⟨[[]], by simp, by simp, rfl⟩
  | cons c s ih =>
    obtain ⟨ls, hne, h, hj⟩ := ih
    cases ls with
    | nil => exact absurd rfl hne
    | cons x rest =>
      by_cases hc : c = 10
      · subst hc
        refine ⟨[] :: x :: rest, by simp, ?_, ?_⟩
        · intro l hl
          rcases List.mem_cons.mp hl with rfl | hl
          · simp
          · exact h l hl
        · rw [joinWith_cons_cons, hj]; rfl
      · refine ⟨(c :: x) :: rest, by simp, ?_, ?_⟩
        · intro l hl
          rcases List.mem_cons.mp hl with rfl | hl
          · have := h x (by simp)
            simp only [List.mem_cons, not_or]
            exact ⟨fun e => hc e.symm, this⟩
          · exact h l (List.mem_cons_of_mem _ hl)
        · cases rest with
          | nil => simp only [joinWith] at hj ⊢; rw [hj]
          | cons y rest => rw [joinWith_cons_cons] at hj ⊢; rw [← hj]; rfl

/-- `strings.Split(s, "\n")`: the non-empty list of newline-free pieces that joins to `s` -/
theorem split_spec (s : Bytes) :
    split [10] s ≠ [] ∧ (∀ l ∈ split [10] s, 10 ∉ l) ∧ joinWith [10] (split [10] s) = s := by
  obtain ⟨ls, hne, h, hj⟩ := exists_lines s
  have := split_joinWith hne h
  rw [hj] at this
  rw [this]; exact ⟨hne, h, hj⟩

theorem hasSuffix_snoc_nl (x : Bytes) : hasSuffix (x ++ [10]) [10] = true := by
  simp [hasSuffix, isPrefix]

theorem hasSuffix_nl_of_not_mem {t : Bytes} (h : 10 ∉ t) : hasSuffix t [10] = false := by
  unfold hasSuffix
  cases hr : t.reverse with
  | nil => rfl
  | cons c r =>
    have : c ∈ t := by
      have : c ∈ t.reverse := by rw [hr]; simp
      exact List.mem_reverse.mp this
    have hc : c ≠ 10 := fun e => h (e ▸ this)
    simp [isPrefix]; exact fun e => hc e.symm

theorem trimSuffix_snoc_nl (x : Bytes) : trimSuffix (x ++ [10]) [10] = x := by
  unfold trimSuffix
  rw [hasSuffix_snoc_nl]; simp

theorem trimSuffix_nl_of_not_mem {t : Bytes} (h : 10 ∉ t) : trimSuffix t [10] = t := by
  unfold trimSuffix
  rw [hasSuffix_nl_of_not_mem h]; simp

/-- every string is its lines joined, newline-terminated or not -/
theorem joinWith_snoc_nl {ls : List Bytes} (hne : ls ≠ []) :
    joinWith [10] ls ++ [10] = (ls.map (· ++ [10])).flatten := by
  induction ls with
  | nil => exact absurd rfl hne
  | cons x rest ih =>
    cases rest with
    | nil => simp [joinWith]
    | cons y rest =>
      rw [joinWith_cons_cons, List.map_cons, List.flatten_cons, ← ih (by simp)]
      simp

end GoDebian.Lemmas.Deb822WriteStr
