/-
  The version parser `GoDebian.Version.parse` cut into stages (`parseTrimmed`,
  `epochOf`, `parseBody`, `finish`), each stage characterised on strings of the shape
  `x ++ b :: y`; the invariant of parser outputs; re-parsing of the printer's output.
  Core Lean only.
-/
import GoDebian.Model.Version
import GoDebian.Lemmas.Str
import GoDebian.Lemmas.StrNum

namespace GoDebian.Lemmas.VersionParse
open GoDebian GoDebian.Version
open GoDebian.Lemmas.Str

/-- Parser results can be compared (for `decide` in examples). -/
instance : DecidableEq (Res Version) := fun a b =>
  match a, b with
  | .ok x, .ok y => if h : x = y then isTrue (by rw [h]) else isFalse (fun e => h (by injection e))
  | .error x, .error y =>
    if h : x = y then isTrue (by rw [h]) else isFalse (fun e => h (by injection e))
  | .ok _, .error _ => isFalse (fun e => by cases e)
  | .error _, .ok _ => isFalse (fun e => by cases e)

/-! ### stages of `parse` -/

/-- The four final checks on the two parts. -/
def finish (epoch : Nat) (up rev : Bytes) : Res Version :=
  if up.isEmpty then .error .err else
  if (match up with | [] => false | c :: _ => !cisdigit c) then .error .err else
  if up.any (fun c => !upstreamChar c) then .error .err else
  if rev.any (fun c => !revisionChar c) then .error .err else
  .ok ⟨epoch, up, rev⟩

/-- Everything after the epoch. -/
def parseBody (epoch : Nat) (rest : Bytes) : Res Version :=
  if rest.isEmpty then .error .err else
  match Str.lastIndexByte 45 rest with
  | none => finish epoch rest []
  | some h => finish epoch (rest.take h) (rest.drop (h + 1))

/-- The epoch text. -/
def epochOf (e : Bytes) : Res Nat :=
  match Str.parseInt64 e with
  | none => .error .err
  | some e => if e < 0 then .error .err else .ok e.toNat

/-- `parse` after trimming and the embedded-space check. -/
def parseTrimmed (t : Bytes) : Res Version :=
  match Str.indexByte 58 t with
  | none => parseBody 0 t
  | some k =>
    match epochOf (t.take k) with
    | .error e => .error e
    | .ok ep => parseBody ep (t.drop (k + 1))

theorem parse_eq (s : Bytes) :
    parse s =
      if (Str.trimSpace s).isEmpty then .error .err
      else if Str.hasSpaceRune (Str.trimSpace s) then .error .err
      else parseTrimmed (Str.trimSpace s) := by
  unfold parse parseTrimmed
  simp only []
  split
  · rfl
  · split
    · rfl
    · cases Str.indexByte 58 (Str.trimSpace s) with
      | none =>
        simp only [parseBody, finish]
        cases Str.lastIndexByte 45 (Str.trimSpace s) <;> rfl
      | some k =>
        simp only [epochOf]
        cases Str.parseInt64 (List.take k (Str.trimSpace s)) with
        | none => rfl
        | some e =>
          by_cases hneg : e < 0
          · simp only [hneg, if_true]
          · simp only [hneg, if_false, parseBody, finish]
            cases Str.lastIndexByte 45 (List.drop (k + 1) (Str.trimSpace s)) <;> rfl

/-! ### the stages on strings of known shape -/

theorem drop_succ_append (x : Bytes) (c : Nat) (y : Bytes) :
    (x ++ c :: y).drop (x.length + 1) = y := by
  induction x <;> simp_all

theorem parseTrimmed_no_colon {t : Bytes} (h : 58 ∉ t) : parseTrimmed t = parseBody 0 t := by
  simp [parseTrimmed, indexByte_of_not_mem h]

theorem parseTrimmed_colon {e : Bytes} (b : Bytes) (h : 58 ∉ e) :
    parseTrimmed (e ++ 58 :: b) =
      match epochOf e with
      | .error x => .error x
      | .ok ep => parseBody ep b := by
  simp only [parseTrimmed, indexByte_append b h, List.take_left', drop_succ_append]

/-- The three conditions on the parts, as one Boolean. -/
def partsOK (u r : Bytes) : Bool :=
  (match u with | [] => false | c :: _ => cisdigit c) && u.all upstreamChar && r.all revisionChar

theorem any_not (p : Nat → Bool) (l : Bytes) : l.any (fun c => !p c) = !l.all p := by
  induction l <;> simp_all

theorem finish_eq (ep : Nat) (u r : Bytes) :
    finish ep u r = if partsOK u r then .ok ⟨ep, u, r⟩ else .error .err := by
  cases u with
  | nil => rfl
  | cons c u =>
    simp only [finish, partsOK, any_not, List.isEmpty_cons, Bool.false_eq_true, if_false]
    by_cases h1 : cisdigit c = true <;> by_cases h2 : List.all (c :: u) upstreamChar = true <;>
      by_cases h3 : List.all r revisionChar = true <;> simp [h1, h2, h3]

theorem finish_nil (ep : Nat) (r : Bytes) : finish ep [] r = .error .err := rfl

theorem parseBody_no_hyphen (ep : Nat) {rest : Bytes} (h : 45 ∉ rest) :
    parseBody ep rest = finish ep rest [] := by
  unfold parseBody
  rw [lastIndexByte_of_not_mem h]
  cases rest <;> rfl

theorem parseBody_hyphen (ep : Nat) (u : Bytes) {r : Bytes} (h : 45 ∉ r) :
    parseBody ep (u ++ 45 :: r) = finish ep u r := by
  unfold parseBody
  rw [lastIndexByte_append u h]
  simp

/-! ### alphabets -/

theorem upstreamChar_plain {c : Nat} (h : upstreamChar c = true) : Plain c := by
  simp [upstreamChar, cisdigit, cisalpha] at h
  unfold Plain; omega

theorem revisionChar_upstreamChar {c : Nat} (h : revisionChar c = true) :
    upstreamChar c = true := by
  simp [revisionChar, upstreamChar, cisdigit, cisalpha] at h ⊢
  omega

theorem revisionChar_ne {c : Nat} (h : revisionChar c = true) : c ≠ 45 ∧ c ≠ 58 := by
  simp [revisionChar, cisdigit, cisalpha] at h
  omega

theorem digit_upstreamChar {c : Nat} (h : Str.isDigit c = true) : upstreamChar c = true := by
  simp [Str.isDigit, upstreamChar, cisdigit, cisalpha] at h ⊢
  omega

theorem digit_ne {c : Nat} (h : Str.isDigit c = true) : c ≠ 58 ∧ c ≠ 45 ∧ c ≠ 43 := by
  simp [Str.isDigit] at h
  omega

theorem not_mem_of_all_revisionChar {r : Bytes} (h : ∀ c ∈ r, revisionChar c = true) :
    45 ∉ r ∧ 58 ∉ r :=
  ⟨fun hm => (revisionChar_ne (h _ hm)).1 rfl, fun hm => (revisionChar_ne (h _ hm)).2 rfl⟩

/-! ### the epoch -/

theorem epochOf_bound {e : Bytes} {n : Nat} (h : epochOf e = .ok n) : n < 2^63 := by
  unfold epochOf at h
  split at h
  · cases h
  · rename_i i hi
    have := (parseInt64_bounds hi).2
    split at h
    · cases h
    · injection h with h; omega

theorem epochOf_zeros_fmtNat (z e : Nat) (he : e < 2^63) :
    epochOf (List.replicate z 48 ++ Str.fmtNat e) = .ok e := by
  simp [epochOf, parseInt64_zeros_fmtNat z e he]

/-! ### parser outputs are well formed -/

/-- What every successfully parsed version satisfies. -/
structure WF (v : Version) : Prop where
  epoch_lt : v.epoch < 2^63
  parts : partsOK v.upstream v.revision = true

theorem partsOK_iff {u r : Bytes} : partsOK u r = true ↔
    (∃ c rest, u = c :: rest ∧ cisdigit c = true) ∧ (∀ c ∈ u, upstreamChar c = true) ∧
      (∀ c ∈ r, revisionChar c = true) := by
  cases u with
  | nil => simp [partsOK]
  | cons c u => simp [partsOK, and_assoc]

theorem finish_wf {ep : Nat} {u r : Bytes} {v : Version} (hep : ep < 2^63)
    (h : finish ep u r = .ok v) : WF v := by
  rw [finish_eq] at h
  split at h
  · injection h with h; subst h; exact ⟨hep, by assumption⟩
  · cases h

theorem parseBody_wf {ep : Nat} {rest : Bytes} {v : Version} (hep : ep < 2^63)
    (h : parseBody ep rest = .ok v) : WF v := by
  unfold parseBody at h
  split at h
  · cases h
  · split at h <;> exact finish_wf hep h

theorem parseTrimmed_wf {t : Bytes} {v : Version} (h : parseTrimmed t = .ok v) : WF v := by
  unfold parseTrimmed at h
  split at h
  · exact parseBody_wf (by omega) h
  · split at h
    · cases h
    · rename_i hep; exact parseBody_wf (epochOf_bound hep) h

theorem parse_wf {s : Bytes} {v : Version} (h : parse s = .ok v) : WF v := by
  rw [parse_eq] at h
  split at h
  · cases h
  · split at h
    · cases h
    · exact parseTrimmed_wf h

/-! ### white space around a string over the version alphabet -/

theorem parse_wrap {w1 w2 t : Bytes} (hw1 : Str.trimLeftSpace w1 = [])
    (hw2 : Str.trimLeftSpace w2 = []) (hne : t ≠ []) (ht : ∀ c ∈ t, upstreamChar c = true) :
    parse (w1 ++ t ++ w2) = parseTrimmed t := by
  have hp : ∀ c ∈ t, Plain c := fun c hc => upstreamChar_plain (ht c hc)
  rw [parse_eq, trimSpace_wrap hw1 hw2 hne hp, hasSpaceRune_of_plain hp]
  cases t with
  | nil => exact absurd rfl hne
  | cons c t => rfl

theorem parse_plain {t : Bytes} (hne : t ≠ []) (ht : ∀ c ∈ t, upstreamChar c = true) :
    parse t = parseTrimmed t := by
  simpa using parse_wrap (w1 := []) (w2 := []) rfl rfl hne ht

/-! ### renderings -/

def epochPart (z : Nat) : Option Nat → Bytes
  | none => []
  | some e => List.replicate z 48 ++ Str.fmtNat e ++ [58]

def revPart : Option Bytes → Bytes
  | none => []
  | some r => 45 :: r

/-- All textual forms of a version: optional epoch with `z` leading zeros, optional
    revision. -/
def render (z : Nat) (ep : Option Nat) (u : Bytes) (r : Option Bytes) : Bytes :=
  epochPart z ep ++ u ++ revPart r

theorem parseTrimmed_render (z : Nat) (ep : Option Nat) (u : Bytes) (r : Option Bytes)
    (hep : ep.getD 0 < 2^63) (hparts : partsOK u (r.getD []) = true)
    (hcolon : ep = none → 58 ∉ u) (hhyphen : r = none → 45 ∉ u) :
    parseTrimmed (render z ep u r) = .ok ⟨ep.getD 0, u, r.getD []⟩ := by
  obtain ⟨_, hu, hr⟩ := partsOK_iff.mp hparts
  have hbody : ∀ e, parseBody e (u ++ revPart r) = .ok ⟨e, u, r.getD []⟩ := by
    intro e
    cases r with
    | none =>
      simp only [revPart, List.append_nil, Option.getD_none] at hparts ⊢
      rw [parseBody_no_hyphen e (hhyphen rfl), finish_eq, if_pos hparts]
    | some r =>
      simp only [revPart, Option.getD_some] at hparts hr ⊢
      rw [parseBody_hyphen e u (not_mem_of_all_revisionChar hr).1, finish_eq, if_pos hparts]
  cases ep with
  | none =>
    simp only [render, epochPart, List.nil_append, Option.getD_none]
    rw [parseTrimmed_no_colon, hbody]
    cases r with
    | none => simpa [revPart] using hcolon rfl
    | some r =>
      simp only [Option.getD_some] at hr
      simp only [revPart, List.mem_append, List.mem_cons, not_or]
      exact ⟨hcolon rfl, by omega, (not_mem_of_all_revisionChar hr).2⟩
  | some e =>
    simp only [Option.getD_some] at hep ⊢
    have hshape : render z (some e) u r
        = (List.replicate z 48 ++ Str.fmtNat e) ++ 58 :: (u ++ revPart r) := by
      simp [render, epochPart]
    rw [hshape, parseTrimmed_colon, epochOf_zeros_fmtNat z e hep]
    · exact hbody e
    · simp only [List.mem_append, List.mem_replicate, not_or]
      exact ⟨fun h => by omega, fun h => (digit_ne (fmtNat_all e _ h)).1 rfl⟩

theorem render_ne_nil (z : Nat) (ep : Option Nat) {u : Bytes} (r : Option Bytes) (hu : u ≠ []) :
    render z ep u r ≠ [] := by
  simp [render, hu]

theorem render_alphabet (z : Nat) (ep : Option Nat) (u : Bytes) (r : Option Bytes)
    (hparts : partsOK u (r.getD []) = true) : ∀ c ∈ render z ep u r, upstreamChar c = true := by
  obtain ⟨_, hu, hr⟩ := partsOK_iff.mp hparts
  intro c hc
  simp only [render, List.mem_append] at hc
  rcases hc with (hc | hc) | hc
  · cases ep with
    | none => cases hc
    | some e =>
      simp only [epochPart, List.mem_append, List.mem_replicate, List.mem_singleton] at hc
      rcases hc with (⟨_, rfl⟩ | hc) | rfl
      · rfl
      · exact digit_upstreamChar (fmtNat_all e c hc)
      · rfl
  · exact hu c hc
  · cases r with
    | none => cases hc
    | some r =>
      simp only [Option.getD_some] at hr
      rcases List.mem_cons.mp hc with rfl | hc
      · rfl
      · exact revisionChar_upstreamChar (hr c hc)

/-- Every rendering, with white space around it, parses to its parts. -/
theorem parse_render (w1 w2 : Bytes) (z : Nat) (ep : Option Nat) (u : Bytes) (r : Option Bytes)
    (hw1 : Str.trimLeftSpace w1 = []) (hw2 : Str.trimLeftSpace w2 = [])
    (hep : ep.getD 0 < 2^63) (hparts : partsOK u (r.getD []) = true)
    (hcolon : ep = none → 58 ∉ u) (hhyphen : r = none → 45 ∉ u) :
    parse (w1 ++ render z ep u r ++ w2) = .ok ⟨ep.getD 0, u, r.getD []⟩ := by
  obtain ⟨⟨c, rest, hu, _⟩, _, _⟩ := partsOK_iff.mp hparts
  rw [parse_wrap hw1 hw2 (render_ne_nil z ep r (by simp [hu])) (render_alphabet z ep u r hparts)]
  exact parseTrimmed_render z ep u r hep hparts hcolon hhyphen

/-! ### the printer -/

theorem toString_eq_render (v : Version) :
    Version.toString v =
      render 0 (if v.epoch > 0 || v.upstream.contains 58 then some v.epoch else none) v.upstream
        (if v.revision.length > 0 || v.upstream.contains 45 then some v.revision else none) := by
  unfold Version.toString stringWithoutEpoch render
  split <;> split <;> simp [epochPart, revPart]

theorem parse_render_self {e : Nat} {u r : Bytes} (hwf : WF ⟨e, u, r⟩)
    (ep : Option Nat) (ro : Option Bytes)
    (h1 : ep = some e ∨ (ep = none ∧ e = 0 ∧ 58 ∉ u))
    (h2 : ro = some r ∨ (ro = none ∧ r = [] ∧ 45 ∉ u)) :
    parse (render 0 ep u ro) = .ok ⟨e, u, r⟩ := by
  obtain ⟨hep, hparts⟩ := hwf
  simp only at hep hparts
  rcases h1 with rfl | ⟨rfl, rfl, hc⟩ <;> rcases h2 with rfl | ⟨rfl, rfl, hh⟩
  · simpa using parse_render [] [] 0 (some e) u (some r) rfl rfl hep hparts (by simp) (by simp)
  · simpa using parse_render [] [] 0 (some e) u none rfl rfl hep hparts (by simp) (fun _ => hh)
  · simpa using parse_render [] [] 0 none u (some r) rfl rfl hep hparts (fun _ => hc) (by simp)
  · simpa using parse_render [] [] 0 none u none rfl rfl hep hparts (fun _ => hc) (fun _ => hh)

/-- The printer's output parses back to the version it was printed from. -/
theorem parse_toString {v : Version} (h : WF v) : parse (Version.toString v) = .ok v := by
  obtain ⟨e, u, r⟩ := v
  rw [toString_eq_render]
  apply parse_render_self h
  · simp only
    split
    · exact Or.inl rfl
    · rename_i hc
      simp only [Bool.or_eq_true, decide_eq_true_eq, List.contains_iff_mem, not_or] at hc
      exact Or.inr ⟨rfl, by omega, hc.2⟩
  · simp only
    split
    · exact Or.inl rfl
    · rename_i hc
      simp only [Bool.or_eq_true, decide_eq_true_eq, List.contains_iff_mem, not_or] at hc
      exact Or.inr ⟨rfl, List.length_eq_zero_iff.mp (by omega), hc.2⟩

theorem jsonDecode_jsonEncode (v : Version) : jsonDecode (jsonEncode v) = parse (Version.toString v) := by
  simp [jsonDecode, jsonEncode]

end GoDebian.Lemmas.VersionParse
