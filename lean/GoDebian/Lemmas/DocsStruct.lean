/-
  C10 lemmas, part 4: a whole paragraph — `decodeFields` over a converted struct schema,
  one field at a time.  Core Lean only.
-/
import GoDebian.Spec.DocsValue
import GoDebian.Lemmas.DocsValue

namespace GoDebian.Lemmas.Docs
open GoDebian GoDebian.Deb822 GoDebian.Codec GoDebian.Spec.DocsValue
open GoDebian.Spec.Docs GoDebian.Extracted.Schemas

instance (spec : List Req) (fs : List Field) (m : DocModel) (p : Paragraph) :
    Decidable (Carries spec fs m p) :=
  inferInstanceAs (Decidable (∀ f ∈ fs, lookup (Bytes.ofString f.key) p.values =
    if inTable spec f.key then (m f.key).map (fun vl => valueText vl.1 vl.2) else none))

/-! ### one field of the decoder -/

/-- what `decodeFields` does with field `f` on an untouched struct: it leaves `w` there -/
def StepOK (p : Paragraph) (f : FieldDesc) (w : Val) : Prop :=
  (∀ sub, f.kind ≠ .nested sub) ∧ f.key ≠ [45] ∧
  ((f.anonymous = true ∧ f.kind ≠ .para ∧ w = .zero) ∨
   (f.anonymous = true ∧ f.kind = .para ∧ lookup f.key p.values = none ∧ f.required = false ∧
      w = .para p) ∨
   (f.anonymous = false ∧ lookup f.key p.values = none ∧ f.required = false ∧ w = .zero) ∨
   (f.anonymous = false ∧ ∃ value, lookup f.key p.values = some value ∧
      decodeValue 16 f.kind f.delim f.strip .zero value = .ok w))

theorem decodeFields_step {p : Paragraph} {f : FieldDesc} {w : Val} (h : StepOK p f w)
    (fuel : Nat) (fs : Schema) :
    decodeFields (fuel+1) p (f :: fs) [] = (decodeFields fuel p fs []).map (w :: ·) := by
  obtain ⟨hn, h45, hc⟩ := h
  rw [decodeFields]
  simp only [List.headD_nil, List.tail_nil]
  have hnest : (match f.kind with
      | .nested sub => (decodeFields fuel p sub []).map Val.record
      | _ => .ok Val.zero) = .ok .zero := by
    cases hk : f.kind <;> first | rfl | exact absurd hk (hn _)
  simp only [h45, if_false]
  rcases hc with ⟨ha, hk, rfl⟩ | ⟨ha, hk, hl, hr, rfl⟩ | ⟨ha, hl, hr, rfl⟩ | ⟨ha, value, hl, hv⟩
  · simp only [ha, if_true]
  · simp only [ha, if_true, hk, hl, hr, Bool.false_eq_true, if_false]
  · simp only [ha, Bool.false_eq_true, if_false, hl, hr]
  · simp only [ha, Bool.false_eq_true, if_false, hl, hv]

theorem decodeFields_all (p : Paragraph) : ∀ (s : Schema) (ws : List Val) (fuel : Nat),
    s.length = ws.length → (∀ fw ∈ s.zip ws, StepOK p fw.1 fw.2) → s.length < fuel →
    decodeFields fuel p s [] = .ok ws := by
  intro s
  induction s with
  | nil =>
    intro ws fuel hlen _ hfuel
    cases ws with
    | cons => simp at hlen
    | nil =>
      cases fuel with
      | zero => simp at hfuel
      | succ n => simp [decodeFields]
  | cons f s ih =>
    intro ws fuel hlen hstep hfuel
    cases ws with
    | nil => simp at hlen
    | cons w ws =>
      cases fuel with
      | zero => simp at hfuel
      | succ n =>
        rw [decodeFields_step (hstep (f, w) (by simp)),
          ih ws n (by simpa using hlen)
            (fun fw hfw => hstep fw (by rw [List.zip_cons_cons]; exact List.mem_cons_of_mem _ hfw))
            (by simp at hfuel; omega)]
        rfl

/-! ### the converted kinds -/

theorem toKindL_plain (cs : List Char) (k : Kind) (h : toKindL cs = some k) :
    ∀ sub, k ≠ .nested sub := by
  intro sub
  unfold toKindL at h
  split at h
  all_goals first
    | (cases h; done)
    | (cases h; intro hc; cases hc)
    | (cases hr : toKindL _ <;> rw [hr] at h <;> cases h; intro hc; cases hc)

theorem toSchema_cons {g : Field} {gs : List Field} {t : Schema} (h : toSchema (g :: gs) = some t) :
    ∃ f t', toDesc g = some f ∧ toSchema gs = some t' ∧ t = f :: t' := by
  rw [toSchema] at h
  cases hf : toDesc g with
  | none => rw [hf] at h; cases h
  | some f =>
    cases ht : toSchema gs with
    | none => rw [hf, ht] at h; cases h
    | some t' =>
      rw [hf, ht] at h
      cases h
      exact ⟨f, t', rfl, rfl, rfl⟩

theorem toSchema_mem {gs : List Field} {t : Schema} (h : toSchema gs = some t) {g : Field}
    (hg : g ∈ gs) : ∃ f ∈ t, toDesc g = some f := by
  induction gs generalizing t with
  | nil => cases hg
  | cons x gs ih =>
    obtain ⟨f, t', hf, ht', rfl⟩ := toSchema_cons h
    rcases List.mem_cons.mp hg with rfl | hg
    · exact ⟨f, by simp, hf⟩
    · obtain ⟨f', hf', hd⟩ := ih ht' hg
      exact ⟨f', List.mem_cons_of_mem _ hf', hd⟩

/-! ### the table -/

theorem inTable_spec {spec : List Req} {key : String} (h : inTable spec key = true) :
    ∃ r ∈ spec, r.deb = key := by
  simp only [inTable, List.any_eq_true, beq_iff_eq] at h
  exact h

theorem inTable_of_mem {spec : List Req} {r : Req} (h : r ∈ spec) : inTable spec r.deb = true := by
  simp only [inTable, List.any_eq_true, beq_iff_eq]
  exact ⟨r, h, rfl⟩

theorem eq_of_filter_one {α : Type} {q : α → Bool} {l : List α} (h : (l.filter q).length = 1)
    {a b : α} (ha : a ∈ l) (hb : b ∈ l) (hqa : q a = true) (hqb : q b = true) : a = b := by
  have ha' : a ∈ l.filter q := List.mem_filter.mpr ⟨ha, hqa⟩
  have hb' : b ∈ l.filter q := List.mem_filter.mpr ⟨hb, hqb⟩
  cases hf : l.filter q with
  | nil => rw [hf] at h; simp at h
  | cons x rest =>
    rw [hf] at h ha' hb'
    have : rest = [] := by cases rest with | nil => rfl | cons => simp at h
    subst this
    simp only [List.mem_singleton] at ha' hb'
    rw [ha', hb']

/-- the one struct field with the key of a table row is the one that decodes it -/
theorem fieldOK_of_key {spec : List Req} {fs : List Field} (hok : schemaOK spec (some fs) = true)
    {r : Req} (hr : r ∈ spec) {g : Field} (hg : g ∈ fs) (hk : g.key = r.deb) :
    fieldOK r g = true := by
  simp only [schemaOK, List.all_eq_true, Bool.and_eq_true, beq_iff_eq, List.any_eq_true] at hok
  obtain ⟨hone, g', hg', hok'⟩ := hok r hr
  have hk' : g'.key = r.deb := by
    simp only [fieldOK, Bool.and_eq_true, beq_iff_eq] at hok'
    exact hok'.1.1.2
  have := eq_of_filter_one (q := fun f => f.key == r.deb) hone hg hg' (by simpa using hk)
    (by simpa using hk')
  rw [this]
  exact hok'

theorem exists_fieldOK {spec : List Req} {fs : List Field} (hok : schemaOK spec (some fs) = true)
    {r : Req} (hr : r ∈ spec) : ∃ g ∈ fs, fieldOK r g = true := by
  simp only [schemaOK, List.all_eq_true, Bool.and_eq_true, List.any_eq_true] at hok
  exact (hok r hr).2

theorem fieldOK_spec {r : Req} {g : Field} (h : fieldOK r g = true) :
    g.name = r.go ∧ g.key = r.deb ∧ g.anonymous = false := by
  simp only [fieldOK, Bool.and_eq_true, beq_iff_eq, Bool.not_eq_eq_eq_not, Bool.not_true] at h
  exact ⟨h.1.1.1, h.1.1.2, h.1.2⟩

/-! ### one struct field of a document -/

theorem step_field {spec : List Req} {fs : List Field} {m : DocModel} {p : Paragraph}
    (hok : schemaOK spec (some fs) = true) (hfits : docFits spec (some fs) = true)
    (hm : wfModel spec m) (hreq : ∀ f ∈ fs, f.required = true → (m f.key).isSome = true)
    (hp : Carries spec fs m p) {g : Field} (hg : g ∈ fs) {f : FieldDesc} (hf : toDesc g = some f) :
    StepOK p f (fieldVal spec m p g) := by
  simp only [docFits, Bool.and_eq_true, List.all_eq_true, bne_iff_ne, ne_eq, Bool.or_eq_true,
    Bool.not_eq_eq_eq_not, Bool.not_true] at hfits
  obtain ⟨⟨_, hkeys⟩, hstrips⟩ := hfits
  obtain ⟨h45, hrt⟩ := hkeys g hg
  have hlook := hp g hg
  obtain ⟨k, hk, rfl⟩ := toDesc_some hf
  simp only [StepOK, FieldDesc.kind, FieldDesc.key, FieldDesc.anonymous, FieldDesc.required,
    FieldDesc.delim, FieldDesc.strip]
  refine ⟨toKindL_plain _ _ hk, h45, ?_⟩
  -- an anonymous field is not in the table
  have hanon : g.anonymous = true → inTable spec g.key = false := by
    intro ha
    cases ht : inTable spec g.key with
    | false => rfl
    | true =>
      obtain ⟨r, hr, hrk⟩ := inTable_spec ht
      have := (fieldOK_spec (fieldOK_of_key hok hr hg hrk.symm)).2.2
      rw [ha] at this; cases this
  cases ha : g.anonymous with
  | true =>
    have hnt := hanon ha
    have hreqf : g.required = false := by
      cases hr : g.required with
      | false => rfl
      | true =>
        rcases hrt with h | h
        · rw [hr] at h; cases h
        · rw [hnt] at h; cases h
    rw [hnt] at hlook
    simp only [Bool.false_eq_true, if_false] at hlook
    simp only [fieldVal, ha, if_true, hk]
    cases k with
    | para => exact Or.inr (Or.inl ⟨by simp, by simp, hlook, hreqf, rfl⟩)
    | _ => exact Or.inl ⟨by simp, by simp, rfl⟩
  | false =>
    refine Or.inr (Or.inr ?_)
    cases ht : inTable spec g.key with
    | false =>
      have hreqf : g.required = false := by
        cases hr : g.required with
        | false => rfl
        | true =>
          rcases hrt with h | h
          · rw [hr] at h; cases h
          · rw [ht] at h; cases h
      rw [ht] at hlook
      simp only [Bool.false_eq_true, if_false] at hlook
      simp only [fieldVal, ha, Bool.false_eq_true, if_false, ht]
      exact Or.inl ⟨by simp, hlook, hreqf, by simp⟩
    | true =>
      rw [ht] at hlook
      simp only [if_true] at hlook
      obtain ⟨r, hr, hrk⟩ := inTable_spec ht
      have hfo := fieldOK_of_key hok hr hg hrk.symm
      simp only [fieldVal, ha, Bool.false_eq_true, if_false, ht, if_true]
      cases hmk : m g.key with
      | none =>
        rw [hmk] at hlook
        have hreqf : g.required = false := by
          cases hr' : g.required with
          | false => rfl
          | true => have := hreq g hg hr'; rw [hmk] at this; cases this
        exact Or.inl ⟨by simp, hlook, hreqf, by simp⟩
      | some vl =>
        obtain ⟨v, l⟩ := vl
        rw [hmk] at hlook
        refine Or.inr ⟨by simp, valueText v l, hlook, ?_⟩
        obtain ⟨hsh, hwf⟩ := hm r hr v l (by rw [hrk]; exact hmk)
        have hst : stripFits r.shape (Bytes.ofString g.strip) = true := by
          rcases hstrips r hr g hg with h | h
          · rw [hfo] at h; cases h
          · exact h
        exact decode_value r g _ v l hfo hf hst hsh hwf

/-- the whole struct -/
theorem decode_fields {spec : List Req} {fs : List Field} {m : DocModel} {p : Paragraph}
    (hok : schemaOK spec (some fs) = true) (hfits : docFits spec (some fs) = true)
    (hm : wfModel spec m) (hreq : ∀ f ∈ fs, f.required = true → (m f.key).isSome = true)
    (hp : Carries spec fs m p) :
    ∀ (gs : List Field) (t : Schema), (∀ g ∈ gs, g ∈ fs) → toSchema gs = some t →
      t.length = gs.length ∧ ∀ fw ∈ t.zip (gs.map (fieldVal spec m p)), StepOK p fw.1 fw.2 := by
  intro gs
  induction gs with
  | nil =>
    intro t _ ht
    simp only [toSchema, Option.some.injEq] at ht
    subst ht
    simp
  | cons g gs ih =>
    intro t hsub ht
    obtain ⟨f, t', hf, ht', rfl⟩ := toSchema_cons ht
    obtain ⟨hlen, hsteps⟩ := ih t' (fun x hx => hsub x (List.mem_cons_of_mem _ hx)) ht'
    refine ⟨by simp [hlen], ?_⟩
    intro fw hfw
    rw [List.map_cons, List.zip_cons_cons] at hfw
    rcases List.mem_cons.mp hfw with rfl | hfw
    · exact step_field hok hfits hm hreq hp (hsub g (by simp)) hf
    · exact hsteps fw hfw

theorem decode_document {spec : List Req} {fs : List Field} {s : Schema} {m : DocModel}
    {p : Paragraph} (hok : schemaOK spec (some fs) = true)
    (hfits : docFits spec (some fs) = true) (hs : toSchema fs = some s) (hm : wfModel spec m)
    (hreq : ∀ f ∈ fs, f.required = true → (m f.key).isSome = true) (hp : Carries spec fs m p) :
    decodeStruct p s [] = .ok (fs.map (fieldVal spec m p)) := by
  obtain ⟨hlen, hsteps⟩ := decode_fields hok hfits hm hreq hp fs s (fun _ h => h) hs
  have hshort : fs.length < 100000 := by
    simp only [docFits, Bool.and_eq_true, decide_eq_true_eq] at hfits
    exact hfits.1.1.2
  exact decodeFields_all p s _ _ (by simp [hlen]) hsteps (by omega)

/-- … read off at the struct field the table names -/
theorem view_at {spec : List Req} {fs : List Field} {m : DocModel} {p : Paragraph}
    (hok : schemaOK spec (some fs) = true) {r : Req} (hr : r ∈ spec) :
    ∃ (i : Nat) (g : Field), fs[i]? = some g ∧ g.name = r.go ∧ g.key = r.deb ∧
      (fs.map (fieldVal spec m p))[i]? =
        some (match m r.deb with | some (v, _) => view v | none => .zero) := by
  obtain ⟨g, hg, hfo⟩ := exists_fieldOK hok hr
  obtain ⟨hname, hkey, hanon⟩ := fieldOK_spec hfo
  obtain ⟨i, hi⟩ := List.getElem?_of_mem hg
  refine ⟨i, g, hi, hname, hkey, ?_⟩
  rw [List.getElem?_map, hi]
  simp only [Option.map_some, fieldVal, hanon, Bool.false_eq_true, if_false, hkey,
    inTable_of_mem hr, if_true]
  cases m r.deb with
  | none => rfl
  | some vl => rfl

end GoDebian.Lemmas.Docs
