/-
  Generic lemmas about `Ordering`-valued comparators: the laws of a total preorder,
  closed under pull-back and under lexicographic combination (`Ordering.then`).
  Core Lean only.
-/
namespace GoDebian.Lemmas

/-- A comparator that behaves as a total preorder. -/
structure Laws {α : Type} (f : α → α → Ordering) : Prop where
  refl : ∀ a, f a a = .eq
  swap : ∀ a b, f b a = (f a b).swap
  lt_trans : ∀ a b c, f a b = .lt → f b c = .lt → f a c = .lt
  congr : ∀ a b c, f a b = .eq → f a c = f b c

namespace Laws
variable {α β : Type} {f g : α → α → Ordering}

theorem congr_right (h : Laws f) (a b c : α) (hbc : f b c = .eq) : f a b = f a c := by
  have h1 := h.swap b c
  have h2 := h.congr c b a (by rw [h1, hbc]; rfl)
  have h3 := h.swap a b
  have h4 := h.swap a c
  rw [h3, h4] at h2
  revert h2
  cases f a b <;> cases f a c <;> simp [Ordering.swap]

theorem le_trans (h : Laws f) (a b c : α) (hab : f a b ≠ .gt) (hbc : f b c ≠ .gt) :
    f a c ≠ .gt := by
  cases h1 : f a b with
  | gt => exact absurd h1 hab
  | eq => rw [h.congr a b c h1]; exact hbc
  | lt =>
    cases h2 : f b c with
    | gt => exact absurd h2 hbc
    | eq => rw [← h.congr_right a b c h2, h1]; simp
    | lt => rw [h.lt_trans a b c h1 h2]; simp

theorem gt_trans (h : Laws f) (a b c : α) (hab : f a b = .gt) (hbc : f b c = .gt) :
    f a c = .gt := by
  have h1 : f c b = .lt := by rw [h.swap b c, hbc]; rfl
  have h2 : f b a = .lt := by rw [h.swap a b, hab]; rfl
  have h3 := h.lt_trans c b a h1 h2
  rw [h.swap c a, h3]; rfl

theorem comap (p : β → α) (h : Laws f) : Laws (fun x y => f (p x) (p y)) where
  refl _ := h.refl _
  swap _ _ := h.swap _ _
  lt_trans _ _ _ := h.lt_trans _ _ _
  congr _ _ _ := h.congr _ _ _

theorem andThen (hf : Laws f) (hg : Laws g) : Laws (fun x y => (f x y).then (g x y)) where
  refl a := by simp [hf.refl, hg.refl]
  swap a b := by
    rw [hf.swap a b, hg.swap a b]
    cases f a b <;> simp [Ordering.then, Ordering.swap]
  lt_trans a b c := by
    intro h1 h2
    cases e1 : f a b <;> simp [e1, Ordering.then] at h1
    · cases e2 : f b c <;> simp [e2, Ordering.then] at h2
      · simp [hf.lt_trans a b c e1 e2]
      · rw [← hf.congr_right a b c e2, e1]; rfl
    · cases e2 : f b c <;> simp [e2, Ordering.then] at h2
      · rw [hf.congr a b c e1, e2]; rfl
      · rw [hf.congr a b c e1, e2]; simp [Ordering.then]; exact hg.lt_trans a b c h1 h2
  congr a b c := by
    intro h1
    cases e1 : f a b <;> simp [e1, Ordering.then] at h1
    rw [hf.congr a b c e1, hg.congr a b c h1]

theorem const_eq : Laws (fun (_ _ : α) => Ordering.eq) where
  refl _ := rfl
  swap _ _ := rfl
  lt_trans _ _ _ h := by simp at h
  congr _ _ _ _ := rfl

theorem nat : Laws (fun (a b : Nat) => compare a b) where
  refl a := by simp
  swap a b := (Nat.compare_swap a b).symm
  lt_trans a b c := by simp only [Nat.compare_eq_lt]; omega
  congr a b c := by simp only [Nat.compare_eq_eq]; intro h; rw [h]

theorem int : Laws (fun (a b : Int) => compare a b) where
  refl a := by simp
  swap a b := (Int.compare_swap a b).symm
  lt_trans a b c := by simp only [Int.compare_eq_lt]; omega
  congr a b c := by simp only [Int.compare_eq_eq]; intro h; rw [h]

end Laws
end GoDebian.Lemmas
