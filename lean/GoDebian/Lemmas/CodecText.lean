/-
  C09 lemmas, part 8: through the text — marshalling a well-formed record succeeds, the
  paragraph of a text record is written and read back byte for byte (C08 machinery), the
  decoder sees the same fields.
-/
import GoDebian.Model.Codec
import GoDebian.Spec.Codec
import GoDebian.Lemmas.CodecRecord
import GoDebian.Lemmas.Deb822WriteDoc

namespace GoDebian.Lemmas.Codec
open GoDebian GoDebian.Deb822 GoDebian.Codec GoDebian.Spec.Codec
open GoDebian.Lemmas.Deb822Write GoDebian.Lemmas.Deb822WriteStr GoDebian.Spec.Deb822Write

/-! ### marshalling succeeds -/

theorem mapRes_ok_of_forall {α β : Type} {g : α → Res β} {l : List α}
    (h : ∀ a ∈ l, ∃ b, g a = .ok b) : ∃ bs, mapRes g l = .ok bs := by
  cases hm : mapRes g l with
  | ok bs => exact ⟨bs, rfl⟩
  | error e =>
    obtain ⟨a, ha, hg⟩ := mapRes_error hm
    obtain ⟨b, hb⟩ := h a ha
    rw [hb] at hg
    cases hg

theorem scalar_marshal_ok {md : Bool} {k : Kind} {v : Val} (hw : wfScalar md k v) (n : Nat)
    (delim : Bytes) : ∃ d, marshalValue (n+1) k delim v = .ok d := by
  cases k with
  | custom typ =>
    cases v with
    | custom c =>
      obtain ⟨d, henc, _⟩ := hw
      exact ⟨d, by simp [marshalValue, henc]⟩
    | zero =>
      obtain ⟨c, hz, d, henc, _⟩ := hw
      exact ⟨d, by simp [marshalValue, hz, henc]⟩
    | _ => simp [wfScalar] at hw
  | str => cases v <;> first | exact ⟨_, rfl⟩ | simp [wfScalar] at hw
  | int => cases v <;> first | exact ⟨_, rfl⟩ | simp [wfScalar] at hw
  | uint => cases v <;> first | exact ⟨_, rfl⟩ | simp [wfScalar] at hw
  | bool =>
    cases v with
    | bool b => cases b <;> exact ⟨_, rfl⟩
    | zero => exact ⟨_, rfl⟩
    | _ => simp [wfScalar] at hw
  | _ => cases v <;> simp [wfScalar] at hw

theorem marshal_ok_of_wf {f : FieldDesc} (hf : flatField f = true) {v : Val} (hw : wfVal f v) :
    ∃ data, marshalValue 16 f.kind f.delim v = .ok data := by
  obtain ⟨_, _, hkind⟩ := flatField_spec hf
  unfold wfVal at hw
  cases hk : f.kind with
  | slice e =>
    rw [hk] at hw
    cases v with
    | list vs =>
      simp only at hw
      rw [marshalValue_slice]
      obtain ⟨ds, hds⟩ := mapRes_ok_of_forall (g := fun v => marshalValue 15 e f.delim v)
        (l := vs) (fun x hx => (hw x hx).2.imp fun d hd => hd.1)
      rw [hds]
      exact ⟨_, rfl⟩
    | zero => exact ⟨[], rfl⟩
    | _ => simp at hw
  | str | int | uint | bool | custom _ =>
    rw [hk] at hw
    exact scalar_marshal_ok hw _ _
  | para | nested _ | unsupported _ =>
    rw [hk] at hkind
    simp [flatKind, scalarKind] at hkind

theorem convert_ok_of_wf {s : Schema} {r : List Val} (hs : flatSchema s = true)
    (hr : wfRec s r) : ∃ p, convertToParagraph s r = .ok p := by
  cases h : convertToParagraph s r with
  | ok p => exact ⟨p, rfl⟩
  | error e =>
    obtain ⟨⟨f, v⟩, hfv, _, _, hm⟩ := convert_error h
    obtain ⟨data, hd⟩ := marshal_ok_of_wf ((flatSchema_spec hs).1 f (mem_zip_left hfv))
      ((wfRec_spec hr).2 _ hfv)
    rw [hd] at hm
    cases hm

/-! ### the paragraph of a schema without an embedded Paragraph -/

theorem lastFound_none {es : List Emit} (h : ∀ q, Emit.found q ∉ es) (p : Paragraph) :
    lastFound p es = p := by
  induction es generalizing p with
  | nil => rfl
  | cons e es ih =>
    have h' : ∀ q, Emit.found q ∉ es := fun q hq => h q (List.mem_cons_of_mem _ hq)
    cases e with
    | found q => exact absurd List.mem_cons_self (h q)
    | _ => exact ih h' p

theorem convert_spec_flat {s : Schema} {r : List Val} {p : Paragraph}
    (hs : ∀ f ∈ s, f.anonymous = false) (h : convertToParagraph s r = .ok p) :
    ∃ es, All₂ (fun fv e => emit fv = .ok e) (s.zip r) es ∧
      p = Deb822.empty.update ⟨(writes es).map Prod.fst, insertAll (writes es) []⟩ := by
  obtain ⟨es, hes, hp⟩ := convert_spec h
  have hall := mapRes_ok hes
  refine ⟨es, hall, ?_⟩
  have hno : ∀ q, Emit.found q ∉ es := by
    intro q hq
    obtain ⟨⟨f, v⟩, hfv, hem⟩ := all₂_mem_right hall hq
    have := emit_found hem
    rw [hs f (mem_zip_left hfv)] at this
    cases this
  rw [lastFound_none hno] at hp
  exact hp

theorem convert_inv {s : Schema} {r : List Val} {p : Paragraph}
    (h : convertToParagraph s r = .ok p) (k : Bytes) :
    k ∈ p.order ↔ (lookup k p.values).isSome = true := by
  obtain ⟨es, _, rfl⟩ := convert_spec h
  exact update_inv _ _ k

/-- every listed name of the paragraph of a flat schema is the key of a written field -/
theorem order_convert_flat {s : Schema} {r : List Val} {p : Paragraph}
    (hs : ∀ f ∈ s, f.anonymous = false) (h : convertToParagraph s r = .ok p) :
    p.order.Nodup ∧ ∀ k ∈ p.order, ∃ fv ∈ s.zip r, ∃ data, fv.1.key = k ∧
      marshalValue 16 fv.1.kind fv.1.delim fv.2 = .ok data ∧
      (data.isEmpty && !fv.1.required) = false := by
  obtain ⟨es, hall, rfl⟩ := convert_spec_flat hs h
  refine ⟨update_nodup (by simp [Deb822.empty]), fun k hk => ?_⟩
  rw [mem_order_update] at hk
  rcases hk with hk | hk
  · simp [Deb822.empty] at hk
  · obtain ⟨⟨k', d⟩, hkd, hk'⟩ := List.mem_map.mp hk
    simp only at hk'
    subst hk'
    obtain ⟨fv, hfv, hem⟩ := all₂_mem_right hall (mem_writes.mp hkd)
    obtain ⟨_, _, hkey, data, hm, hc, _⟩ := emit_write hem
    exact ⟨fv, hfv, data, hkey.symm, hm, hc⟩

/-! ### text lines -/

theorem textLine_spec {d : Bytes} (h : textLine d = true) : Trimmed d ∧ 10 ∉ d := by
  simp only [textLine, Bool.and_eq_true, decide_eq_true_eq, Bool.not_eq_eq_eq_not, Bool.not_true,
    List.contains_eq_mem, decide_eq_false_iff_not] at h
  exact ⟨trimmed_of_fixed h.1, h.2⟩

theorem foldParts_textLine {d : Bytes} (h : textLine d = true) : foldParts d = (d, []) := by
  obtain ⟨ht, hnl⟩ := textLine_spec h
  have hv : valueLines d = [d] := by
    unfold valueLines
    rw [trimSuffix_nl_of_not_mem hnl]
    have := split_joinWith (ls := [d]) (by simp) (by simpa using hnl)
    simpa [Str.joinWith] using this
  unfold foldParts
  rw [hv]
  simp only
  rw [if_neg (by rw [Lemmas.Str.trimLeftSpace_of_zero ht.1]; simp)]

/-! ### values of several lines in list fields -/

theorem decodeValue_slice_congr (n : Nat) (e : Kind) (delim strip : Bytes) (old : Val)
    {a b : Bytes} (h : Str.trimSet strip a = Str.trimSet strip b) :
    decodeValue (n+1) (.slice e) delim strip old a = decodeValue (n+1) (.slice e) delim strip old b := by
  rw [decodeValue.eq_def, decodeValue.eq_def]
  simp only [h]

theorem eq_snoc_of_hasSuffix_nl {x : Bytes} (h : Str.hasSuffix x [10] = true) :
    ∃ y, x = y ++ [10] := by
  unfold Str.hasSuffix at h
  cases hr : x.reverse with
  | nil => rw [hr] at h; simp [Str.isPrefix] at h
  | cons c t =>
    rw [hr] at h
    simp only [List.reverse_cons, List.reverse_nil, List.nil_append, Str.isPrefix, Bool.and_true,
      beq_iff_eq] at h
    refine ⟨t.reverse, ?_⟩
    have := congrArg List.reverse hr
    rw [List.reverse_reverse] at this
    rw [this, ← h]
    simp

theorem trimSet_trimSuffix_nl {strip : Bytes} (h : strip.contains 10 = true) (x : Bytes) :
    Str.trimSet strip (Str.trimSuffix x [10]) = Str.trimSet strip x := by
  by_cases hs : Str.hasSuffix x [10] = true
  · obtain ⟨y, rfl⟩ := eq_snoc_of_hasSuffix_nl hs
    rw [trimSuffix_snoc_nl, Lemmas.Changelog.trimSet_snoc_mem _ h]
  · unfold Str.trimSuffix
    rw [if_neg hs]

/-- what `textField` gives: the written form is read back (`PartsOK`), and what is read back
    decodes like the value itself -/
theorem textField_spec {f : FieldDesc} {d : Bytes} (h : textField f d = true) :
    PartsOK (foldParts d).1 (foldParts d).2 ∧
    decodeValue 16 f.kind f.delim f.strip .zero (build (foldParts d).1 (foldParts d).2) =
      decodeValue 16 f.kind f.delim f.strip .zero d := by
  simp only [textField, Bool.or_eq_true, Bool.and_eq_true] at h
  rcases h with h | ⟨⟨hk, hs⟩, htv⟩
  · rw [foldParts_textLine h]
    obtain ⟨h1, h2⟩ := textLine_spec h
    exact ⟨⟨h1, h2, by simp⟩, rfl⟩
  · refine ⟨partsOK_of_textValue htv, ?_⟩
    cases hkind : f.kind with
    | slice e =>
      apply decodeValue_slice_congr
      have hnl : noLeadingEmptyLine d = true := by
        simp only [textValue, Bool.and_eq_true] at htv
        exact htv.2
      have := trimSuffix_eq_of_valueLines (valueLines_reread hnl)
      rw [← trimSet_trimSuffix_nl hs, this, trimSet_trimSuffix_nl hs]
    | _ => rw [hkind] at hk; simp [isSlice] at hk

/-! ### through the text -/

theorem lookup_map_none {ks : List Bytes} {k : Bytes} (hk : k ∉ ks) (g : Bytes → Bytes) :
    lookup k (ks.map (fun k => (k, g k))) = none := by
  induction ks with
  | nil => rfl
  | cons k' ks ih =>
    simp only [List.map_cons, lookup]
    rw [if_neg (fun e => hk (by rw [e]; exact List.mem_cons_self))]
    exact ih (fun h => hk (List.mem_cons_of_mem _ h))

theorem lookup_reread (p : Paragraph) (k : Bytes) :
    lookup k (reread p).values =
      if k ∈ p.order then some (build (foldParts (p.get k)).1 (foldParts (p.get k)).2) else none := by
  unfold reread
  by_cases hk : k ∈ p.order
  · rw [if_pos hk,
      lookup_map_self hk (fun k => build (foldParts (p.get k)).1 (foldParts (p.get k)).2)]
  · rw [if_neg hk, lookup_map_none hk]

theorem unmarshal_write {p : Paragraph} (h : Rereadable p) (s : Schema) :
    unmarshal s p.write = decodeStruct (reread p) s [] := by
  unfold unmarshal
  rw [physLines_write p h.no_nl, next_paraLines h]

theorem someWritten_spec {s : Schema} {r : List Val} (h : someWritten s r = true) :
    ∃ fv ∈ s.zip r, fv.1.anonymous = false ∧ fv.1.key ≠ [45] ∧ ∃ data,
      marshalValue 16 fv.1.kind fv.1.delim fv.2 = .ok data ∧
      (fv.1.required = true ∨ data ≠ []) := by
  simp only [someWritten, List.any_eq_true, Bool.and_eq_true, Bool.not_eq_eq_eq_not, Bool.not_true,
    bne_iff_ne, ne_eq] at h
  obtain ⟨fv, hfv, ⟨ha, hk⟩, hm⟩ := h
  refine ⟨fv, hfv, ha, hk, ?_⟩
  cases hd : marshalValue 16 fv.1.kind fv.1.delim fv.2 with
  | error e => rw [hd] at hm; cases hm
  | ok data =>
    rw [hd] at hm
    refine ⟨data, rfl, ?_⟩
    simp only [Bool.or_eq_true, Bool.not_eq_eq_eq_not, Bool.not_true, List.isEmpty_eq_false_iff] at hm
    exact hm

theorem textRec_spec {s : Schema} {r : List Val} (h : textRec s r = true) :
    ∀ fv ∈ s.zip r, Spec.Deb822.wfName fv.1.key = true ∧ fv.1.multiline = false ∧
      ∀ data, marshalValue 16 fv.1.kind fv.1.delim fv.2 = .ok data →
        textField fv.1 data = true := by
  simp only [textRec, List.all_eq_true, Bool.and_eq_true, Bool.not_eq_eq_eq_not, Bool.not_true] at h
  intro fv hfv
  obtain ⟨⟨h1, h2⟩, h3⟩ := h fv hfv
  refine ⟨h1, h2, fun data hd => ?_⟩
  rw [hd] at h3
  exact h3

theorem roundtrip_text {s : Schema} {r : List Val} (hs : flatSchema s = true) (hr : wfRec s r)
    (ht : textRec s r = true) (hne : someWritten s r = true) :
    ∃ text r', marshal s r = .ok text ∧ unmarshal s text = .ok r' ∧ SameRec s r r' := by
  obtain ⟨hflat, hnd, hlen⟩ := flatSchema_spec hs
  have hanon : ∀ f ∈ s, f.anonymous = false := fun f hf => (flatField_spec (hflat f hf)).1
  obtain ⟨p, hp⟩ := convert_ok_of_wf hs hr
  obtain ⟨hpnd, hpord⟩ := order_convert_flat hanon hp
  have htr := textRec_spec ht
  have hcount : ∀ k, (knownKeys s).count k ≤ 1 := fun k =>
    Nat.le_trans (count_knownKeys_le s k) (List.nodup_iff_count.mp hnd k)
  -- a written field holds its rendering, which is text
  have hwritten : ∀ fv ∈ s.zip r, ∀ data, marshalValue 16 fv.1.kind fv.1.delim fv.2 = .ok data →
      (data.isEmpty && !fv.1.required) = false →
      lookup fv.1.key p.values = some data ∧ textField fv.1 data = true := by
    rintro ⟨f, v⟩ hfv data hm hc
    obtain ⟨_, hml, htl⟩ := htr _ hfv
    obtain ⟨ha, hk45, _⟩ := flatField_spec (hflat f (mem_zip_left hfv))
    have hl := lookup_convert hp hfv ha hk45 hm (hcount _)
    simp only at hc hml
    rw [if_neg (by simp [hc]), hml] at hl
    exact ⟨hl, htl data hm⟩
  -- the paragraph is not empty
  have hpne : p.order ≠ [] := by
    obtain ⟨⟨f, v⟩, hfv, ha, hk45, data, hm, hw⟩ := someWritten_spec hne
    have := (mem_order_convert hp hfv ha hk45 hm (hcount _)).mpr hw
    intro h0
    rw [h0] at this
    cases this
  have hrr : Rereadable p := by
    refine ⟨hpne, hpnd, fun k hk => ?_⟩
    obtain ⟨fv, hfv, data, hkey, hm, hc⟩ := hpord k hk
    obtain ⟨hl, htf⟩ := hwritten fv hfv data hm hc
    have hget : p.get k = data := by
      unfold Paragraph.get
      rw [← hkey, hl]
      rfl
    rw [hget]
    exact ⟨keyOK_of_wfName (hkey ▸ (htr fv hfv).1), (textField_spec htf).1⟩
  refine ⟨p.write, ?_⟩
  have hfok := fieldOK_of_convert hs hr hp
  have hfok' : ∀ fv ∈ s.zip r, FieldOK (reread p) fv.1 fv.2 := by
    rintro ⟨f, v⟩ hfv
    obtain ⟨v', hcv, hv'⟩ := hfok _ hfv
    refine ⟨v', hcv, ?_⟩
    rw [lookup_reread]
    simp only at hv' ⊢
    obtain ⟨ha, hk45, _⟩ := flatField_spec (hflat f (mem_zip_left hfv))
    obtain ⟨data, hm⟩ := marshal_ok_of_convert hp hfv ha hk45
    by_cases hc : (data.isEmpty && !f.required) = true
    · have hl := lookup_convert hp hfv ha hk45 hm (hcount _)
      rw [if_pos hc] at hl
      have hnot : f.key ∉ p.order := by
        rw [convert_inv hp, hl]; simp
      rw [if_neg hnot]
      rw [hl] at hv'
      exact hv'
    · obtain ⟨hl, htf⟩ := hwritten (f, v) hfv data hm (by simpa using hc)
      have hin : f.key ∈ p.order := by
        rw [convert_inv hp, hl]; rfl
      have hget : p.get f.key = data := by
        unfold Paragraph.get
        rw [hl]
        rfl
      rw [if_pos hin, hget]
      simp only [hl] at hv'
      simp only
      rw [(textField_spec htf).2]
      exact hv'
  obtain ⟨r', hr', hsame⟩ := decode_all (reread p) s r 100000 hflat (wfRec_spec hr).1 hlen hfok'
  refine ⟨r', ?_, ?_, hsame⟩
  · unfold marshal; rw [hp]; rfl
  · rw [unmarshal_write hrr]; exact hr'

end GoDebian.Lemmas.Codec
