/-
  C09 lemmas, part 8: through the text — marshalling a well-formed record succeeds, the
  paragraph of a text record is written and read back byte for byte (C08 machinery), the
  decoder sees the same fields.
-/
import GoDebian.Model.Codec
import GoDebian.Spec.Codec
import GoDebian.Lemmas.CodecRecord
import GoDebian.Lemmas.Deb822WriteDoc

namespace GoDebian.Lemmas.Codec
open GoDebian GoDebian.Deb822 GoDebian.Codec GoDebian.Spec.Codec
open GoDebian.Lemmas.Deb822Write GoDebian.Lemmas.Deb822WriteStr GoDebian.Spec.Deb822Write

/-! ### marshalling succeeds -/

theorem mapRes_ok_of_forall {α β : Type} {g : α → Res β} {l : List α}
    (h : ∀ a ∈ l, ∃ b, g a = .ok b) : ∃ bs, mapRes g l = .ok bs := by
  cases hm : mapRes g l with
  | ok bs => exact ⟨bs, rfl⟩
  | error e =>
    obtain ⟨a, ha, hg⟩ := mapRes_error hm
    obtain ⟨b, hb⟩ := h a ha
    rw [hb] at hg
    cases hg

theorem scalar_marshal_ok {md : Bool} {k : Kind} {v : Val} (hw : wfScalar md k v) (n : Nat)
    (delim : Bytes) : ∃ d, marshalValue (n+1) k delim v = .ok d := by
  cases k with
  | custom typ =>
    cases v with
    | custom c =>
      obtain ⟨d, henc, _⟩ := hw
      exact ⟨d, by simp [marshalValue, henc]⟩
    | zero =>
      obtain ⟨c, hz, d, henc, _⟩ := hw
      exact ⟨d, by simp [marshalValue, hz, henc]⟩
    | _ => simp [wfScalar] at hw
  | str => cases v <;> first | exact ⟨_, rfl⟩ | simp [wfScalar] at hw
  | int => cases v <;> first | exact ⟨_, rfl⟩ | simp [wfScalar] at hw
  | uint => cases v <;> first | exact ⟨_, rfl⟩ | simp [wfScalar] at hw
  | bool =>
    cases v with
    | bool b => cases b <;> exact ⟨_, rfl⟩
    | zero => exact ⟨_, rfl⟩
    | _ => simp [wfScalar] at hw
  | _ => cases v <;> simp [wfScalar] at hw

theorem marshal_ok_of_wf {f : FieldDesc} (hf : flatField f = true) {v : Val} (hw : wfVal f v) :
    ∃ data, marshalValue 16 f.kind f.delim v = .ok data := by
  obtain ⟨_, _, hkind⟩ := flatField_spec hf
  unfold wfVal at hw
  cases hk : f.kind with
  | slice e =>
    rw [hk] at hw
    cases v with
    | list vs =>
      simp only at hw
      rw [marshalValue_slice]
      obtain ⟨ds, hds⟩ := mapRes_ok_of_forall (g := fun v => marshalValue 15 e f.delim v)
        (l := vs) (fun x hx => (hw x hx).2.imp fun d hd => hd.1)
      rw [hds]
      exact ⟨_, rfl⟩
    | zero => exact ⟨[], rfl⟩
    | _ => simp at hw
  | str | int | uint | bool | custom _ =>
    rw [hk] at hw
    exact scalar_marshal_ok hw _ _
  | para | nested _ | unsupported _ =>
    rw [hk] at hkind
    simp [flatKind, scalarKind] at hkind

theorem convert_ok_of_wf {s : Schema} {r : List Val} (hs : flatSchema s = true)
    (hr : wfRec s r) : ∃ p, convertToParagraph s r = .ok p := by
  cases h : convertToParagraph s r with
  | ok p => exact ⟨p, rfl⟩
  | error e =>
    obtain ⟨⟨f, v⟩, hfv, _, _, hm⟩ := convert_error h
    obtain ⟨data, hd⟩ := marshal_ok_of_wf ((flatSchema_spec hs).1 f (mem_zip_left hfv))
      ((wfRec_spec hr).2 _ hfv)
    rw [hd] at hm
    cases hm

/-! ### the paragraph of a schema without an embedded Paragraph -/

theorem lastFound_none {es : List Emit} (h : ∀ q, Emit.found q ∉ es) (p : Paragraph) :
    lastFound p es = p := by
  induction es generalizing p with
  | nil => rfl
  | cons e es ih =>
    have h' : ∀ q, Emit.found q ∉ es := fun q hq => h q (List.mem_cons_of_mem _ hq)
    cases e with
    | found q => exact absurd List.mem_cons_self (h q)
    | _ => exact ih h' p

theorem convert_spec_flat {s : Schema} {r : List Val} {p : Paragraph}
    (hs : ∀ f ∈ s, f.anonymous = false) (h : convertToParagraph s r = .ok p) :
    ∃ es, All₂ (fun fv e => emit fv = .ok e) (s.zip r) es ∧
      p = Deb822.empty.update ⟨(writes es).map Prod.fst, insertAll (writes es) []⟩ := by
  obtain ⟨es, hes, hp⟩ := convert_spec h
  have hall := mapRes_ok hes
  refine ⟨es, hall, ?_⟩
  have hno : ∀ q, Emit.found q ∉ es := by
    intro q hq
    obtain ⟨⟨f, v⟩, hfv, hem⟩ := all₂_mem_right hall hq
    have := emit_found hem
    rw [hs f (mem_zip_left hfv)] at this
    cases this
  rw [lastFound_none hno] at hp
  exact hp

theorem convert_inv {s : Schema} {r : List Val} {p : Paragraph}
    (h : convertToParagraph s r = .ok p) (k : Bytes) :
    k ∈ p.order ↔ (lookup k p.values).isSome = true := by
  obtain ⟨es, _, rfl⟩ := convert_spec h
  exact update_inv _ _ k

/-- every listed name of the paragraph of a flat schema is the key of a written field -/
theorem order_convert_flat {s : Schema} {r : List Val} {p : Paragraph}
    (hs : ∀ f ∈ s, f.anonymous = false) (h : convertToParagraph s r = .ok p) :
    p.order.Nodup ∧ ∀ k ∈ p.order, ∃ fv ∈ s.zip r, ∃ data, fv.1.key = k ∧
      marshalValue 16 fv.1.kind fv.1.delim fv.2 = .ok data ∧
      (data.isEmpty && !fv.1.required) = false := by
  obtain ⟨es, hall, rfl⟩ := convert_spec_flat hs h
  refine ⟨update_nodup (by simp [Deb822.empty]), fun k hk => ?_⟩
  rw [mem_order_update] at hk
  rcases hk with hk | hk
  · simp [Deb822.empty] at hk
  · obtain ⟨⟨k', d⟩, hkd, hk'⟩ := List.mem_map.mp hk
    simp only at hk'
    subst hk'
    obtain ⟨fv, hfv, hem⟩ := all₂_mem_right hall (mem_writes.mp hkd)
    obtain ⟨_, _, hkey, data, hm, hc, _⟩ := emit_write hem
    exact ⟨fv, hfv, data, hkey.symm, hm, hc⟩

/-! ### text lines -/

theorem textLine_spec {d : Bytes} (h : textLine d = true) : Trimmed d ∧ 10 ∉ d := by
  simp only [textLine, Bool.and_eq_true, decide_eq_true_eq, Bool.not_eq_eq_eq_not, Bool.not_true,
    List.contains_eq_mem, decide_eq_false_iff_not] at h
  exact ⟨trimmed_of_fixed h.1, h.2⟩

theorem foldParts_textLine {d : Bytes} (h : textLine d = true) : foldParts d = (d, []) := by
  obtain ⟨ht, hnl⟩ := textLine_spec h
  have hv : valueLines d = [d] := by
    unfold valueLines
    rw [trimSuffix_nl_of_not_mem hnl]
    have := split_joinWith (ls := [d]) (by simp) (by simpa using hnl)
    simpa [Str.joinWith] using this
  unfold foldParts
  rw [hv]
  simp only
  rw [if_neg (by rw [Lemmas.Str.trimLeftSpace_of_zero ht.1]; simp)]

/-! ### through the text -/

theorem lookup_map_none {ks : List Bytes} {k : Bytes} (hk : k ∉ ks) (g : Bytes → Bytes) :
    lookup k (ks.map (fun k => (k, g k))) = none := by
  induction ks with
  | nil => rfl
  | cons k' ks ih =>
    simp only [List.map_cons, lookup]
    rw [if_neg (fun e => hk (by rw [e]; exact List.mem_cons_self))]
    exact ih (fun h => hk (List.mem_cons_of_mem _ h))

theorem lookup_reread {p : Paragraph} (hinv : ∀ k, k ∈ p.order ↔ (lookup k p.values).isSome = true)
    (htext : ∀ k ∈ p.order, textLine (p.get k) = true) (k : Bytes) :
    lookup k (reread p).values = lookup k p.values := by
  unfold reread
  by_cases hk : k ∈ p.order
  · rw [lookup_map_self hk (fun k => build (foldParts (p.get k)).1 (foldParts (p.get k)).2),
      foldParts_textLine (htext k hk), build_nil]
    have := (hinv k).mp hk
    unfold Paragraph.get
    cases hl : lookup k p.values with
    | none => rw [hl] at this; cases this
    | some x => rfl
  · rw [lookup_map_none hk]
    cases hl : lookup k p.values with
    | none => rfl
    | some x => exact absurd ((hinv k).mpr (by simp [hl])) hk

theorem unmarshal_write {p : Paragraph} (h : Rereadable p) (s : Schema) :
    unmarshal s p.write = decodeStruct (reread p) s [] := by
  unfold unmarshal
  rw [physLines_write p h.no_nl, next_paraLines h]

theorem someWritten_spec {s : Schema} {r : List Val} (h : someWritten s r = true) :
    ∃ fv ∈ s.zip r, fv.1.anonymous = false ∧ fv.1.key ≠ [45] ∧ ∃ data,
      marshalValue 16 fv.1.kind fv.1.delim fv.2 = .ok data ∧
      (fv.1.required = true ∨ data ≠ []) := by
  simp only [someWritten, List.any_eq_true, Bool.and_eq_true, Bool.not_eq_eq_eq_not, Bool.not_true,
    bne_iff_ne, ne_eq] at h
  obtain ⟨fv, hfv, ⟨ha, hk⟩, hm⟩ := h
  refine ⟨fv, hfv, ha, hk, ?_⟩
  cases hd : marshalValue 16 fv.1.kind fv.1.delim fv.2 with
  | error e => rw [hd] at hm; cases hm
  | ok data =>
    rw [hd] at hm
    refine ⟨data, rfl, ?_⟩
    simp only [Bool.or_eq_true, Bool.not_eq_eq_eq_not, Bool.not_true, List.isEmpty_eq_false_iff] at hm
    exact hm

theorem textRec_spec {s : Schema} {r : List Val} (h : textRec s r = true) :
    ∀ fv ∈ s.zip r, Spec.Deb822.wfName fv.1.key = true ∧ fv.1.multiline = false ∧
      ∀ data, marshalValue 16 fv.1.kind fv.1.delim fv.2 = .ok data → textLine data = true := by
  simp only [textRec, List.all_eq_true, Bool.and_eq_true, Bool.not_eq_eq_eq_not, Bool.not_true] at h
  intro fv hfv
  obtain ⟨⟨h1, h2⟩, h3⟩ := h fv hfv
  refine ⟨h1, h2, fun data hd => ?_⟩
  rw [hd] at h3
  exact h3

theorem roundtrip_text {s : Schema} {r : List Val} (hs : flatSchema s = true) (hr : wfRec s r)
    (ht : textRec s r = true) (hne : someWritten s r = true) :
    ∃ text r', marshal s r = .ok text ∧ unmarshal s text = .ok r' ∧ SameRec s r r' := by
  obtain ⟨hflat, hnd, hlen⟩ := flatSchema_spec hs
  have hanon : ∀ f ∈ s, f.anonymous = false := fun f hf => (flatField_spec (hflat f hf)).1
  obtain ⟨p, hp⟩ := convert_ok_of_wf hs hr
  obtain ⟨hpnd, hpord⟩ := order_convert_flat hanon hp
  have htr := textRec_spec ht
  have hcount : ∀ k, (knownKeys s).count k ≤ 1 := fun k =>
    Nat.le_trans (count_knownKeys_le s k) (List.nodup_iff_count.mp hnd k)
  -- every listed field holds a text line under a well-formed name
  have hfield : ∀ k ∈ p.order, Spec.Deb822.wfName k = true ∧ textLine (p.get k) = true := by
    intro k hk
    obtain ⟨⟨f, v⟩, hfv, data, hkey, hm, hc⟩ := hpord k hk
    obtain ⟨hname, hml, htl⟩ := htr _ hfv
    obtain ⟨ha, hk45, _⟩ := flatField_spec (hflat f (mem_zip_left hfv))
    have hl := lookup_convert hp hfv ha hk45 hm (hcount _)
    simp only at hkey hc hml
    rw [if_neg (by simp [hc]), hml] at hl
    simp only [Bool.false_eq_true, if_false] at hl
    subst hkey
    refine ⟨hname, ?_⟩
    unfold Paragraph.get
    rw [hl]
    exact htl data hm
  -- the paragraph is not empty
  have hpne : p.order ≠ [] := by
    obtain ⟨⟨f, v⟩, hfv, ha, hk45, data, hm, hw⟩ := someWritten_spec hne
    have := (mem_order_convert hp hfv ha hk45 hm (hcount _)).mpr hw
    intro h0
    rw [h0] at this
    cases this
  have hrr : Rereadable p := by
    refine ⟨hpne, hpnd, fun k hk => ?_⟩
    obtain ⟨hname, htl⟩ := hfield k hk
    rw [foldParts_textLine htl]
    obtain ⟨h1, h2⟩ := textLine_spec htl
    exact ⟨keyOK_of_wfName hname, h1, h2, by simp⟩
  refine ⟨p.write, ?_⟩
  have hfok := fieldOK_of_convert hs hr hp
  have hfok' : ∀ fv ∈ s.zip r, FieldOK (reread p) fv.1 fv.2 := by
    intro fv hfv
    have := hfok fv hfv
    unfold FieldOK at this ⊢
    rw [lookup_reread (convert_inv hp) (fun k hk => (hfield k hk).2)]
    exact this
  obtain ⟨r', hr', hsame⟩ := decode_all (reread p) s r 100000 hflat (wfRec_spec hr).1 hlen hfok'
  refine ⟨r', ?_, ?_, hsame⟩
  · unfold marshal; rw [hp]; rfl
  · rw [unmarshal_write hrr]; exact hr'

end GoDebian.Lemmas.Codec
