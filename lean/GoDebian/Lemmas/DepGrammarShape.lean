/-
  What `Spec.Dependency.render` produces, with the choice stream abstracted away: legal
  white space (`IsWs`) between the tokens of the grammar.  Every `render*` function is
  shown to produce its `*Shape`; the parser lemmas are then stated on shapes only.
  Core Lean only.
-/
import GoDebian.Lemmas.DepGrammarLex

namespace GoDebian.Lemmas.DepGrammarShape
open GoDebian GoDebian.Dep GoDebian.Spec.Dependency GoDebian.Lemmas.DepGrammarLex
open GoDebian.Spec.Deb822 (Choices pick)

/-! ### shapes -/

/-- items each preceded by at least one white-space byte -/
inductive SepBy : List Bytes → Bytes → Prop
  | nil : SepBy [] []
  | cons {w x : Bytes} {xs : List Bytes} {out : Bytes} :
      IsWs w → w ≠ [] → SepBy xs out → SepBy (x :: xs) (w ++ x ++ out)

/-- items separated by white space -/
def ListShape : List Bytes → Bytes → Prop
  | [], body => body = []
  | x :: xs, body => ∃ out, SepBy xs out ∧ body = x ++ out

inductive VersionShape (op num : Bytes) : Bytes → Prop
  | mk {w1 w2 w3 : Bytes} : IsWs w1 → IsWs w2 → IsWs w3 →
      VersionShape op num ([40] ++ w1 ++ op ++ w2 ++ num ++ w3 ++ [41])

inductive BracketShape (o c : Nat) (items : List Bytes) : Bytes → Prop
  | mk {w1 w2 body : Bytes} : IsWs w1 → IsWs w2 → ListShape items body →
      BracketShape o c items ([o] ++ w1 ++ body ++ w2 ++ [c])

def bang (n : Bool) : Bytes := if n then [33] else []

def archItem (neg : Bool) (a : Bytes) : Bytes := bang neg ++ a
def stageItem (x : Bool × Bytes) : Bytes := bang x.1 ++ x.2

inductive ClauseShape : Clause → Bytes → Prop
  | version {op num w t : Bytes} : IsWs w → VersionShape op num t →
      ClauseShape (.version op num) (w ++ t)
  | archs {neg : Bool} {as : List Bytes} {w t : Bytes} : IsWs w → w ≠ [] →
      BracketShape 91 93 (as.map (archItem neg)) t → ClauseShape (.archs neg as) (w ++ t)
  | stages {g : List (Bool × Bytes)} {w t : Bytes} : IsWs w → w ≠ [] →
      BracketShape 60 62 (g.map stageItem) t → ClauseShape (.stages g) (w ++ t)

inductive ClausesShape : List Clause → Bytes → Prop
  | nil : ClausesShape [] []
  | cons {c : Clause} {cl : List Clause} {t out : Bytes} :
      ClauseShape c t → ClausesShape cl out → ClausesShape (c :: cl) (t ++ out)

/-- `r` is a shuffle of `a` and `b` (both keep their order) -/
inductive Merge {α : Type} : List α → List α → List α → Prop
  | nil_left (b : List α) : Merge [] b b
  | nil_right (a : List α) : Merge a [] a
  | left {x : α} {a b r : List α} : Merge a b r → Merge (x :: a) b (x :: r)
  | right {y : α} {a b r : List α} : Merge a b r → Merge a (y :: b) (y :: r)

def qualOf (p : SPoss) : Bytes :=
  match p.qual with | some q => [58] ++ q | none => []

def headOf (p : SPoss) : Bytes := p.name ++ qualOf p

def vaOf (p : SPoss) : List Clause :=
  match p.version with | some (op, num) => [Clause.version op num] | none => []

def arOf (p : SPoss) : List Clause :=
  if p.archs.isEmpty then [] else [Clause.archs p.neg p.archs]

inductive PossShape (p : SPoss) : Bytes → Prop
  | substvar : p.substvar = true → PossShape p ([36, 123] ++ p.name ++ [125])
  | normal {fixed cl : List Clause} {out : Bytes} : p.substvar = false →
      (fixed = vaOf p ++ arOf p ∨ fixed = arOf p ++ vaOf p) →
      Merge fixed (p.stages.map Clause.stages) cl → ClausesShape cl out →
      PossShape p (headOf p ++ out)

inductive SepShape (sep : Nat) : Bytes → Prop
  | mk {w1 w2 : Bytes} : IsWs w1 → IsWs w2 → SepShape sep (w1 ++ [sep] ++ w2)

inductive JoinTail {α : Type} (Item : α → Bytes → Prop) (sep : Nat) : List α → Bytes → Prop
  | nil : JoinTail Item sep [] []
  | cons {x : α} {xs : List α} {s t out : Bytes} : SepShape sep s → Item x t →
      JoinTail Item sep xs out → JoinTail Item sep (x :: xs) (s ++ t ++ out)

def Joined {α : Type} (Item : α → Bytes → Prop) (sep : Nat) : List α → Bytes → Prop
  | [], b => b = []
  | x :: xs, b => ∃ t out, Item x t ∧ JoinTail Item sep xs out ∧ b = t ++ out

def RelShape : SRel → Bytes → Prop := Joined PossShape 124
def DepShape : SDep → Bytes → Prop := Joined RelShape 44

/-! ### the choice-stream primitives -/

theorem ws_spec (b : Bool) (cs : Choices) :
    IsWs (ws b cs).1 ∧ (b = true → (ws b cs).1 ≠ []) := by
  unfold ws
  simp only
  split <;> cases b <;> simp [IsWs, isWs]

theorem ws_isWs (b : Bool) (cs : Choices) : IsWs (ws b cs).1 := (ws_spec b cs).1
theorem ws_true_ne (cs : Choices) : (ws true cs).1 ≠ [] := (ws_spec true cs).2 rfl

/-! ### lists -/

def listStep (acc : Bytes × Choices × Bool) (it : Bytes) : Bytes × Choices × Bool :=
  if acc.2.2 then (acc.1 ++ it, acc.2.1, false)
  else (acc.1 ++ (ws true acc.2.1).1 ++ it, (ws true acc.2.1).2, false)

theorem renderList_eq (items : List Bytes) (cs : Choices) :
    renderList items cs =
      ((items.foldl listStep ([], cs, true)).1, (items.foldl listStep ([], cs, true)).2.1) := by
  unfold renderList
  have : (fun (acc : Bytes × Choices × Bool) it =>
      let (out, cs, first) := acc
      if first then (out ++ it, cs, false) else
        let (w, cs) := ws true cs
        (out ++ w ++ it, cs, false)) = listStep := by
    funext acc it
    obtain ⟨out, cs, first⟩ := acc
    cases first <;> rfl
  rw [this]

theorem listStep_fold (xs : List Bytes) (out : Bytes) (cs : Choices) :
    ∃ t cs', xs.foldl listStep (out, cs, false) = (out ++ t, cs', false) ∧ SepBy xs t := by
  induction xs generalizing out cs with
  | nil => exact ⟨[], cs, by simp, .nil⟩
  | cons x xs ih =>
    obtain ⟨t, cs', h1, h2⟩ := ih (out ++ (ws true cs).1 ++ x) (ws true cs).2
    refine ⟨(ws true cs).1 ++ x ++ t, cs', ?_, .cons (ws_isWs _ _) (ws_true_ne _) h2⟩
    simpa only [List.foldl_cons, listStep, Bool.false_eq_true, if_false, List.append_assoc] using h1

theorem renderList_spec (items : List Bytes) (cs : Choices) :
    ListShape items (renderList items cs).1 := by
  rw [renderList_eq]
  cases items with
  | nil => rfl
  | cons x xs =>
    obtain ⟨t, cs', h1, h2⟩ := listStep_fold xs x cs
    refine ⟨t, h2, ?_⟩
    simp only [List.foldl_cons, listStep, if_true, List.nil_append, h1]

/-! ### clauses -/

theorem renderVersion_spec (op num : Bytes) (cs : Choices) :
    VersionShape op num (renderVersion op num cs).1 := by
  have h : VersionShape op num ([40] ++ (ws false cs).1 ++ op ++ (ws false (ws false cs).2).1 ++ num ++
      (ws false (ws false (ws false cs).2).2).1 ++ [41]) :=
    .mk (ws_isWs _ _) (ws_isWs _ _) (ws_isWs _ _)
  exact h

theorem renderArchs_spec (neg : Bool) (as : List Bytes) (cs : Choices) :
    BracketShape 91 93 (as.map (archItem neg)) (renderArchs neg as cs).1 := by
  have h : BracketShape 91 93 (as.map (archItem neg))
      ([91] ++ (ws false cs).1 ++ (renderList (as.map (archItem neg)) (ws false cs).2).1 ++
        (ws false (renderList (as.map (archItem neg)) (ws false cs).2).2).1 ++ [93]) :=
    .mk (ws_isWs _ _) (ws_isWs _ _) (renderList_spec _ _)
  exact h

theorem renderStages_spec (g : List (Bool × Bytes)) (cs : Choices) :
    BracketShape 60 62 (g.map stageItem) (renderStages g cs).1 := by
  have : (fun (x : Bool × Bytes) => match x with
      | (n, s) => (if n then [33] else []) ++ s) = stageItem := by
    funext x; obtain ⟨n, s⟩ := x; rfl
  have h : BracketShape 60 62 (g.map stageItem)
      ([60] ++ (ws false cs).1 ++ (renderList (g.map stageItem) (ws false cs).2).1 ++
        (ws false (renderList (g.map stageItem) (ws false cs).2).2).1 ++ [62]) :=
    .mk (ws_isWs _ _) (ws_isWs _ _) (renderList_spec _ _)
  unfold renderStages
  rw [this]
  exact h

theorem renderClause_spec (c : Clause) (cs : Choices) : ClauseShape c (renderClause c cs).1 := by
  cases c with
  | version op num =>
    have h : ClauseShape (.version op num)
        ((ws false cs).1 ++ (renderVersion op num (ws false cs).2).1) :=
      .version (ws_isWs _ _) (renderVersion_spec _ _ _)
    exact h
  | archs neg as =>
    have h : ClauseShape (.archs neg as)
        ((ws true cs).1 ++ (renderArchs neg as (ws true cs).2).1) :=
      .archs (ws_isWs _ _) (ws_true_ne _) (renderArchs_spec _ _ _)
    exact h
  | stages g =>
    have h : ClauseShape (.stages g)
        ((ws true cs).1 ++ (renderStages g (ws true cs).2).1) :=
      .stages (ws_isWs _ _) (ws_true_ne _) (renderStages_spec _ _)
    exact h

def clauseStep (acc : Bytes × Choices) (c : Clause) : Bytes × Choices :=
  (acc.1 ++ (renderClause c acc.2).1, (renderClause c acc.2).2)

theorem clauseStep_fold (cl : List Clause) (acc : Bytes) (cs : Choices) :
    ∃ out cs', cl.foldl clauseStep (acc, cs) = (acc ++ out, cs') ∧ ClausesShape cl out := by
  induction cl generalizing acc cs with
  | nil => exact ⟨[], cs, by simp, .nil⟩
  | cons c cl ih =>
    obtain ⟨out, cs', h1, h2⟩ := ih (acc ++ (renderClause c cs).1) (renderClause c cs).2
    refine ⟨(renderClause c cs).1 ++ out, cs', ?_, .cons (renderClause_spec _ _) h2⟩
    simpa only [List.foldl_cons, clauseStep, List.append_assoc] using h1

theorem merge_append {α : Type} (a b : List α) : Merge a b (a ++ b) := by
  induction a with
  | nil => exact .nil_left b
  | cons x a ih => exact .left ih

theorem interleave_merge (n : Nat) (a b : List Clause) (cs : Choices) :
    Merge a b (interleave n a b cs).1 := by
  induction n generalizing a b cs with
  | zero => unfold interleave; exact merge_append a b
  | succ n ih =>
    cases a with
    | nil => unfold interleave; exact .nil_left b
    | cons x a =>
      cases b with
      | nil => unfold interleave; exact .nil_right _
      | cons y b =>
        unfold interleave
        simp only
        split
        · exact .left (ih _ _ _)
        · exact .right (ih _ _ _)

/-! ### possibilities, relations, the field -/

def fixedOf (p : SPoss) (cs : Choices) : List Clause :=
  if (pick 2 cs).1 = 0 then vaOf p ++ arOf p else arOf p ++ vaOf p

theorem renderPoss_eq (p : SPoss) (cs : Choices) :
    renderPoss p cs =
      if p.substvar then ([36, 123] ++ p.name ++ [125], cs) else
      let il := interleave ((fixedOf p cs).length + p.stages.length) (fixedOf p cs)
        (p.stages.map Clause.stages) (pick 2 cs).2
      il.1.foldl clauseStep (headOf p, il.2) := rfl

theorem renderPoss_spec (p : SPoss) (cs : Choices) : PossShape p (renderPoss p cs).1 := by
  rw [renderPoss_eq]
  by_cases hs : p.substvar = true
  · simp only [hs, if_true]
    exact .substvar hs
  · simp only [hs, Bool.false_eq_true, if_false]
    have hfixed : fixedOf p cs = vaOf p ++ arOf p ∨ fixedOf p cs = arOf p ++ vaOf p := by
      unfold fixedOf
      split
      · exact Or.inl rfl
      · exact Or.inr rfl
    have hm := interleave_merge ((fixedOf p cs).length + p.stages.length) (fixedOf p cs)
      (p.stages.map Clause.stages) (pick 2 cs).2
    obtain ⟨out, cs', h1, h2⟩ := clauseStep_fold
      (interleave ((fixedOf p cs).length + p.stages.length) (fixedOf p cs)
        (p.stages.map Clause.stages) (pick 2 cs).2).1
      (headOf p)
      (interleave ((fixedOf p cs).length + p.stages.length) (fixedOf p cs)
        (p.stages.map Clause.stages) (pick 2 cs).2).2
    rw [h1]
    exact .normal (by simpa using hs) hfixed hm h2

theorem renderSep_spec (sep : Nat) (cs : Choices) : SepShape sep (renderSep sep cs).1 := by
  have h : SepShape sep ((ws false cs).1 ++ [sep] ++ (ws false (ws false cs).2).1) :=
    .mk (ws_isWs _ _) (ws_isWs _ _)
  exact h

def relStep (acc : Bytes × Choices × Bool) (p : SPoss) : Bytes × Choices × Bool :=
  if acc.2.2 then (acc.1 ++ (renderPoss p acc.2.1).1, (renderPoss p acc.2.1).2, false)
  else (acc.1 ++ (renderSep 124 acc.2.1).1 ++ (renderPoss p (renderSep 124 acc.2.1).2).1,
    (renderPoss p (renderSep 124 acc.2.1).2).2, false)

theorem renderRel_eq (r : SRel) (cs : Choices) :
    renderRel r cs = ((r.foldl relStep ([], cs, true)).1, (r.foldl relStep ([], cs, true)).2.1) := by
  unfold renderRel
  have : (fun (acc : Bytes × Choices × Bool) p =>
      let (out, cs, first) := acc
      if first then
        let (t, cs) := renderPoss p cs
        (out ++ t, cs, false)
      else
        let (s, cs) := renderSep 124 cs
        let (t, cs) := renderPoss p cs
        (out ++ s ++ t, cs, false)) = relStep := by
    funext acc p
    obtain ⟨out, cs, first⟩ := acc
    cases first <;> rfl
  rw [this]

theorem relStep_fold (ps : List SPoss) (out : Bytes) (cs : Choices) :
    ∃ t cs', ps.foldl relStep (out, cs, false) = (out ++ t, cs', false) ∧
      JoinTail PossShape 124 ps t := by
  induction ps generalizing out cs with
  | nil => exact ⟨[], cs, by simp, .nil⟩
  | cons p ps ih =>
    obtain ⟨t, cs', h1, h2⟩ := ih
      (out ++ (renderSep 124 cs).1 ++ (renderPoss p (renderSep 124 cs).2).1)
      (renderPoss p (renderSep 124 cs).2).2
    refine ⟨(renderSep 124 cs).1 ++ (renderPoss p (renderSep 124 cs).2).1 ++ t, cs', ?_,
      .cons (renderSep_spec _ _) (renderPoss_spec _ _) h2⟩
    simpa only [List.foldl_cons, relStep, Bool.false_eq_true, if_false, List.append_assoc] using h1

theorem renderRel_spec (r : SRel) (cs : Choices) : RelShape r (renderRel r cs).1 := by
  rw [renderRel_eq]
  cases r with
  | nil => rfl
  | cons p ps =>
    obtain ⟨t, cs', h1, h2⟩ := relStep_fold ps (renderPoss p cs).1 (renderPoss p cs).2
    refine ⟨_, t, renderPoss_spec p cs, h2, ?_⟩
    simp only [List.foldl_cons, relStep, if_true, List.nil_append, h1]

def depStep (acc : Bytes × Choices × Bool) (r : SRel) : Bytes × Choices × Bool :=
  if acc.2.2 then (acc.1 ++ (renderRel r acc.2.1).1, (renderRel r acc.2.1).2, false)
  else (acc.1 ++ (renderSep 44 acc.2.1).1 ++ (renderRel r (renderSep 44 acc.2.1).2).1,
    (renderRel r (renderSep 44 acc.2.1).2).2, false)

theorem depStep_fold (rs : List SRel) (out : Bytes) (cs : Choices) :
    ∃ t cs', rs.foldl depStep (out, cs, false) = (out ++ t, cs', false) ∧
      JoinTail RelShape 44 rs t := by
  induction rs generalizing out cs with
  | nil => exact ⟨[], cs, by simp, .nil⟩
  | cons r rs ih =>
    obtain ⟨t, cs', h1, h2⟩ := ih
      (out ++ (renderSep 44 cs).1 ++ (renderRel r (renderSep 44 cs).2).1)
      (renderRel r (renderSep 44 cs).2).2
    refine ⟨(renderSep 44 cs).1 ++ (renderRel r (renderSep 44 cs).2).1 ++ t, cs', ?_,
      .cons (renderSep_spec _ _) (renderRel_spec _ _) h2⟩
    simpa only [List.foldl_cons, depStep, Bool.false_eq_true, if_false, List.append_assoc] using h1

theorem depBody_spec (d : SDep) (cs : Choices) :
    DepShape d (d.foldl depStep ([], cs, true)).1 := by
  cases d with
  | nil => rfl
  | cons r rs =>
    obtain ⟨t, cs', h1, h2⟩ := depStep_fold rs (renderRel r cs).1 (renderRel r cs).2
    refine ⟨_, t, renderRel_spec r cs, h2, ?_⟩
    simp only [List.foldl_cons, depStep, if_true, List.nil_append, h1]

/-- the rendering of a field: white space, the relations joined by commas, white space -/
theorem render_spec (d : SDep) (cs : Choices) :
    ∃ lead body trail, IsWs lead ∧ IsWs trail ∧ DepShape d body ∧
      Spec.Dependency.render d cs = lead ++ body ++ trail := by
  have hstep : (fun (acc : Bytes × Choices × Bool) r =>
      let (out, cs, first) := acc
      if first then
        let (t, cs) := renderRel r cs
        (out ++ t, cs, false)
      else
        let (s, cs) := renderSep 44 cs
        let (t, cs) := renderRel r cs
        (out ++ s ++ t, cs, false)) = depStep := by
    funext acc r
    obtain ⟨out, cs, first⟩ := acc
    cases first <;> rfl
  refine ⟨(ws false cs).1, (d.foldl depStep ([], (ws false cs).2, true)).1,
    (ws false (d.foldl depStep ([], (ws false cs).2, true)).2.1).1,
    ws_isWs _ _, ws_isWs _ _, depBody_spec _ _, ?_⟩
  unfold Spec.Dependency.render
  rw [hstep]

end GoDebian.Lemmas.DepGrammarShape
