/-
  C09 lemmas, part 1: the paragraph algebra (`lookup` / `insert` / `Set` / `Update`).
  Core Lean only.
-/
import GoDebian.Model.Deb822
import GoDebian.Lemmas.Deb822Read

namespace GoDebian.Lemmas.Codec
open GoDebian GoDebian.Deb822

theorem lookup_insert (k k' v : Bytes) (vs : List (Bytes × Bytes)) :
    lookup k (insert k' v vs) = if k' = k then some v else lookup k vs := by
  by_cases h : k' = k
  · subst h; simp [Lemmas.Deb822Read.lookup_insert_self]
  · simp [h, Lemmas.Deb822Read.lookup_insert_ne (Ne.symm h)]

theorem get_mk (o : List Bytes) (vs : List (Bytes × Bytes)) (k : Bytes) :
    (Paragraph.mk o vs).get k = (lookup k vs).getD [] := rfl

/-! ### `Set` -/

theorem lookup_set (p : Paragraph) (k v k' : Bytes) :
    lookup k' (p.set k v).values = if k = k' then some v else lookup k' p.values := by
  unfold Paragraph.set
  cases lookup k p.values <;> simp [lookup_insert]

theorem get_set (p : Paragraph) (k v k' : Bytes) :
    (p.set k v).get k' = if k = k' then v else p.get k' := by
  unfold Paragraph.get
  rw [lookup_set]
  by_cases h : k = k' <;> simp [h]

theorem order_set (p : Paragraph) (k v : Bytes) :
    (p.set k v).order = if (lookup k p.values).isSome then p.order else p.order ++ [k] := by
  unfold Paragraph.set
  cases lookup k p.values <;> simp

/-! ### `Update` -/

/-- the first loop of `Update`: copy `p` field by field -/
def baseStep (p : Paragraph) (acc : Paragraph × List Bytes) (el : Bytes) : Paragraph × List Bytes :=
  (⟨acc.1.order ++ [el], insert el (p.get el) acc.1.values⟩, el :: acc.2)

/-- the second loop: the other paragraph's fields, new names appended -/
def updStep (q : Paragraph) (acc : Paragraph × List Bytes) (el : Bytes) : Paragraph × List Bytes :=
  let r' : Paragraph := if acc.2.contains el then acc.1 else { acc.1 with order := acc.1.order ++ [el] }
  (⟨r'.order, insert el (q.get el) r'.values⟩, el :: acc.2)

/-- the names the second loop appends: those of `l` not seen before, first occurrences -/
def newKeys : List Bytes → List Bytes → List Bytes
  | [], _ => []
  | el :: l, seen => if seen.contains el then newKeys l (el :: seen) else el :: newKeys l (el :: seen)

theorem update_eq (p q : Paragraph) :
    p.update q = (q.order.foldl (updStep q)
      ((p.order.foldl (baseStep p) (Deb822.empty, [])).1, p.order)).1 := rfl

theorem base_fold (p : Paragraph) (l : List Bytes) (acc : Paragraph × List Bytes) :
    (l.foldl (baseStep p) acc).1.order = acc.1.order ++ l ∧
    ∀ k, lookup k (l.foldl (baseStep p) acc).1.values =
      if k ∈ l then some (p.get k) else lookup k acc.1.values := by
  induction l generalizing acc with
  | nil => simp
  | cons el l ih =>
    obtain ⟨h1, h2⟩ := ih (baseStep p acc el)
    rw [List.foldl_cons]
    refine ⟨by rw [h1]; simp [baseStep], fun k => ?_⟩
    rw [h2]
    by_cases hk : k ∈ l
    · simp [hk]
    · by_cases he : el = k
      · subst he; simp [baseStep, lookup_insert]
      · have : ¬ k = el := fun e => he e.symm
        simp [hk, this, he, baseStep, lookup_insert]

theorem upd_fold (q : Paragraph) (l : List Bytes) (acc : Paragraph × List Bytes) :
    (l.foldl (updStep q) acc).1.order = acc.1.order ++ newKeys l acc.2 ∧
    ∀ k, lookup k (l.foldl (updStep q) acc).1.values =
      if k ∈ l then some (q.get k) else lookup k acc.1.values := by
  induction l generalizing acc with
  | nil => simp [newKeys]
  | cons el l ih =>
    obtain ⟨h1, h2⟩ := ih (updStep q acc el)
    rw [List.foldl_cons]
    refine ⟨?_, fun k => ?_⟩
    · rw [h1]
      by_cases hs : el ∈ acc.2
      · simp [updStep, newKeys, hs]
      · simp [updStep, newKeys, hs]
    · rw [h2]
      have hv : (updStep q acc el).1.values = insert el (q.get el) acc.1.values := by
        unfold updStep
        by_cases hs : el ∈ acc.2 <;> simp [hs]
      rw [hv]
      by_cases hk : k ∈ l
      · simp [hk]
      · by_cases he : el = k
        · subst he; simp [lookup_insert]
        · have : ¬ k = el := fun e => he e.symm
          simp [hk, this, he, lookup_insert]

theorem mem_newKeys {k : Bytes} {l seen : List Bytes} :
    k ∈ newKeys l seen ↔ k ∈ l ∧ k ∉ seen := by
  induction l generalizing seen with
  | nil => simp [newKeys]
  | cons el l ih =>
    unfold newKeys
    by_cases hs : seen.contains el = true
    · rw [if_pos hs, ih]
      have hs' : el ∈ seen := by simpa using hs
      constructor
      · rintro ⟨h1, h2⟩
        exact ⟨List.mem_cons_of_mem _ h1, fun h => h2 (List.mem_cons_of_mem _ h)⟩
      · rintro ⟨h1, h2⟩
        rcases List.mem_cons.mp h1 with rfl | h1
        · exact absurd hs' h2
        · refine ⟨h1, fun h => ?_⟩
          rcases List.mem_cons.mp h with rfl | h
          · exact h2 hs'
          · exact h2 h
    · rw [if_neg hs, List.mem_cons, ih]
      have hs' : el ∉ seen := by simpa using hs
      constructor
      · rintro (rfl | ⟨h1, h2⟩)
        · exact ⟨List.mem_cons_self, hs'⟩
        · exact ⟨List.mem_cons_of_mem _ h1, fun h => h2 (List.mem_cons_of_mem _ h)⟩
      · rintro ⟨h1, h2⟩
        rcases List.mem_cons.mp h1 with rfl | h1
        · exact Or.inl rfl
        · by_cases he : k = el
          · exact Or.inl he
          · refine Or.inr ⟨h1, fun h => ?_⟩
            rcases List.mem_cons.mp h with h | h
            · exact he h
            · exact h2 h

theorem newKeys_of_nodup {l : List Bytes} (h : l.Nodup) (seen : List Bytes) :
    newKeys l seen = l.filter (fun k => !seen.contains k) := by
  induction l generalizing seen with
  | nil => rfl
  | cons el l ih =>
    have hel : el ∉ l := (List.nodup_cons.mp h).1
    have hl := (List.nodup_cons.mp h).2
    have hcongr : l.filter (fun k => !(el :: seen).contains k) =
        l.filter (fun k => !seen.contains k) := by
      apply List.filter_congr
      intro x hx
      have : ¬ x = el := fun e => hel (e ▸ hx)
      simp [this]
    unfold newKeys
    by_cases hs : el ∈ seen
    · rw [if_pos (by simpa using hs), ih hl, hcongr, List.filter_cons]
      simp [hs]
    · rw [if_neg (by simpa using hs), ih hl, hcongr, List.filter_cons]
      simp [hs]

theorem newKeys_nodup (l seen : List Bytes) : (newKeys l seen).Nodup := by
  induction l generalizing seen with
  | nil => simp [newKeys]
  | cons el l ih =>
    unfold newKeys
    by_cases hs : seen.contains el = true
    · rw [if_pos hs]; exact ih _
    · rw [if_neg hs]
      refine List.nodup_cons.mpr ⟨fun h => ?_, ih _⟩
      exact (mem_newKeys.mp h).2 List.mem_cons_self

theorem order_update (p q : Paragraph) :
    (p.update q).order = p.order ++ newKeys q.order p.order := by
  rw [update_eq, (upd_fold q q.order _).1, (base_fold p p.order _).1]
  simp [Deb822.empty]

theorem lookup_update (p q : Paragraph) (k : Bytes) :
    lookup k (p.update q).values =
      if k ∈ q.order then some (q.get k) else if k ∈ p.order then some (p.get k) else none := by
  rw [update_eq, (upd_fold q q.order _).2, (base_fold p p.order _).2]
  simp [Deb822.empty, lookup]

theorem get_update (p q : Paragraph) (k : Bytes) :
    (p.update q).get k =
      if q.order.contains k then q.get k else if p.order.contains k then p.get k else [] := by
  unfold Paragraph.get
  rw [lookup_update]
  by_cases h1 : k ∈ q.order
  · simp [h1, Paragraph.get]
  · by_cases h2 : k ∈ p.order <;> simp [h1, h2, Paragraph.get]

theorem mem_order_update {p q : Paragraph} {k : Bytes} :
    k ∈ (p.update q).order ↔ k ∈ p.order ∨ k ∈ q.order := by
  rw [order_update, List.mem_append, mem_newKeys]
  by_cases h : k ∈ p.order <;> simp [h]

theorem update_inv (p q : Paragraph) (k : Bytes) :
    k ∈ (p.update q).order ↔ (lookup k (p.update q).values).isSome = true := by
  rw [mem_order_update, lookup_update]
  by_cases h1 : k ∈ q.order
  · simp [h1]
  · by_cases h2 : k ∈ p.order <;> simp [h1, h2]

theorem update_nodup {p q : Paragraph} (hp : p.order.Nodup) : (p.update q).order.Nodup := by
  rw [order_update]
  refine List.nodup_append.mpr ⟨hp, newKeys_nodup _ _, fun a ha b hb hab => ?_⟩
  subst hab
  exact (mem_newKeys.mp hb).2 ha

end GoDebian.Lemmas.Codec
