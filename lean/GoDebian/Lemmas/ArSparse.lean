/-
  The iterator over a list of runs (Model/Ar.lean, `readAllS`) is the iterator over the
  flattened bytes.
-/
import GoDebian.Model.Ar
import GoDebian.Spec.Ar

namespace GoDebian.Lemmas.ArSparse
open GoDebian GoDebian.Ar

theorem bytes_length (s : Seg) : s.bytes.length = s.len := by
  cases s <;> simp [Seg.bytes, Seg.len]

theorem flatten_cons (s : Seg) (rest : List Seg) : flatten (s :: rest) = s.bytes ++ flatten rest := by
  simp [flatten]

theorem flatten_length (segs : List Seg) : (flatten segs).length = totalLen segs := by
  induction segs with
  | nil => simp [flatten, totalLen]
  | cons s rest ih =>
    rw [flatten_cons, List.length_append, ih, bytes_length]
    simp [totalLen]

theorem slice_eq (s : Seg) (off n : Nat) : s.slice off n = (s.bytes.drop off).take n := by
  cases s with
  | lit b => rfl
  | zeros k => simp [Seg.slice, Seg.bytes, List.take_replicate]

theorem readAtS_eq (segs : List Seg) (off n : Nat) :
    readAtS segs off n = readAt (flatten segs) off n := by
  induction segs generalizing off n with
  | nil => simp [readAtS, readAt, flatten]
  | cons s rest ih =>
    rw [flatten_cons]
    unfold readAtS
    split
    · rename_i hle
      rw [ih]
      unfold readAt
      rw [List.drop_append, bytes_length]
      have : List.drop off s.bytes = [] := by
        apply List.drop_eq_nil_of_le; rw [bytes_length]; exact hle
      rw [this, List.nil_append]
    · rename_i hlt
      have hlt : off < s.len := Nat.lt_of_not_le hlt
      simp only [slice_eq, ih]
      unfold readAt
      rw [List.drop_append, List.take_append, bytes_length]
      have h0 : off - s.len = 0 := by omega
      rw [h0]
      simp
      omega

theorem readFromR_eq (segs : List Seg) (fuel off : Nat) (acc : List Entry) :
    readFromR (readAtS segs) fuel off acc = readFrom fuel (flatten segs) off acc := by
  have hrd : readAtS segs = readAt (flatten segs) := by
    funext o n; exact readAtS_eq segs o n
  induction fuel generalizing off acc with
  | zero => rfl
  | succ k ih =>
    unfold readFromR readFrom
    rw [next_eq_nextR, hrd]
    split <;> simp_all

/-- iterating a list of runs = iterating the bytes they stand for -/
theorem readAllS_eq (segs : List Seg) : readAllS segs = readAll (flatten segs) := by
  unfold readAllS readAll checkAr
  rw [readAtS_eq, flatten_length]
  simp only [readFromR_eq]
  split
  · rfl
  · split <;> rfl

open GoDebian.Spec.Ar in
theorem flatten_memberSegs (mk : Member × Nat) : flatten (memberSegs mk) = memberBytes (materialise mk) := by
  simp [flatten, memberSegs, memberBytes, materialise, Seg.bytes, header, headerLen, List.append_assoc]
  rfl

theorem flatten_append (a b : List Seg) : flatten (a ++ b) = flatten a ++ flatten b := by
  simp [flatten]

open GoDebian.Spec.Ar in
theorem flatten_buildSegs (mks : List (Member × Nat)) :
    flatten (buildSegs mks) = build (mks.map materialise) := by
  unfold buildSegs build
  rw [flatten_cons]
  congr 1
  induction mks with
  | nil => simp [flatten]
  | cons mk rest ih =>
    simp only [List.map_cons, List.flatten_cons, flatten_append, ih, flatten_memberSegs]

end GoDebian.Lemmas.ArSparse
