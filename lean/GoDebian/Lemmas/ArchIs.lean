/-
  Lemmas for C06: `Arch.is` against the Debian wildcard semantics, `ArchSet.matches`,
  the `GetPossibilities` family and `SatisfiedBy`.  Core Lean only.
-/
import GoDebian.Model.Dependency
import GoDebian.Spec.Arch

namespace GoDebian.Lemmas.Arch
open GoDebian GoDebian.Dep GoDebian.Spec.Arch

/-- Decidable equality of results, so that examples about `Res` values can be closed by
    `decide`. -/
instance instDecidableEqExcept {ε α : Type} [DecidableEq ε] [DecidableEq α] :
    DecidableEq (Except ε α)
  | .ok x, .ok y => if h : x = y then isTrue (h ▸ rfl) else isFalse (fun e => h (Except.ok.inj e))
  | .error x, .error y =>
    if h : x = y then isTrue (h ▸ rfl) else isFalse (fun e => h (Except.error.inj e))
  | .ok _, .error _ => isFalse (fun e => nomatch e)
  | .error _, .ok _ => isFalse (fun e => nomatch e)

theorem any_ne_all : sAny ≠ sAll := by decide

/-! ### `Arch.is` -/

theorem concrete_not_wildcard (c : Arch) (hc : Concrete c) : c.isWildcard = false := by
  obtain ⟨h1, h2, h3, h4, h5, h6⟩ := hc
  simp [Arch.isWildcard, *]

theorem all_not_wildcard : All.isWildcard = false := by decide

theorem is_wild (c p : Arch) (hc : Concrete c) (hp : Dom p) :
    c.is p = (decide (p ≠ All) && wildMatches c p) := by
  have hw := concrete_not_wildcard c hc
  obtain ⟨ca, co, cc⟩ := c
  obtain ⟨pa, po, pc⟩ := p
  obtain ⟨h1, h2, h3, h4, h5, h6⟩ := hc
  simp only at h1 h2 h3 h4 h5 h6
  simp only [Arch.is, hw, Bool.false_and, Bool.false_eq_true, if_false]
  rcases hp with hp | ⟨q1, q2, q3⟩
  · simp only [All, Arch.mk.injEq] at hp
    obtain ⟨rfl, rfl, rfl⟩ := hp
    have := any_ne_all
    simp [Arch.isCore, wildMatches, compMatches, All, h3, Ne.symm this]
  · simp only at q1 q2 q3
    have hne : (⟨pa, po, pc⟩ : Arch) ≠ All := by
      simp only [All, ne_eq, Arch.mk.injEq]
      intro h; exact q1 h.1
    simp only [hne, ne_eq, not_false_eq_true, decide_true, Bool.true_and]
    simp only [Arch.isCore, wildMatches, compMatches, h3, ne_eq, not_false_eq_true, decide_true,
      Bool.true_and]
    by_cases e1 : pa = sAny <;> by_cases e2 : po = sAny <;> by_cases e3 : pc = sAny <;>
      simp [e1, e2, e3, eq_comm, Bool.and_comm, Bool.and_assoc]

theorem is_all (p : Arch) (hp : Dom p) : All.is p = decide (p = All) := by
  obtain ⟨pa, po, pc⟩ := p
  simp only [Arch.is, all_not_wildcard, Bool.false_and, Bool.false_eq_true, if_false]
  rcases hp with hp | ⟨q1, q2, q3⟩
  · rw [hp]; decide
  · simp only at q1 q2 q3
    simp [Arch.isCore, All, Ne.symm q3, q3]

theorem is_concrete (c c' : Arch) (hc : Concrete c) (hc' : Concrete c') :
    c.is c' = decide (c = c') := by
  have hw := concrete_not_wildcard c hc
  obtain ⟨ca, co, cc⟩ := c
  obtain ⟨pa, po, pc⟩ := c'
  obtain ⟨-, -, -, h4, h5, h6⟩ := hc'
  simp only at h4 h5 h6
  simp only [Arch.is, hw, Bool.false_and, Bool.false_eq_true, if_false]
  simp only [Arch.isCore, h4, h5, h6, Arch.mk.injEq]
  by_cases e1 : ca = pa <;> by_cases e2 : co = po <;> by_cases e3 : cc = pc <;> simp [e1, e2, e3]

/-- A `Dom` architecture that is not a wildcard is `All` or concrete. -/
theorem dom_not_wildcard (a : Arch) (ha : Dom a) (hw : a.isWildcard = false) :
    a = All ∨ Concrete a := by
  rcases ha with ha | ⟨q1, q2, q3⟩
  · exact Or.inl ha
  · right
    simp only [Arch.isWildcard, q3, if_false, Bool.or_eq_false_iff, decide_eq_false_iff_not] at hw
    exact ⟨q1, q2, q3, hw.1.1, hw.1.2, hw.2⟩

theorem concrete_ne_all (a : Arch) (ha : Concrete a) : a ≠ All := by
  intro h; rw [h] at ha; exact ha.1 rfl

theorem concrete_dom (a : Arch) (ha : Concrete a) : Dom a := Or.inr ⟨ha.1, ha.2.1, ha.2.2.1⟩

theorem is_symm (a b : Arch) (ha : Dom a) (hb : Dom b) : a.is b = b.is a := by
  cases hwa : a.isWildcard <;> cases hwb : b.isWildcard
  · -- neither is a wildcard: each is `All` or concrete
    rcases dom_not_wildcard a ha hwa with rfl | ca <;>
      rcases dom_not_wildcard b hb hwb with rfl | cb
    · rfl
    · rw [is_all b hb, is_wild b All cb ha]
      simp [concrete_ne_all b cb]
    · rw [is_all a ha, is_wild a All ca hb]
      simp [concrete_ne_all a ca]
    · rw [is_concrete a b ca cb, is_concrete b a cb ca]
      simp [eq_comm]
  · simp [Arch.is, hwa, hwb]
  · simp [Arch.is, hwa, hwb]
  · simp [Arch.is, hwa, hwb]

/-! ### `ArchSet.matches` -/

theorem matches_eq (s : ArchSet) (a : Arch) : s.matches a = listAdmits Arch.is s a := by
  unfold ArchSet.matches listAdmits
  cases s.archs.isEmpty <;> cases s.archs.any (fun el => el.is a) <;> cases s.neg <;> rfl

/-! ### `GetPossibilities` and friends -/

/-- the selection predicate of C06 -/
def selects (a : Arch) (p : Possibility) : Bool :=
  !p.substvar && (match p.archs with | some s => listAdmits Arch.is s a | none => false)

theorem firstMatch_eq (a : Arch) (rel : Relation)
    (h : ∀ p ∈ rel, p.substvar = false → p.archs.isSome) :
    firstMatch a rel = .ok (rel.find? (selects a)) := by
  induction rel with
  | nil => rfl
  | cons p rest ih =>
    have ih := ih (fun q hq => h q (List.mem_cons_of_mem _ hq))
    have hp := h p List.mem_cons_self
    unfold firstMatch
    cases hs : p.substvar with
    | true => simp [ih, selects, hs]
    | false =>
      have := hp hs
      cases ha : p.archs with
      | none => simp [ha] at this
      | some s =>
        simp only [Bool.false_eq_true, if_false, possMatches, ha, matches_eq]
        cases hm : listAdmits Arch.is s a <;>
          simp [ih, selects, hs, ha, hm]

theorem foldlM_possibilities (a : Arch) (d : Dependency) (acc : List Possibility)
    (h : ∀ rel ∈ d, ∀ p ∈ rel, p.substvar = false → p.archs.isSome) :
    d.foldlM (m := Except Err) (fun acc rel => match firstMatch a rel with
      | .error e => .error e
      | .ok none => .ok acc
      | .ok (some p) => .ok (acc ++ [p])) acc
    = .ok (acc ++ d.filterMap (fun rel => rel.find? (selects a))) := by
  induction d generalizing acc with
  | nil => simp [List.foldlM, pure, Except.pure]
  | cons rel rest ih =>
    have ih := fun acc => ih acc (fun r hr => h r (List.mem_cons_of_mem _ hr))
    have hrel := firstMatch_eq a rel (h rel List.mem_cons_self)
    rw [List.foldlM_cons, hrel]
    cases hf : rel.find? (selects a) with
    | none =>
      simp only [List.filterMap_cons, hf]
      exact ih acc
    | some p =>
      simp only [List.filterMap_cons, hf]
      have := ih (acc ++ [p])
      simp only [List.append_assoc, List.singleton_append] at this
      exact this

theorem getPossibilities_eq (d : Dependency) (a : Arch)
    (h : ∀ rel ∈ d, ∀ p ∈ rel, p.substvar = false → p.archs.isSome) :
    getPossibilities d a = .ok (d.filterMap (fun rel => rel.find? (selects a))) := by
  have := foldlM_possibilities a d [] h
  rw [List.nil_append] at this
  exact this

theorem getAllPossibilities_eq (d : Dependency) :
    getAllPossibilities d = (d.map (·.filter (fun p => !p.substvar))).flatten := by
  simp [getAllPossibilities, List.flatMap_def]

theorem getSubstvars_eq (d : Dependency) :
    getSubstvars d = (d.map (·.filter (·.substvar))).flatten := by
  simp [getSubstvars, List.flatMap_def]

/-! ### `SatisfiedBy` -/

theorem satisfiedBy_ok (op n : Bytes) (v N : Version.Version) (hN : Version.parse n = .ok N) :
    satisfiedBy ⟨n, op⟩ v =
      (if op = opLT then decide (Version.compare v N < 0)
       else if op = opLE then decide (Version.compare v N ≤ 0)
       else if op = opEQ then decide (Version.compare v N = 0)
       else if op = opGE then decide (Version.compare v N ≥ 0)
       else if op = opGT then decide (Version.compare v N > 0) else false) := by
  simp only [satisfiedBy, hN]
  by_cases h1 : op = opLT
  · subst h1; simp [opLT, opGE, opLE, opGT]
  by_cases h2 : op = opLE
  · subst h2; simp [opLT, opGE, opLE]
  by_cases h3 : op = opEQ
  · subst h3; simp [opLT, opGE, opLE, opGT, opEQ]
  by_cases h4 : op = opGE
  · subst h4; simp [opLT, opGE, opLE, opEQ]
  by_cases h5 : op = opGT
  · subst h5; simp [opLT, opGE, opLE, opGT, opEQ]
  simp [h1, h2, h3, h4, h5]

theorem satisfiedBy_unparsable (op n : Bytes) (v : Version.Version) (e : Err)
    (hN : Version.parse n = .error e) : satisfiedBy ⟨n, op⟩ v = false := by
  simp [satisfiedBy, hN]

theorem satisfiedBy_unknown_op (op n : Bytes) (v : Version.Version)
    (h : op ≠ opLT ∧ op ≠ opLE ∧ op ≠ opEQ ∧ op ≠ opGE ∧ op ≠ opGT) :
    satisfiedBy ⟨n, op⟩ v = false := by
  obtain ⟨h1, h2, h3, h4, h5⟩ := h
  simp only [satisfiedBy]
  cases Version.parse n <;> simp [h1, h2, h3, h4, h5]

end GoDebian.Lemmas.Arch
