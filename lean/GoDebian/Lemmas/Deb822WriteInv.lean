/-
  C08 lemmas, part 3: what every paragraph returned by the reader looks like (distinct
  trimmed colon-free keys; each value a trimmed first line plus right-trimmed continuation
  lines), and when such a paragraph is rereadable.
-/
import Batteries.Data.List.Basic
import GoDebian.Lemmas.Deb822WriteDoc

namespace GoDebian.Lemmas.Deb822Write
open GoDebian GoDebian.Str GoDebian.Deb822 GoDebian.Spec.Deb822Write
open GoDebian.Lemmas.Str GoDebian.Lemmas.Deb822WriteStr

/-! ### physical lines end in their only newline -/

def LineOK (l : Bytes) : Prop := ∃ x, l = x ++ [10] ∧ 10 ∉ x

theorem linesAux_lineOK (s cur : Bytes) (hc : 10 ∉ cur) : ∀ l ∈ linesAux s cur, LineOK l := by
  induction s generalizing cur with
  | nil =>
    intro l hl
    simp only [linesAux] at hl
    by_cases he : cur.isEmpty
    · simp [he] at hl
    · simp only [he, Bool.false_eq_true, if_false, List.mem_singleton] at hl
      exact ⟨cur.reverse, by rw [hl]; simp, by simpa using hc⟩
  | cons c s ih =>
    intro l hl
    simp only [linesAux] at hl
    by_cases h10 : c = 10
    · rw [if_pos h10] at hl
      rcases List.mem_cons.mp hl with rfl | hl
      · exact ⟨cur.reverse, by simp, by simpa using hc⟩
      · exact ih [] (by simp) l hl
    · rw [if_neg h10] at hl
      exact ih (c :: cur) (by simp only [List.mem_cons, not_or]; exact ⟨fun e => h10 e.symm, hc⟩) l hl

theorem physLines_lineOK (bs : Bytes) : ∀ l ∈ physLines bs, LineOK l :=
  linesAux_lineOK bs [] (by simp)

/-- a physical line with a colon: the key part and the rest -/
theorem lineOK_split {k v x : Bytes} (h : k ++ 58 :: v = x ++ [10]) (hx : 10 ∉ x) :
    10 ∉ k ∧ ∃ v', v = v' ++ [10] ∧ 10 ∉ v' := by
  cases hv : v.reverse with
  | nil =>
    have : v = [] := by simpa using hv
    subst this
    have := congrArg List.getLast? h
    simp at this
  | cons c r =>
    have hv' : v = r.reverse ++ [c] := by
      have := congrArg List.reverse hv
      simpa using this
    subst hv'
    have h' : (k ++ 58 :: r.reverse) ++ [c] = x ++ [10] := by simpa using h
    obtain ⟨h1, h2⟩ := List.append_inj' h' rfl
    have hc : c = 10 := by simpa using h2
    subst hc
    subst h1
    refine ⟨fun hm => hx (by simp [hm]), r.reverse, rfl, fun hm => hx ?_⟩
    simp only [List.mem_append, List.mem_cons]
    exact Or.inr (Or.inr hm)

theorem not_mem_trimSpace_snoc_nl {y : Bytes} (h : 10 ∉ y) : 10 ∉ trimSpace (y ++ [10]) := by
  obtain ⟨w, h1, _, _⟩ := trimLeftSpace_decomp (y ++ [10])
  unfold trimSpace
  cases hs : (trimLeftSpace (y ++ [10])).reverse with
  | nil =>
    have : trimLeftSpace (y ++ [10]) = [] := by simpa using hs
    rw [this]; decide
  | cons c r =>
    have hs' : trimLeftSpace (y ++ [10]) = r.reverse ++ [c] := by
      have := congrArg List.reverse hs
      simpa using this
    rw [hs'] at h1 ⊢
    have h' : y ++ [10] = (w ++ r.reverse) ++ [c] := by simpa using h1
    obtain ⟨h2, h3⟩ := List.append_inj' h' rfl
    have hc : c = 10 := by simpa using h3.symm
    subst hc
    rw [trimRightSpace_snoc_nl]
    intro hm
    have := mem_of_mem_trimRightSpace hm
    exact h (by rw [h2]; exact List.mem_append_right _ this)

/-! ### the map, again -/

theorem lookup_insert (k k' v : Bytes) (vs : List (Bytes × Bytes)) :
    lookup k (insert k' v vs) = if k' = k then some v else lookup k vs := by
  induction vs with
  | nil => simp [Deb822.insert, lookup]
  | cons kv vs ih =>
    obtain ⟨k'', v''⟩ := kv
    simp only [Deb822.insert]
    by_cases h1 : k'' = k'
    · rw [if_pos h1]
      simp only [lookup]
      by_cases h2 : k' = k
      · simp [h2]
      · have : ¬ k'' = k := by rw [h1]; exact h2
        simp [h2, this]
    · rw [if_neg h1]
      simp only [lookup, ih]
      by_cases h2 : k'' = k
      · have : ¬ k' = k := fun e => h1 (h2.trans e.symm)
        simp [h2, this]
      · simp [h2]

/-! ### the reader's loop invariant -/

def KeyInv (k : Bytes) : Prop := KeyOK k

def ValInv (v : Bytes) : Prop :=
  ∃ t ls, v = build t ls ∧ Trimmed t ∧ 10 ∉ t ∧ ∀ l ∈ ls, ContOK l

def LInv (p : Paragraph) (lk : Bytes) : Prop :=
  p.order.Nodup ∧ (∀ k, k ∈ p.order ↔ (lookup k p.values).isSome = true) ∧
    (∀ k ∈ p.order, KeyInv k ∧ ValInv (p.get k)) ∧ (p.order ≠ [] → lk ∈ p.order)

/-- what the reader guarantees about every paragraph it returns -/
def ReadInv (p : Paragraph) : Prop :=
  p.order ≠ [] ∧ p.order.Nodup ∧ ∀ k ∈ p.order, KeyInv k ∧ ValInv (p.get k)

theorem isEmpty_eq_false_iff {α : Type} (l : List α) : l.isEmpty = false ↔ l ≠ [] := by
  cases l <;> simp

theorem contOK_read {c : Nat} {rest' : Bytes} (hl : LineOK (c :: rest')) (hc : c ≠ 10) :
    ContOK (if trimRightSpace rest' = [46] then [] else trimRightSpace rest') := by
  obtain ⟨x, hx, hnx⟩ := hl
  cases x with
  | nil => simp at hx; exact absurd hx.1 hc
  | cons c' x' =>
    simp only [List.cons_append, List.cons.injEq] at hx
    obtain ⟨_, rfl⟩ := hx
    rw [trimRightSpace_snoc_nl]
    by_cases h46 : trimRightSpace x' = [46]
    · rw [if_pos h46]; exact ⟨rfl, by simp, by decide⟩
    · rw [if_neg h46]
      refine ⟨trimRightSpace_idem x', fun hm => hnx ?_, h46⟩
      exact List.mem_cons_of_mem _ (mem_of_mem_trimRightSpace hm)

theorem valInv_appendLine {v l : Bytes} (hv : ValInv v) (hl : ContOK l) :
    ValInv (appendLine v l) := by
  obtain ⟨t, ls, rfl, h1, h2, h3⟩ := hv
  refine ⟨t, ls ++ [l], appendLine_build h2 ls l, h1, h2, ?_⟩
  intro l' hl'
  rcases List.mem_append.mp hl' with hl' | hl'
  · exact h3 l' hl'
  · rw [List.mem_singleton.mp hl']; exact hl

theorem get_insert (p : Paragraph) (k k' v : Bytes) :
    (Paragraph.mk p.order (insert k' v p.values)).get k = if k' = k then v else p.get k := by
  unfold Paragraph.get
  simp only [lookup_insert]
  by_cases h : k' = k <;> simp [h]

theorem nextAux_inv (lines : List Bytes) (hlines : ∀ l ∈ lines, LineOK l) (p : Paragraph)
    (lk : Bytes) (hp : LInv p lk) (q : Paragraph) (rest : List Bytes)
    (h : nextAux lines p lk = .para q rest) :
    ReadInv q ∧ ∀ l ∈ rest, l ∈ lines := by
  induction lines generalizing p lk with
  | nil =>
    rw [nextAux] at h
    by_cases he : p.order.isEmpty
    · simp [he] at h
    · simp only [he, Bool.false_eq_true, if_false, Step.para.injEq] at h
      obtain ⟨rfl, rfl⟩ := h
      refine ⟨⟨(isEmpty_eq_false_iff _).mp (by simpa using he), hp.1, hp.2.2.1⟩, by simp⟩
  | cons line rest' ih =>
    have hrest : ∀ l ∈ rest', LineOK l := fun l hl => hlines l (List.mem_cons_of_mem _ hl)
    have hsub : ∀ {r : List Bytes}, (∀ l ∈ r, l ∈ rest') → ∀ l ∈ r, l ∈ line :: rest' :=
      fun hr l hl => List.mem_cons_of_mem _ (hr l hl)
    rw [nextAux] at h
    by_cases hb : line = [10] ∨ line = [13, 10]
    · rw [if_pos hb] at h
      by_cases he : p.order.isEmpty
      · rw [if_pos he] at h
        obtain ⟨h1, h2⟩ := ih hrest p lk hp h
        exact ⟨h1, hsub h2⟩
      · simp only [he, Bool.false_eq_true, if_false, Step.para.injEq] at h
        obtain ⟨rfl, rfl⟩ := h
        exact ⟨⟨(isEmpty_eq_false_iff _).mp (by simpa using he), hp.1, hp.2.2.1⟩,
          fun l hl => List.mem_cons_of_mem _ hl⟩
    · rw [if_neg hb] at h
      by_cases h35 : hasPrefix line [35] = true
      · rw [if_pos h35] at h
        obtain ⟨h1, h2⟩ := ih hrest p lk hp h
        exact ⟨h1, hsub h2⟩
      · rw [if_neg h35] at h
        by_cases hcont : hasPrefix line [32] = true ∨ hasPrefix line [9] = true
        · rw [if_pos hcont] at h
          by_cases he : p.order.isEmpty
          · simp [he] at h
          · simp only [he, Bool.false_eq_true, if_false] at h
            have hne : p.order ≠ [] := (isEmpty_eq_false_iff _).mp (by simpa using he)
            have hlk := hp.2.2.2 hne
            -- the continuation line as read
            have hl : ContOK (if trimRightSpace (line.drop 1) = [46] then []
                else trimRightSpace (line.drop 1)) := by
              cases line with
              | nil => simp [hasPrefix, isPrefix] at hcont
              | cons c r =>
                have hc : c ≠ 10 := by
                  rw [hasPrefix_cons_singleton, hasPrefix_cons_singleton] at hcont
                  intro e; subst e; revert hcont; decide
                exact contOK_read (hlines _ (by simp)) hc
            have hinv : LInv ⟨p.order, insert lk (appendLine (p.get lk)
                (if trimRightSpace (line.drop 1) = [46] then []
                  else trimRightSpace (line.drop 1))) p.values⟩ lk := by
              refine ⟨hp.1, fun k => ?_, fun k hk => ⟨(hp.2.2.1 k hk).1, ?_⟩, fun _ => hlk⟩
              · show k ∈ p.order ↔ _
                rw [lookup_insert]
                by_cases e : lk = k
                · subst e; simp [hlk]
                · simp only [e, if_false]; exact hp.2.1 k
              · rw [get_insert]
                by_cases e : lk = k
                · rw [if_pos e]
                  exact valInv_appendLine (hp.2.2.1 lk hlk).2 hl
                · rw [if_neg e]; exact (hp.2.2.1 k hk).2
            obtain ⟨h1, h2⟩ := ih hrest _ lk hinv h
            exact ⟨h1, hsub h2⟩
        · rw [if_neg hcont, splitN_two] at h
          cases hc : cut [58] line with
          | none => simp [hc] at h
          | some kv =>
            obtain ⟨k, v⟩ := kv
            simp only [hc] at h
            obtain ⟨hline, h58⟩ := cut_some hc
            obtain ⟨x, hx, hnx⟩ := hlines line (by simp)
            obtain ⟨h10k, v', rfl, h10v⟩ := lineOK_split (hline.symm.trans hx) hnx
            by_cases hk35 : hasPrefix (trimSpace k) [35] = true
            · simp [hk35] at h
            rw [if_neg hk35] at h
            have hkey : KeyInv (trimSpace k) :=
              ⟨trimmed_trimSpace k, fun hm => h58 (mem_of_mem_trimSpace hm),
                fun hm => h10k (mem_of_mem_trimSpace hm),
                fun e => hk35 ((hasPrefix_hash_iff _).mpr e)⟩
            have hval : ValInv (trimSpace (v' ++ [10])) :=
              ⟨trimSpace (v' ++ [10]), [], rfl, trimmed_trimSpace _,
                not_mem_trimSpace_snoc_nl h10v, by simp⟩
            generalize trimSpace k = key at h hkey
            generalize trimSpace (v' ++ [10]) = value at h hval
            have hmem : ∀ k', k' ∈ (if (lookup key p.values).isSome then p.order
                else p.order ++ [key]) ↔ (k' ∈ p.order ∨ k' = key) := by
              intro k'
              by_cases hs : (lookup key p.values).isSome = true
              · simp only [hs, if_true]
                constructor
                · exact Or.inl
                · rintro (h | h)
                  · exact h
                  · rw [h]; exact (hp.2.1 key).mpr hs
              · simp only [hs, Bool.false_eq_true, if_false, List.mem_append, List.mem_singleton]
            have hinv : LInv ⟨if (lookup key p.values).isSome then p.order
                else p.order ++ [key], insert key value p.values⟩ key := by
              refine ⟨?_, fun k' => ?_, fun k' hk' => ?_, fun _ => (hmem key).mpr (Or.inr rfl)⟩
              · by_cases hs : (lookup key p.values).isSome = true
                · simp only [hs, if_true]; exact hp.1
                · simp only [hs, Bool.false_eq_true, if_false]
                  have hnot : key ∉ p.order := fun hm => hs ((hp.2.1 key).mp hm)
                  exact List.nodup_append.mpr ⟨hp.1, by simp, by
                    intro a ha b hb
                    rw [List.mem_singleton.mp hb]
                    intro e; subst e; exact hnot ha⟩
              · show k' ∈ (if (lookup key p.values).isSome then p.order
                  else p.order ++ [key]) ↔ _
                rw [hmem, lookup_insert]
                by_cases e : key = k'
                · subst e; simp
                · simp only [e, if_false]
                  rw [← hp.2.1 k']
                  constructor
                  · rintro (h | h)
                    · exact h
                    · exact absurd h.symm e
                  · exact Or.inl
              · have hk'' := (hmem k').mp hk'
                show KeyInv k' ∧ ValInv ((Paragraph.mk p.order (insert key value p.values)).get k')
                rw [get_insert]
                by_cases e : key = k'
                · subst e; rw [if_pos rfl]; exact ⟨hkey, hval⟩
                · rw [if_neg e]
                  rcases hk'' with hk'' | hk''
                  · exact hp.2.2.1 k' hk''
                  · exact absurd hk''.symm e
            obtain ⟨h1, h2⟩ := ih hrest _ _ hinv h
            exact ⟨h1, hsub h2⟩

theorem lInv_empty : LInv empty [] :=
  ⟨List.nodup_nil, fun k => by simp [empty, lookup], fun k hk => by simp [empty] at hk,
    fun h => absurd rfl h⟩

theorem allAux_inv (fuel : Nat) (lines : List Bytes) (hlines : ∀ l ∈ lines, LineOK l)
    (acc : List Paragraph) (hacc : ∀ p ∈ acc, ReadInv p) (ps : List Paragraph)
    (h : allAux fuel lines acc = .ok ps) : ∀ p ∈ ps, ReadInv p := by
  induction fuel generalizing lines acc with
  | zero => simp [allAux] at h
  | succ f ih =>
    rw [allAux] at h
    cases hn : next lines with
    | eof =>
      simp only [hn, Except.ok.injEq] at h
      subst h; exact hacc
    | bad => simp [hn] at h
    | para q rest =>
      simp only [hn] at h
      obtain ⟨h1, h2⟩ := nextAux_inv lines hlines empty [] lInv_empty q rest hn
      refine ih rest (fun l hl => hlines l (h2 l hl)) (acc ++ [q]) ?_ h
      intro p hp
      rcases List.mem_append.mp hp with hp | hp
      · exact hacc p hp
      · rw [List.mem_singleton.mp hp]; exact h1

/-- every paragraph the reader returns satisfies `ReadInv` -/
theorem all_inv {bs : Bytes} {ps : List Paragraph} (h : all bs = .ok ps) :
    ∀ p ∈ ps, ReadInv p :=
  allAux_inv _ _ (physLines_lineOK bs) [] (by simp) ps h

/-! ### reader output that is rereadable -/

theorem not_blankStart_of_spaceLen {t : Bytes} (h : spaceLen t = 0) :
    ¬ (hasPrefix t [32] = true ∨ hasPrefix t [9] = true) := by
  cases t with
  | nil => simp [hasPrefix, isPrefix]
  | cons c t =>
    rw [hasPrefix_cons_singleton, hasPrefix_cons_singleton]
    intro hc
    rcases hc with hc | hc
    · have : 32 = c := by simpa using hc
      subst this; rw [spaceLen_blank] at h; exact absurd h (by decide)
    · have : 9 = c := by simpa using hc
      subst this; rw [spaceLen_tab] at h; exact absurd h (by decide)

theorem partsOK_of_valInv {v : Bytes} (hv : ValInv v) :
    PartsOK (foldParts v).1 (foldParts v).2 := by
  obtain ⟨t, ls, rfl, h1, h2, h3⟩ := hv
  have hvl := valueLines_build h2 (fun l hl => (h3 l hl).2.1)
  unfold foldParts
  rw [hvl]
  cases ls with
  | nil =>
    simp only [List.isEmpty_nil, if_true]
    rw [if_neg (Classical.not_not.mpr (trimLeftSpace_of_zero h1.1))]
    exact ⟨h1, h2, by simp⟩
  | cons first rest =>
    simp only [List.isEmpty_cons, Bool.false_eq_true, if_false]
    by_cases he : t.isEmpty
    · simp only [he, if_true]
      by_cases hb : trimLeftSpace first ≠ first
      · rw [if_pos hb]; exact ⟨trimmed_nil, by simp, h3⟩
      · rw [if_neg hb]
        have hc := h3 first (by simp)
        exact ⟨⟨spaceLen_of_trimLeftSpace_fixed (Classical.not_not.mp hb),
          spaceLenRev_of_trimRightSpace_fixed hc.1⟩, hc.2.1,
          fun l hl => h3 l (List.mem_cons_of_mem _ hl)⟩
    · simp only [he, Bool.false_eq_true, if_false]
      rw [if_neg (Classical.not_not.mpr (trimLeftSpace_of_zero h1.1))]
      exact ⟨h1, h2, h3⟩

theorem rereadable_of_readInv {p : Paragraph} (h : ReadInv p) : Rereadable p :=
  ⟨h.1, h.2.1, fun k hk => ⟨(h.2.2 k hk).1, partsOK_of_valInv (h.2.2 k hk).2⟩⟩

theorem forall₂_map_of {α β : Type} {R : α → β → Prop} {f : α → β} (l : List α)
    (h : ∀ a ∈ l, R a (f a)) : List.Forall₂ R l (l.map f) := by
  induction l with
  | nil => exact .nil
  | cons a l ih =>
    exact .cons (h a (by simp)) (ih (fun b hb => h b (List.mem_cons_of_mem _ hb)))

/-- write–read–write on reader output: the paragraphs come back up to one trailing
    newline per value, and the bytes do not change -/
theorem stable_of_all {bs : Bytes} {ps : List Paragraph} (h : all bs = .ok ps)
    (hl : ∀ p ∈ ps, ∀ k ∈ p.order, noLeadingEmptyLine (p.get k) = true) :
    all (writeAll ps) = .ok (ps.map reread) ∧
      List.Forall₂ (fun a b => sameUpToNewline a b = true) ps (ps.map reread) ∧
      writeAll (ps.map reread) = writeAll ps := by
  have hinv := all_inv h
  refine ⟨all_writeAll ps (fun p hp => rereadable_of_readInv (hinv p hp)),
    forall₂_map_of ps (fun p hp => sameUpToNewline_reread (hl p hp)), ?_⟩
  unfold writeAll
  rw [List.map_map]
  congr 1
  apply List.map_congr_left
  intro p hp
  exact write_reread (hl p hp)

end GoDebian.Lemmas.Deb822Write
