/-
  Lemmas about the hashio / filehash model (`Model/Hashio.lean`): closed form of `run`
  (every hasher of the pipe has been fed the concatenation of the chunks), the hex
  round trip `hexDecode (hexEncode d) = some d`, and the verdict of `verify`.
  Core Lean only.
-/
import GoDebian.Model.Hashio
import GoDebian.Lemmas.Res

namespace GoDebian.Lemmas.Hashio
open GoDebian GoDebian.Hashio

/-! ### the pipe -/

/-- the hasher named `n` after it has been fed `d` -/
def fedHasher (d : Bytes) (n : Bytes) : Hasher := ⟨n, d, d.length⟩

theorem newHashers_fold (names : List Bytes) (acc : List Hasher) :
    names.foldlM (fun acc n => (newHasher n).map (fun h => acc ++ [h])) acc =
      if names.all supported then (.ok (acc ++ names.map (fedHasher [])) : Res (List Hasher))
      else .error .err := by
  induction names generalizing acc with
  | nil => simp [pure, Except.pure]
  | cons n rest ih =>
    rw [List.foldlM_cons]
    cases hs : supported n with
    | false =>
      have e : newHasher n = .error .err := by simp [newHasher, hs]
      rw [e]
      simp [hs, Except.map, bind, Except.bind]
    | true =>
      have e : newHasher n = .ok (fedHasher [] n) := by simp [newHasher, hs, fedHasher]
      rw [e]
      show List.foldlM _ (acc ++ [fedHasher [] n]) rest = _
      rw [ih]
      simp [hs]

theorem newPipe_eq (names : List Bytes) :
    newPipe names =
      if names.all supported then .ok ⟨names.map (fedHasher []), []⟩ else .error .err := by
  unfold newPipe
  rw [newHashers_fold]
  split <;> simp [Except.map]

theorem foldl_write (chunks : List Bytes) (p : Pipe) :
    chunks.foldl Pipe.write p =
      ⟨p.hashers.map (fun h => ⟨h.name, h.fed ++ chunks.flatten, h.size + chunks.flatten.length⟩),
       p.target ++ chunks.flatten⟩ := by
  induction chunks generalizing p with
  | nil => cases p; simp
  | cons c rest ih =>
    rw [List.foldl_cons, ih]
    simp [Pipe.write, Hasher.write, List.append_assoc, Nat.add_assoc, Function.comp_def]

/-- Closed form of `run`: either a name is unknown, or every hasher has seen exactly the
    concatenation of the chunks and so has the target. -/
theorem run_eq (names chunks : List Bytes) :
    run names chunks =
      if names.all supported then
        .ok ⟨names.map (fedHasher chunks.flatten), chunks.flatten⟩
      else .error .err := by
  unfold run
  rw [newPipe_eq]
  split
  · simp [Except.map, foldl_write, fedHasher, Function.comp_def]
  · simp [Except.map]

theorem run_ok {names chunks : List Bytes} {p : Pipe} (h : run names chunks = .ok p) :
    p = ⟨names.map (fedHasher chunks.flatten), chunks.flatten⟩ := by
  rw [run_eq] at h
  split at h
  · injection h with h; exact h.symm
  · cases h

theorem run_passthrough {names chunks : List Bytes} {p : Pipe} (h : run names chunks = .ok p) :
    p.target = chunks.flatten ∧ p.hashers.map (·.name) = names ∧
      ∀ x ∈ p.hashers, x.fed = chunks.flatten ∧ x.size = chunks.flatten.length := by
  rw [run_ok h]
  refine ⟨rfl, ?_, ?_⟩
  · simp [fedHasher, Function.comp_def]
  · intro x hx
    simp only [List.mem_map] at hx
    obtain ⟨n, _, rfl⟩ := hx
    exact ⟨rfl, rfl⟩

theorem run_sums (H : Digest) {names chunks : List Bytes} {p : Pipe}
    (h : run names chunks = .ok p) :
    p.hashers.map (·.sum H) = names.map (fun n => H n chunks.flatten) := by
  rw [run_ok h]
  simp [fedHasher, Hasher.sum, Function.comp_def]

theorem run_chunking {names c1 c2 : List Bytes} {p1 p2 : Pipe} (hf : c1.flatten = c2.flatten)
    (h1 : run names c1 = .ok p1) (h2 : run names c2 = .ok p2) : p1 = p2 := by
  rw [run_ok h1, run_ok h2, hf]

theorem run_error_iff (names chunks : List Bytes) :
    (∃ n ∈ names, supported n = false) ↔ run names chunks = .error .err := by
  rw [run_eq]
  constructor
  · rintro ⟨n, hn, hs⟩
    have : ¬ (names.all supported = true) := by
      intro ha
      rw [List.all_eq_true] at ha
      rw [ha n hn] at hs
      cases hs
    rw [if_neg this]
  · intro h
    split at h
    · cases h
    · rename_i hna
      simp only [List.all_eq_true, Classical.not_forall] at hna
      obtain ⟨n, hn, hs⟩ := hna
      exact ⟨n, hn, by simpa using hs⟩

/-! ### hex -/

theorem hexVal_hexDigit : ∀ n, n < 16 → hexVal (hexDigit n) = some n := by decide

theorem hexDecode_hexEncode (d : Bytes) (hb : ∀ b ∈ d, b < 256) :
    hexDecode (hexEncode d) = some d := by
  induction d with
  | nil => rfl
  | cons x rest ih =>
    have hx : x < 256 := hb x (List.mem_cons_self ..)
    have ih' := ih (fun b h => hb b (List.mem_cons_of_mem _ h))
    have e : hexEncode (x :: rest) = hexDigit (x / 16) :: hexDigit (x % 16) :: hexEncode rest := by
      simp [hexEncode]
    rw [e]
    unfold hexDecode
    rw [hexVal_hexDigit (x / 16) (by omega), hexVal_hexDigit (x % 16) (by omega), ih']
    have : x / 16 * 16 + x % 16 = x := by omega
    simp [this]

/-! ### the verifier -/

theorem verify_accept_iff (H : Digest) (alg hash data : Bytes) (hs : supported alg = true) :
    verify H alg hash data = .accept ↔ hexDecode hash = some (H alg data) := by
  unfold verify
  simp only [hs, Bool.not_true, Bool.false_eq_true, if_false]
  cases hexDecode hash with
  | none => simp
  | some want =>
    simp only [Option.some.injEq]
    constructor
    · intro h
      split at h
      · rename_i he; exact he.symm
      · cases h
    · intro h
      rw [if_pos h.symm]

theorem verify_unsupported (H : Digest) (alg hash data : Bytes) (hs : supported alg = false) :
    verify H alg hash data = .unsupported := by
  simp [verify, hs]

theorem verify_from_hasher (H : Digest) (path : Bytes) (h : Hasher) (data : Bytes)
    (hs : supported h.name = true) (hb : ∀ b ∈ H h.name h.fed, b < 256) :
    verify H h.name (fileHashFromHasher H path h).hash data = .accept ↔
      H h.name data = H h.name h.fed := by
  rw [verify_accept_iff H _ _ _ hs]
  show hexDecode (hexEncode (H h.name h.fed)) = _ ↔ _
  rw [hexDecode_hexEncode _ hb]
  simp only [Option.some.injEq]
  exact eq_comm

theorem bestChecksums_eq (a b : List Codec.FileHash) :
    bestChecksums a b = if a.isEmpty then b else a := by
  unfold bestChecksums
  cases a.isEmpty <;> rfl

end GoDebian.Lemmas.Hashio
