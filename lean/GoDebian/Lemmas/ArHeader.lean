/-
  Lemmas for C13, header side: a column written by `padTo` is read back by
  `Str.trimSpace` / `numField`; `parseEntry` on a line given as six columns and the
  trailer; `parseEntry (header m)` for a well-formed member.  Core Lean only.
-/
import GoDebian.Spec.Ar
import GoDebian.Lemmas.Str
import GoDebian.Lemmas.StrNum

namespace GoDebian.Lemmas.Ar
open GoDebian GoDebian.Str GoDebian.Ar GoDebian.Spec.Ar GoDebian.Lemmas.Str

/-! ### `spaceLen` in front of an ASCII byte

  Every byte but the first of the encoding of a white-space rune is ≥ 0x80, so a string
  that does not start with a white-space rune does not start with one after an ASCII byte
  (a blank, a slash) has been appended. -/

theorem spaceLen_blank (Y : Bytes) : spaceLen (32 :: Y) = 1 := by
  unfold spaceLen; rfl

theorem spaceLen_one (a b : Nat) (Y : Bytes) (hb : b < 128) (hb' : spaceLen [a] = 0) :
    spaceLen (a :: b :: Y) = 0 := by
  unfold spaceLen at hb' ⊢
  split <;> first
    | rfl
    | (exfalso; simp_all; done)
    | (exfalso; simp_all; omega)

theorem spaceLen_two (a a2 b : Nat) (Y : Bytes) (hb : b < 128) (hb' : spaceLen [a, a2] = 0) :
    spaceLen (a :: a2 :: b :: Y) = 0 := by
  unfold spaceLen at hb' ⊢
  split <;> first
    | rfl
    | (exfalso; simp_all; done)
    | (exfalso; simp_all; omega)
    | (rename_i heq; injection heq with h1 h2; injection h2 with h2 h3; injection h3 with h3 h4
       subst h3; rw [if_neg (by omega)])

theorem spaceLen_three (a a2 a3 : Nat) (X : Bytes) (hb' : spaceLen [a, a2, a3] = 0) :
    spaceLen (a :: a2 :: a3 :: X) = 0 := by
  unfold spaceLen at hb' ⊢
  split <;> first
    | rfl
    | (exfalso; simp_all; done)
    | (exfalso; simp_all; omega)
    | (rename_i heq; injection heq with h1 h2; injection h2 with h2 h3; injection h3 with h3 h4
       subst h1 h2 h3; simpa using hb')

theorem spaceLen_append_ascii {l : Bytes} (hne : l ≠ []) (h : spaceLen l = 0) {b : Nat}
    (hb : b < 128) (Y : Bytes) : spaceLen (l ++ b :: Y) = 0 := by
  match l, hne, h with
  | [a], _, h => exact spaceLen_one a b Y hb h
  | [a, a2], _, h => exact spaceLen_two a a2 b Y hb h
  | a :: a2 :: a3 :: l', _, h =>
    apply spaceLen_three
    apply Classical.byContradiction
    intro hk
    have := (spaceLen_append (l := [a, a2, a3]) rfl hk l').2
    simp only [List.cons_append, List.nil_append] at this
    rw [this] at h
    exact hk h

/-! ### trimming never lengthens -/

theorem trimLeftSpace_length_le (l : Bytes) : (trimLeftSpace l).length ≤ l.length := by
  suffices ∀ n (l : Bytes), l.length ≤ n → (trimLeftSpace l).length ≤ l.length from
    this _ l (Nat.le_refl _)
  intro n
  induction n with
  | zero =>
    intro l hl
    have : l = [] := List.length_eq_zero_iff.mp (by omega)
    subst this; exact Nat.le_refl _
  | succ n ih =>
    intro l hl
    by_cases hz : spaceLen l = 0
    · rw [trimLeftSpace_of_zero hz]; exact Nat.le_refl _
    · obtain ⟨hle, _⟩ := spaceLen_append rfl hz []
      rw [trimLeftSpace_step hz]
      have := ih (l.drop (spaceLen l)) (by simp only [List.length_drop]; omega)
      simp only [List.length_drop] at this
      omega

theorem trimLeftSpace_length_lt {l : Bytes} (hz : spaceLen l ≠ 0) :
    (trimLeftSpace l).length < l.length := by
  obtain ⟨hle, _⟩ := spaceLen_append rfl hz []
  rw [trimLeftSpace_step hz]
  have := trimLeftSpace_length_le (l.drop (spaceLen l))
  simp only [List.length_drop] at this
  omega

theorem trimRev_length_le (l : Bytes) : (trimRev l).length ≤ l.length := by
  suffices ∀ n (l : Bytes), l.length ≤ n → (trimRev l).length ≤ l.length from
    this _ l (Nat.le_refl _)
  intro n
  induction n with
  | zero =>
    intro l hl
    have : l = [] := List.length_eq_zero_iff.mp (by omega)
    subst this; exact Nat.le_refl _
  | succ n ih =>
    intro l hl
    by_cases hz : spaceLenRev l = 0
    · rw [trimRev_of_zero hz]; exact Nat.le_refl _
    · obtain ⟨hle, _⟩ := spaceLenRev_append rfl hz []
      rw [trimRev_step hz]
      have := ih (l.drop (spaceLenRev l)) (by simp only [List.length_drop]; omega)
      simp only [List.length_drop] at this
      omega

theorem trimRev_length_lt {l : Bytes} (hz : spaceLenRev l ≠ 0) :
    (trimRev l).length < l.length := by
  obtain ⟨hle, _⟩ := spaceLenRev_append rfl hz []
  rw [trimRev_step hz]
  have := trimRev_length_le (l.drop (spaceLenRev l))
  simp only [List.length_drop] at this
  omega

theorem trimRightSpace_length_le (l : Bytes) : (trimRightSpace l).length ≤ l.length := by
  rw [trimRightSpace_eq]
  have := trimRev_length_le l.reverse
  simpa using this

/-- A fixed point of `TrimSpace` neither starts nor ends with a white-space rune. -/
theorem trimmed_ends {b : Bytes} (h : trimSpace b = b) :
    spaceLen b = 0 ∧ spaceLenRev b.reverse = 0 := by
  have h0 : spaceLen b = 0 := by
    apply Classical.byContradiction
    intro hz
    have h1 := trimLeftSpace_length_lt hz
    have h2 := trimRightSpace_length_le (trimLeftSpace b)
    have : (trimSpace b).length = b.length := by rw [h]
    unfold trimSpace at this
    omega
  refine ⟨h0, ?_⟩
  apply Classical.byContradiction
  intro hz
  have h1 := trimRev_length_lt hz
  unfold trimSpace at h
  rw [trimLeftSpace_of_zero h0, trimRightSpace_eq] at h
  have : (trimRev b.reverse).reverse.length = b.length := by rw [h]
  simp only [List.length_reverse] at this h1
  omega

/-! ### columns -/

theorem padTo_length {n : Nat} {b : Bytes} (h : b.length ≤ n) : (padTo n b).length = n := by
  simp only [padTo, List.length_append, List.length_replicate]; omega

theorem trimLeftSpace_blanks (k : Nat) : trimLeftSpace (List.replicate k 32) = [] := by
  induction k with
  | zero => rfl
  | succ k ih =>
    rw [List.replicate_succ, trimLeftSpace_step (by rw [spaceLen_blank]; decide), spaceLen_blank]
    exact ih

/-- A left-justified, blank-padded column is read back by `TrimSpace`. -/
theorem trimSpace_padTo (n : Nat) {b : Bytes} (h : trimSpace b = b) :
    trimSpace (padTo n b) = b := by
  obtain ⟨h0, hr⟩ := trimmed_ends h
  unfold padTo trimSpace
  generalize n - b.length = k
  by_cases hb : b = []
  · subst hb
    rw [List.nil_append, trimLeftSpace_blanks]; rfl
  · have hz : spaceLen (b ++ List.replicate k 32) = 0 := by
      cases k with
      | zero => simpa using h0
      | succ k => rw [List.replicate_succ]; exact spaceLen_append_ascii hb h0 (by omega) _
    rw [trimLeftSpace_of_zero hz]
    exact trimRightSpace_append_of_spaces (trimLeftSpace_blanks k) hr

theorem plain_of_isDigit {c : Nat} (h : isDigit c = true) : Plain c := by
  have := isDigit_iff.mp h
  unfold Plain; omega

theorem trimSpace_fmtNat (v : Nat) : trimSpace (fmtNat v) = fmtNat v := by
  have := trimSpace_wrap (w1 := []) (w2 := []) (t := fmtNat v) rfl rfl (fmtNat_ne_nil v)
    (fun c hc => plain_of_isDigit (fmtNat_all v c hc))
  simpa using this

/-! ### numeric columns -/

theorem numField_blank (n : Nat) : numField (padTo n []) = .ok 0 := by
  unfold numField
  rw [trimSpace_padTo n (b := []) rfl]
  rfl

theorem numField_fmtNat (n v : Nat) (hv : v < 2 ^ 63) :
    numField (padTo n (fmtNat v)) = .ok (v : Int) := by
  unfold numField
  rw [trimSpace_padTo n (trimSpace_fmtNat v)]
  have hp := parseInt64_zeros_fmtNat 0 v hv
  simp only [List.replicate_zero, List.nil_append] at hp
  have hne : (fmtNat v).isEmpty = false := by
    cases hf : fmtNat v with
    | nil => exact absurd hf (fmtNat_ne_nil v)
    | cons _ _ => rfl
  simp only [hne, hp]
  rfl

theorem natDigitsAux_length_ge (fuel n : Nat) (acc : Bytes) :
    acc.length ≤ (natDigitsAux fuel n acc).length := by
  induction fuel generalizing n acc with
  | zero => exact Nat.le_refl _
  | succ fuel ih =>
    unfold natDigitsAux
    split
    · simp
    · have := ih (n / 10) ((48 + n % 10) :: acc)
      simp only [List.length_cons] at this
      omega

theorem natDigitsAux_lt_pow (fuel n : Nat) (acc : Bytes) (k : Nat) (hn : n < fuel)
    (h : (natDigitsAux fuel n acc).length ≤ acc.length + k) : n < 10 ^ k := by
  induction fuel generalizing n acc k with
  | zero => omega
  | succ fuel ih =>
    unfold natDigitsAux at h
    split at h
    · rename_i h10
      simp only [List.length_cons] at h
      cases k with
      | zero => omega
      | succ k =>
        have : 0 < 10 ^ k := Nat.pow_pos (by omega)
        rw [Nat.pow_succ]; omega
    · rename_i h10
      have hge := natDigitsAux_length_ge fuel (n / 10) ((48 + n % 10) :: acc)
      simp only [List.length_cons] at hge
      cases k with
      | zero => omega
      | succ k =>
        have := ih (n / 10) ((48 + n % 10) :: acc) k (by omega)
          (by simp only [List.length_cons]; omega)
        rw [Nat.pow_succ]; omega

/-- A number written in at most `k` digits is below `10 ^ k`. -/
theorem fmtNat_lt_pow {v k : Nat} (h : (fmtNat v).length ≤ k) : v < 10 ^ k :=
  natDigitsAux_lt_pow (v + 1) v [] k (by omega) (by simpa [fmtNat] using h)

theorem numField_numCol (n : Nat) (o : Option Nat) (k : Nat) (hk : k ≤ 18)
    (h : (fmtNat (o.getD 0)).length ≤ k) :
    numField (numCol n o) = .ok ((o.getD 0 : Nat) : Int) := by
  cases o with
  | none => exact numField_blank n
  | some v =>
    have h1 : v < 10 ^ k := fmtNat_lt_pow h
    have h2 : 10 ^ k ≤ 10 ^ 18 := Nat.pow_le_pow_right (by omega) hk
    exact numField_fmtNat n v (by omega)

theorem numCol_length {n : Nat} {o : Option Nat} (h : (fmtNat (o.getD 0)).length ≤ n) :
    (numCol n o).length = n := by
  cases o with
  | none => exact padTo_length (Nat.zero_le _)
  | some v => exact padTo_length h

/-! ### `parseEntry` by columns -/

theorem col_eq (A C B : Bytes) {a n : Nat} (ha : A.length = a) (hc : C.length = n) :
    ((A ++ C ++ B).drop a).take n = C := by
  subst ha hc
  rw [List.append_assoc, List.drop_left, List.take_left]

theorem parseEntry_cols (c1 c2 c3 c4 c5 c6 : Bytes) (off : Nat)
    (h1 : c1.length = 16) (h2 : c2.length = 12) (h3 : c3.length = 6) (h4 : c4.length = 6)
    (h5 : c5.length = 8) (h6 : c6.length = 10) {ts uid gid size : Int}
    (n2 : numField c2 = .ok ts) (n3 : numField c3 = .ok uid) (n4 : numField c4 = .ok gid)
    (n6 : numField c6 = .ok size) :
    parseEntry (c1 ++ c2 ++ c3 ++ c4 ++ c5 ++ c6 ++ [96, 10]) off =
      .ok { name := trimSuffix (trimSpace c1) [47], timestamp := ts, ownerID := uid,
            groupID := gid, fileMode := trimSpace c5, size := size,
            hdrOff := off, dataOff := off + 60 } := by
  have e1 : ((c1 ++ c2 ++ c3 ++ c4 ++ c5 ++ c6 ++ [96, 10]).drop 0).take (16 - 0) = c1 := by
    have := col_eq [] c1 (c2 ++ c3 ++ c4 ++ c5 ++ c6 ++ [96, 10]) (a := 0) (n := 16 - 0) rfl h1
    simpa [List.append_assoc] using this
  have e2 : ((c1 ++ c2 ++ c3 ++ c4 ++ c5 ++ c6 ++ [96, 10]).drop 16).take (28 - 16) = c2 := by
    have := col_eq c1 c2 (c3 ++ c4 ++ c5 ++ c6 ++ [96, 10]) (a := 16) (n := 28 - 16) h1 (by omega)
    simpa [List.append_assoc] using this
  have e3 : ((c1 ++ c2 ++ c3 ++ c4 ++ c5 ++ c6 ++ [96, 10]).drop 28).take (34 - 28) = c3 := by
    have := col_eq (c1 ++ c2) c3 (c4 ++ c5 ++ c6 ++ [96, 10]) (a := 28) (n := 34 - 28)
      (by simp [h1, h2]) (by omega)
    simpa [List.append_assoc] using this
  have e4 : ((c1 ++ c2 ++ c3 ++ c4 ++ c5 ++ c6 ++ [96, 10]).drop 34).take (40 - 34) = c4 := by
    have := col_eq (c1 ++ c2 ++ c3) c4 (c5 ++ c6 ++ [96, 10]) (a := 34) (n := 40 - 34)
      (by simp [h1, h2, h3]) (by omega)
    simpa [List.append_assoc] using this
  have e5 : ((c1 ++ c2 ++ c3 ++ c4 ++ c5 ++ c6 ++ [96, 10]).drop 40).take (48 - 40) = c5 := by
    have := col_eq (c1 ++ c2 ++ c3 ++ c4) c5 (c6 ++ [96, 10]) (a := 40) (n := 48 - 40)
      (by simp [h1, h2, h3, h4]) (by omega)
    simpa [List.append_assoc] using this
  have e6 : ((c1 ++ c2 ++ c3 ++ c4 ++ c5 ++ c6 ++ [96, 10]).drop 48).take (58 - 48) = c6 := by
    have := col_eq (c1 ++ c2 ++ c3 ++ c4 ++ c5) c6 [96, 10] (a := 48) (n := 58 - 48)
      (by simp [h1, h2, h3, h4, h5]) (by omega)
    simpa [List.append_assoc] using this
  have hlen : (c1 ++ c2 ++ c3 ++ c4 ++ c5 ++ c6 ++ [96, 10]).length = 60 := by
    simp [h1, h2, h3, h4, h5, h6]
  have hpre : (c1 ++ c2 ++ c3 ++ c4 ++ c5 ++ c6).length = 58 := by
    simp [h1, h2, h3, h4, h5, h6]
  have g58 : (c1 ++ c2 ++ c3 ++ c4 ++ c5 ++ c6 ++ [96, 10]).getD 58 0 = 96 := by
    rw [List.getD_eq_getElem?_getD, List.getElem?_append_right (by omega), hpre]; rfl
  have g59 : (c1 ++ c2 ++ c3 ++ c4 ++ c5 ++ c6 ++ [96, 10]).getD 59 0 = 10 := by
    rw [List.getD_eq_getElem?_getD, List.getElem?_append_right (by omega), hpre]; rfl
  unfold parseEntry
  rw [if_neg (by omega), if_neg (by omega)]
  simp only [e1, e2, e3, e4, e5, e6, n2, n3, n4, n6]

end GoDebian.Lemmas.Ar
