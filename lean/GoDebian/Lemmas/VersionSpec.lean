/-
  Lemmas about the specification `Spec.Version`: fuel independence of `lexCmp` and
  `cmpN`, their presentation as lexicographic (`Ordering.then`) combinations, and the
  total-preorder laws of `cmp` and `Spec.Version.compare`.  Core Lean only.
-/
import GoDebian.Spec.Version
import GoDebian.Lemmas.VersionOrd

namespace GoDebian.Lemmas.Version
open GoDebian
open GoDebian.Spec.Version (isDigit weight weightAt lexCmp natVal cmpN cmp ordInt)

/-! ### The four parts of a component: non-digit prefix, its remainder, digit run, rest -/

/-- initial non-digit part -/
def P (a : List Nat) : List Nat := a.takeWhile (fun c => !isDigit c)
/-- what follows the non-digit part -/
def Q (a : List Nat) : List Nat := a.dropWhile (fun c => !isDigit c)
/-- the digit run after the non-digit part -/
def D (a : List Nat) : List Nat := (Q a).takeWhile isDigit
/-- what is left for the next round -/
def R (a : List Nat) : List Nat := (Q a).dropWhile isDigit

theorem length_dropWhile_le (p : Nat → Bool) (l : List Nat) :
    (l.dropWhile p).length ≤ l.length := by
  induction l with
  | nil => simp
  | cons c l ih => simp only [List.dropWhile_cons]; split <;> simp <;> omega

theorem length_takeWhile_le (p : Nat → Bool) (l : List Nat) :
    (l.takeWhile p).length ≤ l.length := by
  induction l with
  | nil => simp
  | cons c l ih => simp only [List.takeWhile_cons]; split <;> simp <;> omega

theorem P_length_le (a : List Nat) : (P a).length ≤ a.length := length_takeWhile_le _ _
theorem Q_length_le (a : List Nat) : (Q a).length ≤ a.length := length_dropWhile_le _ _
theorem R_length_le (a : List Nat) : (R a).length ≤ a.length :=
  Nat.le_trans (length_dropWhile_le _ _) (Q_length_le a)

@[simp] theorem P_nil : P [] = [] := rfl
@[simp] theorem Q_nil : Q [] = [] := rfl
@[simp] theorem D_nil : D [] = [] := rfl
@[simp] theorem R_nil : R [] = [] := rfl

theorem Q_eq (a : List Nat) : Q a = D a ++ R a := by
  simp [D, R, List.takeWhile_append_dropWhile]

/-- every round consumes at least one byte of a non-empty string -/
theorem R_length_lt (a : List Nat) (h : a ≠ []) : (R a).length < a.length := by
  cases a with
  | nil => exact absurd rfl h
  | cons c a' =>
    by_cases hc : isDigit c = true
    · have hq : Q (c :: a') = c :: a' := by simp [Q, hc]
      have : R (c :: a') = a'.dropWhile isDigit := by simp [R, hq, hc]
      rw [this]
      have := length_dropWhile_le isDigit a'
      simp; omega
    · have hq : Q (c :: a') = Q a' := by simp [Q, hc]
      have : R (c :: a') = R a' := by simp [R, hq]
      rw [this]
      have := R_length_le a'
      simp; omega

/-! ### `lexCmp` -/

@[simp] theorem lexCmp_nil (n : Nat) : lexCmp n [] [] = .eq := by
  cases n <;> simp [lexCmp]

theorem lexCmp_succ (n : Nat) (a b : List Nat) :
    lexCmp (n+1) a b = (compare (weightAt a) (weightAt b)).then (lexCmp n a.tail b.tail) := by
  by_cases h : (a.isEmpty && b.isEmpty) = true
  · simp only [Bool.and_eq_true, List.isEmpty_iff] at h
    obtain ⟨rfl, rfl⟩ := h
    simp [weightAt]
  · simp only [lexCmp, h]
    cases compare (weightAt a) (weightAt b) <;> rfl

theorem lexCmp_laws (n : Nat) : Laws (lexCmp n) := by
  induction n with
  | zero =>
    have : lexCmp 0 = fun _ _ => Ordering.eq := by funext a b; rfl
    rw [this]; exact Laws.const_eq
  | succ n ih =>
    have : lexCmp (n+1) = fun a b =>
        (compare (weightAt a) (weightAt b)).then (lexCmp n a.tail b.tail) := by
      funext a b; exact lexCmp_succ n a b
    rw [this]
    exact (Laws.int.comap weightAt).andThen (ih.comap List.tail)

theorem lexCmp_fuel_succ (n : Nat) (a b : List Nat) (ha : a.length ≤ n) (hb : b.length ≤ n) :
    lexCmp (n+1) a b = lexCmp n a b := by
  induction n generalizing a b with
  | zero =>
    have ha' : a = [] := List.length_eq_zero_iff.mp (by omega)
    have hb' : b = [] := List.length_eq_zero_iff.mp (by omega)
    subst ha' hb'; simp
  | succ n ih =>
    have h1 : a.tail.length ≤ n := by rw [List.length_tail]; omega
    have h2 : b.tail.length ≤ n := by rw [List.length_tail]; omega
    rw [lexCmp_succ (n+1) a b, lexCmp_succ n a b, ih _ _ h1 h2]

theorem lexCmp_fuel_add (n k : Nat) (a b : List Nat) (ha : a.length ≤ n) (hb : b.length ≤ n) :
    lexCmp (n+k) a b = lexCmp n a b := by
  induction k with
  | zero => rfl
  | succ k ih => rw [← Nat.add_assoc, lexCmp_fuel_succ _ _ _ (by omega) (by omega), ih]

theorem lexCmp_fuel (n m : Nat) (a b : List Nat) (ha : a.length ≤ n) (hb : b.length ≤ n)
    (ha' : a.length ≤ m) (hb' : b.length ≤ m) : lexCmp n a b = lexCmp m a b := by
  rcases Nat.le_total n m with h | h
  · obtain ⟨k, rfl⟩ := Nat.exists_eq_add_of_le h
    exact (lexCmp_fuel_add n k a b ha hb).symm
  · obtain ⟨k, rfl⟩ := Nat.exists_eq_add_of_le h
    exact lexCmp_fuel_add m k a b ha' hb'

/-! ### `cmpN` -/

@[simp] theorem cmpN_nil (n : Nat) : cmpN n [] [] = .eq := by
  cases n <;> simp [cmpN]

theorem cmpN_succ (n : Nat) (a b : List Nat) :
    cmpN (n+1) a b =
      (lexCmp ((P a).length + (P b).length + 1) (P a) (P b)).then
        ((compare (natVal (D a)) (natVal (D b))).then (cmpN n (R a) (R b))) := by
  by_cases h : (a.isEmpty && b.isEmpty) = true
  · simp only [Bool.and_eq_true, List.isEmpty_iff] at h
    obtain ⟨rfl, rfl⟩ := h
    simp [natVal]
  · simp only [cmpN, h]
    show (match lexCmp ((P a).length + (P b).length + 1) (P a) (P b) with
      | .eq => (match compare (natVal (D a)) (natVal (D b)) with
          | .eq => cmpN n (R a) (R b)
          | o => o)
      | o => o) = _
    cases lexCmp ((P a).length + (P b).length + 1) (P a) (P b) <;>
      cases compare (natVal (D a)) (natVal (D b)) <;> rfl

/-- `cmpN` with the inner fuel made uniform, so that it is visibly a lexicographic
    combination of pulled-back comparators. -/
def cmpU (N : Nat) : Nat → List Nat → List Nat → Ordering
  | 0, _, _ => .eq
  | n+1, a, b =>
    (lexCmp N (P a) (P b)).then
      ((compare (natVal (D a)) (natVal (D b))).then (cmpU N n (R a) (R b)))

theorem cmpU_laws (N n : Nat) : Laws (cmpU N n) := by
  induction n with
  | zero =>
    have : cmpU N 0 = fun _ _ => Ordering.eq := by funext a b; rfl
    rw [this]; exact Laws.const_eq
  | succ n ih =>
    have : cmpU N (n+1) = fun a b => (lexCmp N (P a) (P b)).then
        ((compare (natVal (D a)) (natVal (D b))).then (cmpU N n (R a) (R b))) := by
      funext a b; rfl
    rw [this]
    exact ((lexCmp_laws N).comap P).andThen
      ((Laws.nat.comap (fun a => natVal (D a))).andThen (ih.comap R))

theorem cmpN_eq_cmpU (N n : Nat) (a b : List Nat)
    (haN : a.length ≤ N) (hbN : b.length ≤ N) (ha : a.length ≤ n) (hb : b.length ≤ n) :
    cmpN n a b = cmpU N n a b := by
  induction n generalizing a b with
  | zero => rfl
  | succ n ih =>
    have hPa := P_length_le a
    have hPb := P_length_le b
    have hRa := R_length_le a
    have hRb := R_length_le b
    have hRa' : (R a).length ≤ n := by
      by_cases h : a = []
      · subst h; simp
      · have := R_length_lt a h; omega
    have hRb' : (R b).length ≤ n := by
      by_cases h : b = []
      · subst h; simp
      · have := R_length_lt b h; omega
    rw [cmpN_succ, cmpU, ih (R a) (R b) (by omega) (by omega) hRa' hRb',
      lexCmp_fuel _ N (P a) (P b) (by omega) (by omega) (by omega) (by omega)]

@[simp] theorem cmpU_nil (M n : Nat) : cmpU M n [] [] = .eq := by
  induction n with
  | zero => rfl
  | succ n ih => simp [cmpU, natVal, ih]

theorem cmpU_fuel (M n m : Nat) (a b : List Nat) (ha : a.length ≤ n) (hb : b.length ≤ n)
    (ha' : a.length ≤ m) (hb' : b.length ≤ m) : cmpU M n a b = cmpU M m a b := by
  induction n generalizing a b m with
  | zero =>
    have ha0 : a = [] := List.length_eq_zero_iff.mp (by omega)
    have hb0 : b = [] := List.length_eq_zero_iff.mp (by omega)
    subst ha0 hb0; simp
  | succ n ih =>
    cases m with
    | zero =>
      have ha0 : a = [] := List.length_eq_zero_iff.mp (by omega)
      have hb0 : b = [] := List.length_eq_zero_iff.mp (by omega)
      subst ha0 hb0; simp
    | succ m =>
      have hRa' : (R a).length ≤ n ∧ (R a).length ≤ m := by
        by_cases h : a = []
        · subst h; simp
        · have := R_length_lt a h; omega
      have hRb' : (R b).length ≤ n ∧ (R b).length ≤ m := by
        by_cases h : b = []
        · subst h; simp
        · have := R_length_lt b h; omega
      simp only [cmpU]
      rw [ih m (R a) (R b) hRa'.1 hRb'.1 hRa'.2 hRb'.2]

theorem cmp_eq_cmpU (N : Nat) (a b : List Nat) (ha : a.length ≤ N) (hb : b.length ≤ N) :
    cmp a b = cmpU N N a b := by
  unfold cmp
  rw [cmpN_eq_cmpU N _ a b ha hb (by omega) (by omega)]
  exact cmpU_fuel N _ N a b (by omega) (by omega) ha hb

theorem cmp_laws : Laws cmp where
  refl a := by
    rw [cmp_eq_cmpU a.length a a (by omega) (by omega)]; exact (cmpU_laws _ _).refl a
  swap a b := by
    rw [cmp_eq_cmpU (a.length + b.length) a b (by omega) (by omega),
      cmp_eq_cmpU (a.length + b.length) b a (by omega) (by omega)]
    exact (cmpU_laws _ _).swap a b
  lt_trans a b c := by
    rw [cmp_eq_cmpU (a.length + b.length + c.length) a b (by omega) (by omega),
      cmp_eq_cmpU (a.length + b.length + c.length) b c (by omega) (by omega),
      cmp_eq_cmpU (a.length + b.length + c.length) a c (by omega) (by omega)]
    exact (cmpU_laws _ _).lt_trans a b c
  congr a b c := by
    rw [cmp_eq_cmpU (a.length + b.length + c.length) a b (by omega) (by omega),
      cmp_eq_cmpU (a.length + b.length + c.length) b c (by omega) (by omega),
      cmp_eq_cmpU (a.length + b.length + c.length) a c (by omega) (by omega)]
    exact (cmpU_laws _ _).congr a b c

/-- fuel independence of the specification's component order -/
theorem cmpN_fuel (n : Nat) (a b : List Nat) (ha : a.length ≤ n) (hb : b.length ≤ n) :
    cmpN n a b = cmp a b := by
  rw [cmp_eq_cmpU n a b ha hb, cmpN_eq_cmpU n n a b ha hb ha hb]

theorem specCompare_eq (x y : GoDebian.Version.Version) :
    Spec.Version.compare x y =
      (compare x.epoch y.epoch).then
        ((cmp x.upstream y.upstream).then (cmp x.revision y.revision)) := by
  unfold Spec.Version.compare
  cases compare x.epoch y.epoch <;> cases cmp x.upstream y.upstream <;> rfl

theorem specCompare_laws : Laws Spec.Version.compare := by
  have : Spec.Version.compare = fun x y =>
      (compare x.epoch y.epoch).then
        ((cmp x.upstream y.upstream).then (cmp x.revision y.revision)) := by
    funext x y; exact specCompare_eq x y
  rw [this]
  exact (Laws.nat.comap GoDebian.Version.Version.epoch).andThen
    ((cmp_laws.comap GoDebian.Version.Version.upstream).andThen
      (cmp_laws.comap GoDebian.Version.Version.revision))

end GoDebian.Lemmas.Version
