/-
  C09 lemmas, part 5: decoding what was marshalled — scalars, lists, fields, records.
-/
import GoDebian.Model.Codec
import GoDebian.Spec.Codec
import GoDebian.Lemmas.CodecConvert
import GoDebian.Lemmas.CodecMarshal
import GoDebian.Lemmas.CodecStr
import GoDebian.Lemmas.ChangelogStr

namespace GoDebian.Lemmas.Codec
open GoDebian GoDebian.Deb822 GoDebian.Codec GoDebian.Spec.Codec
open GoDebian.Lemmas.Changelog (HeadOK LastOK trimSet_of_ends trimSet_cons_mem joinWith_ends)

/-! ### scalars -/

theorem isEmpty_false_of_ne {α : Type} {l : List α} (h : l ≠ []) : l.isEmpty = false := by
  cases l with
  | nil => exact absurd rfl h
  | cons => rfl

theorem scalar_roundtrip {md : Bool} {k : Kind} {v : Val} (hw : wfScalar md k v)
    {n m : Nat} {delim strip : Bytes} {old : Val} {d : Bytes}
    (hm : marshalValue (n+1) k delim v = .ok d) (hd : d ≠ [] ∨ md = true) :
    ∃ v', decodeValue (m+1) k delim strip old d = .ok v' ∧
      canonScalar k v' = canonScalar k v := by
  cases k with
  | str =>
    cases v with
    | str b =>
      simp only [marshalValue, Except.ok.injEq] at hm
      subst hm
      exact ⟨.str b, by simp [decodeValue], rfl⟩
    | zero =>
      simp only [marshalValue, Except.ok.injEq] at hm
      subst hm
      exact ⟨.str [], by simp [decodeValue], rfl⟩
    | _ => simp [wfScalar] at hw
  | int =>
    cases v with
    | int i =>
      simp only [wfScalar] at hw
      simp only [marshalValue, Except.ok.injEq] at hm
      subst hm
      refine ⟨.int i, ?_, rfl⟩
      simp [decodeValue, isEmpty_false_of_ne (fmtInt_ne_nil i), parseInt64_fmtInt hw.1 hw.2]
    | zero =>
      simp only [marshalValue, Except.ok.injEq] at hm
      subst hm
      exact ⟨.int 0, rfl, rfl⟩
    | _ => simp [wfScalar] at hw
  | uint =>
    cases v with
    | uint u =>
      simp only [wfScalar] at hw
      simp only [marshalValue, Except.ok.injEq] at hm
      subst hm
      refine ⟨.uint u, ?_, rfl⟩
      simp [decodeValue, isEmpty_false_of_ne (Lemmas.Str.fmtNat_ne_nil u), fmtNat_all_digits,
        Lemmas.Str.digitsVal_fmtNat, hw]
    | zero =>
      simp only [marshalValue, Except.ok.injEq] at hm
      subst hm
      exact ⟨.uint 0, rfl, rfl⟩
    | _ => simp [wfScalar] at hw
  | bool =>
    cases v with
    | bool b =>
      cases b
      · simp only [marshalValue, Except.ok.injEq] at hm
        subst hm
        exact ⟨.bool false, by simp [decodeValue], rfl⟩
      · simp only [marshalValue, Except.ok.injEq] at hm
        subst hm
        exact ⟨.bool true, by simp [decodeValue], rfl⟩
    | zero =>
      simp only [marshalValue, Except.ok.injEq] at hm
      subst hm
      exact ⟨.bool false, by simp [decodeValue], rfl⟩
    | _ => simp [wfScalar] at hw
  | custom typ =>
    cases v with
    | custom c =>
      simp only [wfScalar, wfCustom] at hw
      obtain ⟨d0, henc, _, hdec⟩ := hw
      simp only [marshalValue] at hm
      rw [henc] at hm
      cases hm
      exact ⟨.custom c, by simp [decodeValue, hdec hd, Except.map], rfl⟩
    | zero =>
      simp only [wfScalar, wfCustom] at hw
      obtain ⟨c, hz, d0, henc, _, hdec⟩ := hw
      simp only [marshalValue, hz] at hm
      rw [henc] at hm
      cases hm
      exact ⟨.custom c, by simp [decodeValue, hdec hd, Except.map], by simp [canonScalar, hz]⟩
    | _ => simp [wfScalar] at hw
  | _ => cases v <;> simp [wfScalar] at hw

theorem scalar_omit {md : Bool} {k : Kind} {v : Val} (hw : wfScalar md k v)
    {n : Nat} {delim : Bytes} (hm : marshalValue (n+1) k delim v = .ok []) :
    canonScalar k v = canonScalar k .zero := by
  cases k with
  | str =>
    cases v with
    | str b =>
      simp only [marshalValue, Except.ok.injEq] at hm
      subst hm; rfl
    | zero => rfl
    | _ => simp [wfScalar] at hw
  | int =>
    cases v with
    | int i =>
      simp only [marshalValue, Except.ok.injEq] at hm
      exact absurd hm (fmtInt_ne_nil i)
    | zero => rfl
    | _ => simp [wfScalar] at hw
  | uint =>
    cases v with
    | uint u =>
      simp only [marshalValue, Except.ok.injEq] at hm
      exact absurd hm (Lemmas.Str.fmtNat_ne_nil u)
    | zero => rfl
    | _ => simp [wfScalar] at hw
  | bool =>
    cases v with
    | bool b => cases b <;> simp [marshalValue] at hm
    | zero => rfl
    | _ => simp [wfScalar] at hw
  | custom typ =>
    cases v with
    | custom c =>
      simp only [wfScalar, wfCustom] at hw
      obtain ⟨d0, henc, hzero, _⟩ := hw
      simp only [marshalValue] at hm
      rw [henc] at hm
      cases hm
      simp [canonScalar, hzero rfl]
    | zero => rfl
    | _ => simp [wfScalar] at hw
  | _ => cases v <;> simp [wfScalar] at hw

/-! ### lists -/

theorem delimOf_ne_nil (delim : Bytes) : delimOf delim ≠ [] := by
  unfold delimOf
  split
  · simp
  · rename_i h; simpa using h

theorem decodeValue_slice (n : Nat) (e : Kind) (delim strip value : Bytes)
    (hne : Str.trimSet strip value ≠ []) :
    decodeValue (n+1) (.slice e) delim strip .zero value =
      (mapRes (fun el => decodeValue n e delim strip .zero (Str.trimSet strip el))
        (if delimOf delim = [32] then Str.fields (Str.trimSet strip value)
         else Str.split (delimOf delim) (Str.trimSet strip value))).map .list := by
  rw [decodeValue.eq_def]
  simp only [isEmpty_false_of_ne hne, Bool.false_eq_true, if_false, foldlM_collect]
  have key : ∀ X : Res (List Val),
      Except.map Val.list (Except.map (fun bs => [] ++ bs) X) = Except.map Val.list X := by
    intro X; cases X <;> rfl
  exact key _

theorem decodeValue_slice_empty (n : Nat) (e : Kind) (delim strip value : Bytes) (old : Val)
    (h : Str.trimSet strip value = []) :
    decodeValue (n+1) (.slice e) delim strip old value = .ok .zero := by
  rw [decodeValue.eq_def]
  simp only [h, List.isEmpty_nil, if_true]

theorem trimSet_all_mem {strip pre : Bytes} (h : ∀ c ∈ pre, strip.contains c = true) :
    Str.trimSet strip pre = [] := by
  induction pre with
  | nil => rfl
  | cons c pre ih =>
    rw [trimSet_cons_mem _ (h c List.mem_cons_self)]
    exact ih (fun c hc => h c (List.mem_cons_of_mem _ hc))

theorem trimSet_prefix {strip pre : Bytes} (h : ∀ c ∈ pre, strip.contains c = true) (x : Bytes) :
    Str.trimSet strip (pre ++ x) = Str.trimSet strip x := by
  induction pre with
  | nil => rfl
  | cons c pre ih =>
    rw [List.cons_append, trimSet_cons_mem _ (h c List.mem_cons_self)]
    exact ih (fun c hc => h c (List.mem_cons_of_mem _ hc))

/-- what `elemOK` says, as propositions -/
theorem elemOK_spec {delim strip d : Bytes} (h : elemOK delim strip d = true) :
    d ≠ [] ∧ (delimOf delim = [32] → Str.hasSpaceRune d = false) ∧
      (delimOf delim ≠ [32] → SepOK (delimOf delim) d) ∧ HeadOK strip d ∧ LastOK strip d := by
  simp only [elemOK, Bool.and_eq_true, Bool.not_eq_eq_eq_not, Bool.not_true,
    List.isEmpty_eq_false_iff] at h
  obtain ⟨⟨⟨h1, h2⟩, h3⟩, h4⟩ := h
  refine ⟨h1, fun hd => ?_, fun hd => ?_, fun c hc => ?_, fun c hc => ?_⟩
  · rw [if_pos hd] at h2; simpa using h2
  · rw [if_neg hd] at h2; simpa [SepOK] using h2
  · rw [hc] at h3; simpa using h3
  · rw [hc] at h4; simpa using h4

theorem elems_roundtrip {e : Kind} {delim strip : Bytes} {vs : List Val} {ds : List Bytes}
    (h : All₂ (fun x d => marshalValue 15 e delim x = .ok d) vs ds)
    (hw : ∀ x ∈ vs, wfScalar true e x ∧
      ∃ d, marshalValue 15 e delim x = .ok d ∧ elemOK delim strip d = true) :
    ∃ vs', mapRes (fun el => decodeValue 15 e delim strip .zero (Str.trimSet strip el)) ds = .ok vs' ∧
      vs'.map (canonScalar e) = vs.map (canonScalar e) := by
  induction h with
  | nil => exact ⟨[], rfl, rfl⟩
  | @cons x d vs ds hxd _ ih =>
    obtain ⟨hwx, d', hd', hok⟩ := hw x List.mem_cons_self
    rw [hxd] at hd'
    cases hd'
    obtain ⟨hne, _, _, hh, hl⟩ := elemOK_spec hok
    obtain ⟨vs', hvs', hc⟩ := ih (fun y hy => hw y (List.mem_cons_of_mem _ hy))
    obtain ⟨x', hx', hcx⟩ := scalar_roundtrip (m := 14) (strip := strip) (old := .zero) hwx hxd
      (Or.inl hne)
    refine ⟨x' :: vs', ?_, by simp [hcx, hc]⟩
    have : decodeValue 15 e delim strip .zero (Str.trimSet strip d) = .ok x' := by
      rw [trimSet_of_ends hh hl]; exact hx'
    rw [mapRes_cons_ok
      (g := fun el => decodeValue 15 e delim strip .zero (Str.trimSet strip el)) this, hvs']
    rfl

theorem slice_roundtrip {e : Kind} {delim strip : Bytes} {vs : List Val}
    (hw : ∀ x ∈ vs, wfScalar true e x ∧
      ∃ d, marshalValue 15 e delim x = .ok d ∧ elemOK delim strip d = true)
    {data : Bytes} (hm : marshalValue 16 (.slice e) delim (.list vs) = .ok data)
    (pre : Bytes) (hpre : ∀ c ∈ pre, strip.contains c = true) :
    (∃ v', decodeValue 16 (.slice e) delim strip .zero (pre ++ data) = .ok v' ∧
      canon (.slice e) v' = canon (.slice e) (.list vs)) ∧ (data = [] → vs = []) := by
  rw [marshalValue_slice] at hm
  cases hds : mapRes (fun v => marshalValue 15 e delim v) vs with
  | error er => rw [hds] at hm; cases hm
  | ok ds =>
    rw [hds] at hm
    simp only [Except.map, Except.ok.injEq] at hm
    have hall := mapRes_ok hds
    have hlen := all₂_length hall
    have hdsok : ∀ d ∈ ds, elemOK delim strip d = true := by
      intro d hd
      obtain ⟨x, hx, hxd⟩ := all₂_mem_right hall hd
      obtain ⟨_, d', hd', hok⟩ := hw x hx
      rw [hxd] at hd'
      cases hd'
      exact hok
    cases hvs : vs with
    | nil =>
      subst hvs
      have : ds = [] := by cases ds with | nil => rfl | cons => simp at hlen
      subst this
      have hdata : data = [] := by rw [← hm]; rfl
      subst hdata
      refine ⟨⟨.zero, ?_, rfl⟩, fun _ => rfl⟩
      rw [List.append_nil]
      exact decodeValue_slice_empty _ _ _ _ _ _ (trimSet_all_mem hpre)
    | cons x0 vs0 =>
      have hdsne : ds ≠ [] := by
        intro h0; subst h0; rw [hvs] at hlen; simp at hlen
      have hends := joinWith_ends (cs := strip) (sep := delimOf delim) hdsne (fun d hd =>
        let h := elemOK_spec (hdsok d hd); ⟨h.1, h.2.2.2.1, h.2.2.2.2⟩)
      have hdata : data = Str.joinWith (delimOf delim) ds := by rw [← hm]; rfl
      have htrim : Str.trimSet strip (pre ++ data) = data := by
        rw [trimSet_prefix hpre, hdata]
        exact trimSet_of_ends hends.2.1 hends.2.2
      have hne : data ≠ [] := by rw [hdata]; exact hends.1
      refine ⟨?_, fun h0 => absurd h0 hne⟩
      rw [decodeValue_slice _ _ _ _ _ (by rw [htrim]; exact hne), htrim]
      have hels : (if delimOf delim = [32] then Str.fields data
          else Str.split (delimOf delim) data) = ds := by
        by_cases hb : delimOf delim = [32]
        · rw [if_pos hb, hdata, hb]
          exact fields_joinWith hdsne (fun d hd =>
            let h := elemOK_spec (hdsok d hd); ⟨h.1, h.2.1 hb⟩)
        · rw [if_neg hb, hdata]
          exact split_joinWith_sep (delimOf_ne_nil delim) hdsne (fun d hd =>
            (elemOK_spec (hdsok d hd)).2.2.1 hb)
      rw [hels]
      obtain ⟨vs', hvs', hc⟩ := elems_roundtrip hall hw
      rw [hvs']
      refine ⟨.list vs', rfl, ?_⟩
      rw [← hvs]
      simp [canon, hc]

/-! ### fields -/

theorem canon_of_scalar {k : Kind} (hk : scalarKind k = true) (v : Val) :
    canon k v = canonScalar k v := by
  cases k <;> first | rfl | simp [scalarKind] at hk

theorem field_roundtrip {f : FieldDesc} (hf : flatField f = true) {v : Val} (hw : wfVal f v)
    {data : Bytes} (hm : marshalValue 16 f.kind f.delim v = .ok data) :
    ((data.isEmpty && !f.required) = false →
      ∃ v', decodeValue 16 f.kind f.delim f.strip .zero
          (if f.multiline then 10 :: data else data) = .ok v' ∧
        canon f.kind v' = canon f.kind v) ∧
    (data = [] → f.required = false → canon f.kind v = canon f.kind .zero) := by
  simp only [flatField, Bool.and_eq_true, Bool.not_eq_eq_eq_not, Bool.not_true, bne_iff_ne, ne_eq,
    Bool.or_eq_true] at hf
  obtain ⟨⟨⟨_, _⟩, hkind⟩, hml⟩ := hf
  cases hk : f.kind with
  | slice e =>
    rw [hk] at hm hkind
    have he : scalarKind e = true := hkind
    have hpre : ∀ c ∈ (if f.multiline then [10] else ([] : Bytes)), f.strip.contains c = true := by
      intro c hc
      by_cases hmm : f.multiline = true
      · rw [if_pos hmm] at hc
        rcases hml with hml | hml
        · rw [hmm] at hml; cases hml
        · simp only [List.mem_singleton] at hc
          subst hc
          exact hml.2
      · rw [if_neg hmm] at hc; cases hc
    have hval : (if f.multiline then 10 :: data else data) =
        (if f.multiline then [10] else ([] : Bytes)) ++ data := by
      by_cases hmm : f.multiline = true <;> simp [hmm]
    unfold wfVal at hw
    rw [hk] at hw
    cases v with
    | list vs =>
      simp only at hw
      obtain ⟨h1, h2⟩ := slice_roundtrip hw hm _ hpre
      refine ⟨fun _ => ?_, fun h0 _ => ?_⟩
      · rw [hval]; exact h1
      · rw [h2 h0]; rfl
    | zero =>
      simp only [marshalValue, Except.ok.injEq] at hm
      subst hm
      refine ⟨fun _ => ⟨.zero, ?_, rfl⟩, fun _ _ => rfl⟩
      rw [hval, List.append_nil]
      exact decodeValue_slice_empty _ _ _ _ _ _ (trimSet_all_mem hpre)
    | _ => simp at hw
  | str | int | uint | bool | custom _ =>
    rw [hk] at hm hkind
    have hmlf : f.multiline = false := by
      rcases hml with h | h
      · exact h
      · rw [hk] at h; simp [isSlice] at h
    have hws : wfScalar f.required f.kind v := by
      unfold wfVal at hw
      rw [hk] at hw ⊢
      exact hw
    rw [hk] at hws
    rw [hmlf]
    have hsk := hkind
    simp only [flatKind] at hsk
    simp only [Bool.false_eq_true, if_false, canon_of_scalar hsk]
    refine ⟨fun hd => ?_, fun h0 _ => ?_⟩
    · refine scalar_roundtrip hws hm ?_
      by_cases hr : f.required = true
      · exact Or.inr hr
      · refine Or.inl (fun h0 => ?_)
        simp [h0, hr] at hd
    · subst h0
      exact scalar_omit hws hm
  | para | nested _ | unsupported _ =>
    rw [hk] at hkind
    simp [flatKind, scalarKind] at hkind

end GoDebian.Lemmas.Codec
