/-
  Lemmas for C13, iteration side: `parseEntry (header m)`, `next` at the start of a
  member inside any archive, `readFrom` over the members, `readAll (build ms)`.
  Core Lean only.
-/
import GoDebian.Lemmas.ArHeader
import GoDebian.Lemmas.ArIter

namespace GoDebian.Lemmas.Ar
open GoDebian GoDebian.Str GoDebian.Ar GoDebian.Spec.Ar GoDebian.Lemmas.Str

/-- the entry the reader must return for member `m` whose header starts at `off` -/
def entryOf (off : Nat) (m : Member) : Entry :=
  { name := m.name, timestamp := (m.timestamp.getD 0 : Nat), ownerID := (m.ownerID.getD 0 : Nat),
    groupID := (m.groupID.getD 0 : Nat), fileMode := m.mode, size := (m.data.length : Nat),
    hdrOff := off, dataOff := off + 60 }

def entriesOf (off : Nat) : List Member → List Entry
  | [] => []
  | m :: ms => entryOf off m :: entriesOf (off + (memberBytes m).length) ms

/-- `wfMember` taken apart. -/
theorem wfMember_parts {m : Member} (h : wfMember m = true) :
    m.name ≠ [] ∧ (m.name ++ (if m.gnuSlash then [47] else [])).length ≤ 16 ∧
    trimSpace m.name = m.name ∧ (m.gnuSlash = true ∨ m.name.getLast? ≠ some 47) ∧
    (fmtNat (m.timestamp.getD 0)).length ≤ 12 ∧ (fmtNat (m.ownerID.getD 0)).length ≤ 6 ∧
    (fmtNat (m.groupID.getD 0)).length ≤ 6 ∧ m.mode.length ≤ 8 ∧ trimSpace m.mode = m.mode ∧
    (fmtNat m.data.length).length ≤ 10 := by
  simp only [wfMember, Bool.and_eq_true, Bool.or_eq_true, decide_eq_true_eq, Bool.not_eq_true', bne_iff_ne,
    List.isEmpty_eq_false_iff] at h
  obtain ⟨⟨⟨⟨⟨⟨⟨⟨⟨h1, h2⟩, h3⟩, h4⟩, h5⟩, h6⟩, h7⟩, h8⟩, h9⟩, h10⟩ := h
  exact ⟨h1, h2, h3, h4, h5, h6, h7, h8, h9, h10⟩

/-! ### the name column -/

theorem trimSuffix_slash_append (name : Bytes) : trimSuffix (name ++ [47]) [47] = name := by
  simp [trimSuffix, hasSuffix, isPrefix]

theorem trimSuffix_slash_none {name : Bytes} (h : name.getLast? ≠ some 47) :
    trimSuffix name [47] = name := by
  have : hasSuffix name [47] = false := by
    unfold hasSuffix
    rw [← List.head?_reverse] at h
    cases hr : name.reverse with
    | nil => rfl
    | cons c r =>
      rw [hr] at h
      have : c ≠ 47 := fun e => h (by rw [e]; rfl)
      simp [isPrefix, Ne.symm this]
  simp [trimSuffix, this]

theorem trimSpace_name_slash {name : Bytes} (hne : name ≠ []) (h : trimSpace name = name) :
    trimSpace (name ++ [47]) = name ++ [47] := by
  obtain ⟨h0, _⟩ := trimmed_ends h
  unfold trimSpace
  rw [trimLeftSpace_of_zero (spaceLen_append_ascii hne h0 (by omega) [])]
  have := trimRightSpace_append_of_spaces (w := []) (X := name ++ [47]) rfl
    (by rw [List.reverse_append]; exact spaceLenRev_plain (by unfold Plain; omega) _)
  simpa using this

theorem name_column {m : Member} (h : wfMember m = true) :
    trimSuffix (trimSpace (padTo 16 (m.name ++ (if m.gnuSlash then [47] else [])))) [47]
      = m.name := by
  obtain ⟨h1, _, h3, h4, _⟩ := wfMember_parts h
  cases hg : m.gnuSlash with
  | true =>
    simp only [if_true]
    rw [trimSpace_padTo 16 (trimSpace_name_slash h1 h3), trimSuffix_slash_append]
  | false =>
    simp only [Bool.false_eq_true, if_false, List.append_nil]
    have h4' : m.name.getLast? ≠ some 47 := by
      rcases h4 with h4 | h4
      · rw [hg] at h4; exact absurd h4 (by decide)
      · exact h4
    rw [trimSpace_padTo 16 h3, trimSuffix_slash_none h4']

/-! ### the header -/

theorem parseEntry_header {m : Member} (h : wfMember m = true) (off : Nat) :
    parseEntry (header m) off = .ok (entryOf off m) := by
  obtain ⟨h1, h2, h3, h4, h5, h6, h7, h8, h9, h10⟩ := wfMember_parts h
  unfold header
  rw [parseEntry_cols _ _ _ _ _ _ off (padTo_length h2) (numCol_length h5) (numCol_length h6)
    (numCol_length h7) (padTo_length h8) (padTo_length h10)
    (numField_numCol 12 _ 12 (by omega) h5) (numField_numCol 6 _ 6 (by omega) h6)
    (numField_numCol 6 _ 6 (by omega) h7)
    (numField_numCol 10 (some m.data.length) 10 (by omega) h10)]
  rw [name_column h, trimSpace_padTo 8 h9]
  rfl

theorem header_length {m : Member} (h : wfMember m = true) : (header m).length = 60 := by
  obtain ⟨h1, h2, h3, h4, h5, h6, h7, h8, h9, h10⟩ := wfMember_parts h
  unfold header
  simp only [List.length_append, padTo_length h2, numCol_length h5, numCol_length h6,
    numCol_length h7, padTo_length h8, padTo_length h10, List.length_cons, List.length_nil]

theorem memberBytes_length {m : Member} (h : wfMember m = true) :
    (memberBytes m).length = 60 + m.data.length + m.data.length % 2 := by
  unfold memberBytes
  simp only [List.length_append, header_length h]
  split
  · simp only [List.length_cons, List.length_nil]; omega
  · simp only [List.length_nil]; omega

/-! ### `next` on a member -/

theorem readAt_mid (A C B : Bytes) {n : Nat} (hc : C.length = n) :
    readAt (A ++ C ++ B) A.length n = C :=
  col_eq A C B rfl hc

theorem next_member (pre rest : Bytes) {m : Member} (h : wfMember m = true) :
    next (pre ++ memberBytes m ++ rest) pre.length =
      .entry (entryOf pre.length m) (pre.length + (memberBytes m).length) := by
  have hbs : pre ++ memberBytes m ++ rest
      = pre ++ header m ++ (m.data ++ (if m.data.length % 2 = 1 then [10] else []) ++ rest) := by
    simp [memberBytes, List.append_assoc]
  have hline : readAt (pre ++ memberBytes m ++ rest) pre.length 60 = header m := by
    rw [hbs]; exact readAt_mid _ _ _ (header_length h)
  have hlen : pre.length + (memberBytes m).length ≤ (pre ++ memberBytes m ++ rest).length := by
    simp only [List.length_append]; omega
  have hml := memberBytes_length h
  unfold next
  simp only [hline, header_length h, parseEntry_header h]
  rw [if_neg (by omega)]
  have hsz : (entryOf pre.length m).size = (m.data.length : Nat) := rfl
  rw [if_neg (by rw [hsz]; omega)]
  have htn : (entryOf pre.length m).size.toNat = m.data.length := by rw [hsz]; rfl
  rw [htn, if_neg]
  · rw [hml]; congr 1; omega
  · rintro ⟨hpos, hprobe⟩
    apply hprobe
    rw [readAt_length]
    omega

/-! ### iteration over the members -/

theorem readFrom_build (ms : List Member) (hwf : ∀ m ∈ ms, wfMember m = true) (pre : Bytes)
    (fuel : Nat) (hf : ms.length < fuel) (acc : List Entry) :
    readFrom fuel (pre ++ (ms.map memberBytes).flatten) pre.length acc
      = (acc ++ entriesOf pre.length ms, .eof) := by
  induction ms generalizing pre fuel acc with
  | nil =>
    cases fuel with
    | zero => cases hf
    | succ fuel =>
      have : next (pre ++ (([] : List Member).map memberBytes).flatten) pre.length = .eof := by
        unfold next
        simp only [readAt_length]
        rw [if_pos]
        simp only [List.map_nil, List.flatten_nil, List.append_nil]
        omega
      unfold readFrom
      rw [this]
      simp [entriesOf]
  | cons m ms ih =>
    cases fuel with
    | zero => cases hf
    | succ fuel =>
      have hm := hwf m (by simp)
      have hbs : pre ++ ((m :: ms).map memberBytes).flatten
          = pre ++ memberBytes m ++ (ms.map memberBytes).flatten := by
        simp [List.append_assoc]
      unfold readFrom
      rw [hbs, next_member pre _ hm]
      simp only
      have := ih (fun x hx => hwf x (List.mem_cons_of_mem _ hx)) (pre ++ memberBytes m) fuel
        (by simp only [List.length_cons] at hf; omega) (acc ++ [entryOf pre.length m])
      rw [List.length_append] at this
      rw [this]
      simp [entriesOf]

theorem data_member (pre rest : Bytes) {m : Member} (h : wfMember m = true) :
    data (pre ++ memberBytes m ++ rest) (entryOf pre.length m) = m.data := by
  have hbs : pre ++ memberBytes m ++ rest
      = (pre ++ header m) ++ m.data ++ ((if m.data.length % 2 = 1 then [10] else []) ++ rest) := by
    simp [memberBytes, List.append_assoc]
  unfold data
  have h1 : (entryOf pre.length m).dataOff = (pre ++ header m).length := by
    rw [List.length_append, header_length h]; rfl
  have h2 : (entryOf pre.length m).size.toNat = m.data.length := rfl
  rw [h1, h2, hbs]
  exact readAt_mid _ _ _ rfl

theorem entriesOf_view (ms : List Member) (hwf : ∀ m ∈ ms, wfMember m = true) (pre : Bytes) :
    (entriesOf pre.length ms).map (entryView (pre ++ (ms.map memberBytes).flatten))
      = ms.map view := by
  induction ms generalizing pre with
  | nil => rfl
  | cons m ms ih =>
    have hm := hwf m (by simp)
    have hbs : pre ++ ((m :: ms).map memberBytes).flatten
        = pre ++ memberBytes m ++ (ms.map memberBytes).flatten := by
      simp [List.append_assoc]
    have := ih (fun x hx => hwf x (List.mem_cons_of_mem _ hx)) (pre ++ memberBytes m)
    rw [List.length_append] at this
    rw [hbs]
    simp only [entriesOf, List.map_cons, this, List.cons.injEq, and_true]
    unfold entryView
    rw [data_member pre _ hm]
    rfl

theorem flatten_members_length (ms : List Member) (hwf : ∀ m ∈ ms, wfMember m = true) :
    60 * ms.length ≤ ((ms.map memberBytes).flatten).length := by
  induction ms with
  | nil => simp
  | cons m ms ih =>
    have hm := memberBytes_length (hwf m (by simp))
    have := ih (fun x hx => hwf x (List.mem_cons_of_mem _ hx))
    simp only [List.map_cons, List.flatten_cons, List.length_append, List.length_cons]
    omega

/-- C13: a well-formed archive is read to the end, and the entries are the members. -/
theorem readAll_build (ms : List Member) (h : ms.all wfMember = true) :
    readAll (build ms) = some (entriesOf 8 ms, .eof) ∧
      (entriesOf 8 ms).map (entryView (build ms)) = ms.map view := by
  have hwf : ∀ m ∈ ms, wfMember m = true := List.all_eq_true.mp h
  refine ⟨?_, entriesOf_view ms hwf magic⟩
  have hlen := flatten_members_length ms hwf
  have hc : checkAr (build ms) = .ok 8 := by
    have : readAt (build ms) 0 8 = magic := by
      have := readAt_mid [] magic ((ms.map memberBytes).flatten) (n := 8) rfl
      simpa [build] using this
    unfold checkAr
    simp only [this]
    rfl
  unfold readAll
  rw [hc]
  simp only
  have := readFrom_build ms hwf magic ((build ms).length / 60 + 1) (by
    have : 60 * ms.length ≤ (build ms).length := by
      simp only [build, List.length_append]; omega
    have := Nat.div_le_div_right (c := 60) this
    rw [Nat.mul_div_cancel_left _ (by omega)] at this
    omega) []
  simp only [List.nil_append] at this
  exact congrArg some this

theorem build_member_bytes (ms : List Member) (h : ms.all wfMember = true) (i : Nat)
    (hi : i < ms.length) :
    ∃ e, (entriesOf 8 ms)[i]? = some e ∧ data (build ms) e = (ms[i]).data := by
  have hv := (readAll_build ms h).2
  have : ((entriesOf 8 ms).map (entryView (build ms)))[i]? = (ms.map view)[i]? := by rw [hv]
  rw [List.getElem?_map, List.getElem?_map, List.getElem?_eq_getElem hi] at this
  cases he : (entriesOf 8 ms)[i]? with
  | none => rw [he] at this; cases this
  | some e =>
    rw [he] at this
    simp only [Option.map_some, Option.some.injEq] at this
    exact ⟨e, rfl, congrArg View.data this⟩

end GoDebian.Lemmas.Ar
