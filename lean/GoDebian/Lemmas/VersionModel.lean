/-
  Lemmas about the model `GoDebian.Version` (the transliterated Go loop) and its
  relation to the specification: reflexivity without side conditions, the three inner
  loops characterised, and `sgn (verrevcmpN n a b) = ordInt (cmpN m a b)` for NUL-free
  strings with sufficient fuel.  Core Lean only.
-/
import GoDebian.Lemmas.VersionSpec

namespace GoDebian.Lemmas.Version
open GoDebian
open GoDebian.Spec.Version (isDigit isLetter weight weightAt lexCmp natVal cmpN cmp ordInt)
open GoDebian.Version (cisdigit cisalpha order atNonDigit atDigit ordHead skipNonDigit
  dropZeros digitRun verrevcmpN verrevcmp sgn)

/-! ### `sgn`, `ordInt` -/

theorem sgn_neg_iff (i : Int) : sgn i = -1 ↔ i < 0 := by
  unfold sgn; split
  · simp [*]
  · split <;> simp <;> omega

theorem sgn_zero_iff (i : Int) : sgn i = 0 ↔ i = 0 := by
  unfold sgn; split
  · simp; omega
  · split <;> simp <;> omega

theorem sgn_pos_iff (i : Int) : sgn i = 1 ↔ 0 < i := by
  unfold sgn; split
  · simp; omega
  · split <;> simp <;> omega

theorem sgn_of_neg {i : Int} (h : i < 0) : sgn i = -1 := (sgn_neg_iff i).mpr h
theorem sgn_of_pos {i : Int} (h : 0 < i) : sgn i = 1 := (sgn_pos_iff i).mpr h
@[simp] theorem sgn_zero : sgn 0 = 0 := rfl
@[simp] theorem sgn_one : sgn 1 = 1 := rfl
@[simp] theorem sgn_neg_one : sgn (-1) = -1 := rfl

theorem sgn_neg (i : Int) : sgn (-i) = - sgn i := by
  unfold sgn
  split <;> split <;> (try split) <;> (try split) <;> omega

theorem sgn_le_zero_iff (i : Int) : sgn i ≤ 0 ↔ i ≤ 0 := by
  unfold sgn; split
  · simp; omega
  · split <;> simp <;> omega

/-- `ordInt` of a lexicographic combination, on the integer side -/
def thenInt (o : Ordering) (i : Int) : Int :=
  match o with
  | .lt => -1
  | .eq => i
  | .gt => 1

theorem ordInt_then (o x : Ordering) : ordInt (o.then x) = thenInt o (ordInt x) := by
  cases o <;> rfl

theorem ordInt_swap (o : Ordering) : ordInt o.swap = - ordInt o := by
  cases o <;> rfl

theorem ordInt_inj {o o' : Ordering} (h : ordInt o = ordInt o') : o = o' := by
  cases o <;> cases o' <;> simp [ordInt] at h <;> rfl

theorem ordInt_eq_zero_iff (o : Ordering) : ordInt o = 0 ↔ o = .eq := by
  cases o <;> simp [ordInt]

theorem ordInt_le_zero_iff (o : Ordering) : ordInt o ≤ 0 ↔ o ≠ .gt := by
  cases o <;> simp [ordInt]

theorem ordInt_neg_iff (o : Ordering) : ordInt o < 0 ↔ o = .lt := by
  cases o <;> simp [ordInt]

theorem sgn_ordInt (o : Ordering) : sgn (ordInt o) = ordInt o := by
  cases o <;> rfl

/-! ### characters -/

theorem isDigit_eq (c : Nat) : isDigit c = cisdigit c := rfl

theorem digit_bounds {c : Nat} (h : cisdigit c = true) : 48 ≤ c ∧ c ≤ 57 := by
  simpa [cisdigit] using h

theorem weight_ne_zero (c : Nat) : weight c ≠ 0 := by
  unfold weight
  split
  · omega
  · split
    · rename_i h; simp [isLetter] at h; omega
    · omega

theorem order_eq_weight (c : Nat) (hd : cisdigit c = false) (h0 : c ≠ 0) :
    order c = weight c := by
  unfold order weight
  simp only [hd, Bool.false_eq_true, if_false]
  by_cases h126 : c = 126
  · subst h126; simp [cisalpha]
  · have : cisalpha c = isLetter c := by
      simp only [cisalpha, isLetter]; exact Bool.or_comm _ _
    simp [this, h126, h0]

/-! ### reflexivity of the model, with no side condition -/

theorem skip_self (n : Nat) (a : Bytes) : ∃ a', skipNonDigit n a a = .ok (a', a') := by
  induction n generalizing a with
  | zero => exact ⟨a, rfl⟩
  | succ n ih =>
    simp only [skipNonDigit, ne_eq, not_true_eq_false, if_false]
    split
    · exact ih _
    · exact ⟨a, rfl⟩

theorem digitRun_self (a : Bytes) :
    ∃ a', digitRun a a 0 = (a', a', 0) ∧ atDigit a' = false := by
  induction a with
  | nil => exact ⟨[], rfl, rfl⟩
  | cons x a ih =>
    by_cases hx : cisdigit x = true
    · simpa [digitRun, hx] using ih
    · refine ⟨x :: a, ?_, ?_⟩
      · simp [digitRun, hx]
      · simpa [atDigit] using hx

theorem verrevcmpN_self (n : Nat) (a : Bytes) : verrevcmpN n a a = 0 := by
  induction n generalizing a with
  | zero => rfl
  | succ n ih =>
    unfold verrevcmpN
    split
    · rfl
    · obtain ⟨a1, h1⟩ := skip_self (a.length + a.length + 1) a
      obtain ⟨a2, h2, h3⟩ := digitRun_self (dropZeros a1)
      simp only [h1, h2, h3, Bool.false_eq_true, if_false, ne_eq, not_true_eq_false]
      exact ih a2

theorem verrevcmp_self (a : Bytes) : verrevcmp a a = 0 := verrevcmpN_self _ a

/-! ### first inner loop = padded lexical comparison of the non-digit prefixes -/

theorem atNonDigit_false {a : Bytes} (h : atNonDigit a = false) :
    P a = [] ∧ Q a = a ∧ ordHead a = 0 := by
  cases a with
  | nil => exact ⟨rfl, rfl, rfl⟩
  | cons c a =>
    have hc : cisdigit c = true := by simpa [atNonDigit] using h
    have hc' : isDigit c = true := hc
    refine ⟨by simp [P, hc'], by simp [Q, hc'], by simp [ordHead, order, hc]⟩

theorem atNonDigit_true {a : Bytes} (h : atNonDigit a = true) (h0 : 0 ∉ a) :
    ∃ c a', a = c :: a' ∧ cisdigit c = false ∧ c ≠ 0 ∧ 0 ∉ a' := by
  cases a with
  | nil => simp [atNonDigit] at h
  | cons c a =>
    refine ⟨c, a, rfl, by simpa [atNonDigit] using h, ?_, ?_⟩
    · intro hc; subst hc; simp at h0
    · intro hm; exact h0 (List.mem_cons_of_mem _ hm)

theorem ordHead_cons (c : Nat) (a : Bytes) : ordHead (c :: a) = order c := rfl
theorem weightAt_cons (c : Nat) (a : Bytes) : weightAt (c :: a) = weight c := rfl
theorem weightAt_nil : weightAt [] = 0 := rfl

theorem P_cons_nondigit {c : Nat} (a : Bytes) (hc : cisdigit c = false) :
    P (c :: a) = c :: P a := by
  have hc' : isDigit c = false := hc
  simp [P, hc']

theorem Q_cons_nondigit {c : Nat} (a : Bytes) (hc : cisdigit c = false) :
    Q (c :: a) = Q a := by
  have hc' : isDigit c = false := hc
  simp [Q, hc']

/-- outcome of the first inner loop, in terms of the specification's `lexCmp` -/
def SkipOut (o : Ordering) (r : Except Int (Bytes × Bytes)) (qa qb : Bytes) : Prop :=
  match o with
  | .eq => r = .ok (qa, qb)
  | .lt => ∃ d : Int, d < 0 ∧ r = .error d
  | .gt => ∃ d : Int, 0 < d ∧ r = .error d

theorem skip_spec (k : Nat) (a b : Bytes) (ha : 0 ∉ a) (hb : 0 ∉ b)
    (hk : a.length + b.length < k) :
    SkipOut (lexCmp k (P a) (P b)) (skipNonDigit k a b) (Q a) (Q b) := by
  induction k generalizing a b with
  | zero => omega
  | succ k ih =>
    rw [lexCmp_succ]
    simp only [skipNonDigit]
    cases hA : atNonDigit a <;> cases hB : atNonDigit b
    · obtain ⟨pa, qa, _⟩ := atNonDigit_false hA
      obtain ⟨pb, qb, _⟩ := atNonDigit_false hB
      simp [pa, pb, qa, qb, weightAt, SkipOut]
    · obtain ⟨pa, qa, oa⟩ := atNonDigit_false hA
      obtain ⟨c, b', rfl, hc, hc0, hb'⟩ := atNonDigit_true hB hb
      have hw := weight_ne_zero c
      simp only [pa, P_cons_nondigit b' hc, weightAt_cons, weightAt_nil, ordHead_cons, order_eq_weight c hc hc0, oa,
        Bool.false_or, if_true, ne_eq]
      rcases Int.lt_trichotomy 0 (weight c) with h | h | h
      · rw [Int.compare_eq_lt.mpr h]
        have : ¬ (0 = weight c) := by omega
        simp only [this, not_false_eq_true, if_true, Ordering.then, SkipOut]
        exact ⟨_, by omega, rfl⟩
      · exact absurd h.symm hw
      · rw [Int.compare_eq_gt.mpr h]
        have : ¬ (0 = weight c) := by omega
        simp only [this, not_false_eq_true, if_true, Ordering.then, SkipOut]
        exact ⟨_, by omega, rfl⟩
    · obtain ⟨pb, qb, ob⟩ := atNonDigit_false hB
      obtain ⟨c, a', rfl, hc, hc0, ha'⟩ := atNonDigit_true hA ha
      have hw := weight_ne_zero c
      simp only [pb, P_cons_nondigit a' hc, weightAt_cons, weightAt_nil, ordHead_cons, order_eq_weight c hc hc0, ob,
        Bool.true_or, if_true, ne_eq]
      rcases Int.lt_trichotomy (weight c) 0 with h | h | h
      · rw [Int.compare_eq_lt.mpr h]
        simp only [hw, not_false_eq_true, if_true, Ordering.then, SkipOut]
        exact ⟨_, by omega, rfl⟩
      · exact absurd h hw
      · rw [Int.compare_eq_gt.mpr h]
        simp only [hw, not_false_eq_true, if_true, Ordering.then, SkipOut]
        exact ⟨_, by omega, rfl⟩
    · obtain ⟨c, a', rfl, hc, hc0, ha'⟩ := atNonDigit_true hA ha
      obtain ⟨e, b', rfl, he, he0, hb'⟩ := atNonDigit_true hB hb
      simp only [P_cons_nondigit a' hc, P_cons_nondigit b' he, weightAt_cons, ordHead_cons,
        order_eq_weight c hc hc0, order_eq_weight e he he0, Bool.or_self, if_true, ne_eq,
        List.tail_cons, Q_cons_nondigit a' hc, Q_cons_nondigit b' he]
      rcases Int.lt_trichotomy (weight c) (weight e) with h | h | h
      · rw [Int.compare_eq_lt.mpr h]
        have : ¬ (weight c = weight e) := by omega
        simp only [this, not_false_eq_true, if_true, Ordering.then, SkipOut]
        exact ⟨_, by omega, rfl⟩
      · rw [Int.compare_eq_eq.mpr h]
        simp only [h, not_true_eq_false, if_false, Ordering.then]
        exact ih a' b' ha' hb' (by simp at hk; omega)
      · rw [Int.compare_eq_gt.mpr h]
        have : ¬ (weight c = weight e) := by omega
        simp only [this, not_false_eq_true, if_true, Ordering.then, SkipOut]
        exact ⟨_, by omega, rfl⟩

/-! ### digit runs: zero stripping and numeric comparison -/

/-- `natVal` started from an accumulator -/
def val (acc : Nat) (ds : List Nat) : Nat := ds.foldl (fun acc d => acc * 10 + (d - 48)) acc

theorem natVal_eq_val (ds : List Nat) : natVal ds = val 0 ds := rfl
@[simp] theorem val_nil (acc : Nat) : val acc [] = acc := rfl
@[simp] theorem val_cons (acc d : Nat) (ds : List Nat) :
    val acc (d :: ds) = val (acc * 10 + (d - 48)) ds := by
  simp only [val, List.foldl_cons]

def AllDigits (l : Bytes) : Prop := ∀ c ∈ l, cisdigit c = true

theorem AllDigits.head {x : Nat} {l : Bytes} (h : AllDigits (x :: l)) : cisdigit x = true :=
  h x (List.mem_cons_self)
theorem AllDigits.tail {x : Nat} {l : Bytes} (h : AllDigits (x :: l)) : AllDigits l :=
  fun c hc => h c (List.mem_cons_of_mem _ hc)

theorem allDigits_D (a : Bytes) : AllDigits (D a) := by
  intro c hc
  have h := List.all_takeWhile (p := isDigit) (l := Q a)
  exact List.all_eq_true.mp h c hc

theorem atDigit_R (a : Bytes) : atDigit (R a) = false := by
  unfold R
  generalize Q a = q
  induction q with
  | nil => rfl
  | cons c q ih =>
    by_cases hc : isDigit c = true
    · simpa [hc] using ih
    · have hc' : cisdigit c = false := by simpa [isDigit_eq] using hc
      simp [hc, atDigit, hc']

theorem val_ge (acc : Nat) (ds : List Nat) : acc ≤ val acc ds := by
  induction ds generalizing acc with
  | nil => simp
  | cons d ds ih => have := ih (acc * 10 + (d - 48)); rw [val_cons]; omega

/-- a shorter digit string started from a smaller accumulator stays smaller -/
theorem val_lt_of_shorter (zb za : Bytes) (accA accB : Nat) (hl : zb.length ≤ za.length)
    (hzb : AllDigits zb) (hacc : accB < accA) : val accB zb < val accA za := by
  induction zb generalizing za accA accB with
  | nil => have := val_ge accA za; simp; omega
  | cons y zb ih =>
    cases za with
    | nil => simp at hl
    | cons x za =>
      have hy := digit_bounds hzb.head
      simp only [val_cons]
      exact ih za _ _ (by simpa using hl) hzb.tail (by omega)

theorem dropZeros_cons_zero (l : Bytes) : dropZeros (48 :: l) = dropZeros l := by
  simp [dropZeros]

theorem dropZeros_cons_ne {x : Nat} (l : Bytes) (h : x ≠ 48) : dropZeros (x :: l) = x :: l := by
  simp [dropZeros, h]

theorem natVal_dropZeros (l : Bytes) : natVal (dropZeros l) = natVal l := by
  induction l with
  | nil => rfl
  | cons x l ih =>
    by_cases h : x = 48
    · subst h; rw [dropZeros_cons_zero, ih, natVal_eq_val, natVal_eq_val, val_cons]
    · rw [dropZeros_cons_ne l h]

theorem allDigits_dropZeros {l : Bytes} (h : AllDigits l) : AllDigits (dropZeros l) :=
  fun c hc => h c (List.dropWhile_subset _ hc)

theorem dropZeros_head (l : Bytes) : dropZeros l = [] ∨ ∃ x l', dropZeros l = x :: l' ∧ x ≠ 48 := by
  induction l with
  | nil => exact .inl rfl
  | cons x l ih =>
    by_cases h : x = 48
    · subst h; rw [dropZeros_cons_zero]; exact ih
    · rw [dropZeros_cons_ne l h]; exact .inr ⟨x, l, rfl, h⟩

theorem dropZeros_append (d t : Bytes) (ht : atDigit t = false) :
    dropZeros (d ++ t) = dropZeros d ++ t := by
  induction d with
  | nil =>
    cases t with
    | nil => rfl
    | cons y t =>
      have : y ≠ 48 := by
        intro h; subst h; simp [atDigit, cisdigit] at ht
      rw [List.nil_append, dropZeros_cons_ne t this]; rfl
  | cons x d ih =>
    by_cases h : x = 48
    · subst h; rw [List.cons_append, dropZeros_cons_zero, dropZeros_cons_zero, ih]
    · rw [List.cons_append, dropZeros_cons_ne _ h, dropZeros_cons_ne _ h, List.cons_append]

/-- a longer digit string with no leading zero is numerically larger -/
theorem natVal_lt_of_shorter (zb za : Bytes) (x : Nat) (hl : zb.length < (x :: za).length)
    (hzb : AllDigits zb) (hx : cisdigit x = true) (hx0 : x ≠ 48) :
    natVal zb < natVal (x :: za) := by
  have := digit_bounds hx
  rw [natVal_eq_val, natVal_eq_val, val_cons]
  exact val_lt_of_shorter zb za _ _ (by simpa using Nat.lt_succ_iff.mp hl) hzb (by omega)

theorem digitRun_nondigit (ta tb : Bytes) (fd : Int) (h : atDigit ta = false ∨ atDigit tb = false) :
    digitRun ta tb fd = (ta, tb, fd) := by
  cases ta with
  | nil => simp [digitRun]
  | cons x ta =>
    cases tb with
    | nil => simp [digitRun]
    | cons y tb =>
      have : (cisdigit x && cisdigit y) = false := by
        rcases h with h | h <;> simp [atDigit] at h <;> simp [h]
      simp [digitRun, this]

theorem digitRun_cons (x y : Nat) (a b : Bytes) (fd : Int) (hx : cisdigit x = true)
    (hy : cisdigit y = true) :
    digitRun (x :: a) (y :: b) fd = digitRun a b (if fd = 0 then (x : Int) - (y : Int) else fd) := by
  simp [digitRun, hx, hy]

theorem step_sign (accA accB x y : Nat) (fd : Int) (hx : 48 ≤ x ∧ x ≤ 57) (hy : 48 ≤ y ∧ y ≤ 57)
    (h : sgn fd = ordInt (compare accA accB)) :
    sgn (if fd = 0 then (x : Int) - (y : Int) else fd) =
      ordInt (compare (accA * 10 + (x - 48)) (accB * 10 + (y - 48))) := by
  rcases Nat.lt_trichotomy accA accB with h1 | h1 | h1
  · rw [Nat.compare_eq_lt.mpr h1] at h
    have hfd : fd < 0 := (sgn_neg_iff fd).mp h
    have : ¬ fd = 0 := by omega
    rw [Nat.compare_eq_lt.mpr (by omega), if_neg this]; exact h
  · subst h1
    have hfd : fd = 0 := (sgn_zero_iff fd).mp (by rw [h]; simp [ordInt])
    rw [if_pos hfd]
    rcases Nat.lt_trichotomy x y with h2 | h2 | h2
    · rw [Nat.compare_eq_lt.mpr (by omega)]; exact sgn_of_neg (by omega)
    · subst h2; simp [ordInt]
    · rw [Nat.compare_eq_gt.mpr (by omega)]; exact sgn_of_pos (by omega)
  · rw [Nat.compare_eq_gt.mpr h1] at h
    have hfd : 0 < fd := (sgn_pos_iff fd).mp h
    have : ¬ fd = 0 := by omega
    rw [Nat.compare_eq_gt.mpr (by omega), if_neg this]; exact h

/-- equal-length digit runs: the loop runs to their ends and the remembered first
    difference has the sign of the numeric comparison -/
theorem digitRun_eqlen (za zb ta tb : Bytes) (accA accB : Nat) (fd : Int)
    (hl : za.length = zb.length) (hza : AllDigits za) (hzb : AllDigits zb)
    (hta : atDigit ta = false) (h : sgn fd = ordInt (compare accA accB)) :
    ∃ fd', digitRun (za ++ ta) (zb ++ tb) fd = (ta, tb, fd') ∧
      sgn fd' = ordInt (compare (val accA za) (val accB zb)) := by
  induction za generalizing zb accA accB fd with
  | nil =>
    have : zb = [] := List.length_eq_zero_iff.mp (by simpa using hl.symm)
    subst this
    exact ⟨fd, digitRun_nondigit ta tb fd (.inl hta), h⟩
  | cons x za ih =>
    cases zb with
    | nil => simp at hl
    | cons y zb =>
      simp only [List.cons_append, val_cons]
      rw [digitRun_cons x y _ _ fd hza.head hzb.head]
      exact ih zb _ _ _ (by simpa using hl) hza.tail hzb.tail
        (step_sign accA accB x y fd (digit_bounds hza.head) (digit_bounds hzb.head) h)

theorem digitRun_longer (za zb ta tb : Bytes) (fd : Int) (hl : zb.length < za.length)
    (hza : AllDigits za) (hzb : AllDigits zb) (htb : atDigit tb = false) :
    atDigit (digitRun (za ++ ta) (zb ++ tb) fd).1 = true := by
  induction zb generalizing za fd with
  | nil =>
    cases za with
    | nil => simp at hl
    | cons x za =>
      rw [List.nil_append, digitRun_nondigit _ tb fd (.inr htb)]
      simpa [atDigit] using hza.head
  | cons y zb ih =>
    cases za with
    | nil => simp at hl
    | cons x za =>
      simp only [List.cons_append]
      rw [digitRun_cons x y _ _ fd hza.head hzb.head]
      exact ih za _ (by simpa using hl) hza.tail hzb.tail

theorem digitRun_shorter (za zb ta tb : Bytes) (fd : Int) (hl : za.length < zb.length)
    (hza : AllDigits za) (hzb : AllDigits zb) (hta : atDigit ta = false) :
    atDigit (digitRun (za ++ ta) (zb ++ tb) fd).1 = false ∧
    atDigit (digitRun (za ++ ta) (zb ++ tb) fd).2.1 = true := by
  induction za generalizing zb fd with
  | nil =>
    cases zb with
    | nil => simp at hl
    | cons y zb =>
      rw [List.nil_append, digitRun_nondigit ta _ fd (.inl hta)]
      exact ⟨hta, by simpa [atDigit] using hzb.head⟩
  | cons x za ih =>
    cases zb with
    | nil => simp at hl
    | cons y zb =>
      simp only [List.cons_append]
      rw [digitRun_cons x y _ _ fd hza.head hzb.head]
      exact ih zb _ (by simpa using hl) hza.tail hzb.tail

/-! ### one round of the outer loop -/

/-- the part of the outer loop body after the first inner loop -/
def post (n : Nat) (a1 b1 : Bytes) : Int :=
  let (a2, b2, fd) := digitRun (dropZeros a1) (dropZeros b1) 0
  if atDigit a2 then 1
  else if atDigit b2 then -1
  else if fd ≠ 0 then fd
  else verrevcmpN n a2 b2

theorem verrevcmpN_succ (n : Nat) (a b : Bytes) :
    verrevcmpN (n+1) a b =
      if a.isEmpty && b.isEmpty then 0 else
      match skipNonDigit (a.length + b.length + 1) a b with
      | .error d => d
      | .ok (a1, b1) => post n a1 b1 := rfl

theorem post_eq (n : Nat) (a1 b1 : Bytes) :
    post n a1 b1 =
      if atDigit (digitRun (dropZeros a1) (dropZeros b1) 0).1 then 1
      else if atDigit (digitRun (dropZeros a1) (dropZeros b1) 0).2.1 then -1
      else if (digitRun (dropZeros a1) (dropZeros b1) 0).2.2 ≠ 0 then
        (digitRun (dropZeros a1) (dropZeros b1) 0).2.2
      else verrevcmpN n (digitRun (dropZeros a1) (dropZeros b1) 0).1
        (digitRun (dropZeros a1) (dropZeros b1) 0).2.1 := rfl

theorem post_spec (n : Nat) (da db ta tb : Bytes) (hda : AllDigits da) (hdb : AllDigits db)
    (hta : atDigit ta = false) (htb : atDigit tb = false) :
    sgn (post n (da ++ ta) (db ++ tb)) =
      thenInt (compare (natVal da) (natVal db)) (sgn (verrevcmpN n ta tb)) := by
  rw [post_eq, dropZeros_append da ta hta, dropZeros_append db tb htb,
    ← natVal_dropZeros da, ← natVal_dropZeros db]
  have hza := allDigits_dropZeros hda
  have hzb := allDigits_dropZeros hdb
  have nza := dropZeros_head da
  have nzb := dropZeros_head db
  generalize dropZeros da = za at *
  generalize dropZeros db = zb at *
  rcases Nat.lt_trichotomy za.length zb.length with hl | hl | hl
  · -- the right run is longer
    obtain ⟨h1, h2⟩ := digitRun_shorter za zb ta tb 0 hl hza hzb hta
    have hlt : natVal za < natVal zb := by
      rcases nzb with h | ⟨x, zb', rfl, hx⟩
      · subst h; simp at hl
      · exact natVal_lt_of_shorter za zb' x hl hza hzb.head hx
    rw [h1, h2, Nat.compare_eq_lt.mpr hlt]; rfl
  · obtain ⟨fd', h1, h2⟩ := digitRun_eqlen za zb ta tb 0 0 0 hl hza hzb hta (by simp [ordInt])
    rw [h1]
    simp only [hta, htb, Bool.false_eq_true, if_false]
    rw [← natVal_eq_val, ← natVal_eq_val] at h2
    cases hc : compare (natVal za) (natVal zb) <;> rw [hc] at h2
    · have : fd' < 0 := (sgn_neg_iff _).mp h2
      have hne : fd' ≠ 0 := by omega
      rw [if_pos hne, h2]; rfl
    · have : fd' = 0 := (sgn_zero_iff _).mp h2
      subst this
      simp [thenInt]
    · have : 0 < fd' := (sgn_pos_iff _).mp h2
      have hne : fd' ≠ 0 := by omega
      rw [if_pos hne, h2]; rfl
  · have h1 := digitRun_longer za zb ta tb 0 hl hza hzb htb
    have hgt : natVal zb < natVal za := by
      rcases nza with h | ⟨x, za', rfl, hx⟩
      · subst h; simp at hl
      · exact natVal_lt_of_shorter zb za' x hl hzb hza.head hx
    rw [h1, Nat.compare_eq_gt.mpr hgt]; rfl

theorem not_mem_R {a : Bytes} (h : 0 ∉ a) : 0 ∉ R a := fun hm =>
  h (List.dropWhile_subset _ (List.dropWhile_subset _ hm))

/-! ### the main induction -/

theorem verrevcmpN_spec (n m : Nat) (a b : Bytes) (ha : 0 ∉ a) (hb : 0 ∉ b)
    (hn : a.length + b.length < n) (hm : a.length + b.length < m) :
    sgn (verrevcmpN n a b) = ordInt (cmpN m a b) := by
  induction n generalizing m a b with
  | zero => omega
  | succ n ih =>
    cases m with
    | zero => omega
    | succ m =>
      rw [cmpN_succ, verrevcmpN_succ]
      by_cases he : (a.isEmpty && b.isEmpty) = true
      · simp only [Bool.and_eq_true, List.isEmpty_iff] at he
        obtain ⟨rfl, rfl⟩ := he
        simp [natVal, ordInt]
      · rw [if_neg he]
        have hne : a ≠ [] ∨ b ≠ [] := by
          simp only [Bool.and_eq_true, List.isEmpty_iff, not_and] at he
          by_cases h : a = []
          · exact .inr (he h)
          · exact .inl h
        have hPa := P_length_le a
        have hPb := P_length_le b
        have hs := skip_spec (a.length + b.length + 1) a b ha hb (by omega)
        rw [lexCmp_fuel _ ((P a).length + (P b).length + 1) (P a) (P b)
          (by omega) (by omega) (by omega) (by omega)] at hs
        cases hc : lexCmp ((P a).length + (P b).length + 1) (P a) (P b) <;> rw [hc] at hs
        · obtain ⟨d, hd, e⟩ := hs
          rw [e]; exact sgn_of_neg hd
        · have e : skipNonDigit (a.length + b.length + 1) a b = .ok (Q a, Q b) := hs
          rw [e]
          show sgn (post n (Q a) (Q b)) = _
          rw [Q_eq a, Q_eq b, post_spec n _ _ _ _ (allDigits_D a) (allDigits_D b)
            (atDigit_R a) (atDigit_R b)]
          have hRa := R_length_le a
          have hRb := R_length_le b
          have hdec : (R a).length + (R b).length < a.length + b.length := by
            rcases hne with h | h
            · have := R_length_lt a h; omega
            · have := R_length_lt b h; omega
          rw [ih m (R a) (R b) (not_mem_R ha) (not_mem_R hb) (by omega) (by omega)]
          exact (ordInt_then _ _).symm
        · obtain ⟨d, hd, e⟩ := hs
          rw [e]; exact sgn_of_pos hd

/-- the Go loop computes the Policy order on NUL-free components -/
theorem verrevcmp_spec (a b : Bytes) (ha : 0 ∉ a) (hb : 0 ∉ b) :
    sgn (verrevcmp a b) = ordInt (cmp a b) :=
  verrevcmpN_spec _ _ a b ha hb (by omega) (by omega)

end GoDebian.Lemmas.Version
