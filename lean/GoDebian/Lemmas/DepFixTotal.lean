/-
  The fuelled loops of the dependency parser.  Each is called with fuel = remaining
  length + 1 and every iteration returns or continues on a strictly shorter input, so the
  fuel never runs out; the nil-dereference branch of `parseControllers` is unreachable
  (the possibility under construction always has `archs = some _`); and every loop
  maintains the output invariant of `DepFixInv`.  One specification per loop gives both
  C18 (no `.fuel`, no `.panic`) and the invariant half of C05.  Core Lean only.
-/
import GoDebian.Lemmas.DepFixInv

namespace GoDebian.Lemmas.DepFix
open GoDebian GoDebian.Dep

/-- outcome of a parser: a value satisfying `Q`, or an ordinary error -/
def Post {α : Type} (r : Res α) (Q : α → Prop) : Prop :=
  match r with
  | .ok x => Q x
  | .error e => e = .err

@[simp] theorem Post_ok {α : Type} (x : α) (Q : α → Prop) : Post (.ok x) Q ↔ Q x := Iff.rfl
@[simp] theorem Post_error {α : Type} (e : Err) (Q : α → Prop) :
    Post (.error e : Res α) Q ↔ e = .err := Iff.rfl

theorem Post.not_fuel {α : Type} {r : Res α} {Q : α → Prop} (h : Post r Q) :
    r ≠ .error .fuel ∧ r ≠ .error .panic := by
  cases r with
  | ok x => exact ⟨nofun, nofun⟩
  | error e =>
    have : e = .err := h
    subst this
    exact ⟨nofun, nofun⟩

theorem Post.of_ok {α : Type} {r : Res α} {Q : α → Prop} (h : Post r Q) {x : α}
    (hx : r = .ok x) : Q x := by
  subst hx; exact h

theorem Post.mono {α : Type} {r : Res α} {Q Q' : α → Prop} (h : Post r Q)
    (hq : ∀ x, Q x → Q' x) : Post r Q' := by
  cases r with
  | ok x => exact hq x h
  | error e => exact h

/-! ### `[...]` -/

theorem archsLoop_spec (fuel : Nat) (set : ArchSet) (inp : Bytes) (hf : inp.length < fuel)
    (hset : ArchSetOk set) :
    Post (parseArchsLoop fuel set inp) (fun r => ArchSetOk r.1 ∧ r.2.length < inp.length) := by
  induction fuel generalizing set inp with
  | zero => omega
  | succ fuel ih =>
    have hle := eatWs_length_le inp
    rw [parseArchsLoop]
    split
    · simp
    · rename_i c rest hc
      split
      · simp
      · split
        · rw [hc] at hle
          simp only [List.length_cons] at hle
          exact ⟨hset, by simp only; omega⟩
        · rename_i h0 h93
          split
          · rename_i e he
            exact parseArchEntry_err he
          · rename_i set' inp' he
            have he' : parseArchEntry set (eatWs inp) = .ok (set', inp') := he
            obtain ⟨hs', hl'⟩ := parseArchEntry_ok he' (by rw [eatWs_idem]; exact hc) h0 h93 hset
            rw [hc] at hle
            refine (ih set' inp' (by omega) hs').mono ?_
            intro r hr
            exact ⟨hr.1, by omega⟩

theorem parseArchs_spec (set : ArchSet) (inp : Bytes) (hset : ArchSetOk set) :
    Post (parseArchs set inp) (fun r => ArchSetOk r.1 ∧ r.2.length < inp.length) := by
  unfold parseArchs
  have h1 := eatWs_length_le inp
  have h2 := next_snd_length_le (eatWs inp)
  refine (archsLoop_spec _ set _ (Nat.lt_succ_self _) hset).mono ?_
  intro r hr
  exact ⟨hr.1, by omega⟩

/-! ### `<...>` -/

theorem stageSetLoop_spec (fuel : Nat) (acc : List Stage) (inp : Bytes) (hf : inp.length < fuel)
    (hacc : ∀ s ∈ acc, StageOk s) :
    Post (parseStageSetLoop fuel acc inp)
      (fun r => (∀ s ∈ r.1, StageOk s) ∧ r.2.length < inp.length) := by
  induction fuel generalizing acc inp with
  | zero => omega
  | succ fuel ih =>
    have hle := eatWs_length_le inp
    rw [parseStageSetLoop]
    split
    · simp
    · rename_i c rest hc
      split
      · simp
      · split
        · rw [hc] at hle
          simp only [List.length_cons] at hle
          exact ⟨hacc, by simp only; omega⟩
        · rename_i h0 h62
          split
          · rename_i e he
            exact parseStage_err he
          · rename_i st inp' he
            have he' : parseStage (eatWs inp) = .ok (st, inp') := he
            obtain ⟨hs', hl'⟩ := parseStage_ok he' (by rw [eatWs_idem]; exact hc) h0 h62
            rw [hc] at hle
            refine (ih (acc ++ [st]) inp' (by omega) ?_).mono ?_
            · intro s hs
              rcases List.mem_append.mp hs with hs | hs
              · exact hacc s hs
              · rw [List.mem_singleton] at hs; subst hs; exact hs'
            · intro r hr
              exact ⟨hr.1, by omega⟩

theorem parseStageSet_spec (inp : Bytes) :
    Post (parseStageSet inp) (fun r => (∀ s ∈ r.1, StageOk s) ∧ r.2.length < inp.length) := by
  unfold parseStageSet
  have h1 := eatWs_length_le inp
  have h2 := next_snd_length_le (eatWs inp)
  refine (stageSetLoop_spec _ [] _ (Nat.lt_succ_self _) (by simp)).mono ?_
  intro r hr
  exact ⟨hr.1, by omega⟩

/-! ### the controllers loop -/

/-- the bytes that end a possibility -/
abbrev term (c : Nat) : Bool := c = 44 || c = 124 || c = 0

theorem pkgOk_setVersion {p : Possibility} {v : VersionRelation} (hp : PkgOk p) (hv : VerOk v) :
    PkgOk { p with version := some v } := by
  obtain ⟨h1, h2, h3, h4, h5, h6⟩ := hp
  exact ⟨h1, h2, h3, h4, fun w hw => by cases hw; exact hv, h6⟩

theorem pkgOk_setArchs {p : Possibility} {s : ArchSet} (hp : PkgOk p) (hs : ArchSetOk s) :
    PkgOk { p with archs := some s } := by
  obtain ⟨h1, h2, h3, h4, h5, h6⟩ := hp
  exact ⟨h1, h2, h3, ⟨s, rfl, hs⟩, h5, h6⟩

theorem pkgOk_addStage {p : Possibility} {ss : List Stage} (hp : PkgOk p) (hs : StageSetOk ss) :
    PkgOk { p with stageSets := p.stageSets ++ [ss] } := by
  obtain ⟨h1, h2, h3, h4, h5, h6⟩ := hp
  refine ⟨h1, h2, h3, h4, h5, ?_⟩
  intro x hx
  rcases List.mem_append.mp hx with hx | hx
  · exact h6 x hx
  · rw [List.mem_singleton] at hx; subst hx; exact hs

theorem pkgOk_setArch {p : Possibility} {a : Arch} (hp : PkgOk p) (ha : ArchWF multiarchStop a) :
    PkgOk { p with arch := some a } := by
  obtain ⟨h1, h2, h3, h4, h5, h6⟩ := hp
  exact ⟨h1, h2, fun b hb => by cases hb; exact ha, h4, h5, h6⟩

theorem pkgOk_addName {p : Possibility} {chunk : Bytes} (hp : PkgOk p)
    (hc : ∀ c ∈ chunk, nameStop c = false) : PkgOk { p with name := p.name ++ chunk } := by
  obtain ⟨h1, h2, h3, h4, h5, h6⟩ := hp
  refine ⟨h1, ?_, h3, h4, h5, h6⟩
  intro c hm
  rcases List.mem_append.mp hm with hm | hm
  · exact h2 c hm
  · exact hc c hm

theorem controllers_spec (fuel : Nat) (p : Possibility) (inp : Bytes)
    (hf : (eatWs inp).length < fuel) (hp : PkgOk p) :
    Post (parseControllers fuel p inp) (fun r =>
      PkgOk r.1 ∧ r.1.name = p.name ∧ r.2.length ≤ (eatWs inp).length ∧
      (term (peek (eatWs inp)) = false → r.2.length < (eatWs inp).length) ∧
      term (peek r.2) = true) := by
  induction fuel generalizing p inp with
  | zero => omega
  | succ fuel ih =>
    rw [parseControllers]
    split
    · rename_i ht
      have ht' : term (peek (eatWs inp)) = true := ht
      exact ⟨hp, rfl, Nat.le_refl _, fun hn => (by rw [ht'] at hn; cases hn), ht⟩
    · rename_i ht
      have ht' : term (peek (eatWs inp)) = false := by simpa using ht
      split
      · -- version
        split
        · simp
        · split
          · rename_i e he; exact parseVersion_err he
          · rename_i v inp' he
            obtain ⟨hv, hl⟩ := parseVersion_ok he
            have hl' := eatWs_length_le inp'
            refine (ih _ inp' (by omega) (pkgOk_setVersion hp hv)).mono ?_
            intro r hr
            exact ⟨hr.1, hr.2.1, by omega, fun _ => by omega, hr.2.2.2.2⟩
      · split
        · -- arch list
          obtain ⟨set, hset, hok⟩ := hp.2.2.2.1
          rw [hset]
          simp only
          split
          · simp
          · have hspec := parseArchs_spec set (eatWs inp) hok
            split
            · rename_i e he
              rw [he] at hspec; exact hspec
            · rename_i set' inp' he
              rw [he] at hspec
              obtain ⟨hs', hl⟩ := hspec
              simp only at hl
              have hl' := eatWs_length_le inp'
              refine (ih _ inp' (by omega) (pkgOk_setArchs hp hs')).mono ?_
              intro r hr
              exact ⟨hr.1, hr.2.1, by omega, fun _ => by omega, hr.2.2.2.2⟩
        · split
          · -- stage set
            have hspec := parseStageSet_spec (eatWs inp)
            split
            · rename_i e he
              rw [he] at hspec; exact hspec
            · rename_i ss inp' he
              rw [he] at hspec
              obtain ⟨hs', hl⟩ := hspec
              simp only at hl hs'
              have hl' := eatWs_length_le inp'
              have hp' : PkgOk (if ss.isEmpty = true then p
                  else { p with stageSets := p.stageSets ++ [ss] }) := by
                split
                · exact hp
                · rename_i hne
                  exact pkgOk_addStage hp ⟨by intro e; rw [e] at hne; exact hne rfl, hs'⟩
              have hn' : (if ss.isEmpty = true then p
                  else { p with stageSets := p.stageSets ++ [ss] }).name = p.name := by
                split <;> rfl
              refine (ih _ inp' (by omega) hp').mono ?_
              intro r hr
              exact ⟨hr.1, hr.2.1.trans hn', by omega, fun _ => by omega, hr.2.2.2.2⟩
          · simp

/-! ### one possibility -/

theorem eatWs_length_lt {l : Bytes} (h : isWs (peek l) = true) : (eatWs l).length < l.length := by
  cases l with
  | nil => cases h
  | cons c r =>
    have h' : isWs c = true := h
    rw [eatWs_cons_ws r h']
    have := eatWs_length_le r
    simp only [List.length_cons]; omega

theorem peek_append_step {n rest rest' : Bytes} (h : peek (n ++ rest) ≠ 36)
    (h' : peek rest' ≠ 36) : peek (n ++ rest') ≠ 36 := by
  cases n with
  | nil => exact h'
  | cons c n => exact h

/-- what a name-stop byte that is neither ':' nor a terminator can be -/
theorem nameStop_cases {c : Nat} (h : nameStop c = true) (h58 : c ≠ 58) (ht : term c = false) :
    isWs c = true ∨ c = 40 := by
  simp only [nameStop, Bool.or_eq_true, decide_eq_true_eq] at h
  simp only [term, Bool.or_eq_false_iff, decide_eq_false_iff_not] at ht
  simp only [isWs, Bool.or_eq_true, decide_eq_true_eq]
  omega

/-- the possibility loop: result and progress -/
def PossPost (inp : Bytes) (r : Option Possibility × Bytes) : Prop :=
  (∀ q, r.1 = some q → PossOk q) ∧ r.2.length ≤ inp.length ∧
    (term (peek inp) = false → r.2.length < inp.length)

theorem possLoop_spec (fuel : Nat) (p : Possibility) (inp : Bytes) (hf : inp.length < fuel)
    (hp : PkgOk p) (hJ : peek (p.name ++ inp) ≠ 36) :
    Post (parsePossibilityLoop fuel p inp) (PossPost inp) := by
  induction fuel generalizing p inp with
  | zero => omega
  | succ fuel ih =>
    rw [parsePossibilityLoop]
    simp only
    have hlen := takeUntil_length nameStop inp
    have happ := takeUntil_append_eq nameStop inp
    have hchunk := takeUntil_fst_no_stop nameStop inp
    have hrest := takeUntil_snd_peek nameStop inp
    generalize (takeUntil nameStop inp).1 = chunk at *
    generalize (takeUntil nameStop inp).2 = rest at *
    have hp1 := pkgOk_addName hp hchunk
    have hJ1 : peek ((p.name ++ chunk) ++ rest) ≠ 36 := by
      rw [List.append_assoc, happ]; exact hJ
    split
    · -- ':'
      rename_i h58
      have hne : rest ≠ [] := ne_nil_of_peek (by rw [h58]; decide)
      obtain ⟨a, ha, hm⟩ := parseMultiarch_eq rest
      rw [hm]
      simp only
      have hwf := parseArch_wf stopConst_multiarch (takeUntil_fst_no_stop multiarchStop _) ha
      have hl1 := takeUntil_snd_length_le multiarchStop (next rest).2
      have hl2 := next_snd_length_lt hne
      have hpk : peek (takeUntil multiarchStop (next rest).2).2 ≠ 36 := by
        rcases takeUntil_snd_peek multiarchStop (next rest).2 with e | e
        · rw [e]; decide
        · intro h36; rw [h36] at e; cases e
      refine (ih _ _ (by omega) (pkgOk_setArch hp1 hwf) (peek_append_step hJ1 hpk)).mono ?_
      intro r hr
      obtain ⟨hr1, hr2, -⟩ := hr
      exact ⟨hr1, by omega, fun _ => by omega⟩
    · rename_i h58
      split
      · -- a terminator
        rename_i ht
        have ht' : term (peek rest) = true := ht
        refine ⟨?_, by simp only; omega, ?_⟩
        · intro q hq
          simp only at hq
          split at hq
          · cases hq
          · rename_i hne
            cases hq
            have hne' : p.name ++ chunk ≠ [] := by
              intro e; rw [e] at hne; exact hne rfl
            refine Or.inr ⟨hp1, hne', ?_⟩
            rw [← peek_append_of_ne_nil rest hne']
            exact hJ1
        · intro hn
          simp only
          cases chunk with
          | nil =>
            simp only [List.nil_append] at happ
            rw [happ] at ht'
            rw [ht'] at hn; cases hn
          | cons c chunk => simp only [List.length_cons] at hlen; omega
      · -- white space or '('
        rename_i ht
        have ht' : term (peek rest) = false := by simpa using ht
        have hstop : nameStop (peek rest) = true := by
          rcases hrest with e | e
          · rw [e] at ht'; cases ht'
          · exact e
        have hspec := controllers_spec (rest.length + 1) _ rest
          (by have := eatWs_length_le rest; omega) hp1
        split
        · rename_i e he
          rw [he] at hspec; exact hspec
        · rename_i p' rest' he
          rw [he] at hspec
          obtain ⟨hp', hname, hle, hlt, hterm⟩ := hspec
          simp only at hp' hname hle hlt hterm
          have hlt' : rest'.length < rest.length := by
            rcases nameStop_cases hstop h58 ht' with hws | h40
            · have := eatWs_length_lt hws; omega
            · have hnw : isWs (peek rest) = false := by rw [h40]; decide
              rw [eatWs_of_peek hnw] at hlt hle
              exact hlt ht'
          have hpk : peek rest' ≠ 36 := by
            intro h36; rw [h36] at hterm; cases hterm
          have hJ' : peek (p'.name ++ rest') ≠ 36 := by
            rw [hname]; exact peek_append_step hJ1 hpk
          refine (ih p' rest' (by omega) hp' hJ').mono ?_
          intro r hr
          obtain ⟨hr1, hr2, -⟩ := hr
          exact ⟨hr1, by omega, fun _ => by omega⟩

theorem parsePossibility_spec (inp : Bytes) :
    Post (parsePossibility inp) (PossPost inp) := by
  unfold parsePossibility
  simp only
  have hle := eatWs_length_le inp
  split
  · split
    · rename_i e he; exact parseSubstvar_err he
    · rename_i q rest he
      obtain ⟨hq, hl⟩ := parseSubstvar_ok he
      exact ⟨fun q' hq' => by cases hq'; exact Or.inl hq, by simp only; omega,
        fun _ => by simp only; omega⟩
  · rename_i h36
    refine (possLoop_spec _ emptyPossibility (eatWs inp) (Nat.lt_succ_self _) pkgOk_empty
      (by simpa [emptyPossibility] using h36)).mono ?_
    intro r hr
    refine ⟨hr.1, by have := hr.2.1; omega, ?_⟩
    intro hn
    cases hws : isWs (peek inp)
    · rw [eatWs_of_peek hws] at hr
      exact hr.2.2 hn
    · have := eatWs_length_lt hws
      have := hr.2.1
      omega

/-! ### relations and the dependency -/

theorem relLoop_spec (fuel : Nat) (acc : Relation) (inp : Bytes) (hf : inp.length < fuel)
    (hacc : ∀ p ∈ acc, PossOk p) :
    Post (parseRelationLoop fuel acc inp) (fun r =>
      (∀ p ∈ r.1, PossOk p) ∧ r.2.length ≤ inp.length ∧
      (peek inp ≠ 0 → peek inp ≠ 44 → r.2.length < inp.length)) := by
  induction fuel generalizing acc inp with
  | zero => omega
  | succ fuel ih =>
    rw [parseRelationLoop]
    split
    · rename_i h
      simp only [Bool.or_eq_true, decide_eq_true_eq] at h
      exact ⟨hacc, Nat.le_refl _, fun h0 h44 => by rcases h with h | h <;> contradiction⟩
    · rename_i h
      split
      · rename_i h124
        have hne : inp ≠ [] := ne_nil_of_peek (by rw [h124]; decide)
        have h1 := next_snd_length_lt hne
        have h2 := eatWs_length_le (next inp).2
        refine (ih acc _ (by omega) hacc).mono ?_
        intro r hr
        exact ⟨hr.1, by omega, fun _ _ => by omega⟩
      · rename_i h124
        have hterm : term (peek inp) = false := by
          simp only [Bool.or_eq_true, decide_eq_true_eq, not_or] at h
          simp [term, h.1, h.2, h124]
        have hspec := parsePossibility_spec inp
        split
        · rename_i e he
          rw [he] at hspec; exact hspec
        · rename_i q rest he
          rw [he] at hspec
          obtain ⟨hq, hle, hlt⟩ := hspec
          simp only at hq hle hlt
          have := hlt hterm
          refine (ih (acc ++ [q]) rest (by omega) ?_).mono ?_
          · intro x hx
            rcases List.mem_append.mp hx with hx | hx
            · exact hacc x hx
            · rw [List.mem_singleton] at hx; subst hx; exact hq _ rfl
          · intro r hr
            exact ⟨hr.1, by omega, fun _ _ => by omega⟩
        · rename_i rest he
          rw [he] at hspec
          obtain ⟨hq, hle, hlt⟩ := hspec
          simp only at hq hle hlt
          have := hlt hterm
          refine (ih acc rest (by omega) hacc).mono ?_
          intro r hr
          exact ⟨hr.1, by omega, fun _ _ => by omega⟩

theorem parseRelation_spec (inp : Bytes) :
    Post (parseRelation inp) (fun r =>
      (∀ p ∈ r.1, PossOk p) ∧ (peek inp ≠ 0 → peek inp ≠ 44 → r.2.length < inp.length)) := by
  unfold parseRelation
  simp only
  refine (relLoop_spec _ [] (eatWs inp) (Nat.lt_succ_self _) (by simp)).mono ?_
  intro r hr
  refine ⟨hr.1, ?_⟩
  intro h0 h44
  cases hws : isWs (peek inp)
  · rw [eatWs_of_peek hws] at hr
    exact hr.2.2 h0 h44
  · have := eatWs_length_lt hws
    have := hr.2.1
    omega

theorem depLoop_spec (fuel : Nat) (acc : Dependency) (inp : Bytes) (hf : inp.length < fuel)
    (hacc : OutInv acc) : Post (parseDependencyLoop fuel acc inp) OutInv := by
  induction fuel generalizing acc inp with
  | zero => omega
  | succ fuel ih =>
    rw [parseDependencyLoop]
    split
    · exact hacc
    · rename_i h0
      split
      · rename_i h44
        have hne : inp ≠ [] := ne_nil_of_peek h0
        have h1 := next_snd_length_lt hne
        have h2 := eatWs_length_le (next inp).2
        exact ih acc _ (by omega) hacc
      · rename_i h44
        have hspec := parseRelation_spec inp
        split
        · rename_i e he
          rw [he] at hspec; exact hspec
        · rename_i rel rest he
          rw [he] at hspec
          obtain ⟨hrel, hlt⟩ := hspec
          simp only at hrel hlt
          have := hlt h0 h44
          refine ih _ rest (by omega) ?_
          split
          · exact hacc
          · rename_i hne
            intro x hx
            rcases List.mem_append.mp hx with hx | hx
            · exact hacc x hx
            · rw [List.mem_singleton] at hx; subst hx
              exact ⟨by intro e; rw [e] at hne; exact hne rfl, hrel⟩

theorem parse_spec (s : Bytes) : Post (parse s) OutInv := by
  unfold parse
  exact depLoop_spec _ [] (eatWs s) (Nat.lt_succ_self _) (fun r hr => by cases hr)

/-- C18 for `Dep.parse` -/
theorem parse_total (s : Bytes) : parse s ≠ .error .fuel ∧ parse s ≠ .error .panic :=
  (parse_spec s).not_fuel

/-- the invariant half of C05 -/
theorem parse_outInv {s : Bytes} {d : Dependency} (h : parse s = .ok d) : OutInv d :=
  (parse_spec s).of_ok h

/-! ### `ParseArchitectures` -/

theorem parseArchitectures_aux (parts : List Bytes) (acc : List Arch) :
    ∃ l, List.foldlM (m := Res) (fun (acc : List Arch) (el : Bytes) =>
      let el := Str.trimSet [32, 9, 10, 13] el
      if el.isEmpty then Except.ok acc else
      match parseArch el with
      | .ok a => Except.ok (acc ++ [a])
      | .error e => Except.error e) acc parts = .ok l := by
  induction parts generalizing acc with
  | nil => exact ⟨acc, rfl⟩
  | cons el parts ih =>
    rw [List.foldlM_cons]
    by_cases he : (Str.trimSet [32, 9, 10, 13] el).isEmpty = true
    · simp only [he, if_true]
      exact ih acc
    · obtain ⟨a, ha⟩ := parseArch_total (Str.trimSet [32, 9, 10, 13] el)
      simp only [he, ha]
      exact ih (acc ++ [a])

theorem parseArchitectures_total (s : Bytes) : ∃ l, parseArchitectures s = .ok l :=
  parseArchitectures_aux _ _

end GoDebian.Lemmas.DepFix
