/-
  Lemmas about the `ar` reader model on ARBITRARY bytes: what a successful `next` tells
  about the input, the invariant of `readFrom`, fuel sufficiency.  Core Lean only.
-/
import GoDebian.Model.Ar

namespace GoDebian.Lemmas.Ar
open GoDebian GoDebian.Ar

/-! ### `readAt` -/

theorem readAt_length (bs : Bytes) (off n : Nat) :
    (readAt bs off n).length = min n (bs.length - off) := by
  simp [readAt, List.length_take, List.length_drop]

theorem readAt_getElem? (bs : Bytes) (off n i : Nat) (h : i < n) :
    (readAt bs off n)[i]? = bs[off + i]? := by
  simp [readAt, h, List.getElem?_drop]

/-! ### `parseEntry`, `next` -/

theorem parseEntry_ok {line : Bytes} {off : Nat} {e : Entry} (h : parseEntry line off = .ok e) :
    line.length = 60 ∧ line.getD 58 0 = 96 ∧ line.getD 59 0 = 10 ∧
      e.hdrOff = off ∧ e.dataOff = off + 60 := by
  unfold parseEntry at h
  split at h
  · cases h
  · rename_i hlen
    split at h
    · cases h
    · rename_i hm
      simp only at h
      split at h
      · injection h with h
        subst h
        refine ⟨by omega, ?_, ?_, rfl, rfl⟩ <;> omega
      · cases h

/-- Everything a successful `Next` tells. -/
theorem next_entry {bs : Bytes} {off off' : Nat} {e : Entry} (h : next bs off = .entry e off') :
    off + 60 ≤ bs.length ∧ off + 60 ≤ off' ∧
      bs[off + 58]? = some 96 ∧ bs[off + 59]? = some 10 ∧ 0 ≤ e.size ∧
      (data bs e).length = e.size.toNat ∧ e.hdrOff = off ∧ e.dataOff = off + 60 := by
  unfold next at h
  simp only at h
  split at h
  · cases h
  · rename_i hlen
    have hlen60 : off + 60 ≤ bs.length := by
      rw [readAt_length] at hlen; omega
    split at h
    · cases h
    · rename_i e' hp
      obtain ⟨hl, h58, h59, hh, hd⟩ := parseEntry_ok hp
      split at h
      · cases h
      · rename_i hs
        split at h
        · cases h
        · rename_i hprobe
          injection h with h1 h2
          subst h1
          have g58 : (readAt bs off 60)[58]? = some 96 := by
            rw [List.getD_eq_getElem?_getD] at h58
            have : 58 < (readAt bs off 60).length := by omega
            rw [List.getElem?_eq_getElem this] at h58 ⊢
            simpa using h58
          have g59 : (readAt bs off 60)[59]? = some 10 := by
            rw [List.getD_eq_getElem?_getD] at h59
            have : 59 < (readAt bs off 60).length := by omega
            rw [List.getElem?_eq_getElem this] at h59 ⊢
            simpa using h59
          rw [readAt_getElem? _ _ _ _ (by omega)] at g58 g59
          refine ⟨hlen60, by omega, g58, g59, by omega, ?_, hh, hd⟩
          unfold data
          rw [hd, readAt_length]
          by_cases hz : e'.size.toNat = 0
          · omega
          · have : (readAt bs (off + 60 + e'.size.toNat - 1) 1).length = 1 := by
              apply Classical.byContradiction
              intro hne
              exact hprobe ⟨by omega, hne⟩
            rw [readAt_length] at this
            omega

/-! ### `readFrom` -/

/-- What `readFrom` guarantees about every entry it adds to the accumulator. -/
def Good (bs : Bytes) (x : Entry) : Prop :=
  bs[x.hdrOff + 58]? = some 96 ∧ bs[x.hdrOff + 59]? = some 10 ∧ 0 ≤ x.size
    ∧ (data bs x).length = x.size.toNat ∧ x.dataOff = x.hdrOff + 60

theorem readFrom_spec (fuel : Nat) (bs : Bytes) (off : Nat) (acc es : List Entry) (e : End)
    (h : readFrom fuel bs off acc = (es, e)) :
    ((bs.length - off) / 60 < fuel → e ≠ .fuel) ∧
    (∃ k, es.length = acc.length + k ∧ (k = 0 ∨ off + 60 * k ≤ bs.length)) ∧
    ((∀ x ∈ acc, Good bs x) → ∀ x ∈ es, Good bs x) := by
  induction fuel generalizing off acc with
  | zero =>
    simp only [readFrom, Prod.mk.injEq] at h
    obtain ⟨rfl, rfl⟩ := h
    exact ⟨fun hf => by omega, ⟨0, rfl, Or.inl rfl⟩, fun ha => ha⟩
  | succ fuel ih =>
    unfold readFrom at h
    split at h
    · simp only [Prod.mk.injEq] at h
      obtain ⟨rfl, rfl⟩ := h
      exact ⟨fun _ => by simp, ⟨0, rfl, Or.inl rfl⟩, fun ha => ha⟩
    · simp only [Prod.mk.injEq] at h
      obtain ⟨rfl, rfl⟩ := h
      exact ⟨fun _ => by simp, ⟨0, rfl, Or.inl rfl⟩, fun ha => ha⟩
    · rename_i x off' hn
      obtain ⟨h1, h2, h3, h4, h5, h6, h7, h8⟩ := next_entry hn
      obtain ⟨ihf, ⟨k, hk, hk'⟩, ihg⟩ := ih off' (acc ++ [x]) h
      refine ⟨fun hf => ihf ?_, ⟨k + 1, ?_, Or.inr ?_⟩, fun ha => ihg ?_⟩
      · have : (bs.length - off') / 60 + 1 ≤ (bs.length - off) / 60 := by
          have : bs.length - off = (bs.length - off - 60) + 60 := by omega
          rw [this, Nat.add_div_right _ (by omega)]
          have := Nat.div_le_div_right (c := 60) (show bs.length - off' ≤ bs.length - off - 60 by omega)
          omega
        omega
      · simp only [List.length_append, List.length_cons, List.length_nil] at hk
        omega
      · rcases hk' with rfl | hk'
        · omega
        · omega
      · intro y hy
        rcases List.mem_append.mp hy with hy | hy
        · exact ha y hy
        · have : y = x := by simpa using hy
          subst this
          exact ⟨h7 ▸ h3, h7 ▸ h4, h5, h6, by rw [h8, h7]⟩

/-! ### `readAll` -/

theorem readAll_some {bs : Bytes} {es : List Entry} {e : End} (h : readAll bs = some (es, e)) :
    8 ≤ bs.length ∧ readFrom (bs.length / 60 + 1) bs 8 [] = (es, e) := by
  unfold readAll checkAr at h
  simp only at h
  split at h
  · cases h
  · rename_i off hc
    split at hc
    · cases hc
    · rename_i hl
      split at hc
      · cases hc
      · injection hc with hc
        subst hc
        rw [readAt_length] at hl
        injection h with h
        exact ⟨by omega, h⟩

theorem readAll_terminates {bs : Bytes} {es : List Entry} {e : End}
    (h : readAll bs = some (es, e)) : e ≠ .fuel := by
  obtain ⟨h8, hr⟩ := readAll_some h
  apply (readFrom_spec _ _ _ _ _ _ hr).1
  have := Nat.div_le_div_right (c := 60) (show bs.length - 8 ≤ bs.length by omega)
  omega

theorem readAll_progress {bs : Bytes} {es : List Entry} {e : End}
    (h : readAll bs = some (es, e)) : 8 + 60 * es.length ≤ bs.length := by
  obtain ⟨h8, hr⟩ := readAll_some h
  obtain ⟨k, hk, hk'⟩ := (readFrom_spec _ _ _ _ _ _ hr).2.1
  simp only [List.length_nil, Nat.zero_add] at hk
  rcases hk' with rfl | hk'
  · omega
  · omega

theorem readAll_entries {bs : Bytes} {es : List Entry} {e : End}
    (h : readAll bs = some (es, e)) : ∀ x ∈ es, Good bs x := by
  obtain ⟨_, hr⟩ := readAll_some h
  exact (readFrom_spec _ _ _ _ _ _ hr).2.2 (by simp)

end GoDebian.Lemmas.Ar
