/-
  The output invariant of the dependency parser (`OutInv`: what every value returned by
  `Dep.parse` satisfies) and what each non-loop sub-parser guarantees about its result and
  about the input it leaves.  Core Lean only.
-/
import GoDebian.Lemmas.DepFixBasic
import GoDebian.Lemmas.ArchRoundTrip

namespace GoDebian.Lemmas.DepFix
open GoDebian GoDebian.Dep

/-! ### stop sets -/

abbrev svStop (c : Nat) : Bool := c = 0 || c = 125
abbrev numStop (c : Nat) : Bool := c = 0 || c = 41
abbrev entryStop (c : Nat) : Bool := c = 0 || c = 33 || c = 93 || isWs c
abbrev stageStop (c : Nat) : Bool := c = 0 || c = 33 || c = 62 || isWs c

/-! ### the invariant -/

/-- an architecture triple made of '-'-free abi and os parts, with no stop byte anywhere -/
def ArchWF (stop : Nat → Bool) (a : Arch) : Prop :=
  Arch.ArchInv a ∧ (∀ c ∈ a.abi, stop c = false) ∧ (∀ c ∈ a.os, stop c = false) ∧
    (∀ c ∈ a.cpu, stop c = false)

def IsOp (op : Bytes) : Prop :=
  op = [61] ∨ op = [62, 61] ∨ op = [60, 61] ∨ op = [60, 60] ∨ op = [62, 62]

/-- one of the five operators; a number without NUL and ')' and without leading or
    trailing white space (it may be empty and may contain inner white space) -/
def VerOk (v : VersionRelation) : Prop :=
  IsOp v.op ∧ (∀ c ∈ v.number, numStop c = false) ∧ isWs (peek v.number) = false ∧
    v.number.reverse.dropWhile isWs = v.number.reverse

/-- `!` or a non-empty name (or both); the name has no NUL, '!', '>' or white space -/
def StageOk (s : Stage) : Prop :=
  (s.neg = true ∨ s.name ≠ []) ∧ ∀ c ∈ s.name, stageStop c = false

def StageSetOk (ss : List Stage) : Prop := ss ≠ [] ∧ ∀ s ∈ ss, StageOk s

/-- the initial `⟨false, []⟩` or a non-empty list with the common flag -/
def ArchSetOk (set : ArchSet) : Prop :=
  (set.archs = [] → set.neg = false) ∧ ∀ a ∈ set.archs, ArchWF entryStop a

/-- the loop invariant of `parsePossibility` for a package (everything but "the name is
    non-empty") -/
def PkgOk (p : Possibility) : Prop :=
  p.substvar = false ∧
  (∀ c ∈ p.name, nameStop c = false) ∧
  (∀ a, p.arch = some a → ArchWF multiarchStop a) ∧
  (∃ set, p.archs = some set ∧ ArchSetOk set) ∧
  (∀ v, p.version = some v → VerOk v) ∧
  (∀ ss ∈ p.stageSets, StageSetOk ss)

def PossOk (p : Possibility) : Prop :=
  (∃ name, p = ⟨name, none, none, [], none, true⟩ ∧ ∀ c ∈ name, svStop c = false) ∨
  (PkgOk p ∧ p.name ≠ [] ∧ peek p.name ≠ 36)

def RelOk (r : Relation) : Prop := r ≠ [] ∧ ∀ p ∈ r, PossOk p

/-- Everything `Dep.parse` can return. -/
def OutInv (d : Dependency) : Prop := ∀ r ∈ d, RelOk r

theorem pkgOk_empty : PkgOk emptyPossibility := by
  refine ⟨rfl, ?_, ?_, ⟨⟨false, []⟩, rfl, fun _ => rfl, ?_⟩, ?_, ?_⟩
  · intro c hc; cases hc
  · intro a ha; cases ha
  · intro a ha; cases ha
  · intro v hv; cases hv
  · intro ss hss; cases hss

/-! ### architectures -/

theorem exists_first_dash {n : Bytes} (h : 45 ∈ n) : ∃ x y, n = x ++ 45 :: y ∧ 45 ∉ x := by
  induction n with
  | nil => cases h
  | cons d n ih =>
    by_cases hd : d = 45
    · exact ⟨[], n, by simp [hd], by simp⟩
    · have hn : 45 ∈ n := by
        rcases List.mem_cons.mp h with e | e
        · exact absurd e.symm hd
        · exact e
      obtain ⟨x, y, rfl, hx⟩ := ih hn
      refine ⟨d :: x, y, rfl, ?_⟩
      intro hm
      rcases List.mem_cons.mp hm with e | e
      · exact hd e.symm
      · exact hx e

/-- how `parseArch` decomposes its argument -/
theorem parseArch_cases (n : Bytes) :
    (45 ∉ n ∧ parseArch n = .ok (if n = sAll ∨ n = sAny then ⟨n, n, n⟩ else ⟨sGnu, sLinux, n⟩)) ∨
    (∃ o c, n = o ++ 45 :: c ∧ 45 ∉ o ∧ 45 ∉ c ∧ parseArch n = .ok ⟨sAny, o, c⟩) ∨
    (∃ a o c, n = a ++ 45 :: (o ++ 45 :: c) ∧ 45 ∉ a ∧ 45 ∉ o ∧ parseArch n = .ok ⟨a, o, c⟩) := by
  by_cases h1 : 45 ∈ n
  · obtain ⟨x, y, rfl, hx⟩ := exists_first_dash h1
    by_cases h2 : 45 ∈ y
    · obtain ⟨o, c, rfl, ho⟩ := exists_first_dash h2
      exact Or.inr (Or.inr ⟨x, o, c, rfl, hx, ho, by
        simp only [parseArch, Arch.splitN3_three x o c hx ho]⟩)
    · exact Or.inr (Or.inl ⟨x, y, rfl, hx, h2, by
        simp only [parseArch, Arch.splitN3_two x y hx h2]⟩)
  · refine Or.inl ⟨h1, ?_⟩
    simp only [parseArch, Arch.splitN3_one n h1]
    split <;> rfl

/-- the stop set does not contain the bytes of the fixed words -/
def StopConst (stop : Nat → Bool) : Prop :=
  ∀ c ∈ sAny ++ sAll ++ sGnu ++ sLinux ++ [45], stop c = false

theorem stopConst_entry : StopConst entryStop := by unfold StopConst; decide
theorem stopConst_multiarch : StopConst multiarchStop := by unfold StopConst; decide

theorem parseArch_wf {stop : Nat → Bool} (hs : StopConst stop) {n : Bytes} {a : Arch}
    (hn : ∀ c ∈ n, stop c = false) (h : parseArch n = .ok a) : ArchWF stop a := by
  have hany : ∀ c ∈ sAny, stop c = false := fun c hc => hs c (by simp [hc])
  have hgnu : ∀ c ∈ sGnu, stop c = false := fun c hc => hs c (by simp [hc])
  have hlinux : ∀ c ∈ sLinux, stop c = false := fun c hc => hs c (by simp [hc])
  refine ⟨Arch.parseArch_inv n a h, ?_⟩
  rcases parseArch_cases n with ⟨-, e⟩ | ⟨o, c, rfl, -, -, e⟩ | ⟨x, o, c, rfl, -, -, e⟩
  · rw [e] at h
    split at h
    · cases h; exact ⟨hn, hn, hn⟩
    · cases h; exact ⟨hgnu, hlinux, hn⟩
  · rw [e] at h; cases h
    exact ⟨hany, fun d hd => hn d (by simp [hd]), fun d hd => hn d (by simp [hd])⟩
  · rw [e] at h; cases h
    exact ⟨fun d hd => hn d (by simp [hd]), fun d hd => hn d (by simp [hd]),
      fun d hd => hn d (by simp [hd])⟩

theorem arch_render_ne_nil (a : Arch) : a.render ≠ [] := by
  obtain ⟨abi, os, cpu⟩ := a
  simp only [Arch.render, dash]
  split
  · rename_i h
    rcases h.1 with e | e <;> (rw [e]; decide)
  · split
    · rename_i h; exact h.2.1
    · split <;> simp

theorem arch_render_no_stop {stop : Nat → Bool} (h45 : stop 45 = false) {a : Arch}
    (h : ArchWF stop a) : ∀ c ∈ a.render, stop c = false := by
  obtain ⟨abi, os, cpu⟩ := a
  obtain ⟨-, h1, h2, h3⟩ := h
  simp only at h1 h2 h3
  simp only [Arch.render, dash]
  intro c hc
  split at hc
  · exact h3 c hc
  · split at hc
    · exact h3 c hc
    · split at hc
      · simp only [List.mem_append, List.mem_singleton] at hc
        rcases hc with (hc | rfl) | hc
        · exact h2 c hc
        · exact h45
        · exact h3 c hc
      · simp only [List.mem_append, List.mem_singleton] at hc
        rcases hc with (((hc | rfl) | hc) | rfl) | hc
        · exact h1 c hc
        · exact h45
        · exact h2 c hc
        · exact h45
        · exact h3 c hc

theorem parseArch_render_wf {stop : Nat → Bool} {a : Arch} (h : ArchWF stop a) :
    parseArch a.render = .ok a := Arch.parseArch_render a h.1

theorem parseArch_total (s : Bytes) : ∃ a, parseArch s = .ok a := by
  rcases parseArch_cases s with ⟨-, e⟩ | ⟨o, c, -, -, -, e⟩ | ⟨x, o, c, -, -, -, e⟩ <;>
    exact ⟨_, e⟩

/-! ### `parseSubstvar` -/

theorem parseSubstvar_err {inp : Bytes} {e : Err} (h : parseSubstvar inp = .error e) :
    e = .err := by
  unfold parseSubstvar at h
  simp only at h
  split at h
  · cases h
  · cases h; rfl

theorem parseSubstvar_ok {inp : Bytes} {p : Possibility} {rest : Bytes}
    (h : parseSubstvar inp = .ok (p, rest)) :
    (∃ name, p = ⟨name, none, none, [], none, true⟩ ∧ ∀ c ∈ name, svStop c = false) ∧
      rest.length < inp.length := by
  unfold parseSubstvar at h
  simp only at h
  split at h
  · rename_i rest' htu
    cases h
    refine ⟨⟨_, rfl, ?_⟩, ?_⟩
    · exact takeUntil_fst_no_stop svStop (next (next (eatWs inp)).2).2
    · have h1 := takeUntil_snd_length_le svStop (next (next (eatWs inp)).2).2
      rw [htu] at h1
      have h2 := next_snd_length_le (next (eatWs inp)).2
      have h3 := next_snd_length_le (eatWs inp)
      have h4 := eatWs_length_le inp
      simp only [List.length_cons] at h1
      omega
  · cases h

/-! ### `parseMultiarch` -/

theorem parseMultiarch_eq (inp : Bytes) :
    ∃ a, parseArch (takeUntil multiarchStop (next inp).2).1 = .ok a ∧
      parseMultiarch inp = .ok (a, (takeUntil multiarchStop (next inp).2).2) := by
  obtain ⟨a, ha⟩ := parseArch_total (takeUntil multiarchStop (next inp).2).1
  refine ⟨a, ha, ?_⟩
  unfold parseMultiarch
  simp only [ha]

/-! ### `parseVersion` -/

theorem parseOperator_err {inp : Bytes} {e : Err} (h : parseOperator inp = .error e) :
    e = .err := by
  unfold parseOperator at h
  simp only at h
  repeat' split at h
  all_goals first | (cases h; done) | (cases h; rfl)

theorem parseOperator_ok {inp : Bytes} {op rest : Bytes} (h : parseOperator inp = .ok (op, rest)) :
    IsOp op ∧ rest.length ≤ inp.length := by
  have h1 := next_snd_length_le (eatWs inp)
  have h2 := next_snd_length_le (next (eatWs inp)).2
  have h3 := eatWs_length_le inp
  unfold parseOperator at h
  simp only at h
  split at h
  · cases h
    exact ⟨Or.inl rfl, by omega⟩
  · split at h
    · cases h
    · split at h
      · rename_i hc
        cases h
        refine ⟨?_, by omega⟩
        simp only [Bool.or_eq_true, Bool.and_eq_true, decide_eq_true_eq] at hc
        rcases hc with ((⟨a, b⟩ | ⟨a, b⟩) | ⟨a, b⟩) | ⟨a, b⟩ <;> rw [a, b] <;> simp [IsOp]
      · cases h

/-- stripping trailing white space leaves a prefix -/
theorem rstrip_prefix (raw : Bytes) :
    ∃ t, raw = (raw.reverse.dropWhile isWs).reverse ++ t := by
  refine ⟨(raw.reverse.takeWhile isWs).reverse, ?_⟩
  rw [← List.reverse_append, List.takeWhile_append_dropWhile, List.reverse_reverse]

theorem rstrip_mem {raw : Bytes} {c : Nat} (h : c ∈ (raw.reverse.dropWhile isWs).reverse) :
    c ∈ raw := by
  have := List.dropWhile_subset isWs (List.mem_reverse.mp h)
  exact List.mem_reverse.mp this

theorem parseNumber_err {inp : Bytes} {e : Err} (h : parseNumber inp = .error e) :
    e = .err := by
  unfold parseNumber at h
  simp only at h
  split at h
  · cases h
  · cases h; rfl

theorem parseNumber_ok {inp num rest : Bytes} (h : parseNumber inp = .ok (num, rest)) :
    (∃ r, rest = 41 :: r) ∧ rest.length ≤ inp.length ∧ (∀ c ∈ num, numStop c = false) ∧
      isWs (peek num) = false ∧ num.reverse.dropWhile isWs = num.reverse := by
  unfold parseNumber at h
  simp only at h
  split at h
  · rename_i r htu
    cases h
    refine ⟨⟨r, htu⟩, ?_, ?_, ?_, ?_⟩
    · have h1 := takeUntil_snd_length_le (fun c => decide (c = 0) || decide (c = 41)) (eatWs inp)
      have h2 := eatWs_length_le inp
      omega
    · intro c hc
      exact takeUntil_fst_no_stop numStop (eatWs inp) c (rstrip_mem hc)
    · obtain ⟨t, ht⟩ := rstrip_prefix (takeUntil numStop (eatWs inp)).1
      generalize ((takeUntil numStop (eatWs inp)).1.reverse.dropWhile isWs).reverse = num at ht ⊢
      cases num with
      | nil => rfl
      | cons c n =>
        have h1 := takeUntil_append_eq numStop (eatWs inp)
        rw [ht] at h1
        exact eatWs_head h1.symm
    · rw [List.reverse_reverse]
      exact eatWs_idem _
  · cases h

theorem parseVersion_err {inp : Bytes} {e : Err} (h : parseVersion inp = .error e) :
    e = .err := by
  unfold parseVersion at h
  simp only at h
  split at h
  · cases h; exact parseOperator_err (by assumption)
  · split at h
    · cases h; exact parseNumber_err (by assumption)
    · cases h

theorem parseVersion_ok {inp : Bytes} {v : VersionRelation} {rest : Bytes}
    (h : parseVersion inp = .ok (v, rest)) : VerOk v ∧ rest.length < inp.length := by
  unfold parseVersion at h
  simp only at h
  split at h
  · cases h
  · rename_i op inp1 hop
    split at h
    · cases h
    · rename_i num inp2 hnum
      cases h
      obtain ⟨hisop, hl1⟩ := parseOperator_ok hop
      obtain ⟨⟨r, rfl⟩, hl2, hb, hlead, htrail⟩ := parseNumber_ok hnum
      refine ⟨⟨hisop, hb, hlead, htrail⟩, ?_⟩
      have h1 := next_snd_length_le (eatWs inp)
      have h2 := eatWs_length_le inp
      simp only [next_cons, List.length_cons] at hl2 ⊢
      omega

/-! ### one entry of a `[...]` list, one entry of a `<...>` list -/

theorem parseArchEntry_err {set : ArchSet} {inp : Bytes} {e : Err}
    (h : parseArchEntry set inp = .error e) : e = .err := by
  unfold parseArchEntry at h
  simp only at h
  split at h
  · cases h; rfl
  · split at h
    · cases h; rfl
    · split at h
      · cases h; rfl
      · split at h
        · cases h
        · rename_i e' he
          obtain ⟨a, ha⟩ := parseArch_total
            (takeUntil entryStop (if peek (eatWs inp) = 33 then (next (eatWs inp)).2 else eatWs inp)).1
          rw [ha] at he
          cases he

theorem entry_rest_length {c : Nat} {r : Bytes} (h0 : c ≠ 0) (h93 : c ≠ 93)
    (hws : isWs c = false) :
    (takeUntil entryStop (if c = 33 then r else c :: r)).2.length < (c :: r).length := by
  have := takeUntil_snd_length_le entryStop r
  by_cases h33 : c = 33
  · rw [if_pos h33]
    simp only [List.length_cons]
    omega
  · rw [if_neg h33]
    have hstop : entryStop c = false := by
      simp [entryStop, h0, h33, h93, hws]
    rw [takeUntil_cons_go r hstop]
    simp only [List.length_cons]
    omega

theorem parseArchEntry_ok {set : ArchSet} {inp : Bytes} {set' : ArchSet} {inp' : Bytes}
    (h : parseArchEntry set inp = .ok (set', inp')) {c : Nat} {r : Bytes}
    (hc : eatWs inp = c :: r) (h0 : c ≠ 0) (h93 : c ≠ 93) (hset : ArchSetOk set) :
    ArchSetOk set' ∧ inp'.length < (c :: r).length := by
  have hws := eatWs_head hc
  have hlen := entry_rest_length (r := r) h0 h93 hws
  unfold parseArchEntry at h
  simp only at h
  rw [hc] at h
  simp only [peek_cons, next_cons] at h
  have key : ∀ neg : Bool,
      (match (takeUntil entryStop (if c = 33 then r else c :: r)).2 with
        | [] => (Except.error Err.err : Res (ArchSet × Bytes))
        | c_1 :: _ =>
          if (decide (c_1 = 0) || decide (c_1 = 33)) = true then Except.error Err.err
          else
            match parseArch (takeUntil entryStop (if c = 33 then r else c :: r)).1 with
            | Except.ok a =>
              Except.ok (⟨neg, set.archs ++ [a]⟩, (takeUntil entryStop (if c = 33 then r else c :: r)).2)
            | Except.error e => Except.error e) = .ok (set', inp') →
      ArchSetOk set' ∧ inp'.length < (c :: r).length := by
    intro neg h
    split at h
    · cases h
    · split at h
      · cases h
      · split at h
        · rename_i a ha
          cases h
          refine ⟨⟨?_, ?_⟩, hlen⟩
          · intro hnil
            simp at hnil
          · intro b hb
            rcases List.mem_append.mp hb with hb | hb
            · exact hset.2 b hb
            · rw [List.mem_singleton] at hb
              subst hb
              exact parseArch_wf stopConst_entry (takeUntil_fst_no_stop entryStop _) ha
        · cases h
  by_cases hemp : set.archs.isEmpty = true
  · simp only [hemp, if_true] at h
    split at h
    · cases h
    · exact key _ h
  · simp only [hemp] at h
    split at h
    · cases h
    · exact key _ h

theorem parseStage_err {inp : Bytes} {e : Err} (h : parseStage inp = .error e) : e = .err := by
  unfold parseStage at h
  simp only at h
  split at h
  · cases h; rfl
  · split at h
    · cases h; rfl
    · cases h

theorem stage_rest_length {c : Nat} {r : Bytes} (h0 : c ≠ 0) (h62 : c ≠ 62)
    (hws : isWs c = false) :
    (takeUntil stageStop (if c = 33 then r else c :: r)).2.length < (c :: r).length := by
  have := takeUntil_snd_length_le stageStop r
  by_cases h33 : c = 33
  · rw [if_pos h33]
    simp only [List.length_cons]
    omega
  · rw [if_neg h33]
    have hstop : stageStop c = false := by
      simp [stageStop, h0, h33, h62, hws]
    rw [takeUntil_cons_go r hstop]
    simp only [List.length_cons]
    omega

theorem parseStage_ok {inp : Bytes} {st : Stage} {inp' : Bytes}
    (h : parseStage inp = .ok (st, inp')) {c : Nat} {r : Bytes}
    (hc : eatWs inp = c :: r) (h0 : c ≠ 0) (h62 : c ≠ 62) :
    StageOk st ∧ inp'.length < (c :: r).length := by
  have hws := eatWs_head hc
  have hlen := stage_rest_length (r := r) h0 h62 hws
  unfold parseStage at h
  simp only at h
  rw [hc] at h
  simp only [peek_cons, next_cons] at h
  split at h
  · cases h
  · split at h
    · cases h
    · cases h
      refine ⟨⟨?_, takeUntil_fst_no_stop stageStop _⟩, hlen⟩
      by_cases h33 : c = 33
      · exact Or.inl (by simp [h33])
      · right
        have hstop : stageStop c = false := by
          simp [stageStop, h0, h33, h62, hws]
        simp only [h33, if_false]
        rw [takeUntil_cons_go r hstop]
        simp

end GoDebian.Lemmas.DepFix
