/-
  `parsePossibility` consumes exactly the canonical rendering of a possibility that
  satisfies the output invariant.  Core Lean only.
-/
import GoDebian.Lemmas.DepFixCtl

namespace GoDebian.Lemmas.DepFix
open GoDebian GoDebian.Dep

/-! ### one iteration of the possibility loop -/

theorem poss_step_colon {n0 : Bytes} {ar : Option Arch} {as : Option ArchSet}
    {sss : List (List Stage)} {v : Option VersionRelation} {sv : Bool}
    {inp chunk Z W : Bytes} {a : Arch}
    (htu : takeUntil nameStop inp = (chunk, 58 :: Z))
    (hm : parseMultiarch (58 :: Z) = .ok (a, W)) (f : Nat) :
    parsePossibilityLoop (f + 1) ⟨n0, ar, as, sss, v, sv⟩ inp =
      parsePossibilityLoop f ⟨n0 ++ chunk, some a, as, sss, v, sv⟩ W := by
  rw [parsePossibilityLoop]
  simp only [htu, peek_cons, hm]
  simp

theorem poss_step_term {n0 : Bytes} {ar : Option Arch} {as : Option ArchSet}
    {sss : List (List Stage)} {v : Option VersionRelation} {sv : Bool}
    {inp chunk rest : Bytes}
    (htu : takeUntil nameStop inp = (chunk, rest)) (ht : term (peek rest) = true)
    (hne : n0 ++ chunk ≠ []) (f : Nat) :
    parsePossibilityLoop (f + 1) ⟨n0, ar, as, sss, v, sv⟩ inp =
      .ok (some ⟨n0 ++ chunk, ar, as, sss, v, sv⟩, rest) := by
  have h58 : ¬ (peek rest = 58) := by intro e; rw [e] at ht; cases ht
  have ht' : (decide (peek rest = 44) || decide (peek rest = 124) || decide (peek rest = 0)) = true := ht
  have hemp : (n0 ++ chunk).isEmpty = false := by
    cases h : n0 ++ chunk with
    | nil => exact absurd h hne
    | cons x xs => rfl
  rw [parsePossibilityLoop]
  simp only [htu, h58, if_false, ht', if_true, hemp]
  simp

theorem poss_step_ctl {n0 : Bytes} {ar : Option Arch} {as : Option ArchSet}
    {sss : List (List Stage)} {v : Option VersionRelation} {sv : Bool}
    {inp chunk rest rest' : Bytes} {p' : Possibility}
    (htu : takeUntil nameStop inp = (chunk, rest)) (h58 : peek rest ≠ 58)
    (ht : term (peek rest) = false)
    (hc : parseControllers (rest.length + 1) ⟨n0 ++ chunk, ar, as, sss, v, sv⟩ rest = .ok (p', rest'))
    (f : Nat) :
    parsePossibilityLoop (f + 1) ⟨n0, ar, as, sss, v, sv⟩ inp = parsePossibilityLoop f p' rest' := by
  have ht' : (decide (peek rest = 44) || decide (peek rest = 124) || decide (peek rest = 0)) = false := ht
  rw [parsePossibilityLoop]
  simp only [htu, h58, if_false, ht', hc]
  simp

/-! ### the head of the controllers part -/

theorem xhead (set : ArchSet) (hset : ArchSetOk set) (vo : Option VersionRelation)
    (sss : List (List Stage)) (tail : Bytes) (ht : TailOk tail) :
    (∃ m, archsPart set ++ (versionPart vo ++ (stagesPart sss ++ tail)) = 32 :: m) ∨
    (set = ⟨false, []⟩ ∧ vo = none ∧ sss = [] ∧ (tail = [] ∨ ∃ m, tail = 44 :: m)) := by
  by_cases hemp : set.archs = []
  · have hset' : set = ⟨false, []⟩ := by
      obtain ⟨neg, as⟩ := set
      simp only at hemp
      have := hset.1 hemp
      simp only at this
      rw [hemp, this]
    subst hset'
    cases vo with
    | some v => exact Or.inl ⟨_, by simp [archsPart, versionPart]; rfl⟩
    | none =>
      cases sss with
      | cons ss sss => exact Or.inl ⟨_, by simp [archsPart, versionPart, stagesPart]; rfl⟩
      | nil =>
        rcases ht with rfl | ⟨m, rfl⟩ | ⟨m, rfl⟩
        · exact Or.inr ⟨rfl, rfl, rfl, Or.inl rfl⟩
        · exact Or.inr ⟨rfl, rfl, rfl, Or.inr ⟨m, rfl⟩⟩
        · exact Or.inl ⟨_, by simp [archsPart, versionPart, stagesPart]; rfl⟩
  · have hne : set.archs.isEmpty = false := by
      cases h : set.archs with
      | nil => exact absurd h hemp
      | cons x xs => rfl
    exact Or.inl ⟨_, by simp [archsPart, hne]; rfl⟩

theorem term_nameStop {c : Nat} (h : term c = true) : nameStop c = true := by
  simp only [term, Bool.or_eq_true, decide_eq_true_eq] at h
  rcases h with (rfl | rfl) | rfl <;> decide

/-! ### the possibility loop on a rendering -/

theorem possLoop_render (n0 chunk : Bytes) (arch : Option Arch)
    (set : ArchSet) (hset : ArchSetOk set)
    (vo : Option VersionRelation) (hv : ∀ v, vo = some v → VerOk v)
    (sss : List (List Stage)) (hall : ∀ ss ∈ sss, StageSetOk ss)
    (tail : Bytes) (ht : TailOk tail)
    (hchunk : ∀ c ∈ chunk, nameStop c = false) (hne : n0 ++ chunk ≠ []) (fuel : Nat)
    (hf : (chunk ++ (archsPart set ++ (versionPart vo ++ (stagesPart sss ++ tail)))).length < fuel) :
    parsePossibilityLoop fuel ⟨n0, arch, some ⟨false, []⟩, [], none, false⟩
        (chunk ++ (archsPart set ++ (versionPart vo ++ (stagesPart sss ++ tail)))) =
      .ok (some ⟨n0 ++ chunk, arch, some set, sss, vo, false⟩, eatWs tail) := by
  cases fuel with
  | zero => omega
  | succ f =>
    rcases xhead set hset vo sss tail ht with ⟨m, hm⟩ | ⟨rfl, rfl, rfl, htail⟩
    · -- the controllers follow
      have hpk : peek (archsPart set ++ (versionPart vo ++ (stagesPart sss ++ tail))) = 32 := by
        rw [hm]; rfl
      have htu : takeUntil nameStop
          (chunk ++ (archsPart set ++ (versionPart vo ++ (stagesPart sss ++ tail)))) =
          (chunk, archsPart set ++ (versionPart vo ++ (stagesPart sss ++ tail))) :=
        takeUntil_append_peek _ _ hchunk (Or.inr (by rw [hpk]; decide))
      have hc := ctl_archs set hset vo hv sss hall (n0 ++ chunk) arch false tail ht
        ((archsPart set ++ (versionPart vo ++ (stagesPart sss ++ tail))).length + 1)
        (Nat.lt_succ_self _)
      rw [poss_step_ctl htu (by rw [hpk]; decide) (by rw [hpk]; decide) hc f]
      cases f with
      | zero =>
        rw [hm] at hf
        simp only [List.length_append, List.length_cons] at hf
        omega
      | succ f' =>
        have hterm := tailOk_term ht
        have htu2 : takeUntil nameStop (eatWs tail) = ([], eatWs tail) :=
          takeUntil_append_peek [] _ (by simp) (Or.inr (term_nameStop hterm))
        have := poss_step_term (n0 := n0 ++ chunk) (ar := arch) (as := some set) (sss := sss)
          (v := vo) (sv := false) htu2 hterm (by simpa using hne) f'
        simpa using this
    · -- nothing follows the name
      have hX : archsPart ⟨false, []⟩ ++ (versionPart none ++ (stagesPart [] ++ tail)) = tail := by
        simp [archsPart, versionPart, stagesPart]
      rw [hX]
      have hterm : term (peek tail) = true := by
        rcases htail with rfl | ⟨m, rfl⟩ <;> rfl
      have heat : eatWs tail = tail := by
        rcases htail with rfl | ⟨m, rfl⟩
        · rfl
        · exact eatWs_of_head (show isWs 44 = false by decide)
      have htu : takeUntil nameStop (chunk ++ tail) = (chunk, tail) :=
        takeUntil_append_peek _ _ hchunk (Or.inr (term_nameStop hterm))
      rw [poss_step_term htu hterm hne f, heat]

/-! ### `parsePossibility` on a rendering -/

theorem nameStop_isWs {c : Nat} (h : nameStop c = false) : isWs c = false := by
  simp only [nameStop, Bool.or_eq_false_iff, decide_eq_false_iff_not] at h
  simp only [isWs, Bool.or_eq_false_iff, decide_eq_false_iff_not]
  omega

theorem parsePossibility_pkg (name : Bytes) (arch : Option Arch) (set : ArchSet)
    (sss : List (List Stage)) (vo : Option VersionRelation)
    (hp : PkgOk ⟨name, arch, some set, sss, vo, false⟩) (hne : name ≠ [])
    (h36 : peek name ≠ 36) (tail : Bytes) (ht : TailOk tail) :
    parsePossibility ((⟨name, arch, some set, sss, vo, false⟩ : Possibility).render ++ tail) =
      .ok (some ⟨name, arch, some set, sss, vo, false⟩, eatWs tail) := by
  obtain ⟨-, hname, harch, ⟨set', hset', hset⟩, hv, hall⟩ := hp
  simp only at hname harch hset' hv hall
  cases hset'
  rw [pkg_render name arch set sss vo (fun ss hss => (hall ss hss).1)]
  -- what follows the name and the qualifier
  have hXm : ∀ stop : Nat → Bool, stop 32 = true → stop 44 = true →
      archsPart set ++ (versionPart vo ++ (stagesPart sss ++ tail)) = [] ∨
      stop (peek (archsPart set ++ (versionPart vo ++ (stagesPart sss ++ tail)))) = true := by
    intro stop h32 h44
    rcases xhead set hset vo sss tail ht with ⟨m, hm⟩ | ⟨rfl, rfl, rfl, htail⟩
    · rw [hm]; exact Or.inr h32
    · have hX : archsPart ⟨false, []⟩ ++ (versionPart none ++ (stagesPart [] ++ tail)) = tail := by
        simp [archsPart, versionPart, stagesPart]
      rw [hX]
      rcases htail with rfl | ⟨m, rfl⟩
      · exact Or.inl rfl
      · exact Or.inr h44
  cases arch with
  | none =>
    have hin : name ++ qualPart none ++
        (archsPart set ++ (versionPart vo ++ stagesPart sss)) ++ tail =
        name ++ (archsPart set ++ (versionPart vo ++ (stagesPart sss ++ tail))) := by
      simp [qualPart]
    rw [hin]
    have hws : isWs (peek (name ++ (archsPart set ++ (versionPart vo ++ (stagesPart sss ++ tail)))))
        = false := nameStop_isWs (peek_append_no_stop _ hne hname)
    have hpk : ¬ (peek (name ++ (archsPart set ++ (versionPart vo ++ (stagesPart sss ++ tail))))
        = 36) := by
      rw [peek_append_of_ne_nil _ hne]; exact h36
    unfold parsePossibility
    simp only [eatWs_of_peek hws, hpk, if_false]
    have := possLoop_render [] name none set hset vo hv sss hall tail ht hname
      (by simpa using hne) _ (Nat.lt_succ_self _)
    simpa [emptyPossibility] using this
  | some a =>
    have ha := harch a rfl
    have hin : name ++ qualPart (some a) ++
        (archsPart set ++ (versionPart vo ++ stagesPart sss)) ++ tail =
        name ++ 58 :: (a.render ++ (archsPart set ++ (versionPart vo ++ (stagesPart sss ++ tail)))) := by
      simp [qualPart]
    rw [hin]
    have hws : isWs (peek (name ++ 58 :: (a.render ++
        (archsPart set ++ (versionPart vo ++ (stagesPart sss ++ tail)))))) = false :=
      nameStop_isWs (peek_append_no_stop _ hne hname)
    have hpk : ¬ (peek (name ++ 58 :: (a.render ++
        (archsPart set ++ (versionPart vo ++ (stagesPart sss ++ tail))))) = 36) := by
      rw [peek_append_of_ne_nil _ hne]; exact h36
    unfold parsePossibility
    simp only [eatWs_of_peek hws, hpk, if_false]
    have htu : takeUntil nameStop (name ++ 58 :: (a.render ++
        (archsPart set ++ (versionPart vo ++ (stagesPart sss ++ tail))))) =
        (name, 58 :: (a.render ++ (archsPart set ++ (versionPart vo ++ (stagesPart sss ++ tail))))) :=
      takeUntil_append _ _ hname (by decide)
    have hm : parseMultiarch (58 :: (a.render ++
        (archsPart set ++ (versionPart vo ++ (stagesPart sss ++ tail))))) =
        .ok (a, archsPart set ++ (versionPart vo ++ (stagesPart sss ++ tail))) := by
      have htu2 : takeUntil multiarchStop (a.render ++
          (archsPart set ++ (versionPart vo ++ (stagesPart sss ++ tail)))) =
          (a.render, archsPart set ++ (versionPart vo ++ (stagesPart sss ++ tail))) :=
        takeUntil_append_peek _ _ (arch_render_no_stop (by decide) ha)
          (hXm multiarchStop (by decide) (by decide))
      unfold parseMultiarch
      simp only [next_cons, htu2, parseArch_render_wf ha]
    have hstep := poss_step_colon (n0 := []) (ar := none) (as := some ⟨false, []⟩) (sss := [])
      (v := none) (sv := false) htu hm
      (name ++ 58 :: (a.render ++
        (archsPart set ++ (versionPart vo ++ (stagesPart sss ++ tail))))).length
    have hemp : emptyPossibility = ⟨[], none, some ⟨false, []⟩, [], none, false⟩ := rfl
    rw [hemp, hstep]
    have := possLoop_render ([] ++ name) [] (some a) set hset vo hv sss hall tail ht (by simp)
      (by simpa using hne)
      (name ++ 58 :: (a.render ++
        (archsPart set ++ (versionPart vo ++ (stagesPart sss ++ tail))))).length
      (by simp only [List.length_append, List.length_cons, List.nil_append]; omega)
    simpa using this

theorem parsePossibility_sv (name : Bytes) (hname : ∀ c ∈ name, svStop c = false) (tail : Bytes) :
    parsePossibility ((⟨name, none, none, [], none, true⟩ : Possibility).render ++ tail) =
      .ok (some ⟨name, none, none, [], none, true⟩, tail) := by
  have hin : (⟨name, none, none, [], none, true⟩ : Possibility).render ++ tail =
      36 :: 123 :: (name ++ 125 :: tail) := by
    simp [Possibility.render]
  rw [hin]
  have htu : takeUntil svStop (name ++ 125 :: tail) = (name, 125 :: tail) :=
    takeUntil_append _ _ hname (by decide)
  unfold parsePossibility
  simp only [eatWs_of_head (show isWs 36 = false by decide), peek_cons, if_true]
  unfold parseSubstvar
  simp only [eatWs_of_head (show isWs 36 = false by decide), next_cons, htu]

/-- a possibility that satisfies the invariant, followed by `tail`: the parser returns it
    and leaves `tail`, possibly without its leading blank -/
theorem parsePossibility_render {p : Possibility} (hp : PossOk p) (tail : Bytes) (ht : TailOk tail) :
    ∃ tail', parsePossibility (p.render ++ tail) = .ok (some p, tail') ∧
      (tail' = tail ∨ tail' = eatWs tail) := by
  rcases hp with ⟨name, rfl, hname⟩ | ⟨hpkg, hne, h36⟩
  · exact ⟨tail, parsePossibility_sv name hname tail, Or.inl rfl⟩
  · obtain ⟨name, arch, archs, sss, vo, sv⟩ := p
    obtain ⟨hsv, -, -, ⟨set, hset, -⟩, -, -⟩ := id hpkg
    simp only at hsv hset hne h36
    subst hsv; subst hset
    exact ⟨eatWs tail, parsePossibility_pkg name arch set sss vo hpkg hne h36 tail ht, Or.inr rfl⟩

/-- the first byte of a rendered possibility -/
theorem poss_render_head {p : Possibility} (hp : PossOk p) (Z : Bytes) :
    isWs (peek (p.render ++ Z)) = false ∧ term (peek (p.render ++ Z)) = false := by
  rcases hp with ⟨name, rfl, hname⟩ | ⟨hpkg, hne, h36⟩
  · have hin : (⟨name, none, none, [], none, true⟩ : Possibility).render ++ Z =
        36 :: 123 :: (name ++ 125 :: Z) := by
      simp [Possibility.render]
    rw [hin]; exact ⟨rfl, rfl⟩
  · obtain ⟨name, arch, archs, sss, vo, sv⟩ := p
    obtain ⟨hsv, hname, -, ⟨set, hset, -⟩, -, hall⟩ := id hpkg
    simp only at hsv hset hne h36 hname hall
    subst hsv; subst hset
    rw [pkg_render name arch set sss vo (fun ss hss => (hall ss hss).1)]
    have hst : nameStop (peek (name ++ qualPart arch ++
        (archsPart set ++ (versionPart vo ++ stagesPart sss)) ++ Z)) = false := by
      rw [List.append_assoc, List.append_assoc]
      exact peek_append_no_stop _ hne hname
    refine ⟨nameStop_isWs hst, ?_⟩
    cases h : term (peek (name ++ qualPart arch ++
        (archsPart set ++ (versionPart vo ++ stagesPart sss)) ++ Z))
    · rfl
    · rw [term_nameStop h] at hst; cases hst

end GoDebian.Lemmas.DepFix
