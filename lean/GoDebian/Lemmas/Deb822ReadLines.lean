/-
  Physical lines of a text given as a list of (content, line terminator) pairs:
  `physLines` recovers the lines; dropping the final terminator only turns the last
  terminator into "\n".  `lines cl E` = the contents `cl` with terminators `E 0, E 1, …`.
  Core Lean only.
-/
import GoDebian.Spec.Deb822

namespace GoDebian.Lemmas.Deb822ReadLines
open GoDebian GoDebian.Deb822 GoDebian.Spec.Deb822

/-- a line terminator -/
def Eol (e : Bytes) : Prop := e = [10] ∨ e = [13, 10]

/-- content and terminator of a line -/
abbrev LP := Bytes × Bytes

def cat (p : LP) : Bytes := p.1 ++ p.2

/-- the text of a list of lines -/
def text (ps : List LP) : Bytes := (ps.map cat).flatten

/-- contents free of CR and LF, proper terminators -/
def Clean (ps : List LP) : Prop := ∀ p ∈ ps, Eol p.2 ∧ 10 ∉ p.1 ∧ 13 ∉ p.1

theorem text_nil : text [] = [] := rfl
theorem text_cons (p : LP) (ps : List LP) : text (p :: ps) = p.1 ++ p.2 ++ text ps := by
  simp [text, cat]
theorem text_append (a b : List LP) : text (a ++ b) = text a ++ text b := by
  simp [text]

theorem clean_nil : Clean [] := fun _ h => by cases h
theorem clean_cons {p : LP} {ps : List LP} (hp : Eol p.2 ∧ 10 ∉ p.1 ∧ 13 ∉ p.1) (h : Clean ps) :
    Clean (p :: ps) := by
  intro q hq
  rcases List.mem_cons.mp hq with e | hq
  · subst e; exact hp
  · exact h q hq
theorem clean_append {a b : List LP} (ha : Clean a) (hb : Clean b) : Clean (a ++ b) := by
  intro q hq
  rcases List.mem_append.mp hq with hq | hq
  · exact ha q hq
  · exact hb q hq

/-! ### `physLines` -/

theorem linesAux_line {body : Bytes} (h : 10 ∉ body) (rest cur : Bytes) :
    linesAux (body ++ 10 :: rest) cur = (cur.reverse ++ body ++ [10]) :: linesAux rest [] := by
  induction body generalizing cur with
  | nil => simp [linesAux]
  | cons c body ih =>
    have hc : c ≠ 10 := fun e => h (by simp [e])
    have hb : 10 ∉ body := fun hm => h (List.mem_cons_of_mem _ hm)
    simp [linesAux, hc, ih hb]

theorem linesAux_last {body : Bytes} (h : 10 ∉ body) (hne : body ≠ []) (cur : Bytes) :
    linesAux body cur = [cur.reverse ++ body ++ [10]] := by
  induction body generalizing cur with
  | nil => exact absurd rfl hne
  | cons c body ih =>
    have hc : c ≠ 10 := fun e => h (by simp [e])
    have hb : 10 ∉ body := fun hm => h (List.mem_cons_of_mem _ hm)
    cases body with
    | nil => simp [linesAux, hc]
    | cons d body => rw [linesAux, if_neg hc, ih hb (by simp)]; simp

theorem physLines_line {p : LP} (hp : Eol p.2 ∧ 10 ∉ p.1 ∧ 13 ∉ p.1) (rest : Bytes) :
    physLines (p.1 ++ p.2 ++ rest) = (p.1 ++ p.2) :: physLines rest := by
  obtain ⟨he, h10, _⟩ := hp
  rcases he with he | he
  · rw [he]
    have := linesAux_line h10 rest []
    simpa [physLines] using this
  · rw [he]
    have h' : 10 ∉ p.1 ++ [13] := by simp [h10]
    have := linesAux_line h' rest []
    simpa [physLines] using this

theorem physLines_text {ps : List LP} (h : Clean ps) (rest : Bytes) :
    physLines (text ps ++ rest) = ps.map cat ++ physLines rest := by
  induction ps with
  | nil => simp [text]
  | cons p ps ih =>
    have hp := h p (by simp)
    have hps : Clean ps := fun q hq => h q (List.mem_cons_of_mem _ hq)
    rw [text_cons, List.append_assoc, physLines_line hp, ih hps]
    simp [cat]

theorem physLines_unterminated {c : Bytes} (h : 10 ∉ c) (hne : c ≠ []) :
    physLines c = [c ++ [10]] := by
  have := linesAux_last h hne []
  simpa [physLines] using this

/-! ### `dropFinalEol` -/

theorem dropFinalEol_append_eol {X e : Bytes} (hX : X.getLast? ≠ some 13) (he : Eol e) :
    dropFinalEol (X ++ e) = X := by
  unfold dropFinalEol
  rcases he with he | he
  · subst he
    cases hr : X.reverse with
    | nil =>
      have : X = [] := by simpa using hr
      subst this; rfl
    | cons a r =>
      have hX' : X = r.reverse ++ [a] := by
        have := congrArg List.reverse hr
        simpa using this
      have ha : a ≠ 13 := by
        intro e; apply hX; subst e; rw [hX']; simp
      simp only [List.reverse_append, List.reverse_cons, List.reverse_nil, List.nil_append,
        List.singleton_append, hr]
      split
      · rename_i heq; injection heq with _ h2; injection h2 with h3 _; exact absurd h3 ha
      · rename_i heq; injection heq with _ h2; subst h2; simp [hX']
      · rename_i h1 h2; exact absurd rfl (h2 _)
  · subst he
    simp

theorem getLast?_text_ne {ps : List LP} (h : Clean ps) : (text ps).getLast? ≠ some 13 := by
  rcases List.eq_nil_or_concat ps with e | ⟨init, p, e⟩
  · subst e; simp [text]
  · rw [List.concat_eq_append] at e
    subst e
    have hp := (h p (by simp)).1
    rw [text_append]
    rcases hp with hp | hp <;> simp [text, cat, hp]

/-- the text without its final terminator, when the last line is not empty -/
theorem physLines_dropFinalEol {init : List LP} {p : LP} (h : Clean (init ++ [p]))
    (hne : p.1 ≠ []) :
    physLines (dropFinalEol (text (init ++ [p]))) = (init ++ [(p.1, [10])]).map cat := by
  have hp := h p (by simp)
  have hi : Clean init := fun q hq => h q (by simp [hq])
  have e1 : text (init ++ [p]) = (text init ++ p.1) ++ p.2 := by
    simp [text, cat]
  have hl : (text init ++ p.1).getLast? ≠ some 13 := by
    rw [List.getLast?_append]
    cases hg : p.1.getLast? with
    | none => exact absurd (List.getLast?_eq_none_iff.mp hg) hne
    | some x =>
      intro hc
      injection hc with hc
      subst hc
      exact hp.2.2 (List.mem_of_getLast? hg)
  rw [e1, dropFinalEol_append_eol hl hp.1, physLines_text hi, physLines_unterminated hp.2.1 hne]
  simp [cat]

/-- … and when the text consists of empty lines only -/
theorem dropFinalEol_blank {init : List LP} {p : LP} (h : Clean (init ++ [p])) (he : p.1 = []) :
    dropFinalEol (text (init ++ [p])) = text init := by
  have hp := h p (by simp)
  have hi : Clean init := fun q hq => h q (by simp [hq])
  have e1 : text (init ++ [p]) = text init ++ p.2 := by
    simp [text, cat, he]
  rw [e1, dropFinalEol_append_eol (getLast?_text_ne hi) hp.1]

/-! ### contents with a stream of terminators -/

def lines : List Bytes → (Nat → Bytes) → List Bytes
  | [], _ => []
  | c :: cl, E => (c ++ E 0) :: lines cl (fun i => E (i + 1))

def AllEol (E : Nat → Bytes) : Prop := ∀ i, Eol (E i)

theorem AllEol.shift {E : Nat → Bytes} (h : AllEol E) (n : Nat) : AllEol (fun i => E (i + n)) :=
  fun i => h (i + n)

theorem lines_append (a b : List Bytes) (E : Nat → Bytes) :
    lines (a ++ b) E = lines a E ++ lines b (fun i => E (i + a.length)) := by
  induction a generalizing E with
  | nil => simp [lines]
  | cons c a ih =>
    simp only [List.cons_append, lines, ih, List.length_cons]
    congr 3

theorem lines_length (cl : List Bytes) (E : Nat → Bytes) : (lines cl E).length = cl.length := by
  induction cl generalizing E with
  | nil => rfl
  | cons c cl ih => simp [lines, ih]

/-- terminators of a list of pairs as a stream -/
def eolsOf : List LP → Nat → Bytes
  | [], _ => [10]
  | p :: _, 0 => p.2
  | _ :: ps, i + 1 => eolsOf ps i

theorem allEol_eolsOf {ps : List LP} (h : ∀ p ∈ ps, Eol p.2) : AllEol (eolsOf ps) := by
  induction ps with
  | nil => intro i; exact Or.inl rfl
  | cons p ps ih =>
    intro i
    cases i with
    | zero => exact h p (by simp)
    | succ i => exact ih (fun q hq => h q (List.mem_cons_of_mem _ hq)) i

theorem map_cat_eq_lines (ps : List LP) : ps.map cat = lines (ps.map Prod.fst) (eolsOf ps) := by
  induction ps with
  | nil => rfl
  | cons p ps ih =>
    simp only [List.map_cons, lines, ih]
    rfl

end GoDebian.Lemmas.Deb822ReadLines
