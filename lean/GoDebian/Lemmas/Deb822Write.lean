/-
  C08 lemmas, part 1: what `Paragraph.write` puts on each physical line, and what
  `nextAux` makes of those lines.
-/
import GoDebian.Model.Deb822
import GoDebian.Spec.Deb822Write
import GoDebian.Lemmas.Deb822WriteStr

namespace GoDebian.Lemmas.Deb822Write
open GoDebian GoDebian.Str GoDebian.Deb822 GoDebian.Spec.Deb822Write
open GoDebian.Lemmas.Str GoDebian.Lemmas.Deb822WriteStr

/-- Reader results can be compared (for `decide` in examples). -/
instance : DecidableEq (Res (List Paragraph)) := fun a b =>
  match a, b with
  | .ok x, .ok y => if h : x = y then isTrue (by rw [h]) else isFalse (fun e => h (by injection e))
  | .error x, .error y =>
    if h : x = y then isTrue (by rw [h]) else isFalse (fun e => h (by injection e))
  | .ok _, .error _ => isFalse (fun e => by cases e)
  | .error _, .ok _ => isFalse (fun e => by cases e)

/-! ### the writer, line by line -/

/-- text on the field's own line, and the logical continuation lines, as `foldValue`
    lays a value out -/
def foldParts (v : Bytes) : Bytes × List Bytes :=
  match valueLines v with
  | [] => ([], [])
  | first :: rest =>
    if trimLeftSpace first ≠ first then ([], first :: rest) else (first, rest)

/-- a continuation line as written (without its newline) -/
def cont (l : Bytes) : Bytes := 32 :: (if l.isEmpty then [46] else l)

/-- the value the reader assembles from a first line and continuation lines -/
def build (t : Bytes) (ls : List Bytes) : Bytes :=
  if ls.isEmpty then t else (if t.isEmpty then [] else t ++ [10]) ++ (ls.map (· ++ [10])).flatten

/-- the physical lines of one written field -/
def fieldLines (k t : Bytes) (ls : List Bytes) : List Bytes :=
  (k ++ [58, 32] ++ t ++ [10]) :: ls.map (fun l => cont l ++ [10])

theorem foldValue_eq (v : Bytes) :
    foldValue v = joinWith [10] ((foldParts v).1 :: (foldParts v).2.map cont) := by
  unfold foldValue foldParts valueLines
  cases split [10] (trimSuffix v [10]) with
  | nil => rfl
  | cons first rest =>
    by_cases hb : trimLeftSpace first ≠ first
    · simp only [if_pos hb]; rfl
    · simp only [if_neg hb]; rfl

theorem valueLines_spec (v : Bytes) :
    valueLines v ≠ [] ∧ (∀ l ∈ valueLines v, 10 ∉ l) ∧
      joinWith [10] (valueLines v) = trimSuffix v [10] :=
  split_spec _

theorem foldParts_no_nl (v : Bytes) :
    10 ∉ (foldParts v).1 ∧ ∀ l ∈ (foldParts v).2, 10 ∉ l := by
  obtain ⟨_, h, _⟩ := valueLines_spec v
  unfold foldParts
  cases hv : valueLines v with
  | nil => simp
  | cons first rest =>
    rw [hv] at h
    by_cases hb : trimLeftSpace first ≠ first
    · simp only [if_pos hb]; exact ⟨by simp, h⟩
    · simp only [if_neg hb]
      exact ⟨h first (by simp), fun l hl => h l (List.mem_cons_of_mem _ hl)⟩

theorem cont_no_nl {l : Bytes} (h : 10 ∉ l) : 10 ∉ cont l := by
  unfold cont
  by_cases he : l.isEmpty
  · simp [he]
  · simp [he, h]

/-- the bytes written for one field are its physical lines -/
theorem fieldText_eq (k v : Bytes) :
    k ++ [58, 32] ++ foldValue v ++ [10] =
      (fieldLines k (foldParts v).1 (foldParts v).2).flatten := by
  rw [foldValue_eq, List.append_assoc, joinWith_snoc_nl (by simp)]
  simp [fieldLines, List.append_assoc, Function.comp_def]

/-! ### physical lines -/

theorem linesAux_append {x : Bytes} (h : 10 ∉ x) (rest cur : Bytes) :
    linesAux (x ++ 10 :: rest) cur = (cur.reverse ++ x ++ [10]) :: linesAux rest [] := by
  induction x generalizing cur with
  | nil => simp [linesAux]
  | cons c x ih =>
    have hc : c ≠ 10 := fun e => h (by simp [e])
    have hx : 10 ∉ x := fun hm => h (List.mem_cons_of_mem _ hm)
    simp only [List.cons_append, linesAux, if_neg hc]
    rw [ih hx]; simp

theorem linesAux_lines {raws : List Bytes} (h : ∀ l ∈ raws, 10 ∉ l) (B : Bytes) :
    linesAux ((raws.map (· ++ [10])).flatten ++ B) [] = raws.map (· ++ [10]) ++ linesAux B [] := by
  induction raws with
  | nil => rfl
  | cons x raws ih =>
    simp only [List.map_cons, List.flatten_cons, List.append_assoc, List.cons_append,
      List.nil_append]
    rw [linesAux_append (h x (by simp))]
    rw [ih (fun l hl => h l (List.mem_cons_of_mem _ hl))]
    simp

theorem fieldLines_eq_map (k t : Bytes) (ls : List Bytes) :
    fieldLines k t ls = ((k ++ [58, 32] ++ t) :: ls.map cont).map (· ++ [10]) := by
  simp [fieldLines]

theorem linesAux_field {k : Bytes} (hk : 10 ∉ k) (v B : Bytes) :
    linesAux (k ++ [58, 32] ++ foldValue v ++ [10] ++ B) [] =
      fieldLines k (foldParts v).1 (foldParts v).2 ++ linesAux B [] := by
  obtain ⟨h1, h2⟩ := foldParts_no_nl v
  rw [fieldText_eq, fieldLines_eq_map]
  apply linesAux_lines
  intro l hl
  rcases List.mem_cons.mp hl with rfl | hl
  · simp [hk, h1]
  · obtain ⟨l', hl', rfl⟩ := List.mem_map.mp hl
    exact cont_no_nl (h2 l' hl')

/-- all physical lines of a written paragraph -/
def paraLines (p : Paragraph) : List Bytes :=
  p.order.flatMap (fun k => fieldLines k (foldParts (p.get k)).1 (foldParts (p.get k)).2)

theorem linesAux_fields (g : Bytes → Bytes) (ks : List Bytes) (hk : ∀ k ∈ ks, 10 ∉ k) (B : Bytes) :
    linesAux ((ks.map (fun k => k ++ [58, 32] ++ foldValue (g k) ++ [10])).flatten ++ B) [] =
      ks.flatMap (fun k => fieldLines k (foldParts (g k)).1 (foldParts (g k)).2) ++
        linesAux B [] := by
  induction ks with
  | nil => rfl
  | cons k ks ih =>
    simp only [List.map_cons, List.flatten_cons, List.flatMap_cons]
    rw [List.append_assoc (k ++ [58, 32] ++ foldValue (g k) ++ [10]),
      linesAux_field (hk k (by simp)), ih (fun k' hk' => hk k' (List.mem_cons_of_mem _ hk')),
      List.append_assoc]

theorem linesAux_write (p : Paragraph) (hk : ∀ k ∈ p.order, 10 ∉ k) (B : Bytes) :
    linesAux (p.write ++ B) [] = paraLines p ++ linesAux B [] :=
  linesAux_fields p.get p.order hk B

theorem physLines_write (p : Paragraph) (hk : ∀ k ∈ p.order, 10 ∉ k) :
    physLines p.write = paraLines p := by
  have := linesAux_write p hk []
  simpa [physLines, linesAux] using this

/-! ### the map -/

theorem lookup_append_last {k : Bytes} {vs : List (Bytes × Bytes)} (h : lookup k vs = none)
    (v : Bytes) : lookup k (vs ++ [(k, v)]) = some v := by
  induction vs with
  | nil => simp [lookup]
  | cons kv vs ih =>
    obtain ⟨k', v'⟩ := kv
    simp only [lookup] at h
    by_cases hk : k' = k
    · simp [hk] at h
    · rw [if_neg hk] at h
      simp only [List.cons_append, lookup, if_neg hk]
      exact ih h

theorem lookup_append_ne {k k' : Bytes} {vs : List (Bytes × Bytes)} (h : lookup k vs = none)
    (hne : k' ≠ k) (v : Bytes) : lookup k (vs ++ [(k', v)]) = none := by
  induction vs with
  | nil => simp [lookup, hne]
  | cons kv vs ih =>
    obtain ⟨k'', v'⟩ := kv
    simp only [lookup] at h
    by_cases hk : k'' = k
    · simp [hk] at h
    · rw [if_neg hk] at h
      simp only [List.cons_append, lookup, if_neg hk]
      exact ih h

theorem insert_fresh {k : Bytes} {vs : List (Bytes × Bytes)} (h : lookup k vs = none)
    (v : Bytes) : insert k v vs = vs ++ [(k, v)] := by
  induction vs with
  | nil => rfl
  | cons kv vs ih =>
    obtain ⟨k', v'⟩ := kv
    simp only [lookup] at h
    by_cases hk : k' = k
    · simp [hk] at h
    · rw [if_neg hk] at h
      simp only [Deb822.insert, if_neg hk, List.cons_append]
      rw [ih h]

theorem insert_last {k : Bytes} {vs : List (Bytes × Bytes)} (h : lookup k vs = none)
    (v v' : Bytes) : insert k v (vs ++ [(k, v')]) = vs ++ [(k, v)] := by
  induction vs with
  | nil => simp [Deb822.insert]
  | cons kv vs ih =>
    obtain ⟨k', v''⟩ := kv
    simp only [lookup] at h
    by_cases hk : k' = k
    · simp [hk] at h
    · rw [if_neg hk] at h
      simp only [Deb822.insert, if_neg hk, List.cons_append]
      rw [ih h]

theorem lookup_map_self {ks : List Bytes} {k : Bytes} (hk : k ∈ ks) (g : Bytes → Bytes) :
    lookup k (ks.map (fun k => (k, g k))) = some (g k) := by
  induction ks with
  | nil => simp at hk
  | cons k' ks ih =>
    simp only [List.map_cons, lookup]
    by_cases he : k' = k
    · rw [if_pos he, he]
    · rw [if_neg he]
      rcases List.mem_cons.mp hk with rfl | hk
      · exact absurd rfl he
      · exact ih hk

/-! ### the reader on written lines -/

def ContOK (l : Bytes) : Prop := trimRightSpace l = l ∧ 10 ∉ l ∧ l ≠ [46]

/-- a field name that is written and read back as itself -/
def KeyOK (k : Bytes) : Prop := Trimmed k ∧ 58 ∉ k ∧ 10 ∉ k ∧ k.head? ≠ some 35

def PartsOK (t : Bytes) (ls : List Bytes) : Prop := Trimmed t ∧ 10 ∉ t ∧ ∀ l ∈ ls, ContOK l

theorem hasPrefix_cons_singleton (c b : Nat) (Y : Bytes) : hasPrefix (c :: Y) [b] = (b == c) := by
  simp [hasPrefix, isPrefix]

theorem hasPrefix_hash_iff (k : Bytes) : hasPrefix k [35] = true ↔ k.head? = some 35 := by
  cases k with
  | nil => simp [hasPrefix, isPrefix]
  | cons c k =>
    rw [hasPrefix_cons_singleton]
    simp only [List.head?_cons, Option.some.injEq, beq_iff_eq]
    exact ⟨fun e => e.symm, fun e => e.symm⟩

/-- first byte of a written field line -/
theorem fieldLine_head {k : Bytes} (hk : KeyOK k) (Y : Bytes) :
    ∃ c Y', k ++ 58 :: Y = c :: Y' ∧ c ≠ 32 ∧ c ≠ 9 ∧ c ≠ 35 ∧ spaceLen (k ++ 58 :: Y) = 0 := by
  obtain ⟨⟨h1, _⟩, _, _, h4⟩ := hk
  cases k with
  | nil => exact ⟨58, Y, rfl, by decide, by decide, by decide, rfl⟩
  | cons c k =>
    refine ⟨c, k ++ 58 :: Y, rfl, ?_, ?_, ?_, spaceLen_append_ascii h1 (by simp) (by decide) Y⟩
    · intro e; subst e; rw [spaceLen_blank] at h1; exact absurd h1 (by decide)
    · intro e; subst e; rw [spaceLen_tab] at h1; exact absurd h1 (by decide)
    · intro e; subst e; exact h4 rfl

theorem nextAux_fieldLine {k t : Bytes} (hk : KeyOK k) (ht : Trimmed t) (rest : List Bytes)
    (o : List Bytes) {vs : List (Bytes × Bytes)} (hfresh : lookup k vs = none) (lk : Bytes) :
    nextAux ((k ++ [58, 32] ++ t ++ [10]) :: rest) ⟨o, vs⟩ lk =
      nextAux rest ⟨o ++ [k], vs ++ [(k, t)]⟩ k := by
  have hline : k ++ [58, 32] ++ t ++ [10] = k ++ 58 :: (32 :: t ++ [10]) := by simp
  obtain ⟨c, Y', hc, h32, h9, h35, _⟩ := fieldLine_head hk (32 :: t ++ [10])
  have hmem : 58 ∈ k ++ [58, 32] ++ t ++ [10] := by simp
  have hb : ¬ (k ++ [58, 32] ++ t ++ [10] = [10] ∨ k ++ [58, 32] ++ t ++ [10] = [13, 10]) := by
    intro h
    rcases h with h | h <;> (rw [h] at hmem; revert hmem; decide)
  rw [nextAux, if_neg hb]
  have hp35 : ¬ (hasPrefix (k ++ [58, 32] ++ t ++ [10]) [35] = true) := by
    rw [hline, hc, hasPrefix_cons_singleton]; simpa using fun e => h35 e.symm
  have hp : ¬ (hasPrefix (k ++ [58, 32] ++ t ++ [10]) [32] = true ∨
      hasPrefix (k ++ [58, 32] ++ t ++ [10]) [9] = true) := by
    rw [hline, hc, hasPrefix_cons_singleton, hasPrefix_cons_singleton]
    simpa using ⟨fun e => h32 e.symm, fun e => h9 e.symm⟩
  rw [if_neg hp35, if_neg hp]
  rw [hline, splitN_two_append _ hk.2.1]
  have hk35 : ¬ (hasPrefix k [35] = true) := fun e => hk.2.2.2 ((hasPrefix_hash_iff k).mp e)
  simp only [trimSpace_of_trimmed hk.1, trimSpace_blank_trimmed_nl ht, hfresh, Option.isSome_none,
    insert_fresh hfresh, if_neg hk35]
  rfl

/-- one continuation line appended to the current value -/
def appendLine (cur l : Bytes) : Bytes :=
  if cur.isEmpty then l ++ [10]
  else (if hasSuffix cur [10] then cur else cur ++ [10]) ++ l ++ [10]

theorem nextAux_contLine {l : Bytes} (hl : ContOK l) (rest : List Bytes) {o : List Bytes}
    (ho : o ≠ []) {vs : List (Bytes × Bytes)} {k : Bytes} (hfresh : lookup k vs = none)
    (cur : Bytes) :
    nextAux ((cont l ++ [10]) :: rest) ⟨o, vs ++ [(k, cur)]⟩ k =
      nextAux rest ⟨o, vs ++ [(k, appendLine cur l)]⟩ k := by
  have hline : cont l ++ [10] = 32 :: ((if l.isEmpty then [46] else l) ++ [10]) := rfl
  have hb : ¬ (cont l ++ [10] = [10] ∨ cont l ++ [10] = [13, 10]) := by
    rw [hline]; simp
  have hp35 : ¬ (hasPrefix (cont l ++ [10]) [35] = true) := by
    rw [hline, hasPrefix_cons_singleton]; decide
  have hp : hasPrefix (cont l ++ [10]) [32] = true ∨ hasPrefix (cont l ++ [10]) [9] = true := by
    left; rw [hline, hasPrefix_cons_singleton]; decide
  have ho' : o.isEmpty = false := by cases o <;> simp_all
  have hread : (if trimRightSpace ((cont l ++ [10]).drop 1) = [46] then []
      else trimRightSpace ((cont l ++ [10]).drop 1)) = l := by
    rw [hline, List.drop_succ_cons, List.drop_zero, trimRightSpace_snoc_nl]
    by_cases he : l.isEmpty
    · have : l = [] := List.isEmpty_iff.mp he
      subst this
      decide
    · rw [if_neg he, hl.1, if_neg hl.2.2]
  rw [nextAux, if_neg hb, if_neg hp35, if_pos hp]
  simp only [ho', Bool.false_eq_true, if_false, hread, Paragraph.get, lookup_append_last hfresh,
    Option.getD_some, insert_last hfresh]
  rfl

theorem build_nil (t : Bytes) : build t [] = t := rfl

theorem build_ne_nil (t : Bytes) {ls : List Bytes} (h : ls ≠ []) :
    build t ls = (if t.isEmpty then [] else t ++ [10]) ++ (ls.map (· ++ [10])).flatten := by
  unfold build
  cases ls with
  | nil => exact absurd rfl h
  | cons => rfl

theorem appendLine_build {t : Bytes} (ht : 10 ∉ t) (ls : List Bytes) (l : Bytes) :
    appendLine (build t ls) l = build t (ls ++ [l]) := by
  rw [build_ne_nil t (ls := ls ++ [l]) (by simp)]
  cases ls with
  | nil =>
    rw [build_nil]
    unfold appendLine
    by_cases he : t.isEmpty
    · simp [he]
    · simp [he, hasSuffix_nl_of_not_mem ht]
  | cons x ls =>
    rw [build_ne_nil t (by simp)]
    unfold appendLine
    have hne : ((if t.isEmpty then [] else t ++ [10]) ++
        ((x :: ls).map (· ++ [10])).flatten).isEmpty = false := by
      by_cases he : t.isEmpty <;> simp [he]
    have hsuf : hasSuffix ((if t.isEmpty then [] else t ++ [10]) ++
        ((x :: ls).map (· ++ [10])).flatten) [10] = true := by
      have : (if t.isEmpty then [] else t ++ [10]) ++ ((x :: ls).map (· ++ [10])).flatten =
          ((if t.isEmpty then [] else t ++ [10]) ++ (joinWith [10] (x :: ls))) ++ [10] := by
        rw [List.append_assoc, joinWith_snoc_nl (by simp)]
      rw [this]; exact hasSuffix_snoc_nl _
    rw [hne, hsuf]
    simp

theorem nextAux_conts {t : Bytes} (ht : 10 ∉ t) (ls' : List Bytes) (hls : ∀ l ∈ ls', ContOK l)
    (rest : List Bytes) {o : List Bytes} (ho : o ≠ []) {vs : List (Bytes × Bytes)} {k : Bytes}
    (hfresh : lookup k vs = none) (ls : List Bytes) :
    nextAux (ls'.map (fun l => cont l ++ [10]) ++ rest) ⟨o, vs ++ [(k, build t ls)]⟩ k =
      nextAux rest ⟨o, vs ++ [(k, build t (ls ++ ls'))]⟩ k := by
  induction ls' generalizing ls with
  | nil => simp
  | cons l ls' ih =>
    simp only [List.map_cons, List.cons_append]
    rw [nextAux_contLine (hls l (by simp)) _ ho hfresh, appendLine_build ht,
      ih (fun l' hl' => hls l' (List.mem_cons_of_mem _ hl'))]
    simp

/-- a written field is read back as one new field -/
theorem nextAux_field {k t : Bytes} {ls : List Bytes} (hk : KeyOK k) (hp : PartsOK t ls)
    (rest : List Bytes) (o : List Bytes) {vs : List (Bytes × Bytes)}
    (hfresh : lookup k vs = none) (lk : Bytes) :
    nextAux (fieldLines k t ls ++ rest) ⟨o, vs⟩ lk =
      nextAux rest ⟨o ++ [k], vs ++ [(k, build t ls)]⟩ k := by
  unfold fieldLines
  rw [List.cons_append, nextAux_fieldLine hk hp.1 _ o hfresh]
  have := nextAux_conts hp.2.1 ls hp.2.2 rest (o := o ++ [k]) (by simp) hfresh []
  rw [build_nil, List.nil_append] at this
  exact this

theorem nextAux_fields (g : Bytes → Bytes × List Bytes) (ks : List Bytes) (hnd : ks.Nodup)
    (hk : ∀ k ∈ ks, KeyOK k ∧ PartsOK (g k).1 (g k).2) (rest : List Bytes) (o : List Bytes)
    (vs : List (Bytes × Bytes)) (hfresh : ∀ k ∈ ks, lookup k vs = none) (lk : Bytes) :
    nextAux (ks.flatMap (fun k => fieldLines k (g k).1 (g k).2) ++ rest) ⟨o, vs⟩ lk =
      nextAux rest ⟨o ++ ks, vs ++ ks.map (fun k => (k, build (g k).1 (g k).2))⟩
        (ks.getLast?.getD lk) := by
  induction ks generalizing o vs lk with
  | nil => simp
  | cons k ks ih =>
    obtain ⟨hkn, hnd'⟩ := List.nodup_cons.mp hnd
    simp only [List.flatMap_cons, List.append_assoc]
    rw [nextAux_field (hk k (by simp)).1 (hk k (by simp)).2 _ o (hfresh k (by simp)),
      ih hnd' (fun k' hk' => hk k' (List.mem_cons_of_mem _ hk'))]
    · have : (k :: ks).getLast?.getD lk = ks.getLast?.getD k := by
        cases ks with
        | nil => rfl
        | cons a as =>
          rw [List.getLast?_cons_cons]
          cases h : (a :: as).getLast? with
          | none => simp at h
          | some x => rfl
      rw [this]; simp
    · intro k' hk'
      exact lookup_append_ne (hfresh k' (List.mem_cons_of_mem _ hk'))
        (fun e => hkn (by rw [e]; exact hk')) _

end GoDebian.Lemmas.Deb822Write
