/-
  Lemmas about the `strconv` part of `GoDebian.Base.Str`: `digitsVal` as a fold,
  `parseInt64` by sign, `fmtNat` produces digits that `digitsVal` reads back.
  Core Lean only.
-/
import GoDebian.Base.Str

namespace GoDebian.Lemmas.Str
open GoDebian GoDebian.Str

/-- Value of a digit string read with a carry (the fold inside `natVal`). -/
def val (acc : Nat) (ds : Bytes) : Nat := ds.foldl (fun a c => a * 10 + (c - 48)) acc

@[simp] theorem val_nil (acc : Nat) : val acc [] = acc := by simp [val]
@[simp] theorem val_cons (acc c : Nat) (ds : Bytes) :
    val acc (c :: ds) = val (acc * 10 + (c - 48)) ds := by simp [val]

theorem isDigit_iff {c : Nat} : isDigit c = true ↔ 48 ≤ c ∧ c ≤ 57 := by
  simp [isDigit]

theorem digitsVal_eq (d : Bytes) (acc : Nat) :
    digitsVal d acc = if d.all isDigit then some (val acc d) else none := by
  induction d generalizing acc with
  | nil => rfl
  | cons c d ih =>
    simp only [digitsVal, List.all_cons, val_cons]
    cases hc : isDigit c
    · simp
    · simp [ih]

theorem digitsVal_append (x y : Bytes) (acc : Nat) :
    digitsVal (x ++ y) acc = (digitsVal x acc).bind (digitsVal y) := by
  induction x generalizing acc with
  | nil => rfl
  | cons c x ih =>
    simp only [List.cons_append, digitsVal]
    split
    · exact ih _
    · rfl

theorem digitsVal_zeros (k : Nat) : digitsVal (List.replicate k 48) 0 = some 0 := by
  induction k with
  | zero => rfl
  | succ k ih => simpa [List.replicate_succ, digitsVal, isDigit] using ih

/-- All-digit strings of value 0 consist of zeros. -/
theorem all_zero_of_val_eq_zero {d : Bytes} {acc : Nat} (hd : d.all isDigit = true)
    (h : val acc d = 0) : acc = 0 ∧ d.all (· == 48) = true := by
  induction d generalizing acc with
  | nil => exact ⟨h, rfl⟩
  | cons c d ih =>
    simp only [List.all_cons, Bool.and_eq_true] at hd
    rw [val_cons] at h
    obtain ⟨h1, h2⟩ := ih hd.2 h
    have := isDigit_iff.mp hd.1
    refine ⟨by omega, ?_⟩
    simp only [List.all_cons, Bool.and_eq_true, beq_iff_eq]
    exact ⟨by omega, h2⟩

/-! ### `parseInt64` -/

/-- `parseInt64` after the sign has been split off. -/
def signed (neg : Bool) (body : Bytes) : Option Int :=
  if body.isEmpty then none else
  match digitsVal body 0 with
  | none => none
  | some n =>
    if neg then (if n ≤ 2^63 then some (-(n : Int)) else none)
    else (if n < 2^63 then some (n : Int) else none)

theorem parseInt64_plus (r : Bytes) : parseInt64 (43 :: r) = signed false r := rfl
theorem parseInt64_minus (r : Bytes) : parseInt64 (45 :: r) = signed true r := rfl
theorem parseInt64_nil : parseInt64 [] = none := rfl

theorem parseInt64_cons {c : Nat} (r : Bytes) (h1 : c ≠ 43) (h2 : c ≠ 45) :
    parseInt64 (c :: r) = signed false (c :: r) := by
  unfold parseInt64
  split
  rename_i heq
  split at heq
  · simp_all
  · simp_all
  · simp only [Prod.mk.injEq] at heq
    obtain ⟨rfl, rfl⟩ := heq
    rfl

theorem signed_bounds {neg : Bool} {body : Bytes} {i : Int} (h : signed neg body = some i) :
    -(2^63 : Int) ≤ i ∧ i < 2^63 := by
  unfold signed at h
  split at h
  · cases h
  · split at h
    · cases h
    · rename_i n _
      cases neg <;> simp only [Bool.false_eq_true, if_false, if_true] at h <;>
        split at h <;> first | (injection h with h; subst h; omega) | cases h

theorem parseInt64_bounds {s : Bytes} {i : Int} (h : parseInt64 s = some i) :
    -(2^63 : Int) ≤ i ∧ i < 2^63 := by
  cases s with
  | nil => cases h
  | cons c r =>
    by_cases h1 : c = 43
    · subst h1; exact signed_bounds (parseInt64_plus r ▸ h)
    · by_cases h2 : c = 45
      · subst h2; exact signed_bounds (parseInt64_minus r ▸ h)
      · exact signed_bounds (parseInt64_cons r h1 h2 ▸ h)

/-- An unsigned, non-empty, all-digit string: its value if that fits, else an error. -/
theorem parseInt64_of_digits {s : Bytes} (hne : s ≠ []) (hd : s.all isDigit = true) :
    parseInt64 s = if val 0 s < 2^63 then some (val 0 s : Int) else none := by
  cases s with
  | nil => exact absurd rfl hne
  | cons c r =>
    have hc : 48 ≤ c ∧ c ≤ 57 := by
      simp only [List.all_cons, Bool.and_eq_true] at hd
      exact isDigit_iff.mp hd.1
    rw [parseInt64_cons r (by omega) (by omega)]
    simp [signed, digitsVal_eq, hd]

/-- Anything else that does not start with a sign is not a number. -/
theorem parseInt64_of_not_digits {s : Bytes} (hd : s.all isDigit = false)
    (h1 : ∀ r, s ≠ 43 :: r) (h2 : ∀ r, s ≠ 45 :: r) : parseInt64 s = none := by
  cases s with
  | nil => rfl
  | cons c r =>
    rw [parseInt64_cons r (fun e => h1 r (by rw [e])) (fun e => h2 r (by rw [e]))]
    simp [signed, digitsVal_eq, hd]

/-- A `-` sign in front of anything but a non-empty run of zeros gives an error or a
    negative number. -/
theorem parseInt64_minus_neg {d : Bytes} {i : Int}
    (hz : (!d.isEmpty && d.all (· == 48)) = false) (h : parseInt64 (45 :: d) = some i) :
    i < 0 := by
  rw [parseInt64_minus] at h
  unfold signed at h
  split at h
  · cases h
  · rename_i hne
    rw [digitsVal_eq] at h
    cases hall : d.all isDigit
    · simp [hall] at h
    · simp only [hall, if_true] at h
      split at h
      · injection h with h
        subst h
        have : val 0 d ≠ 0 := by
          intro h0
          have := (all_zero_of_val_eq_zero hall h0).2
          simp [this, hne] at hz
        omega
      · cases h

/-! ### `fmtNat` -/

theorem natDigitsAux_val (fuel n : Nat) (acc : Bytes) (h : n < fuel) :
    ∃ k, ∀ a, digitsVal (natDigitsAux fuel n acc) a = digitsVal acc (a * 10 ^ k + n) := by
  induction fuel generalizing n acc with
  | zero => omega
  | succ fuel ih =>
    unfold natDigitsAux
    split
    · refine ⟨1, fun a => ?_⟩
      have hd : isDigit (48 + n) = true := isDigit_iff.mpr (by omega)
      simp only [digitsVal, hd, if_true]
      congr 1; omega
    · obtain ⟨k, hk⟩ := ih (n / 10) ((48 + n % 10) :: acc) (by omega)
      refine ⟨k + 1, fun a => ?_⟩
      rw [hk]
      have hd : isDigit (48 + n % 10) = true := isDigit_iff.mpr (by omega)
      simp only [digitsVal, hd, if_true]
      congr 1
      rw [Nat.pow_succ, ← Nat.mul_assoc]
      generalize a * 10 ^ k = X
      omega

theorem digitsVal_fmtNat (n : Nat) : digitsVal (fmtNat n) 0 = some n := by
  obtain ⟨k, hk⟩ := natDigitsAux_val (n + 1) n [] (by omega)
  simpa [fmtNat, digitsVal] using hk 0

theorem natDigitsAux_all (fuel n : Nat) (acc : Bytes) (h : ∀ c ∈ acc, isDigit c = true) :
    ∀ c ∈ natDigitsAux fuel n acc, isDigit c = true := by
  induction fuel generalizing n acc with
  | zero => exact h
  | succ fuel ih =>
    unfold natDigitsAux
    split
    · intro c hc
      rcases List.mem_cons.mp hc with rfl | hc
      · exact isDigit_iff.mpr (by omega)
      · exact h c hc
    · apply ih
      intro c hc
      rcases List.mem_cons.mp hc with rfl | hc
      · exact isDigit_iff.mpr (by omega)
      · exact h c hc

theorem fmtNat_all (n : Nat) : ∀ c ∈ fmtNat n, isDigit c = true :=
  natDigitsAux_all _ _ _ (by simp)

theorem natDigitsAux_ne_nil (fuel n : Nat) (acc : Bytes) (h : acc ≠ [] ∨ 0 < fuel) :
    natDigitsAux fuel n acc ≠ [] := by
  induction fuel generalizing n acc with
  | zero => rcases h with h | h; exact h; omega
  | succ fuel ih =>
    unfold natDigitsAux
    split
    · simp
    · exact ih _ _ (Or.inl (by simp))

theorem fmtNat_ne_nil (n : Nat) : fmtNat n ≠ [] := natDigitsAux_ne_nil _ _ _ (Or.inr (by omega))

/-- `ParseInt` reads back what `Itoa` wrote, with any number of leading zeros. -/
theorem parseInt64_zeros_fmtNat (z e : Nat) (he : e < 2^63) :
    parseInt64 (List.replicate z 48 ++ fmtNat e) = some (e : Int) := by
  have hall : (List.replicate z 48 ++ fmtNat e).all isDigit = true := by
    simp only [List.all_eq_true, List.mem_append, List.mem_replicate]
    rintro c (⟨_, rfl⟩ | hc)
    · rfl
    · exact fmtNat_all e c hc
  have hval : digitsVal (List.replicate z 48 ++ fmtNat e) 0 = some e := by
    rw [digitsVal_append, digitsVal_zeros]; exact digitsVal_fmtNat e
  rw [digitsVal_eq, if_pos hall] at hval
  injection hval with hval
  rw [parseInt64_of_digits (by simp [fmtNat_ne_nil]) hall, hval, if_pos he]

end GoDebian.Lemmas.Str
