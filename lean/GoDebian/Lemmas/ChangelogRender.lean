/-
  Parsing of rendered changelogs: every stage of `parseOne` on the lines of a well-formed
  entry, the iteration over a rendered list of entries, the missing final newline.
-/
import GoDebian.Spec.Changelog
import GoDebian.Lemmas.ChangelogParse
import GoDebian.Lemmas.ChangelogStr
import GoDebian.Lemmas.VersionParse

namespace GoDebian.Lemmas.Changelog
open GoDebian GoDebian.Str GoDebian.Changelog GoDebian.Spec.Changelog

/-! ### the pieces of a rendered entry -/

def verText (e : SEntry) : Bytes := Version.toString e.version
def distText (e : SEntry) : Bytes := joinWith sp e.dists
def optWords (e : SEntry) : List Bytes := e.opts.map (fun (k, v) => k ++ [61] ++ v)
def optText (e : SEntry) : Bytes := joinWith [44, 32] (optWords e)
def headerLine (e : SEntry) : Bytes :=
  e.source ++ [32, 40] ++ verText e ++ [41, 32] ++ distText e ++ [59, 32] ++ optText e ++ [10]
def trailerText (e : SEntry) : Bytes := [32, 45, 45, 32] ++ e.who ++ [32, 32] ++ e.date

/-- the lines of an entry; `t` is the terminator of the trailer line ("\n" or nothing) -/
def entryLines (e : SEntry) (t : Bytes) : List Bytes :=
  [headerLine e, [10]] ++ e.body.map (· ++ [10]) ++ [[10], trailerText e ++ t]

theorem renderEntry_eq (e : SEntry) : renderEntry e = entryLines e [10] := by
  simp [renderEntry, entryLines, headerLine, trailerText, verText, distText, optText, optWords]

/-! ### well-formedness, unpacked -/

theorem plainToken_iff {b : Bytes} {extra : List Nat} :
    plainToken b extra = true ↔ b ≠ [] ∧ ∀ c ∈ b, 33 ≤ c ∧ c ≤ 126 ∧ c ∉ extra := by
  simp [plainToken, and_assoc]

structure WF (e : SEntry) : Prop where
  source : plainToken e.source [40, 41, 59] = true
  version : Version.parse (Version.toString e.version) = .ok e.version
  dists_ne : e.dists ≠ []
  dists : ∀ d ∈ e.dists, plainToken d [40, 41, 59] = true
  opts_ne : e.opts ≠ []
  opts : ∀ kv ∈ e.opts, plainToken kv.1 [44, 61] = true ∧ plainToken kv.2 [44, 61] = true
  body : ∀ l ∈ e.body, l = [] ∨
    (l.head? = some 32 ∧ Str.hasPrefix l [32, 45, 45, 32] = false ∧ 10 ∉ l)
  who_ne : e.who ≠ []
  who_dblank : Str.contains e.who [32, 32] = false
  who_trim : trim e.who = e.who
  who_nl : 10 ∉ e.who
  date_trim : trim e.date = e.date
  date_nl : 10 ∉ e.date

theorem wf_of_wfEntry {e : SEntry} (h : wfEntry e = true) : WF e := by
  simp only [wfEntry, Bool.and_eq_true, Bool.not_eq_true', decide_eq_true_eq, List.all_eq_true,
    Bool.or_eq_true, List.isEmpty_iff, List.contains_eq_mem, decide_eq_false_iff_not,
    and_assoc] at h
  obtain ⟨h1, h2, h3, h4, h5, h6, h7, h8, h9, h10, h11, h12, -, h14⟩ := h
  refine ⟨h1, ?_, ?_, h4, ?_, ?_, ?_, ?_, h9, h10, h11, h12, h14⟩
  · split at h2
    · rename_i v hv
      rw [hv, eq_of_beq h2]
    · cases h2
  · intro e; simp [e] at h3
  · intro e; simp [e] at h5
  · intro kv hkv
    have := h6 kv hkv
    exact this
  · intro l hl
    rcases h7 l hl with h | ⟨a, b, c, -⟩
    · exact Or.inl h
    · exact Or.inr ⟨a, b, c⟩
  · intro e
    rw [e] at h8
    simp [plainToken] at h8

/-! ### bytes -/

theorem cut_plain {c : Nat} (h : 33 ≤ c) : [10, 13, 9, 32].contains c = false := by
  simp only [List.contains_eq_mem, List.mem_cons, List.mem_nil_iff, or_false, decide_eq_false_iff_not]
  omega

theorem trim_plain {s : Bytes} (h : ∀ c ∈ s, 33 ≤ c) : trim s = s :=
  trimSet_of_ends (headOK_of_all (fun c hc => cut_plain (h c hc)))
    (lastOK_of_all (fun c hc => cut_plain (h c hc)))

theorem plain_ends {s : Bytes} (h : ∀ c ∈ s, 33 ≤ c) :
    HeadOK [10, 13, 9, 32] s ∧ LastOK [10, 13, 9, 32] s :=
  ⟨headOK_of_all (fun c hc => cut_plain (h c hc)), lastOK_of_all (fun c hc => cut_plain (h c hc))⟩

theorem upstreamChar_facts {c : Nat} (h : Version.upstreamChar c = true) :
    33 ≤ c ∧ c ≠ 40 ∧ c ≠ 41 ∧ c ≠ 59 := by
  simp [Version.upstreamChar, Version.cisdigit, Version.cisalpha] at h
  omega

theorem verText_chars {e : SEntry} (hw : WF e) :
    verText e ≠ [] ∧ ∀ c ∈ verText e, 33 ≤ c ∧ c ≠ 40 ∧ c ≠ 41 ∧ c ≠ 59 := by
  have hwf := Lemmas.VersionParse.parse_wf hw.version
  obtain ⟨⟨c, rest, hu, -⟩, -, -⟩ := Lemmas.VersionParse.partsOK_iff.mp hwf.parts
  unfold verText
  rw [Lemmas.VersionParse.toString_eq_render]
  refine ⟨Lemmas.VersionParse.render_ne_nil _ _ _ (by simp [hu]), ?_⟩
  intro c hc
  apply upstreamChar_facts
  refine Lemmas.VersionParse.render_alphabet _ _ _ _ ?_ c hc
  have hp := hwf.parts
  split
  · simpa using hp
  · rename_i hc
    simp only [Bool.or_eq_true, decide_eq_true_eq, not_or] at hc
    have : e.version.revision = [] := List.length_eq_zero_iff.mp (by omega)
    rw [this] at hp
    simpa using hp

theorem source_chars {e : SEntry} (hw : WF e) :
    e.source ≠ [] ∧ ∀ c ∈ e.source, 33 ≤ c ∧ c ≠ 40 ∧ c ≠ 41 ∧ c ≠ 59 := by
  obtain ⟨h1, h2⟩ := plainToken_iff.mp hw.source
  refine ⟨h1, fun c hc => ?_⟩
  obtain ⟨a, -, b⟩ := h2 c hc
  simp only [List.mem_cons, List.mem_nil_iff, or_false, not_or] at b
  omega

theorem distText_chars {e : SEntry} (hw : WF e) :
    ∀ c ∈ distText e, 32 ≤ c ∧ c ≠ 40 ∧ c ≠ 41 ∧ c ≠ 59 := by
  intro c hc
  rcases mem_joinWith hc with h | ⟨d, hd, hcd⟩
  · simp [sp] at h; omega
  · obtain ⟨a, -, b⟩ := (plainToken_iff.mp (hw.dists d hd)).2 c hcd
    simp only [List.mem_cons, List.mem_nil_iff, or_false, not_or] at b
    omega

theorem distText_trim {e : SEntry} (hw : WF e) : trim (32 :: distText e) = distText e := by
  unfold trim
  rw [trimSet_cons_mem _ (by decide)]
  have := joinWith_ends (cs := [10, 13, 9, 32]) (sep := sp) hw.dists_ne (fun d hd => by
    obtain ⟨h1, h2⟩ := plainToken_iff.mp (hw.dists d hd)
    exact ⟨h1, plain_ends (fun c hc => (h2 c hc).1)⟩)
  exact trimSet_of_ends this.2.1 this.2.2

theorem optText_chars {e : SEntry} (hw : WF e) : ∀ c ∈ optText e, 32 ≤ c := by
  intro c hc
  rcases mem_joinWith hc with h | ⟨w, hw', hcw⟩
  · simp at h; omega
  · simp only [optWords, List.mem_map] at hw'
    obtain ⟨⟨k, v⟩, hkv, rfl⟩ := hw'
    obtain ⟨hk, hv⟩ := hw.opts _ hkv
    simp only [List.mem_append, List.mem_singleton] at hcw
    rcases hcw with (h | h) | h
    · have := ((plainToken_iff.mp hk).2 c h).1; omega
    · omega
    · have := ((plainToken_iff.mp hv).2 c h).1; omega

/-! ### the header line -/

theorem header_split {e : SEntry} (hw : WF e) :
    partition (headerLine e) [59]
      = (e.source ++ [32, 40] ++ verText e ++ [41, 32] ++ distText e, 32 :: optText e ++ [10]) ∧
    partition (e.source ++ [32, 40] ++ verText e ++ [41, 32] ++ distText e) [40]
      = (e.source ++ [32], verText e ++ [41, 32] ++ distText e) ∧
    partition (verText e ++ [41, 32] ++ distText e) [41] = (verText e, 32 :: distText e) := by
  have hs := (source_chars hw).2
  have hv := (verText_chars hw).2
  have hd := distText_chars hw
  refine ⟨?_, ?_, ?_⟩
  · have : headerLine e = (e.source ++ [32, 40] ++ verText e ++ [41, 32] ++ distText e)
        ++ 59 :: (32 :: optText e ++ [10]) := by simp [headerLine]
    rw [this]
    apply partition_byte
    intro hm
    simp only [List.mem_append, List.mem_cons, List.mem_nil_iff, or_false, or_assoc] at hm
    rcases hm with h | h | h | h | h | h | h
    · have := hs _ h; omega
    · omega
    · omega
    · have := hv _ h; omega
    · omega
    · omega
    · have := hd _ h; omega
  · have : e.source ++ [32, 40] ++ verText e ++ [41, 32] ++ distText e
        = (e.source ++ [32]) ++ 40 :: (verText e ++ [41, 32] ++ distText e) := by simp
    rw [this]
    apply partition_byte
    intro hm
    simp only [List.mem_append, List.mem_cons, List.mem_nil_iff, or_false] at hm
    rcases hm with h | h
    · have := hs _ h; omega
    · omega
  · have : verText e ++ [41, 32] ++ distText e = verText e ++ 41 :: (32 :: distText e) := by simp
    rw [this]
    apply partition_byte
    intro hm
    have := hv _ hm; omega

theorem header_nl {e : SEntry} (hw : WF e) : NL (headerLine e) := by
  refine ⟨e.source ++ [32, 40] ++ verText e ++ [41, 32] ++ distText e ++ [59, 32] ++ optText e,
    rfl, ?_⟩
  intro hm
  simp only [List.mem_append, List.mem_cons, List.mem_nil_iff, or_false, or_assoc] at hm
  rcases hm with h | h | h | h | h | h | h | h | h | h
  · have := (source_chars hw).2 _ h; omega
  · omega
  · omega
  · have := (verText_chars hw).2 _ h; omega
  · omega
  · omega
  · have := distText_chars hw _ h; omega
  · omega
  · omega
  · have := optText_chars hw _ h; omega

theorem header_start {e : SEntry} (hw : WF e) :
    headerLine e ≠ [10] ∧ Str.hasPrefix (headerLine e) [32] = false := by
  obtain ⟨hne, hs⟩ := source_chars hw
  cases hsrc : e.source with
  | nil => exact absurd hsrc hne
  | cons c r =>
    have hc : 33 ≤ c := (hs c (by rw [hsrc]; simp)).1
    have h32 : ¬ (32 = c) := by omega
    constructor
    · intro h
      simp only [headerLine, hsrc, List.cons_append, List.cons.injEq] at h
      omega
    · simp [headerLine, hsrc, Str.hasPrefix, isPrefix, h32]

/-! ### the options -/

/-- the pieces `strings.Split(options, ",")` produces -/
def optPieces : List Bytes → List Bytes
  | [] => []
  | [x] => [32 :: x ++ [10]]
  | x :: y :: r => (32 :: x) :: optPieces (y :: r)

theorem optPieces_join {xs : List Bytes} (hne : xs ≠ []) :
    32 :: joinWith [44, 32] xs ++ [10] = joinWith [44] (optPieces xs) := by
  induction xs with
  | nil => exact absurd rfl hne
  | cons x rest ih =>
    cases rest with
    | nil => simp [joinWith, optPieces]
    | cons y rest =>
      have := ih (by simp)
      cases hp : optPieces (y :: rest) with
      | nil => cases rest <;> simp [optPieces] at hp
      | cons p ps =>
        rw [hp] at this
        simp only [optPieces, hp, joinWith, ← this]
        simp

theorem optPieces_ne {xs : List Bytes} (hne : xs ≠ []) : optPieces xs ≠ [] := by
  match xs, hne with
  | [x], _ => simp [optPieces]
  | x :: y :: r, _ => simp [optPieces]

theorem optPieces_comma {xs : List Bytes} (h : ∀ x ∈ xs, 44 ∉ x) : ∀ p ∈ optPieces xs, 44 ∉ p := by
  induction xs with
  | nil => simp [optPieces]
  | cons x rest ih =>
    have hx := h x (by simp)
    cases rest with
    | nil =>
      intro p hp
      simp only [optPieces, List.mem_singleton] at hp
      subst hp
      simp [hx]
    | cons y rest =>
      intro p hp
      simp only [optPieces, List.mem_cons] at hp
      rcases hp with rfl | hp
      · simp [hx]
      · exact ih (fun z hz => h z (List.mem_cons_of_mem _ hz)) p (by simpa [optPieces] using hp)

theorem argStep_piece {k v : Bytes} (hk : plainToken k [44, 61] = true)
    (hv : plainToken v [44, 61] = true) (m : List (Bytes × Bytes)) :
    argStep m (32 :: (k ++ [61] ++ v)) = mapInsert k v m ∧
    argStep m (32 :: (k ++ [61] ++ v) ++ [10]) = mapInsert k v m := by
  obtain ⟨hk0, hk1⟩ := plainToken_iff.mp hk
  obtain ⟨hv0, hv1⟩ := plainToken_iff.mp hv
  have hends : HeadOK [10, 13, 9, 32] (k ++ [61] ++ v) ∧ LastOK [10, 13, 9, 32] (k ++ [61] ++ v) := by
    constructor
    · rw [List.append_assoc]
      exact headOK_append _ hk0 (plain_ends (fun c hc => (hk1 c hc).1)).1
    · exact lastOK_append _ hv0 (plain_ends (fun c hc => (hv1 c hc).1)).2
  have ht : trim (k ++ [61] ++ v) = k ++ [61] ++ v := trimSet_of_ends hends.1 hends.2
  have h61 : 61 ∉ k := fun hm => by
    have := (hk1 61 hm).2.2
    simp at this
  have hp : partition (k ++ [61] ++ v) [61] = (k, v) := by
    rw [List.append_assoc]; exact partition_byte v h61
  have hkt : trim k = k := trim_plain (fun c hc => (hk1 c hc).1)
  have hvt : trim v = v := trim_plain (fun c hc => (hv1 c hc).1)
  constructor
  · have : trim (32 :: (k ++ [61] ++ v)) = k ++ [61] ++ v := by
      unfold trim at ht ⊢
      rw [trimSet_cons_mem _ (by decide), ht]
    simp only [argStep, this, hp, hkt, hvt]
  · have : trim (32 :: (k ++ [61] ++ v) ++ [10]) = k ++ [61] ++ v := by
      unfold trim at ht ⊢
      rw [trimSet_snoc_mem _ (by decide), trimSet_cons_mem _ (by decide), ht]
    simp only [argStep, this, hp, hkt, hvt]

theorem foldl_optPieces (opts : List (Bytes × Bytes))
    (h : ∀ kv ∈ opts, plainToken kv.1 [44, 61] = true ∧ plainToken kv.2 [44, 61] = true)
    (m : List (Bytes × Bytes)) :
    (optPieces (opts.map (fun (k, v) => k ++ [61] ++ v))).foldl argStep m
      = opts.foldl (fun m (k, v) => mapInsert k v m) m := by
  induction opts generalizing m with
  | nil => rfl
  | cons kv rest ih =>
    obtain ⟨k, v⟩ := kv
    obtain ⟨hk, hv⟩ := h (k, v) (by simp)
    cases rest with
    | nil =>
      simp only [List.map_cons, List.map_nil, optPieces, List.foldl_cons, List.foldl_nil]
      exact (argStep_piece hk hv m).2
    | cons kv' rest =>
      have := ih (fun x hx => h x (List.mem_cons_of_mem _ hx)) (mapInsert k v m)
      simp only [List.map_cons, optPieces, List.foldl_cons, (argStep_piece hk hv m).1] at this ⊢
      exact this

theorem argsOf_opts {e : SEntry} (hw : WF e) :
    argsOf (32 :: optText e ++ [10]) = e.opts.foldl (fun m (k, v) => mapInsert k v m) [] := by
  have hne : optWords e ≠ [] := by
    simp only [optWords, ne_eq, List.map_eq_nil_iff]; exact hw.opts_ne
  have hcomma : ∀ x ∈ optWords e, 44 ∉ x := by
    intro x hx
    simp only [optWords, List.mem_map] at hx
    obtain ⟨⟨k, v⟩, hkv, rfl⟩ := hx
    obtain ⟨hk, hv⟩ := hw.opts _ hkv
    intro hm
    simp only [List.mem_append, List.mem_singleton] at hm
    rcases hm with (h | h) | h
    · have := ((plainToken_iff.mp hk).2 44 h).2.2; simp at this
    · omega
    · have := ((plainToken_iff.mp hv).2 44 h).2.2; simp at this
  unfold argsOf optText
  rw [optPieces_join hne, split_joinWith_byte (optPieces_ne hne) (optPieces_comma hcomma)]
  exact foldl_optPieces e.opts hw.opts []

/-! ### the body and the trailer -/

theorem body_lines {e : SEntry} (hw : WF e) :
    ∀ l ∈ [10] :: e.body.map (· ++ [10]) ++ [[10]],
      (Str.hasPrefix l [32] = true ∨ trim l = []) ∧ Str.hasPrefix l [32, 45, 45, 32] = false := by
  have hblank : (Str.hasPrefix [10] [32] = true ∨ trim [10] = []) ∧
      Str.hasPrefix [10] [32, 45, 45, 32] = false := ⟨Or.inr (by decide), by decide⟩
  intro l hl
  simp only [List.cons_append, List.mem_cons, List.mem_append, List.mem_map, List.mem_nil_iff,
    or_false] at hl
  rcases hl with rfl | ⟨b, hb, rfl⟩ | rfl
  · exact hblank
  · rcases hw.body b hb with rfl | ⟨h1, h2, -⟩
    · exact hblank
    · constructor
      · left
        cases b with
        | nil => cases h1
        | cons c r =>
          simp only [List.head?_cons, Option.some.injEq] at h1
          subst h1
          simp [Str.hasPrefix, isPrefix]
      · unfold Str.hasPrefix at h2 ⊢
        rw [isPrefix_snoc b (by decide) (by decide)]
        exact h2
  · exact hblank

theorem who_ends {e : SEntry} (hw : WF e) :
    Str.contains (32 :: e.who) [32, 32] = false ∧ ∀ c, (32 :: e.who).getLast? = some c → c ≠ 32 := by
  have hh := headOK_of_fixed hw.who_trim
  have hl := lastOK_of_fixed hw.who_trim
  cases hwho : e.who with
  | nil => exact absurd hwho hw.who_ne
  | cons c r =>
    rw [hwho] at hh hl
    constructor
    · have hc : ¬ (32 = c) := by
        intro h
        have := hh c rfl
        rw [← h] at this
        revert this; decide
      have hd := hw.who_dblank
      rw [hwho] at hd
      unfold Str.contains at hd ⊢
      cases hi : indexOf [32, 32] (c :: r) with
      | some k => rw [hi] at hd; cases hd
      | none =>
        rw [indexOf, hi]
        simp [isPrefix, hc]
    · intro d hd
      rw [List.getLast?_cons_cons] at hd
      intro h
      have := hl d hd
      rw [h] at this
      revert this; decide

theorem trailer_split {e : SEntry} (hw : WF e) (t : Bytes) :
    partition (trailerText e ++ t) [45, 45] = ([32], (32 :: e.who) ++ 32 :: 32 :: (e.date ++ t)) ∧
    partition ((32 :: e.who) ++ 32 :: 32 :: (e.date ++ t)) [32, 32] = (32 :: e.who, e.date ++ t) := by
  constructor
  · have : trailerText e ++ t = 32 :: 45 :: 45 :: ((32 :: e.who) ++ 32 :: 32 :: (e.date ++ t)) := by
      simp [trailerText]
    rw [this, partition_dashes]
  · exact partition_dblank _ _ (who_ends hw).1 (who_ends hw).2

theorem who_trim' {e : SEntry} (hw : WF e) : trim (32 :: e.who) = e.who := by
  have := hw.who_trim
  unfold trim at this ⊢
  rw [trimSet_cons_mem _ (by decide), this]

theorem date_trim' {e : SEntry} (hw : WF e) {t : Bytes} (ht : t = [] ∨ t = [10]) :
    trim (e.date ++ t) = e.date := by
  have := hw.date_trim
  rcases ht with rfl | rfl
  · simpa using this
  · unfold trim at this ⊢
    rw [trimSet_snoc_mem _ (by decide), this]

theorem source_trim {e : SEntry} (hw : WF e) : trim (e.source ++ [32]) = e.source := by
  unfold trim
  rw [trimSet_snoc_mem _ (by decide)]
  exact trim_plain (fun c hc => ((source_chars hw).2 c hc).1)

theorem trailer_prefix (e : SEntry) (t : Bytes) :
    Str.hasPrefix (trailerText e ++ t) [32, 45, 45, 32] = true := by
  simp [trailerText, Str.hasPrefix, isPrefix]

/-! ### one entry -/

theorem parseOne_entryLines {e : SEntry} (hw : WF e) {dateOK : Bytes → Bool}
    (hd : dateOK e.date = true) {t : Bytes} (ht : t = [] ∨ t = [10]) (n : Nat) (rest : List Bytes) :
    parseOne (List.replicate n [10] ++ entryLines e t ++ rest) dateOK = .entry (view e) rest := by
  have hls : List.replicate n [10] ++ entryLines e t ++ rest
      = List.replicate n [10] ++ headerLine e ::
          (([10] :: e.body.map (· ++ [10]) ++ [[10]]) ++ (trailerText e ++ t) :: rest) := by
    simp [entryLines]
  obtain ⟨hh1, hh2⟩ := header_start hw
  obtain ⟨p1, p2, p3⟩ := header_split hw
  obtain ⟨q1, q2⟩ := trailer_split hw t
  have hv : Version.parse (trim (verText e)) = .ok e.version := by
    rw [trim_plain (fun c hc => ((verText_chars hw).2 c hc).1)]
    exact hw.version
  have hdate : dateOK (trim (e.date ++ t)) = true := by rw [date_trim' hw ht]; exact hd
  rw [hls, parseOne_stages (findHeader_blanks n _ hh1 hh2) p1 p2 p3 hv
    (findSignoff_body _ [] _ rest (body_lines hw) (trailer_prefix e t)) q1 q2 hdate]
  simp only [source_trim hw, distText_trim hw, argsOf_opts hw, who_trim' hw, date_trim' hw ht,
    view, List.nil_append] <;> rfl

/-! ### a list of entries -/

/-- entries in a layout the parser accepts: any number of empty lines before each entry and
    at the end, every trailer line with or without its newline -/
inductive Good (dateOK : Bytes → Bool) : List SEntry → List Bytes → Prop
  | nil (n : Nat) : Good dateOK [] (List.replicate n [10])
  | cons (e : SEntry) (t : Bytes) (n : Nat) (es : List SEntry) (L : List Bytes) :
      WF e → dateOK e.date = true → (t = [] ∨ t = [10]) → Good dateOK es L →
      Good dateOK (e :: es) (List.replicate n [10] ++ entryLines e t ++ L)

theorem Good.cons0 {dateOK : Bytes → Bool} {e : SEntry} {t : Bytes} {es : List SEntry}
    {L : List Bytes} (hw : WF e) (hd : dateOK e.date = true) (ht : t = [] ∨ t = [10])
    (h : Good dateOK es L) : Good dateOK (e :: es) (entryLines e t ++ L) := by
  simpa using Good.cons e t 0 es L hw hd ht h

theorem Good.blanks {dateOK : Bytes → Bool} {es : List SEntry} {L : List Bytes}
    (h : Good dateOK es L) (k : Nat) : Good dateOK es (List.replicate k [10] ++ L) := by
  cases h with
  | nil n =>
    rw [List.replicate_append_replicate]
    exact Good.nil _
  | cons e t n es L hw hd ht hg =>
    rw [← List.append_assoc, ← List.append_assoc, List.replicate_append_replicate]
    exact Good.cons e t _ es L hw hd ht hg

theorem Good.length_le {dateOK : Bytes → Bool} {es : List SEntry} {L : List Bytes}
    (h : Good dateOK es L) : es.length ≤ L.length := by
  induction h with
  | nil n => simp
  | cons e t n es L hw hd ht hg ih =>
    simp [entryLines]; omega

theorem Good.parse {dateOK : Bytes → Bool} {es : List SEntry} {L : List Bytes}
    (h : Good dateOK es L) (fuel : Nat) (acc : List Entry) (hf : es.length < fuel) :
    parseAux fuel L dateOK acc = .ok (acc ++ es.map view) := by
  induction h generalizing fuel acc with
  | nil n =>
    cases fuel with
    | zero => omega
    | succ f =>
      rw [parseAux_succ, (parseOne_eof_iff _ dateOK).mpr (by simp)]
      simp
  | cons e t n es L hw hd ht hg ih =>
    cases fuel with
    | zero => omega
    | succ f =>
      rw [parseAux_succ, parseOne_entryLines hw hd ht]
      simp only
      rw [ih f _ (by simpa using hf)]
      simp

theorem Good.parse_lines {dateOK : Bytes → Bool} {es : List SEntry} {b : Bytes}
    (h : Good dateOK es (lines b)) : Changelog.parse b dateOK = .ok (es.map view) := by
  have := h.parse ((lines b).length + 1) [] (by have := h.length_le; omega)
  simpa [Changelog.parse] using this

/-! ### `renderAll` -/

theorem renderAll_nil (cs : Spec.Deb822.Choices) :
    renderAll [] cs = List.replicate (Spec.Deb822.pick 3 cs).1 [10] := rfl

theorem renderAll_one (e : SEntry) (cs : Spec.Deb822.Choices) :
    renderAll [e] cs = entryLines e [10] ++ List.replicate (Spec.Deb822.pick 3 cs).1 [10] := by
  rw [← renderEntry_eq]; rfl

theorem renderAll_cons (e e' : SEntry) (rest : List SEntry) (cs : Spec.Deb822.Choices) :
    renderAll (e :: e' :: rest) cs = entryLines e [10]
      ++ List.replicate ((Spec.Deb822.pick 3 cs).1 + 1) [10]
      ++ renderAll (e' :: rest) (Spec.Deb822.pick 3 cs).2 := by
  rw [← renderEntry_eq]; rfl

theorem entry_nl {e : SEntry} (hw : WF e) : ∀ l ∈ entryLines e [10], NL l := by
  have hblank : NL [10] := ⟨[], rfl, by simp⟩
  intro l hl
  simp only [entryLines, List.cons_append, List.nil_append, List.mem_cons, List.mem_append,
    List.mem_map, List.mem_nil_iff, or_false] at hl
  rcases hl with rfl | rfl | ⟨b, hb, rfl⟩ | rfl | rfl
  · exact header_nl hw
  · exact hblank
  · refine ⟨b, rfl, ?_⟩
    rcases hw.body b hb with rfl | ⟨-, -, h⟩
    · simp
    · exact h
  · exact hblank
  · refine ⟨trailerText e, rfl, ?_⟩
    intro hm
    simp only [trailerText, List.mem_append, List.mem_cons, List.mem_nil_iff, or_false,
      or_assoc] at hm
    rcases hm with h | h | h | h | h | h | h | h
    · omega
    · omega
    · omega
    · omega
    · exact hw.who_nl h
    · omega
    · omega
    · exact hw.date_nl h

theorem renderAll_nl {es : List SEntry} (hw : ∀ e ∈ es, WF e) (cs : Spec.Deb822.Choices) :
    ∀ l ∈ renderAll es cs, NL l := by
  have hblank : NL [10] := ⟨[], rfl, by simp⟩
  induction es generalizing cs with
  | nil =>
    intro l hl
    rw [renderAll_nil] at hl
    rw [(List.mem_replicate.mp hl).2]; exact hblank
  | cons e rest ih =>
    have he := entry_nl (hw e (by simp))
    cases rest with
    | nil =>
      intro l hl
      rw [renderAll_one, List.mem_append] at hl
      rcases hl with hl | hl
      · exact he l hl
      · rw [(List.mem_replicate.mp hl).2]; exact hblank
    | cons e' rest =>
      intro l hl
      rw [renderAll_cons, List.mem_append, List.mem_append] at hl
      rcases hl with (hl | hl) | hl
      · exact he l hl
      · rw [(List.mem_replicate.mp hl).2]; exact hblank
      · exact ih (fun x hx => hw x (List.mem_cons_of_mem _ hx)) _ l hl

theorem good_renderAll {dateOK : Bytes → Bool} {es : List SEntry}
    (hw : ∀ e ∈ es, WF e ∧ dateOK e.date = true) (cs : Spec.Deb822.Choices) :
    Good dateOK es (renderAll es cs) := by
  induction es generalizing cs with
  | nil => exact Good.nil _
  | cons e rest ih =>
    obtain ⟨he, hd⟩ := hw e (by simp)
    cases rest with
    | nil =>
      rw [renderAll_one]
      exact Good.cons0 he hd (Or.inr rfl) (Good.nil _)
    | cons e' rest =>
      rw [renderAll_cons, List.append_assoc]
      exact Good.cons0 he hd (Or.inr rfl)
        ((ih (fun x hx => hw x (List.mem_cons_of_mem _ hx)) _).blanks _)

theorem entryLines_snoc (e : SEntry) (t : Bytes) :
    entryLines e t = ([headerLine e, [10]] ++ e.body.map (· ++ [10]) ++ [[10]])
      ++ [trailerText e ++ t] := by
  simp [entryLines]

/-- the rendered lines with the final newline taken away -/
theorem chop_renderAll {dateOK : Bytes → Bool} {es : List SEntry}
    (hw : ∀ e ∈ es, WF e ∧ dateOK e.date = true) (cs : Spec.Deb822.Choices) :
    (renderAll es cs = [] ∧ es = []) ∨
    ∃ L' x, renderAll es cs = L' ++ [x ++ [10]] ∧
      Good dateOK es (L' ++ if x.isEmpty then [] else [x]) := by
  induction es generalizing cs with
  | nil =>
    rw [renderAll_nil]
    cases (Spec.Deb822.pick 3 cs).1 with
    | zero => exact Or.inl ⟨rfl, rfl⟩
    | succ m =>
      refine Or.inr ⟨List.replicate m [10], [], by rw [List.replicate_succ']; rfl, ?_⟩
      simpa using Good.nil m
  | cons e rest ih =>
    obtain ⟨he, hd⟩ := hw e (by simp)
    right
    cases rest with
    | nil =>
      rw [renderAll_one]
      cases (Spec.Deb822.pick 3 cs).1 with
      | zero =>
        refine ⟨[headerLine e, [10]] ++ e.body.map (· ++ [10]) ++ [[10]], trailerText e,
          by rw [entryLines_snoc]; simp, ?_⟩
        have hne : (trailerText e).isEmpty = false := by simp [trailerText]
        rw [hne]
        have := Good.cons0 (t := []) he hd (Or.inl rfl) (Good.nil (dateOK := dateOK) 0)
        rw [entryLines_snoc] at this
        simpa using this
      | succ m =>
        refine ⟨entryLines e [10] ++ List.replicate m [10], [],
          by rw [List.replicate_succ']; simp, ?_⟩
        simpa using Good.cons0 he hd (Or.inr rfl) (Good.nil (dateOK := dateOK) m)
    | cons e' rest =>
      rw [renderAll_cons]
      rcases ih (fun x hx => hw x (List.mem_cons_of_mem _ hx)) (Spec.Deb822.pick 3 cs).2 with
        ⟨-, h⟩ | ⟨L', x, h1, h2⟩
      · cases h
      · refine ⟨entryLines e [10] ++ List.replicate ((Spec.Deb822.pick 3 cs).1 + 1) [10] ++ L', x,
          by rw [h1]; simp, ?_⟩
        rw [List.append_assoc, List.append_assoc]
        exact Good.cons0 he hd (Or.inr rfl) (h2.blanks _)

/-! ### the round trip -/

theorem good_lines_render {dateOK : Bytes → Bool} {es : List SEntry}
    (hw : ∀ e ∈ es, WF e ∧ dateOK e.date = true) (cs : Spec.Deb822.Choices) (fin : Bool) :
    Good dateOK es (lines (render es cs fin)) := by
  have hnl := renderAll_nl (fun e he => (hw e he).1) cs
  cases fin with
  | true =>
    have := lines_flatten hnl (last := []) (by simp)
    simp only [List.append_nil, List.isEmpty_nil, if_true] at this
    simp only [render, if_true, this]
    exact good_renderAll hw cs
  | false =>
    simp only [render, Bool.false_eq_true, if_false]
    rcases chop_renderAll hw cs with ⟨h1, h2⟩ | ⟨L', x, h1, h2⟩
    · rw [h1, h2]
      exact Good.nil 0
    · rw [h1] at hnl ⊢
      have hx : 10 ∉ x := by
        obtain ⟨y, hy, hy'⟩ := hnl (x ++ [10]) (by simp)
        rw [List.append_cancel_right hy]; exact hy'
      have hfl : (L' ++ [x ++ [10]]).flatten.dropLast = L'.flatten ++ x := by
        rw [List.flatten_append]
        simp only [List.flatten_cons, List.flatten_nil, List.append_nil]
        rw [← List.append_assoc, List.dropLast_concat]
      rw [hfl, lines_flatten (fun l hl => hnl l (by simp [hl])) hx]
      exact h2

theorem parse_render {dateOK : Bytes → Bool} {es : List SEntry}
    (hwf : es.all wfEntry = true) (hd : ∀ e ∈ es, dateOK e.date = true)
    (cs : Spec.Deb822.Choices) (fin : Bool) :
    Changelog.parse (render es cs fin) dateOK = .ok (es.map view) := by
  apply Good.parse_lines
  apply good_lines_render
  intro e he
  exact ⟨wf_of_wfEntry (List.all_eq_true.mp hwf e he), hd e he⟩

end GoDebian.Lemmas.Changelog
