/-
  Lemmas about the `.deb` loader model on arbitrary bytes: `plan` never reports `fuel` or
  `panic`; the only such outcome of `load` is one reported by `Codec.unmarshal`.
  Core Lean only.
-/
import GoDebian.Model.Deb
import GoDebian.Lemmas.ArIter

namespace GoDebian.Lemmas.Ar
open GoDebian GoDebian.Ar GoDebian.Deb

theorem collect_error {es acc : List Entry} {e : Err} (h : collect es acc = .error e) :
    e = .err := by
  induction es generalizing acc with
  | nil => cases h
  | cons x rest ih =>
    unfold collect at h
    split at h
    · injection h with h; exact h.symm
    · exact ih h

/-- Every error of `plan` is an ordinary error value. -/
theorem plan_error {bs : Bytes} {e : Err} (h : plan bs = .error e) : e = .err := by
  unfold plan at h
  split at h
  · injection h with h; exact h.symm
  · injection h with h; exact h.symm
  · rename_i es hr
    exact absurd rfl (readAll_terminates hr)
  · split at h
    · rename_i e' hc
      injection h with h
      subst h
      exact collect_error hc
    · split at h
      · injection h with h; exact h.symm
      · simp only at h
        split at h
        · injection h with h; exact h.symm
        · split at h
          · injection h with h; exact h.symm
          · split at h
            · split at h
              · injection h with h; exact h.symm
              · cases h
            · injection h with h; exact h.symm

theorem plan_total (bs : Bytes) : plan bs ≠ .error .fuel ∧ plan bs ≠ .error .panic :=
  ⟨fun h => Err.noConfusion (plan_error h), fun h => Err.noConfusion (plan_error h)⟩

/-- An error of `load` other than an ordinary error value was reported by
    `Codec.unmarshal` on the control file, after `plan` succeeded. -/
theorem load_error {bs : Bytes} {schema : Codec.Schema} {ctl : TarAnswer} {d : Bool} {e : Err}
    (h : load bs schema ctl d = .error e) (he : e ≠ .err) :
    ∃ p content, plan bs = .ok p ∧ Codec.unmarshal schema content = .error e := by
  unfold load at h
  split at h
  · rename_i e' hp
    injection h with h
    subst h
    exact absurd (plan_error hp) he
  · rename_i p hp
    split at h
    · injection h with h; exact absurd h.symm he
    · split at h
      · injection h with h; exact absurd h.symm he
      · injection h with h; exact absurd h.symm he
      · rename_i content _
        split at h
        · rename_i e' hu
          injection h with h
          subst h
          exact ⟨p, content, hp, hu⟩
        · split at h
          · injection h with h; exact absurd h.symm he
          · split at h
            · injection h with h; exact absurd h.symm he
            · cases h

end GoDebian.Lemmas.Ar
