/-
  C09 lemmas, part 3: the marshalling walker never panics and has enough fuel; which
  fields end up in the paragraph.  Core Lean only.
-/
import GoDebian.Model.Codec
import GoDebian.Spec.Codec
import GoDebian.Lemmas.CodecConvert

namespace GoDebian.Lemmas.Codec
open GoDebian GoDebian.Deb822 GoDebian.Codec GoDebian.Spec.Codec

theorem encodeCustom_error {typ : String} {c : Custom} {e : Err}
    (h : encodeCustom typ c = .error e) : e = .err := by
  unfold encodeCustom at h
  split at h <;> cases h
  rfl

/-- `marshalValue` on a slice kind: render every element, join -/
theorem marshalValue_slice (n : Nat) (elem : Kind) (delim : Bytes) (vs : List Val) :
    marshalValue (n+1) (.slice elem) delim (.list vs) =
      (mapRes (fun v => marshalValue n elem delim v) vs).map
        (Str.joinWith (if delim.isEmpty then [32] else delim)) := by
  rw [marshalValue]
  simp only [foldlM_collect]
  cases mapRes (fun v => marshalValue n elem delim v) vs <;> simp [Except.map]

theorem marshalValue_error (n : Nat) (k : Kind) (delim : Bytes) (v : Val) (e : Err)
    (h : marshalValue n k delim v = .error e) :
    e = .err ∨ (e = .fuel ∧ n ≤ kindDepth k) := by
  induction n generalizing k v with
  | zero =>
    rw [marshalValue] at h
    cases h
    exact Or.inr ⟨rfl, Nat.zero_le _⟩
  | succ n ih =>
    cases k with
    | slice elem =>
      cases v with
      | list vs =>
        rw [marshalValue_slice] at h
        cases hm : mapRes (fun v => marshalValue n elem delim v) vs with
        | ok ds => rw [hm] at h; cases h
        | error e' =>
          rw [hm] at h
          cases h
          obtain ⟨x, _, hx⟩ := mapRes_error hm
          rcases ih elem x hx with h1 | ⟨h1, h2⟩
          · exact Or.inl h1
          · exact Or.inr ⟨h1, by simp only [kindDepth]; omega⟩
      | _ => simp [marshalValue] at h
    | custom typ =>
      cases v with
      | custom c =>
        simp only [marshalValue] at h
        exact Or.inl (encodeCustom_error h)
      | _ =>
        simp only [marshalValue] at h
        split at h
        · exact Or.inl (encodeCustom_error h)
        · cases h; exact Or.inl rfl
    | str => cases v <;> simp [marshalValue] at h
    | int => cases v <;> simp [marshalValue] at h
    | uint => cases v <;> simp [marshalValue] at h
    | bool =>
      cases v with
      | bool b => cases b <;> simp [marshalValue] at h
      | _ => simp [marshalValue] at h
    | para => simp only [marshalValue] at h; cases h; exact Or.inl rfl
    | nested sub => simp only [marshalValue] at h; cases h; exact Or.inl rfl
    | unsupported nm => simp only [marshalValue] at h; cases h; exact Or.inl rfl

theorem marshalValue_ne_panic (n : Nat) (k : Kind) (delim : Bytes) (v : Val) :
    marshalValue n k delim v ≠ .error .panic := by
  intro h
  rcases marshalValue_error n k delim v _ h with h1 | ⟨h1, _⟩ <;> cases h1

theorem marshalValue_ne_fuel {n : Nat} {k : Kind} (hd : kindDepth k < n) (delim : Bytes) (v : Val) :
    marshalValue n k delim v ≠ .error .fuel := by
  intro h
  rcases marshalValue_error n k delim v _ h with h1 | ⟨_, h2⟩
  · cases h1
  · omega

theorem mem_zip_left {α β : Type} {a : α} {b : β} {l : List α} {l' : List β}
    (h : (a, b) ∈ l.zip l') : a ∈ l := (List.of_mem_zip h).1

theorem convert_total (s : Schema) (r : List Val) :
    convertToParagraph s r ≠ .error .panic ∧
      (depthOK s = true → convertToParagraph s r ≠ .error .fuel) := by
  refine ⟨fun h => ?_, fun hd h => ?_⟩
  · obtain ⟨fv, _, _, _, hm⟩ := convert_error h
    exact marshalValue_ne_panic _ _ _ _ hm
  · obtain ⟨fv, hfv, _, _, hm⟩ := convert_error h
    obtain ⟨f, v⟩ := fv
    have hf : f ∈ s := mem_zip_left hfv
    simp only [depthOK, List.all_eq_true, decide_eq_true_eq] at hd
    exact marshalValue_ne_fuel (Nat.lt_succ_of_le (hd f hf)) _ _ hm

/-! ### inversion of `emit` -/

theorem emit_of_marshal {fv : FieldDesc × Val} {data : Bytes} (ha : fv.1.anonymous = false)
    (hk : fv.1.key ≠ [45]) (hm : marshalValue 16 fv.1.kind fv.1.delim fv.2 = .ok data) :
    emit fv = .ok (if (data.isEmpty && !fv.1.required) = true then .omit fv.1.key
      else .write fv.1.key (if fv.1.multiline then 10 :: data else data)) := by
  unfold emit
  rw [if_neg (by simp [ha]), if_neg hk, hm]
  dsimp only
  split <;> rfl

theorem emit_inv {fv : FieldDesc × Val} {x : Emit} (h : emit fv = .ok x) :
    (fv.1.anonymous = true ∧ (x = .none ∨ ∃ q, x = .found q)) ∨
    (fv.1.anonymous = false ∧ fv.1.key = [45] ∧ x = .none) ∨
    (fv.1.anonymous = false ∧ fv.1.key ≠ [45] ∧ ∃ data,
      marshalValue 16 fv.1.kind fv.1.delim fv.2 = .ok data ∧
      x = (if (data.isEmpty && !fv.1.required) = true then .omit fv.1.key
        else .write fv.1.key (if fv.1.multiline then 10 :: data else data))) := by
  by_cases h1 : fv.1.anonymous = true
  · refine Or.inl ⟨h1, ?_⟩
    unfold emit at h
    rw [if_pos h1] at h
    split at h <;> cases h
    · exact Or.inr ⟨_, rfl⟩
    · exact Or.inr ⟨_, rfl⟩
    · exact Or.inl rfl
  · have h1' : fv.1.anonymous = false := by simpa using h1
    by_cases h2 : fv.1.key = [45]
    · refine Or.inr (Or.inl ⟨h1', h2, ?_⟩)
      unfold emit at h
      rw [if_neg h1, if_pos h2] at h
      cases h; rfl
    · refine Or.inr (Or.inr ⟨h1', h2, ?_⟩)
      cases hm : marshalValue 16 fv.1.kind fv.1.delim fv.2 with
      | error e =>
        unfold emit at h
        rw [if_neg h1, if_neg h2, hm] at h
        cases h
      | ok data =>
        rw [emit_of_marshal h1' h2 hm] at h
        cases h
        exact ⟨data, rfl, rfl⟩

theorem emit_write {fv : FieldDesc × Val} {k d : Bytes} (h : emit fv = .ok (.write k d)) :
    fv.1.anonymous = false ∧ fv.1.key ≠ [45] ∧ k = fv.1.key ∧ ∃ data,
      marshalValue 16 fv.1.kind fv.1.delim fv.2 = .ok data ∧
      (data.isEmpty && !fv.1.required) = false ∧
      d = (if fv.1.multiline then 10 :: data else data) := by
  rcases emit_inv h with ⟨_, h1 | ⟨q, h1⟩⟩ | ⟨_, _, h1⟩ | ⟨ha, hk, data, hm, hx⟩
  · cases h1
  · cases h1
  · cases h1
  · by_cases hc : (data.isEmpty && !fv.1.required) = true
    · rw [if_pos hc] at hx; cases hx
    · rw [if_neg hc] at hx
      cases hx
      exact ⟨ha, hk, rfl, data, hm, by simpa using hc, rfl⟩

theorem emit_omit {fv : FieldDesc × Val} {k : Bytes} (h : emit fv = .ok (.omit k)) :
    fv.1.anonymous = false ∧ fv.1.key ≠ [45] ∧ k = fv.1.key ∧
      marshalValue 16 fv.1.kind fv.1.delim fv.2 = .ok [] ∧ fv.1.required = false := by
  rcases emit_inv h with ⟨_, h1 | ⟨q, h1⟩⟩ | ⟨_, _, h1⟩ | ⟨ha, hk, data, hm, hx⟩
  · cases h1
  · cases h1
  · cases h1
  · by_cases hc : (data.isEmpty && !fv.1.required) = true
    · rw [if_pos hc] at hx
      cases hx
      simp only [Bool.and_eq_true, List.isEmpty_iff, Bool.not_eq_eq_eq_not, Bool.not_true] at hc
      obtain ⟨hc1, hc2⟩ := hc
      subst hc1
      exact ⟨ha, hk, rfl, hm, hc2⟩
    · rw [if_neg hc] at hx; cases hx

theorem emit_found {fv : FieldDesc × Val} {q : Paragraph} (h : emit fv = .ok (.found q)) :
    fv.1.anonymous = true := by
  rcases emit_inv h with ⟨h0, _⟩ | ⟨_, _, h1⟩ | ⟨ha, hk, data, hm, hx⟩
  · exact h0
  · cases h1
  · split at hx <;> cases hx

/-! ### field names occurring once -/

def known (f : FieldDesc) : Bool := !f.anonymous && f.key != [45]

theorem known_iff {f : FieldDesc} : known f = true ↔ f.anonymous = false ∧ f.key ≠ [45] := by
  simp [known]

theorem knownKeys_cons (a : FieldDesc) (s : Schema) :
    knownKeys (a :: s) = if known a = true then a.key :: knownKeys s else knownKeys s := by
  unfold knownKeys known
  by_cases h : (!a.anonymous && a.key != [45]) = true
  · rw [if_pos h, List.filter_cons, if_pos h]; rfl
  · rw [if_neg h, List.filter_cons, if_neg h]

theorem mem_knownKeys {f : FieldDesc} {s : Schema} (hf : f ∈ s) (ha : f.anonymous = false)
    (hk : f.key ≠ [45]) : f.key ∈ knownKeys s := by
  unfold knownKeys
  exact List.mem_map_of_mem (List.mem_filter.mpr ⟨hf, by simp [ha, hk]⟩)

theorem of_mem_knownKeys {k : Bytes} {s : Schema} (h : k ∈ knownKeys s) :
    ∃ f ∈ s, f.anonymous = false ∧ f.key ≠ [45] ∧ f.key = k := by
  unfold knownKeys at h
  obtain ⟨f, hf, hk⟩ := List.mem_map.mp h
  obtain ⟨hf1, hf2⟩ := List.mem_filter.mp hf
  have := known_iff.mp hf2
  exact ⟨f, hf1, this.1, this.2, hk⟩

theorem count_knownKeys_le (s : Schema) (k : Bytes) :
    (knownKeys s).count k ≤ (s.map FieldDesc.key).count k := by
  induction s with
  | nil => simp [knownKeys]
  | cons a s ih =>
    rw [knownKeys_cons, List.map_cons, List.count_cons]
    split
    · rw [List.count_cons]; omega
    · omega

theorem zip_unique_key {s : Schema} {r : List Val} {k : Bytes}
    (hu : (knownKeys s).count k ≤ 1) {f g : FieldDesc} {v w : Val}
    (hf : (f, v) ∈ s.zip r) (hg : (g, w) ∈ s.zip r)
    (haf : f.anonymous = false) (hag : g.anonymous = false) (hk45 : k ≠ [45])
    (hfk : f.key = k) (hgk : g.key = k) :
    (f, v) = (g, w) := by
  induction s generalizing r with
  | nil => simp at hf
  | cons a s ih =>
    cases r with
    | nil => simp at hf
    | cons b r =>
      rw [List.zip_cons_cons, List.mem_cons] at hf hg
      rw [knownKeys_cons] at hu
      have hkf : known f = true := known_iff.mpr ⟨haf, by rw [hfk]; exact hk45⟩
      have hkg : known g = true := known_iff.mpr ⟨hag, by rw [hgk]; exact hk45⟩
      by_cases hka : known a = true
      · rw [if_pos hka, List.count_cons] at hu
        by_cases hak : a.key = k
        · have h0 : (knownKeys s).count k = 0 := by
            simp only [hak, beq_self_eq_true, if_true] at hu; omega
          have hno : ∀ x y, (x, y) ∈ s.zip r → x.anonymous = false → x.key ≠ k := by
            intro x y hxy hxa hx
            have : k ∈ knownKeys s := by
              rw [← hx]; exact mem_knownKeys (mem_zip_left hxy) hxa (by rw [hx]; exact hk45)
            exact absurd (List.count_pos_iff.mpr this) (by omega)
          rcases hf with hf | hf
          · rcases hg with hg | hg
            · rw [hf, hg]
            · exact absurd hgk (hno _ _ hg hag)
          · exact absurd hfk (hno _ _ hf haf)
        · have hu' : (knownKeys s).count k ≤ 1 := by
            have : (a.key == k) = false := by simpa using hak
            simpa [this] using hu
          rcases hf with hf | hf
          · cases hf; exact absurd hfk hak
          · rcases hg with hg | hg
            · cases hg; exact absurd hgk hak
            · exact ih hu' hf hg
      · rw [if_neg hka] at hu
        rcases hf with hf | hf
        · cases hf; exact absurd hkf hka
        · rcases hg with hg | hg
          · cases hg; exact absurd hkg hka
          · exact ih hu hf hg

/-! ### which fields are written -/

theorem mem_order_convert {s : Schema} {r : List Val} {p : Paragraph}
    (h : convertToParagraph s r = .ok p) {f : FieldDesc} {v : Val} (hf : (f, v) ∈ s.zip r)
    (ha : f.anonymous = false) (hk : f.key ≠ [45]) {data : Bytes}
    (hd : marshalValue 16 f.kind f.delim v = .ok data)
    (hu : (knownKeys s).count f.key ≤ 1) :
    f.key ∈ p.order ↔ (f.required = true ∨ data ≠ []) := by
  obtain ⟨es, hes, rfl⟩ := convert_spec h
  have hall := mapRes_ok hes
  obtain ⟨x, hx, hem⟩ := all₂_mem_left hall hf
  rw [emit_of_marshal (fv := (f, v)) ha hk hd] at hem
  rw [mem_order_update]
  by_cases hc : (data.isEmpty && !f.required) = true
  · rw [if_pos hc] at hem
    cases hem
    have hc' : data = [] ∧ f.required = false := by simpa using hc
    constructor
    · rintro (hb | hw)
      · exact absurd (mem_omits.mpr hx) ((mem_order_baseOf _ _ _).mp hb).2
      · obtain ⟨⟨k, d⟩, hkd, hk'⟩ := List.mem_map.mp hw
        simp only at hk'
        subst hk'
        obtain ⟨⟨g, w⟩, hg, hgem⟩ := all₂_mem_right hall (mem_writes.mp hkd)
        obtain ⟨hga, _, hgk, _⟩ := emit_write hgem
        have := zip_unique_key hu hf hg ha hga hk rfl hgk.symm
        cases this
        rw [emit_of_marshal (fv := (f, v)) ha hk hd, if_pos hc] at hgem
        cases hgem
    · rintro (h1 | h1)
      · rw [hc'.2] at h1; cases h1
      · exact absurd hc'.1 h1
  · rw [if_neg hc] at hem
    cases hem
    constructor
    · intro _
      by_cases hr : f.required = true
      · exact Or.inl hr
      · refine Or.inr (fun hd0 => hc ?_)
        simp [hd0, hr]
    · intro _
      exact Or.inr (List.mem_map.mpr ⟨(f.key, _), mem_writes.mpr hx, rfl⟩)

/-! ### a required field that is missing -/

theorem decodeFields_required_missing (p : Paragraph) (f : FieldDesc) (hr : f.required = true)
    (hk : f.key ≠ [45]) (ha : f.anonymous = false) (hmiss : lookup f.key p.values = none)
    (s : Schema) : ∀ (fuel : Nat) (olds : List Val), f ∈ s →
      ∃ e, decodeFields fuel p s olds = .error e := by
  induction s with
  | nil => intro _ _ hf; cases hf
  | cons g fs ih =>
    intro fuel olds hf
    cases fuel with
    | zero => exact ⟨.fuel, by rw [decodeFields]⟩
    | succ fuel =>
      rw [decodeFields]
      rcases List.mem_cons.mp hf with rfl | hf'
      · simp only [hk, ha, hmiss, hr, if_false, if_true]
        split <;> exact ⟨_, rfl⟩
      · obtain ⟨e, he⟩ := ih fuel olds.tail hf'
        simp only [he, Except.map]
        repeat' split
        all_goals exact ⟨_, rfl⟩

end GoDebian.Lemmas.Codec
