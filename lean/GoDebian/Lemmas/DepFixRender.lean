/-
  Each sub-parser of the dependency parser consumes exactly the canonical rendering of a
  value that satisfies the output invariant and leaves what follows it.  Core Lean only.
-/
import GoDebian.Lemmas.DepFixInv

namespace GoDebian.Lemmas.DepFix
open GoDebian GoDebian.Dep

/-! ### one `[...]` entry -/

theorem entry_render {ng neg : Bool} {acc : List Arch} {a : Arch} (ha : ArchWF entryStop a)
    (hng : acc ≠ [] → ng = neg) {c : Nat} (t : Bytes) (hc : c = 32 ∨ c = 93) :
    parseArchEntry ⟨ng, acc⟩ ((if neg then [33] else []) ++ a.render ++ c :: t) =
      .ok (⟨neg, acc ++ [a]⟩, c :: t) := by
  have hr := arch_render_no_stop (stop := entryStop) (by decide) ha
  have hparse := parseArch_render_wf ha
  have hcs : entryStop c = true := by rcases hc with rfl | rfl <;> decide
  have htu : takeUntil entryStop (a.render ++ c :: t) = (a.render, c :: t) :=
    takeUntil_append _ _ hr hcs
  have hc0 : c ≠ 0 := by rcases hc with rfl | rfl <;> decide
  have hc33 : c ≠ 33 := by rcases hc with rfl | rfl <;> decide
  have hstopX : entryStop (peek (a.render ++ c :: t)) = false :=
    peek_append_no_stop _ (arch_render_ne_nil a) hr
  have hwsX : isWs (peek (a.render ++ c :: t)) = false := by
    simp only [entryStop, Bool.or_eq_false_iff] at hstopX; exact hstopX.2
  have heatX := eatWs_of_peek hwsX
  have hpkX : ¬ (peek (a.render ++ c :: t) = 33) := by
    intro e; rw [e] at hstopX; cases hstopX
  cases neg with
  | false =>
    show parseArchEntry _ (a.render ++ c :: t) = _
    unfold parseArchEntry
    simp only [heatX, hpkX, if_false, htu, hparse]
    cases acc with
    | nil => simp [hc0, hc33]
    | cons x xs =>
      have := hng (by simp)
      subst this
      simp [hc0, hc33]
  | true =>
    show parseArchEntry _ (33 :: (a.render ++ c :: t)) = _
    unfold parseArchEntry
    simp only [eatWs_of_head (show isWs 33 = false by decide), peek_cons, next_cons, if_true,
      htu, hparse]
    cases acc with
    | nil => simp [hc0, hc33]
    | cons x xs =>
      have := hng (by simp)
      subst this
      simp [hc0, hc33]

/-! ### `joinWith` -/

theorem joinWith_singleton (sep x : Bytes) : Str.joinWith sep [x] = x := rfl

theorem joinWith_cons_cons (sep x y : Bytes) (l : List Bytes) :
    Str.joinWith sep (x :: y :: l) = x ++ sep ++ Str.joinWith sep (y :: l) := rfl

/-! ### the `[...]` loop -/

theorem archsLoop_eatWs (fuel : Nat) (set : ArchSet) (inp : Bytes) :
    parseArchsLoop fuel set (eatWs inp) = parseArchsLoop fuel set inp := by
  cases fuel with
  | zero => rfl
  | succ f => rw [parseArchsLoop, parseArchsLoop, eatWs_idem]

theorem archsLoop_close (f : Nat) (set : ArchSet) (rest : Bytes) :
    parseArchsLoop (f + 1) set (93 :: rest) = .ok (set, rest) := by
  rw [parseArchsLoop, eatWs_of_head (show isWs 93 = false by decide)]
  simp

/-- the flag and the name of one entry -/
abbrev entryR (neg : Bool) (a : Arch) : Bytes := (if neg then [33] else []) ++ a.render

theorem entryR_head {neg : Bool} {a : Arch} (ha : ArchWF entryStop a) (t : Bytes) :
    ∃ d I', entryR neg a ++ t = d :: I' ∧ isWs d = false ∧ d ≠ 0 ∧ d ≠ 93 := by
  cases neg with
  | true => exact ⟨33, a.render ++ t, rfl, by decide, by decide, by decide⟩
  | false =>
    have hr := arch_render_no_stop (stop := entryStop) (by decide) ha
    cases h : a.render with
    | nil => exact absurd h (arch_render_ne_nil a)
    | cons d ds =>
      have hds : entryStop d = false := hr d (by rw [h]; simp)
      refine ⟨d, ds ++ t, by simp [entryR, h], ?_, ?_, ?_⟩
      · simp only [entryStop, Bool.or_eq_false_iff] at hds; exact hds.2
      · intro e; rw [e] at hds; cases hds
      · intro e; rw [e] at hds; cases hds

theorem archsLoop_step {ng neg : Bool} {acc : List Arch} {a : Arch} (ha : ArchWF entryStop a)
    (hng : acc ≠ [] → ng = neg) {c : Nat} (t : Bytes) (hc : c = 32 ∨ c = 93) (f : Nat) :
    parseArchsLoop (f + 1) ⟨ng, acc⟩ (entryR neg a ++ c :: t) =
      parseArchsLoop f ⟨neg, acc ++ [a]⟩ (c :: t) := by
  have hentry := entry_render ha hng t hc
  obtain ⟨d, I', hI, hdw, hd0, hd93⟩ := entryR_head (neg := neg) ha (c :: t)
  have heat : eatWs (entryR neg a ++ c :: t) = entryR neg a ++ c :: t := by
    rw [hI]; exact eatWs_of_head hdw
  rw [parseArchsLoop, heat, hentry, hI]
  simp only [hd0, hd93, if_false]

theorem archsLoop_render (neg : Bool) (as : List Arch) (acc : List Arch) (ng : Bool) (fuel : Nat)
    (rest : Bytes) (hne : as ≠ []) (has : ∀ a ∈ as, ArchWF entryStop a)
    (hng : acc ≠ [] → ng = neg)
    (hf : (Str.joinWith [32] (as.map (entryR neg)) ++ 93 :: rest).length < fuel) :
    parseArchsLoop fuel ⟨ng, acc⟩ (Str.joinWith [32] (as.map (entryR neg)) ++ 93 :: rest) =
      .ok (⟨neg, acc ++ as⟩, rest) := by
  induction as generalizing acc ng fuel with
  | nil => exact absurd rfl hne
  | cons a as ih =>
    have ha := has a (by simp)
    cases fuel with
    | zero => omega
    | succ f =>
      cases as with
      | nil =>
        simp only [List.map_cons, List.map_nil, joinWith_singleton] at hf ⊢
        rw [archsLoop_step ha hng rest (Or.inr rfl)]
        cases f with
        | zero => simp only [List.length_append, List.length_cons] at hf; omega
        | succ f' => exact archsLoop_close f' _ rest
      | cons b as' =>
        simp only [List.map_cons, joinWith_cons_cons] at hf ⊢
        have hassoc : entryR neg a ++ [32] ++ Str.joinWith [32] (entryR neg b :: as'.map (entryR neg))
            ++ 93 :: rest = entryR neg a ++ 32 ::
              (Str.joinWith [32] (entryR neg b :: as'.map (entryR neg)) ++ 93 :: rest) := by
          simp
        rw [hassoc] at hf ⊢
        rw [archsLoop_step ha hng _ (Or.inl rfl), ← archsLoop_eatWs,
          eatWs_cons_ws _ (show isWs 32 = true by decide), archsLoop_eatWs]
        have := ih (acc ++ [a]) neg f (by simp) (fun x hx => has x (List.mem_cons_of_mem _ hx))
          (fun _ => rfl)
          (by simp only [List.map_cons, List.length_append, List.length_cons] at hf ⊢; omega)
        simp only [List.map_cons] at this
        rw [this]
        simp

theorem parseArchs_render {set : ArchSet} (hset : ArchSetOk set) (hne : set.archs ≠ [])
    (rest : Bytes) :
    parseArchs ⟨false, []⟩ (set.render ++ rest) = .ok (set, rest) := by
  obtain ⟨neg, as⟩ := set
  simp only at hne
  have hr : (ArchSet.mk neg as).render ++ rest =
      91 :: (Str.joinWith [32] (as.map (entryR neg)) ++ 93 :: rest) := by
    cases as with
    | nil => exact absurd rfl hne
    | cons a as => simp [ArchSet.render, entryR]
  rw [hr]
  unfold parseArchs
  simp only [eatWs_of_head (show isWs 91 = false by decide), next_cons]
  have := archsLoop_render neg as [] false _ rest hne hset.2 (fun h => absurd rfl h)
    (Nat.lt_succ_self _)
  simpa using this

/-! ### the `<...>` loop -/

theorem stageR_head {st : Stage} (hst : StageOk st) (t : Bytes) :
    ∃ d I', st.render ++ t = d :: I' ∧ isWs d = false ∧ d ≠ 0 ∧ d ≠ 62 := by
  obtain ⟨neg, name⟩ := st
  cases neg with
  | true => exact ⟨33, name ++ t, rfl, by decide, by decide, by decide⟩
  | false =>
    obtain ⟨h1, h2⟩ := hst
    simp only at h1 h2
    cases name with
    | nil => rcases h1 with h | h <;> simp at h
    | cons d ds =>
      have hds : stageStop d = false := h2 d (by simp)
      refine ⟨d, ds ++ t, by simp [Stage.render], ?_, ?_, ?_⟩
      · simp only [stageStop, Bool.or_eq_false_iff] at hds; exact hds.2
      · intro e; rw [e] at hds; cases hds
      · intro e; rw [e] at hds; cases hds

theorem stage_render {st : Stage} (hst : StageOk st) {c : Nat} (t : Bytes)
    (hc : c = 32 ∨ c = 62) : parseStage (st.render ++ c :: t) = .ok (st, c :: t) := by
  obtain ⟨neg, name⟩ := st
  obtain ⟨h1, h2⟩ := hst
  simp only at h1 h2
  have hcs : stageStop c = true := by rcases hc with rfl | rfl <;> decide
  have htu : takeUntil stageStop (name ++ c :: t) = (name, c :: t) :=
    takeUntil_append _ _ h2 hcs
  have hc0 : c ≠ 0 := by rcases hc with rfl | rfl <;> decide
  have hc33 : c ≠ 33 := by rcases hc with rfl | rfl <;> decide
  cases neg with
  | true =>
    show parseStage (33 :: (name ++ c :: t)) = _
    unfold parseStage
    simp only [eatWs_of_head (show isWs 33 = false by decide), peek_cons, next_cons, if_true, htu]
    simp [hc0, hc33]
  | false =>
    have hne : name ≠ [] := by rcases h1 with h | h <;> simp at h; exact h
    have hstopX : stageStop (peek (name ++ c :: t)) = false := peek_append_no_stop _ hne h2
    have hwsX : isWs (peek (name ++ c :: t)) = false := by
      simp only [stageStop, Bool.or_eq_false_iff] at hstopX; exact hstopX.2
    have heatX := eatWs_of_peek hwsX
    have hpkX : ¬ (peek (name ++ c :: t) = 33) := by
      intro e; rw [e] at hstopX; cases hstopX
    show parseStage (name ++ c :: t) = _
    unfold parseStage
    simp only [heatX, hpkX, if_false, htu]
    simp [hc0, hc33]

theorem stageLoop_eatWs (fuel : Nat) (acc : List Stage) (inp : Bytes) :
    parseStageSetLoop fuel acc (eatWs inp) = parseStageSetLoop fuel acc inp := by
  cases fuel with
  | zero => rfl
  | succ f => rw [parseStageSetLoop, parseStageSetLoop, eatWs_idem]

theorem stageLoop_close (f : Nat) (acc : List Stage) (rest : Bytes) :
    parseStageSetLoop (f + 1) acc (62 :: rest) = .ok (acc, rest) := by
  rw [parseStageSetLoop, eatWs_of_head (show isWs 62 = false by decide)]
  simp

theorem stageLoop_step {acc : List Stage} {st : Stage} (hst : StageOk st) {c : Nat} (t : Bytes)
    (hc : c = 32 ∨ c = 62) (f : Nat) :
    parseStageSetLoop (f + 1) acc (st.render ++ c :: t) =
      parseStageSetLoop f (acc ++ [st]) (c :: t) := by
  have hentry := stage_render hst t hc
  obtain ⟨d, I', hI, hdw, hd0, hd62⟩ := stageR_head hst (c :: t)
  have heat : eatWs (st.render ++ c :: t) = st.render ++ c :: t := by
    rw [hI]; exact eatWs_of_head hdw
  rw [parseStageSetLoop, heat, hentry, hI]
  simp only [hd0, hd62, if_false]

theorem stageLoop_render (ss : List Stage) (acc : List Stage) (fuel : Nat)
    (rest : Bytes) (hne : ss ≠ []) (hss : ∀ s ∈ ss, StageOk s)
    (hf : (Str.joinWith [32] (ss.map Stage.render) ++ 62 :: rest).length < fuel) :
    parseStageSetLoop fuel acc (Str.joinWith [32] (ss.map Stage.render) ++ 62 :: rest) =
      .ok (acc ++ ss, rest) := by
  induction ss generalizing acc fuel with
  | nil => exact absurd rfl hne
  | cons a ss ih =>
    have ha := hss a (by simp)
    cases fuel with
    | zero => omega
    | succ f =>
      cases ss with
      | nil =>
        simp only [List.map_cons, List.map_nil, joinWith_singleton] at hf ⊢
        rw [stageLoop_step ha rest (Or.inr rfl)]
        cases f with
        | zero => simp only [List.length_append, List.length_cons] at hf; omega
        | succ f' => exact stageLoop_close f' _ rest
      | cons b ss' =>
        simp only [List.map_cons, joinWith_cons_cons] at hf ⊢
        have hassoc : a.render ++ [32] ++ Str.joinWith [32] (b.render :: ss'.map Stage.render)
            ++ 62 :: rest = a.render ++ 32 ::
              (Str.joinWith [32] (b.render :: ss'.map Stage.render) ++ 62 :: rest) := by
          simp
        rw [hassoc] at hf ⊢
        rw [stageLoop_step ha _ (Or.inl rfl), ← stageLoop_eatWs,
          eatWs_cons_ws _ (show isWs 32 = true by decide), stageLoop_eatWs]
        have := ih (acc ++ [a]) f (by simp) (fun x hx => hss x (List.mem_cons_of_mem _ hx))
          (by simp only [List.map_cons, List.length_append, List.length_cons] at hf ⊢; omega)
        simp only [List.map_cons] at this
        rw [this]
        simp

theorem parseStageSet_render {ss : List Stage} (hss : StageSetOk ss) (rest : Bytes) :
    parseStageSet (renderStageSet ss ++ rest) = .ok (ss, rest) := by
  obtain ⟨hne, hall⟩ := hss
  have hr : renderStageSet ss ++ rest =
      60 :: (Str.joinWith [32] (ss.map Stage.render) ++ 62 :: rest) := by
    cases ss with
    | nil => exact absurd rfl hne
    | cons a ss => simp [renderStageSet]
  rw [hr]
  unfold parseStageSet
  simp only [eatWs_of_head (show isWs 60 = false by decide), next_cons]
  have := stageLoop_render ss [] _ rest hne hall (Nat.lt_succ_self _)
  simpa using this

/-! ### `(op number)` -/

theorem operator_render {op : Bytes} (hop : IsOp op) (Y : Bytes) :
    parseOperator (op ++ 32 :: Y) = .ok (op, 32 :: Y) := by
  rcases hop with rfl | rfl | rfl | rfl | rfl <;>
    simp [parseOperator, eatWs, isWs, next]

theorem number_render {num : Bytes} (hb : ∀ c ∈ num, numStop c = false)
    (hlead : isWs (peek num) = false) (htrail : num.reverse.dropWhile isWs = num.reverse)
    (rest : Bytes) :
    parseNumber (32 :: (num ++ 41 :: rest)) = .ok (num, 41 :: rest) := by
  have hpk : isWs (peek (num ++ 41 :: rest)) = false := by
    cases num with
    | nil => exact (show isWs 41 = false by decide)
    | cons c n => exact hlead
  have htu : takeUntil numStop (num ++ 41 :: rest) = (num, 41 :: rest) :=
    takeUntil_append _ _ hb (by decide)
  unfold parseNumber
  simp only [eatWs_cons_ws _ (show isWs 32 = true by decide), eatWs_of_peek hpk, htu, htrail,
    List.reverse_reverse]

theorem version_render {v : VersionRelation} (hv : VerOk v) (rest : Bytes) :
    parseVersion (v.render ++ rest) = .ok (v, rest) := by
  obtain ⟨num, op⟩ := v
  obtain ⟨hop, hb, hlead, htrail⟩ := hv
  simp only at hop hb hlead htrail
  have hr : (VersionRelation.mk num op).render ++ rest = 40 :: (op ++ 32 :: (num ++ 41 :: rest)) := by
    simp [VersionRelation.render]
  rw [hr]
  unfold parseVersion
  simp only [eatWs_of_head (show isWs 40 = false by decide), next_cons, operator_render hop,
    number_render hb hlead htrail]

end GoDebian.Lemmas.DepFix
