/-
  C09 lemmas, part 4: string facts for list-valued fields — `split` / `joinWith` at an
  arbitrary non-empty separator, `fields` / `joinWith` at the blank, numbers.
  Core Lean only.
-/
import GoDebian.Base.Str
import GoDebian.Lemmas.Str
import GoDebian.Lemmas.StrNum
import GoDebian.Lemmas.Deb822WriteStr

namespace GoDebian.Lemmas.Codec
open GoDebian GoDebian.Str GoDebian.Lemmas.Str GoDebian.Lemmas.Deb822WriteStr

/-! ### `split` at any separator -/

/-- the first occurrence of the separator in `d ++ sep` is the one at the end -/
def SepOK (sep d : Bytes) : Prop := indexOf sep (d ++ sep) = some d.length

instance (sep d : Bytes) : Decidable (SepOK sep d) := inferInstanceAs (Decidable (_ = _))

theorem isPrefix_append_self (p r : Bytes) : isPrefix p (p ++ r) = true := by
  induction p with
  | nil => simp [isPrefix]
  | cons c p ih => simp [isPrefix, ih]

theorem isPrefix_append_right {p x : Bytes} (h : isPrefix p x = true) (r : Bytes) :
    isPrefix p (x ++ r) = true := by
  induction p generalizing x with
  | nil => simp [isPrefix]
  | cons c p ih =>
    cases x with
    | nil => simp [isPrefix] at h
    | cons a x =>
      simp only [isPrefix, Bool.and_eq_true, List.cons_append] at h ⊢
      exact ⟨h.1, ih h.2⟩

theorem isPrefix_append_of_le {p x : Bytes} (h : p.length ≤ x.length) (r : Bytes) :
    isPrefix p (x ++ r) = isPrefix p x := by
  induction p generalizing x with
  | nil => simp [isPrefix]
  | cons c p ih =>
    cases x with
    | nil => simp at h
    | cons a x =>
      simp only [isPrefix, List.cons_append]
      rw [ih (by simpa using h)]

theorem indexOf_nil_left (s : Bytes) : indexOf [] s = some 0 := by
  cases s <;> simp [indexOf, isPrefix]

theorem indexOf_cons_eq {sep : Bytes} {c : Nat} {s : Bytes} :
    indexOf sep (c :: s) =
      if isPrefix sep (c :: s) = true then some 0 else (indexOf sep s).map (· + 1) := by
  simp [indexOf]

theorem indexOf_sepOK {sep d : Bytes} (h : SepOK sep d) (rest : Bytes) :
    indexOf sep (d ++ sep ++ rest) = some d.length := by
  induction d with
  | nil =>
    cases hs : sep ++ rest with
    | nil =>
      have : sep = [] := (List.append_eq_nil_iff.mp hs).1
      subst this
      exact indexOf_nil_left _
    | cons c t =>
      rw [List.nil_append, hs, indexOf_cons_eq, ← hs, isPrefix_append_self]
      rfl
  | cons c d ih =>
    unfold SepOK at h
    rw [List.cons_append, indexOf_cons_eq] at h
    by_cases hp : isPrefix sep (c :: (d ++ sep)) = true
    · rw [if_pos hp] at h; simp at h
    · rw [if_neg hp] at h
      have hd : SepOK sep d := by
        unfold SepOK
        cases hi : indexOf sep (d ++ sep) with
        | none => rw [hi] at h; simp at h
        | some k => rw [hi] at h; simp at h; rw [h]
      have hp' : isPrefix sep (c :: (d ++ sep) ++ rest) = false := by
        rw [isPrefix_append_of_le (by simp; omega)]
        simpa using hp
      rw [List.cons_append, List.cons_append, indexOf_cons_eq]
      rw [show c :: (d ++ sep ++ rest) = c :: (d ++ sep) ++ rest by simp, hp']
      simp only [Bool.false_eq_true, if_false]
      rw [show c :: (d ++ sep) ++ rest = c :: (d ++ sep ++ rest) by simp] at *
      rw [ih hd]
      simp

theorem indexOf_none_of_sepOK {sep d : Bytes} (hne : sep ≠ []) (h : SepOK sep d) :
    indexOf sep d = none := by
  induction d with
  | nil =>
    cases sep with
    | nil => exact absurd rfl hne
    | cons a sep => simp [indexOf]
  | cons c d ih =>
    unfold SepOK at h
    rw [List.cons_append, indexOf_cons_eq] at h
    by_cases hp : isPrefix sep (c :: (d ++ sep)) = true
    · rw [if_pos hp] at h; simp at h
    · rw [if_neg hp] at h
      have hd : SepOK sep d := by
        unfold SepOK
        cases hi : indexOf sep (d ++ sep) with
        | none => rw [hi] at h; simp at h
        | some k => rw [hi] at h; simp at h; rw [h]
      rw [indexOf_cons_eq, ih hd]
      have : ¬ isPrefix sep (c :: d) = true := by
        intro hq
        exact hp (by simpa using isPrefix_append_right hq sep)
      simp [this]

theorem cut_sepOK {sep d : Bytes} (h : SepOK sep d) (rest : Bytes) :
    cut sep (d ++ sep ++ rest) = some (d, rest) := by
  unfold cut
  rw [indexOf_sepOK h]
  simp [List.append_assoc]

theorem cut_none_sepOK {sep d : Bytes} (hne : sep ≠ []) (h : SepOK sep d) : cut sep d = none := by
  unfold cut
  rw [indexOf_none_of_sepOK hne h]

theorem joinWith_cons_cons' (sep x y : Bytes) (rest : List Bytes) :
    joinWith sep (x :: y :: rest) = x ++ sep ++ joinWith sep (y :: rest) := rfl

theorem length_joinWith_sep {sep : Bytes} (hne : sep ≠ []) (ls : List Bytes) :
    ls.length ≤ (joinWith sep ls).length + 1 := by
  induction ls with
  | nil => simp
  | cons x rest ih =>
    cases rest with
    | nil => simp [joinWith]
    | cons y rest =>
      have : 0 < sep.length := List.length_pos_iff.mpr hne
      rw [joinWith_cons_cons']
      simp only [List.length_append, List.length_cons] at ih ⊢
      omega

theorem splitNAux_joinWith_sep {sep : Bytes} (hsep : sep ≠ []) (ls : List Bytes) (hne : ls ≠ [])
    (h : ∀ l ∈ ls, SepOK sep l) (fuel n : Nat) (hf : ls.length ≤ fuel + 1) (hn : ls.length ≤ n) :
    splitNAux sep fuel n (joinWith sep ls) = ls := by
  induction ls generalizing fuel n with
  | nil => exact absurd rfl hne
  | cons x rest ih =>
    cases rest with
    | nil =>
      have hx := h x (by simp)
      cases fuel with
      | zero => simp [joinWith, splitNAux]
      | succ f =>
        cases n with
        | zero => simp [joinWith, splitNAux]
        | succ m => simp [joinWith, splitNAux, cut_none_sepOK hsep hx]
    | cons y rest =>
      have hx := h x (by simp)
      rw [joinWith_cons_cons']
      cases fuel with
      | zero => simp at hf
      | succ f =>
        cases n with
        | zero => simp at hn
        | succ m =>
          have hm : m ≠ 0 := by simp at hn; omega
          simp only [splitNAux, if_neg hm, cut_sepOK hx]
          rw [ih (by simp) (fun l hl => h l (List.mem_cons_of_mem _ hl)) f m
            (by simp at hf ⊢; omega) (by simp at hn ⊢; omega)]

theorem split_joinWith_sep {sep : Bytes} (hsep : sep ≠ []) {ls : List Bytes} (hne : ls ≠ [])
    (h : ∀ l ∈ ls, SepOK sep l) : split sep (joinWith sep ls) = ls := by
  unfold split
  have := length_joinWith_sep hsep ls
  exact splitNAux_joinWith_sep hsep ls hne h _ _ (by omega) (by omega)

/-! ### `fields` -/

theorem hasSpaceRune_cons {c : Nat} {d : Bytes} :
    hasSpaceRune (c :: d) = false ↔ spaceLen (c :: d) = 0 ∧ hasSpaceRune d = false := by
  simp [hasSpaceRune]

theorem fieldsN_end (n : Nat) (cur : Bytes) :
    fieldsN n cur [] = if cur.isEmpty then [] else [cur.reverse] := by
  cases n <;> rfl

/-- a word free of white space is shifted into the accumulator -/
theorem fieldsN_word (d : Bytes) (hd : hasSpaceRune d = false) (Y : Bytes)
    (hY : Y = [] ∨ ∃ b Y', Y = b :: Y' ∧ b < 128) (cur : Bytes) (n : Nat) (hn : d.length ≤ n) :
    fieldsN n cur (d ++ Y) = fieldsN (n - d.length) (d.reverse ++ cur) Y := by
  induction d generalizing cur n with
  | nil => simp
  | cons c d ih =>
    obtain ⟨h0, h1⟩ := hasSpaceRune_cons.mp hd
    cases n with
    | zero => simp at hn
    | succ n =>
      have hsp : spaceLen (c :: d ++ Y) = 0 := by
        rcases hY with rfl | ⟨b, Y', rfl, hb⟩
        · simpa using h0
        · exact spaceLen_append_ascii h0 (by simp) hb Y'
      rw [List.cons_append, fieldsN]
      rw [show c :: (d ++ Y) = c :: d ++ Y by simp, hsp]
      simp only
      rw [ih h1 (c :: cur) n (by simpa using hn)]
      simp

theorem length_joinWith_blank (ls : List Bytes) (h : ∀ l ∈ ls, l ≠ []) :
    ∀ l ∈ ls, l.length ≤ (joinWith [32] ls).length := by
  induction ls with
  | nil => simp
  | cons x rest ih =>
    cases rest with
    | nil => simp [joinWith]
    | cons y rest =>
      intro l hl
      rw [joinWith_cons_cons']
      simp only [List.length_append]
      rcases List.mem_cons.mp hl with rfl | hl
      · omega
      · have := ih (fun l hl => h l (List.mem_cons_of_mem _ hl)) l hl
        omega

theorem fieldsN_joinWith (ls : List Bytes) (hne : ls ≠ [])
    (h : ∀ l ∈ ls, l ≠ [] ∧ hasSpaceRune l = false) (n : Nat)
    (hn : (joinWith [32] ls).length + 1 ≤ n) : fieldsN n [] (joinWith [32] ls) = ls := by
  induction ls generalizing n with
  | nil => exact absurd rfl hne
  | cons x rest ih =>
    obtain ⟨hx0, hx1⟩ := h x (by simp)
    cases rest with
    | nil =>
      have := fieldsN_word x hx1 [] (Or.inl rfl) [] n (by simp [joinWith] at hn; omega)
      rw [List.append_nil] at this
      simp only [joinWith]
      rw [this, fieldsN_end]
      simp [hx0]
    | cons y rest =>
      rw [joinWith_cons_cons'] at hn ⊢
      simp only [List.length_append, List.length_cons, List.length_nil] at hn
      rw [List.append_assoc, List.singleton_append,
        fieldsN_word x hx1 _ (Or.inr ⟨32, _, rfl, by omega⟩) [] n (by omega)]
      obtain ⟨m, hm⟩ : ∃ m, n - x.length = m + 1 := ⟨n - x.length - 1, by omega⟩
      rw [hm, fieldsN]
      have : spaceLen (32 :: joinWith [32] (y :: rest)) = 1 := rfl
      rw [this]
      simp only [List.append_nil, List.drop_succ_cons, List.drop_zero]
      rw [ih (by simp) (fun l hl => h l (List.mem_cons_of_mem _ hl)) m (by omega)]
      simp [hx0]

theorem fields_joinWith {ls : List Bytes} (hne : ls ≠ [])
    (h : ∀ l ∈ ls, l ≠ [] ∧ hasSpaceRune l = false) : fields (joinWith [32] ls) = ls :=
  fieldsN_joinWith ls hne h _ (Nat.le_refl _)

/-! ### numbers -/

theorem fmtInt_ne_nil (i : Int) : fmtInt i ≠ [] := by
  unfold fmtInt
  split
  · simp
  · exact fmtNat_ne_nil _

theorem parseInt64_fmtInt {i : Int} (h1 : -(2^63 : Int) ≤ i) (h2 : i < 2^63) :
    parseInt64 (fmtInt i) = some i := by
  unfold fmtInt
  by_cases hneg : i < 0
  · rw [if_pos hneg, parseInt64_minus]
    unfold signed
    have hne : (fmtNat i.natAbs).isEmpty = false := by
      cases hf : fmtNat i.natAbs with
      | nil => exact absurd hf (fmtNat_ne_nil _)
      | cons => rfl
    rw [hne, digitsVal_fmtNat]
    simp only [Bool.false_eq_true, if_false, if_true]
    have : i.natAbs ≤ 2^63 := by omega
    rw [if_pos this]
    congr 1
    omega
  · rw [if_neg hneg]
    have := parseInt64_zeros_fmtNat 0 i.toNat (by omega)
    simp only [List.replicate_zero, List.nil_append] at this
    rw [this]
    congr 1
    omega

theorem fmtNat_all_digits (n : Nat) : (fmtNat n).all isDigit = true := by
  simp only [List.all_eq_true]
  exact fmtNat_all n

end GoDebian.Lemmas.Codec
