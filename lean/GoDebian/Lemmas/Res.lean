/-
  Decidable equality of `Res` values, so that the satisfiability examples of the property
  files can be closed by `decide`.  Core Lean only.
-/
import GoDebian.Base.Bytes

namespace GoDebian.Lemmas.Res

instance instDecidableEqExcept {ε α : Type} [DecidableEq ε] [DecidableEq α] :
    DecidableEq (Except ε α)
  | .ok x, .ok y => if h : x = y then isTrue (h ▸ rfl) else isFalse (fun e => h (Except.ok.inj e))
  | .error x, .error y =>
    if h : x = y then isTrue (h ▸ rfl) else isFalse (fun e => h (Except.error.inj e))
  | .ok _, .error _ => isFalse (fun e => nomatch e)
  | .error _, .ok _ => isFalse (fun e => nomatch e)

end GoDebian.Lemmas.Res
