/-
  The reader on lines that follow the grammar of `Deb822ReadLayout`: what `nextAux` does
  on an empty line, a comment line, a continuation line, a field line; on the lines of a
  field, of a paragraph; what `allAux` does on the lines of a document.  Core Lean only.
-/
import GoDebian.Lemmas.Deb822Read
import GoDebian.Lemmas.Deb822ReadStr
import GoDebian.Lemmas.Deb822ReadLayout

namespace GoDebian.Lemmas.Deb822ReadNext
open GoDebian GoDebian.Deb822 GoDebian.Spec.Deb822 GoDebian.Str
open GoDebian.Lemmas.Str GoDebian.Lemmas.Deb822Read GoDebian.Lemmas.Deb822ReadStr
open GoDebian.Lemmas.Deb822ReadLines GoDebian.Lemmas.Deb822ReadLayout

/-! ### single lines, generically -/

/-- the text a continuation line contributes -/
def contOf (line : Bytes) : Bytes :=
  let l := trimRightSpace (line.drop 1)
  if l = [46] then [] else l

/-- the value after a continuation line -/
def contStep (cur l : Bytes) : Bytes :=
  if cur.isEmpty then l ++ [10]
  else (if hasSuffix cur [10] then cur else cur ++ [10]) ++ l ++ [10]

theorem nextAux_blank {e : Bytes} (he : Eol e) (rest : List Bytes) (p : Paragraph) (lk : Bytes) :
    nextAux (e :: rest) p lk = if p.order.isEmpty then nextAux rest p lk else .para p rest := by
  rw [nextAux, if_pos (show e = [10] ∨ e = [13, 10] from he)]

theorem nextAux_comment_line {line : Bytes} (h1 : line ≠ [10]) (h2 : line ≠ [13, 10])
    (h3 : hasPrefix line [35] = true) (rest : List Bytes) (p : Paragraph) (lk : Bytes) :
    nextAux (line :: rest) p lk = nextAux rest p lk := by
  rw [nextAux, if_neg (by simp [h1, h2]), if_pos h3]

theorem nextAux_cont_line {line : Bytes} (h1 : line ≠ [10]) (h2 : line ≠ [13, 10])
    (h3 : hasPrefix line [35] = false)
    (h4 : hasPrefix line [32] = true ∨ hasPrefix line [9] = true)
    (rest : List Bytes) (p : Paragraph) (lk : Bytes) (hp : p.order ≠ []) :
    nextAux (line :: rest) p lk =
      nextAux rest { p with values := insert lk (contStep (p.get lk) (contOf line)) p.values } lk := by
  rw [nextAux, if_neg (by simp [h1, h2]), if_neg (by simp [h3]), if_pos h4,
    if_neg (by simpa using hp)]
  rfl

theorem nextAux_field_line {line k v : Bytes} (h1 : line ≠ [10]) (h2 : line ≠ [13, 10])
    (h3 : hasPrefix line [35] = false) (h4 : hasPrefix line [32] = false)
    (h5 : hasPrefix line [9] = false) (hs : splitN [58] 2 line = [k, v])
    (h6 : hasPrefix (trimSpace k) [35] = false)
    (rest : List Bytes) (p : Paragraph) (lk : Bytes) :
    nextAux (line :: rest) p lk =
      nextAux rest ⟨if (lookup (trimSpace k) p.values).isSome then p.order
          else p.order ++ [trimSpace k], insert (trimSpace k) (trimSpace v) p.values⟩
        (trimSpace k) := by
  rw [nextAux, if_neg (by simp [h1, h2]), if_neg (by simp [h3]), if_neg (by simp [h4, h5]), hs]
  simp only [h6, Bool.false_eq_true, if_false]

/-! ### single lines of the grammar -/

theorem sp_eol {e : Bytes} (he : Eol e) : Sp e := by
  rcases he with he | he <;> subst he <;> decide

/-- every alternative of `trailing`, ASCII or Unicode, is a run of white-space runes for
    the left-to-right decoder … -/
theorem sp_trail {t : Bytes} (ht : Trail t) : Sp t := by
  have : ∀ t ∈ trailAlts, Sp t := by decide
  exact this t ht

/-- … and is removed, rune by rune from the right, behind any string that does not itself
    end in a white-space rune: the multi-byte alternatives are still decoded as their rune
    from the right, whatever bytes precede them. -/
theorem trimRightSpace_append_trail {c t : Bytes} (hc : trimRightSpace c = c) (ht : Trail t) :
    trimRightSpace (c ++ t) = c :=
  trimRightSpace_append_of_spaces (sp_trail ht) (spaceLenRev_of_trimRight_fixed hc)

/-- the same in front of a line terminator (LF, or CR LF) -/
theorem trimRightSpace_append_trail_eol {c t e : Bytes} (hc : trimRightSpace c = c)
    (ht : Trail t) (he : Eol e) : trimRightSpace (c ++ (t ++ e)) = c :=
  trimRightSpace_append_of_spaces (sp_append (sp_trail ht) (sp_eol he))
    (spaceLenRev_of_trimRight_fixed hc)

theorem sp_pad {t : Bytes} (ht : Pad t) : Sp t := by
  rcases ht with ht | ht | ht | ht <;> subst ht <;> decide

/-- the white space behind a value starts with a complete rune: an ASCII byte or the start
    byte of a multi-byte rune -/
theorem head_trail_eol {t e : Bytes} (ht : Trail t) (he : Eol e) :
    ∀ a ∈ (t ++ e).head?, NonCont a := by
  have : ∀ t ∈ trailAlts, ∀ e ∈ [[10], [13, 10]], ∀ a ∈ (t ++ e).head?, NonCont a := by decide
  exact this t ht e (by rcases he with he | he <;> subst he <;> simp)

theorem nextAux_comment {c e : Bytes} (hc : CommentC c) (he : Eol e) (rest : List Bytes)
    (p : Paragraph) (lk : Bytes) : nextAux ((c ++ e) :: rest) p lk = nextAux rest p lk := by
  obtain ⟨r, rfl⟩ := hc
  apply nextAux_comment_line
  · rcases he with he | he <;> subst he <;> simp
  · simp
  · simp [hasPrefix_cons_singleton]

theorem contOf_line {x c e : Bytes} (hc : ContC x c) (hx : wfCont x = true) (he : Eol e) :
    contOf (c ++ e) = x := by
  obtain ⟨m, t, _, ht, rfl⟩ := hc
  obtain ⟨hx1, _, _, hx46⟩ := wfCont_iff hx
  have hsp : Sp (t ++ e) := sp_append (sp_trail ht) (sp_eol he)
  unfold contOf
  simp only [List.cons_append, List.drop_succ_cons, List.drop_zero, List.append_assoc]
  by_cases hxe : x = []
  · subst hxe
    have : trimRightSpace (46 :: (t ++ e)) = [46] :=
      trimRightSpace_append_of_spaces (X := [46]) hsp (by decide)
    simp [this]
  · have hb : (if x.isEmpty then [46] else x) = x := by simp [hxe]
    rw [hb]
    have : trimRightSpace (x ++ (t ++ e)) = x :=
      trimRightSpace_append_of_spaces hsp (spaceLenRev_of_trimRight_fixed hx1)
    simp [this, hx46]

theorem nextAux_cont {x c e : Bytes} (hc : ContC x c) (hx : wfCont x = true) (he : Eol e)
    (rest : List Bytes) (p : Paragraph) (lk : Bytes) (hp : p.order ≠ []) :
    nextAux ((c ++ e) :: rest) p lk =
      nextAux rest { p with values := insert lk (contStep (p.get lk) x) p.values } lk := by
  rw [← contOf_line hc hx he]
  obtain ⟨m, t, hm, _, rfl⟩ := hc
  apply nextAux_cont_line _ _ _ _ rest p lk hp
  · rcases hm with hm | hm <;> subst hm <;> simp
  · rcases hm with hm | hm <;> subst hm <;> simp
  · rcases hm with hm | hm <;> subst hm <;> simp [hasPrefix_cons_singleton]
  · rcases hm with hm | hm <;> subst hm <;> simp [hasPrefix_cons_singleton]

/-- the first byte of a field name is an ordinary byte -/
theorem name_head {n : Bytes} (h : wfName n = true) :
    ∃ a r, n = a :: r ∧ a ≠ 10 ∧ a ≠ 13 ∧ a ≠ 35 ∧ a ≠ 32 ∧ a ≠ 9 := by
  obtain ⟨hne, hsp, _, h35, _, _⟩ := wfName_iff h
  cases n with
  | nil => exact absurd rfl hne
  | cons a r =>
    have h0 := (ends_of_noSpace hsp).1
    refine ⟨a, r, rfl, ?_, ?_, ?_, ?_, ?_⟩
    · intro e; subst e; simp [spaceLen] at h0
    · intro e; subst e; simp [spaceLen] at h0
    · intro e; subst e; simp at h35
    · intro e; subst e; simp [spaceLen] at h0
    · intro e; subst e; simp [spaceLen] at h0

theorem trimSpace_value {v pad t e : Bytes} (hv : wfFirst v = true) (hp : Pad pad)
    (ht : Trail t) (he : Eol e) :
    trimSpace ((if v.isEmpty then [] else pad) ++ v ++ t ++ e) = v := by
  obtain ⟨hv1, _, _⟩ := wfFirst_iff hv
  have hsp : Sp (t ++ e) := sp_append (sp_trail ht) (sp_eol he)
  by_cases hve : v = []
  · subst hve
    simpa using trimSpace_of_sp hsp
  · have hb : (if v.isEmpty then [] else pad) = pad := by simp [hve]
    rw [hb, List.append_assoc (pad ++ v)]
    exact trimSpace_wrap_ends_nonCont (sp_pad hp) hsp (head_trail_eol ht he) hve
      (ends_of_trimmed hv1).1 (ends_of_trimmed hv1).2

theorem nextAux_field {f : Field} {c e : Bytes} (hc : FieldC f c) (hf : wfField f = true)
    (he : Eol e) (rest : List Bytes) (p : Paragraph) (lk : Bytes) :
    nextAux ((c ++ e) :: rest) p lk =
      nextAux rest ⟨if (lookup f.name p.values).isSome then p.order else p.order ++ [f.name],
        insert f.name f.first p.values⟩ f.name := by
  obtain ⟨hn, hv, _⟩ := wfField_iff hf
  obtain ⟨pad, t, hp, ht, rfl⟩ := hc
  obtain ⟨_, hsp, h58, _, _, _⟩ := wfName_iff hn
  obtain ⟨a, r, hname, ha10, ha13, ha35, ha32, ha9⟩ := name_head hn
  have hs : splitN [58] 2 (f.name ++ [58] ++ (if f.first.isEmpty then [] else pad) ++ f.first ++ t ++ e)
      = [f.name, (if f.first.isEmpty then [] else pad) ++ f.first ++ t ++ e] := by
    have := splitN_colon h58 ((if f.first.isEmpty then [] else pad) ++ f.first ++ t ++ e)
    simpa [List.append_assoc] using this
  have := nextAux_field_line (line := f.name ++ [58] ++ (if f.first.isEmpty then [] else pad) ++ f.first ++ t ++ e)
    ?_ ?_ ?_ ?_ ?_ hs ?_ rest p lk
  · rw [this, trimSpace_of_noSpace hsp, trimSpace_value hv hp ht he]
  · rw [hname]; simp [ha10]
  · rw [hname]; simp [ha13]
  · rw [hname]; simp [hasPrefix_cons_singleton, Ne.symm ha35]
  · rw [hname]; simp [hasPrefix_cons_singleton, Ne.symm ha32]
  · rw [hname]; simp [hasPrefix_cons_singleton, Ne.symm ha9]
  · rw [trimSpace_of_noSpace hsp, hname]; simp [hasPrefix_cons_singleton, Ne.symm ha35]

/-! ### the value of a field -/

theorem contStep_nil (x : Bytes) : contStep [] x = x ++ [10] := by
  simp [contStep]

theorem contStep_nl (y x : Bytes) : contStep (y ++ [10]) x = y ++ [10] ++ x ++ [10] := by
  simp [contStep, hasSuffix_append_singleton]

theorem foldl_contStep_nl (xs : List Bytes) (cur : Bytes) (h : cur = [] ∨ ∃ y, cur = y ++ [10]) :
    xs.foldl contStep cur = cur ++ (xs.map (· ++ [10])).flatten := by
  induction xs generalizing cur with
  | nil => simp
  | cons x xs ih =>
    rw [List.foldl_cons]
    rcases h with h | ⟨y, h⟩
    · subst h
      rw [contStep_nil, ih _ (Or.inr ⟨x, rfl⟩)]
      simp
    · subst h
      rw [contStep_nl, ih _ (Or.inr ⟨y ++ [10] ++ x, rfl⟩)]
      simp

theorem foldl_contStep_value (f : Field) (hv : wfFirst f.first = true) :
    f.conts.foldl contStep f.first = expectedValue f := by
  obtain ⟨_, hv10, _⟩ := wfFirst_iff hv
  unfold expectedValue
  cases hc : f.conts with
  | nil => simp
  | cons x xs =>
    by_cases hve : f.first = []
    · rw [hve, foldl_contStep_nl _ _ (Or.inl rfl)]
      simp
    · have h1 : contStep f.first x = (f.first ++ [10] ++ x) ++ [10] := by
        simp [contStep, hve, hasSuffix_of_not_mem hv10]
      rw [List.foldl_cons, h1, foldl_contStep_nl _ _ (Or.inr ⟨_, rfl⟩)]
      simp [hve]

/-! ### the lines of a field -/

theorem conts_read {xs cl : List Bytes} (hc : ContsC xs cl) (hwf : ∀ x ∈ xs, wfCont x = true)
    {E : Nat → Bytes} (hE : AllEol E) (rest : List Bytes) (o : List Bytes) (ho : o ≠ [])
    (k : Bytes) (m : List (Bytes × Bytes)) (cur : Bytes) :
    nextAux (lines cl E ++ rest) ⟨o, insert k cur m⟩ k =
      nextAux rest ⟨o, insert k (xs.foldl contStep cur) m⟩ k := by
  induction hc generalizing E cur with
  | nil => rfl
  | comment hcm _ ih =>
    simp only [lines, List.cons_append]
    rw [nextAux_comment hcm (hE 0), ih hwf (hE.shift 1)]
  | cons hx _ ih =>
    simp only [lines, List.cons_append]
    rw [nextAux_cont hx (hwf _ (by simp)) (hE 0) _ _ _ ho]
    simp only [get_insert_self, insert_insert]
    rw [ih (fun y hy => hwf y (List.mem_cons_of_mem _ hy)) (hE.shift 1)]
    rfl

theorem field_read {f : Field} {cl : List Bytes} (hc : FieldLC f cl) (hf : wfField f = true)
    {E : Nat → Bytes} (hE : AllEol E) (rest : List Bytes) (o : List Bytes)
    (m : List (Bytes × Bytes)) (hm : lookup f.name m = none) (lk : Bytes) :
    nextAux (lines cl E ++ rest) ⟨o, m⟩ lk =
      nextAux rest ⟨o ++ [f.name], insert f.name (expectedValue f) m⟩ f.name := by
  obtain ⟨_, hv, hcs⟩ := wfField_iff hf
  induction hc generalizing E with
  | comment hcm _ ih =>
    simp only [lines, List.cons_append]
    rw [nextAux_comment hcm (hE 0), ih (hE.shift 1)]
  | line hl hcs' =>
    simp only [lines, List.cons_append]
    rw [nextAux_field hl hf (hE 0)]
    simp only [hm, Option.isSome_none, Bool.false_eq_true, if_false]
    rw [conts_read hcs' hcs (hE.shift 1) rest _ (by simp), foldl_contStep_value f hv]

/-! ### the lines of a paragraph -/

theorem nodupNames_cons {n : Bytes} {ns : List Bytes} (h : nodupNames (n :: ns) = true) :
    n ∉ ns ∧ nodupNames ns = true := by
  simpa [nodupNames] using h

theorem para_read {fs : Para} {cl : List Bytes} (hc : ParaC fs cl)
    (hwf : ∀ f ∈ fs, wfField f = true) (hnd : nodupNames (fs.map (·.name)) = true)
    {E : Nat → Bytes} (hE : AllEol E) (rest : List Bytes) (o : List Bytes)
    (m : List (Bytes × Bytes)) (hm : ∀ f ∈ fs, lookup f.name m = none) (lk : Bytes) :
    ∃ lk', nextAux (lines cl E ++ rest) ⟨o, m⟩ lk =
      nextAux rest ⟨o ++ fs.map (·.name),
        fs.foldl (fun acc f => insert f.name (expectedValue f) acc) m⟩ lk' := by
  induction hc generalizing E o m lk with
  | nil => exact ⟨lk, by simp [lines]⟩
  | @cons f fs a b hf _ ih =>
    obtain ⟨hn, hnd'⟩ := nodupNames_cons hnd
    rw [lines_append, List.append_assoc,
      field_read hf (hwf f (by simp)) hE _ o m (hm f (by simp)) lk]
    obtain ⟨lk', h⟩ := ih (fun g hg => hwf g (List.mem_cons_of_mem _ hg)) hnd' (hE.shift a.length)
      (o ++ [f.name]) (insert f.name (expectedValue f) m) (fun g hg => by
        have hmem : g.name ∈ fs.map (·.name) := List.mem_map.mpr ⟨g, hg, rfl⟩
        have hne : g.name ≠ f.name := fun e => hn (by rw [e] at hmem; exact hmem)
        rw [lookup_insert_ne hne]
        exact hm g (List.mem_cons_of_mem _ hg)) f.name
    exact ⟨lk', by rw [h]; simp⟩

theorem next_para_lines {p : Para} {cl : List Bytes} (hc : ParaC p cl) (hwf : wfPara p = true)
    {E : Nat → Bytes} (hE : AllEol E) :
    next (lines cl E) = .para (expectedPara p) [] ∧
    ∀ e rest, Eol e → next (lines cl E ++ e :: rest) = .para (expectedPara p) rest := by
  obtain ⟨hne, hf, hnd⟩ := wfPara_iff hwf
  have hord : (expectedPara p).order ≠ [] := by simpa [expectedPara] using hne
  constructor
  · obtain ⟨lk', h⟩ := para_read hc hf hnd hE [] [] [] (fun _ _ => rfl) []
    rw [List.append_nil, List.nil_append] at h
    show nextAux _ empty [] = _
    rw [show empty = (⟨[], []⟩ : Paragraph) from rfl, h]
    show nextAux [] (expectedPara p) lk' = _
    rw [nextAux, if_neg (by simpa using hord)]
  · intro e rest he
    obtain ⟨lk', h⟩ := para_read hc hf hnd hE (e :: rest) [] [] (fun _ _ => rfl) []
    rw [List.nil_append] at h
    show nextAux _ empty [] = _
    rw [show empty = (⟨[], []⟩ : Paragraph) from rfl, h]
    show nextAux (e :: rest) (expectedPara p) lk' = _
    rw [nextAux_blank he, if_neg (by simpa using hord)]

/-! ### runs of empty lines -/

theorem lines_blank_succ (n : Nat) (E : Nat → Bytes) :
    lines (List.replicate (n + 1) []) E = E 0 :: lines (List.replicate n []) (fun i => E (i + 1)) := by
  simp [List.replicate_succ, lines]

theorem next_skip_blanks (n : Nat) {E : Nat → Bytes} (hE : AllEol E) (rest : List Bytes) :
    next (lines (List.replicate n []) E ++ rest) = next rest := by
  induction n generalizing E with
  | zero => simp [lines]
  | succ n ih =>
    rw [lines_blank_succ, List.cons_append]
    show nextAux _ empty [] = _
    rw [nextAux_blank (hE 0), if_pos (by rfl)]
    exact ih (hE.shift 1)

theorem next_blanks (n : Nat) {E : Nat → Bytes} (hE : AllEol E) :
    next (lines (List.replicate n []) E) = .eof := by
  have := next_skip_blanks n hE []
  rw [List.append_nil] at this
  rw [this]
  rfl

theorem allAux_blanks (n : Nat) {E : Nat → Bytes} (hE : AllEol E) (fuel : Nat) (hf : 0 < fuel)
    (acc : List Paragraph) : allAux fuel (lines (List.replicate n []) E) acc = .ok acc := by
  cases fuel with
  | zero => omega
  | succ fuel => rw [allAux_succ, next_blanks n hE]

theorem allAux_skip_blanks (n : Nat) {E : Nat → Bytes} (hE : AllEol E) (X : List Bytes)
    (fuel : Nat) (acc : List Paragraph) :
    allAux fuel (lines (List.replicate n [] ++ X) E) acc =
      allAux fuel (lines X (fun i => E (i + n))) acc := by
  cases fuel with
  | zero => rfl
  | succ fuel =>
    rw [allAux_succ, allAux_succ, lines_append, next_skip_blanks n hE, List.length_replicate]

/-! ### the lines of a document -/

theorem body_read {d : Doc} {cl : List Bytes} (hc : BodyC d cl) (hwf : ∀ p ∈ d, wfPara p = true)
    {E : Nat → Bytes} (hE : AllEol E) (n1 fuel : Nat) (acc : List Paragraph)
    (hfuel : cl.length + n1 < fuel) :
    allAux fuel (lines (cl ++ List.replicate n1 []) E) acc = .ok (acc ++ d.map expectedPara) := by
  induction hc generalizing E fuel acc with
  | @one p cl hp =>
    obtain ⟨h1, h2⟩ := next_para_lines hp (hwf p (by simp)) hE
    cases fuel with
    | zero => omega
    | succ fuel =>
      rw [allAux_succ, lines_append]
      cases n1 with
      | zero =>
        rw [List.replicate_zero]
        simp only [lines, List.append_nil]
        rw [h1]
        have hlen := (next_para h1).2.2
        rw [lines_length] at hlen
        have := allAux_blanks 0 hE fuel (by simp at hlen; omega) (acc ++ [expectedPara p])
        simpa [lines] using this
      | succ n1 =>
        rw [lines_blank_succ, h2 _ _ (hE _)]
        simp only
        rw [allAux_blanks n1 ((hE.shift cl.length).shift 1) fuel (by omega)]
        simp
  | @cons p q d a b n hp _ ih =>
    obtain ⟨_, h2⟩ := next_para_lines hp (hwf p (by simp)) hE
    cases fuel with
    | zero => omega
    | succ fuel =>
      rw [allAux_succ]
      have e : a ++ List.replicate (n + 1) [] ++ b ++ List.replicate n1 []
          = a ++ ([] :: (List.replicate n [] ++ (b ++ List.replicate n1 []))) := by
        simp [List.replicate_succ]
      rw [e, lines_append]
      simp only [lines, List.nil_append]
      rw [h2 _ _ (hE _)]
      simp only
      rw [allAux_skip_blanks n ((hE.shift a.length).shift 1),
        ih (fun r hr => hwf r (List.mem_cons_of_mem _ hr)) (((hE.shift a.length).shift 1).shift n)]
      · simp
      · simp only [List.length_append, List.length_replicate] at hfuel
        omega

theorem all_read_render (d : Doc) (cs : Choices) (h : wfDoc d = true) :
    all (render d cs) = .ok (d.map expectedPara) := by
  have hwf : ∀ p ∈ d, wfPara p = true := by simpa [wfDoc] using h
  obtain ⟨n0, n1, cl, E, hE, hl, hd⟩ := physLines_render d cs h
  unfold all
  simp only
  rw [hl, List.append_assoc, allAux_skip_blanks n0 hE]
  rcases hd with ⟨h1, h2⟩ | hb
  · subst h1 h2
    rw [List.nil_append, allAux_blanks n1 (hE.shift n0) _ (by omega)]
    rfl
  · rw [body_read hb hwf (hE.shift n0)]
    · rfl
    · simp only [lines_length, List.length_append, List.length_replicate]
      omega

end GoDebian.Lemmas.Deb822ReadNext
