/-
  The specification `Spec.VersionParse.verdict` cut into the same stages as the parser,
  and stage-by-stage agreement: whatever the specification decides, the parser does.
  Core Lean only.
-/
import GoDebian.Spec.VersionParse
import GoDebian.Lemmas.VersionParse

namespace GoDebian.Lemmas.VersionParse
open GoDebian GoDebian.Version
open GoDebian.Lemmas.Str
open GoDebian.Spec.VersionParse

/-! ### `splitFirst`, `splitLast` -/

theorem splitFirst_none {b : Nat} {s : Bytes} (h : splitFirst b s = none) : b ∉ s := by
  induction s with
  | nil => simp
  | cons c s ih =>
    simp only [splitFirst] at h
    split at h
    · cases h
    · rename_i hc
      simp only [Option.map_eq_none_iff] at h
      simp only [List.mem_cons, not_or]
      exact ⟨fun e => hc e.symm, ih h⟩

theorem splitFirst_some {b : Nat} {s x y : Bytes} (h : splitFirst b s = some (x, y)) :
    s = x ++ b :: y ∧ b ∉ x := by
  induction s generalizing x with
  | nil => cases h
  | cons c s ih =>
    simp only [splitFirst] at h
    split at h
    · rename_i hc
      injection h with h; injection h with h1 h2
      subst h1 h2 hc
      simp
    · rename_i hc
      simp only [Option.map_eq_some_iff] at h
      obtain ⟨⟨x', y'⟩, hs, hxy⟩ := h
      injection hxy with h1 h2
      subst h1 h2
      obtain ⟨e1, e2⟩ := ih hs
      refine ⟨by rw [e1]; rfl, ?_⟩
      simp only [List.mem_cons, not_or]
      exact ⟨fun e => hc e.symm, e2⟩

theorem splitLast_none {b : Nat} {s : Bytes} (h : splitLast b s = none) : b ∉ s := by
  simp only [splitLast, Option.map_eq_none_iff] at h
  simpa using splitFirst_none h

theorem splitLast_some {b : Nat} {s x y : Bytes} (h : splitLast b s = some (x, y)) :
    s = x ++ b :: y ∧ b ∉ y := by
  simp only [splitLast, Option.map_eq_some_iff] at h
  obtain ⟨⟨x', y'⟩, hs, hxy⟩ := h
  injection hxy with h1 h2
  subst h1 h2
  obtain ⟨e1, e2⟩ := splitFirst_some hs
  refine ⟨?_, by simpa using e2⟩
  have := congrArg List.reverse e1
  simpa using this

/-! ### stages of `verdict` -/

def epochSpec (e : Bytes) : Option (Option Nat) :=
  if e.isEmpty then some none
  else if e.all isDigit then
    (if GoDebian.Spec.Version.natVal e < 2^63 then some (some (GoDebian.Spec.Version.natVal e))
     else some none)
  else match e with
    | 43 :: _ => none
    | 45 :: d => if !d.isEmpty && d.all (· == 48) then none else some none
    | _ => some none

def finishSpec (ep : Nat) (up rev : Bytes) : Option Verdict :=
  match up with
  | [] => some .reject
  | c :: _ =>
    if !isDigit c then some .reject
    else if !(up.all upstreamOK) then some .reject
    else if !(rev.all revisionOK) then some .reject
    else some (.accept ⟨ep, up, rev⟩)

/-- The text of `verdict` after the epoch, verbatim. -/
def verdictBody (ep : Nat) (body : Bytes) : Option Verdict :=
  if body.isEmpty then some .reject else
  let (up, rev) := match splitLast 45 body with
    | none => (body, [])
    | some (u, r) => (u, r)
  match up with
  | [] => some .reject
  | c :: _ =>
    if !isDigit c then some .reject
    else if !(up.all upstreamOK) then some .reject
    else if !(rev.all revisionOK) then some .reject
    else some (.accept ⟨ep, up, rev⟩)

/-- The text of `verdict` after trimming, verbatim. -/
def verdictT (t : Bytes) : Option Verdict :=
  let (epochText, body) := match splitFirst 58 t with
    | none => (none, t)
    | some (e, b) => (some e, b)
  let epoch : Option (Option Nat) := match epochText with
    | none => some (some 0)
    | some e => epochSpec e
  match epoch with
  | none => none
  | some none => some .reject
  | some (some ep) => verdictBody ep body

theorem verdict_eq (s : Bytes) :
    verdict s =
      if (Str.trimSpace s).isEmpty then some .reject
      else if Str.hasSpaceRune (Str.trimSpace s) then some .reject
      else verdictT (Str.trimSpace s) := rfl

theorem verdictBody_eq (ep : Nat) (body : Bytes) :
    verdictBody ep body =
      if body.isEmpty then some .reject else
      match splitLast 45 body with
      | none => finishSpec ep body []
      | some (u, r) => finishSpec ep u r := by
  unfold verdictBody
  split
  · rfl
  · cases splitLast 45 body with
    | none => rfl
    | some q => obtain ⟨u, r⟩ := q; rfl

theorem verdictT_eq (t : Bytes) :
    verdictT t =
      match splitFirst 58 t with
      | none => verdictBody 0 t
      | some (e, b) =>
        match epochSpec e with
        | none => none
        | some none => some .reject
        | some (some ep) => verdictBody ep b := by
  unfold verdictT
  cases splitFirst 58 t with
  | none => rfl
  | some q => obtain ⟨e, b⟩ := q; rfl

/-! ### the alphabets of the specification are those of the parser -/

theorem isDigit_eq : isDigit = Str.isDigit := rfl
theorem isDigit_eq_cisdigit : isDigit = cisdigit := rfl

theorem upstreamOK_eq : upstreamOK = upstreamChar := by
  funext c
  rw [Bool.eq_iff_iff]
  simp [upstreamOK, upstreamChar, isAlnum, isDigit, cisdigit, cisalpha]
  omega

theorem revisionOK_eq : revisionOK = revisionChar := by
  funext c
  rw [Bool.eq_iff_iff]
  simp [revisionOK, revisionChar, isAlnum, isDigit, cisdigit, cisalpha]
  omega

theorem natVal_eq_val (e : Bytes) : GoDebian.Spec.Version.natVal e = val 0 e := rfl

/-! ### agreement, stage by stage -/

/-- The parser's result `r` is what the specification's verdict `o` demands; an open
    verdict demands nothing. -/
def Agree (o : Option Verdict) (r : Res Version) : Prop :=
  match o with
  | none => True
  | some (.accept v) => r = .ok v
  | some .reject => r = .error .err

theorem finishSpec_eq (ep : Nat) (u r : Bytes) :
    finishSpec ep u r = some (if partsOK u r then .accept ⟨ep, u, r⟩ else .reject) := by
  cases u with
  | nil => rfl
  | cons c u =>
    simp only [finishSpec, partsOK, upstreamOK_eq, revisionOK_eq, isDigit_eq_cisdigit]
    by_cases h1 : cisdigit c = true <;> by_cases h2 : List.all (c :: u) upstreamChar = true <;>
      by_cases h3 : List.all r revisionChar = true <;> simp [h1, h2, h3]

theorem agree_finish (ep : Nat) (u r : Bytes) : Agree (finishSpec ep u r) (finish ep u r) := by
  rw [finishSpec_eq, finish_eq]
  cases partsOK u r <;> simp [Agree]

theorem agree_body (ep : Nat) (body : Bytes) :
    Agree (verdictBody ep body) (parseBody ep body) := by
  rw [verdictBody_eq]
  split
  · rename_i hb
    have : body = [] := by simpa using hb
    subst this
    rfl
  · cases hs : splitLast 45 body with
    | none =>
      simp only
      rw [parseBody_no_hyphen ep (splitLast_none hs)]
      exact agree_finish ep body []
    | some q =>
      obtain ⟨u, r⟩ := q
      obtain ⟨rfl, hr⟩ := splitLast_some hs
      simp only
      rw [parseBody_hyphen ep u hr]
      exact agree_finish ep u r

/-- The epoch text: accepted with a value, rejected, or left open. -/
def AgreeEpoch (o : Option (Option Nat)) (r : Res Nat) : Prop :=
  match o with
  | none => True
  | some none => r = .error .err
  | some (some n) => r = .ok n

theorem agree_epoch (e : Bytes) : AgreeEpoch (epochSpec e) (epochOf e) := by
  unfold epochSpec
  split
  · rename_i he
    have : e = [] := by simpa using he
    subst this
    rfl
  · rename_i hne
    have hne' : e ≠ [] := by simpa using hne
    split
    · rename_i hall
      rw [isDigit_eq] at hall
      have hp := parseInt64_of_digits hne' hall
      rw [natVal_eq_val]
      split
      · rename_i hlt
        simp [AgreeEpoch, epochOf, hp, hlt]
      · rename_i hlt
        simp [AgreeEpoch, epochOf, hp, hlt]
    · rename_i hall
      rw [isDigit_eq] at hall
      have hall' : e.all Str.isDigit = false := by simpa using hall
      split
      · trivial
      · rename_i d
        split
        · trivial
        · rename_i hz
          have hz' : (!d.isEmpty && d.all (· == 48)) = false := by simpa using hz
          simp only [AgreeEpoch]
          unfold epochOf
          cases hp : Str.parseInt64 (45 :: d) with
          | none => rfl
          | some i =>
            have := parseInt64_minus_neg hz' hp
            simp [this]
      · rename_i h1 h2
        have := parseInt64_of_not_digits hall' (fun r hr => h1 r hr) (fun r hr => h2 r hr)
        simp [AgreeEpoch, epochOf, this]

theorem agree_trimmed (t : Bytes) : Agree (verdictT t) (parseTrimmed t) := by
  rw [verdictT_eq]
  cases hs : splitFirst 58 t with
  | none =>
    simp only
    rw [parseTrimmed_no_colon (splitFirst_none hs)]
    exact agree_body 0 t
  | some q =>
    obtain ⟨e, b⟩ := q
    obtain ⟨rfl, he⟩ := splitFirst_some hs
    simp only
    rw [parseTrimmed_colon b he]
    have hep := agree_epoch e
    cases hsp : epochSpec e with
    | none => trivial
    | some o =>
      rw [hsp] at hep
      cases o with
      | none => simp only [AgreeEpoch] at hep ⊢; rw [hep]; rfl
      | some n => simp only [AgreeEpoch] at hep ⊢; rw [hep]; exact agree_body n b

/-- Whatever the specification decides about a string, the parser does. -/
theorem agree (s : Bytes) : Agree (verdict s) (parse s) := by
  rw [verdict_eq, parse_eq]
  split
  · rfl
  · split
    · rfl
    · exact agree_trimmed _

theorem parse_of_accept {s : Bytes} {v : Version} (h : verdict s = some (.accept v)) :
    parse s = .ok v := by
  have := agree s
  rwa [h] at this

theorem parse_of_reject {s : Bytes} (h : verdict s = some .reject) : parse s = .error .err := by
  have := agree s
  rwa [h] at this

end GoDebian.Lemmas.VersionParse
