/-
  Lemmas about the `.deb` loader model (`Model/Deb.lean`): what a successful `plan`
  guarantees (elimination), sufficient conditions for `plan` to succeed (introduction),
  the member collection, the debsig plan and `load`.
  Core Lean only.
-/
import GoDebian.Model.Deb
import GoDebian.Lemmas.ArDeb
import GoDebian.Lemmas.Res

namespace GoDebian.Lemmas.Deb
open GoDebian GoDebian.Ar GoDebian.Deb

/-! ### `collect` -/

theorem any_name_false {acc : List Entry} {n : Bytes}
    (h : acc.any (fun x => decide (x.name = n)) = false) : n ∉ acc.map (·.name) := by
  intro hm
  simp only [List.mem_map] at hm
  obtain ⟨x, hx, hn⟩ := hm
  have : acc.any (fun x => decide (x.name = n)) = true :=
    List.any_eq_true.mpr ⟨x, hx, by simpa using hn⟩
  rw [h] at this
  cases this

theorem any_name_false_of_not_mem {acc : List Entry} {n : Bytes}
    (h : n ∉ acc.map (·.name)) : acc.any (fun x => decide (x.name = n)) = false := by
  cases ha : acc.any (fun x => decide (x.name = n)) with
  | false => rfl
  | true =>
    obtain ⟨x, hx, hn⟩ := List.any_eq_true.mp ha
    exact absurd (List.mem_map.mpr ⟨x, hx, by simpa using hn⟩) h

/-- a successful collection is the list of entries itself, and the names are distinct -/
theorem collect_ok {es acc ms : List Entry} (h : collect es acc = .ok ms) :
    ms = acc ++ es ∧ ((acc.map (·.name)).Nodup → (ms.map (·.name)).Nodup) := by
  induction es generalizing acc with
  | nil =>
    unfold collect at h
    injection h with h
    subst h
    exact ⟨by simp, id⟩
  | cons e rest ih =>
    unfold collect at h
    split at h
    · cases h
    · rename_i hany
      have hany' : acc.any (fun x => decide (x.name = e.name)) = false := by
        simpa using hany
      obtain ⟨h1, h2⟩ := ih h
      refine ⟨by rw [h1]; simp, fun hnd => h2 ?_⟩
      rw [List.map_append, List.nodup_append]
      refine ⟨hnd, by simp, ?_⟩
      intro a ha b hb
      simp only [List.map_cons, List.map_nil, List.mem_singleton] at hb
      subst hb
      intro hab
      subst hab
      exact any_name_false hany' ha

theorem collect_of_nodup (es acc : List Entry) (h : ((acc ++ es).map (·.name)).Nodup) :
    collect es acc = .ok (acc ++ es) := by
  induction es generalizing acc with
  | nil => simp [collect]
  | cons e rest ih =>
    unfold collect
    have hne : e.name ∉ acc.map (·.name) := by
      intro hm
      rw [List.map_append, List.nodup_append] at h
      exact h.2.2 _ hm _ (by simp) rfl
    have hany := any_name_false_of_not_mem hne
    have hany' : (acc.any fun x => decide (x.name = e.name)) = false := hany
    rw [if_neg (by rw [hany']; simp)]
    have : acc ++ e :: rest = (acc ++ [e]) ++ rest := by simp
    rw [this] at h ⊢
    exact ih _ h

/-! ### `plan` -/

/-- Everything a successful `plan` has checked. -/
theorem plan_ok {bs : Bytes} {p : Plan} (h : plan bs = .ok p) :
    ∃ b k, Ar.readAll bs = some (p.members, .eof) ∧ (p.members.map (·.name)).Nodup ∧
      find sDebianBinary p.members = some b ∧
      Str.indexByte 10 (Ar.data bs b) = some k ∧ (Ar.data bs b).take (k + 1) = [50, 46, 48, 10] ∧
      p.members.filter (fun m => Str.hasPrefix m.name sControlDot) = [p.control] ∧
      p.members.filter (fun m => Str.hasPrefix m.name sDataDot) = [p.data] ∧
      isTarfile p.control.name = true ∧ isTarfile p.data.name = true := by
  unfold plan at h
  split at h
  · cases h
  · cases h
  · cases h
  · rename_i es hr
    split at h
    · cases h
    · rename_i ms hc
      obtain ⟨hms, hnd⟩ := collect_ok hc
      simp only [List.nil_append] at hms
      subst hms
      split at h
      · cases h
      · rename_i b hb
        simp only at h
        split at h
        · cases h
        · rename_i k hk
          split at h
          · cases h
          · rename_i hv
            split at h
            · rename_i c d hcs hds
              split at h
              · cases h
              · rename_i ht
                injection h with h
                subst h
                simp only [Bool.or_eq_true, Bool.not_eq_true', not_or, Bool.not_eq_false] at ht
                refine ⟨b, k, hr, hnd (by simp), hb, hk, ?_, hcs, hds, ht.1, ht.2⟩
                simpa using hv
            · cases h

/-- Sufficient conditions for `plan` to succeed, with its result. -/
theorem plan_intro {bs : Bytes} {ms : List Entry} {b c d : Entry}
    (hr : Ar.readAll bs = some (ms, .eof)) (hnd : (ms.map (·.name)).Nodup)
    (hb : find sDebianBinary ms = some b) (hcontent : Ar.data bs b = [50, 46, 48, 10])
    (hcs : ms.filter (fun m => Str.hasPrefix m.name sControlDot) = [c])
    (hds : ms.filter (fun m => Str.hasPrefix m.name sDataDot) = [d])
    (htc : isTarfile c.name = true) (htd : isTarfile d.name = true) :
    plan bs = .ok ⟨ms, c, d⟩ := by
  have hc : collect ms [] = .ok ms := by
    have := collect_of_nodup ms [] (by simpa using hnd)
    simpa using this
  have hi : Str.indexByte 10 [50, 46, 48, 10] = some 3 := by decide
  unfold plan
  rw [hr]
  simp only [hc, hb, hcontent, hi, hcs, hds, htc, htd]
  simp

/-! ### debsig -/

theorem debsigPlan_some {bs : Bytes} {p : Plan} {role : Bytes} {sig b c d : Entry}
    (h : debsigPlan p role = some (sig, b, c, d)) :
    c = p.control ∧ d = p.data ∧ find sDebianBinary p.members = some b ∧
      find (sGpg ++ role) p.members = some sig ∧
      signedBytes bs p = Ar.data bs b ++ Ar.data bs c ++ Ar.data bs d := by
  unfold debsigPlan at h
  split at h
  · rename_i sig' b' hs hb
    simp only [Option.some.injEq, Prod.mk.injEq] at h
    obtain ⟨rfl, rfl, rfl, rfl⟩ := h
    refine ⟨rfl, rfl, hb, hs, ?_⟩
    unfold signedBytes
    rw [hb]
  · cases h

theorem debsigPlan_none {p : Plan} {role : Bytes} (h : find (sGpg ++ role) p.members = none) :
    debsigPlan p role = none := by
  unfold debsigPlan
  rw [h]

/-! ### `load` -/

theorem load_ok {bs : Bytes} {schema : Codec.Schema} {ctl : TarAnswer} {d : Bool} {l : Loaded}
    (h : load bs schema ctl d = .ok l) :
    ∃ p, plan bs = .ok p ∧ l.controlExt = p.control.name.drop 8 ∧ l.dataExt = p.data.name.drop 5 ∧
      l.members = p.members.map (·.name) := by
  unfold load at h
  split at h
  · cases h
  · rename_i p hp
    split at h
    · cases h
    · split at h
      · cases h
      · cases h
      · split at h
        · cases h
        · split at h
          · cases h
          · split at h
            · cases h
            · injection h with h
              subst h
              exact ⟨p, hp, rfl, rfl, rfl⟩

theorem load_intro {bs : Bytes} {schema : Codec.Schema} {p : Plan}
    {es : List (Bytes × Option Bytes)} {n content : Bytes} {rec : List Codec.Val}
    (hp : plan bs = .ok p)
    (hfind : es.find? (fun (n, _) => Path.clean n = sControl) = some (n, some content))
    (hu : Codec.unmarshal schema content = .ok rec) :
    load bs schema (.entries es false) true =
      .ok ⟨rec, p.control.name.drop 8, p.data.name.drop 5, p.members.map (·.name)⟩ := by
  unfold load
  rw [hp]
  simp only [hfind, hu]
  simp

/-! ### rejections -/

theorem plan_no_binary {bs : Bytes} {es : List Entry} (h : Ar.readAll bs = some (es, .eof))
    (hn : ∀ e ∈ es, e.name ≠ sDebianBinary) : plan bs = .error .err := by
  cases hp : plan bs with
  | error e => rw [Lemmas.Ar.plan_error hp]
  | ok p =>
    obtain ⟨b, _, hr, _, hb, _⟩ := plan_ok hp
    rw [h] at hr
    injection hr with hr
    injection hr with hr _
    subst hr
    unfold find at hb
    have hm := List.mem_of_find?_eq_some hb
    have hname := List.find?_some hb
    exact absurd (by simpa using hname) (hn b hm)

theorem plan_version {bs : Bytes} {p : Plan} (hp : plan bs = .ok p) :
    ∃ b, find sDebianBinary p.members = some b ∧ (Ar.data bs b).take 4 = [50, 46, 48, 10] := by
  obtain ⟨b, k, _, _, hb, _, hv, _⟩ := plan_ok hp
  refine ⟨b, hb, ?_⟩
  have hl := congrArg List.length hv
  simp only [List.length_take, List.length_cons, List.length_nil] at hl
  have h4 := congrArg (List.take 4) hv
  rw [List.take_take] at h4
  have : min 4 (k + 1) = 4 := by omega
  rw [this] at h4
  exact h4

theorem plan_missing {bs : Bytes} {es : List Entry} (h : Ar.readAll bs = some (es, .eof))
    (hn : (∀ e ∈ es, Str.hasPrefix e.name sControlDot = false) ∨
          (∀ e ∈ es, Str.hasPrefix e.name sDataDot = false)) : plan bs = .error .err := by
  cases hp : plan bs with
  | error e => rw [Lemmas.Ar.plan_error hp]
  | ok p =>
    obtain ⟨_, _, hr, _, _, _, _, hcs, hds, _⟩ := plan_ok hp
    rw [h] at hr
    injection hr with hr
    injection hr with hr _
    subst hr
    rcases hn with hn | hn
    · have hm : p.control ∈ [p.control] := by simp
      rw [← hcs] at hm
      rw [List.mem_filter] at hm
      rw [hn _ hm.1] at hm
      exact absurd hm.2 (by simp)
    · have hm : p.data ∈ [p.data] := by simp
      rw [← hds] at hm
      rw [List.mem_filter] at hm
      rw [hn _ hm.1] at hm
      exact absurd hm.2 (by simp)

end GoDebian.Lemmas.Deb
