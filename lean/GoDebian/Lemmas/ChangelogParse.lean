/-
  Structure of the changelog parser on arbitrary input: what `findHeader` and
  `findSignoff` consume, `parseOne` as the composition of its stages, `parseAux` as the
  iteration of `parseOne`, termination.  Core Lean only.
-/
import GoDebian.Model.Changelog

namespace GoDebian.Lemmas.Changelog
open GoDebian GoDebian.Changelog

/-! ### `findHeader` -/

theorem findHeader_eof_iff (ls : List Bytes) : findHeader ls = some none ↔ ∀ l ∈ ls, l = [10] := by
  induction ls with
  | nil => simp [findHeader]
  | cons l rest ih =>
    unfold findHeader
    by_cases h : l = [10]
    · simp [h, ih]
    · simp only [h, if_false]
      split <;> simp [h]

theorem findHeader_some {ls : List Bytes} {header : Bytes} {rest : List Bytes}
    (h : findHeader ls = some (some (header, rest))) :
    ∃ blanks, ls = blanks ++ header :: rest ∧ (∀ l ∈ blanks, l = [10]) ∧ header ≠ [10] ∧
      Str.hasPrefix header [32] = false := by
  induction ls with
  | nil => simp [findHeader] at h
  | cons l r ih =>
    unfold findHeader at h
    by_cases hl : l = [10]
    · rw [if_pos hl] at h
      obtain ⟨blanks, h1, h2, h3⟩ := ih h
      refine ⟨l :: blanks, by rw [h1]; rfl, ?_, h3⟩
      intro x hx
      rcases List.mem_cons.mp hx with rfl | hx
      · exact hl
      · exact h2 x hx
    · rw [if_neg hl] at h
      by_cases hp : Str.hasPrefix l [32] = true
      · rw [if_pos hp] at h; cases h
      · rw [if_neg hp] at h
        simp only [Option.some.injEq, Prod.mk.injEq] at h
        obtain ⟨rfl, rfl⟩ := h
        exact ⟨[], rfl, by simp, hl, by simpa using hp⟩

/-- blank lines in front are skipped -/
theorem findHeader_blanks (n : Nat) {header : Bytes} (rest : List Bytes) (h1 : header ≠ [10])
    (h2 : Str.hasPrefix header [32] = false) :
    findHeader (List.replicate n [10] ++ header :: rest) = some (some (header, rest)) := by
  induction n with
  | zero => simp [findHeader, h1, h2]
  | succ n ih => simp [List.replicate_succ, findHeader, ih]

/-! ### `findSignoff` -/

theorem findSignoff_some {ls : List Bytes} {acc body signoff : Bytes} {rest : List Bytes}
    (h : findSignoff ls acc = some (body, signoff, rest)) :
    ∃ bl, ls = bl ++ signoff :: rest ∧ Str.hasPrefix signoff [32, 45, 45, 32] = true ∧
      (∀ l ∈ bl, Str.hasPrefix l [32, 45, 45, 32] = false) ∧ body = acc ++ bl.flatten := by
  induction ls generalizing acc with
  | nil => simp [findSignoff] at h
  | cons l r ih =>
    unfold findSignoff at h
    split at h
    · cases h
    · by_cases hp : Str.hasPrefix l [32, 45, 45, 32] = true
      · rw [if_pos hp] at h
        simp only [Option.some.injEq, Prod.mk.injEq] at h
        obtain ⟨rfl, rfl, rfl⟩ := h
        exact ⟨[], rfl, hp, by simp, by simp⟩
      · rw [if_neg hp] at h
        obtain ⟨bl, h1, h2, h3, h4⟩ := ih h
        refine ⟨l :: bl, by rw [h1]; rfl, h2, ?_, by rw [h4]; simp⟩
        intro x hx
        rcases List.mem_cons.mp hx with rfl | hx
        · simpa using hp
        · exact h3 x hx

/-- body lines (blank-prefixed or white space only, not starting with " -- ") are
    accumulated up to the trailer -/
theorem findSignoff_body (bl : List Bytes) (acc signoff : Bytes) (rest : List Bytes)
    (hb : ∀ l ∈ bl, (Str.hasPrefix l [32] = true ∨ trim l = []) ∧
      Str.hasPrefix l [32, 45, 45, 32] = false)
    (hs : Str.hasPrefix signoff [32, 45, 45, 32] = true) :
    findSignoff (bl ++ signoff :: rest) acc = some (acc ++ bl.flatten, signoff, rest) := by
  induction bl generalizing acc with
  | nil =>
    have h1 : Str.hasPrefix signoff [32] = true := by
      match signoff, hs with
      | c :: _, hs =>
        simp only [Str.hasPrefix, Str.isPrefix, Bool.and_eq_true] at hs ⊢
        simp [hs.1]
    simp [findSignoff, h1, hs]
  | cons l r ih =>
    obtain ⟨h1, h2⟩ := hb l (by simp)
    have h3 : (!Str.hasPrefix l [32] && !(trim l).isEmpty) = false := by
      rcases h1 with h1 | h1 <;> simp [h1]
    rw [List.cons_append, findSignoff, h3, h2, ih _ (fun x hx => hb x (List.mem_cons_of_mem _ hx))]
    simp

/-! ### `parseOne` as the composition of its stages -/

/-- one `key=value` option added to the map -/
def argStep (m : List (Bytes × Bytes)) (entry : Bytes) : List (Bytes × Bytes) :=
  let (k, val) := partition (trim entry) [61]
  mapInsert (trim k) (trim val) m

/-- the option map built from the text after the semicolon -/
def argsOf (options : Bytes) : List (Bytes × Bytes) :=
  (Str.split [44] options).foldl argStep []

theorem parseOne_stages {ls : List Bytes} {dateOK : Bytes → Bool} {header : Bytes}
    {r1 : List Bytes} {arguments options source remainder vs suite : Bytes} {v : Version.Version}
    {body signoff : Bytes} {rest : List Bytes} {x so whom when_ : Bytes}
    (h1 : findHeader ls = some (some (header, r1)))
    (h2 : partition header [59] = (arguments, options))
    (h3 : partition arguments [40] = (source, remainder))
    (h4 : partition remainder [41] = (vs, suite))
    (h5 : Version.parse (trim vs) = .ok v)
    (h6 : findSignoff r1 [] = some (body, signoff, rest))
    (h7 : partition signoff [45, 45] = (x, so))
    (h8 : partition so [32, 32] = (whom, when_))
    (h9 : dateOK (trim when_) = true) :
    parseOne ls dateOK =
      .entry ⟨trim source, v, trim suite, argsOf options, body, trim whom, trim when_⟩ rest := by
  simp only [parseOne, h1, h2, h3, h4, h5, h6, h7, h8, h9, argsOf]
  rfl

theorem parseOne_entry {ls : List Bytes} {dateOK : Bytes → Bool} {e : Entry} {rest : List Bytes}
    (h : parseOne ls dateOK = .entry e rest) :
    ∃ header r1 signoff, findHeader ls = some (some (header, r1)) ∧
      findSignoff r1 [] = some (e.changelog, signoff, rest) ∧ dateOK e.whenText = true := by
  unfold parseOne at h
  split at h
  · cases h
  · cases h
  · rename_i header r1 hh
    simp only at h
    split at h
    · cases h
    · split at h
      · cases h
      · rename_i body signoff rest' hs
        split at h
        · cases h
        · rename_i hd
          injection h with h1 h2
          subst h1 h2
          exact ⟨header, r1, signoff, hh, hs, by simpa using hd⟩

theorem parseOne_eof_iff (ls : List Bytes) (dateOK : Bytes → Bool) :
    parseOne ls dateOK = .eof ↔ ∀ l ∈ ls, l = [10] := by
  rw [← findHeader_eof_iff]
  unfold parseOne
  constructor
  · intro h
    split at h
    · cases h
    · assumption
    · exfalso
      simp only at h
      split at h
      · cases h
      · split at h
        · cases h
        · split at h <;> cases h
  · intro h
    rw [h]

/-- the block of lines an entry was made from -/
theorem parseOne_block {ls rest : List Bytes} {dateOK : Bytes → Bool} {e : Entry}
    (h : parseOne ls dateOK = .entry e rest) :
    ∃ blanks header body trailer, ls = blanks ++ [header] ++ body ++ [trailer] ++ rest ∧
      (∀ l ∈ blanks, l = [10]) ∧ header ≠ [10] ∧ Str.hasPrefix header [32] = false ∧
      Str.hasPrefix trailer [32, 45, 45, 32] = true ∧
      (∀ l ∈ body, Str.hasPrefix l [32, 45, 45, 32] = false) ∧ e.changelog = body.flatten ∧
      dateOK e.whenText = true := by
  obtain ⟨header, r1, signoff, h1, h2, h3⟩ := parseOne_entry h
  obtain ⟨blanks, e1, hb, hh1, hh2⟩ := findHeader_some h1
  obtain ⟨bl, e2, hs, hbl, hc⟩ := findSignoff_some h2
  refine ⟨blanks, header, bl, signoff, ?_, hb, hh1, hh2, hs, hbl, by simpa using hc, h3⟩
  rw [e1, e2]; simp

/-- when the input is given as `blk ++ rest`, `blk` is exactly the block -/
theorem parseOne_block_exact {blk rest : List Bytes} {dateOK : Bytes → Bool} {e : Entry}
    (h : parseOne (blk ++ rest) dateOK = .entry e rest) :
    ∃ blanks header body trailer, blk = blanks ++ [header] ++ body ++ [trailer] ∧
      (∀ l ∈ blanks, l = [10]) ∧ header ≠ [10] ∧ Str.hasPrefix header [32] = false ∧
      Str.hasPrefix trailer [32, 45, 45, 32] = true ∧
      (∀ l ∈ body, Str.hasPrefix l [32, 45, 45, 32] = false) ∧ e.changelog = body.flatten ∧
      dateOK e.whenText = true := by
  obtain ⟨blanks, header, body, trailer, h1, h2⟩ := parseOne_block h
  exact ⟨blanks, header, body, trailer, List.append_cancel_right h1, h2⟩

/-! ### `parseAux` -/

/-- a sequence of blocks, each turned into the corresponding entry by `parseOne`, followed
    by empty lines only -/
def Consumes (dateOK : Bytes → Bool) : List (List Bytes) → List Entry → List Bytes → Prop
  | [], [], tail => ∀ l ∈ tail, l = [10]
  | blk :: blks, e :: es, tail =>
    blk ≠ [] ∧ parseOne (blk ++ (blks.flatten ++ tail)) dateOK = .entry e (blks.flatten ++ tail) ∧
      Consumes dateOK blks es tail
  | _, _, _ => False

theorem parseAux_succ (fuel : Nat) (ls : List Bytes) (dateOK : Bytes → Bool) (acc : List Entry) :
    parseAux (fuel + 1) ls dateOK acc = match parseOne ls dateOK with
      | .eof => .ok acc
      | .bad => .error .err
      | .entry e rest => parseAux fuel rest dateOK (acc ++ [e]) := rfl

theorem parseAux_ok {fuel : Nat} {ls : List Bytes} {dateOK : Bytes → Bool} {acc es : List Entry}
    (h : parseAux fuel ls dateOK acc = .ok es) :
    ∃ es' blocks tail, es = acc ++ es' ∧ ls = blocks.flatten ++ tail ∧
      Consumes dateOK blocks es' tail := by
  induction fuel generalizing ls acc with
  | zero => simp [parseAux] at h
  | succ fuel ih =>
    rw [parseAux_succ] at h
    split at h
    · rename_i heof
      injection h with h; subst h
      exact ⟨[], [], ls, by simp, by simp, (parseOne_eof_iff ls dateOK).mp heof⟩
    · cases h
    · rename_i e rest hent
      obtain ⟨es', blocks, tail, h1, h2, h3⟩ := ih h
      obtain ⟨blanks, header, body, trailer, hls, -⟩ := parseOne_block hent
      refine ⟨e :: es', (blanks ++ [header] ++ body ++ [trailer]) :: blocks, tail, by simp [h1],
        by rw [hls, h2]; simp, by simp, ?_, h3⟩
      rw [← h2, ← hls]; exact hent

theorem consumes_length {dateOK : Bytes → Bool} {blocks : List (List Bytes)} {es : List Entry}
    {tail : List Bytes} (h : Consumes dateOK blocks es tail) : blocks.length = es.length := by
  induction blocks generalizing es with
  | nil => cases es <;> simp_all [Consumes]
  | cons b bs ih =>
    cases es with
    | nil => simp [Consumes] at h
    | cons e es => simp [ih h.2.2]

theorem consumes_tail {dateOK : Bytes → Bool} {blocks : List (List Bytes)} {es : List Entry}
    {tail : List Bytes} (h : Consumes dateOK blocks es tail) : ∀ l ∈ tail, l = [10] := by
  induction blocks generalizing es with
  | nil =>
    cases es with
    | nil => exact h
    | cons e es => simp [Consumes] at h
  | cons b bs ih =>
    cases es with
    | nil => simp [Consumes] at h
    | cons e es => exact ih h.2.2

theorem consumes_get {dateOK : Bytes → Bool} {blocks : List (List Bytes)} {es : List Entry}
    {tail : List Bytes} (h : Consumes dateOK blocks es tail) (i : Nat) (hi : i < blocks.length)
    (hi' : i < es.length) :
    blocks[i] ≠ [] ∧ parseOne (blocks[i] ++ ((blocks.drop (i + 1)).flatten ++ tail)) dateOK
      = .entry es[i] ((blocks.drop (i + 1)).flatten ++ tail) := by
  induction blocks generalizing es i with
  | nil => simp at hi
  | cons b bs ih =>
    cases es with
    | nil => simp at hi'
    | cons e es =>
      cases i with
      | zero => exact ⟨h.1, h.2.1⟩
      | succ i => exact ih h.2.2 i (by simpa using hi) (by simpa using hi')

/-- success accounts for every line -/
theorem parse_ok {b : Bytes} {dateOK : Bytes → Bool} {es : List Entry}
    (h : parse b dateOK = .ok es) :
    ∃ blocks tail, lines b = blocks.flatten ++ tail ∧ Consumes dateOK blocks es tail := by
  obtain ⟨es', blocks, tail, h1, h2, h3⟩ := parseAux_ok h
  simp only [List.nil_append] at h1
  subst h1
  exact ⟨blocks, tail, h2, h3⟩

/-! ### termination -/

theorem parseOne_consumes {ls rest : List Bytes} {dateOK : Bytes → Bool} {e : Entry}
    (h : parseOne ls dateOK = .entry e rest) : rest.length < ls.length := by
  obtain ⟨blanks, header, body, trailer, hls, -⟩ := parseOne_block h
  rw [hls]; simp; omega

theorem parseAux_total (fuel : Nat) (ls : List Bytes) (dateOK : Bytes → Bool) (acc : List Entry)
    (hf : ls.length < fuel) :
    parseAux fuel ls dateOK acc ≠ .error .fuel ∧ parseAux fuel ls dateOK acc ≠ .error .panic := by
  induction fuel generalizing ls acc with
  | zero => omega
  | succ fuel ih =>
    rw [parseAux_succ]
    split
    · exact ⟨by simp, by simp⟩
    · exact ⟨by simp, by simp⟩
    · rename_i e rest hent
      have := parseOne_consumes hent
      exact ih rest _ (by omega)

theorem parse_total (b : Bytes) (dateOK : Bytes → Bool) :
    parse b dateOK ≠ .error .fuel ∧ parse b dateOK ≠ .error .panic :=
  parseAux_total _ _ dateOK [] (by omega)

end GoDebian.Lemmas.Changelog
