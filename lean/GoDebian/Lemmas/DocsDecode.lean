/-
  C10 lemmas, part 2: what `decodeValue` returns on the value text of each shape —
  scalars, numbers, self-decoding types, and lists in every layout (blank separated,
  comma separated, one entry per line).  Core Lean only.
-/
import GoDebian.Spec.DocsValue
import GoDebian.Lemmas.DocsText
import GoDebian.Lemmas.CodecRound

namespace GoDebian.Lemmas.Docs
open GoDebian GoDebian.Str GoDebian.Codec GoDebian.Spec.Codec GoDebian.Spec.DocsValue
open GoDebian.Lemmas.Str GoDebian.Lemmas.Deb822WriteStr GoDebian.Lemmas.Codec
open GoDebian.Lemmas.Changelog (HeadOK LastOK trimSet_of_ends trimSet_cons_mem trimSet_snoc_mem
  headOK_of_all lastOK_of_all headOK_append lastOK_append joinWith_ends mem_joinWith
  split_joinWith_byte)
open GoDebian.Spec.Deb822 (expectedValue)

/-! ### single values -/

theorem decode_str (delim strip value : Bytes) :
    decodeValue 16 .str delim strip .zero value = .ok (.str value) := by
  simp [decodeValue]

theorem decode_int {i : Int} (h : int64 i) (delim strip : Bytes) :
    decodeValue 16 .int delim strip .zero (fmtInt i) = .ok (.int i) := by
  simp [decodeValue, isEmpty_false_of_ne (fmtInt_ne_nil i), parseInt64_fmtInt h.1 h.2]

theorem decode_bool (b : Bool) (delim strip : Bytes) :
    decodeValue 16 .bool delim strip .zero (if b then sYes else sNo) = .ok (.bool b) := by
  cases b <;> simp [decodeValue, sYes, sNo]

theorem decode_custom (n : Nat) (typ : String) (delim strip value : Bytes) (c : Custom)
    (h : decodeCustom typ value = .ok c) :
    decodeValue (n+1) (.custom typ) delim strip .zero value = .ok (.custom c) := by
  simp [decodeValue, h, Except.map]

theorem decodeCustom_version {t : Bytes} {v : Version.Version} (h : Version.parse t = .ok v) :
    decodeCustom "Version" t = .ok (.version v) := by
  simp [decodeCustom, h, Except.map]

theorem decodeCustom_arch {t : Bytes} {a : Dep.Arch} (h : Dep.parseArch t = .ok a) :
    decodeCustom "Arch" t = .ok (.arch a) := by
  simp [decodeCustom, h, Except.map]

theorem decodeCustom_dep {t : Bytes} {d : Dep.Dependency} (h : Dep.parse t = .ok d) :
    decodeCustom "Dependency" t = .ok (.dep d) := by
  simp [decodeCustom, h, Except.map]

/-! ### lists, generically -/

theorem mapRes_trim {α : Type} {g : Bytes → Res Val} (text : α → Bytes) (F : α → Val)
    {strip : Bytes} {pieces : List Bytes} {items : List α}
    (ht : pieces.map (trimSet strip) = items.map text)
    (hg : ∀ x ∈ items, g (text x) = .ok (F x)) :
    mapRes (fun el => g (trimSet strip el)) pieces = .ok (items.map F) := by
  induction pieces generalizing items with
  | nil =>
    cases items with
    | nil => rfl
    | cons => simp at ht
  | cons p pieces ih =>
    cases items with
    | nil => simp at ht
    | cons x items =>
      simp only [List.map_cons, List.cons.injEq] at ht
      have h1 : g (trimSet strip p) = .ok (F x) := by rw [ht.1]; exact hg x (by simp)
      rw [mapRes_cons_ok (g := fun el => g (trimSet strip el)) h1,
        ih ht.2 (fun y hy => hg y (List.mem_cons_of_mem _ hy))]
      rfl

theorem decode_slice_of {α : Type} (text : α → Bytes) (F : α → Val) {e : Kind}
    {delim strip value : Bytes} {items : List α} (hne : trimSet strip value ≠ [])
    (hi : items ≠ [])
    (ht : (if delimOf delim = [32] then fields (trimSet strip value)
           else split (delimOf delim) (trimSet strip value)).map (trimSet strip) = items.map text)
    (hg : ∀ x ∈ items, decodeValue 15 e delim strip .zero (text x) = .ok (F x)) :
    decodeValue 16 (.slice e) delim strip .zero value = .ok (listVal (items.map F)) := by
  rw [decodeValue_slice _ _ _ _ _ hne,
    mapRes_trim (g := fun el => decodeValue 15 e delim strip .zero el) text F ht hg]
  cases items with
  | nil => exact absurd rfl hi
  | cons x items => rfl

theorem decode_slice_nil (e : Kind) (delim strip : Bytes) :
    decodeValue 16 (.slice e) delim strip .zero [] = .ok (listVal []) :=
  decodeValue_slice_empty _ _ _ _ _ _ rfl

theorem map_trimSet_id {strip : Bytes} {ls : List Bytes}
    (h : ∀ x ∈ ls, HeadOK strip x ∧ LastOK strip x) : ls.map (trimSet strip) = ls := by
  induction ls with
  | nil => rfl
  | cons x ls ih =>
    rw [List.map_cons, trimSet_of_ends (h x (by simp)).1 (h x (by simp)).2,
      ih (fun y hy => h y (List.mem_cons_of_mem _ hy))]

/-! ### blank separated lists -/

theorem decode_words {α : Type} (text : α → Bytes) (F : α → Val) (e : Kind) (delim strip : Bytes)
    (hd : delimOf delim = [32]) (hs : strip.all isWs = true) (items : List α)
    (hw : ∀ x ∈ items, wfWord (text x) = true)
    (hg : ∀ x ∈ items, decodeValue 15 e delim strip .zero (text x) = .ok (F x))
    (l : Layout) (name : Bytes) :
    decodeValue 16 (.slice e) delim strip .zero
      (expectedValue ⟨name, (partsOfLines (odd l) (groupLines [32] [] (items.map text) l.tail)).1,
        (partsOfLines (odd l) (groupLines [32] [] (items.map text) l.tail)).2⟩) =
      .ok (listVal (items.map F)) := by
  cases items with
  | nil =>
    simp only [List.map_nil, groupLines]
    rw [expectedValue_no_lines]
    exact decode_slice_nil _ _ _
  | cons x rest =>
    have hwords : ∀ y ∈ text x :: rest.map text, y ≠ [] ∧ hasSpaceRune y = false := by
      intro y hy
      rw [← List.map_cons] at hy
      obtain ⟨z, hz, rfl⟩ := List.mem_map.mp hy
      exact wfWord_spec (hw z hz)
    obtain ⟨t, ht, hv⟩ := expectedValue_group name (odd l) [32] [] (text x) (rest.map text) l.tail
      (hwords _ (by simp)).1
    rw [List.map_cons, hv]
    simp only [List.nil_append]
    obtain ⟨hJ0, hJ1, hJ2⟩ := group_ends (cs := strip) (same := [32]) (brk := [10])
      (x := text x) (rest := rest.map text)
      (fun y hy => ⟨(hwords y hy).1, word_ends hs (hwords y hy).2⟩) l.tail
    obtain ⟨t', ht', htrim, _⟩ := trimSet_value (strip := strip) hJ0 hJ1 hJ2 ht
    have hne : trimSet strip (text x ++ tailJoin [32] [10] (rest.map text) l.tail ++ t) ≠ [] := by
      rw [htrim]; exact fun h => hJ0 (List.append_eq_nil_iff.mp h).1
    refine decode_slice_of text F hne (by simp) ?_ hg
    rw [if_pos hd, htrim, fields_group _ _ hwords _ _ ht', ← List.map_cons]
    exact map_trimSet_id (fun y hy => by
      obtain ⟨z, hz, rfl⟩ := List.mem_map.mp hy
      exact word_ends hs (wfWord_spec (hw z hz)).2)

/-! ### comma separated lists -/

theorem wfItem_spec {strip b : Bytes} (hs : strip.all isWs = true) (h : wfItem b = true) :
    b ≠ [] ∧ 44 ∉ b ∧ HeadOK strip b ∧ LastOK strip b := by
  simp only [wfItem, Bool.and_eq_true, Bool.not_eq_eq_eq_not, Bool.not_true,
    List.isEmpty_eq_false_iff, List.contains_eq_mem, decide_eq_false_iff_not] at h
  obtain ⟨⟨⟨⟨h0, h1⟩, h2⟩, _⟩, _⟩ := h
  exact ⟨h0, h2, trimmed_ends hs h1⟩

theorem decode_commas (strip : Bytes) (hs : strip.all isWs = true)
    (h10 : strip.contains 10 = true) (h32 : strip.contains 32 = true) (items : List Bytes)
    (hw : ∀ x ∈ items, wfItem x = true) (l : Layout) (name : Bytes) :
    decodeValue 16 (.slice .str) [44] strip .zero
      (expectedValue ⟨name, (partsOfLines (odd l) (groupLines [44, 32] [44] items l.tail)).1,
        (partsOfLines (odd l) (groupLines [44, 32] [44] items l.tail)).2⟩) =
      .ok (listVal (items.map .str)) := by
  cases items with
  | nil =>
    simp only [groupLines]
    rw [expectedValue_no_lines]
    exact decode_slice_nil _ _ _
  | cons x rest =>
    have hit : ∀ y ∈ x :: rest, y ≠ [] ∧ 44 ∉ y ∧ HeadOK strip y ∧ LastOK strip y :=
      fun y hy => wfItem_spec hs (hw y hy)
    obtain ⟨t, ht, hv⟩ := expectedValue_group name (odd l) [44, 32] [44] x rest l.tail (hit x (by simp)).1
    rw [hv]
    simp only [List.cons_append, List.nil_append]
    obtain ⟨hJ0, hJ1, hJ2⟩ := group_ends (cs := strip) (same := [44, 32]) (brk := [44, 10])
      (x := x) (rest := rest) (fun y hy => ⟨(hit y hy).1, (hit y hy).2.2⟩) l.tail
    obtain ⟨t', _, htrim, ht0⟩ := trimSet_value (strip := strip) hJ0 hJ1 hJ2 ht
    rw [ht0 h10, List.append_nil] at htrim
    have hne : trimSet strip (x ++ tailJoin [44, 32] [44, 10] rest l.tail ++ t) ≠ [] := by
      rw [htrim]; exact hJ0
    have hdelim : delimOf [44] = [44] := rfl
    refine decode_slice_of (fun y => y) Val.str hne (by simp) ?_
      (fun y _ => by simp [decodeValue])
    rw [hdelim, if_neg (by decide), htrim, List.map_id']
    unfold split
    have hlen := length_tailJoin 32 10 rest l.tail
    rw [splitNAux_tailJoin 32 10 h32 h10 (by decide) (by decide) rest
      (fun y hy => (hit y (List.mem_cons_of_mem _ hy)).2) x (hit x (by simp)).2.1 l.tail _ _
      (by simp; omega) (by simp; omega),
      trimSet_of_ends (hit x (by simp)).2.2.1 (hit x (by simp)).2.2.2]

/-! ### one entry per line -/

theorem decode_lines {α : Type} (line : α → Bytes) (F : α → Val) (e : Kind) (strip : Bytes)
    (h10 : strip.contains 10 = true) (items : List α)
    (hl : ∀ x ∈ items, line x ≠ [] ∧ HeadOK strip (line x) ∧ LastOK strip (line x) ∧ 10 ∉ line x)
    (hg : ∀ x ∈ items, decodeValue 15 e [10] strip .zero (line x) = .ok (F x))
    (fe : Bool) (name : Bytes) :
    decodeValue 16 (.slice e) [10] strip .zero
      (expectedValue ⟨name, (partsOfLines fe (items.map line)).1,
        (partsOfLines fe (items.map line)).2⟩) = .ok (listVal (items.map F)) := by
  cases hi : items with
  | nil =>
    simp only [List.map_nil]
    rw [expectedValue_no_lines]
    exact decode_slice_nil _ _ _
  | cons x rest =>
    rw [← hi]
    have hne0 : items.map line ≠ [] := by rw [hi]; simp
    have hlines : ∀ y ∈ items.map line, y ≠ [] ∧ HeadOK strip y ∧ LastOK strip y ∧ 10 ∉ y := by
      intro y hy
      obtain ⟨z, hz, rfl⟩ := List.mem_map.mp hy
      exact hl z hz
    obtain ⟨t, ht, hv⟩ := expectedValue_lines name fe (items.map line) hne0
      (by rw [hi]; simpa using (hl x (by rw [hi]; simp)).1)
    rw [hv]
    obtain ⟨hJ0, hJ1, hJ2⟩ := joinWith_ends (cs := strip) (sep := [10]) hne0
      (fun y hy => ⟨(hlines y hy).1, (hlines y hy).2.1, (hlines y hy).2.2.1⟩)
    obtain ⟨t', _, htrim, ht0⟩ := trimSet_value (strip := strip) hJ0 hJ1 hJ2 ht
    rw [ht0 h10, List.append_nil] at htrim
    have hne : trimSet strip (joinWith [10] (items.map line) ++ t) ≠ [] := by
      rw [htrim]; exact hJ0
    have hdelim : delimOf [10] = [10] := rfl
    refine decode_slice_of line F hne (by rw [hi]; simp) ?_ hg
    rw [hdelim, if_neg (by decide), htrim,
      split_joinWith hne0 (fun y hy => (hlines y hy).2.2.2)]
    exact map_trimSet_id (fun y hy => ⟨(hlines y hy).2.1, (hlines y hy).2.2.1⟩)

/-! ### hash entries -/

theorem tokens_line {strip : Bytes} (hs : strip.all isWs = true) {toks : List Bytes}
    (hne : toks ≠ []) (hw : ∀ t ∈ toks, t ≠ [] ∧ hasSpaceRune t = false) :
    joinWith [32] toks ≠ [] ∧ HeadOK strip (joinWith [32] toks) ∧
      LastOK strip (joinWith [32] toks) ∧ 10 ∉ joinWith [32] toks := by
  obtain ⟨h0, h1, h2⟩ := joinWith_ends (cs := strip) (sep := [32]) hne
    (fun t ht => ⟨(hw t ht).1, word_ends hs (hw t ht).2⟩)
  refine ⟨h0, h1, h2, fun hm => ?_⟩
  rcases mem_joinWith hm with h | ⟨t, ht, hc⟩
  · simp at h
  · exact not_mem_of_word (hw t ht).2 (c := 10) rfl hc

theorem hashType_known {alg : String} (h : knownAlg alg) :
    ∃ a, decodeCustom (Spec.Docs.hashType alg) = (fun data => (parseFileHash a data).map .hash) ∧
      a = Bytes.ofString alg ∧
      byHashOf alg = (if a = sSha256 then [83, 72, 65, 50, 53, 54]
        else if a = sSha512 then [83, 72, 65, 53, 49, 50] else []) := by
  rcases h with rfl | rfl | rfl | rfl
  · exact ⟨sMd5, by funext d; simp [Spec.Docs.hashType, decodeCustom], by decide +kernel, by decide +kernel⟩
  · exact ⟨sSha1, by funext d; simp [Spec.Docs.hashType, decodeCustom], by decide +kernel, by decide +kernel⟩
  · exact ⟨sSha256, by funext d; simp [Spec.Docs.hashType, decodeCustom], by decide +kernel, by decide +kernel⟩
  · exact ⟨sSha512, by funext d; simp [Spec.Docs.hashType, decodeCustom], by decide +kernel, by decide +kernel⟩

theorem decode_hashLine {alg : String} (h : knownAlg alg) {e : HashEntry}
    (hw : wfWord e.hash = true ∧ wfWord e.name = true ∧ int64 e.size) (delim strip : Bytes) :
    decodeValue 15 (.custom (Spec.Docs.hashType alg)) delim strip .zero (hashLine e) =
      .ok (hashView alg e) := by
  obtain ⟨a, hdc, ha, hbh⟩ := hashType_known h
  apply decode_custom
  rw [hdc]
  simp only [parseFileHash, hashLine]
  rw [fields_joinWith (by simp) (by
    intro t ht
    simp only [List.mem_cons, List.not_mem_nil, or_false] at ht
    rcases ht with rfl | rfl | rfl
    · exact wfWord_spec hw.1
    · exact fmtInt_word _
    · exact wfWord_spec hw.2.1)]
  simp only [parseInt64_fmtInt hw.2.2.1 hw.2.2.2, Except.map, ha, hbh]

theorem hashLine_ok {strip : Bytes} (hs : strip.all isWs = true) {e : HashEntry}
    (hw : wfWord e.hash = true ∧ wfWord e.name = true ∧ int64 e.size) :
    hashLine e ≠ [] ∧ HeadOK strip (hashLine e) ∧ LastOK strip (hashLine e) ∧ 10 ∉ hashLine e :=
  tokens_line hs (by simp) (by
    intro t ht
    simp only [List.mem_cons, List.not_mem_nil, or_false] at ht
    rcases ht with rfl | rfl | rfl
    · exact wfWord_spec hw.1
    · exact fmtInt_word _
    · exact wfWord_spec hw.2.1)

theorem changesLine_tokens {e : ChangesEntry}
    (hw : wfWord e.hash = true ∧ wfWord e.name = true ∧ wfWord e.component = true ∧
      wfWord e.priority = true ∧ int64 e.size) :
    ∀ t ∈ [e.hash, fmtInt e.size, e.component, e.priority, e.name],
      t ≠ [] ∧ hasSpaceRune t = false := by
  intro t ht
  simp only [List.mem_cons, List.not_mem_nil, or_false] at ht
  rcases ht with rfl | rfl | rfl | rfl | rfl
  · exact wfWord_spec hw.1
  · exact fmtInt_word _
  · exact wfWord_spec hw.2.2.1
  · exact wfWord_spec hw.2.2.2.1
  · exact wfWord_spec hw.2.1

theorem decode_changesLine {e : ChangesEntry}
    (hw : wfWord e.hash = true ∧ wfWord e.name = true ∧ wfWord e.component = true ∧
      wfWord e.priority = true ∧ int64 e.size) (delim strip : Bytes) :
    decodeValue 15 (.custom "FileListChangesFileHash") delim strip .zero (changesLine e) =
      .ok (changesView e) := by
  apply decode_custom
  simp only [decodeCustom, parseChangesHash, changesLine]
  rw [split_joinWith_byte (by simp) (fun t ht =>
    not_mem_of_word (changesLine_tokens hw t ht).2 (c := 32) rfl)]
  simp only [parseInt64_fmtInt hw.2.2.2.2.1 hw.2.2.2.2.2, Except.map]

theorem changesLine_ok {strip : Bytes} (hs : strip.all isWs = true) {e : ChangesEntry}
    (hw : wfWord e.hash = true ∧ wfWord e.name = true ∧ wfWord e.component = true ∧
      wfWord e.priority = true ∧ int64 e.size) :
    changesLine e ≠ [] ∧ HeadOK strip (changesLine e) ∧ LastOK strip (changesLine e) ∧
      10 ∉ changesLine e :=
  tokens_line hs (by simp) (changesLine_tokens hw)

end GoDebian.Lemmas.Docs
