/-
  C09 lemmas, part 7: the custom field types whose round trip is already proved (C03:
  versions, C05: architectures) satisfy the `wfCustom` hypothesis of the codec theorems.
-/
import GoDebian.Model.Codec
import GoDebian.Spec.Codec
import GoDebian.Lemmas.VersionParse
import GoDebian.Lemmas.ArchRoundTrip

namespace GoDebian.Lemmas.Codec
open GoDebian GoDebian.Codec GoDebian.Spec.Codec

theorem toString_ne_nil {v : Version.Version} {c : Nat} {rest : Bytes}
    (hu : v.upstream = c :: rest) : Version.toString v ≠ [] := by
  have h1 : Version.stringWithoutEpoch v ≠ [] := by
    unfold Version.stringWithoutEpoch
    split <;> simp [hu]
  unfold Version.toString
  split
  · simp
  · exact h1

theorem wfCustom_version {s : Bytes} {v : Version.Version} (h : Version.parse s = .ok v)
    (md : Bool) : wfCustom md "Version" (.version v) := by
  have hwf := Lemmas.VersionParse.parse_wf h
  obtain ⟨⟨c, rest, hu, _⟩, _⟩ := Lemmas.VersionParse.partsOK_iff.mp hwf.parts
  refine ⟨Version.toString v, rfl, fun h0 => absurd h0 (toString_ne_nil hu), fun _ => ?_⟩
  show (Version.parse (Version.toString v)).map Custom.version = _
  rw [Lemmas.VersionParse.parse_toString hwf]
  rfl

theorem render_ne_nil (a : Dep.Arch) : a.render ≠ [] := by
  unfold Dep.Arch.render
  simp only
  split
  · rename_i h
    rcases h.1 with h1 | h1 <;> rw [h1] <;> decide
  · split
    · rename_i h; exact h.2.1
    · split <;> simp [Dep.dash]

theorem wfCustom_arch {n : Bytes} {a : Dep.Arch} (h : Dep.parseArch n = .ok a) (md : Bool) :
    wfCustom md "Arch" (.arch a) := by
  refine ⟨a.render, rfl, fun h0 => absurd h0 (render_ne_nil a), fun _ => ?_⟩
  show (Dep.parseArch a.render).map Custom.arch = _
  rw [Lemmas.Arch.parseArch_roundtrip n a h]
  rfl

end GoDebian.Lemmas.Codec
