/-
  C08 lemmas, part 2: whole paragraphs and documents.  A "rereadable" paragraph is written
  to lines that `next` turns back into `reread p`; documents of such paragraphs re-read
  paragraph by paragraph; `reread p` has the same logical lines as `p`; text paragraphs
  (`textPara`) are rereadable; no written line is blank.
-/
import GoDebian.Lemmas.Deb822Write

namespace GoDebian.Lemmas.Deb822Write
open GoDebian GoDebian.Str GoDebian.Deb822 GoDebian.Spec.Deb822Write
open GoDebian.Lemmas.Str GoDebian.Lemmas.Deb822WriteStr

/-- what the reader returns for the written form of `p` -/
def reread (p : Paragraph) : Paragraph :=
  ⟨p.order, p.order.map (fun k => (k, build (foldParts (p.get k)).1 (foldParts (p.get k)).2))⟩

def Rereadable (p : Paragraph) : Prop :=
  p.order ≠ [] ∧ p.order.Nodup ∧
    ∀ k ∈ p.order, KeyOK k ∧ PartsOK (foldParts (p.get k)).1 (foldParts (p.get k)).2

theorem Rereadable.no_nl {p : Paragraph} (h : Rereadable p) : ∀ k ∈ p.order, 10 ∉ k :=
  fun k hk => (h.2.2 k hk).1.2.2.1

theorem nextAux_paraLines {p : Paragraph} (h : Rereadable p) (rest : List Bytes) :
    nextAux (paraLines p ++ rest) empty [] =
      nextAux rest (reread p) (p.order.getLast?.getD []) := by
  have := nextAux_fields (fun k => foldParts (p.get k)) p.order h.2.1 h.2.2 rest [] []
    (fun _ _ => rfl) []
  simpa [paraLines, reread, empty] using this

theorem next_paraLines {p : Paragraph} (h : Rereadable p) :
    next (paraLines p) = .para (reread p) [] := by
  have := nextAux_paraLines h []
  rw [List.append_nil] at this
  unfold next
  rw [this, nextAux]
  have : (reread p).order.isEmpty = false := by
    have := h.1
    unfold reread
    cases hp : p.order with
    | nil => exact absurd hp this
    | cons => rfl
  rw [this]; rfl

theorem next_paraLines_blank {p : Paragraph} (h : Rereadable p) (more : List Bytes) :
    next (paraLines p ++ [10] :: more) = .para (reread p) more := by
  unfold next
  rw [nextAux_paraLines h, nextAux]
  have : (reread p).order.isEmpty = false := by
    have := h.1
    unfold reread
    cases hp : p.order with
    | nil => exact absurd hp this
    | cons => rfl
  simp [this]

/-! ### documents -/

def docLines : List Paragraph → List Bytes
  | [] => []
  | [p] => paraLines p
  | p :: q :: rest => paraLines p ++ [10] :: docLines (q :: rest)

theorem writeAll_cons_cons (p q : Paragraph) (rest : List Paragraph) :
    writeAll (p :: q :: rest) = p.write ++ 10 :: writeAll (q :: rest) := by
  simp [writeAll, joinWith]

theorem physLines_writeAll (ps : List Paragraph) (h : ∀ p ∈ ps, ∀ k ∈ p.order, 10 ∉ k) :
    physLines (writeAll ps) = docLines ps := by
  induction ps with
  | nil => rfl
  | cons p ps ih =>
    cases ps with
    | nil =>
      show physLines p.write = paraLines p
      exact physLines_write p (h p (by simp))
    | cons q rest =>
      rw [writeAll_cons_cons]
      unfold physLines at ih ⊢
      rw [linesAux_write p (h p (by simp))]
      simp only [linesAux, if_true, docLines]
      rw [ih (fun p' hp' => h p' (List.mem_cons_of_mem _ hp'))]
      rfl

theorem paraLines_ne_nil {p : Paragraph} (h : p.order ≠ []) : paraLines p ≠ [] := by
  unfold paraLines
  cases hp : p.order with
  | nil => exact absurd hp h
  | cons k ks => simp [fieldLines]

theorem length_docLines (ps : List Paragraph) (h : ∀ p ∈ ps, p.order ≠ []) :
    ps.length ≤ (docLines ps).length := by
  induction ps with
  | nil => simp
  | cons p ps ih =>
    have hp := List.length_pos_iff.mpr (paraLines_ne_nil (h p (by simp)))
    cases ps with
    | nil => simp only [docLines, List.length_singleton]; omega
    | cons q rest =>
      have := ih (fun p' hp' => h p' (List.mem_cons_of_mem _ hp'))
      simp only [docLines, List.length_cons, List.length_append] at this ⊢
      omega

theorem allAux_docLines (ps : List Paragraph) (h : ∀ p ∈ ps, Rereadable p) (fuel : Nat)
    (hf : ps.length < fuel) (acc : List Paragraph) :
    allAux fuel (docLines ps) acc = .ok (acc ++ ps.map reread) := by
  induction ps generalizing fuel acc with
  | nil =>
    cases fuel with
    | zero => omega
    | succ f => simp [allAux, docLines, next, nextAux, empty]
  | cons p ps ih =>
    cases fuel with
    | zero => omega
    | succ f =>
      cases ps with
      | nil =>
        cases f with
        | zero => simp at hf
        | succ f' =>
          simp only [docLines, allAux, next_paraLines (h p (by simp))]
          simp [next, nextAux, empty]
      | cons q rest =>
        simp only [docLines, allAux, next_paraLines_blank (h p (by simp))]
        rw [ih (fun p' hp' => h p' (List.mem_cons_of_mem _ hp')) f
          (by simp only [List.length_cons] at hf ⊢; omega)]
        simp

/-- a document of rereadable paragraphs re-reads paragraph by paragraph -/
theorem all_writeAll (ps : List Paragraph) (h : ∀ p ∈ ps, Rereadable p) :
    all (writeAll ps) = .ok (ps.map reread) := by
  unfold all
  simp only []
  rw [physLines_writeAll ps (fun p hp => (h p hp).no_nl)]
  have := length_docLines ps (fun p hp => (h p hp).1)
  rw [allAux_docLines ps h _ (by omega)]
  simp

theorem all_write {p : Paragraph} (h : Rereadable p) : all p.write = .ok [reread p] :=
  all_writeAll [p] (by simpa using h)

/-! ### `reread p` against `p` -/

theorem valueLines_build {t : Bytes} {ls : List Bytes} (ht : 10 ∉ t) (hls : ∀ l ∈ ls, 10 ∉ l) :
    valueLines (build t ls) = if ls.isEmpty then [t] else if t.isEmpty then ls else t :: ls := by
  unfold valueLines
  cases ls with
  | nil =>
    rw [build_nil, trimSuffix_nl_of_not_mem ht]
    have := split_joinWith (ls := [t]) (by simp) (by simpa using ht)
    simpa [joinWith] using this
  | cons x ls =>
    rw [build_ne_nil t (by simp), ← joinWith_snoc_nl (by simp)]
    by_cases he : t.isEmpty
    · simp only [he, if_true, List.nil_append, trimSuffix_snoc_nl]
      rw [split_joinWith (by simp) hls]; rfl
    · have hj : t ++ [10] ++ (joinWith [10] (x :: ls) ++ [10]) =
          joinWith [10] (t :: x :: ls) ++ [10] := by
        rw [joinWith_cons_cons]; simp
      simp only [he, Bool.false_eq_true, if_false, hj, trimSuffix_snoc_nl]
      rw [split_joinWith (by simp)]
      · rfl
      · intro l hl
        rcases List.mem_cons.mp hl with rfl | hl
        · exact ht
        · exact hls l hl

theorem valueLines_reread {v : Bytes} (h : noLeadingEmptyLine v = true) :
    valueLines (build (foldParts v).1 (foldParts v).2) = valueLines v := by
  obtain ⟨hne, hnl, _⟩ := valueLines_spec v
  obtain ⟨h1, h2⟩ := foldParts_no_nl v
  rw [valueLines_build h1 h2]
  unfold noLeadingEmptyLine at h
  unfold foldParts
  cases hv : valueLines v with
  | nil => exact absurd hv hne
  | cons first rest =>
    rw [hv] at h
    by_cases hb : trimLeftSpace first ≠ first
    · simp [if_pos hb]
    · simp only [if_neg hb]
      cases rest with
      | nil => simp
      | cons y rest =>
        simp only [List.isEmpty_cons, Bool.or_false, Bool.not_eq_eq_eq_not, Bool.not_true] at h
        simp [h]

theorem trimSuffix_eq_of_valueLines {a b : Bytes} (h : valueLines a = valueLines b) :
    trimSuffix a [10] = trimSuffix b [10] := by
  rw [← (valueLines_spec a).2.2, ← (valueLines_spec b).2.2, h]

theorem foldValue_congr {a b : Bytes} (h : valueLines a = valueLines b) :
    foldValue a = foldValue b := by
  have : foldParts a = foldParts b := by unfold foldParts; rw [h]
  rw [foldValue_eq, foldValue_eq, this]

theorem get_reread {p : Paragraph} {k : Bytes} (hk : k ∈ p.order) :
    (reread p).get k = build (foldParts (p.get k)).1 (foldParts (p.get k)).2 := by
  show (lookup k (p.order.map
    (fun k => (k, build (foldParts (p.get k)).1 (foldParts (p.get k)).2)))).getD [] = _
  rw [lookup_map_self hk (fun k => build (foldParts (p.get k)).1 (foldParts (p.get k)).2)]
  rfl

theorem valueLines_get_reread {p : Paragraph} {k : Bytes} (hk : k ∈ p.order)
    (h : noLeadingEmptyLine (p.get k) = true) :
    valueLines ((reread p).get k) = valueLines (p.get k) := by
  rw [get_reread hk, valueLines_reread h]

theorem write_reread {p : Paragraph} (h : ∀ k ∈ p.order, noLeadingEmptyLine (p.get k) = true) :
    (reread p).write = p.write := by
  unfold Paragraph.write
  show (p.order.map _).flatten = _
  congr 1
  apply List.map_congr_left
  intro k hk
  rw [foldValue_congr (valueLines_get_reread hk (h k hk))]

theorem sameUpToNewline_reread {p : Paragraph}
    (h : ∀ k ∈ p.order, noLeadingEmptyLine (p.get k) = true) :
    sameUpToNewline p (reread p) = true := by
  unfold sameUpToNewline
  simp only [Bool.and_eq_true, decide_eq_true_eq, List.all_eq_true]
  refine ⟨rfl, fun k hk => ?_⟩
  exact (trimSuffix_eq_of_valueLines (valueLines_get_reread hk (h k hk))).symm

/-! ### text paragraphs are rereadable -/

theorem nodup_of_nodupNames {ks : List Bytes} (h : Spec.Deb822.nodupNames ks = true) :
    ks.Nodup := by
  induction ks with
  | nil => exact List.nodup_nil
  | cons k ks ih =>
    simp only [Spec.Deb822.nodupNames, Bool.and_eq_true, Bool.not_eq_eq_eq_not, Bool.not_true,
      List.contains_eq_mem, decide_eq_false_iff_not] at h
    exact List.nodup_cons.mpr ⟨h.1, ih h.2⟩

theorem hasSpaceRune_append_rune {w : Bytes} (hw : spaceLen w ≠ 0) (a : Bytes) :
    hasSpaceRune (a ++ w) = true := by
  induction a with
  | nil =>
    cases w with
    | nil => exact absurd rfl hw
    | cons c w => simp [hasSpaceRune, hw]
  | cons c a ih => simp [hasSpaceRune, ih]

theorem trimmed_of_noSpaceRune {k : Bytes} (h : hasSpaceRune k = false) : Trimmed k := by
  constructor
  · cases k with
    | nil => rfl
    | cons c k =>
      simp only [hasSpaceRune, Bool.or_eq_false_iff, bne_eq_false_iff_eq] at h
      simpa using h.1
  · apply Classical.byContradiction
    intro hn
    have hm := spaceLenRev_mirror rfl hn []
    rw [List.append_nil] at hm
    have hk : k = (k.reverse.drop (spaceLenRev k.reverse)).reverse ++
        (k.reverse.take (spaceLenRev k.reverse)).reverse := by
      rw [← List.reverse_append, List.take_append_drop, List.reverse_reverse]
    have := hasSpaceRune_append_rune (w := (k.reverse.take (spaceLenRev k.reverse)).reverse)
      (by rw [hm]; exact hn) (k.reverse.drop (spaceLenRev k.reverse)).reverse
    rw [← hk, h] at this
    exact absurd this (by decide)

theorem keyOK_of_wfName {k : Bytes} (h : Spec.Deb822.wfName k = true) : KeyOK k := by
  simp only [Spec.Deb822.wfName, Spec.Deb822.noSpaceRune, Bool.and_eq_true, Bool.not_eq_eq_eq_not,
    Bool.not_true, List.contains_eq_mem, decide_eq_false_iff_not, bne_iff_ne, ne_eq] at h
  obtain ⟨⟨⟨⟨⟨_, h2⟩, h3⟩, h4⟩, h5⟩, _⟩ := h
  exact ⟨trimmed_of_noSpaceRune h2, h3, h5, h4⟩

theorem partsOK_of_textValue {v : Bytes} (h : textValue v = true) :
    PartsOK (foldParts v).1 (foldParts v).2 := by
  obtain ⟨hne, hnl, _⟩ := valueLines_spec v
  simp only [textValue, Bool.and_eq_true, List.all_eq_true] at h
  obtain ⟨hwf, _⟩ := h
  have hcont : ∀ l ∈ valueLines v, ContOK l := by
    intro l hl
    have := hwf l hl
    simp only [wfLine, Bool.and_eq_true, decide_eq_true_eq, bne_iff_ne, ne_eq] at this
    exact ⟨this.1, hnl l hl, this.2⟩
  unfold foldParts
  cases hv : valueLines v with
  | nil => exact absurd hv hne
  | cons first rest =>
    rw [hv] at hcont
    by_cases hb : trimLeftSpace first ≠ first
    · simp only [if_pos hb]
      exact ⟨trimmed_nil, by simp, hcont⟩
    · simp only [if_neg hb]
      have hf := hcont first (by simp)
      exact ⟨⟨spaceLen_of_trimLeftSpace_fixed (Classical.not_not.mp hb),
        spaceLenRev_of_trimRightSpace_fixed hf.1⟩, hf.2.1,
        fun l hl => hcont l (List.mem_cons_of_mem _ hl)⟩

theorem textPara_spec {p : Paragraph} (h : textPara p = true) :
    p.order.Nodup ∧
      (∀ k ∈ p.order, KeyOK k ∧ PartsOK (foldParts (p.get k)).1 (foldParts (p.get k)).2) ∧
      ∀ k ∈ p.order, noLeadingEmptyLine (p.get k) = true := by
  simp only [textPara, Bool.and_eq_true, List.all_eq_true] at h
  obtain ⟨⟨⟨⟨h1, h2⟩, _⟩, _⟩, h5⟩ := h
  refine ⟨nodup_of_nodupNames h1, fun k hk => ⟨keyOK_of_wfName (h2 k hk),
    partsOK_of_textValue (h5 k hk)⟩, fun k hk => ?_⟩
  have := h5 k hk
  simp only [textValue, Bool.and_eq_true] at this
  exact this.2

theorem rereadable_of_textPara {p : Paragraph} (h : textPara p = true) (hne : p.order ≠ []) :
    Rereadable p :=
  ⟨hne, (textPara_spec h).1, (textPara_spec h).2.1⟩

/-! ### no blank line is written -/

theorem blankLine_eq_false_iff (l : Bytes) : blankLine l = false ↔ ¬ IsSpaces l := by
  unfold blankLine
  rw [← trimSpace_eq_nil_iff]
  cases trimSpace l <;> simp

theorem not_blank_fieldLines {k t : Bytes} {ls : List Bytes} (hk : KeyOK k)
    (hp : ∀ l ∈ ls, ContOK l) : ∀ l ∈ fieldLines k t ls, blankLine l = false := by
  intro l hl
  rw [blankLine_eq_false_iff]
  unfold fieldLines at hl
  rcases List.mem_cons.mp hl with rfl | hl
  · have hline : k ++ [58, 32] ++ t ++ [10] = k ++ 58 :: (32 :: t ++ [10]) := by simp
    obtain ⟨c, Y', hc, _, _, _, hz⟩ := fieldLine_head hk (32 :: t ++ [10])
    rw [hline]
    exact not_isSpaces_of_zero hz (by rw [hc]; simp)
  · obtain ⟨l', hl', rfl⟩ := List.mem_map.mp hl
    obtain ⟨h1, _, h3⟩ := hp l' hl'
    show ¬ IsSpaces (32 :: ((if l'.isEmpty then [46] else l') ++ [10]))
    rw [isSpaces_cons_blank, ← trimRightSpace_eq_nil_iff, trimRightSpace_snoc_nl]
    by_cases he : l'.isEmpty
    · rw [if_pos he]; decide
    · rw [if_neg he, h1]
      intro e; rw [e] at he; exact he rfl

theorem not_blank_paraLines {p : Paragraph}
    (h : ∀ k ∈ p.order, KeyOK k ∧ PartsOK (foldParts (p.get k)).1 (foldParts (p.get k)).2) :
    ∀ l ∈ paraLines p, blankLine l = false := by
  intro l hl
  unfold paraLines at hl
  obtain ⟨k, hk, hl⟩ := List.mem_flatMap.mp hl
  exact not_blank_fieldLines (h k hk).1 (h k hk).2.2.2 l hl

end GoDebian.Lemmas.Deb822Write
